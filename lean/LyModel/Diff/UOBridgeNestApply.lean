import LyModel.Diff.UOBridgeNestDiff
/-!
# Bridge (C06) — Stage 3b, part 2: applying the parent copy — `lyd_diff_apply_r` descends into the matched container

`applyNone` on the container copy (`operation=none`) finds the container, and applies the children of the copy — the encodings
of the core's operations — to the container's children with the inherited operation `none` and a parent (`hasParent`).
Core Lean only.
-/
namespace LyModel.Diff.UOB.NB
open LyModel LyModel.Tree LyModel.Diff LyModel.Diff.UOB
set_option linter.unusedSimpArgs false
set_option linter.unusedVariables false
local instance (priority := high) bytesBEqN8 : BEq Bytes := instBEqOfDecidableEq

theorem opNodes_nil {s : Nat} {ops : List (UOG.UOp Bytes)} (h : OpNodes s [] ops) : ops = [] := by
  cases h; rfl

theorem nb_nokeys {S : Schema} {s : Nat} {P Q : List DNode} (hks : S.isKey s = false)
    (hkP : ∀ n ∈ P ++ Q, S.isKey n.sid = false) : ∀ vs, ∀ n ∈ nbForest s P Q vs, S.isKey n.sid = false := by
  intro vs n hn
  unfold nbForest at hn
  simp only [List.mem_append] at hn
  rcases hn with (h | h) | h
  · exact hkP n (by simp [h])
  · simp only [llForest, List.mem_map] at h
    obtain ⟨v, _, rfl⟩ := h
    exact hks
  · exact hkP n (by simp [h])

/-- **apply of the parent copy.** -/
theorem apply_cont {S : Schema} {s c : Nat} (C : LLCtx S s) (K : ContCtx S c) (hks : S.isKey s = false) (fx : Fixes)
    {P Q : List DNode} (hP : ∀ x ∈ P, x.sid < s) (hQ : ∀ x ∈ Q, s < x.sid) (f f' : Flags)
    {nodes : List DNode} {ops : List (UOG.UOp Bytes)} (hops : OpNodes s nodes ops) (hne : nodes.isEmpty = false)
    (X : List DNode) (l l' : List Bytes) (hd : DataLL s X l) (hap : UOG.applyU l ops = some l') :
    ∃ X', apply S [cNode c f (P ++ X ++ Q)] [.inner c f' [("operation", Op.none.bytes)] nodes] fx =
        .ok [cNode c f (P ++ X' ++ Q)] ∧ DataLL s X' l' := by
  obtain ⟨X', e1, e2⟩ := apply_ops_nb C fx (heightL nodes) true (some .none) hP hQ hops X l l' hd hap
  refine ⟨X', ?_, e2⟩
  have hnk : noKeys S nodes = nodes :=
    (dropWhile_none (fun (n : DNode) => S.isKey n.sid) nodes (fun n hn => by rw [(opNodes_flags hops n hn).2]; exact hks)).1
  have hkind : (S.isKind c .list || S.isKind c .leaflist) = false := by simp [Schema.isKind, K.kind]
  have hh : heightL [DNode.inner c f' [("operation", Op.none.bytes)] nodes] = heightL nodes + 1 := by
    simp [heightL, DNode.height]
  have he : effOp (DNode.inner c f' [("operation", Op.none.bytes)] nodes) none = some .none := by rfl
  have hci : childInhOf (DNode.inner c f' [("operation", Op.none.bytes)] nodes) none = some .none := by rfl
  have hff : findForApply S [DNode.inner c f [] (P ++ X ++ Q)] (DNode.inner c f' [("operation", Op.none.bytes)] nodes) = some 0 := by
    simp [findForApply, DNode.sid, hkind, findIdxFrom]
  unfold apply
  rw [hh]
  simp only [List.foldlM_cons, List.foldlM_nil]
  show (applyStep S fx (applyNode S fx (heightL nodes + 1)) [cNode c f (P ++ X ++ Q)] false none
      (DNode.inner c f' [("operation", Op.none.bytes)] nodes) >>= pure) = _
  have hu : (S.isUserOrd c && (Op.none == Op.create || Op.none == Op.replace)) = false := by simp
  have hrep : (fx.f126 && (some Op.none == some Op.replace) && S.isUserOrd c) = false := by
    have : (some Op.none == some Op.replace) = false := by decide
    simp [this]
  simp only [applyStep, he, DNode.sid, hu, Bool.false_eq_true, if_false, applyNone, hff, List.getElem?_cons_zero, cNode,
    DNode.isTerm, DNode.kids, hnk, hne, applyKids, hrep, hci, e1, bind, Except.bind, pure, Except.pure, DNode.setKids,
    List.set_cons_zero]

/-- **apply(A, diff(A, B)) = B** for `A = [c { P ++ instances va ++ Q }]`, `B = [c { P ++ instances vb ++ Q }]`. -/
theorem apply_diff_cont {S : Schema} {s c : Nat} (C : LLCtx S s) {P Q : List DNode} (N : NBCtx S s P Q) (K : ContCtx S c)
    (hks : S.isKey s = false) (hkP : ∀ n ∈ P ++ Q, S.isKey n.sid = false) (f : Flags) (fx : Fixes)
    (va vb : List Bytes) (nda : va.Nodup) (ndb : vb.Nodup) (hne : [] ∉ vb) :
    ∃ B', apply S [cNode c f (nbForest s P Q va)]
        (diffFromPtr S true [cNode c f (nbForest s P Q va)] [cNode c f (nbForest s P Q vb)] fx) fx = .ok B' ∧
      normL S B' = normL S [cNode c f (nbForest s P Q vb)] := by
  obtain ⟨nodes, hops, hd⟩ := diffFull_cont C N K (nb_nokeys hks hkP) f fx va vb nda ndb hne
  have hcore := UOG.userord_apply_diff va vb nda ndb
  simp only [diffFromPtr, hd, List.drop_zero]
  by_cases hemp : nodes.isEmpty = true
  · have hn : nodes = [] := List.isEmpty_iff.mp hemp
    subst hn
    have ho := opNodes_nil hops
    rw [ho] at hcore
    simp only [UOG.applyU, List.foldl_nil, Option.some.injEq] at hcore
    subst hcore
    exact ⟨_, rfl, rfl⟩
  · have hemp' : nodes.isEmpty = false := by simpa using hemp
    simp only [hemp', Bool.false_eq_true, if_false]
    obtain ⟨X', h1, h2⟩ := apply_cont C K hks fx N.ltP N.gtQ f { f with dflt := false } hops hemp' (llForest s va) va vb
      (dataLL_llForest s va) hcore
    refine ⟨_, h1, ?_⟩
    simp only [normL, normNode, cNode, nbForest, normL_app, normL_dataLL S s X' vb h2,
      normL_dataLL S s _ vb (dataLL_llForest s vb)]

end LyModel.Diff.UOB.NB
