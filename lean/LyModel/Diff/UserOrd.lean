/-!
# The user-ordered list core of `lyd_diff_siblings_r` / `lyd_diff_apply_r` (C06) — definitions and basic list lemmas

One user-ordered (leaf-)list in isolation, instances abstracted to their identity (`Nat`: the key of a list instance, the
value of a leaf-list instance).  `diffU a b` is what the two passes of `lyd_diff_siblings_r` generate for this list — first
every `delete` (instances of `a` that are not in `b`), then for each position of `b` a `create` or a `move` anchored at the
instance placed just before it — maintaining the *virtual* first list the way `lyd_diff_userord_attrs` does
(`userord_item->inst`, `pos`).  `applyU` is `lyd_diff_apply_r` + `lyd_diff_insert` for these operations.
(Ported from the design-phase calibration proof; the full tree model is `LyModel.Diff.Model` / `.Apply`.)
Core Lean only.
-/
namespace LyModel.Diff.UO

inductive UOp where
  | del (k : Nat)
  | create (k : Nat) (anchor : Option Nat)
  | move (k : Nat) (anchor : Option Nat)
  deriving Repr, DecidableEq

def insertAt (l : List Nat) (p : Nat) (x : Nat) : List Nat := l.take p ++ x :: l.drop p

/-- insert `x` right after the first occurrence of `k` -/
def insertAfterKey (k x : Nat) : List Nat → Option (List Nat)
  | [] => none
  | h :: t => if h = k then some (h :: x :: t) else (insertAfterKey k x t).map (h :: ·)

def insertAfter (l : List Nat) (anchor : Option Nat) (x : Nat) : Option (List Nat) :=
  match anchor with
  | none => some (x :: l)
  | some k => insertAfterKey k x l

def applyOp (l : Option (List Nat)) (op : UOp) : Option (List Nat) :=
  l.bind fun l => match op with
  | .del k => if k ∈ l then some (l.erase k) else none
  | .create k a => if k ∈ l then none else insertAfter l a k
  | .move k a => if k ∈ l then insertAfter (l.erase k) a k else none

def applyU (a : List Nat) (ops : List UOp) : Option (List Nat) := ops.foldl applyOp (some a)

/-- phase 1 of lyd_diff_siblings_r for one user-ordered list: deletes -/
def phase1 (b : List Nat) : List Nat → List UOp × List Nat → List UOp × List Nat
  | [], st => st
  | x :: xs, (ops, v) => if x ∈ b then phase1 b xs (ops, v) else phase1 b xs (ops ++ [.del x], v.erase x)

/-- phase 2: creates and moves, position-based with a preceding anchor -/
def phase2 (a : List Nat) : List Nat → List UOp × List Nat × Nat → List UOp × List Nat × Nat
  | [], st => st
  | y :: ys, (ops, v, pos) =>
    let anchor := if pos = 0 then none else v[pos-1]?
    if y ∈ a then
      if v[pos]? = some y then phase2 a ys (ops, v, pos+1)
      else phase2 a ys (ops ++ [.move y anchor], insertAt (v.erase y) pos y, pos+1)
    else phase2 a ys (ops ++ [.create y anchor], insertAt v pos y, pos+1)

def diffU (a b : List Nat) : List UOp :=
  let (d, v) := phase1 b a ([], a)
  (phase2 a b (d, v, 0)).1

theorem applyU_append (a : List Nat) (o1 o2 : List UOp) :
    applyU a (o1 ++ o2) = (applyU a o1).bind fun l => applyU l o2 := by
  unfold applyU
  rw [List.foldl_append]
  cases h : List.foldl applyOp (some a) o1 with
  | none =>
    simp
    induction o2 with
    | nil => rfl
    | cons o os ih => simpa [applyOp] using ih
  | some l => simp

theorem insertAfterKey_split (k x : Nat) (pre post : List Nat) (h : k ∉ pre) :
    insertAfterKey k x (pre ++ k :: post) = some (pre ++ k :: x :: post) := by
  induction pre with
  | nil => simp [insertAfterKey]
  | cons p ps ih =>
    have hp : p ≠ k := by intro e; exact h (by simp [e])
    have hps : k ∉ ps := by intro e; exact h (by simp [e])
    simp [insertAfterKey, hp, ih hps]

theorem erase_split (y : Nat) (pre post : List Nat) (h : y ∉ pre) :
    (pre ++ y :: post).erase y = pre ++ post := by
  induction pre with
  | nil => simp
  | cons p ps ih =>
    have hp : p ≠ y := by intro e; exact h (by simp [e])
    have hps : y ∉ ps := by intro e; exact h (by simp [e])
    simp [hp, ih hps]

end LyModel.Diff.UO
