import LyModel.Diff.Apply
/-!
# Well-formed trees of the proved fragment (C06)

`wfL S forest`: what `apply_diff_partial` and `diff_self_empty` assume about a data tree — it is over the fragment
(leaves, containers, system-ordered keyed lists and leaf-lists: no user-ordered and no duplicate-instance schema node),
its nodes have the shape their schema node demands, carry no metadata and no `LYD_NEW` / `LYD_WHEN_TRUE` flag (a
validated tree of a schema without `when`), and every sibling list (keys included) is in libyang's canonical order
with pairwise different instances (`canonB`).  All of it is a decidable (`Bool`) function of the tree.
Core Lean only.
-/
namespace LyModel.Diff
open LyModel LyModel.Tree

/-- key leaves as (schema id, canonical value) pairs -/
def keyPairs (ks : List DNode) : List (Nat × Bytes) := ks.map fun k => (k.sid, k.val)

/-- schema node of the fragment: leaf / container / system-ordered keyed list / system-ordered leaf-list -/
def plainSid (S : Schema) (sid : Nat) : Bool :=
  !S.isUserOrd sid && !S.isDupInst sid && (S.isTerm sid || S.isInner sid)

/-- strict canonical order of two siblings: schema order, then (sorted schema nodes only) the instance order -/
def klt (S : Schema) (x y : DNode) : Bool :=
  x.sid < y.sid || (x.sid == y.sid && S.isSorted x.sid && cmpInst S x y == .lt)

def canonB (S : Schema) : List DNode → Bool
  | [] => true
  | x :: xs => xs.all (klt S x) && canonB S xs

/-- the schema ids of the keys of list `s`: its first `nkeys` children in the pre-order table (keys are leaves) -/
def keySids (S : Schema) (s : Nat) : List Nat := (List.range (S.nkeys s)).map (· + (s + 1))

mutual
def wfNode (S : Schema) : DNode → Bool
  | .inner s f m ks =>
    plainSid S s && S.isInner s && m.isEmpty && !f.new && !f.whenTrue && (!f.dflt || S.isNpCont s) && !S.isKey s
      && (noKeys S ks).all (fun c => !S.isKey c.sid) && (keysOf S ks).all (fun k => k.isTerm && !k.flags.dflt)
      && (S.isKind s .list || (keysOf S ks).isEmpty)
      && (!S.isKind s .list || (keysOf S ks).map (·.sid) == keySids S s)
      && canonB S ks && wfL S ks
  | .term s f m _ => plainSid S s && S.isTerm s && m.isEmpty && !f.new && !f.whenTrue
def wfL (S : Schema) : List DNode → Bool
  | [] => true
  | n :: ns => wfNode S n && wfL S ns
end

/-- a well-formed forest: well-formed nodes in canonical order, no list key at this level -/
def wfForest (S : Schema) (f : List DNode) : Bool :=
  wfL S f && canonB S f && f.all (fun c => !S.isKey c.sid)

mutual
/-- What apply does not reproduce bit for bit, and `lyd_compare_siblings(…, FULL_RECURSION | DEFAULTS)` does not look at:
`LYD_NEW` (set on what apply created; validation clears it) and the default flag of non-presence containers. -/
def normNode (S : Schema) : DNode → DNode
  | .inner s f m ks => .inner s { f with new := false, dflt := if S.isNpCont s then false else f.dflt } m (normL S ks)
  | .term s f m v => .term s { f with new := false } m v
def normL (S : Schema) : List DNode → List DNode
  | [] => []
  | n :: ns => normNode S n :: normL S ns
end

mutual
/-- a node and all its descendants -/
def subnodes : DNode → List DNode
  | .inner s f m ks => .inner s f m ks :: subnodesL ks
  | .term s f m v => [.term s f m v]
def subnodesL : List DNode → List DNode
  | [] => []
  | n :: ns => subnodes n ++ subnodesL ns
end

/-- The one thing the proof asks of the values: two instances of a system-ordered list / leaf-list that the type's `sort`
callback cannot tell apart are the same instance for `lyd_compare_single`.  True for canonical values of the S1 types (the
integer order is the order of the canonical decimal strings' numbers, …); it is what finding F28 (date-and-time) violates. -/
def KeysDistinguished (S : Schema) (F : List DNode) : Prop :=
  ∀ x y, x ∈ subnodesL F → y ∈ subnodesL F → x.sid = y.sid → S.isSorted x.sid = true → cmpInst S x y = .eq →
    keyPairs (keysOf S x.kids) = keyPairs (keysOf S y.kids) ∧ x.val = y.val

/-- the same, as a check that `decide` can run on a concrete tree -/
def keysDistinguishedB (S : Schema) (F : List DNode) : Bool :=
  (subnodesL F).all fun x => (subnodesL F).all fun y =>
    !(x.sid == y.sid && S.isSorted x.sid && cmpInst S x y == .eq) ||
      (keyPairs (keysOf S x.kids) == keyPairs (keysOf S y.kids) && x.val == y.val)

theorem keysDistinguished_of_check (S : Schema) (F : List DNode) (h : keysDistinguishedB S F = true) :
    KeysDistinguished S F := by
  intro x y hx hy hs hso hc
  unfold keysDistinguishedB at h
  simp only [List.all_eq_true] at h
  have := h x hx y hy
  rw [hs] at hso
  simpa [hs, hso, hc] using this

end LyModel.Diff
