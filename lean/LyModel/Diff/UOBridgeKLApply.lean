import LyModel.Diff.UOBridgeKLThm
import LyModel.Diff.UOBridgeLLApply2
/-!
# Bridge (C06) — Stage 2a, part 5: `lyd_diff_apply_r` / `lyd_diff_insert` on one keyed user-ordered list

As `UOBridgeLLApply.lean`.  New here: the anchor travels as a key predicate (`lyd_path_list_predicate`) and is parsed back by
`lyd_create_list2` (`parsePreds`): the round trip `parsePreds (pred k) = [k]` for quotable key values.  Core Lean only.
-/
namespace LyModel.Diff.UOB.KL
open LyModel LyModel.Tree LyModel.Diff LyModel.Diff.UOB
set_option linter.unusedSimpArgs false
set_option linter.unusedVariables false
local instance (priority := high) bytesBEqK5 : BEq Bytes := instBEqOfDecidableEq

/-! ### the predicate round trip -/

theorem dropWhile_name (nm rest : Bytes) (h : 61 ∉ nm) : (nm ++ 61 :: rest).dropWhile (· != 61) = 61 :: rest := by
  induction nm with
  | nil => simp
  | cons c cs ih =>
    have hc : c ≠ 61 := fun e => h (by simp [e])
    have : (c != 61) = true := by simpa using hc
    simp only [List.cons_append, List.dropWhile_cons, this, if_true]
    exact ih (fun hh => h (by simp [hh]))

theorem takeWhile_val (z t : Bytes) (q : UInt8) (h : q ∉ z) : (z ++ q :: t).takeWhile (· != q) = z := by
  induction z with
  | nil => simp
  | cons c cs ih =>
    have hc : c ≠ q := fun e => h (by simp [e])
    have : (c != q) = true := by simpa using hc
    simp only [List.cons_append, List.takeWhile_cons, this, if_true, List.cons.injEq, true_and]
    exact ih (fun hh => h (by simp [hh]))

theorem quoteOf_cases (z : Bytes) : quoteOf z = 39 ∨ quoteOf z = 34 := by
  unfold quoteOf; split <;> simp

theorem quoteOf_not_mem {z : Bytes} (h : QOk z) : quoteOf z ∉ z := by
  unfold quoteOf
  by_cases h39 : (39 : UInt8) ∈ z
  · have : z.contains 39 = true := by simpa using h39
    simp only [this, if_true]
    exact fun h34 => h ⟨h39, h34⟩
  · have : z.contains 39 = false := by simpa using h39
    simp only [this, Bool.false_eq_true, if_false]
    exact h39

theorem pred_eq {S : Schema} {s : Nat} (C : KLCtx S s) (z : Bytes) :
    pred S s z = 91 :: (bs (S.name (s + 1)) ++ 61 :: quoteOf z :: (z ++ [quoteOf z, 93])) := by
  simp [pred, keyPredicate, klNode, keyLeaf, DNode.kids, keysOf_one C, DNode.val, DNode.sid]

theorem pred_ne_nil {S : Schema} {s : Nat} (C : KLCtx S s) (z : Bytes) : (pred S s z).isEmpty = false := by
  rw [pred_eq C]; rfl

/-- `lyd_create_list2` on what `lyd_path_list_predicate` printed gives the key value back -/
theorem parsePreds_pred {S : Schema} {s : Nat} (C : KLCtx S s) {z : Bytes} (hz : QOk z) :
    parsePreds ((pred S s z).length + 1) (pred S s z) = some [z] := by
  rw [pred_eq C]
  generalize hq : quoteOf z = q
  have hqz : q ∉ z := hq ▸ quoteOf_not_mem hz
  have hq2 : q = 39 ∨ q = 34 := hq ▸ quoteOf_cases z
  simp only [List.length_cons, parsePreds, dropWhile_name _ _ C.nameOk]
  have h1 : (q != 39 && q != 34) = false := by rcases hq2 with h | h <;> simp [h]
  simp only [h1, Bool.false_eq_true, if_false, takeWhile_val z [93] q hqz, List.drop_left', List.drop_append_length]
  simp [parsePreds]

/-! ### data siblings -/

/-- a data sibling list holding exactly the instances with the keys `l` of the list `s`; `LYD_NEW` may be set -/
def DataKL (s : Nat) (sibs : List DNode) (l : List Bytes) : Prop :=
  sibs.map keyOf = l ∧ ∀ n ∈ sibs, ∃ nw nw' k, n = .inner s { new := nw } [] [.term (s + 1) { new := nw' } [] k]

theorem DataKL.isKL {s : Nat} {sibs : List DNode} {l : List Bytes} (h : DataKL s sibs l) : ∀ n ∈ sibs, IsKL s n := by
  intro n hn
  obtain ⟨nw, nw', k, e⟩ := h.2 n hn
  exact ⟨_, _, _, k, e⟩

theorem findIdx?_key (k : Bytes) : ∀ (sibs : List DNode),
    sibs.findIdx? (fun x => decide (keyOf x = k)) =
      if k ∈ sibs.map keyOf then some ((sibs.map keyOf).idxOf k) else none
  | [] => by simp
  | x :: xs => by
    by_cases e : keyOf x = k
    · simp [List.findIdx?_cons, e, List.idxOf_cons]
    · have e' : (keyOf x == k) = false := by simpa using e
      have e2 : ¬ k = keyOf x := fun h => e h.symm
      have ih := findIdx?_key k xs
      simp only [List.findIdx?_cons, e, decide_false, List.map_cons, List.mem_cons, e2, false_or, List.idxOf_cons, e',
        cond_false, ih]
      by_cases hm : k ∈ xs.map keyOf <;> simp [hm]

/-! ### the lookups of apply -/

theorem findForApply_kl {S : Schema} {s : Nat} (C : KLCtx S s) {sibs : List DNode} {l : List Bytes} (h : DataKL s sibs l)
    (d : DNode) (hd : IsKL s d) :
    findForApply S sibs d = if keyOf d ∈ l then some (l.idxOf (keyOf d)) else none := by
  unfold findForApply
  simp only [hd.sid, C.l, Bool.true_or, if_true]
  rw [findIdxFrom_zero, findIdx?_congr_mem (q := fun x => decide (keyOf x = keyOf d)) sibs, findIdx?_key, h.1]
  intro x hx
  have hs := (h.isKL x hx).sid
  simp [instMatch, C.nd, hd.sid, hs, sameInst_kl C x d (h.isKL x hx) hd]

theorem keyVals_kl {S : Schema} {s : Nat} (C : KLCtx S s) {x : DNode} (hx : IsKL s x) : keyVals S x = [keyOf x] := by
  obtain ⟨f, m, kf, k, rfl⟩ := hx
  simp [keyVals, DNode.kids, keysOf_one C, keyOf, DNode.val]

theorem findAnchor_kl {S : Schema} {s : Nat} (C : KLCtx S s) {sibs : List DNode} {l : List Bytes} (h : DataKL s sibs l)
    {z : Bytes} (hz : QOk z) :
    findAnchor S sibs s (pred S s z) = if z ∈ l then .ok (l.idxOf z) else .error .einval := by
  unfold findAnchor
  simp only [C.nd, C.nll, Bool.false_eq_true, if_false, parsePreds_pred C hz]
  rw [findIdxFrom_zero, findIdx?_congr_mem (q := fun x => decide (keyOf x = z)) sibs, findIdx?_key, h.1]
  · by_cases hzl : z ∈ l <;> simp [hzl]
  · intro x hx
    simp [(h.isKL x hx).sid, keyVals_kl C (h.isKL x hx), Bool.beq_eq_decide_eq]

theorem findFirst_kl {s : Nat} {sibs : List DNode} {l : List Bytes} (h : DataKL s sibs l) (hne : sibs ≠ []) :
    findIdxFrom (fun x _ => x.sid == s) sibs 0 = some 0 := by
  cases sibs with
  | nil => exact absurd rfl hne
  | cons x xs => simp [findIdxFrom, (h.isKL x (by simp)).sid]

/-! ### `lyd_diff_insert` -/

theorem DataKL.insert {s : Nat} {pre post : List DNode} {l : List Bytes} {n : DNode} (h : DataKL s (pre ++ post) l)
    (hn : ∃ nw nw' k, n = .inner s { new := nw } [] [.term (s + 1) { new := nw' } [] k]) :
    DataKL s (pre ++ [n] ++ post) ((pre.map keyOf) ++ keyOf n :: post.map keyOf) := by
  refine ⟨by simp, ?_⟩
  intro x hx
  simp only [List.mem_append, List.mem_singleton] at hx
  rcases hx with (hx | hx) | hx
  · exact h.2 x (by simp [hx])
  · subst hx; exact hn
  · exact h.2 x (by simp [hx])

/-- `lyd_diff_insert` of a new instance `k` behind the anchor (`none` = first) -/
theorem insertUO_new {S : Schema} {s : Nat} (C : KLCtx S s) {sibs : List DNode} {l l' : List Bytes} (h : DataKL s sibs l)
    (n : DNode) (hn : ∃ nw nw' k, n = .inner s { new := nw } [] [.term (s + 1) { new := nw' } [] k]) (a : Option Bytes)
    (haq : ∀ z, a = some z → QOk z) (hins : UOG.insertAfter l a (keyOf n) = some l') :
    ∃ sibs', insertUO S sibs false n none (a.map (pred S s)) = .ok sibs' ∧ DataKL s sibs' l' := by
  have hns : n.sid = s := by obtain ⟨nw, nw', k, e⟩ := hn; rw [e]; rfl
  unfold insertUO
  by_cases hemp : sibs = []
  · subst hemp
    have hl : l = [] := by rw [← h.1]; rfl
    subst hl
    cases a with
    | none =>
      simp only [UOG.insertAfter, Option.some.injEq] at hins
      subst hins
      exact ⟨[n], by simp, by simp, by intro x hx; simp at hx; subst hx; exact hn⟩
    | some z => simp [UOG.insertAfter, UOG.insertAfterKey] at hins
  · have hemp' : sibs.isEmpty = false := by cases sibs <;> simp_all
    simp only [hemp', Bool.false_eq_true, if_false]
    cases a with
    | none =>
      simp only [UOG.insertAfter, Option.some.injEq] at hins
      subst hins
      simp only [Option.map_none, hns, findFirst_kl h hemp]
      refine ⟨_, rfl, ?_⟩
      have := DataKL.insert (pre := []) (post := sibs) (n := n) (by simpa using h) hn
      simpa [h.1] using this
    | some z =>
      simp only [UOG.insertAfter, insertAfterKey_eq] at hins
      by_cases hz : z ∈ l
      · simp only [hz, if_true, Option.some.injEq] at hins
        subst hins
        simp only [Option.map_some, hns, findAnchor_kl C h (haq z rfl), hz, if_true, bind, Except.bind]
        refine ⟨sibs.take (l.idxOf z + 1) ++ [n] ++ sibs.drop (l.idxOf z + 1), by simp, ?_⟩
        have := DataKL.insert (pre := sibs.take (l.idxOf z + 1)) (post := sibs.drop (l.idxOf z + 1)) (n := n)
          (by simpa using h) hn
        rw [List.map_take, List.map_drop, h.1] at this
        exact this
      · simp [hz] at hins

theorem DataKL.eraseIdx {s : Nat} {sibs : List DNode} {l : List Bytes} (h : DataKL s sibs l) (k : Bytes) :
    DataKL s (sibs.eraseIdx (l.idxOf k)) (l.erase k) := by
  refine ⟨?_, fun n hn => h.2 n (List.mem_of_mem_eraseIdx hn)⟩
  rw [map_eraseIdx', h.1, eraseIdx_idxOf]

/-- `lyd_diff_insert` of the existing instance `k` (= `sibs[idxOf k]`) behind the anchor -/
theorem insertUO_move {S : Schema} {s : Nat} (C : KLCtx S s) {sibs : List DNode} {l l' : List Bytes} (h : DataKL s sibs l)
    (n : DNode) (hn : ∃ nw nw' k, n = .inner s { new := nw } [] [.term (s + 1) { new := nw' } [] k]) (hk : (keyOf n) ∈ l) (a : Option Bytes)
    (ha1 : a ≠ some (keyOf n)) (ha2 : ¬ (a = none ∧ l.head? = some (keyOf n)))
    (haq : ∀ z, a = some z → QOk z)
    (hins : UOG.insertAfter (l.erase (keyOf n)) a (keyOf n) = some l') :
    ∃ sibs', insertUO S sibs false n (some (l.idxOf (keyOf n))) (a.map (pred S s)) = .ok sibs' ∧ DataKL s sibs' l' := by
  have hns : n.sid = s := by obtain ⟨nw, nw', k, e⟩ := hn; rw [e]; rfl
  have hemp : sibs ≠ [] := by
    intro e; subst e
    have : l = [] := by rw [← h.1]; rfl
    subst this; simp at hk
  have hemp' : sibs.isEmpty = false := by cases sibs <;> simp_all
  have he := h.eraseIdx (keyOf n)
  unfold insertUO
  simp only [hemp', Bool.false_eq_true, if_false]
  cases a with
  | none =>
    simp only [UOG.insertAfter, Option.some.injEq] at hins
    subst hins
    have hi0 : l.idxOf (keyOf n) ≠ 0 := fun e => ha2 ⟨rfl, (idxOf_zero_iff hk).mp e⟩
    simp only [Option.map_none, hns, findFirst_kl h hemp]
    have hb : (some (l.idxOf (keyOf n)) == some 0) = false := by simpa using hi0
    simp only [hb, Bool.false_eq_true, if_false]
    refine ⟨_, rfl, ?_⟩
    have := DataKL.insert (pre := []) (post := sibs.eraseIdx (l.idxOf (keyOf n))) (n := n) (by simpa using he) hn
    simpa [he.1] using this
  | some z =>
    simp only [UOG.insertAfter, insertAfterKey_eq] at hins
    by_cases hz : z ∈ l.erase (keyOf n)
    · simp only [hz, if_true, Option.some.injEq] at hins
      subst hins
      have hzl : z ∈ l := List.mem_of_mem_erase hz
      have hzk : z ≠ (keyOf n) := fun e => ha1 (by rw [e])
      have hne : l.idxOf (keyOf n) ≠ l.idxOf z := fun e => hzk (idxOf_inj hk e).symm
      have hb : (some (l.idxOf (keyOf n)) == some (l.idxOf z)) = false := by simpa using hne
      simp only [Option.map_some, hns, findAnchor_kl C h (haq z rfl), hzl, if_true, bind, Except.bind, hb, Bool.false_eq_true, if_false]
      have hidx := idxOf_erase (l := l) hzk
      rw [← hidx]
      refine ⟨_, rfl, ?_⟩
      have := DataKL.insert (pre := (sibs.eraseIdx (l.idxOf (keyOf n))).take ((l.erase (keyOf n)).idxOf z + 1))
        (post := (sibs.eraseIdx (l.idxOf (keyOf n))).drop ((l.erase (keyOf n)).idxOf z + 1)) (n := n) (by simpa using he) hn
      rw [List.map_take, List.map_drop, he.1] at this
      exact this
    · simp [hz] at hins

end LyModel.Diff.UOB.KL
