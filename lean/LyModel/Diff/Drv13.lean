import LyModel.Diff.Obs13
import LyModel.Diff.Exact13
import LyModel.Diff.Drv
import LyModel.Diff.MergeSafe
import LyModel.Diff.K13CanonDefs
import LyModel.Diff.UserOrdRev
import LyModel.Diff.UORevCore
import LyModel.Diff.UOBridgeHyp
/-! driver ops of component `diff13` (reverse and merge of diffs, C13): see harness/api_diff13.c for the protocol -/
namespace LyModel.Diff.Drv13
open LyModel LyModel.Tree LyModel.Diff.Drv

/-- `<apply-result> <verdict>`: the tree after apply (or the error), and whether it is the wanted tree -/
def applyFields (S : Schema) (fx : Fixes) (dflt : Bool) (data d want : List DNode) : String :=
  match apply S data d fx with
  | .error e => "E:" ++ e.name ++ " -"
  | .ok r =>
    (if hasDupInst S (heightL r + 1) r then "DupInstances" else dumpTok (stripNpL S r)) ++ " " ++
      obsVerdict S dflt r want

/-! the list core (Diff/UserOrd*.lean) on sequences of instance identities: `0.1.2`, `-` = empty -/
def parseNats (s : String) : Option (List Nat) :=
  if s == "-" then some [] else (s.splitOn ".").mapM String.toNat?
def showAnchor : Option Nat → String
  | none => "-"
  | some k => toString k
def showOp : UO.UOp' → String
  | .del k o => "d" ++ toString k ++ "@" ++ showAnchor o
  | .create k a => "c" ++ toString k ++ "@" ++ showAnchor a
  | .move k a o => "m" ++ toString k ++ "@" ++ showAnchor a ++ "@" ++ showAnchor o
def showOps (l : List UO.UOp') : String := if l.isEmpty then "-" else ";".intercalate (l.map showOp)

def handle (op : String) (args : List String) : String :=
  match op, args with
  | "schema", _ => Diff.Drv.handle op args
  | "diff", [dsl, a, b, o, _fx] =>
    withSchema dsl fun S => withTree S a fun A => withTree S b fun B =>
      "ok " ++ dumpTok (stripNpL S (diff S (o != "0") A B))
  | "exact", [dsl, a, b, o, _fx] =>
    -- model only: is the diff of the model an exact diff of the fragment (Exact13.lean)?  fields: good(A) good(B) no-userord exact
    withSchema dsl fun S => withTree S a fun A => withTree S b fun B =>
      let D := diff S (o != "0") A B
      let b := fun (x : Bool) => if x then "1" else "0"
      "ok " ++ b (goodT S A) ++ " " ++ b (goodT S B) ++ " " ++ b (noUserOrdL S D) ++ " " ++ b (exactDiff S A D)
  | "reverse", [dsl, a, b, o, fx] =>
    withSchema dsl fun S => withTree S a fun A => withTree S b fun B =>
      let dflt := o != "0"
      match reverse S (diff S dflt A B) with
      | .error e => "err Reverse:" ++ e.name
      | .ok R => "ok " ++ dumpTok (stripNpL S R) ++ " " ++ applyFields S (parseFixes fx) dflt B R A
  | "merge3", [dsl, a, b, c, o, mo, fx] =>
    withSchema dsl fun S => withTree S a fun A => withTree S b fun B => withTree S c fun C =>
      let dflt := o != "0"
      match mergeDiff { defaults := mo != "0" } S (diff S dflt A B) (diff S dflt B C) with
      | .error e => "err Merge:" ++ e.name
      | .ok M => "ok " ++ dumpTok (stripNpL S M) ++ " " ++ applyFields S (parseFixes fx) dflt A M C
  | "hyp3", [dsl, a, b, c, _fx] =>
    -- model only: the hypotheses of Props/C13Tree.lean merge_apply_partial_tree, evaluated on the triple:
    -- schemaOK  wfForest(A,B,C)  canonT(A,B,C)  mergeSafe(diff(A,B), diff(B,C))  mergeSafe0(diff(A,B), diff(B,C))
    -- (the last two agree on well-formed trees: Diff/LemmasKeyCopy.lean mergeSafe_of_computed)
    withSchema dsl fun S => withTree S a fun A => withTree S b fun B => withTree S c fun C =>
      let b := fun (x : Bool) => if x then "1" else "0"
      "ok " ++ b (K13.schemaOK S) ++ " " ++ b (wfForest S A && wfForest S B && wfForest S C) ++ " " ++
        b (K13.canonT S A && K13.canonT S B && K13.canonT S C) ++ " " ++
        b (mergeSafe S (diff S true A B) (diff S true B C)) ++ " " ++ b (mergeSafe0 S (diff S true A B) (diff S true B C))
  | "uohdiff", [dsl, a, b] =>
    -- model only: the hypothesis `hdiff` of Props/C13RevUOTree.lean reverse_apply_userord_flat_ll_fixed_of_diff — for two flat
    -- sibling lists of one user-ordered configuration leaf-list (`UOB.flatLL`, else `-`), is the model's diff (= libyang's, stage 1 of
    -- the check) the encoding of `UORev.diffO` on the values, orig-value included?
    -- the instances of the first user-ordered configuration leaf-list among the siblings are taken on their own (`A'`, `B'`; the
    -- built trees also carry the default container); both the diff of the flat lists and the part of the full diff on that leaf-list
    -- have to be the encoding
    withSchema dsl fun S => withTree S a fun A => withTree S b fun B =>
      match (A ++ B).find? (fun n => S.kind? n.sid == some .leaflist && S.isUserOrd n.sid && S.config n.sid) with
      | none => "ok -"
      | some n0 =>
        let A' := A.filter (·.sid == n0.sid)
        let B' := B.filter (·.sid == n0.sid)
        match UOB.flatLL S A' B' with
        | none => "ok -"
        | some s =>
          if (A'.map (·.val)).contains [] then "ok -"
          else
            let want := (UORev.diffO (A'.map (·.val)) (B'.map (·.val))).map (UORev.enc s)
            if beqL (diff S true A' B') want && beqL ((diff S true A B).filter (·.sid == s)) want then "ok 1" else "ok 0"
  | "uocore", [a, b] =>
    -- model only: the operations of the list core for one user-ordered (leaf-)list, `UO.diffU'` and its repaired reversal
    -- `UO.reverseU` (Props/C13RevUO.lean: userord_reverse_apply); the check compares them with libyang's diff nodes
    match parseNats a, parseNats b with
    | some x, some y => "ok " ++ showOps (UO.diffU' x y) ++ " " ++ showOps (UO.reverseU (UO.diffU' x y))
    | _, _ => "err BadArgs"
  | _, _ => "err BadOp"

end LyModel.Diff.Drv13
