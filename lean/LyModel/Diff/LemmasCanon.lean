import LyModel.Diff.LemmasKey
/-!
# Canonical sibling lists under insert / erase / update (C06 proofs)
Core Lean only.
-/
namespace LyModel.Diff
open LyModel LyModel.Tree

theorem klt_sid_le (S : Schema) (x y : DNode) (h : klt S x y = true) : x.sid ≤ y.sid := by
  unfold klt at h
  simp only [Bool.or_eq_true, decide_eq_true_eq, Bool.and_eq_true, beq_iff_eq] at h
  rcases h with h | ⟨⟨h, _⟩, _⟩ <;> omega

theorem klt_of_sid_lt (S : Schema) (x y : DNode) (h : x.sid < y.sid) : klt S x y = true := by
  simp [klt, h]

theorem mem_insertBySchema (n : DNode) : ∀ (l : List DNode) (x : DNode), x ∈ insertBySchema n l ↔ x = n ∨ x ∈ l
  | [], x => by simp [insertBySchema]
  | y :: ys, x => by
    simp only [insertBySchema]
    split
    · simp
    · simp only [List.mem_cons, mem_insertBySchema n ys x]
      constructor
      · rintro (h | h | h) <;> simp [h]
      · rintro (h | h | h) <;> simp [h]

theorem mem_insertSorted (S : Schema) (n : DNode) : ∀ (l : List DNode) (x : DNode), x ∈ insertSorted S n l ↔ x = n ∨ x ∈ l
  | [], x => by simp [insertSorted]
  | y :: ys, x => by
    simp only [insertSorted]
    split
    · simp
    · split
      · simp
      · simp only [List.mem_cons, mem_insertSorted S n ys x]
        constructor
        · rintro (h | h | h) <;> simp [h]
        · rintro (h | h | h) <;> simp [h]

theorem mem_insertNode (S : Schema) (l : List DNode) (n x : DNode) : x ∈ insertNode S l n ↔ x = n ∨ x ∈ l := by
  unfold insertNode
  split
  · exact mem_insertSorted S n l x
  · exact mem_insertBySchema n l x

/-- insertion by schema order keeps the list canonical, provided no sibling of a later-or-equal … (see hypotheses) -/
theorem insertBySchema_canon (S : Schema) (n : DNode) : ∀ (l : List DNode),
    canonB S l = true →
    (∀ x ∈ l, klt S x n = true ∨ klt S n x = true) →
    (∀ x ∈ l, klt S n x = true → n.sid < x.sid) →
    canonB S (insertBySchema n l) = true
  | [], _, _, _ => by simp [insertBySchema, canonB]
  | y :: ys, hc, htot, hlt => by
    have hc' := (canonB_cons S y ys).1 hc
    simp only [insertBySchema]
    split
    · rename_i h
      refine (canonB_cons S n _).2 ⟨?_, hc⟩
      intro z hz
      rcases List.mem_cons.1 hz with hz | hz
      · subst hz; exact klt_of_sid_lt S n z h
      · have := klt_sid_le S y z (hc'.1 z hz)
        exact klt_of_sid_lt S n z (by omega)
    · rename_i h
      refine (canonB_cons S y _).2 ⟨?_, insertBySchema_canon S n ys hc'.2 (fun x hx => htot x (by simp [hx]))
        (fun x hx => hlt x (by simp [hx]))⟩
      intro z hz
      rcases (mem_insertBySchema n ys z).1 hz with hz | hz
      · subst hz
        rcases htot y (by simp) with h1 | h1
        · exact h1
        · exact absurd (hlt y (by simp) h1) h
      · exact hc'.1 z hz

theorem insertSorted_canon (S : Schema) (n : DNode) (hs : S.isSorted n.sid = true) : ∀ (l : List DNode),
    canonB S l = true →
    (∀ x ∈ l, klt S x n = true ∨ klt S n x = true) →
    (∀ x ∈ l, ∀ z ∈ l, klt S n x = true → klt S x z = true → klt S n z = true) →
    canonB S (insertSorted S n l) = true
  | [], _, _, _ => by simp [insertSorted, canonB]
  | y :: ys, hc, htot, htr => by
    have hc' := (canonB_cons S y ys).1 hc
    simp only [insertSorted]
    split
    · rename_i h
      simp only [Bool.and_eq_true, beq_iff_eq] at h
      have hny : klt S n y = true := by
        unfold klt; simp [h.1, hs, h.2]
      refine (canonB_cons S n _).2 ⟨?_, hc⟩
      intro z hz
      rcases List.mem_cons.1 hz with hz | hz
      · subst hz; exact hny
      · exact htr y (by simp) z (by simp [hz]) hny (hc'.1 z hz)
    · rename_i h1
      split
      · rename_i h
        refine (canonB_cons S n _).2 ⟨?_, hc⟩
        intro z hz
        rcases List.mem_cons.1 hz with hz | hz
        · subst hz; exact klt_of_sid_lt S n z h
        · have := klt_sid_le S y z (hc'.1 z hz)
          exact klt_of_sid_lt S n z (by omega)
      · rename_i h2
        refine (canonB_cons S y _).2 ⟨?_, insertSorted_canon S n hs ys hc'.2 (fun x hx => htot x (by simp [hx]))
          (fun x hx z hz => htr x (by simp [hx]) z (by simp [hz]))⟩
        intro z hz
        rcases (mem_insertSorted S n ys z).1 hz with hz | hz
        · subst hz
          rcases htot y (by simp) with h | h
          · exact h
          · -- `n` before `y` would have stopped the scan
            exfalso
            unfold klt at h
            simp only [Bool.or_eq_true, decide_eq_true_eq, Bool.and_eq_true, beq_iff_eq] at h
            rcases h with h | ⟨⟨ha, _⟩, hb⟩
            · exact h2 h
            · exact h1 (by simp [ha, hb])
        · exact hc'.1 z hz

/-- `lyd_insert_node` keeps a canonical sibling list canonical when the new instance is comparable with every sibling -/
theorem insertNode_canon (S : Schema) (l : List DNode) (n : DNode)
    (hc : canonB S l = true)
    (htot : ∀ x ∈ l, klt S x n = true ∨ klt S n x = true)
    (htr : ∀ x ∈ l, ∀ z ∈ l, klt S n x = true → klt S x z = true → klt S n z = true) :
    canonB S (insertNode S l n) = true := by
  unfold insertNode
  split
  · rename_i h
    simp only [Bool.and_eq_true] at h
    exact insertSorted_canon S n h.1 l hc htot htr
  · rename_i h
    apply insertBySchema_canon S n l hc htot
    intro x hx hk
    unfold klt at hk
    simp only [Bool.or_eq_true, decide_eq_true_eq, Bool.and_eq_true, beq_iff_eq] at hk
    rcases hk with hk | ⟨⟨ha, hb⟩, _⟩
    · exact hk
    · exfalso
      apply h
      simp only [Bool.and_eq_true, hb, true_and, List.any_eq_true, beq_iff_eq]
      exact ⟨x, hx, ha.symm⟩

end LyModel.Diff
