import LyModel.Diff.LemmasKey
/-!
# Canonical sibling lists under insert / erase / update (C06 proofs)
Core Lean only.
-/
namespace LyModel.Diff
open LyModel LyModel.Tree

theorem klt_sid_le (S : Schema) (x y : DNode) (h : klt S x y = true) : x.sid ≤ y.sid := by
  unfold klt at h
  simp only [Bool.or_eq_true, decide_eq_true_eq, Bool.and_eq_true, beq_iff_eq] at h
  rcases h with h | ⟨⟨h, _⟩, _⟩ <;> omega

theorem klt_of_sid_lt (S : Schema) (x y : DNode) (h : x.sid < y.sid) : klt S x y = true := by
  simp [klt, h]

theorem mem_insertBySchema (n : DNode) : ∀ (l : List DNode) (x : DNode), x ∈ insertBySchema n l ↔ x = n ∨ x ∈ l
  | [], x => by simp [insertBySchema]
  | y :: ys, x => by
    simp only [insertBySchema]
    split
    · simp
    · simp only [List.mem_cons, mem_insertBySchema n ys x]
      constructor
      · rintro (h | h | h) <;> simp [h]
      · rintro (h | h | h) <;> simp [h]

theorem mem_insertSorted (S : Schema) (n : DNode) : ∀ (l : List DNode) (x : DNode), x ∈ insertSorted S n l ↔ x = n ∨ x ∈ l
  | [], x => by simp [insertSorted]
  | y :: ys, x => by
    simp only [insertSorted]
    split
    · simp
    · split
      · simp
      · simp only [List.mem_cons, mem_insertSorted S n ys x]
        constructor
        · rintro (h | h | h) <;> simp [h]
        · rintro (h | h | h) <;> simp [h]

theorem mem_insertNode (S : Schema) (l : List DNode) (n x : DNode) : x ∈ insertNode S l n ↔ x = n ∨ x ∈ l := by
  unfold insertNode
  split
  · exact mem_insertSorted S n l x
  · exact mem_insertBySchema n l x

/-- insertion by schema order keeps the list canonical, provided no sibling of a later-or-equal … (see hypotheses) -/
theorem insertBySchema_canon (S : Schema) (n : DNode) : ∀ (l : List DNode),
    canonB S l = true →
    (∀ x ∈ l, klt S x n = true ∨ klt S n x = true) →
    (∀ x ∈ l, klt S n x = true → n.sid < x.sid) →
    canonB S (insertBySchema n l) = true
  | [], _, _, _ => by simp [insertBySchema, canonB]
  | y :: ys, hc, htot, hlt => by
    have hc' := (canonB_cons S y ys).1 hc
    simp only [insertBySchema]
    split
    · rename_i h
      refine (canonB_cons S n _).2 ⟨?_, hc⟩
      intro z hz
      rcases List.mem_cons.1 hz with hz | hz
      · subst hz; exact klt_of_sid_lt S n z h
      · have := klt_sid_le S y z (hc'.1 z hz)
        exact klt_of_sid_lt S n z (by omega)
    · rename_i h
      refine (canonB_cons S y _).2 ⟨?_, insertBySchema_canon S n ys hc'.2 (fun x hx => htot x (by simp [hx]))
        (fun x hx => hlt x (by simp [hx]))⟩
      intro z hz
      rcases (mem_insertBySchema n ys z).1 hz with hz | hz
      · subst hz
        rcases htot y (by simp) with h1 | h1
        · exact h1
        · exact absurd (hlt y (by simp) h1) h
      · exact hc'.1 z hz

theorem insertSorted_canon (S : Schema) (n : DNode) (hs : S.isSorted n.sid = true) : ∀ (l : List DNode),
    canonB S l = true →
    (∀ x ∈ l, klt S x n = true ∨ klt S n x = true) →
    (∀ x ∈ l, ∀ z ∈ l, klt S n x = true → klt S x z = true → klt S n z = true) →
    canonB S (insertSorted S n l) = true
  | [], _, _, _ => by simp [insertSorted, canonB]
  | y :: ys, hc, htot, htr => by
    have hc' := (canonB_cons S y ys).1 hc
    simp only [insertSorted]
    split
    · rename_i h
      simp only [Bool.and_eq_true, beq_iff_eq] at h
      have hny : klt S n y = true := by
        unfold klt; simp [h.1, hs, h.2]
      refine (canonB_cons S n _).2 ⟨?_, hc⟩
      intro z hz
      rcases List.mem_cons.1 hz with hz | hz
      · subst hz; exact hny
      · exact htr y (by simp) z (by simp [hz]) hny (hc'.1 z hz)
    · rename_i h1
      split
      · rename_i h
        refine (canonB_cons S n _).2 ⟨?_, hc⟩
        intro z hz
        rcases List.mem_cons.1 hz with hz | hz
        · subst hz; exact klt_of_sid_lt S n z h
        · have := klt_sid_le S y z (hc'.1 z hz)
          exact klt_of_sid_lt S n z (by omega)
      · rename_i h2
        refine (canonB_cons S y _).2 ⟨?_, insertSorted_canon S n hs ys hc'.2 (fun x hx => htot x (by simp [hx]))
          (fun x hx z hz => htr x (by simp [hx]) z (by simp [hz]))⟩
        intro z hz
        rcases (mem_insertSorted S n ys z).1 hz with hz | hz
        · subst hz
          rcases htot y (by simp) with h | h
          · exact h
          · -- `n` before `y` would have stopped the scan
            exfalso
            unfold klt at h
            simp only [Bool.or_eq_true, decide_eq_true_eq, Bool.and_eq_true, beq_iff_eq] at h
            rcases h with h | ⟨⟨ha, _⟩, hb⟩
            · exact h2 h
            · exact h1 (by simp [ha, hb])
        · exact hc'.1 z hz

/-- `lyd_insert_node` keeps a canonical sibling list canonical when the new instance is comparable with every sibling -/
theorem insertNode_canon (S : Schema) (l : List DNode) (n : DNode)
    (hc : canonB S l = true)
    (htot : ∀ x ∈ l, klt S x n = true ∨ klt S n x = true)
    (htr : ∀ x ∈ l, ∀ z ∈ l, klt S n x = true → klt S x z = true → klt S n z = true) :
    canonB S (insertNode S l n) = true := by
  unfold insertNode
  split
  · rename_i h
    simp only [Bool.and_eq_true] at h
    exact insertSorted_canon S n h.1 l hc htot htr
  · rename_i h
    apply insertBySchema_canon S n l hc htot
    intro x hx hk
    unfold klt at hk
    simp only [Bool.or_eq_true, decide_eq_true_eq, Bool.and_eq_true, beq_iff_eq] at hk
    rcases hk with hk | ⟨⟨ha, hb⟩, _⟩
    · exact hk
    · exfalso
      apply h
      simp only [Bool.and_eq_true, hb, true_and, List.any_eq_true, beq_iff_eq]
      exact ⟨x, hx, ha.symm⟩

/-! ### finding an instance by its key -/

theorem matchK_congr (S : Schema) (t a : DNode) (hk : kkey S t = kkey S a) (hd : S.isDupInst a.sid = false) :
    matchK S t = matchK S a := by
  funext x
  have hs := kkey_sid S t a hk
  have hd' : S.isDupInst t.sid = false := by rw [hs]; exact hd
  have h1 := matchK_iff_kkey S t x hd'
  have h2 := matchK_iff_kkey S a x hd
  rw [hk] at h1
  cases h : matchK S t x <;> cases h' : matchK S a x <;> simp_all

/-- in a canonical sibling list the instance with the key of `t` is what `lyd_find_sibling_first` returns -/
theorem findIdx_key (S : Schema) (l : List DNode) (i : Nat) (a t : DNode)
    (hc : canonB S l = true) (hs : ∀ x ∈ l, shapeOk S x = true) (hg : l[i]? = some a)
    (hk : kkey S t = kkey S a) (hd : S.isDupInst a.sid = false) :
    l.findIdx? (matchK S t) = some i := by
  rw [matchK_congr S t a hk hd]
  exact findIdx_self S l i a hc hs hg

theorem findIdx_none (S : Schema) (l : List DNode) (t : DNode) (hd : S.isDupInst t.sid = false)
    (h : ∀ x ∈ l, kkey S x ≠ kkey S t) : l.findIdx? (matchK S t) = none := by
  rw [List.findIdx?_eq_none_iff]
  intro x hx
  have := matchK_iff_kkey S t x hd
  cases hm : matchK S t x with
  | false => rfl
  | true => exact absurd (this.1 hm) (h x hx)

theorem findForApply_eq (S : Schema) (sibs : List DNode) (d : DNode) (hd : S.isDupInst d.sid = false) :
    findForApply S sibs d = sibs.findIdx? (matchK S d) := by
  unfold findForApply
  have : (fun (x : DNode) (_ : Nat) => x.sid == d.sid && instMatch S d x) = (fun x _ => x.sid == d.sid && sameInst S x d) := by
    funext x _
    simp [instMatch, hd]
  split
  · rename_i h
    rw [this, findIdxFrom_zero]
    congr 1
    funext x
    simp [matchK, h]
  · rename_i h
    rw [findIdxFrom_zero]
    congr 1
    funext x
    simp [matchK, h]

/-! ### erase and update -/

theorem canonB_eraseIdx (S : Schema) (l : List DNode) (i : Nat) (h : canonB S l = true) : canonB S (l.eraseIdx i) = true :=
  canonB_sublist S (List.eraseIdx_sublist l i) h

/-- replacing an instance by one with the same key keeps the list canonical -/
theorem canonB_set (S : Schema) : ∀ (l : List DNode) (i : Nat) (a y : DNode),
    canonB S l = true → (∀ x ∈ l, shapeOk S x = true) → shapeOk S y = true → l[i]? = some a → kkey S y = kkey S a →
    canonB S (l.set i y) = true
  | [], _, _, _, _, _, _, h, _ => by simp at h
  | x :: xs, 0, a, y, hc, hs, hy, hg, hk => by
    simp only [List.getElem?_cons_zero, Option.some.injEq] at hg
    subst hg
    have hc' := (canonB_cons S x xs).1 hc
    simp only [List.set_cons_zero]
    refine (canonB_cons S y xs).2 ⟨?_, hc'.2⟩
    intro z hz
    rw [klt_eq_kltK S y z hy (hs z (by simp [hz])), hk, ← klt_eq_kltK S x z (hs x (by simp)) (hs z (by simp [hz]))]
    exact hc'.1 z hz
  | x :: xs, i + 1, a, y, hc, hs, hy, hg, hk => by
    simp only [List.getElem?_cons_succ] at hg
    have hc' := (canonB_cons S x xs).1 hc
    simp only [List.set_cons_succ]
    refine (canonB_cons S x _).2 ⟨?_, canonB_set S xs i a y hc'.2 (fun z hz => hs z (by simp [hz])) hy hg hk⟩
    intro z hz
    rcases List.mem_or_eq_of_mem_set hz with hz | hz
    · exact hc'.1 z hz
    · subst hz
      have ha : a ∈ xs := List.mem_of_getElem? hg
      rw [klt_eq_kltK S x z (hs x (by simp)) hy, hk, ← klt_eq_kltK S x a (hs x (by simp)) (hs a (by simp [ha]))]
      exact hc'.1 a ha

/-! ### two canonical lists with the same keys -/

theorem normL_append (S : Schema) : ∀ (l1 l2 : List DNode), normL S (l1 ++ l2) = normL S l1 ++ normL S l2
  | [], _ => by simp [normL]
  | x :: xs, l2 => by simp [normL, normL_append S xs l2]

/-- Canonical sibling lists that contain the same instances (by key), pairwise equal up to `normNode`, are equal up
to `normL`: the order is determined by the keys. -/
theorem canon_ext (S : Schema) (P : Key → Prop)
    (hasym : ∀ k1 k2, P k1 → P k2 → kltK S k1 k2 = true → kltK S k2 k1 = false) :
    ∀ (l1 l2 : List DNode), canonB S l1 = true → canonB S l2 = true →
    (∀ x ∈ l1, shapeOk S x = true ∧ P (kkey S x)) → (∀ y ∈ l2, shapeOk S y = true ∧ P (kkey S y)) →
    (∀ x ∈ l1, ∃ y ∈ l2, kkey S x = kkey S y ∧ normNode S x = normNode S y) →
    (∀ y ∈ l2, ∃ x ∈ l1, kkey S x = kkey S y) →
    normL S l1 = normL S l2
  | [], [], _, _, _, _, _, _ => rfl
  | [], y :: ys, _, _, _, _, _, h2 => by
    obtain ⟨x, hx, _⟩ := h2 y (by simp)
    simp at hx
  | a :: t1, [], _, _, _, _, h1, _ => by
    obtain ⟨y, hy, _⟩ := h1 a (by simp)
    simp at hy
  | a :: t1, b :: t2, hc1, hc2, hs1, hs2, h1, h2 => by
    have hc1' := (canonB_cons S a t1).1 hc1
    have hc2' := (canonB_cons S b t2).1 hc2
    have hsa := (hs1 a (by simp)).1
    have hsb := (hs2 b (by simp)).1
    -- the heads have the same key
    have hab : kkey S a = kkey S b := by
      obtain ⟨y, hy, hky, _⟩ := h1 a (by simp)
      rcases List.mem_cons.1 hy with hy | hy
      · subst hy; exact hky
      · obtain ⟨x, hx, hkx⟩ := h2 b (by simp)
        rcases List.mem_cons.1 hx with hx | hx
        · subst hx; exact hkx
        · exfalso
          have e1 : kltK S (kkey S b) (kkey S a) = true := by
            rw [hky, ← klt_eq_kltK S b y hsb (hs2 y (by simp [hy])).1]; exact hc2'.1 y hy
          have e2 : kltK S (kkey S a) (kkey S b) = true := by
            rw [← hkx, ← klt_eq_kltK S a x hsa (hs1 x (by simp [hx])).1]; exact hc1'.1 x hx
          rw [hasym _ _ (hs2 b (by simp)).2 (hs1 a (by simp)).2 e1] at e2
          exact absurd e2 (by decide)
    -- and are equal up to norm
    have hnab : normNode S a = normNode S b := by
      obtain ⟨y, hy, hky, hny⟩ := h1 a (by simp)
      rcases List.mem_cons.1 hy with hy | hy
      · subst hy; exact hny
      · exfalso
        exact kkey_ne_of_klt S b y hsb (hs2 y (by simp [hy])).1 (hc2'.1 y hy) (by rw [← hab, hky])
    have ih := canon_ext S P hasym t1 t2 hc1'.2 hc2'.2 (fun x hx => hs1 x (by simp [hx])) (fun y hy => hs2 y (by simp [hy]))
      (by
        intro x hx
        obtain ⟨y, hy, hky, hny⟩ := h1 x (by simp [hx])
        rcases List.mem_cons.1 hy with hy | hy
        · subst hy
          exfalso
          exact kkey_ne_of_klt S a x hsa (hs1 x (by simp [hx])).1 (hc1'.1 x hx) (by rw [hab, hky])
        · exact ⟨y, hy, hky, hny⟩)
      (by
        intro y hy
        obtain ⟨x, hx, hkx⟩ := h2 y (by simp [hy])
        rcases List.mem_cons.1 hx with hx | hx
        · subst hx
          exfalso
          exact kkey_ne_of_klt S b y hsb (hs2 y (by simp [hy])).1 (hc2'.1 y hy) (by rw [← hab, hkx])
        · exact ⟨x, hx, hkx⟩)
    simp [normL, hnab, ih]

/-! ### inserting behind everything -/

theorem insertBySchema_append (S : Schema) (n : DNode) : ∀ (l : List DNode),
    (∀ x ∈ l, klt S x n = true) → insertBySchema n l = l ++ [n]
  | [], _ => rfl
  | x :: xs, h => by
    have hx := klt_sid_le S x n (h x (by simp))
    have : ¬ n.sid < x.sid := by omega
    simp only [insertBySchema, this, if_false, List.cons_append, List.cons.injEq, true_and]
    exact insertBySchema_append S n xs (fun y hy => h y (by simp [hy]))

theorem insertSorted_append (S : Schema) (n : DNode) (hs : S.isSorted n.sid = true) : ∀ (l : List DNode),
    (∀ x ∈ l, klt S x n = true ∧ klt S n x = false) → insertSorted S n l = l ++ [n]
  | [], _ => rfl
  | x :: xs, h => by
    have hx := klt_sid_le S x n (h x (by simp)).1
    have h2 : ¬ n.sid < x.sid := by omega
    have h1 : (x.sid == n.sid && cmpInst S n x == .lt) = false := by
      cases hc : (x.sid == n.sid && cmpInst S n x == .lt) with
      | false => rfl
      | true =>
        simp only [Bool.and_eq_true, beq_iff_eq] at hc
        have : klt S n x = true := by unfold klt; simp [hc.1, hs, hc.2]
        rw [(h x (by simp)).2] at this
        exact absurd this (by decide)
    simp only [insertSorted, h1, h2, Bool.false_eq_true, if_false, List.cons_append, List.cons.injEq, true_and]
    exact insertSorted_append S n hs xs (fun y hy => h y (by simp [hy]))

/-- a node that is greater than every sibling is appended -/
theorem insertNode_append (S : Schema) (l : List DNode) (n : DNode)
    (h : ∀ x ∈ l, klt S x n = true ∧ klt S n x = false) : insertNode S l n = l ++ [n] := by
  unfold insertNode
  split
  · rename_i hc
    simp only [Bool.and_eq_true] at hc
    exact insertSorted_append S n hc.1 l h
  · exact insertBySchema_append S n l (fun x hx => (h x hx).1)

theorem canonB_append_singleton (S : Schema) : ∀ (l : List DNode) (n : DNode),
    canonB S (l ++ [n]) = true → ∀ x ∈ l, klt S x n = true
  | [], _, _, _, hx => by simp at hx
  | y :: ys, n, h, x, hx => by
    have h' := (canonB_cons S y (ys ++ [n])).1 (by simpa using h)
    rcases List.mem_cons.1 hx with hx | hx
    · subst hx; exact h'.1 n (by simp)
    · exact canonB_append_singleton S ys n h'.2 x hx

theorem canonB_prefix (S : Schema) (l1 l2 : List DNode) (h : canonB S (l1 ++ l2) = true) : canonB S l1 = true :=
  canonB_sublist S (List.sublist_append_left l1 l2) h

end LyModel.Diff
