import LyModel.Diff.UORevCore
import LyModel.Diff.UORevApply
import LyModel.Diff.Lemmas13Norm
/-!
# C13 bridge, step (iii): composition — reverse + apply of the encodings of `diffO va vb` gives `va` back

The operations of `diffO` never use the empty value as an anchor when no instance has it (`diffO_ne`) and every move changes the
predecessor (`diffO_chain`), so `reverse_apply_enc` applies; the list core gives `va` (`InvChain`).  Core Lean only.
-/
namespace LyModel.Diff.UORev
open LyModel LyModel.Tree LyModel.Diff LyModel.Diff.UOG LyModel.Diff.UOB

local instance (priority := high) bytesBEq' : BEq Bytes := instBEqOfDecidableEq

/-- no anchor and no original anchor is the empty value -/
def NE : UOpO → Prop
  | .del _ o => o ≠ some []
  | .create _ a => a ≠ some []
  | .move _ a o => a ≠ some [] ∧ o ≠ some []

theorem predOf_ne {x : Bytes} {v : List Bytes} (hv : [] ∉ v) : predOf x v ≠ some [] := by
  unfold predOf
  intro e
  exact hv ((List.takeWhile_sublist _).subset (List.mem_of_getLast? e))

theorem anchorIdx_ne {v : List Bytes} (hv : [] ∉ v) (pos : Nat) : (if pos = 0 then none else v[pos - 1]?) ≠ some [] := by
  split
  · simp
  · intro e
    exact hv (List.mem_of_getElem? e)

theorem not_mem_erase' {v : List Bytes} {x : Bytes} (hv : [] ∉ v) : [] ∉ v.erase x := fun h => hv (List.mem_of_mem_erase h)

theorem not_mem_insertAt {v : List Bytes} {y : Bytes} (hv : [] ∉ v) (hy : y ≠ []) (p : Nat) : [] ∉ insertAt v p y := by
  unfold insertAt
  simp only [List.mem_append, List.mem_cons]
  rintro (h | h | h)
  · exact hv (List.mem_of_mem_take h)
  · exact hy h.symm
  · exact hv (List.mem_of_mem_drop h)

theorem phase1O_ne (b : List Bytes) : ∀ (todo : List Bytes) (ops : List UOpO) (v : List Bytes), [] ∉ v → (∀ op ∈ ops, NE op) →
    (∀ op ∈ (phase1O b todo (ops, v)).1, NE op) ∧ [] ∉ (phase1O b todo (ops, v)).2
  | [], ops, v, hv, ho => ⟨ho, hv⟩
  | x :: xs, ops, v, hv, ho => by
    by_cases hx : x ∈ b
    · simp only [phase1O, hx, if_true]
      exact phase1O_ne b xs ops v hv ho
    · simp only [phase1O, hx, if_false]
      refine phase1O_ne b xs _ _ (not_mem_erase' hv) ?_
      intro op hop
      rcases List.mem_append.mp hop with h | h
      · exact ho op h
      · simp only [List.mem_singleton] at h
        subst h
        exact predOf_ne hv

theorem phase2O_ne (a : List Bytes) : ∀ (ys : List Bytes) (ops : List UOpO) (v : List Bytes) (pos : Nat), [] ∉ v → [] ∉ ys →
    (∀ op ∈ ops, NE op) → ∀ op ∈ (phase2O a ys (ops, v, pos)).1, NE op
  | [], ops, v, pos, _, _, ho => ho
  | y :: ys, ops, v, pos, hv, hys, ho => by
    have hy : y ≠ [] := fun e => hys (by simp [e])
    have hys' : [] ∉ ys := fun h => hys (by simp [h])
    by_cases hya : y ∈ a
    · by_cases hh : v[pos]? = some y
      · simp only [phase2O, hya, if_true, hh]
        exact phase2O_ne a ys ops v (pos + 1) hv hys' ho
      · simp only [phase2O, hya, if_true, hh, if_false]
        refine phase2O_ne a ys _ _ (pos + 1) (not_mem_insertAt (not_mem_erase' hv) hy pos) hys' ?_
        intro op hop
        rcases List.mem_append.mp hop with h | h
        · exact ho op h
        · simp only [List.mem_singleton] at h
          subst h
          exact ⟨anchorIdx_ne hv pos, predOf_ne hv⟩
    · simp only [phase2O, hya, if_false]
      refine phase2O_ne a ys _ _ (pos + 1) (not_mem_insertAt hv hy pos) hys' ?_
      intro op hop
      rcases List.mem_append.mp hop with h | h
      · exact ho op h
      · simp only [List.mem_singleton] at h
        subst h
        exact anchorIdx_ne hv pos

theorem diffO_ne (a b : List Bytes) (ha : [] ∉ a) (hb : [] ∉ b) : ∀ op ∈ diffO a b, NE op := by
  unfold diffO
  have h1 := phase1O_ne b a [] a ha (by simp)
  exact phase2O_ne a b _ _ 0 h1.2 hb h1.1

theorem moveOk_of {op : UOpO} (h1 : NE op) (h2 : MoveNe op) : MoveOk op := by
  cases op with
  | del k o => trivial
  | create k a => trivial
  | move k a o =>
    simp only [NE, MoveNe, MoveOk] at *
    cases a <;> cases o <;> simp_all

theorem anchorOk_inv {op : UOpO} (h1 : NE op) : AnchorOk (invOp op) := by
  cases op with
  | del k o => exact h1
  | create k a => trivial
  | move k a o => exact h1.2

theorem normL13_dataLL (s : Nat) : ∀ (sibs : List DNode) (l : List Bytes), DataLL s sibs l → normL13 sibs = normL13 (llForest s l)
  | [], l, h => by rw [← h.1]; rfl
  | x :: xs, l, h => by
    obtain ⟨nw, e⟩ := h.2 x (by simp)
    have ht : DataLL s xs (xs.map (·.val)) := ⟨rfl, fun n hn => h.2 n (by simp [hn])⟩
    rw [← h.1, normL13, normL13_dataLL s xs _ ht, e]
    rfl

/-- **composition.**  For duplicate-free value lists without the empty value: the repaired `lyd_diff_reverse_all` on the diff
nodes of `diffO va vb`, applied to data holding `vb`, gives data holding `va`. -/
theorem reverse_apply_diffO {S : Schema} {s : Nat} (C : Ctx S s) (fx : Fixes) (va vb : List Bytes) (nda : va.Nodup)
    (ndb : vb.Nodup) (ha : [] ∉ va) (hb : [] ∉ vb) (sibs : List DNode) (hd : DataLL s sibs vb) :
    ∃ R sibs', reverseRepaired S ((diffO va vb).map (enc s)) = .ok R ∧ apply S sibs R fx = .ok sibs' ∧ DataLL s sibs' va := by
  obtain ⟨hc, hm⟩ := diffO_chain va vb nda ndb
  have hne := diffO_ne va vb ha hb
  refine reverse_apply_enc C fx _ (fun op hop => moveOk_of (hne op hop) (hm op hop)) ?_ sibs vb va hd (chain_reverse hc)
  intro op hop
  simp only [reverseO, List.mem_reverse, List.mem_map] at hop
  obtain ⟨o, ho, rfl⟩ := hop
  exact anchorOk_inv (hne o ho)

end LyModel.Diff.UORev
