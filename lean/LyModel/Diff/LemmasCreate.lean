import LyModel.Diff.LemmasApply
/-!
# Applying a created subtree rebuilds it (C06 proofs)
Core Lean only.
-/
namespace LyModel.Diff
open LyModel LyModel.Tree

theorem foldlM_created (S : Schema) (fx : Fixes) (fuel : Nat) (P : Key → Prop) (hasym : KAsymOn S P) (Q : DNode → Prop)
    (ih : ∀ (c : DNode) (sibs : List DNode), wfNode S c = true → Q c → c.height ≤ fuel →
      applyNode S fx fuel sibs true (some .create) (dupRec c) = .ok (insertNode S sibs (createdNode c))) :
    ∀ (cs cur : List DNode), (∀ c ∈ cs, wfNode S c = true ∧ c.height ≤ fuel ∧ P (kkey S c) ∧ Q c) →
      canonB S (cur ++ cs.map createdNode) = true → (∀ x ∈ cur, shapeOk S x = true ∧ P (kkey S x)) →
      (cs.map dupRec).foldlM (fun ks c => applyNode S fx fuel ks true (some .create) c) cur
        = .ok (cur ++ cs.map createdNode)
  | [], cur, _, _, _ => by simp [pure, Except.pure]
  | c :: cs, cur, hcs, hc, hs => by
    have hwc := (hcs c (by simp)).1
    have hshc : shapeOk S (createdNode c) = true := createdNode_shape S c (wfNode_shape S c hwc)
    have hpre : canonB S (cur ++ [createdNode c]) = true := by
      have : cur ++ (c :: cs).map createdNode = (cur ++ [createdNode c]) ++ cs.map createdNode := by simp
      rw [this] at hc
      exact canonB_prefix S _ _ hc
    have happ : insertNode S cur (createdNode c) = cur ++ [createdNode c] := by
      apply insertNode_append
      intro x hx
      have hk := canonB_append_singleton S cur (createdNode c) hpre x hx
      exact ⟨hk, klt_asymm S P hasym x (createdNode c) (hs x hx).1 hshc (hs x hx).2
        (by rw [createdNode_kkey]; exact (hcs c (by simp)).2.2.1) hk⟩
    simp only [List.map_cons, List.foldlM_cons, ih c cur hwc (hcs c (by simp)).2.2.2 (hcs c (by simp)).2.1, happ]
    have := foldlM_created S fx fuel P hasym Q ih cs (cur ++ [createdNode c]) (fun x hx => hcs x (by simp [hx]))
      (by simpa using hc) (by
        intro x hx
        rcases List.mem_append.1 hx with hx | hx
        · exact hs x hx
        · simp only [List.mem_singleton] at hx; subst hx
          exact ⟨hshc, by rw [createdNode_kkey]; exact (hcs c (by simp)).2.2.1⟩)
    simpa [bind, Except.bind] using this

theorem ownOp_nometa (n : DNode) (h : n.metas = []) : ownOp n = none := by
  simp [ownOp, getMeta, h]

theorem createdKey (k : DNode) (h : k.isTerm = true) :
    ((dupRec k).setMetas []).setFlags { dflt := (dupRec k).flags.dflt, new := true } = createdNode k := by
  cases k with
  | inner => simp [DNode.isTerm] at h
  | term s f m v => rfl

/-- **created subtrees**: a diff (sub)tree that is the copy of `b` with the effective operation create makes apply insert a
node that is `b` up to `LYD_NEW` and container default flags (`createdNode b`) -/
theorem apply_created (S : Schema) (fx : Fixes) (U : DNode → Prop) (hUk : ∀ x, U x → ∀ c ∈ x.kids, U c)
    (hasym : KAsymOn S (fun k => ∃ x, U x ∧ kkey S x = k)) :
    ∀ (fuel : Nat) (b : DNode) (metas : List Meta) (sibs : List DNode) (hp : Bool) (inh : Option Op),
      wfNode S b = true → U b → b.height ≤ fuel → effOp ((dupRec b).setMetas metas) inh = some .create →
      applyNode S fx fuel sibs hp inh ((dupRec b).setMetas metas) = .ok (insertNode S sibs (createdNode b))
  | 0, b, _, _, _, _, _, _, hh, _ => by have := height_pos b; omega
  | fuel + 1, b, metas, sibs, hp, inh, hw, hUb, hh, heff => by
    have hnu : S.isUserOrd ((dupRec b).setMetas metas).sid = false := by
      rw [setMetas_sid, dupRec_sid]; exact plainSid_not_userOrd S b.sid (wfNode_plain S b hw)
    show applyStep S fx (applyNode S fx fuel) sibs hp inh ((dupRec b).setMetas metas) = _
    unfold applyStep
    simp only [heff, hnu, Bool.false_and, Bool.false_eq_true, if_false]
    unfold applyCreate applyKids
    have hne : (effOp ((dupRec b).setMetas metas) inh == some Op.replace) = false := by rw [heff]; rfl
    simp only [hne, Bool.and_false, Bool.false_and, Bool.false_eq_true, if_false, childInh_of_create _ _ heff]
    cases b with
    | term s f m v =>
      simp [dupRec, DNode.setMetas, DNode.kids, noKeys, dupSingle, DNode.setKids, createdNode, bind, Except.bind, pure,
        Except.pure]
    | inner s f m ks =>
      have hi := wfNode_inner S s f m ks hw
      have hsh : ∀ x ∈ ks, shapeOk S x = true := fun x hx => wfNode_shape S x (wfL_mem S ks x hi.kids hx)
      -- the recursion on the children
      have hUkids : ∀ c ∈ ks, U c := fun c hc => hUk _ hUb c hc
      have ih : ∀ (c : DNode) (sibs : List DNode), wfNode S c = true → U c → c.height ≤ fuel →
          applyNode S fx fuel sibs true (some .create) (dupRec c) = .ok (insertNode S sibs (createdNode c)) := by
        intro c sibs' hwc hUc hhc
        have := apply_created S fx U hUk hasym fuel c [] sibs' true (some .create) hwc hUc hhc
          (by simp [effOp, ownOp_nometa _ (setMetas_metas [] (dupRec c))])
        rwa [setMetas_self _ (dupRec_metas c)] at this
      have hkids : ((dupRec (.inner s f m ks)).setMetas metas).kids = ks.map dupRec := by
        rw [setMetas_kids, dupRec_kids]; simp [DNode.kids, dupRecL_eq_map]
      have hcur : (dupSingle S ((dupRec (.inner s f m ks)).setMetas metas)).kids = (keysOf S ks).map createdNode := by
        have hd : (dupRec (.inner s f m ks)).setMetas metas
            = .inner s { f with dflt := f.dflt && (dupRecL ks).all (·.flags.dflt) } metas (dupRecL ks) := rfl
        rw [hd]
        simp only [dupSingle, DNode.kids, dupRecL_eq_map, takeWhile_map_sid S dupRec dupRec_sid, List.map_map]
        apply List.map_congr_left
        intro k hk
        exact createdKey k (hi.keysTerm k hk)
      have hfold := foldlM_created S fx fuel _ hasym U ih (noKeys S ks) ((keysOf S ks).map createdNode)
        (by
          intro c hc
          have hck : c ∈ ks := (noKeys_sublist S ks).subset hc
          refine ⟨wfL_mem S ks c hi.kids hck, ?_, ⟨c, hUkids c hck, rfl⟩, hUkids c hck⟩
          have h1 := heightL_mem ks c hck
          simp only [DNode.height] at hh
          omega)
        (by
          rw [← List.map_append, keys_append_noKeys]
          exact canonB_map S createdNode (createdNode_kkey S) (createdNode_shape S) ks hsh hi.canon)
        (by
          intro x hx
          obtain ⟨y, hy, rfl⟩ := List.mem_map.1 hx
          have hyk : y ∈ ks := (List.takeWhile_sublist _).subset hy
          exact ⟨createdNode_shape S y (hsh y hyk), ⟨y, hUkids y hyk, (createdNode_kkey S y).symm⟩⟩)
      rw [hkids, dropWhile_map_sid S dupRec dupRec_sid, hcur, hfold]
      simp only [bind, Except.bind, ← List.map_append, keys_append_noKeys]
      simp [dupRec, DNode.setMetas, dupSingle, DNode.setKids, createdNode, createdL_eq_map]

theorem normL_eq_map (S : Schema) : ∀ (l : List DNode), normL S l = l.map (normNode S)
  | [] => rfl
  | x :: xs => by simp [normL, normL_eq_map S xs]

/-- what apply creates is the source up to `normNode` -/
theorem norm_created (S : Schema) : ∀ (n : Nat) (b : DNode), b.height ≤ n → wfNode S b = true →
    normNode S (createdNode b) = normNode S b
  | 0, b, hh, _ => by have := height_pos b; omega
  | n + 1, b, hh, hw => by
    cases b with
    | term s f m v =>
      have ht := wfNode_term S s f m v hw
      simp only [createdNode, normNode, ht.nometa]
      congr 1
      cases f with
      | mk dflt whenTrue new =>
        have h1 := ht.nonew
        have h2 := ht.nowhen
        simp only at h1 h2
        subst h1 h2
        rfl
    | inner s f m ks =>
      have hi := wfNode_inner S s f m ks hw
      have hk : normL S (createdL ks) = normL S ks := by
        rw [normL_eq_map, normL_eq_map, createdL_eq_map, List.map_map]
        apply List.map_congr_left
        intro c hc
        have h1 := heightL_mem ks c hc
        simp only [DNode.height] at hh
        exact norm_created S n c (by omega) (wfL_mem S ks c hi.kids hc)
      simp only [createdNode, normNode, hk, hi.nometa]
      congr 1
      cases f with
      | mk dflt whenTrue new =>
        have h1 := hi.nonew
        have h2 := hi.nowhen
        have h3 := hi.dflt
        simp only at h1 h2 h3
        subst h1 h2
        by_cases hnp : S.isNpCont s = true
        · simp [hnp]
        · have : dflt = false := by
            cases dflt with
            | false => rfl
            | true => exact absurd (h3 rfl) hnp
          simp [hnp, this]

end LyModel.Diff
