import LyModel.Diff.K13Ord
import LyModel.Diff.Lemmas13Apply
/-!
# C13 over keyed lists: good trees and the three list-level effects of apply

The declarations of `Lemmas13Apply.lean` that depend on the fragment predicates, restated for the predicates relative to `P`
(K13Defs.lean) and the hypothesis `KeyOrderOn S P` (K13Ord.lean); the proofs are the same, with `P` carried along.  Lemmas of
`Lemmas13Apply.lean` that do not mention the predicates are used as they are.
-/
set_option linter.unusedSimpArgs false
namespace LyModel.Diff.K13
open LyModel LyModel.Tree LyModel.Diff

variable {P : DNode → Bool} {fx : Fixes}

theorem domB_iff {S : Schema} {x : DNode} : domB S P x = true ↔ Dom S P x := by
  simp only [domB, Diff.domB, Bool.and_eq_true, Bool.not_eq_eq_eq_not, Bool.not_true, beq_iff_eq]
  exact ⟨fun ⟨⟨⟨a, b⟩, c⟩, d⟩ => ⟨a, b, c, d⟩, fun h => ⟨⟨⟨h.nuo, h.ndi⟩, h.typed⟩, h.sat⟩⟩

theorem goodN_dom {S : Schema} {x : DNode} (h : goodN S P x = true) : Dom S P x := by
  cases x <;> simp only [goodN, Bool.and_eq_true] at h
  · exact domB_iff.mp h.1.1
  · exact domB_iff.mp h

theorem goodN_kids {S : Schema} {x : DNode} (h : goodN S P x = true) : goodL S P x.kids = true := by
  cases x <;> simp only [goodN, Bool.and_eq_true] at h
  · exact h.1.2
  · simp [DNode.kids, goodL]

theorem goodT_nil (S : Schema) : goodT S P [] = true := by simp [goodT, goodL, keysLead, noKeys]

theorem goodT_goodL {S : Schema} {l : List DNode} (h : goodT S P l = true) : goodL S P l = true := by
  simp only [goodT, Bool.and_eq_true] at h
  exact h.1

theorem goodT_lead {S : Schema} {l : List DNode} (h : goodT S P l = true) : keysLead S l = true := by
  simp only [goodT, Bool.and_eq_true] at h
  exact h.2

theorem goodN_iff {S : Schema} {x : DNode} : goodN S P x = true ↔ Dom S P x ∧ goodT S P x.kids = true := by
  cases x with
  | inner s f m ks =>
    simp only [goodN, goodT, Bool.and_eq_true, DNode.kids, domB_iff]
    exact ⟨fun ⟨⟨a, b⟩, c⟩ => ⟨a, b, c⟩, fun ⟨a, b, c⟩ => ⟨⟨a, b⟩, c⟩⟩
  | term s f m v =>
    simp only [goodN, DNode.kids, goodT_nil, and_true, domB_iff]

theorem goodN_kidsT {S : Schema} {x : DNode} (h : goodN S P x = true) : goodT S P x.kids = true := (goodN_iff.mp h).2

theorem goodL_iff {S : Schema} (K : KeyOrderOn S P) {l : List DNode} :
    goodL S P l = true ↔ (ordOf S K).Sorted l ∧ ∀ x ∈ l, goodN S P x = true := by
  induction l with
  | nil => simp [goodL, KL.Ord.Sorted]
  | cons y ys ih =>
    simp only [goodL, Bool.and_eq_true, List.all_eq_true, ih, KL.Ord.Sorted, List.pairwise_cons, List.mem_cons,
      forall_eq_or_imp]
    constructor
    · rintro ⟨⟨a, b⟩, c, d⟩
      exact ⟨⟨b, c⟩, a, d⟩
    · rintro ⟨⟨b, c⟩, a, d⟩
      exact ⟨⟨a, b⟩, c, d⟩

theorem goodL_allDom {S : Schema} (K : KeyOrderOn S P) {l : List DNode} (h : goodL S P l = true) : (ordOf S K).AllDom l :=
  fun x hx => goodN_dom ((goodL_iff K).mp h |>.2 x hx)

theorem goodL_sorted {S : Schema} (K : KeyOrderOn S P) {l : List DNode} (h : goodL S P l = true) : (ordOf S K).Sorted l :=
  (goodL_iff K).mp h |>.1

theorem look_some_findIdx {S : Schema} (K : KeyOrderOn S P) {l : List DNode} (hg : goodL S P l = true) {q x : DNode}
    (hq : Dom S P q) (h : look S l q = some x) :
    ∃ i, findForApply S l q = some i ∧ l[i]? = some x ∧ matchP S q x = true := by
  have hm : matchP S q x = true := List.find?_some h
  have hx : x ∈ l := List.mem_of_find?_eq_some h
  obtain ⟨i, hi, hix⟩ := List.getElem_of_mem hx
  have hget : l[i]? = some x := by simp [hi, hix]
  have := (ordOf S K).find?_same_unique (goodL_allDom K hg) (goodL_sorted K hg) hq hget hm
  exact ⟨i, by rw [findForApply_eq13]; exact this.2, hget, hm⟩

/-- create: the new sibling list after `lyd_insert_node` of a new instance -/
theorem good_insertNode {S : Schema} (K : KeyOrderOn S P) {l : List DNode} (hg : goodL S P l = true) {n : DNode}
    (hn : goodN S P n = true) (hf : look S l n = none) :
    goodL S P (insertNode S l n) = true ∧
      ∀ q, Dom S P q → look S (insertNode S l n) q = if matchP S q n then some n else look S l q := by
  have hnd := goodN_dom hn
  have hfresh : (ordOf S K).Fresh n l := (ordOf S K).fresh_iff_find?.mpr hf
  rw [insertNode_eq]
  refine ⟨?_, ?_⟩
  · rw [goodL_iff K]
    refine ⟨(ordOf S K).sorted_insBefore hnd (goodL_allDom K hg) (goodL_sorted K hg) hfresh, ?_⟩
    intro x hx
    rcases KL.insBefore_mem.mp hx with rfl | h
    · exact hn
    · exact ((goodL_iff K).mp hg).2 x h
  · intro q hq
    exact (ordOf S K).find?_insBefore (goodL_allDom K hg) hnd hq hfresh

/-- delete -/
theorem good_eraseIdx {S : Schema} (K : KeyOrderOn S P) {l : List DNode} (hg : goodL S P l = true) {i : Nat} {x : DNode}
    (hx : l[i]? = some x) :
    goodL S P (l.eraseIdx i) = true ∧
      ∀ q, Dom S P q → look S (l.eraseIdx i) q = if matchP S q x then none else look S l q := by
  refine ⟨?_, ?_⟩
  · rw [goodL_iff K]
    exact ⟨(ordOf S K).sorted_eraseIdx (goodL_sorted K hg) i,
      fun y hy => ((goodL_iff K).mp hg).2 y (List.mem_of_mem_eraseIdx hy)⟩
  · intro q hq
    exact (ordOf S K).find?_eraseIdx (goodL_allDom K hg) (goodL_sorted K hg) hx hq

/-- replace / none: another version of the same instance in place -/
theorem good_set {S : Schema} (K : KeyOrderOn S P) {l : List DNode} (hg : goodL S P l = true) {i : Nat} {x x' : DNode}
    (hx : l[i]? = some x) (hx' : goodN S P x' = true) (hsame : matchP S x x' = true) :
    goodL S P (l.set i x') = true ∧
      ∀ q, Dom S P q → look S (l.set i x') q = if matchP S q x then some x' else look S l q := by
  have hxd' := goodN_dom hx'
  refine ⟨?_, ?_⟩
  · rw [goodL_iff K]
    refine ⟨(ordOf S K).sorted_set (goodL_allDom K hg) (goodL_sorted K hg) hx hxd' hsame, ?_⟩
    intro y hy
    rcases List.mem_or_eq_of_mem_set hy with h | rfl
    · exact ((goodL_iff K).mp hg).2 y h
    · exact hx'
  · intro q hq
    exact (ordOf S K).find?_set (goodL_allDom K hg) (goodL_sorted K hg) hx hxd' hsame hq

theorem goodT_insertNode {S : Schema} (K : KeyOrderOn S P) {l : List DNode} (hg : goodT S P l = true) {n : DNode}
    (hn : goodN S P n = true) (hf : look S l n = none) (hnk : S.isKey n.sid = false)
    (hkb : ∀ k ∈ keysOf S l, k.sid < n.sid) :
    goodT S P (insertNode S l n) = true ∧ keysOf S (insertNode S l n) = keysOf S l ∧
      ∀ q, Dom S P q → look S (insertNode S l n) q = if matchP S q n then some n else look S l q := by
  obtain ⟨h1, h2⟩ := good_insertNode K (goodT_goodL hg) hn hf
  have := KL.takeWhile_insBefore (p := fun x : DNode => S.isKey x.sid) (q := nlt S n) (n := n) (l := l) hnk
    (fun x hx => nlt_false_of_sid_lt (hkb x hx))
  rw [← insertNode_eq] at this
  refine ⟨?_, this.1, h2⟩
  simp only [goodT, Bool.and_eq_true]
  exact ⟨h1, keysLead_iff.mpr (this.2 (keysLead_iff.mp (goodT_lead hg)))⟩

theorem goodT_eraseIdx {S : Schema} (K : KeyOrderOn S P) {l : List DNode} (hg : goodT S P l = true) {i : Nat} {x : DNode}
    (hx : l[i]? = some x) (hxk : S.isKey x.sid = false) :
    goodT S P (l.eraseIdx i) = true ∧ keysOf S (l.eraseIdx i) = keysOf S l ∧
      ∀ q, Dom S P q → look S (l.eraseIdx i) q = if matchP S q x then none else look S l q := by
  obtain ⟨h1, h2⟩ := good_eraseIdx K (goodT_goodL hg) hx
  have := KL.takeWhile_eraseIdx (p := fun x : DNode => S.isKey x.sid) (keysLead_iff.mp (goodT_lead hg)) hx hxk
  refine ⟨?_, this.1, h2⟩
  simp only [goodT, Bool.and_eq_true]
  exact ⟨h1, keysLead_iff.mpr this.2⟩

theorem goodT_set {S : Schema} (K : KeyOrderOn S P) {l : List DNode} (hg : goodT S P l = true) {i : Nat} {x x' : DNode}
    (hx : l[i]? = some x) (hx' : goodN S P x' = true) (hsame : matchP S x x' = true) (hxk : S.isKey x.sid = false) :
    goodT S P (l.set i x') = true ∧ keysOf S (l.set i x') = keysOf S l ∧
      ∀ q, Dom S P q → look S (l.set i x') q = if matchP S q x then some x' else look S l q := by
  obtain ⟨h1, h2⟩ := good_set K (goodT_goodL hg) hx hx' hsame
  have hs : x'.sid = x.sid := matchP_sid hsame
  have := KL.takeWhile_set (p := fun x : DNode => S.isKey x.sid) (y' := x') hx hxk (by simpa [hs] using hxk)
  refine ⟨?_, this.1, h2⟩
  simp only [goodT, Bool.and_eq_true]
  exact ⟨h1, keysLead_iff.mpr (this.2 (keysLead_iff.mp (goodT_lead hg)))⟩

end LyModel.Diff.K13
