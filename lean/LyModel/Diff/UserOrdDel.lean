import LyModel.Diff.UserOrd
/-!
# The user-ordered list core of `lyd_diff_siblings_r` / `lyd_diff_apply_r` (C06) — the delete pass

One user-ordered (leaf-)list in isolation, instances abstracted to their identity (`Nat`: the key of a list instance, the
value of a leaf-list instance).  `diffU a b` is what the two passes of `lyd_diff_siblings_r` generate for this list — first
every `delete` (instances of `a` that are not in `b`), then for each position of `b` a `create` or a `move` anchored at the
instance placed just before it — maintaining the *virtual* first list the way `lyd_diff_userord_attrs` does
(`userord_item->inst`, `pos`).  `applyU` is `lyd_diff_apply_r` + `lyd_diff_insert` for these operations.
(Ported from the design-phase calibration proof; the full tree model is `LyModel.Diff.Model` / `.Apply`.)
Core Lean only.
-/
namespace LyModel.Diff.UO

theorem applyU_cons (l : List Nat) (op : UOp) (ops : List UOp) :
    applyU l (op :: ops) = (applyOp (some l) op).bind fun l' => applyU l' ops := by
  have := applyU_append l [op] ops
  simpa [applyU] using this

theorem phase1_spec (b : List Nat) (todo kept : List Nat) (ops : List UOp)
    (nd : (kept ++ todo).Nodup) :
    phase1 b todo (ops, kept ++ todo) =
      (ops ++ (todo.filter (fun x => !decide (x ∈ b))).map UOp.del, kept ++ todo.filter (fun x => decide (x ∈ b))) := by
  induction todo generalizing kept ops with
  | nil => simp [phase1]
  | cons x xs ih =>
    by_cases hx : x ∈ b
    · have := ih (kept ++ [x]) ops (by simpa using nd)
      simp only [List.append_assoc, List.singleton_append] at this
      simp [phase1, hx, this]
    · have hk : x ∉ kept := by
        intro hk
        have := (List.nodup_append.mp nd).2.2 x hk x (by simp)
        exact this rfl
      have nd' : (kept ++ xs).Nodup := by
        have := nd
        simp only [List.nodup_append, List.nodup_cons] at this ⊢
        refine ⟨this.1, this.2.1.2, ?_⟩
        intro a ha b hb
        exact this.2.2 a ha b (by simp [hb])
      simp [phase1, hx, erase_split x kept xs hk, ih kept (ops ++ [.del x]) nd']

theorem apply_dels (b : List Nat) (todo kept : List Nat) (nd : (kept ++ todo).Nodup) :
    applyU (kept ++ todo) ((todo.filter (fun x => !decide (x ∈ b))).map UOp.del) =
      some (kept ++ todo.filter (fun x => decide (x ∈ b))) := by
  induction todo generalizing kept with
  | nil => simp [applyU]
  | cons x xs ih =>
    by_cases hx : x ∈ b
    · have := ih (kept ++ [x]) (by simpa using nd)
      simp only [List.append_assoc, List.singleton_append] at this
      simp [hx, this]
    · have hk : x ∉ kept := by
        intro hk
        have := (List.nodup_append.mp nd).2.2 x hk x (by simp)
        exact this rfl
      have nd' : (kept ++ xs).Nodup := by
        have := nd
        simp only [List.nodup_append, List.nodup_cons] at this ⊢
        refine ⟨this.1, this.2.1.2, ?_⟩
        intro a ha b hb
        exact this.2.2 a ha b (by simp [hb])
      have h := ih kept nd'
      have e1 : List.filter (fun x => !decide (x ∈ b)) (x :: xs) = x :: List.filter (fun x => !decide (x ∈ b)) xs := by
        simp [hx]
      have e2 : List.filter (fun x => decide (x ∈ b)) (x :: xs) = List.filter (fun x => decide (x ∈ b)) xs := by
        simp [hx]
      rw [e1, e2, List.map_cons, applyU_cons]
      have : applyOp (some (kept ++ x :: xs)) (UOp.del x) = some (kept ++ xs) := by
        simp [applyOp, erase_split x kept xs hk]
      rw [this]
      simpa using h

end LyModel.Diff.UO
