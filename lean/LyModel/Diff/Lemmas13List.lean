/-!
# Keyed sorted lists (helper theory for C13; no model content)

A sibling list of a data tree, for the node kinds libyang keeps in a fixed order (everything but user-ordered lists), is a
list sorted by a strict order `lt` on *identities* (`same x y`: the same instance — schema node and list keys / leaf-list
value).  `lyd_insert_node` is `insBefore (lt n) n`: in front of the first sibling that must follow the new node.

The order is given by the model (`Tree.cmpInst` and the schema index) and is only an order on well-typed instances of
one parent, so all facts are relative to a carrier `dom`.
-/
set_option linter.unusedSimpArgs false
namespace LyModel.Diff.KL

variable {α : Type}

/-- insert `n` in front of the first element satisfying `p` (at the end if there is none) -/
def insBefore (p : α → Bool) (n : α) : List α → List α
  | [] => [n]
  | x :: xs => if p x then n :: x :: xs else x :: insBefore p n xs

/-- what the theory needs to know about the order -/
structure Ord (α : Type) where
  lt : α → α → Bool
  same : α → α → Bool
  dom : α → Prop
  asymm : ∀ {x y}, dom x → dom y → lt x y = true → lt y x = false
  trans : ∀ {x y z}, dom x → dom y → dom z → lt x y = true → lt y z = true → lt x z = true
  total : ∀ {x y}, dom x → dom y → same x y = false → lt x y = true ∨ lt y x = true
  same_refl : ∀ {x}, dom x → same x x = true
  same_symm : ∀ {x y}, dom x → dom y → same x y = true → same y x = true
  same_trans : ∀ {x y z}, dom x → dom y → dom z → same x y = true → same y z = true → same x z = true
  lt_congr_l : ∀ {x x' y}, dom x → dom x' → dom y → same x x' = true → lt x y = lt x' y
  lt_congr_r : ∀ {x y y'}, dom x → dom y → dom y' → same y y' = true → lt x y = lt x y'

namespace Ord
variable (O : Ord α)

theorem irrefl {x : α} (hx : O.dom x) : O.lt x x = false := by
  cases h : O.lt x x
  · rfl
  · have := O.asymm hx hx h
    rw [h] at this
    exact this

theorem lt_not_same {x y : α} (hx : O.dom x) (hy : O.dom y) (h : O.lt x y = true) : O.same x y = false := by
  cases hs : O.same x y
  · rfl
  · have h1 : O.lt x y = O.lt y y := O.lt_congr_l hx hy hy hs
    rw [h, O.irrefl hy] at h1
    exact absurd h1 (by decide)

/-- sorted: every element precedes all later ones -/
def Sorted (l : List α) : Prop := l.Pairwise (fun x y => O.lt x y = true)

def AllDom (l : List α) : Prop := ∀ x ∈ l, O.dom x

/-- no element of `l` is the instance `n` -/
def Fresh (n : α) (l : List α) : Prop := ∀ x ∈ l, O.same n x = false

end Ord

/-! ### insBefore -/

theorem insBefore_mem {p : α → Bool} {n : α} {l : List α} {x : α} :
    x ∈ insBefore p n l ↔ x = n ∨ x ∈ l := by
  induction l with
  | nil => simp [insBefore]
  | cons y ys ih =>
    simp only [insBefore]
    split
    · simp
    · simp only [List.mem_cons, ih]
      constructor
      · rintro (h | h | h)
        · exact Or.inr (Or.inl h)
        · exact Or.inl h
        · exact Or.inr (Or.inr h)
      · rintro (h | h | h)
        · exact Or.inr (Or.inl h)
        · exact Or.inl h
        · exact Or.inr (Or.inr h)

theorem insBefore_length {p : α → Bool} {n : α} {l : List α} : (insBefore p n l).length = l.length + 1 := by
  induction l with
  | nil => rfl
  | cons y ys ih =>
    simp only [insBefore]
    split <;> simp [ih]

/-- inserting into a sorted list in front of the first greater element keeps it sorted -/
theorem Ord.sorted_insBefore (O : Ord α) {n : α} {l : List α} (hn : O.dom n) (hd : O.AllDom l) (hs : O.Sorted l)
    (hf : O.Fresh n l) : O.Sorted (insBefore (O.lt n) n l) := by
  induction l with
  | nil => simp [insBefore, Ord.Sorted]
  | cons y ys ih =>
    have hy : O.dom y := hd y (List.mem_cons_self ..)
    have hys : O.AllDom ys := fun x hx => hd x (List.mem_cons_of_mem _ hx)
    have hsy := List.pairwise_cons.mp hs
    simp only [insBefore]
    split
    · rename_i hlt
      refine List.pairwise_cons.mpr ⟨?_, hs⟩
      intro z hz
      rcases List.mem_cons.mp hz with rfl | hz
      · exact hlt
      · exact O.trans hn hy (hys z hz) hlt (hsy.1 z hz)
    · rename_i hlt
      have hlt' : O.lt n y = false := by simpa using hlt
      have hyn : O.lt y n = true := by
        rcases O.total hn hy (hf y (List.mem_cons_self ..)) with h | h
        · rw [h] at hlt'; exact absurd hlt' (by decide)
        · exact h
      refine List.pairwise_cons.mpr ⟨?_, ih hys hsy.2 (fun x hx => hf x (List.mem_cons_of_mem _ hx))⟩
      intro z hz
      rcases insBefore_mem.mp hz with rfl | hz
      · exact hyn
      · exact hsy.1 z hz

/-- an element of a sorted list sits where insertion would put it (delete, then create again: the same list) -/
theorem Ord.insBefore_eraseIdx (O : Ord α) {l : List α} (hd : O.AllDom l) (hs : O.Sorted l) {i : Nat} {e e' : α}
    (he : l[i]? = some e) (he' : O.dom e') (hsame : O.same e e' = true) :
    insBefore (O.lt e') e' (l.eraseIdx i) = l.set i e' := by
  induction l generalizing i with
  | nil => simp at he
  | cons y ys ih =>
    have hy : O.dom y := hd y (List.mem_cons_self ..)
    have hys : O.AllDom ys := fun x hx => hd x (List.mem_cons_of_mem _ hx)
    have hsy := List.pairwise_cons.mp hs
    cases i with
    | zero =>
      simp only [List.getElem?_cons_zero, Option.some.injEq] at he
      subst he
      simp only [List.eraseIdx_cons_zero, List.set_cons_zero]
      cases ys with
      | nil => rfl
      | cons z zs =>
        have hz : O.dom z := hys z (List.mem_cons_self ..)
        have : O.lt e' z = true := by
          rw [← O.lt_congr_l hy he' hz hsame]
          exact hsy.1 z (List.mem_cons_self ..)
        simp [insBefore, this]
    | succ j =>
      simp only [List.getElem?_cons_succ] at he
      have hem : e ∈ ys := List.mem_of_getElem? he
      have hed : O.dom e := hys e hem
      have hye : O.lt y e = true := hsy.1 e hem
      have : O.lt e' y = false := by
        rw [← O.lt_congr_l hed he' hy hsame]
        exact O.asymm hy hed hye
      simp only [List.eraseIdx_cons_succ, List.set_cons_succ, insBefore, this]
      simp [ih hys hsy.2 he]

/-! ### lookup by a predicate -/

theorem find?_insBefore_of_not {p q : α → Bool} {n : α} {l : List α} (hq : q n = false) :
    (insBefore p n l).find? q = l.find? q := by
  induction l with
  | nil => simp [insBefore, hq]
  | cons y ys ih =>
    simp only [insBefore]
    split
    · simp [List.find?_cons, hq]
    · simp [List.find?_cons, ih]

theorem find?_insBefore_of_fresh {p q : α → Bool} {n : α} {l : List α} (hq : q n = true)
    (hf : ∀ x ∈ l, q x = false) : (insBefore p n l).find? q = some n := by
  induction l with
  | nil => simp [insBefore, hq]
  | cons y ys ih =>
    simp only [insBefore]
    split
    · simp [List.find?_cons, hq]
    · have hy : q y = false := hf y (List.mem_cons_self ..)
      simp [List.find?_cons, hy, ih (fun x hx => hf x (List.mem_cons_of_mem _ hx))]

theorem findIdx?_insBefore_of_fresh {p q : α → Bool} {n : α} {l : List α} (hq : q n = true)
    (hf : ∀ x ∈ l, q x = false) :
    ∃ i, (insBefore p n l).findIdx? q = some i ∧ (insBefore p n l)[i]? = some n ∧ (insBefore p n l).eraseIdx i = l := by
  induction l with
  | nil => exact ⟨0, by simp [insBefore, hq]⟩
  | cons y ys ih =>
    simp only [insBefore]
    split
    · exact ⟨0, by simp [List.findIdx?_cons, hq]⟩
    · have hy : q y = false := hf y (List.mem_cons_self ..)
      obtain ⟨i, h1, h2, h3⟩ := ih (fun x hx => hf x (List.mem_cons_of_mem _ hx))
      exact ⟨i + 1, by simp [List.findIdx?_cons, hy, h1], by simpa using h2, by simp [h3]⟩

/-! ### the leading elements with a property (list keys) -/

/-- all elements with the property come first -/
def Lead (p : α → Bool) (l : List α) : Prop := ∀ x ∈ l.dropWhile p, p x = false

theorem lead_cons_false {p : α → Bool} {y : α} {ys : List α} (hy : p y = false) :
    Lead p (y :: ys) ↔ ∀ x ∈ ys, p x = false := by
  simp only [Lead, List.dropWhile_cons, hy, Bool.false_eq_true, ↓reduceIte, List.mem_cons, forall_eq_or_imp, true_and]

theorem lead_cons_true {p : α → Bool} {y : α} {ys : List α} (hy : p y = true) : Lead p (y :: ys) ↔ Lead p ys := by
  simp only [Lead, List.dropWhile_cons, hy, ↓reduceIte]

theorem takeWhile_of_all_false {p : α → Bool} {l : List α} (h : ∀ x ∈ l, p x = false) : l.takeWhile p = [] := by
  cases l with
  | nil => rfl
  | cons y ys => simp [List.takeWhile_cons, h y (List.mem_cons_self ..)]

theorem takeWhile_insBefore {p q : α → Bool} {n : α} {l : List α} (hn : p n = false)
    (h : ∀ x ∈ l.takeWhile p, q x = false) :
    (insBefore q n l).takeWhile p = l.takeWhile p ∧ (Lead p l → Lead p (insBefore q n l)) := by
  induction l with
  | nil => simp [insBefore, hn, Lead]
  | cons y ys ih =>
    simp only [insBefore]
    by_cases hy : p y = true
    · have hq : q y = false := h y (by simp [List.takeWhile_cons, hy])
      have ih' := ih (fun x hx => h x (by simp [List.takeWhile_cons, hy, hx]))
      simp only [hq, Bool.false_eq_true, ↓reduceIte, List.takeWhile_cons, hy]
      refine ⟨by rw [ih'.1], ?_⟩
      rw [lead_cons_true hy, lead_cons_true hy]
      exact ih'.2
    · have hy' : p y = false := by simpa using hy
      split
      · refine ⟨by simp [List.takeWhile_cons, hn, hy'], ?_⟩
        intro hl
        rw [lead_cons_false hn]
        rw [lead_cons_false hy'] at hl
        intro x hx
        rcases List.mem_cons.mp hx with rfl | hx
        · exact hy'
        · exact hl x hx
      · refine ⟨by simp [List.takeWhile_cons, hy'], ?_⟩
        intro hl
        rw [lead_cons_false hy'] at hl ⊢
        intro x hx
        rcases insBefore_mem.mp hx with rfl | hx
        · exact hn
        · exact hl x hx

theorem takeWhile_eraseIdx {p : α → Bool} {l : List α} {i : Nat} {y : α} (hl : Lead p l) (hy : l[i]? = some y)
    (hp : p y = false) : (l.eraseIdx i).takeWhile p = l.takeWhile p ∧ Lead p (l.eraseIdx i) := by
  induction l generalizing i with
  | nil => simp at hy
  | cons z zs ih =>
    cases i with
    | zero =>
      simp only [List.getElem?_cons_zero, Option.some.injEq] at hy
      subst hy
      rw [lead_cons_false hp] at hl
      simp only [List.eraseIdx_cons_zero, List.takeWhile_cons, hp, Bool.false_eq_true, ↓reduceIte]
      refine ⟨takeWhile_of_all_false hl, ?_⟩
      intro x hx
      exact hl x ((List.dropWhile_sublist _).subset hx)
    | succ j =>
      simp only [List.getElem?_cons_succ] at hy
      simp only [List.eraseIdx_cons_succ, List.takeWhile_cons]
      by_cases hz : p z = true
      · rw [lead_cons_true hz] at hl
        have := ih hl hy
        simp only [hz, ↓reduceIte, this.1, true_and]
        rw [lead_cons_true hz]
        exact this.2
      · have hz' : p z = false := by simpa using hz
        rw [lead_cons_false hz'] at hl
        simp only [hz', Bool.false_eq_true, ↓reduceIte, true_and]
        rw [lead_cons_false hz']
        intro x hx
        exact hl x (List.mem_of_mem_eraseIdx hx)

theorem takeWhile_set {p : α → Bool} {l : List α} {i : Nat} {y y' : α} (hy : l[i]? = some y) (hp : p y = false)
    (hp' : p y' = false) : (l.set i y').takeWhile p = l.takeWhile p ∧ (Lead p l → Lead p (l.set i y')) := by
  induction l generalizing i with
  | nil => simp at hy
  | cons z zs ih =>
    cases i with
    | zero =>
      simp only [List.getElem?_cons_zero, Option.some.injEq] at hy
      subst hy
      simp only [List.set_cons_zero, List.takeWhile_cons, hp, hp']
      rw [lead_cons_false hp, lead_cons_false hp']
      exact ⟨by simp, id⟩
    | succ j =>
      simp only [List.getElem?_cons_succ] at hy
      simp only [List.set_cons_succ, List.takeWhile_cons]
      by_cases hz : p z = true
      · have := ih hy
        simp only [hz, ↓reduceIte, this.1, true_and]
        rw [lead_cons_true hz, lead_cons_true hz]
        exact this.2
      · have hz' : p z = false := by simpa using hz
        simp only [hz', Bool.false_eq_true, ↓reduceIte, true_and]
        rw [lead_cons_false hz', lead_cons_false hz']
        intro hl x hx
        rcases List.mem_or_eq_of_mem_set hx with h | rfl
        · exact hl x h
        · exact hp'

/-! ### sorted lists: uniqueness of instances, erase, set -/

namespace Ord
variable (O : Ord α)

theorem allDom_eraseIdx {l : List α} (hd : O.AllDom l) (i : Nat) : O.AllDom (l.eraseIdx i) :=
  fun x hx => hd x (List.mem_of_mem_eraseIdx hx)

theorem sorted_eraseIdx {l : List α} (hs : O.Sorted l) (i : Nat) : O.Sorted (l.eraseIdx i) :=
  List.Pairwise.sublist (List.eraseIdx_sublist l i) hs

theorem allDom_insBefore {p : α → Bool} {n : α} {l : List α} (hn : O.dom n) (hd : O.AllDom l) :
    O.AllDom (insBefore p n l) := by
  intro x hx
  rcases insBefore_mem.mp hx with rfl | h
  · exact hn
  · exact hd x h

theorem allDom_set {l : List α} (hd : O.AllDom l) {i : Nat} {e : α} (he : O.dom e) : O.AllDom (l.set i e) := by
  intro x hx
  rcases List.mem_or_eq_of_mem_set hx with h | rfl
  · exact hd x h
  · exact he

/-- replacing an element by another version of the same instance keeps the list sorted -/
theorem sorted_set {l : List α} (hd : O.AllDom l) (hs : O.Sorted l) {i : Nat} {e e' : α} (he : l[i]? = some e)
    (he' : O.dom e') (hsame : O.same e e' = true) : O.Sorted (l.set i e') := by
  induction l generalizing i with
  | nil => simp at he
  | cons y ys ih =>
    have hy : O.dom y := hd y (List.mem_cons_self ..)
    have hys : O.AllDom ys := fun x hx => hd x (List.mem_cons_of_mem _ hx)
    have hsy := List.pairwise_cons.mp hs
    cases i with
    | zero =>
      simp only [List.getElem?_cons_zero, Option.some.injEq] at he
      subst he
      simp only [List.set_cons_zero]
      refine List.pairwise_cons.mpr ⟨?_, hsy.2⟩
      intro z hz
      rw [← O.lt_congr_l hy he' (hys z hz) hsame]
      exact hsy.1 z hz
    | succ j =>
      simp only [List.getElem?_cons_succ] at he
      simp only [List.set_cons_succ]
      have hem : e ∈ ys := List.mem_of_getElem? he
      refine List.pairwise_cons.mpr ⟨?_, ih hys hsy.2 he⟩
      intro z hz
      rcases List.mem_or_eq_of_mem_set hz with h | rfl
      · exact hsy.1 z h
      · rw [← O.lt_congr_r hy (hys e hem) he' hsame]
        exact hsy.1 e hem

/-- in a sorted list no two elements are the same instance: lookups see at most one -/
theorem find?_same_unique {l : List α} (hd : O.AllDom l) (hs : O.Sorted l) {p : α} (hp : O.dom p) {i : Nat} {e : α}
    (he : l[i]? = some e) (hpe : O.same p e = true) :
    l.find? (O.same p) = some e ∧ l.findIdx? (O.same p) = some i := by
  induction l generalizing i with
  | nil => simp at he
  | cons y ys ih =>
    have hy : O.dom y := hd y (List.mem_cons_self ..)
    have hys : O.AllDom ys := fun x hx => hd x (List.mem_cons_of_mem _ hx)
    have hsy := List.pairwise_cons.mp hs
    cases i with
    | zero =>
      simp only [List.getElem?_cons_zero, Option.some.injEq] at he
      subst he
      simp [List.find?_cons, List.findIdx?_cons, hpe]
    | succ j =>
      simp only [List.getElem?_cons_succ] at he
      have hem : e ∈ ys := List.mem_of_getElem? he
      have hed := hys e hem
      have hpy : O.same p y = false := by
        cases h : O.same p y
        · rfl
        · have h1 : O.same y e = true := O.same_trans hy hp hed (O.same_symm hp hy h) hpe
          have := O.lt_not_same hy hed (hsy.1 e hem)
          rw [h1] at this
          exact absurd this (by decide)
      obtain ⟨h1, h2⟩ := ih hys hsy.2 he
      simp [List.find?_cons, List.findIdx?_cons, hpy, h1, h2]

theorem fresh_iff_find? {l : List α} {p : α} : O.Fresh p l ↔ l.find? (O.same p) = none := by
  simp [Fresh, List.find?_eq_none]

/-- probes of the same instance see the same thing -/
theorem find?_congr {l : List α} (hd : O.AllDom l) {p q : α} (hp : O.dom p) (hq : O.dom q) (h : O.same p q = true) :
    l.find? (O.same p) = l.find? (O.same q) := by
  have key : ∀ x ∈ l, O.same p x = O.same q x := by
    intro x hx
    have hxd := hd x hx
    cases h1 : O.same p x
    · cases h2 : O.same q x
      · rfl
      · have := O.same_trans hp hq hxd h h2
        rw [h1] at this
        exact absurd this (by decide)
    · exact (O.same_trans hq hp hxd (O.same_symm hp hq h) h1).symm
  clear hd
  induction l with
  | nil => rfl
  | cons y ys ih =>
    simp only [List.find?_cons, key y (List.mem_cons_self ..)]
    rw [ih (fun x hx => key x (List.mem_cons_of_mem _ hx))]

/-! ### lookups after insert / erase / set -/

theorem find?_insBefore {p : α → Bool} {n q : α} {l : List α} (hd : O.AllDom l) (hn : O.dom n) (hq : O.dom q)
    (hf : O.Fresh n l) :
    (insBefore p n l).find? (O.same q) = if O.same q n then some n else l.find? (O.same q) := by
  split
  · rename_i h
    apply find?_insBefore_of_fresh h
    intro x hx
    cases h2 : O.same q x
    · rfl
    · have := O.same_trans hn hq (hd x hx) (O.same_symm hq hn h) h2
      rw [hf x hx] at this
      exact absurd this (by decide)
  · rename_i h
    exact find?_insBefore_of_not (by simpa using h)

theorem find?_eraseIdx {l : List α} (hd : O.AllDom l) (hs : O.Sorted l) {i : Nat} {e q : α} (he : l[i]? = some e)
    (hq : O.dom q) :
    (l.eraseIdx i).find? (O.same q) = if O.same q e then none else l.find? (O.same q) := by
  induction l generalizing i with
  | nil => simp at he
  | cons y ys ih =>
    have hy : O.dom y := hd y (List.mem_cons_self ..)
    have hys : O.AllDom ys := fun x hx => hd x (List.mem_cons_of_mem _ hx)
    have hsy := List.pairwise_cons.mp hs
    cases i with
    | zero =>
      simp only [List.getElem?_cons_zero, Option.some.injEq] at he
      subst he
      simp only [List.eraseIdx_cons_zero]
      split
      · rename_i h
        apply List.find?_eq_none.mpr
        intro x hx hqx
        have h1 : O.same y x = true := O.same_trans hy hq (hys x hx) (O.same_symm hq hy h) hqx
        have := O.lt_not_same hy (hys x hx) (hsy.1 x hx)
        rw [h1] at this
        exact absurd this (by decide)
      · rename_i h
        simp [List.find?_cons, h]
    | succ j =>
      simp only [List.getElem?_cons_succ] at he
      have hem : e ∈ ys := List.mem_of_getElem? he
      have hed := hys e hem
      simp only [List.eraseIdx_cons_succ, List.find?_cons]
      cases hqy : O.same q y
      · simp only [ih hys hsy.2 he]
      · have hqe : O.same q e = false := by
          cases h : O.same q e
          · rfl
          · have h1 : O.same y e = true := O.same_trans hy hq hed (O.same_symm hq hy hqy) h
            have := O.lt_not_same hy hed (hsy.1 e hem)
            rw [h1] at this
            exact absurd this (by decide)
        simp [hqe]

theorem find?_set {l : List α} (hd : O.AllDom l) (hs : O.Sorted l) {i : Nat} {e e' q : α} (he : l[i]? = some e)
    (he' : O.dom e') (hsame : O.same e e' = true) (hq : O.dom q) :
    (l.set i e').find? (O.same q) = if O.same q e then some e' else l.find? (O.same q) := by
  have hed : O.dom e := hd e (List.mem_of_getElem? he)
  have hi : i < l.length := by
    rcases Nat.lt_or_ge i l.length with h | h
    · exact h
    · simp [List.getElem?_eq_none h] at he
  have hs' := O.sorted_set hd hs he he' hsame
  have hd' := O.allDom_set hd (i := i) he'
  have hget : (l.set i e')[i]? = some e' := by simp [hi]
  split
  · rename_i h
    have : O.same q e' = true := O.same_trans hq hed he' h hsame
    exact (O.find?_same_unique hd' hs' hq hget this).1
  · rename_i h
    have hqe' : O.same q e' = false := by
      cases h2 : O.same q e'
      · rfl
      · have := O.same_trans hq he' hed h2 (O.same_symm hed he' hsame)
        exact absurd this h
    have hqe : O.same q e = false := by simpa using h
    clear hs' hd' hget h
    induction l generalizing i with
    | nil => simp at he
    | cons y ys ih =>
      cases i with
      | zero =>
        simp only [List.getElem?_cons_zero, Option.some.injEq] at he
        subst he
        simp [List.find?_cons, hqe, hqe']
      | succ j =>
        simp only [List.getElem?_cons_succ] at he
        simp only [List.set_cons_succ, List.find?_cons]
        have hys : O.AllDom ys := fun x hx => hd x (List.mem_cons_of_mem _ hx)
        rw [ih hys (List.pairwise_cons.mp hs).2 he (by simpa using hi)]

/-! ### extensionality: two sorted lists with the same lookups are the same list -/

end Ord

/-- elementwise relation of two lists -/
inductive All₂ (R : α → α → Prop) : List α → List α → Prop where
  | nil : All₂ R [] []
  | cons {a b : α} {as bs : List α} : R a b → All₂ R as bs → All₂ R (a :: as) (b :: bs)

namespace Ord
variable (O : Ord α)

theorem forall2_of_find? {R : α → α → Prop} {l₁ l₂ : List α} (hd₁ : O.AllDom l₁) (hd₂ : O.AllDom l₂) (hs₁ : O.Sorted l₁) (hs₂ : O.Sorted l₂)
    (h12 : ∀ x ∈ l₁, ∃ y, l₂.find? (O.same x) = some y ∧ R x y)
    (h21 : ∀ y ∈ l₂, ∃ x, l₁.find? (O.same y) = some x ∧ R x y) :
    All₂ R l₁ l₂ := by
  induction l₁ generalizing l₂ with
  | nil =>
    cases l₂ with
    | nil => exact .nil
    | cons y ys =>
      obtain ⟨x, hx, _⟩ := h21 y (List.mem_cons_self ..)
      simp at hx
  | cons a as ih =>
    cases l₂ with
    | nil =>
      obtain ⟨y, hy, _⟩ := h12 a (List.mem_cons_self ..)
      simp at hy
    | cons b bs =>
      have ha : O.dom a := hd₁ a (List.mem_cons_self ..)
      have hb : O.dom b := hd₂ b (List.mem_cons_self ..)
      have has : O.AllDom as := fun x hx => hd₁ x (List.mem_cons_of_mem _ hx)
      have hbs : O.AllDom bs := fun x hx => hd₂ x (List.mem_cons_of_mem _ hx)
      have hsa := List.pairwise_cons.mp hs₁
      have hsb := List.pairwise_cons.mp hs₂
      -- the heads are the same instance
      have hab : O.same a b = true := by
        cases h : O.same a b
        · exfalso
          obtain ⟨y, hy, _⟩ := h12 a (List.mem_cons_self ..)
          simp only [List.find?_cons, h] at hy
          have hyb : y ∈ bs := List.mem_of_find?_eq_some hy
          have hay : O.same a y = true := List.find?_some hy
          obtain ⟨x, hx, _⟩ := h21 b (List.mem_cons_self ..)
          have hba : O.same b a = false := by
            cases h2 : O.same b a
            · rfl
            · rw [O.same_symm hb ha h2] at h
              exact absurd h (by decide)
          simp only [List.find?_cons, hba] at hx
          have hxa : x ∈ as := List.mem_of_find?_eq_some hx
          have hbx : O.same b x = true := List.find?_some hx
          -- a < x ~ b < y ~ a
          have h1 : O.lt a x = true := hsa.1 x hxa
          have h2 : O.lt b y = true := hsb.1 y hyb
          have h3 : O.lt a b = true := by
            rw [O.lt_congr_r ha hb (has x hxa) hbx]
            exact h1
          have h4 : O.lt b a = true := by
            rw [O.lt_congr_r hb ha (hbs y hyb) hay]
            exact h2
          have := O.asymm ha hb h3
          rw [h4] at this
          exact absurd this (by decide)
        · rfl
      have hba : O.same b a = true := O.same_symm ha hb hab
      have hRab : R a b := by
        obtain ⟨y, hy, hr⟩ := h12 a (List.mem_cons_self ..)
        simp only [List.find?_cons, hab, Option.some.injEq] at hy
        exact hy ▸ hr
      refine .cons hRab (ih has hbs hsa.2 hsb.2 ?_ ?_)
      · intro x hx
        obtain ⟨y, hy, hr⟩ := h12 x (List.mem_cons_of_mem _ hx)
        have hxb : O.same x b = false := by
          cases h : O.same x b
          · rfl
          · have h1 : O.same a x = true := O.same_trans ha hb (has x hx) hab (O.same_symm (has x hx) hb h)
            have := O.lt_not_same ha (has x hx) (hsa.1 x hx)
            rw [h1] at this
            exact absurd this (by decide)
        simp only [List.find?_cons, hxb] at hy
        exact ⟨y, hy, hr⟩
      · intro y hy
        obtain ⟨x, hx, hr⟩ := h21 y (List.mem_cons_of_mem _ hy)
        have hya : O.same y a = false := by
          cases h : O.same y a
          · rfl
          · have h1 : O.same b y = true := O.same_trans hb ha (hbs y hy) hba (O.same_symm (hbs y hy) ha h)
            have := O.lt_not_same hb (hbs y hy) (hsb.1 y hy)
            rw [h1] at this
            exact absurd this (by decide)
        simp only [List.find?_cons, hya] at hx
        exact ⟨x, hx, hr⟩

end Ord

end LyModel.Diff.KL
