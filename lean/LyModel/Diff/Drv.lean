import LyModel.Diff.Apply
import LyModel.Diff.UOBridgeHyp
/-! driver ops of component `diff` (and of the shared tree base): see harness/api_diff.c for the protocol -/
namespace LyModel.Diff.Drv
open LyModel LyModel.Tree

def withSchema (dsl : String) (k : Schema → String) : String :=
  match Schema.ofHex dsl with
  | some S => k S
  | none => "err BadSchema"

/-- a tree argument must be in canonical order (the harness re-dumps what it built and compares) -/
def withTree (S : Schema) (h : String) (k : List DNode → String) : String :=
  match forestOfHex S h with
  | none => "err BadTree"
  | some f => if dumpTok (canon S (heightL f + 1) f) == dumpTok f then k f else "err NonCanonical"

/-- `fx=120,126` — the findings whose repair is in the tree under test (`-` = none) -/
def parseFixes (a : String) : Fixes :=
  let l := ((a.drop 3).toString.splitOn ",")
  { f120 := l.contains "120", f126 := l.contains "126", f128 := l.contains "128" }

def handle (op : String) (args : List String) : String :=
  match op, args with
  | "schema", [dsl, _yang] =>
    withSchema dsl fun S => "ok " ++ toString S.nodes.length ++ " " ++ " ".intercalate S.summary
  | "canon", [dsl, t] =>
    withSchema dsl fun S =>
      match forestOfHex S t with
      | some f => "ok " ++ dumpTok (canon S (heightL f + 1) f)
      | none => "err BadTree"
  | "diff", [dsl, a, b, o, fx] =>
    withSchema dsl fun S => withTree S a fun A => withTree S b fun B =>
      let r := diffFull S (o != "0") A B (parseFixes fx)
      "ok " ++ dumpTok r.1 ++ " " ++ toString r.2
  | "diffapply", [dsl, a, b, o, fx] =>
    withSchema dsl fun S => withTree S a fun A => withTree S b fun B =>
      match apply S A (diffFromPtr S (o != "0") A B (parseFixes fx)) (parseFixes fx) with
      | .ok r => if hasDupInst S (heightL r + 1) r then "ok DupInstances" else "ok " ++ dumpTok (stripNpL S r)
      | .error e => "err " ++ e.name
  | "apply3", [dsl, a, b, c, o, fx] =>
    withSchema dsl fun S => withTree S a fun A => withTree S b fun B => withTree S c fun C =>
      match apply S C (diffFromPtr S (o != "0") A B (parseFixes fx)) (parseFixes fx) with
      | .ok r => if hasDupInst S (heightL r + 1) r then "ok DupInstances" else "ok " ++ dumpTok (stripNpL S r)
      | .error e => "err " ++ e.name
  -- does the pair satisfy the hypotheses of `Props.C06UO.apply_diff_userord_flat_ll`?  If so: the operations of the list core
  | "uohyp", [dsl, a, b] =>
    withSchema dsl fun S => withTree S a fun A => withTree S b fun B =>
      match UOB.flatLL S A B with
      | some s => "ok 1 " ++ toString s ++ " " ++ " ".intercalate (UOB.coreOps A B)
      | none =>
        match UOB.flatKL S A B with
        | some s => "ok 2 " ++ toString s ++ " " ++ " ".intercalate (UOB.coreOpsK S s A B)
        | none =>
          match UOB.nbLL S A B with
          | some s => "ok 3 " ++ toString s ++ " " ++ " ".intercalate (UOB.coreOpsNB s A B)
          | none =>
            match UOB.contLL S A B with
            | some s => "ok 4 " ++ toString s ++ " " ++ " ".intercalate (UOB.coreOpsCont s A B)
            | none =>
              match UOB.flatMK S A B with
              | some (s, _) => "ok 5 " ++ toString s ++ " " ++ " ".intercalate (UOB.coreOpsM S s A B)
              | none => "ok 0"
  | _, _ => "err BadOp"

end LyModel.Diff.Drv
