import LyModel.Diff.UOBridgeBase
/-!
# Bridge from the user-ordered list core to the tree model (C06) — part 2: `lyd_diff_userord_attrs` on one leaf-list

The sibling lists are the instances of ONE user-ordered configuration leaf-list `s` (`llForest s values`).  With the virtual
instance list of the model being the tags of the core's virtual list `v`, `userordAttrs` computes the operation the core's
`phase1` / `phase2` generate, the anchor metadata (`value`) is the core's anchor, and the updated virtual list is the core's.
Core Lean only.
-/
namespace LyModel.Diff.UOB
open LyModel LyModel.Tree LyModel.Diff
set_option linter.unusedSimpArgs false
set_option linter.unusedVariables false

/-- schema facts: `s` is a user-ordered configuration leaf-list -/
structure LLCtx (S : Schema) (s : Nat) : Prop where
  kind : S.kind? s = some .leaflist
  uo : S.isUserOrd s = true
  nd : S.isDupInst s = false

theorem LLCtx.ll {S : Schema} {s : Nat} (C : LLCtx S s) : S.isKind s .leaflist = true := by
  simp [Schema.isKind, C.kind]
theorem LLCtx.nl {S : Schema} {s : Nat} (C : LLCtx S s) : S.isKind s .list = false := by
  simp [Schema.isKind, C.kind]

/-- an instance of the leaf-list as `lyd_parse_data` / `lyd_new_term` build it: no flags, no metadata -/
def llNode (s : Nat) (v : Bytes) : DNode := .term s {} [] v
/-- a sibling list made of instances of the leaf-list `s` only -/
def llForest (s : Nat) (vs : List Bytes) : List DNode := vs.map (llNode s)

@[simp] theorem llNode_sid (s : Nat) (v : Bytes) : (llNode s v).sid = s := rfl
@[simp] theorem llNode_val (s : Nat) (v : Bytes) : (llNode s v).val = v := rfl
@[simp] theorem llNode_flags (s : Nat) (v : Bytes) : (llNode s v).flags = {} := rfl
@[simp] theorem llNode_kids (s : Nat) (v : Bytes) : (llNode s v).kids = [] := rfl
@[simp] theorem llNode_metas (s : Nat) (v : Bytes) : (llNode s v).metas = [] := rfl

theorem sameInst_ll {S : Schema} {s : Nat} (C : LLCtx S s) (x y : DNode) (hx : x.sid = s) (hy : y.sid = s) :
    sameInst S x y = decide (x.val = y.val) := by
  simp [sameInst, hx, hy, C.kind, Bool.beq_eq_decide_eq]

/-- inside the bridge `==` on byte strings is the one derived from decidable equality — the instance the generic core
(`UOG`, `[DecidableEq α]`) is instantiated with -/
local instance (priority := high) bytesBEq : BEq Bytes := instBEqOfDecidableEq

theorem sameInst_llNode {S : Schema} {s : Nat} (C : LLCtx S s) (x y : Bytes) :
    sameInst S (llNode s x) (llNode s y) = decide (x = y) := sameInst_ll C _ _ rfl rfl

theorem tagNode_ctag (s : Nat) (va vb : List Bytes) (y : Bytes) (hy : y ∈ va ∨ y ∈ vb) :
    tagNode (llForest s va) (llForest s vb) (ctag va vb y) = some (llNode s y) := by
  unfold ctag tagNode llForest
  by_cases h : y ∈ va
  · simp [h, List.getElem?_map, idxOf_getElem?_of_mem h]
  · simp [h, List.getElem?_map, idxOf_getElem?_of_mem (hy.resolve_left h)]

theorem inst_get (s : Nat) (va vb v : List Bytes) (hv : ∀ y ∈ v, y ∈ va ∨ y ∈ vb) (q : Nat) :
    ((v.map (ctag va vb))[q]?).bind (tagNode (llForest s va) (llForest s vb)) = v[q]?.map (llNode s) := by
  rw [List.getElem?_map]
  cases h : v[q]? with
  | none => rfl
  | some y => simp [tagNode_ctag s va vb y (hv y (List.mem_of_getElem? h))]

theorem ctag_first (va vb : List Bytes) (nda : va.Nodup) {i : Nat} {x : Bytes} (hi : va[i]? = some x) :
    ctag va vb x = (false, i) := by
  have hx : x ∈ va := List.mem_of_getElem? hi
  simp [ctag, hx, idxOf_of_getElem? nda hi]

theorem ctag_second (va vb : List Bytes) (ndb : vb.Nodup) {j : Nat} {y : Bytes} (hj : vb[j]? = some y) (hy : y ∉ va) :
    ctag va vb y = (true, j) := by
  simp [ctag, hy, idxOf_of_getElem? ndb hj]

theorem idxOfTag_ctag (va vb v : List Bytes) (x : Bytes) (hv : ∀ y ∈ v, y ∈ va ∨ y ∈ vb) (hx : x ∈ va ∨ x ∈ vb) :
    idxOfTag (v.map (ctag va vb)) (ctag va vb x) = v.idxOf x :=
  idxOfTag_map _ v x (fun y hy h => ctag_inj va vb (hv y hy) hx h)

/-- first pass: an instance of the first tree without a match is deleted -/
theorem attrs_delete {S : Schema} {s : Nat} (C : LLCtx S s) (va vb v : List Bytes) (p i : Nat) (x : Bytes)
    (hv : ∀ y ∈ v, y ∈ va ∨ y ∈ vb) (nda : va.Nodup) (hi : va[i]? = some x) :
    ∃ ov, userordAttrs S true (llForest s va) (llForest s vb) ⟨s, v.map (ctag va vb), p⟩ (some i) none =
      (some { op := .delete, origValue := some ov }, ⟨s, (v.erase x).map (ctag va vb), p + 1⟩) := by
  have hx : x ∈ va := List.mem_of_getElem? hi
  have ht := ctag_first va vb nda hi
  have hidx := idxOfTag_ctag va vb v x hv (Or.inl hx)
  rw [ht] at hidx
  simp only [userordAttrs, Option.bind_none, Option.bind_some, C.nd, C.ll, C.nl, hidx, map_eraseIdx, eraseIdx_idxOf]
  simp

/-- the anchor of the core: the instance placed just before position `p` of the virtual list -/
def anchorAt (v : List Bytes) (p : Nat) : Option Bytes := if p = 0 then none else v[p - 1]?

theorem llForest_get (s : Nat) (vs : List Bytes) (i : Nat) : (llForest s vs)[i]? = vs[i]?.map (llNode s) := by
  simp [llForest]

/-- second pass: an instance of the second tree without a match is created behind the instance placed before it -/
theorem attrs_create {S : Schema} {s : Nat} (C : LLCtx S s) (va vb v : List Bytes) (p j : Nat) (y : Bytes)
    (hv : ∀ z ∈ v, z ∈ va ∨ z ∈ vb) (ndb : vb.Nodup) (hj : vb[j]? = some y) (hy : y ∉ va) :
    userordAttrs S true (llForest s va) (llForest s vb) ⟨s, v.map (ctag va vb), p⟩ none (some j) =
      (some { op := .create, value := some ((anchorAt v p).getD []) },
       ⟨s, (UOG.insertAt v p y).map (ctag va vb), p + 1⟩) := by
  have ht := ctag_second va vb ndb hj hy
  simp only [userordAttrs, Option.bind_none, Option.bind_some, C.nd, C.ll, C.nl, llForest_get, hj, Option.map_some,
    inst_get s va vb v hv, Option.getD_some, ← ht, insertAt_map]
  unfold anchorAt
  by_cases hp : p = 0
  · simp [hp]
  · cases hq : v[p - 1]? <;> simp [hp, hq]

/-- second pass: a matched instance that already is at its place: no operation -/
theorem attrs_keep {S : Schema} {s : Nat} (C : LLCtx S s) (va vb v : List Bytes) (p i j : Nat) (y : Bytes)
    (hv : ∀ z ∈ v, z ∈ va ∨ z ∈ vb) (hi : va[i]? = some y) (hj : vb[j]? = some y) (hp : v[p]? = some y) :
    userordAttrs S true (llForest s va) (llForest s vb) ⟨s, v.map (ctag va vb), p⟩ (some i) (some j) =
      (none, ⟨s, v.map (ctag va vb), p + 1⟩) := by
  simp only [userordAttrs, Option.bind_none, Option.bind_some, C.nd, C.ll, C.nl, llForest_get, hi, hj, Option.map_some,
    inst_get s va vb v hv, hp, sameInst_llNode C]
  simp

/-- second pass: a matched instance that is not at its place is moved behind the instance placed before it -/
theorem attrs_move {S : Schema} {s : Nat} (C : LLCtx S s) (va vb v : List Bytes) (p i j : Nat) (y : Bytes)
    (hv : ∀ z ∈ v, z ∈ va ∨ z ∈ vb) (nda : va.Nodup) (hi : va[i]? = some y) (hj : vb[j]? = some y)
    (hp : v[p]? ≠ some y) :
    ∃ ov, userordAttrs S true (llForest s va) (llForest s vb) ⟨s, v.map (ctag va vb), p⟩ (some i) (some j) =
      (some { op := .replace, origDefault := some (boolBytes false), origValue := some ov,
              value := some ((anchorAt v p).getD []) },
       ⟨s, (UOG.insertAt (v.erase y) p y).map (ctag va vb), p + 1⟩) := by
  have hx : y ∈ va := List.mem_of_getElem? hi
  have ht := ctag_first va vb nda hi
  have hidx := idxOfTag_ctag va vb v y hv (Or.inl hx)
  rw [ht] at hidx
  refine ⟨if v.idxOf y = 0 then [] else ((v[v.idxOf y - 1]?).map (fun z => (llNode s z).val)).getD [], ?_⟩
  simp only [userordAttrs, Option.bind_none, Option.bind_some, C.nd, C.ll, C.nl, llForest_get, hi, hj, Option.map_some,
    inst_get s va vb v hv, hidx, map_eraseIdx, eraseIdx_idxOf, Option.getD_some]
  simp only [← ht, insertAt_map]
  have hne : ∀ z, v[p]? = some z → ¬ (y = z) := by
    intro z hq e; apply hp; rw [hq, e]
  have hanch : (if p = 0 then [] else ((v[p - 1]?).map (fun z => (llNode s z).val)).getD []) = (anchorAt v p).getD [] := by
    unfold anchorAt
    by_cases hp0 : p = 0
    · simp [hp0]
    · cases hq : v[p - 1]? <;> simp [hp0, hq]
  have hcomp : ((fun (x : DNode) => x.val) ∘ llNode s) = id := rfl
  cases hq0 : v[p]? with
  | none => simp [← hanch, hcomp]
  | some z => simp [sameInst_llNode C, hne z hq0, ← hanch, hcomp]

/-! ## `lyd_diff_find_match` among the instances -/

theorem matchPred_ll {S : Schema} {s : Nat} (C : LLCtx S s) (x z : Bytes) (used : List Nat) (i : Nat) :
    matchPred S (llNode s x) used (llNode s z) i = decide (z = x) := by
  simp [matchPred, C.ll, C.nd, instMatch, sameInst_llNode C]

theorem findIdxFrom_ll {S : Schema} {s : Nat} (C : LLCtx S s) (x : Bytes) (used : List Nat) :
    ∀ (vs : List Bytes) (k : Nat), findIdxFrom (matchPred S (llNode s x) used) (llForest s vs) k =
      if x ∈ vs then some (vs.idxOf x + k) else none
  | [], k => by simp [llForest, findIdxFrom]
  | z :: zs, k => by
    have ih := findIdxFrom_ll C x used zs (k + 1)
    unfold llForest at ih ⊢
    by_cases e : z = x
    · subst e; simp [findIdxFrom, matchPred_ll C, List.idxOf_cons]
    · have e' : (z == x) = false := by simpa using e
      have e2 : ¬ x = z := fun h => e h.symm
      simp only [List.map_cons, findIdxFrom, matchPred_ll C, e, decide_false, Bool.false_eq_true, if_false, ih,
        List.mem_cons, e2, false_or, List.idxOf_cons, e', cond_false]
      split <;> simp <;> omega

theorem findMatch_ll_some {S : Schema} {s : Nat} (C : LLCtx S s) (vs : List Bytes) (x : Bytes) (used : List Nat)
    (hx : x ∈ vs) : findMatch S (llForest s vs) (llNode s x) true used = (some (vs.idxOf x), used) := by
  simp [findMatch, findIdxFrom_ll C, hx, C.nd]

theorem findMatch_ll_none {S : Schema} {s : Nat} (C : LLCtx S s) (vs : List Bytes) (x : Bytes) (used : List Nat)
    (hx : x ∉ vs) : findMatch S (llForest s vs) (llNode s x) true used = (none, used) := by
  simp [findMatch, findIdxFrom_ll C, hx]

end LyModel.Diff.UOB
