/-!
# The user-ordered list core, generic in the instance identity (C06 bridge, part 0)

`LyModel.Diff.UO` (UserOrd*.lean) with the identity `Nat` replaced by any type with decidable equality (the bridge uses
`Bytes`: the value of a leaf-list instance; `List Bytes`: the key values of a list instance), and with `applyOp` made as
strict as `lyd_diff_insert` is: a move whose anchor is the moved instance itself, or a move to the front of an instance
that already is the first, is an error (`LY_EINVAL`, "node cannot be moved to itself").  `diffU` never generates such moves;
`userord_apply_diff` shows it.  Core Lean only.
-/
namespace LyModel.Diff.UOG
set_option linter.unusedSectionVars false
variable {α : Type} [DecidableEq α]

inductive UOp (α : Type) where
  | del (k : α)
  | create (k : α) (anchor : Option α)
  | move (k : α) (anchor : Option α)
  deriving Repr, DecidableEq

def insertAt (l : List α) (p : Nat) (x : α) : List α := l.take p ++ x :: l.drop p

/-- insert `x` right after the first occurrence of `k` -/
def insertAfterKey (k x : α) : List α → Option (List α)
  | [] => none
  | h :: t => if h = k then some (h :: x :: t) else (insertAfterKey k x t).map (h :: ·)

def insertAfter (l : List α) (anchor : Option α) (x : α) : Option (List α) :=
  match anchor with
  | none => some (x :: l)
  | some k => insertAfterKey k x l

def applyOp (l : Option (List α)) (op : UOp α) : Option (List α) :=
  l.bind fun l => match op with
  | .del k => if k ∈ l then some (l.erase k) else none
  | .create k a => if k ∈ l then none else insertAfter l a k
  | .move k a =>
    if k ∈ l ∧ a ≠ some k ∧ ¬ (a = none ∧ l.head? = some k) then insertAfter (l.erase k) a k else none

def applyU (a : List α) (ops : List (UOp α)) : Option (List α) := ops.foldl applyOp (some a)

/-- phase 1 of lyd_diff_siblings_r for one user-ordered list: deletes -/
def phase1 (b : List α) : List α → List (UOp α) × List α → List (UOp α) × List α
  | [], st => st
  | x :: xs, (ops, v) => if x ∈ b then phase1 b xs (ops, v) else phase1 b xs (ops ++ [.del x], v.erase x)

/-- phase 2: creates and moves, position-based with a preceding anchor -/
def phase2 (a : List α) : List α → List (UOp α) × List α × Nat → List (UOp α) × List α × Nat
  | [], st => st
  | y :: ys, (ops, v, pos) =>
    let anchor := if pos = 0 then none else v[pos-1]?
    if y ∈ a then
      if v[pos]? = some y then phase2 a ys (ops, v, pos+1)
      else phase2 a ys (ops ++ [.move y anchor], insertAt (v.erase y) pos y, pos+1)
    else phase2 a ys (ops ++ [.create y anchor], insertAt v pos y, pos+1)

def diffU (a b : List α) : List (UOp α) :=
  let (d, v) := phase1 b a ([], a)
  (phase2 a b (d, v, 0)).1

theorem applyU_append (a : List α) (o1 o2 : List (UOp α)) :
    applyU a (o1 ++ o2) = (applyU a o1).bind fun l => applyU l o2 := by
  unfold applyU
  rw [List.foldl_append]
  cases h : List.foldl applyOp (some a) o1 with
  | none =>
    simp
    induction o2 with
    | nil => rfl
    | cons o os ih => simpa [applyOp] using ih
  | some l => simp

theorem insertAfterKey_split (k x : α) (pre post : List α) (h : k ∉ pre) :
    insertAfterKey k x (pre ++ k :: post) = some (pre ++ k :: x :: post) := by
  induction pre with
  | nil => simp [insertAfterKey]
  | cons p ps ih =>
    have hp : p ≠ k := by intro e; exact h (by simp [e])
    have hps : k ∉ ps := by intro e; exact h (by simp [e])
    simp [insertAfterKey, hp, ih hps]

theorem erase_split (y : α) (pre post : List α) (h : y ∉ pre) :
    (pre ++ y :: post).erase y = pre ++ post := by
  induction pre with
  | nil => simp
  | cons p ps ih =>
    have hp : p ≠ y := by intro e; exact h (by simp [e])
    have hps : y ∉ ps := by intro e; exact h (by simp [e])
    simp [hp, ih hps]


theorem applyU_cons (l : List α) (op : UOp α) (ops : List (UOp α)) :
    applyU l (op :: ops) = (applyOp (some l) op).bind fun l' => applyU l' ops := by
  have := applyU_append l [op] ops
  simpa [applyU] using this

theorem phase1_spec (b : List α) (todo kept : List α) (ops : List (UOp α))
    (nd : (kept ++ todo).Nodup) :
    phase1 b todo (ops, kept ++ todo) =
      (ops ++ (todo.filter (fun x => !decide (x ∈ b))).map UOp.del, kept ++ todo.filter (fun x => decide (x ∈ b))) := by
  induction todo generalizing kept ops with
  | nil => simp [phase1]
  | cons x xs ih =>
    by_cases hx : x ∈ b
    · have := ih (kept ++ [x]) ops (by simpa using nd)
      simp only [List.append_assoc, List.singleton_append] at this
      simp [phase1, hx, this]
    · have hk : x ∉ kept := by
        intro hk
        have := (List.nodup_append.mp nd).2.2 x hk x (by simp)
        exact this rfl
      have nd' : (kept ++ xs).Nodup := by
        have := nd
        simp only [List.nodup_append, List.nodup_cons] at this ⊢
        refine ⟨this.1, this.2.1.2, ?_⟩
        intro a ha b hb
        exact this.2.2 a ha b (by simp [hb])
      simp [phase1, hx, erase_split x kept xs hk, ih kept (ops ++ [.del x]) nd']

theorem apply_dels (b : List α) (todo kept : List α) (nd : (kept ++ todo).Nodup) :
    applyU (kept ++ todo) ((todo.filter (fun x => !decide (x ∈ b))).map UOp.del) =
      some (kept ++ todo.filter (fun x => decide (x ∈ b))) := by
  induction todo generalizing kept with
  | nil => simp [applyU]
  | cons x xs ih =>
    by_cases hx : x ∈ b
    · have := ih (kept ++ [x]) (by simpa using nd)
      simp only [List.append_assoc, List.singleton_append] at this
      simp [hx, this]
    · have hk : x ∉ kept := by
        intro hk
        have := (List.nodup_append.mp nd).2.2 x hk x (by simp)
        exact this rfl
      have nd' : (kept ++ xs).Nodup := by
        have := nd
        simp only [List.nodup_append, List.nodup_cons] at this ⊢
        refine ⟨this.1, this.2.1.2, ?_⟩
        intro a ha b hb
        exact this.2.2 a ha b (by simp [hb])
      have h := ih kept nd'
      have e1 : List.filter (fun x => !decide (x ∈ b)) (x :: xs) = x :: List.filter (fun x => !decide (x ∈ b)) xs := by
        simp [hx]
      have e2 : List.filter (fun x => decide (x ∈ b)) (x :: xs) = List.filter (fun x => decide (x ∈ b)) xs := by
        simp [hx]
      rw [e1, e2, List.map_cons, applyU_cons]
      have : applyOp (some (kept ++ x :: xs)) (UOp.del x) = some (kept ++ xs) := by
        simp [applyOp, erase_split x kept xs hk]
      rw [this]
      simpa using h


theorem insertAt_left (pre r : List α) (y : α) : insertAt (pre ++ r) pre.length y = pre ++ y :: r := by
  simp [insertAt]

theorem getElem?_at_len (pre rest : List α) : (pre ++ rest)[pre.length]? = rest.head? := by
  cases rest <;> simp

/-- the anchor libyang records: the element just placed before position `pre.length` -/
def anchorOf (pre : List α) : Option α := pre.getLast?

theorem anchor_eq (pre rest : List α) :
    (if pre.length = 0 then none else (pre ++ rest)[pre.length - 1]?) = anchorOf pre := by
  unfold anchorOf
  rcases List.eq_nil_or_concat pre with h | ⟨p, k, h⟩
  · simp [h]
  · subst h
    simp

theorem insertAfter_anchor (pre r : List α) (y : α) (nd : pre.Nodup) :
    insertAfter (pre ++ r) (anchorOf pre) y = some (pre ++ y :: r) := by
  unfold anchorOf
  rcases List.eq_nil_or_concat pre with h | ⟨p, k, h⟩
  · simp [h, insertAfter]
  · subst h
    rw [List.concat_eq_append] at nd ⊢
    have hk : k ∉ p := by
      have := List.nodup_append.mp nd
      intro hk; exact this.2.2 k hk k (by simp) rfl
    have e : (p ++ [k]).getLast? = some k := by simp
    simp only [e, insertAfter]
    rw [List.append_assoc, List.singleton_append, insertAfterKey_split k y p r hk]
    simp


/-- Invariant-carrying specification of phase 2.
`pre` = the prefix of the second list already in place, `rest` = what remains of the virtual first list. -/
theorem phase2_spec (a : List α) (ys pre rest : List α) (ops : List (UOp α))
    (ndb : (pre ++ ys).Nodup) (ndv : (pre ++ rest).Nodup)
    (h1 : ∀ x, x ∈ rest → x ∈ ys) (h2 : ∀ y, y ∈ ys → y ∈ a → y ∈ rest) (h3 : ∀ x, x ∈ rest → x ∈ a) :
    ∃ ops', phase2 a ys (ops, pre ++ rest, pre.length) = (ops ++ ops', pre ++ ys, (pre ++ ys).length) ∧
            applyU (pre ++ rest) ops' = some (pre ++ ys) := by
  induction ys generalizing pre rest ops with
  | nil =>
    have : rest = [] := by
      cases rest with
      | nil => rfl
      | cons r rs => exact absurd (h1 r (by simp)) (by simp)
    subst this
    exact ⟨[], by simp [phase2], by simp [applyU]⟩
  | cons y ys ih =>
    have ndpre : pre.Nodup := (List.nodup_append.mp ndb).1
    have ypre : y ∉ pre := by
      intro hy; exact (List.nodup_append.mp ndb).2.2 y hy y (by simp) rfl
    have yys : y ∉ ys := by
      have := (List.nodup_append.mp ndb).2.1
      exact (List.nodup_cons.mp this).1
    have ndb' : ((pre ++ [y]) ++ ys).Nodup := by simpa using ndb
    by_cases hya : y ∈ a
    · have hyr : y ∈ rest := h2 y (by simp) hya
      obtain ⟨r1, r2, hr, hyr1⟩ : ∃ r1 r2, rest = r1 ++ y :: r2 ∧ y ∉ r1 := by
        obtain ⟨s, t, hst⟩ := List.append_of_mem hyr
        -- take the first occurrence
        induction s generalizing rest with
        | nil => exact ⟨[], t, hst, by simp⟩
        | cons c cs _ =>
          -- rest = c :: cs ++ y :: t ; nodup rest gives y ∉ c :: cs
          refine ⟨c :: cs, t, hst, ?_⟩
          have ndr : rest.Nodup := (List.nodup_append.mp ndv).2.1
          rw [hst] at ndr
          intro hmem
          exact (List.nodup_append.mp ndr).2.2 y hmem y (by simp) rfl
      subst hr
      -- common facts about the new remainder r1 ++ r2
      have ndv' : ((pre ++ [y]) ++ (r1 ++ r2)).Nodup := by
        have := ndv
        simp only [List.nodup_append, List.nodup_cons, List.mem_append, List.mem_cons] at this ⊢
        grind
      have h1' : ∀ x, x ∈ r1 ++ r2 → x ∈ ys := by
        intro x hx
        have hx' : x ∈ r1 ++ y :: r2 := by
          simp only [List.mem_append, List.mem_cons] at hx ⊢; grind
        have := h1 x hx'
        have hne : x ≠ y := by
          intro e; subst e
          have := (List.nodup_append.mp ndv).2.1
          simp only [List.nodup_append, List.nodup_cons, List.mem_append] at this hx
          grind
        simpa [hne] using this
      have h2' : ∀ z, z ∈ ys → z ∈ a → z ∈ r1 ++ r2 := by
        intro z hz hza
        have := h2 z (by simp [hz]) hza
        have hne : z ≠ y := by intro e; subst e; exact yys hz
        simp only [List.mem_append, List.mem_cons] at this ⊢; grind
      have h3' : ∀ x, x ∈ r1 ++ r2 → x ∈ a := by
        intro x hx; apply h3; simp only [List.mem_append, List.mem_cons] at hx ⊢; grind
      by_cases hhead : (pre ++ (r1 ++ y :: r2))[pre.length]? = some y
      · -- already in place: r1 must be empty
        have hr1 : r1 = [] := by
          rw [getElem?_at_len] at hhead
          cases r1 with
          | nil => rfl
          | cons c cs => simp at hhead; subst hhead; exact absurd (by simp) hyr1
        subst hr1
        obtain ⟨ops', e1, e2⟩ := ih (pre ++ [y]) r2 ops ndb' (by simpa using ndv') (by simpa using h1')
          (by simpa using h2') (by simpa using h3')
        refine ⟨ops', ?_, ?_⟩
        · have hh : (pre ++ y :: r2)[pre.length]? = some y := by simp
          simp only [phase2, hya, if_true, hh, List.nil_append]
          simpa using e1
        · simpa using e2
      · -- move
        obtain ⟨ops', e1, e2⟩ := ih (pre ++ [y]) (r1 ++ r2) (ops ++ [.move y (anchorOf pre)]) ndb' ndv' h1' h2' h3'
        have her : (pre ++ (r1 ++ y :: r2)).erase y = pre ++ (r1 ++ r2) := by
          rw [← List.append_assoc, erase_split y (pre ++ r1) r2 (by simp [ypre, hyr1]), List.append_assoc]
        refine ⟨.move y (anchorOf pre) :: ops', ?_, ?_⟩
        · simp only [phase2, hya, if_true, hhead, if_false, anchor_eq, her, insertAt_left]
          simpa using e1
        · rw [applyU_cons]
          have : applyOp (some (pre ++ (r1 ++ y :: r2))) (.move y (anchorOf pre)) = some (pre ++ y :: (r1 ++ r2)) := by
            have hc : y ∈ pre ++ (r1 ++ y :: r2) ∧ anchorOf pre ≠ some y ∧
                ¬ (anchorOf pre = none ∧ (pre ++ (r1 ++ y :: r2)).head? = some y) := by
              refine ⟨by simp, ?_, ?_⟩
              · intro e
                exact ypre (List.mem_of_getLast? e)
              · rintro ⟨e1, e2⟩
                have hp : pre = [] := by simpa [anchorOf] using e1
                subst hp
                apply hhead
                simpa [List.head?_eq_getElem?] using e2
            simp only [applyOp, Option.bind_some]
            rw [if_pos hc, her]
            exact insertAfter_anchor pre (r1 ++ r2) y ndpre
          rw [this]
          simpa using e2
    · -- create
      have hyr : y ∉ rest := fun h => hya (h3 y h)
      have ndv' : ((pre ++ [y]) ++ rest).Nodup := by
        have := ndv
        simp only [List.nodup_append, List.nodup_cons, List.mem_append, List.mem_cons] at this ⊢
        grind
      have h1' : ∀ x, x ∈ rest → x ∈ ys := by
        intro x hx
        have := h1 x hx
        have hne : x ≠ y := by intro e; subst e; exact hyr hx
        simpa [hne] using this
      have h2' : ∀ z, z ∈ ys → z ∈ a → z ∈ rest := fun z hz hza => h2 z (by simp [hz]) hza
      obtain ⟨ops', e1, e2⟩ := ih (pre ++ [y]) rest (ops ++ [.create y (anchorOf pre)]) ndb' ndv' h1' h2' h3
      refine ⟨.create y (anchorOf pre) :: ops', ?_, ?_⟩
      · simp only [phase2, hya, if_false, anchor_eq, insertAt_left]
        simpa using e1
      · rw [applyU_cons]
        have : applyOp (some (pre ++ rest)) (.create y (anchorOf pre)) = some (pre ++ y :: rest) := by
          simp only [applyOp, Option.bind_some, List.mem_append, ypre, hyr, or_self, if_false]
          exact insertAfter_anchor pre rest y ndpre
        rw [this]
        simpa using e2


/-- C06 core for user-ordered (leaf-)lists: applying the generated operations to the first list yields the second. -/
theorem userord_apply_diff (a b : List α) (nda : a.Nodup) (ndb : b.Nodup) :
    applyU a (diffU a b) = some b := by
  unfold diffU
  have p1 := phase1_spec b a [] [] (by simpa using nda)
  simp only [List.nil_append] at p1
  rw [p1]
  have ad := apply_dels b a [] (by simpa using nda)
  simp only [List.nil_append] at ad
  obtain ⟨ops', e1, e2⟩ := phase2_spec a b [] (a.filter fun x => decide (x ∈ b))
    ((a.filter fun x => !decide (x ∈ b)).map UOp.del)
    (by simpa using ndb) (by simp only [List.nil_append]; exact List.Pairwise.filter (fun x => decide (x ∈ b)) nda)
    (by intro x hx; simpa using (List.mem_filter.mp hx).2)
    (by intro y hy hya; exact List.mem_filter.mpr ⟨hya, by simpa using hy⟩)
    (by intro x hx; exact (List.mem_filter.mp hx).1)
  simp only [List.nil_append, List.length_nil] at e1 e2
  show applyU a (phase2 a b (List.map UOp.del (List.filter (fun x => !decide (x ∈ b)) a), List.filter (fun x => decide (x ∈ b)) a, 0)).1 = some b
  rw [e1]
  show applyU a (List.map UOp.del (List.filter (fun x => !decide (x ∈ b)) a) ++ ops') = some b
  rw [applyU_append, ad]
  simpa using e2


-- non-vacuity and executable sanity
example : applyU [1,2,3,4,5] (diffU [1,2,3,4,5] [1,2,5,3,4]) = some [1,2,5,3,4] := by decide
example : diffU [1,2,3] [3,4,1] = [.del 2, .move 3 none, .create 4 (some 3)] := by decide
end LyModel.Diff.UOG
