import LyModel.Diff.UOBridgeLLDiff
/-!
# Bridge from the user-ordered list core to the tree model (C06) — part 3: one step of each pass of `lyd_diff_siblings_r`

`phase1Step` / `phase2Step` on sibling lists that are the instances of one user-ordered configuration leaf-list: what is
appended to the diff (`St.out`), and how the virtual instance list (`St.uo`) changes — in the terms of the core
(`UOG.phase1` / `UOG.phase2`).  Core Lean only.
-/
namespace LyModel.Diff.UOB
open LyModel LyModel.Tree LyModel.Diff
set_option linter.unusedSimpArgs false
set_option linter.unusedVariables false
local instance (priority := high) bytesBEq' : BEq Bytes := instBEqOfDecidableEq

/-! ## the diff nodes `lyd_diff_add` creates for the three operations -/

/-- `delete` of the instance `k`; `ov` = the value of the instance that preceded it (`yang:orig-value`, unused by apply) -/
def delNode (s : Nat) (ov k : Bytes) : DNode :=
  .term s {} [("operation", Op.delete.bytes), ("orig-value", ov)] k
/-- `create` of the instance `k` behind the instance with value `a` (`yang:value`; empty = first) -/
def createNode (s : Nat) (a k : Bytes) : DNode :=
  .term s {} [("operation", Op.create.bytes), ("value", a)] k
/-- move (`replace`) of the instance `k` behind the instance with value `a` (`yang:value`; empty = first) -/
def moveNode (s : Nat) (ov a k : Bytes) : DNode :=
  .term s {} [("operation", Op.replace.bytes), ("orig-default", boolBytes false), ("orig-value", ov), ("value", a)] k

theorem dup_ll (S : Schema) (s : Nat) (x : Bytes) (r : Bool) :
    (if r = true then dupRec (llNode s x) else dupShallow S (llNode s x)) = llNode s x := by
  cases r <;> rfl

theorem newNode_ll (S : Schema) (s : Nat) (x : Bytes) (a : Attrs) : newNode S (llNode s x) a = withAttrs S (llNode s x) a := by
  simp only [newNode, dup_ll]

theorem newNode_delete (S : Schema) (s : Nat) (x ov : Bytes) :
    newNode S (llNode s x) { op := .delete, origValue := some ov } = delNode s ov x := by
  rw [newNode_ll]; rfl

theorem newNode_create (S : Schema) (s : Nat) (x a : Bytes) :
    newNode S (llNode s x) { op := .create, value := some a } = createNode s a x := by
  rw [newNode_ll]; rfl

theorem newNode_move (S : Schema) (s : Nat) (x ov a : Bytes) :
    newNode S (llNode s x) { op := .replace, origDefault := some (boolBytes false), origValue := some ov, value := some a }
      = moveNode s ov a x := by
  rw [newNode_ll]; rfl

theorem insertBySchema_end' (n : DNode) : ∀ (l : List DNode), (∀ x ∈ l, x.sid ≤ n.sid) → insertBySchema n l = l ++ [n]
  | [], _ => rfl
  | x :: xs, h => by
    have hx : ¬ n.sid < x.sid := by have := h x (by simp); omega
    simp only [insertBySchema, hx, if_false, List.cons_append, List.cons.injEq, true_and]
    exact insertBySchema_end' n xs (fun y hy => h y (by simp [hy]))

@[simp] theorem sid_setMetas (n : DNode) (m : List Meta) : (n.setMetas m).sid = n.sid := by cases n <;> rfl
@[simp] theorem sid_setKids (n : DNode) (k : List DNode) : (n.setKids k).sid = n.sid := by cases n <;> rfl
@[simp] theorem sid_addMeta (n : DNode) (nm : String) (v : Bytes) : (addMeta n nm v).sid = n.sid := by simp [addMeta]
@[simp] theorem sid_addMetaOpt (n : DNode) (nm : String) (v : Option Bytes) : (addMetaOpt n nm v).sid = n.sid := by
  cases v <;> simp [addMetaOpt]
theorem sid_withAttrs (S : Schema) (n : DNode) (a : Attrs) : (withAttrs S n a).sid = n.sid := by
  unfold withAttrs
  simp only [sid_addMetaOpt]
  split <;> simp

/-! ## `lyd_diff_add` at a level that holds nodes of `s` only -/

theorem addAt_ll {S : Schema} {s : Nat} (C : LLCtx S s) (out : List DNode) (x : Bytes) (a : Attrs)
    (hout : ∀ n ∈ out, n.sid = s ∧ n.val ≠ x) :
    addAt S out (llNode s x) a = (out ++ [newNode S (llNode s x) a], none) := by
  have h1 : findIdxFrom (fun n _ => sameInst S n (llNode s x)) out 0 = none := by
    rw [findIdxFrom_zero, List.findIdx?_eq_none_iff]
    intro n hn
    rw [sameInst_ll C n _ (hout n hn).1 rfl]
    exact decide_eq_false (hout n hn).2
  have hs : (newNode S (llNode s x) a).sid = s := by
    rw [newNode_ll, sid_withAttrs]; rfl
  have h2 : insertBySchema (newNode S (llNode s x) a) out = out ++ [newNode S (llNode s x) a] := by
    apply insertBySchema_end'
    intro n hn
    rw [hs, (hout n hn).1]
    exact Nat.le_refl _
  simp [addAt, C.nd, h1, h2]

/-! ## the per-schema-node table of virtual lists (`lyd_diff_userord_get`) -/

theorem uoFind_uoSet (items : List UOItem) (it : UOItem) : uoFind (uoSet items it) it.sid = some it := by
  unfold uoSet uoFind
  split
  · rename_i h
    induction items with
    | nil => simp at h
    | cons a t ih =>
      by_cases e : a.sid = it.sid
      · simp [List.find?_cons, e]
      · have e' : (a.sid == it.sid) = false := by simpa using e
        simp only [List.any_cons, e', Bool.false_or] at h
        simp only [List.map_cons, e', Bool.false_eq_true, if_false, List.find?_cons]
        exact ih h
  · rename_i h
    have : List.find? (fun x => x.sid == it.sid) items = none := by
      rw [List.find?_eq_none]
      intro x hx hh
      exact h (List.any_eq_true.mpr ⟨x, hx, hh⟩)
    simp [List.find?_append, this]

theorem uoGet_of_find {items : List UOItem} {sid : Nat} {it : UOItem} (h : uoFind items sid = some it)
    (first : List DNode) (hf : Bool) : uoGet items sid first hf = it := by
  simp [uoGet, h]

/-! ## first pass -/

/-- an instance of the first tree that is not in the second: `delete` is appended, the virtual list loses the instance -/
theorem phase1Step_delete {S : Schema} {s : Nat} (C : LLCtx S s) (va vb v : List Bytes) (p i : Nat) (x : Bytes) (st : St)
    (top : Bool) (recur : List DNode → List DNode → St)
    (hv : ∀ y ∈ v, y ∈ va ∨ y ∈ vb) (nda : va.Nodup) (hi : va[i]? = some x) (hxb : x ∉ vb)
    (huo : uoGet st.uo s (llForest s va) true = ⟨s, v.map (ctag va vb), p⟩)
    (hout : ∀ n ∈ st.out, n.sid = s ∧ n.val ≠ x) :
    ∃ ov st', phase1Step S true top recur (llForest s va) (llForest s vb) st (llNode s x, i) = st' ∧
      st'.out = st.out ++ [delNode s ov x] ∧
      uoFind st'.uo s = some ⟨s, (v.erase x).map (ctag va vb), p + 1⟩ ∧ st'.used = st.used ∧ st'.ptr = 0 := by
  obtain ⟨ov, hat⟩ := attrs_delete C va vb v p i x hv nda hi
  refine ⟨ov, _, rfl, ?_⟩
  have hu := uoFind_uoSet st.uo ⟨s, (v.erase x).map (ctag va vb), p + 1⟩
  simp only [phase1Step, llNode_flags, findMatch_ll_none C vb x st.used hxb, llNode_sid, C.uo, phase1UO, huo, hat,
    St.add, addAt_ll C st.out x _ hout, newNode_delete]
  simp [St.emit, hu]
  split <;> simp [hu]

/-- an instance of the first tree that is in the second too: nothing happens in the first pass -/
theorem phase1Step_keep {S : Schema} {s : Nat} (C : LLCtx S s) (va vb v : List Bytes) (p i : Nat) (x : Bytes) (st : St)
    (top : Bool) (recur : List DNode → List DNode → St) (hrec : (recur [] []).out = [])
    (hxb : x ∈ vb)
    (huo : uoGet st.uo s (llForest s va) true = ⟨s, v.map (ctag va vb), p⟩) :
    ∃ st', phase1Step S true top recur (llForest s va) (llForest s vb) st (llNode s x, i) = st' ∧
      st'.out = st.out ∧
      uoFind st'.uo s = some ⟨s, v.map (ctag va vb), p⟩ ∧ st'.used = st.used ∧ st'.ptr = st.ptr := by
  refine ⟨_, rfl, ?_⟩
  have hu := uoFind_uoSet st.uo ⟨s, v.map (ctag va vb), p⟩
  have hb : (llForest s vb)[vb.idxOf x]? = some (llNode s x) := by
    rw [llForest_get, idxOf_getElem?_of_mem hxb]; rfl
  simp only [phase1Step, llNode_flags, findMatch_ll_some C vb x st.used hxb, llNode_sid, C.uo, phase1UO, huo,
    Option.bind_some, hb, llNode_kids, noKeys, List.dropWhile_nil, wrapParent, hrec, List.isEmpty_nil, if_true]
  simp [hu]

/-! ## second pass -/

/-- an instance of the second tree that is not in the first: `create` behind the instance placed before it -/
theorem phase2Step_create {S : Schema} {s : Nat} (C : LLCtx S s) (va vb v : List Bytes) (p j : Nat) (y : Bytes) (st : St)
    (hv : ∀ z ∈ v, z ∈ va ∨ z ∈ vb) (ndb : vb.Nodup) (hj : vb[j]? = some y) (hya : y ∉ va)
    (huo : uoGet st.uo s (llForest s va) false = ⟨s, v.map (ctag va vb), p⟩)
    (hout : ∀ n ∈ st.out, n.sid = s ∧ n.val ≠ y) :
    ∃ st', phase2Step S true (llForest s va) (llForest s vb) st (llNode s y, j) = st' ∧
      st'.out = st.out ++ [createNode s ((anchorAt v p).getD []) y] ∧
      uoFind st'.uo s = some ⟨s, (UOG.insertAt v p y).map (ctag va vb), p + 1⟩ ∧ st'.used = st.used ∧ st'.ptr = 0 := by
  have hat := attrs_create C va vb v p j y hv ndb hj hya
  refine ⟨_, rfl, ?_⟩
  have hu := uoFind_uoSet st.uo ⟨s, (UOG.insertAt v p y).map (ctag va vb), p + 1⟩
  simp only [phase2Step, llNode_flags, findMatch_ll_none C va y st.used hya, llNode_sid, C.uo, Option.isSome_none, huo, hat,
    St.add, addAt_ll C st.out y _ hout, newNode_create]
  simp [St.emit, hu]
  split <;> simp [hu]

/-- a matched instance that already is at its place: nothing -/
theorem phase2Step_keep {S : Schema} {s : Nat} (C : LLCtx S s) (va vb v : List Bytes) (p j : Nat) (y : Bytes) (st : St)
    (hv : ∀ z ∈ v, z ∈ va ∨ z ∈ vb) (hj : vb[j]? = some y) (hya : y ∈ va) (hp : v[p]? = some y)
    (huo : uoGet st.uo s (llForest s va) true = ⟨s, v.map (ctag va vb), p⟩) :
    ∃ st', phase2Step S true (llForest s va) (llForest s vb) st (llNode s y, j) = st' ∧
      st'.out = st.out ∧
      uoFind st'.uo s = some ⟨s, v.map (ctag va vb), p + 1⟩ ∧ st'.used = st.used ∧ st'.ptr = st.ptr := by
  have hat := attrs_keep C va vb v p (va.idxOf y) j y hv (idxOf_getElem?_of_mem hya) hj hp
  refine ⟨_, rfl, ?_⟩
  have hu := uoFind_uoSet st.uo ⟨s, v.map (ctag va vb), p + 1⟩
  simp only [phase2Step, llNode_flags, findMatch_ll_some C va y st.used hya, llNode_sid, C.uo, Option.isSome_some, huo, hat]
  simp [hu]

/-- a matched instance that is not at its place: move (`replace`) behind the instance placed before it -/
theorem phase2Step_move {S : Schema} {s : Nat} (C : LLCtx S s) (va vb v : List Bytes) (p j : Nat) (y : Bytes) (st : St)
    (hv : ∀ z ∈ v, z ∈ va ∨ z ∈ vb) (nda : va.Nodup) (hj : vb[j]? = some y) (hya : y ∈ va) (hp : v[p]? ≠ some y)
    (huo : uoGet st.uo s (llForest s va) true = ⟨s, v.map (ctag va vb), p⟩)
    (hout : ∀ n ∈ st.out, n.sid = s ∧ n.val ≠ y) :
    ∃ ov st', phase2Step S true (llForest s va) (llForest s vb) st (llNode s y, j) = st' ∧
      st'.out = st.out ++ [moveNode s ov ((anchorAt v p).getD []) y] ∧
      uoFind st'.uo s = some ⟨s, (UOG.insertAt (v.erase y) p y).map (ctag va vb), p + 1⟩ ∧
      st'.used = st.used ∧ st'.ptr = 0 := by
  obtain ⟨ov, hat⟩ := attrs_move C va vb v p (va.idxOf y) j y hv nda (idxOf_getElem?_of_mem hya) hj hp
  refine ⟨ov, _, rfl, ?_⟩
  have hu := uoFind_uoSet st.uo ⟨s, (UOG.insertAt (v.erase y) p y).map (ctag va vb), p + 1⟩
  simp only [phase2Step, llNode_flags, findMatch_ll_some C va y st.used hya, llNode_sid, C.uo, Option.isSome_some, huo, hat,
    St.add, addAt_ll C st.out y _ hout, newNode_move]
  simp [St.emit, hu]
  split <;> simp [hu]

end LyModel.Diff.UOB
