import LyModel.Diff.K13Norm
import LyModel.Diff.Lemmas13Rev
/-!
# C13 over keyed lists: reversal of an exact diff, node by node

The declarations of `Lemmas13Rev.lean` that depend on the fragment predicates, restated for the predicates relative to `P`
(K13Defs.lean) and the hypothesis `KeyOrderOn S P` (K13Ord.lean); the proofs are the same, with `P` carried along.  Lemmas of
`Lemmas13Rev.lean` that do not mention the predicates are used as they are.
-/
set_option linter.unusedSimpArgs false
namespace LyModel.Diff.K13
open LyModel LyModel.Tree LyModel.Diff

variable {P : DNode → Bool} {fx : Fixes}

theorem isSorted_of_leaf {S : Schema} {s : Nat} (h : S.isKind s .leaf = true) : S.isSorted s = false := by
  unfold Schema.isKind Schema.kind? at h
  unfold Schema.isSorted
  cases hg : S.get? s with
  | none => rfl
  | some n =>
    simp only [hg, Option.map_some] at h
    have hk : n.kind = .leaf := by simpa using h
    simp [hk]

theorem val_setKids_inner {x : DNode} (hi : x.isTerm = false) (ks : List DNode) : (x.setKids ks).val = x.val := by
  cases x <;> simp_all [DNode.isTerm, DNode.setKids, DNode.val]

/-- no instance other than the one `c` addresses is affected -/
def Local (S : Schema) (P : DNode → Bool) (c : DNode) (L L' : List DNode) : Prop :=
  ∀ q, Dom S P q → matchP S c q = false → look S L' q = look S L q

theorem probe_eq {S : Schema} (K : KeyOrderOn S P) {q c x : DNode} (hq : Dom S P q) (hc : Dom S P c) (hx : Dom S P x)
    (hcx : matchP S c x = true) : matchP S q x = matchP S c q := by
  rw [matchP_right_congr K hq hc hx hcx, matchP_symm K hq hc]

theorem fwd_set {S : Schema} (K : KeyOrderOn S P) {L : List DNode} (hg : goodT S P L = true) {c x x' : DNode} (hc : Dom S P c)
    (hck : S.isKey c.sid = false) (hl : look S L c = some x) (hx' : goodN S P x' = true) (hsame : matchP S x x' = true) :
    ∃ i, findForApply S L c = some i ∧ L[i]? = some x ∧ goodT S P (L.set i x') = true ∧
      keysOf S (L.set i x') = keysOf S L ∧ Local S P c L (L.set i x') ∧ look S (L.set i x') c = some x' := by
  obtain ⟨i, hi, hix, hcx⟩ := look_some_findIdx K (goodT_goodL hg) hc hl
  have hxd : Dom S P x := goodL_allDom K (goodT_goodL hg) x (List.mem_of_getElem? hix)
  have hxs : x.sid = c.sid := matchP_sid hcx
  obtain ⟨h1, hk, h2⟩ := goodT_set K hg hix hx' hsame (by rw [hxs]; exact hck)
  refine ⟨i, hi, hix, h1, hk, ?_, ?_⟩
  · intro q hq hcq
    rw [h2 q hq, probe_eq K hq hc hxd hcx, hcq]
    simp
  · rw [h2 c hc, hcx]
    simp

theorem fwd_erase {S : Schema} (K : KeyOrderOn S P) {L : List DNode} (hg : goodT S P L = true) {c x : DNode} (hc : Dom S P c)
    (hck : S.isKey c.sid = false) (hl : look S L c = some x) :
    ∃ i, findForApply S L c = some i ∧ L[i]? = some x ∧ goodT S P (L.eraseIdx i) = true ∧
      keysOf S (L.eraseIdx i) = keysOf S L ∧ Local S P c L (L.eraseIdx i) ∧ look S (L.eraseIdx i) c = none := by
  obtain ⟨i, hi, hix, hcx⟩ := look_some_findIdx K (goodT_goodL hg) hc hl
  have hxd : Dom S P x := goodL_allDom K (goodT_goodL hg) x (List.mem_of_getElem? hix)
  have hxs : x.sid = c.sid := matchP_sid hcx
  obtain ⟨h1, hk, h2⟩ := goodT_eraseIdx K hg hix (by rw [hxs]; exact hck)
  refine ⟨i, hi, hix, h1, hk, ?_, ?_⟩
  · intro q hq hcq
    rw [h2 q hq, probe_eq K hq hc hxd hcx, hcq]
    simp
  · rw [h2 c hc, hcx]
    simp

theorem fwd_insert {S : Schema} (K : KeyOrderOn S P) {L : List DNode} (hg : goodT S P L = true) {c n : DNode} (hc : Dom S P c)
    (hck : S.isKey c.sid = false) (hkb : KeysBelow S c L) (hl : look S L c = none) (hn : goodN S P n = true)
    (hns : n.sid = c.sid) (hcn : ∀ x, matchP S n x = matchP S c x) (hcn' : matchP S c n = true) :
    goodT S P (insertNode S L n) = true ∧ keysOf S (insertNode S L n) = keysOf S L ∧ Local S P c L (insertNode S L n) ∧
      look S (insertNode S L n) c = some n := by
  have hnd := goodN_dom hn
  have hln : look S L n = none := by rw [look_congr_fun hcn]; exact hl
  obtain ⟨h1, hk, h2⟩ := goodT_insertNode K hg hn hln (by rw [hns]; exact hck) (by rw [hns]; exact hkb)
  refine ⟨h1, hk, ?_, ?_⟩
  · intro q hq hcq
    rw [h2 q hq, probe_eq K hq hc hnd hcn', hcq]
    simp
  · rw [h2 c hc, hcn']
    simp

theorem exactE_base {S : Schema} {inh : Option Op} {e : Option DNode} {c : DNode} (h : exactE S P inh e c = true) :
    Dom S P c ∧ MetaOK c ∧ S.isKey c.sid = false := by
  cases c <;> simp only [exactE, Bool.and_eq_true, Bool.not_eq_eq_eq_not, Bool.not_true] at h <;>
    exact ⟨domB_iff.mp h.1.1.1, metaOKB_iff.mp h.1.1.2, h.1.2⟩

theorem exactE_create {S : Schema} {inh : Option Op} {e : Option DNode} {c : DNode} (h : exactE S P inh e c = true)
    (hop : effOp c inh = some .create) : e = none ∧ plainL c.kids = true ∧ goodT S P c.kids = true := by
  cases c <;> simp only [exactE, Bool.and_eq_true, hop] at h <;> cases e <;> simp_all [DNode.kids, plainL, goodT_nil]

theorem exactE_delete {S : Schema} {inh : Option Op} {e : Option DNode} {c : DNode} (h : exactE S P inh e c = true)
    (hop : effOp c inh = some .delete) :
    ∃ x, e = some x ∧ dataEq true x c = true ∧ plainL c.kids = true ∧ goodT S P c.kids = true := by
  cases c <;> simp only [exactE, Bool.and_eq_true, hop] at h <;> cases e <;> simp_all [DNode.kids, plainL, goodT_nil]

/-- `create` of a node whose subtree is plain and good -/
theorem apply_create_node {S : Schema} (K : KeyOrderOn S P) {n : Nat} {hp : Bool} {inh : Option Op} {c : DNode} {L : List DNode}
    (hh : c.height ≤ n) (hop : effOp c inh = some .create) (hpl : plainL c.kids = true) (hg : goodN S P c = true) :
    applyNode S fx n L hp inh c = .ok (insertNode S L (mkCreated c)) := by
  obtain ⟨k, rfl⟩ : ∃ k, n = k + 1 := ⟨n - 1, by have := height_pos13 c; omega⟩
  have hd := goodN_dom hg
  rw [applyNode_succ_nuo hd.nuo]
  simp only [hop, childInh_of_effOp_create hop]
  have hkids : heightL c.kids ≤ k := by
    cases c with
    | term => simp [DNode.kids, heightL]
    | inner s f m ks =>
      simp only [DNode.height] at hh
      simp only [DNode.kids]
      omega
  have := applyF_create (fx := fx) K (n := k) (hp := true) (fun c' L' h1 h2 h3 => apply_create_plain (fx := fx) K k true c' L' h1 h2 h3)
    (noKeys S c.kids) (keysOf S c.kids) (by rw [keysOf_append_noKeys]; exact goodN_kids hg)
    (plainL_of_sub hpl (fun x hx => (List.dropWhile_sublist _).subset hx))
    (Nat.le_trans (heightL_noKeys_le S c.kids) hkids)
  rw [dupSingle_kids K hg, this, keysOf_append_noKeys]
  simp only [Except.bind, dupSingle_setKids]

/-- the reversed node `c'` undoes the forward effect `e ↦ e1` wherever `e1` sits at the place of `c` -/
def Restores (S : Schema) (P : DNode → Bool) (fx : Fixes) (n : Nat) (hp : Bool) (inh : Option Op) (c c' : DNode) (e1 e : Option DNode) : Prop :=
  ∀ X, goodT S P X = true → KeysBelow S c X → look S X c = e1 →
    ∃ X', applyNode S fx n X hp inh c' = .ok X' ∧ goodT S P X' = true ∧ keysOf S X' = keysOf S X ∧ Local S P c X X' ∧
      (look S X' c).map normN = e.map normN

def NodeRevConcl (S : Schema) (P : DNode → Bool) (fx : Fixes) (c : DNode) (n : Nat) (hp : Bool) (inh : Option Op) (e : Option DNode) : Prop :=
  ∃ c', revNode S inh (revDup c) = .ok c' ∧ c'.height = c.height ∧ c'.sid = c.sid ∧
    (∀ x, matchP S c' x = matchP S c x) ∧
    ∀ L, goodT S P L = true → KeysBelow S c L → look S L c = e →
      ∃ L', applyNode S fx n L hp inh c = .ok L' ∧ goodT S P L' = true ∧ keysOf S L' = keysOf S L ∧ Local S P c L L' ∧
        Restores S P fx n hp inh c c' (look S L' c) e

def NodeRevSpec (S : Schema) (P : DNode → Bool) (fx : Fixes) (c : DNode) : Prop :=
  ∀ (n : Nat) (hp : Bool) (inh : Option Op) (e : Option DNode), c.height ≤ n → (∀ x, e = some x → goodN S P x = true) →
    exactE S P inh e c = true → NodeRevConcl S P fx c n hp inh e

def ListRevSpec (S : Schema) (P : DNode → Bool) (fx : Fixes) (D : List DNode) : Prop :=
  ∀ (n : Nat) (hp : Bool) (inh : Option Op) (L : List DNode) (leading : Bool), heightL D ≤ n → goodT S P L = true →
    exactK S P inh L leading D = true →
    ∃ R, revL S inh (revDupL D) = .ok R ∧ heightL R = heightL D ∧ (dk S leading R).isEmpty = (dk S leading D).isEmpty ∧
      normL13 (keysOf S R) = normL13 (keysOf S D) ∧
      ∃ L1, applyF S fx n hp inh (dk S leading D) L = .ok L1 ∧ goodT S P L1 = true ∧ keysOf S L1 = keysOf S L ∧
        (∀ q, Dom S P q → (∀ c ∈ dk S leading D, matchP S c q = false) → look S L1 q = look S L q) ∧
        ∀ X, goodT S P X = true → keysOf S X = keysOf S L → (∀ c ∈ dk S leading D, look S X c = look S L1 c) →
          ∃ X2, applyF S fx n hp inh (dk S leading R) X = .ok X2 ∧ goodT S P X2 = true ∧ keysOf S X2 = keysOf S X ∧
            (∀ q, Dom S P q → (∀ c ∈ dk S leading D, matchP S c q = false) → look S X2 q = look S X q) ∧
            (∀ c ∈ dk S leading D, (look S X2 c).map normN = (look S L c).map normN)

theorem nodeRev_create {S : Schema} (K : KeyOrderOn S P) {c : DNode} {n : Nat} {hp : Bool} {inh : Option Op} {e : Option DNode}
    (hh : c.height ≤ n) (hex : exactE S P inh e c = true) (hop : effOp c inh = some .create) :
    NodeRevConcl S P fx c n hp inh e := by
  obtain ⟨hd, hm, hk⟩ := exactE_base hex
  obtain ⟨rfl, hpl, hgk⟩ := exactE_create hex hop
  have hgc : goodN S P c = true := goodN_iff.mpr ⟨hd, hgk⟩
  have hrev : revNode S inh (revDup c) = .ok (changeOp (revDup c) .delete) := by
    rw [revNode_create (by simpa using hk) (by rw [effOp_revDup]; exact hop), kids_revDup,
      map_removeOp_plain _ (by rw [plainL_revDupL]; exact hpl), ← kids_revDup]
    have : (revDup c).kids = (changeOp (revDup c) .delete).kids := by simp
    rw [this, setKids_kids]
  have hnorm : normN (changeOp (revDup c) .delete) = normN c := by rw [normN_changeOp, normN_revDup]
  have hmatch : ∀ x, matchP S (changeOp (revDup c) .delete) x = matchP S c x := fun x =>
    matchP_congr_norm (by simpa using hd.ndi) hnorm rfl
  refine ⟨_, hrev, by rw [height_changeOp, height_revDup], by simp, hmatch, ?_⟩
  intro L hgL hkb hl
  have hmk : ∀ x, matchP S (mkCreated c) x = matchP S c x := fun x =>
    matchP_congr_norm (by simpa using hd.ndi) (normN_mkCreated c) rfl
  have hmk' : matchP S c (mkCreated c) = true := by
    rw [matchP_congr_norm hd.ndi rfl (normN_mkCreated c)]
    exact matchP_refl K hd
  obtain ⟨h1, hkk, h2, h3⟩ := fwd_insert K hgL hd hk hkb hl (by rw [goodN_mkCreated K.pinv]; exact hgc) (by simp) hmk hmk'
  refine ⟨_, apply_create_node K hh hop hpl hgc, h1, hkk, h2, ?_⟩
  intro X hgX _ hlX
  rw [h3] at hlX
  obtain ⟨i, hi, _, hg', hkX, hloc, hnone⟩ := fwd_erase K hgX hd hk hlX
  obtain ⟨k, rfl⟩ : ∃ k, n = k + 1 := ⟨n - 1, by have := height_pos13 c; omega⟩
  refine ⟨X.eraseIdx i, ?_, hg', hkX, hloc, by rw [hnone]⟩
  rw [applyNode_succ_nuo (by simpa using hd.nuo), effOp_changeOp (metaOK_revDup hm)]
  simp only [findForApply_congr_fun hmatch, hi]

theorem nodeRev_delete {S : Schema} (K : KeyOrderOn S P) {c : DNode} {n : Nat} {hp : Bool} {inh : Option Op} {e : Option DNode}
    (hh : c.height ≤ n) (hex : exactE S P inh e c = true) (hop : effOp c inh = some .delete) :
    NodeRevConcl S P fx c n hp inh e := by
  obtain ⟨hd, hm, hk⟩ := exactE_base hex
  obtain ⟨x, rfl, hxc, hpl, hgk⟩ := exactE_delete hex hop
  have hxn : normN x = normN c := (dataEq_iff_norm x c).mp hxc
  have hgc : goodN S P c = true := goodN_iff.mpr ⟨hd, hgk⟩
  have hrev : revNode S inh (revDup c) = .ok (changeOp (revDup c) .create) := by
    rw [revNode_delete (by simpa using hk) (by rw [effOp_revDup]; exact hop), kids_revDup,
      map_removeOp_plain _ (by rw [plainL_revDupL]; exact hpl), ← kids_revDup]
    have : (revDup c).kids = (changeOp (revDup c) .create).kids := by simp
    rw [this, setKids_kids]
  have hnorm : normN (changeOp (revDup c) .create) = normN c := by rw [normN_changeOp, normN_revDup]
  have hmatch : ∀ x, matchP S (changeOp (revDup c) .create) x = matchP S c x := fun x =>
    matchP_congr_norm (by simpa using hd.ndi) hnorm rfl
  refine ⟨_, hrev, by rw [height_changeOp, height_revDup], by simp, hmatch, ?_⟩
  intro L hgL _ hl
  obtain ⟨i, hi, _, hg', hkL, hloc, hnone⟩ := fwd_erase K hgL hd hk hl
  obtain ⟨k, rfl⟩ : ∃ k, n = k + 1 := ⟨n - 1, by have := height_pos13 c; omega⟩
  refine ⟨L.eraseIdx i, ?_, hg', hkL, hloc, ?_⟩
  · rw [applyNode_succ_nuo hd.nuo, hop]
    simp only [hi]
  · intro X hgX hkbX hlX
    rw [hnone] at hlX
    let c' := changeOp (revDup c) .create
    have hgc' : goodN S P c' = true := by rw [goodN_congr_norm K.pinv hnorm]; exact hgc
    have hpl' : plainL c'.kids = true := by
      show plainL (changeOp (revDup c) .create).kids = true
      rw [kids_changeOp, kids_revDup, plainL_revDupL]
      exact hpl
    have hmk : ∀ y, matchP S (mkCreated c') y = matchP S c y := fun y =>
      matchP_congr_norm (by simpa [c'] using hd.ndi) ((normN_mkCreated c').trans hnorm) rfl
    have hmk' : matchP S c (mkCreated c') = true := by
      rw [matchP_congr_norm hd.ndi rfl ((normN_mkCreated c').trans hnorm)]
      exact matchP_refl K hd
    obtain ⟨h1, hkk, h2, h3⟩ := fwd_insert K hgX hd hk hkbX hlX (by rw [goodN_mkCreated K.pinv]; exact hgc') (by simp [c'])
      hmk hmk'
    refine ⟨_, apply_create_node K (by rw [height_changeOp, height_revDup]; exact hh)
      (effOp_changeOp (metaOK_revDup hm) .create) hpl' hgc', h1, hkk, h2, ?_⟩
    rw [h3]
    simp only [Option.map_some, Option.some.injEq]
    rw [normN_mkCreated, hnorm, hxn]

theorem exactE_replace {S : Schema} {inh : Option Op} {e : Option DNode} {c : DNode} (h : exactE S P inh e c = true)
    (hop : effOp c inh = some .replace) :
    c.isTerm = true ∧ ∃ x, e = some x ∧ S.isKind c.sid .leaf = true ∧ getMeta c "orig-value" = some x.val ∧
      getMeta c "orig-default" = some (boolBytes x.flags.dflt) ∧ c.val ≠ x.val := by
  cases c with
  | inner s f m ks => simp only [exactE, Bool.and_eq_true, hop] at h; cases e <;> simp at h
  | term s f m v =>
    simp only [exactE, Bool.and_eq_true, hop] at h
    cases e with
    | none => simp at h
    | some x =>
      simp only [Bool.and_eq_true, beq_iff_eq, bne_iff_ne, ne_eq] at h
      exact ⟨rfl, x, rfl, h.2.1.1.1, h.2.1.1.2, h.2.1.2, h.2.2⟩

theorem exactE_none_term {S : Schema} {inh : Option Op} {e : Option DNode} {c : DNode} (h : exactE S P inh e c = true)
    (hop : effOp c inh = some .none) (ht : c.isTerm = true) :
    ∃ x, e = some x ∧ x.val = c.val ∧ getMeta c "orig-default" = some (boolBytes x.flags.dflt) := by
  cases c with
  | inner s f m ks => simp [DNode.isTerm] at ht
  | term s f m v =>
    simp only [exactE, Bool.and_eq_true, hop] at h
    cases e with
    | none => simp at h
    | some x =>
      simp only [Bool.and_eq_true, beq_iff_eq] at h
      exact ⟨x, rfl, h.2.1, h.2.2⟩

/-- `replace` of a leaf: the value and the flags of the diff node, in place -/
theorem apply_replace_leaf {S : Schema} (K : KeyOrderOn S P) {Y : List DNode} {c r y : DNode} {k : Nat} {hp : Bool} {inh : Option Op}
    (hgY : goodT S P Y = true) (hc : Dom S P c) (hck : S.isKey c.sid = false) (hlY : look S Y c = some y)
    (hrm : ∀ x, matchP S r x = matchP S c x)
    (hrs : r.sid = c.sid) (hleaf : S.isKind c.sid .leaf = true) (hop : effOp r inh = some .replace) (hne : y.val ≠ r.val) :
    ∃ Y', applyNode S fx (k + 1) Y hp inh r = .ok Y' ∧ goodT S P Y' = true ∧ keysOf S Y' = keysOf S Y ∧ Local S P c Y Y' ∧
      look S Y' c = some ((y.setVal r.val).setFlags r.flags) := by
  have hym := look_mem hlY
  have hgY' := goodT_goodL hgY
  have hyd : Dom S P y := goodL_allDom K hgY' y hym.1
  have hys : y.sid = c.sid := matchP_sid hym.2
  have hgy : goodN S P y = true := ((goodL_iff K).mp hgY').2 y hym.1
  have hg1 : goodN S P ((y.setVal r.val).setFlags r.flags) = true := by
    rw [goodN_iff]
    refine ⟨⟨by simpa using hyd.nuo, by simpa using hyd.ndi, by simpa using hyd.typed, K.pinv.punsorted (by simpa using isSorted_of_leaf (by rw [hys]; exact hleaf))⟩, ?_⟩
    simpa using goodN_kidsT hgy
  have hsame : matchP S y ((y.setVal r.val).setFlags r.flags) = true :=
    matchP_leaf (by rw [hys]; exact hleaf) (by simp)
  obtain ⟨i, hi, hix, hg', hkk, hloc, hl'⟩ := fwd_set K hgY hc hck hlY hg1 hsame
  refine ⟨_, ?_, hg', hkk, hloc, hl'⟩
  rw [applyNode_succ_nuo (by rw [hrs]; exact hc.nuo), hop]
  simp only [hrs, hleaf, Bool.not_true, Bool.false_eq_true, ↓reduceIte, findForApply_congr_fun hrm, hi, hix]
  have : (y.val == r.val && !y.flags.dflt) = false := by
    have : (y.val == r.val) = false := beq_eq_false_iff_ne.mpr hne
    simp [this]
  simp [this]

/-- `none` on a leaf / leaf-list instance: the default flag of the diff node -/
theorem apply_none_term {S : Schema} (K : KeyOrderOn S P) {Y : List DNode} {c r y : DNode} {k : Nat} {hp : Bool} {inh : Option Op}
    (hgY : goodT S P Y = true) (hc : Dom S P c) (hck : S.isKey c.sid = false) (hlY : look S Y c = some y)
    (hrm : ∀ x, matchP S r x = matchP S c x)
    (hrs : r.sid = c.sid) (hop : effOp r inh = some .none) (hyt : y.isTerm = true) :
    ∃ Y', applyNode S fx (k + 1) Y hp inh r = .ok Y' ∧ goodT S P Y' = true ∧ keysOf S Y' = keysOf S Y ∧ Local S P c Y Y' ∧
      look S Y' c = some (y.setDflt r.flags.dflt) := by
  have hym := look_mem hlY
  have hgY' := goodT_goodL hgY
  have hyd : Dom S P y := goodL_allDom K hgY' y hym.1
  have hgy : goodN S P y = true := ((goodL_iff K).mp hgY').2 y hym.1
  have hg1 : goodN S P (y.setDflt r.flags.dflt) = true := by
    rw [goodN_iff]
    refine ⟨⟨by simpa using hyd.nuo, by simpa using hyd.ndi, by simpa using hyd.typed, by rw [K.pinv.pcongr (y := y) (by simp) (by simp) (by simp)]; exact hyd.sat⟩, ?_⟩
    simpa using goodN_kidsT hgy
  have hsame : matchP S y (y.setDflt r.flags.dflt) = true := by
    rw [matchP_of_same_data_right (x := y) hyd.ndi (by simp) (by simp) (by simp)]
    exact matchP_refl K hyd
  obtain ⟨i, hi, hix, hg', hkk, hloc, hl'⟩ := fwd_set K hgY hc hck hlY hg1 hsame
  refine ⟨_, ?_, hg', hkk, hloc, hl'⟩
  rw [applyNode_succ_nuo (by rw [hrs]; exact hc.nuo), hop]
  simp only [findForApply_congr_fun hrm, hi, hix, hyt, ↓reduceIte]

theorem nodeRev_replace {S : Schema} (K : KeyOrderOn S P) {c : DNode} {n : Nat} {hp : Bool} {inh : Option Op} {e : Option DNode}
    (hh : c.height ≤ n) (hex : exactE S P inh e c = true) (hop : effOp c inh = some .replace) :
    NodeRevConcl S P fx c n hp inh e := by
  obtain ⟨hd, hm, hk⟩ := exactE_base hex
  obtain ⟨hct, x, rfl, hleaf, hov, hod, hne⟩ := exactE_replace hex hop
  obtain ⟨k, rfl⟩ : ∃ k, n = k + 1 := ⟨n - 1, by have := height_pos13 c; omega⟩
  -- the reversed node
  have hkind : S.kind? (revDup c).sid = some .leaf := by simpa using isKind_iff.mp hleaf
  have hov' : getMeta (revDup c) "orig-value" = some x.val := by simpa [getMeta_def] using hov
  have hod' : getMeta (revDup c) "orig-default" = some (boolBytes x.flags.dflt) := by simpa [getMeta_def] using hod
  have hne' : x.val ≠ (revDup c).val := by simpa using Ne.symm hne
  let t1 := ((revDup c).setVal x.val).setMetas (setMetaVal "orig-value" (revDup c).val (revDup c).metas)
  have ht1od : getMeta t1 "orig-default" = some (boolBytes x.flags.dflt) := by
    show getMeta (((revDup c).setVal x.val).setMetas _) "orig-default" = _
    simp only [getMeta_def, metas_setMetas]
    rw [find?_setMetaVal_ne (by decide)]
    simpa [getMeta_def] using hod
  obtain ⟨c', hc', hs', hv', ht', hk', hdf', hop', hh'⟩ := revDefault_spec ht1od
  have hrev : revNode S inh (revDup c) = .ok c' := by
    rw [revNode_term_replace (by simpa using hct) (by simpa using hk) (by rw [effOp_revDup]; exact hop)]
    simp only [revReplace, hkind, revValue_spec hov' hne', Except.bind]
    exact hc'
  have hcs : c'.sid = c.sid := by rw [hs']; simp [t1]
  have hcv : c'.val = x.val := by
    rw [hv']
    show (((revDup c).setVal x.val).setMetas _).val = x.val
    rw [val_setMetas, val_setVal_term (by simpa using hct)]
  have hcd : c'.flags.dflt = x.flags.dflt := by rw [hdf', boolBytes_eq_true]
  have hcop : effOp c' inh = some .replace := by
    rw [effOp_of_getMeta hop']
    have : getMeta t1 "operation" = getMeta c "operation" := by
      show getMeta (((revDup c).setVal x.val).setMetas _) "operation" = _
      simp only [getMeta_def, metas_setMetas]
      rw [find?_setMetaVal_ne (by decide)]
      simp
    rw [effOp_of_getMeta this]
    exact hop
  have hleaf' : S.isKind c'.sid .leaf = true := by rw [hcs]; exact hleaf
  have hmatch : ∀ y, matchP S c' y = matchP S c y := fun y => by
    rw [matchP_leaf_eq hleaf', matchP_leaf_eq hleaf, hcs]
  have hch : c'.height = c.height := by
    rw [hh', height_term hct]
    show (((revDup c).setVal x.val).setMetas _).height = 1
    rw [height_setMetas, height_setVal, height_revDup, height_term hct]
  refine ⟨c', hrev, hch, hcs, hmatch, ?_⟩
  intro L hgL _ hl
  have hxm := look_mem hl
  have hxd : Dom S P x := goodL_allDom K (goodT_goodL hgL) x hxm.1
  have hxt : x.isTerm = true := by
    rw [hxd.typed, matchP_sid hxm.2]
    exact isTerm_of_leaf hleaf
  obtain ⟨L', ha, hg', hkL, hloc, hl'⟩ := apply_replace_leaf (k := k) (hp := hp) (inh := inh) K hgL hd hk hl (fun _ => rfl) rfl
    hleaf hop (Ne.symm hne)
  refine ⟨L', ha, hg', hkL, hloc, ?_⟩
  intro X hgX _ hlX
  rw [hl'] at hlX
  have hne2 : ((x.setVal c.val).setFlags c.flags).val ≠ c'.val := by
    rw [val_setFlags, val_setVal_term hxt, hcv]
    exact hne
  obtain ⟨X', hb, hgX', hkX, hlocX, hlX'⟩ := apply_replace_leaf (k := k) (hp := hp) (inh := inh) K hgX hd hk hlX hmatch hcs
    hleaf hcop hne2
  refine ⟨X', hb, hgX', hkX, hlocX, ?_⟩
  rw [hlX']
  simp only [Option.map_some, Option.some.injEq]
  apply normN_term_eq (by simpa using hxt) hxt (by simp)
  · rw [val_setFlags, val_setVal_term (by simpa using hxt), hcv]
  · rw [flags_setFlags, hcd]

theorem nodeRev_none_term {S : Schema} (K : KeyOrderOn S P) {c : DNode} {n : Nat} {hp : Bool} {inh : Option Op} {e : Option DNode}
    (hh : c.height ≤ n) (hex : exactE S P inh e c = true) (hop : effOp c inh = some .none) (hct : c.isTerm = true) :
    NodeRevConcl S P fx c n hp inh e := by
  obtain ⟨hd, hm, hk⟩ := exactE_base hex
  obtain ⟨x, rfl, hxv, hod⟩ := exactE_none_term hex hop hct
  obtain ⟨k, rfl⟩ : ∃ k, n = k + 1 := ⟨n - 1, by have := height_pos13 c; omega⟩
  have hod' : getMeta (revDup c) "orig-default" = some (boolBytes x.flags.dflt) := by simpa [getMeta_def] using hod
  obtain ⟨c', hc', hs', hv', ht', hk', hdf', hop', hh'⟩ := revDefault_spec hod'
  have hSt : S.isTerm c.sid = true := by rw [← hd.typed]; exact hct
  have hrev : revNode S inh (revDup c) = .ok c' := by
    rw [revNode_term_none (by simpa using hct) (by simpa using hk) (by rw [effOp_revDup]; exact hop)]
    simp only [revNone, sid_revDup, hSt, ↓reduceIte]
    exact hc'
  have hcs : c'.sid = c.sid := by rw [hs']; simp
  have hcd : c'.flags.dflt = x.flags.dflt := by rw [hdf', boolBytes_eq_true]
  have hcop : effOp c' inh = some .none := by
    rw [effOp_of_getMeta hop', effOp_revDup]
    exact hop
  have hmatch : ∀ y, matchP S c' y = matchP S c y := fun y =>
    matchP_of_same_data hd.ndi hcs (by rw [hv']; simp) (by
      rw [hk', kids_revDup, kids_term hct]
      rfl) y
  refine ⟨c', hrev, by rw [hh', height_revDup], hcs, hmatch, ?_⟩
  intro L hgL _ hl
  have hxm := look_mem hl
  have hxd : Dom S P x := goodL_allDom K (goodT_goodL hgL) x hxm.1
  have hxt : x.isTerm = true := by
    rw [hxd.typed, matchP_sid hxm.2]
    exact hSt
  obtain ⟨L', ha, hg', hkL, hloc, hl'⟩ := apply_none_term (k := k) (hp := hp) (inh := inh) K hgL hd hk hl (fun _ => rfl) rfl hop
    hxt
  refine ⟨L', ha, hg', hkL, hloc, ?_⟩
  intro X hgX _ hlX
  rw [hl'] at hlX
  obtain ⟨X', hb, hgX', hkX, hlocX, hlX'⟩ := apply_none_term (k := k) (hp := hp) (inh := inh) K hgX hd hk hlX hmatch hcs hcop
    (by simpa using hxt)
  refine ⟨X', hb, hgX', hkX, hlocX, ?_⟩
  rw [hlX']
  simp only [Option.map_some, Option.some.injEq]
  apply normN_term_eq (by simpa using hxt) hxt (by simp) (by simp)
  rw [dflt_setDflt, hcd]

theorem exactE_none_inner {S : Schema} {inh : Option Op} {e : Option DNode} {s : Nat} {f : Flags} {m : List Meta}
    {ks : List DNode} (h : exactE S P inh e (.inner s f m ks) = true) (hop : effOp (.inner s f m ks) inh = some .none) :
    ∃ x, e = some x ∧ (noKeys S ks).isEmpty = false ∧ exactK S P (childInhOf (.inner s f m ks) inh) x.kids true ks = true := by
  simp only [exactE, Bool.and_eq_true, hop] at h
  cases e with
  | none => simp at h
  | some x =>
    simp only [Bool.and_eq_true, Bool.not_eq_eq_eq_not, Bool.not_true] at h
    exact ⟨x, rfl, h.2.1, h.2.2⟩

/-- what `exactK` says about every applied child -/
theorem exactK_mem {S : Schema} {inh : Option Op} {L : List DNode} : ∀ (ld : Bool) (cs : List DNode),
    exactK S P inh L ld cs = true → ∀ c ∈ dk S ld cs, exactE S P inh (look S L c) c = true ∧ KeysBelow S c L
  | _, [], _ => by
    intro c hc
    cases ‹Bool› <;> simp [dk, noKeys] at hc
  | ld, c :: cs, h => by
    unfold exactK at h
    split at h
    · rename_i hlk
      simp only [Bool.and_eq_true] at hlk
      obtain ⟨rfl, hk⟩ := hlk
      rw [dk_cons_key hk]
      exact exactK_mem true cs h
    · rename_i hlk
      simp only [Bool.and_eq_true] at h
      obtain ⟨⟨⟨hE, hkb⟩, hdist⟩, hrest⟩ := h
      have hk : S.isKey c.sid = false := (exactE_base hE).2.2
      rw [dk_cons_nokey hk]
      intro c' hc'
      rcases List.mem_cons.mp hc' with rfl | hc'
      · refine ⟨hE, ?_⟩
        intro k hkm
        have := List.all_eq_true.mp hkb k hkm
        simpa using this
      · have := exactK_mem false cs hrest c' (by simpa [dk] using hc')
        exact this

theorem exactK_congr {S : Schema} {inh : Option Op} {L L' : List DNode} (hk : keysOf S L' = keysOf S L) :
    ∀ (ld : Bool) (cs : List DNode), (∀ c ∈ cs, look S L' c = look S L c) → exactK S P inh L' ld cs = exactK S P inh L ld cs
  | _, [], _ => by simp [exactK]
  | ld, c :: cs, h => by
    unfold exactK
    have hc : L'.find? (matchP S c) = L.find? (matchP S c) := h c (List.mem_cons_self ..)
    rw [hc, hk, exactK_congr hk true cs (fun c' hc' => h c' (List.mem_cons_of_mem _ hc')),
      exactK_congr hk false cs (fun c' hc' => h c' (List.mem_cons_of_mem _ hc'))]

theorem matchP_setKids {S : Schema} (K : KeyOrderOn S P) {x : DNode} {ks : List DNode} (hx : Dom S P x)
    (h : keysOf S ks = keysOf S x.kids) (hi : x.isTerm = false) : matchP S x (x.setKids ks) = true := by
  have h0 := matchP_refl K hx
  simp only [matchP, instMatch, hx.ndi, sameInst, sid_setKids, kids_setKids_inner hi, h] at h0 ⊢
  cases x with
  | term => simp [DNode.isTerm] at hi
  | inner s f m k => simpa [DNode.setKids, DNode.val] using h0

/-- operation `none` on a container / list instance: the children are handled by `ListRevSpec` -/
theorem nodeRev_none_inner {S : Schema} (K : KeyOrderOn S P) {s : Nat} {f : Flags} {m : List Meta} {ks : List DNode}
    (IH : ListRevSpec S P fx ks) {n : Nat} {hp : Bool} {inh : Option Op} {e : Option DNode}
    (hh : (DNode.inner s f m ks).height ≤ n) (hge : ∀ x, e = some x → goodN S P x = true)
    (hex : exactE S P inh e (.inner s f m ks) = true) (hop : effOp (.inner s f m ks) inh = some .none) :
    NodeRevConcl S P fx (.inner s f m ks) n hp inh e := by
  obtain ⟨hd, hm, hk⟩ := exactE_base hex
  obtain ⟨x, rfl, hne, hexk⟩ := exactE_none_inner hex hop
  have hgx : goodN S P x = true := hge x rfl
  have hgxk : goodT S P x.kids = true := goodN_kidsT hgx
  have hxd : Dom S P x := goodN_dom hgx
  obtain ⟨k, rfl⟩ : ∃ k, n = k + 1 := ⟨n - 1, by have := height_pos13 (DNode.inner s f m ks); omega⟩
  have hks : heightL ks ≤ k := height_inner_le hh
  obtain ⟨R, hR, hRh, hRe, hRk, K1, hK1, hgK1, hkK1, hloc1, hback⟩ :=
    IH k true (childInhOf (.inner s f m ks) inh) x.kids true hks hgxk hexk
  have hdkD : dk S true ks = noKeys S ks := by simp [dk]
  have hdkR : dk S true R = noKeys S R := by simp [dk]
  rw [hdkD] at hK1 hloc1 hback
  rw [hdkR, hdkD] at hRe
  rw [hdkR] at hback
  -- the reversed node
  let c' : DNode := .inner s { dflt := f.dflt, new := true } m R
  have hci : childInhOf (DNode.inner s { dflt := f.dflt, new := true } m (revDupL ks)) inh = childInhOf (.inner s f m ks) inh :=
    childInh_congr_metas (d := .inner s f m ks) (d' := .inner s { dflt := f.dflt, new := true } m (revDupL ks)) rfl
  have hopt : effOp (DNode.inner s { dflt := f.dflt, new := true } m (revDupL ks)) inh = some .none :=
    (effOp_congr_metas (d := .inner s f m ks) (d' := .inner s { dflt := f.dflt, new := true } m (revDupL ks)) rfl).trans hop
  have hrev : revNode S inh (revDup (.inner s f m ks)) = .ok c' := by
    simp only [DNode.sid] at hk
    simp only [revDup, revNode, hk, Bool.false_eq_true, ↓reduceIte, hopt, hci, hR]
    rfl
  have hopc' : effOp c' inh = some .none :=
    (effOp_congr_metas (d := .inner s f m ks) (d' := c') rfl).trans hop
  have hcic' : childInhOf c' inh = childInhOf (.inner s f m ks) inh :=
    childInh_congr_metas (d := .inner s f m ks) (d' := c') rfl
  have hmatch : ∀ y, matchP S c' y = matchP S (.inner s f m ks) y := fun y =>
    matchP_of_same_keys (d := .inner s f m ks) (d' := c') hd.ndi rfl rfl hRk y
  refine ⟨c', hrev, by simp [c', DNode.height, hRh], rfl, hmatch, ?_⟩
  intro L hgL _ hl
  have hxt : x.isTerm = false := by
    have h1 := hxd.typed
    have h2 := hd.typed
    have hs : x.sid = s := matchP_sid (look_mem hl).2
    simp only [DNode.isTerm, DNode.sid] at h2
    rw [h1, hs, ← h2]
  have hgx1 : goodN S P (x.setKids K1) = true := by
    rw [goodN_iff]
    refine ⟨⟨by simpa using hxd.nuo, by simpa using hxd.ndi, by simpa using hxd.typed, by rw [K.pinv.pcongr (y := x) (by simp) (val_setKids_inner hxt K1) (by simp only [kids_setKids_inner hxt, hkK1])]; exact hxd.sat⟩, ?_⟩
    rw [kids_setKids_inner hxt K1]
    exact hgK1
  obtain ⟨i, hi, hix, hg', hkL, hloc, hl'⟩ := fwd_set K hgL hd hk hl hgx1 (matchP_setKids K hxd hkK1 hxt)
  refine ⟨L.set i (x.setKids K1), ?_, hg', hkL, hloc, ?_⟩
  · rw [applyNode_succ_nuo hd.nuo, hop]
    simp only [hi, hix, hxt, Bool.false_eq_true, ↓reduceIte, kids_inner, hne, hK1, Except.bind]
  · intro X hgX _ hlX
    rw [hl'] at hlX
    have hk1 : (x.setKids K1).kids = K1 := kids_setKids_inner hxt K1
    have hx1d : Dom S P (x.setKids K1) := goodN_dom hgx1
    have hx1t : (x.setKids K1).isTerm = false := by simpa using hxt
    obtain ⟨K2, hK2, hgK2, hkK2, hloc2, hres⟩ := hback K1 hgK1 hkK1 (fun _ _ => rfl)
    -- the children are back (up to normN)
    have hnorm : normL13 K2 = normL13 x.kids := by
      apply normL_eq_of_look K (goodT_goodL hgK2) (goodT_goodL hgxk)
      intro q hq
      by_cases hex2 : ∃ c ∈ noKeys S ks, matchP S c q = true
      · obtain ⟨c, hc, hcq⟩ := hex2
        have hcd : Dom S P c := (exactE_base (exactK_mem true ks hexk c (by rw [hdkD]; exact hc)).1).1
        rw [← look_congr K (goodT_goodL hgK2) hcd hq hcq, ← look_congr K (goodT_goodL hgxk) hcd hq hcq]
        exact hres c hc
      · have hall : ∀ c ∈ noKeys S ks, matchP S c q = false := by
          intro c hc
          cases h : matchP S c q
          · rfl
          · exact absurd ⟨c, hc, h⟩ hex2
        rw [hloc2 q hq hall, hloc1 q hq hall]
    have hgx2 : goodN S P ((x.setKids K1).setKids K2) = true := by
      rw [goodN_iff]
      refine ⟨⟨by simpa using hxd.nuo, by simpa using hxd.ndi, by simpa using hxd.typed, by rw [K.pinv.pcongr (y := x) (by simp) ((val_setKids_inner hx1t K2).trans (val_setKids_inner hxt K1)) (by simp only [kids_setKids_inner hx1t, hkK2, hk1, hkK1])]; exact hxd.sat⟩, ?_⟩
      rw [kids_setKids_inner hx1t K2]
      exact hgK2
    obtain ⟨j, hj, hjx, hgX', hkX, hlocX, hlX'⟩ := fwd_set K hgX hd hk hlX hgx2
      (matchP_setKids K hx1d (by rw [hk1]; exact hkK2) hx1t)
    refine ⟨X.set j ((x.setKids K1).setKids K2), ?_, hgX', hkX, hlocX, ?_⟩
    · have hneR : (noKeys S R).isEmpty = false := by rw [hRe]; exact hne
      have hnuo' : S.isUserOrd c'.sid = false := hd.nuo
      rw [applyNode_succ_nuo hnuo', hopc']
      simp only [findForApply_congr_fun hmatch, hj, hjx, hx1t, Bool.false_eq_true, ↓reduceIte, hcic', hk1]
      simp only [c', kids_inner, hneR, Bool.false_eq_true, ↓reduceIte, hK2, Except.bind]
    · rw [hlX']
      simp only [Option.map_some, Option.some.injEq]
      have h1 : normN ((x.setKids K1).setKids K2) = normN (x.setKids K2) := by
        cases x with
        | term => simp [DNode.isTerm] at hxt
        | inner => rfl
      rw [h1]
      exact normN_setKids_inner hxt hnorm

theorem listRev_nil (S : Schema) : ListRevSpec S P fx [] := by
  intro n hp inh L leading _ hgL _
  have hdk : dk S leading [] = [] := by cases leading <;> simp [dk, noKeys]
  refine ⟨[], rfl, rfl, rfl, rfl, L, by rw [hdk]; rfl, hgL, rfl, fun _ _ _ => rfl, ?_⟩
  intro X hgX _ _
  exact ⟨X, by rw [hdk]; rfl, hgX, rfl, fun _ _ _ => rfl, by rw [hdk]; intro c hc; cases hc⟩

theorem matchP_false_symm {S : Schema} (K : KeyOrderOn S P) {x y : DNode} (hx : Dom S P x) (hy : Dom S P y)
    (h : matchP S x y = false) : matchP S y x = false := by
  rw [matchP_symm K hy hx]
  exact h

/-- a sibling list of diff nodes: the first node, then the rest on what the first node left -/
theorem listRev_cons {S : Schema} (K : KeyOrderOn S P) {c : DNode} {cs : List DNode} (hc : NodeRevSpec S P fx c)
    (hcs : ListRevSpec S P fx cs) : ListRevSpec S P fx (c :: cs) := by
  intro n hp inh L leading hh hgL hex
  have hhc : c.height ≤ n := Nat.le_trans (Nat.le_max_left ..) hh
  have hhcs : heightL cs ≤ n := Nat.le_trans (Nat.le_max_right ..) hh
  by_cases hlk : (leading && S.isKey c.sid) = true
  · -- a leading list key: not part of the diff
    simp only [Bool.and_eq_true] at hlk
    obtain ⟨rfl, hk⟩ := hlk
    have hex' : exactK S P inh L true cs = true := by
      unfold exactK at hex
      simpa [hk] using hex
    obtain ⟨R, hR, hRh, hRe, hRk, L1, hL1, hgL1, hkL1, hloc1, hback⟩ := hcs n hp inh L true hhcs hgL hex'
    have hkr : S.isKey (revDup c).sid = true := by simpa using hk
    refine ⟨revDup c :: R, ?_, ?_, ?_, ?_, L1, ?_, hgL1, hkL1, ?_, ?_⟩
    · exact revL_cons (revNode_key hkr) hR
    · simp [heightL, height_revDup, hRh]
    · rw [dk_cons_key hkr, dk_cons_key hk]
      exact hRe
    · rw [keysOf_cons_key hkr, keysOf_cons_key hk]
      simp [normL13, normN_revDup, hRk]
    · rw [dk_cons_key hk]
      exact hL1
    · rw [dk_cons_key hk]
      exact hloc1
    · rw [dk_cons_key hk, dk_cons_key hkr]
      exact hback
  · -- a diff node
    have hex' := hex
    unfold exactK at hex'
    simp only [hlk, Bool.false_eq_true, ↓reduceIte, Bool.and_eq_true] at hex'
    obtain ⟨⟨⟨hE, hkb⟩, hdist⟩, hrest⟩ := hex'
    obtain ⟨hd, hm, hk⟩ := exactE_base hE
    have hkbL : KeysBelow S c L := by
      intro k hkm
      have := List.all_eq_true.mp hkb k hkm
      simpa using this
    have hdkD : dk S leading (c :: cs) = c :: cs := dk_cons_nokey hk leading
    have hdcs : ∀ c' ∈ cs, Dom S P c' ∧ matchP S c c' = false := by
      intro c' hc'
      have h1 := exactK_mem false cs hrest c' (by simpa [dk] using hc')
      have h2 := List.all_eq_true.mp hdist c' hc'
      exact ⟨(exactE_base h1.1).1, by simpa using h2⟩
    have hge : ∀ x, look S L c = some x → goodN S P x = true := fun x hx =>
      ((goodL_iff K).mp (goodT_goodL hgL)).2 x (look_mem hx).1
    obtain ⟨c', hrev, hch, hcs', hmatch, hfwd⟩ := hc n hp inh (look S L c) hhc hge hE
    obtain ⟨L', ha, hgL', hkL', hlocL', hrestores⟩ := hfwd L hgL hkbL rfl
    have hexcs : exactK S P inh L' false cs = true := by
      rw [exactK_congr hkL' false cs (fun c'' hc'' => hlocL' c'' (hdcs c'' hc'').1 (hdcs c'' hc'').2)]
      exact hrest
    obtain ⟨R, hR, hRh, hRe, hRk, L1, hL1, hgL1, hkL1, hloc1, hback⟩ := hcs n hp inh L' false hhcs hgL' hexcs
    have hdk0 : dk S false cs = cs := by simp [dk]
    have hdkR0 : dk S false R = R := by simp [dk]
    rw [hdk0] at hL1 hloc1 hback
    rw [hdkR0] at hback
    have hkc' : S.isKey c'.sid = false := by rw [hcs']; exact hk
    have hdkR : dk S leading (c' :: R) = c' :: R := dk_cons_nokey hkc' leading
    refine ⟨c' :: R, revL_cons hrev hR, ?_, ?_, ?_, L1, ?_, hgL1, hkL1.trans hkL', ?_, ?_⟩
    · simp [heightL, hch, hRh]
    · rw [hdkR, hdkD]
      rfl
    · rw [keysOf_cons_nokey hkc', keysOf_cons_nokey hk]
    · rw [hdkD, applyF_cons, ha]
      exact hL1
    · rw [hdkD]
      intro q hq hall
      rw [hloc1 q hq (fun c'' hc'' => hall c'' (List.mem_cons_of_mem _ hc'')),
        hlocL' q hq (hall c (List.mem_cons_self ..))]
    · rw [hdkD, hdkR]
      intro X hgX hkX hlX
      -- the first reversed node on X
      have hcL1 : look S L1 c = look S L' c :=
        hloc1 c hd (fun c'' hc'' => matchP_false_symm K hd (hdcs c'' hc'').1 (hdcs c'' hc'').2)
      have hkbX : KeysBelow S c X := by rw [KeysBelow, hkX]; exact hkbL
      obtain ⟨X', hb, hgX', hkX', hlocX', hresX⟩ := hrestores X hgX hkbX
        ((hlX c (List.mem_cons_self ..)).trans hcL1)
      -- the other reversed nodes on what it left
      obtain ⟨X2, hX2, hgX2, hkX2, hloc2, hres2⟩ := hback X' hgX' (hkX'.trans (hkX.trans hkL'.symm))
        (fun c'' hc'' => (hlocX' c'' (hdcs c'' hc'').1 (hdcs c'' hc'').2).trans (hlX c'' (List.mem_cons_of_mem _ hc'')))
      refine ⟨X2, ?_, hgX2, hkX2.trans hkX', ?_, ?_⟩
      · rw [applyF_cons, hb]
        exact hX2
      · intro q hq hall
        rw [hloc2 q hq (fun c'' hc'' => hall c'' (List.mem_cons_of_mem _ hc'')),
          hlocX' q hq (hall c (List.mem_cons_self ..))]
      · intro c'' hc''
        rcases List.mem_cons.mp hc'' with rfl | hc''
        · rw [hloc2 c'' hd (fun c3 hc3 => matchP_false_symm K hd (hdcs c3 hc3).1 (hdcs c3 hc3).2)]
          exact hresX
        · rw [hres2 c'' hc'', hlocL' c'' (hdcs c'' hc'').1 (hdcs c'' hc'').2]

mutual
/-- every exact diff node is reversed correctly -/
theorem nodeRev {S : Schema} (K : KeyOrderOn S P) : ∀ c : DNode, NodeRevSpec S P fx c
  | .inner s f m ks => by
    intro n hp inh e hh hge hex
    cases hop : effOp (.inner s f m ks) inh with
    | none =>
      simp only [exactE, hop, Bool.and_eq_true] at hex
      cases e <;> simp at hex
    | some o =>
      cases o with
      | create => exact nodeRev_create K hh hex hop
      | delete => exact nodeRev_delete K hh hex hop
      | replace =>
        simp only [exactE, hop, Bool.and_eq_true] at hex
        cases e <;> simp at hex
      | none => exact nodeRev_none_inner K (listRev K ks) hh hge hex hop
  | .term s f m v => by
    intro n hp inh e hh _ hex
    cases hop : effOp (.term s f m v) inh with
    | none =>
      simp only [exactE, hop, Bool.and_eq_true] at hex
      cases e <;> simp at hex
    | some o =>
      cases o with
      | create => exact nodeRev_create K hh hex hop
      | delete => exact nodeRev_delete K hh hex hop
      | replace => exact nodeRev_replace K hh hex hop
      | none => exact nodeRev_none_term K hh hex hop rfl
/-- every exact sibling list of diff nodes is reversed correctly -/
theorem listRev {S : Schema} (K : KeyOrderOn S P) : ∀ D : List DNode, ListRevSpec S P fx D
  | [] => listRev_nil S
  | c :: cs => listRev_cons K (nodeRev K c) (listRev K cs)
end

end LyModel.Diff.K13
