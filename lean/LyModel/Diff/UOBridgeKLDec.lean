import LyModel.Diff.UOBridgeLLDec
import LyModel.Diff.UOBridgeKLApply2
/-!
# Bridge (C06) — Stage 2a, part 7: the decidable hypothesis `flatKL` gives the hypotheses of the keyed-list theorem
-/
namespace LyModel.Diff.UOB.KL
open LyModel LyModel.Tree LyModel.Diff LyModel.Diff.UOB
set_option linter.unusedSimpArgs false

theorem keyOfH_eq : keyOfH = keyOf := rfl
theorem predH_eq (S : Schema) (s : Nat) (z : Bytes) : predH S s z = pred S s z := rfl

theorem isPlainKL_eq {s : Nat} {n : DNode} (h : isPlainKL s n = true) : n = klNode s (keyOf n) := by
  unfold isPlainKL at h
  split at h
  · rename_i s' f m ks kf km v
    obtain ⟨d, w, nw⟩ := f
    obtain ⟨d', w', nw'⟩ := kf
    simp only [Bool.and_eq_true, beq_iff_eq, Bool.not_eq_true', List.isEmpty_iff] at h
    obtain ⟨⟨⟨⟨⟨⟨⟨⟨⟨h1, h2⟩, h3⟩, h4⟩, h5⟩, h6⟩, h7⟩, h8⟩, h9⟩, h10⟩ := h
    subst h1 h2 h3 h4 h5 h6 h7 h8 h9 h10
    rfl
  · simp at h

theorem all_plainKL_eq {s : Nat} : ∀ {A : List DNode}, A.all (isPlainKL s) = true → A = klForest s (A.map keyOf)
  | [], _ => rfl
  | x :: xs, h => by
    simp only [List.all_cons, Bool.and_eq_true] at h
    have h1 := isPlainKL_eq h.1
    have h2 := all_plainKL_eq h.2
    simp only [klForest, List.map_cons, List.map_map] at h2 ⊢
    rw [← h2, ← h1]

theorem qokB_spec {z : Bytes} (h : qokB z = true) : QOk z := by
  unfold qokB at h
  intro ⟨h1, h2⟩
  simp [h1, h2] at h

/-- what `flatKL` guarantees -/
theorem flatKL_spec {S : Schema} {A B : List DNode} {s : Nat} (h : flatKL S A B = some s) :
    (S.kind? s = some .list ∧ S.isUserOrd s = true ∧ S.nkeys s = 1 ∧ S.isKey (s + 1) = true ∧
        S.kind? (s + 1) = some .leaf ∧ 61 ∉ bs (S.name (s + 1))) ∧
      A = klForest s (A.map keyOf) ∧ B = klForest s (B.map keyOf) ∧
      (A.map keyOf).Nodup ∧ (B.map keyOf).Nodup ∧ ∀ z ∈ B.map keyOf, QOk z := by
  unfold flatKL at h
  split at h
  · simp at h
  · rename_i n _
    simp only at h
    split at h
    · rename_i hc
      simp only [Option.some.injEq] at h
      subst h
      simp only [Bool.and_eq_true, beq_iff_eq, Bool.not_eq_true', List.contains_eq_mem, decide_eq_false_iff_not,
        List.all_eq_true] at hc
      obtain ⟨⟨⟨⟨⟨⟨⟨⟨⟨⟨h1, h2⟩, h3⟩, h4⟩, h5⟩, h6⟩, h7⟩, h8⟩, h9⟩, h10⟩, h11⟩ := hc
      refine ⟨⟨h1, h2, h3, h4, h5, h6⟩, all_plainKL_eq (List.all_eq_true.mpr h7), all_plainKL_eq (List.all_eq_true.mpr h8),
        nodupB_nodup h9, nodupB_nodup h10, fun z hz => qokB_spec (h11 z hz)⟩
    · simp at h

end LyModel.Diff.UOB.KL
