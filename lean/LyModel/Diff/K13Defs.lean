import LyModel.Diff.Exact13
import LyModel.Diff.WF
/-!
# C13 over keyed lists: the fragment predicates relative to a node predicate `P`

`Exact13.lean` (`goodT`, `exactDiff`; evaluated by the driver) says which trees / diffs the C13 theorems speak about, and
`Lemmas13Ord.KeyOrder S` is the hypothesis that the `sort` callbacks order ALL nodes of the right shape.  That hypothesis is
unsatisfiable as soon as the schema has a keyed list (Props/C13 `keyOrder_no_keyed_list`): a list instance without its key
children is a node of the right shape, and `rb_compare_lists` cannot order it.

Here the same predicates are restated relative to a predicate `P` on nodes that every node of the tree / diff (at any depth)
has to satisfy — `K13.goodT S P`, `K13.exactDiff S P` — so that the order hypothesis (`K13.KeyOrderOn S P`, K13Ord.lean) can be
asked for the nodes satisfying `P` only.  With `P = fun _ => true` these are the predicates of `Exact13.lean`
(`goodT_true`, `exactK_true` in K13Bridge.lean); with `P = keyedOK S` (K13Canon.lean: a list instance carries all its keys, key
and leaf-list values are canonical) the hypothesis is PROVED for every schema.  In general
`K13.goodT S P L = goodT S L && allPL P L` and `exactK S … D ∧ allPL P D → K13.exactK S P … D` (K13Bridge.lean).

Inside the namespace `LyModel.Diff.K13` the names `goodT`, `exactK`, `Dom`, … mean these relativised versions; lemma names
are those of the `Lemmas13*.lean` files they generalise.  Not evaluated by the driver.  Core Lean only.
-/
namespace LyModel.Diff.K13
open LyModel LyModel.Tree LyModel.Diff

/-- instance of a data node that is not user-ordered, of the right shape, satisfying `P` -/
def domB (S : Schema) (P : DNode → Bool) (x : DNode) : Bool := Diff.domB S x && P x

mutual
def goodN (S : Schema) (P : DNode → Bool) : DNode → Bool
  | .inner s f m ks => domB S P (.inner s f m ks) && goodL S P ks && keysLead S ks
  | .term s f m v => domB S P (.term s f m v)
def goodL (S : Schema) (P : DNode → Bool) : List DNode → Bool
  | [] => true
  | x :: xs => goodN S P x && xs.all (nlt S x) && goodL S P xs
end

/-- a good sibling list all of whose nodes (at any depth) satisfy `P` -/
def goodT (S : Schema) (P : DNode → Bool) (l : List DNode) : Bool := goodL S P l && keysLead S l

mutual
/-- `Diff.exactE` with `P` demanded of every diff node and of every node of a created / deleted subtree -/
def exactE (S : Schema) (P : DNode → Bool) (inh : Option Op) (e : Option DNode) : DNode → Bool
  | .inner s f m ks =>
    domB S P (.inner s f m ks) && metaOKB (.inner s f m ks) && !S.isKey s &&
    match effOp (.inner s f m ks) inh, e with
    | some .create, none => plainL ks && goodT S P ks
    | some .delete, some x => dataEq true x (.inner s f m ks) && plainL ks && goodT S P ks
    | some .none, some x => !(noKeys S ks).isEmpty && exactK S P (childInhOf (.inner s f m ks) inh) x.kids true ks
    | _, _ => false
  | .term s f m v =>
    domB S P (.term s f m v) && metaOKB (.term s f m v) && !S.isKey s &&
    match effOp (.term s f m v) inh, e with
    | some .create, none => true
    | some .delete, some x => dataEq true x (.term s f m v)
    | some .replace, some x =>
      S.isKind s .leaf && getMeta (.term s f m v) "orig-value" == some x.val &&
        getMeta (.term s f m v) "orig-default" == some (boolBytes x.flags.dflt) && v != x.val
    | some .none, some x => x.val == v && getMeta (.term s f m v) "orig-default" == some (boolBytes x.flags.dflt)
    | _, _ => false
def exactK (S : Schema) (P : DNode → Bool) (inh : Option Op) (L : List DNode) : (leading : Bool) → List DNode → Bool
  | _, [] => true
  | leading, c :: cs =>
    if leading && S.isKey c.sid then exactK S P inh L true cs
    else exactE S P inh (L.find? (matchP S c)) c && (keysOf S L).all (fun k => decide (k.sid < c.sid)) &&
      cs.all (fun c' => !matchP S c c') && exactK S P inh L false cs
end

/-- `D` is an exact diff for the data tree `A`, and its nodes (the leading list keys of a parent copy excepted) satisfy `P` -/
def exactDiff (S : Schema) (P : DNode → Bool) (A D : List DNode) : Bool := exactK S P none A false D

mutual
/-- every node of the subtree satisfies `P` -/
def allPN (P : DNode → Bool) : DNode → Bool
  | .inner s f m ks => P (.inner s f m ks) && allPL P ks
  | .term s f m v => P (.term s f m v)
/-- every node of the forest, at any depth, satisfies `P` -/
def allPL (P : DNode → Bool) : List DNode → Bool
  | [] => true
  | x :: xs => allPN P x && allPL P xs
end

/-- What the lemmas need to know about `P`: it looks at the schema node, the value and the list keys of a node only, and it
holds for every node that libyang does not keep sorted (leaves, containers). -/
structure PInv (S : Schema) (P : DNode → Bool) : Prop where
  pcongr : ∀ {x y : DNode}, x.sid = y.sid → x.val = y.val → keyPairs (keysOf S x.kids) = keyPairs (keysOf S y.kids) → P x = P y
  punsorted : ∀ {x : DNode}, S.isSorted x.sid = false → P x = true

theorem pinv_true (S : Schema) : PInv S (fun _ => true) := ⟨fun _ _ _ => rfl, fun _ => rfl⟩

end LyModel.Diff.K13
