import LyModel.Diff.UOBridgeNBApply2
/-!
# Bridge (C06) — Stage 3a, part 7: the decidable hypothesis `nbLL` gives the hypotheses of the neighbours theorem
-/
namespace LyModel.Diff.UOB.NB
open LyModel LyModel.Tree LyModel.Diff LyModel.Diff.UOB
set_option linter.unusedSimpArgs false
set_option linter.unusedVariables false

theorem inertH_eq : inertH = inertB := rfl

theorem eqFlat_eq {a b : DNode} (h : eqFlat a b = true) : a = b := by
  unfold eqFlat at h
  simp only [Bool.and_eq_true, beq_iff_eq, List.isEmpty_iff] at h
  obtain ⟨⟨⟨⟨⟨⟨h1, h2⟩, h3⟩, h4⟩, h5⟩, h6⟩, h7⟩ := h
  cases a <;> cases b <;> simp_all [DNode.sid, DNode.flags, DNode.metas, DNode.val, DNode.isTerm, DNode.kids]

theorem eqFlatL_eq : ∀ {a b : List DNode}, eqFlatL a b = true → a = b
  | [], [], _ => rfl
  | x :: xs, y :: ys, h => by
    simp only [eqFlatL, Bool.and_eq_true] at h
    rw [eqFlat_eq h.1, eqFlatL_eq h.2]
  | [], _ :: _, h => by simp [eqFlatL] at h
  | _ :: _, [], h => by simp [eqFlatL] at h

theorem nodupN_nodup : ∀ {l : List Nat}, nodupN l = true → l.Nodup
  | [], _ => List.nodup_nil
  | x :: xs, h => by
    simp only [nodupN, Bool.and_eq_true, Bool.not_eq_true', List.contains_eq_mem, decide_eq_false_iff_not] at h
    exact List.nodup_cons.mpr ⟨h.1, nodupN_nodup h.2⟩

theorem split_eq (s : Nat) (A : List DNode) : A = (splitAt s A).1 ++ (splitAt s A).2.1 ++ (splitAt s A).2.2 := by
  unfold splitAt
  simp only
  rw [List.append_assoc, List.takeWhile_append_dropWhile, List.takeWhile_append_dropWhile]

/-- what `nbLL` guarantees -/
theorem nbLL_spec {S : Schema} {A B : List DNode} {s : Nat} (h : nbLL S A B = some s) :
    ∃ (P Q : List DNode) (va vb : List Bytes),
      (S.kind? s = some .leaflist ∧ S.isUserOrd s = true ∧ S.config s = true) ∧ NBCtx S s P Q ∧
      A = nbForest s P Q va ∧ B = nbForest s P Q vb ∧ va.Nodup ∧ vb.Nodup ∧ [] ∉ vb := by
  unfold nbLL at h
  split at h
  · simp at h
  · rename_i n0 _
    simp only at h
    split at h
    · rename_i hc
      simp only [Option.some.injEq] at h
      subst h
      simp only [Bool.and_eq_true, beq_iff_eq, Bool.not_eq_true', List.contains_eq_mem, decide_eq_false_iff_not,
        List.all_eq_true, decide_eq_true_eq] at hc
      obtain ⟨⟨⟨⟨⟨⟨⟨⟨⟨⟨⟨⟨⟨h1, h2⟩, h3⟩, h4⟩, h5⟩, h6⟩, h7⟩, h8⟩, h9⟩, h10⟩, h11⟩, h12⟩, h13⟩, h14⟩ := hc
      have eP := eqFlatL_eq h4
      have eQ := eqFlatL_eq h5
      refine ⟨(splitAt n0.sid A).1, (splitAt n0.sid A).2.2, (splitAt n0.sid A).2.1.map (·.val),
        (splitAt n0.sid B).2.1.map (·.val), ⟨h1, h2, h3⟩, ⟨h6, nodupN_nodup h7, h8, h9⟩, ?_, ?_, nodupB_nodup h12,
        nodupB_nodup h13, h14⟩
      · unfold nbForest
        rw [← all_plain_eq (List.all_eq_true.mpr h10)]
        exact split_eq n0.sid A
      · unfold nbForest
        rw [← all_plain_eq (List.all_eq_true.mpr h11), eP, eQ]
        exact split_eq n0.sid B
    · simp at h

end LyModel.Diff.UOB.NB
