import LyModel.Diff.MergeDiff
import LyModel.Diff.Exact13
/-!
# C13: where two diffs MEET — the decidable side condition of the tree-level composition law (`merge_apply_partial_tree`)

`mergeSafe S D1 D2`: wherever a node of the second diff addresses the instance a node of the first diff addresses (`matchP`), at
any depth,
* both are leaf / leaf-list nodes — every accepted cell of the 4 × 4 table, except that in the cell `none` + `replace` (a leaf
  whose default flag was changed by the first diff gets another value in the second one) the new value must not carry the
  default flag (`merge_apply_dfltvalue_fails`: not reachable from validated data); or
* both are container / list-instance nodes, in any of the five cells of the table the C accepts for inner nodes (`meetOps`):
  `none` + `none` (the instance exists in all three trees), `none` + `delete` (changed inside by the first diff, deleted as a
  whole by the second), `create` + `delete` (created, then deleted: nothing is left), `create` + `none` (created, then changed
  inside), `delete` + `create` (deleted, then created again, with the same or with other descendants — for that cell the key
  leaves of the two copies must agree in their default flags too, which `lyd_compare_single` does not look at; list keys never
  carry the flag); the key copies of the target node belong to schema nodes before the children of the source node (schema
  order: true of every computed diff); and their children meet in the same way — the children of a created / deleted subtree
  carry no operation of their own: it is INHERITED (`lyd_diff_merge_delete` / `lyd_diff_merge_create` make the operations of
  the target node's children explicit first; the copies inside a created subtree keep inheriting `create`).
So `mergeSafe` excludes one thing only: the default-flagged second value in `none` + `replace` (and malformed key copies).
Core Lean only (the driver evaluates the predicate for every generated triple).
-/
namespace LyModel.Diff
open LyModel LyModel.Tree

/-- the operations of two inner nodes that may meet: `none` + `none` (the instance is in all three trees), `none` + `delete` (changed
inside by the first diff, deleted by the second), `create` + `delete` (created by the first diff, deleted by the second),
`create` + `none` (created by the first diff, changed inside by the second), `delete` + `create` (deleted by the first diff, created
again by the second, with whatever descendants) — every accepted cell of the table for inner nodes -/
def meetOps : Option Op → Option Op → Bool
  | some .none, some .none => true
  | some .none, some .delete => true
  | some .create, some .delete => true
  | some .create, some .none => true
  | some .delete, some .create => true
  | _, _ => false

mutual
/-- the target node `t` (inherited operation `cur`) and the source node that meets it (inherited operation `sin`) -/
def safeP (S : Schema) (cur sin : Option Op) (t : DNode) : DNode → Bool
  | .term s f m v =>
    t.isTerm && !(effOp t cur == some .none && effOp (.term s f m v) sin == some .replace && f.dflt)
  | .inner s f m ks =>
    !t.isTerm && meetOps (effOp t cur) (effOp (.inner s f m ks) sin) &&
      (!(effOp t cur == some .delete) || dataEqL true (keysOf S t.kids) (keysOf S ks)) &&
      (keysOf S t.kids).all (fun k => (noKeys S ks).all fun c => decide (k.sid < c.sid)) &&
      safeK S (childInhOf t cur) (childInhOf (.inner s f m ks) sin) (noKeys S t.kids) ks
/-- every node of the source sibling list `cs` against every node of the target sibling list `T` it meets -/
def safeK (S : Schema) (cur sin : Option Op) (T : List DNode) : List DNode → Bool
  | [] => true
  | c :: cs => T.all (fun t => !matchP S c t || safeP S cur sin t c) && safeK S cur sin T cs
end

mutual
/-- `safeP` without the two conditions on the key copies (they hold for computed diffs: Diff/LemmasKeyCopy.lean) -/
def safeP0 (S : Schema) (cur sin : Option Op) (t : DNode) : DNode → Bool
  | .term s f m v =>
    t.isTerm && !(effOp t cur == some .none && effOp (.term s f m v) sin == some .replace && f.dflt)
  | .inner s f m ks =>
    !t.isTerm && meetOps (effOp t cur) (effOp (.inner s f m ks) sin) &&
      safeK0 S (childInhOf t cur) (childInhOf (.inner s f m ks) sin) (noKeys S t.kids) ks
def safeK0 (S : Schema) (cur sin : Option Op) (T : List DNode) : List DNode → Bool
  | [] => true
  | c :: cs => T.all (fun t => !matchP S c t || safeP0 S cur sin t c) && safeK0 S cur sin T cs
end

/-- `mergeSafe` for COMPUTED diffs: the only thing excluded is a default-flagged second value in the cell `none` + `replace` -/
def mergeSafe0 (S : Schema) (D1 D2 : List DNode) : Bool := safeK0 S none none D1 D2

/-- the two diffs meet only in leaf cells and in `none` / `none` inner nodes -/
def mergeSafe (S : Schema) (D1 D2 : List DNode) : Bool := safeK S none none D1 D2

end LyModel.Diff
