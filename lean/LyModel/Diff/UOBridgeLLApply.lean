import LyModel.Diff.UOBridgeLLThm
/-!
# Bridge from the user-ordered list core to the tree model (C06) — part 6: `lyd_diff_apply_r` on one leaf-list

`applyStep` (= one call of `lyd_diff_apply_r`) with a diff node that encodes a core operation (`IsOpNode`), on a data
sibling list that holds instances of the leaf-list only, does to the values what `UOG.applyOp` does.  Core Lean only.
-/
namespace LyModel.Diff.UOB
open LyModel LyModel.Tree LyModel.Diff
set_option linter.unusedSimpArgs false
set_option linter.unusedVariables false
local instance (priority := high) bytesBEq4 : BEq Bytes := instBEqOfDecidableEq

/-- a data sibling list holding exactly the instances `l` of the leaf-list `s`; `LYD_NEW` may be set (apply sets it on what
it creates) -/
def DataLL (s : Nat) (sibs : List DNode) (l : List Bytes) : Prop :=
  sibs.map (·.val) = l ∧ ∀ n ∈ sibs, ∃ nw, n = .term s { new := nw } [] n.val

theorem DataLL.sid {s : Nat} {sibs : List DNode} {l : List Bytes} (h : DataLL s sibs l) : ∀ n ∈ sibs, n.sid = s := by
  intro n hn
  obtain ⟨nw, e⟩ := h.2 n hn
  rw [e]; rfl

/-! ### list facts -/

theorem findIdx?_val (k : Bytes) : ∀ (sibs : List DNode),
    sibs.findIdx? (fun x => decide (x.val = k)) =
      if k ∈ sibs.map (·.val) then some ((sibs.map (·.val)).idxOf k) else none
  | [] => by simp
  | x :: xs => by
    by_cases e : x.val = k
    · simp [List.findIdx?_cons, e, List.idxOf_cons]
    · have e' : (x.val == k) = false := by simpa using e
      have e2 : ¬ k = x.val := fun h => e h.symm
      have ih := findIdx?_val k xs
      simp only [List.findIdx?_cons, e, decide_false, List.map_cons, List.mem_cons, e2, false_or, List.idxOf_cons, e',
        cond_false, ih]
      by_cases hm : k ∈ xs.map (·.val) <;> simp [hm]

theorem insertAfterKey_eq (z k : Bytes) : ∀ (l : List Bytes),
    UOG.insertAfterKey z k l = if z ∈ l then some (l.take (l.idxOf z + 1) ++ k :: l.drop (l.idxOf z + 1)) else none
  | [] => by simp [UOG.insertAfterKey]
  | h :: t => by
    by_cases e : h = z
    · subst e; simp [UOG.insertAfterKey, List.idxOf_cons]
    · have e' : (h == z) = false := by simpa using e
      have e2 : ¬ z = h := fun hh => e hh.symm
      simp only [UOG.insertAfterKey, e, if_false, insertAfterKey_eq z k t, List.mem_cons, e2, false_or, List.idxOf_cons, e',
        cond_false]
      split <;> simp

theorem idxOf_erase {l : List Bytes} {k z : Bytes} (hzk : z ≠ k) :
    (l.erase k).idxOf z = if l.idxOf k < l.idxOf z then l.idxOf z - 1 else l.idxOf z := by
  induction l with
  | nil => simp
  | cons h t ih =>
    by_cases e1 : h = k
    · subst e1
      have : (h == z) = false := by simpa using (Ne.symm hzk)
      simp [List.idxOf_cons, this]
    · have e1' : (h == k) = false := by simpa using e1
      by_cases e2 : h = z
      · subst e2; simp [List.erase_cons, e1', List.idxOf_cons]
      · have e2' : (h == z) = false := by simpa using e2
        simp only [List.erase_cons, e1', List.idxOf_cons, e2', cond_false, ih, Bool.false_eq_true, if_false]
        split <;> split <;> omega

theorem findIdx?_congr_mem {p q : DNode → Bool} : ∀ (l : List DNode), (∀ x ∈ l, p x = q x) → l.findIdx? p = l.findIdx? q
  | [], _ => rfl
  | x :: xs, h => by
    simp only [List.findIdx?_cons, h x (by simp), findIdx?_congr_mem xs (fun y hy => h y (by simp [hy]))]

/-! ### the lookups of apply -/

theorem findForApply_ll {S : Schema} {s : Nat} (C : LLCtx S s) {sibs : List DNode} {l : List Bytes} (h : DataLL s sibs l)
    (d : DNode) (hd : d.sid = s) :
    findForApply S sibs d = if d.val ∈ l then some (l.idxOf d.val) else none := by
  unfold findForApply
  simp only [hd, C.ll, Bool.or_true, if_true]
  rw [findIdxFrom_zero, findIdx?_congr_mem (q := fun x => decide (x.val = d.val)) sibs, findIdx?_val, h.1]
  intro x hx
  have hs := h.sid x hx
  simp [instMatch, C.nd, hd, hs, sameInst_ll C x d hs hd]

theorem findAnchor_ll {S : Schema} {s : Nat} (C : LLCtx S s) {sibs : List DNode} {l : List Bytes} (h : DataLL s sibs l)
    (z : Bytes) :
    findAnchor S sibs s z = if z ∈ l then .ok (l.idxOf z) else .error .einval := by
  unfold findAnchor
  simp only [C.nd, C.ll, Bool.false_eq_true, if_false, if_true]
  rw [findIdxFrom_zero, findIdx?_congr_mem (q := fun x => decide (x.val = z)) sibs, findIdx?_val, h.1]
  · by_cases hz : z ∈ l <;> simp [hz]
  · intro x hx
    simp [h.sid x hx, Bool.beq_eq_decide_eq]

theorem findFirst_ll {s : Nat} {sibs : List DNode} {l : List Bytes} (h : DataLL s sibs l) (hne : sibs ≠ []) :
    findIdxFrom (fun x _ => x.sid == s) sibs 0 = some 0 := by
  cases sibs with
  | nil => exact absurd rfl hne
  | cons x xs => simp [findIdxFrom, h.sid x (by simp)]

/-! ### `lyd_diff_insert` -/

theorem DataLL.insert {s : Nat} {pre post : List DNode} {l : List Bytes} {n : DNode} (h : DataLL s (pre ++ post) l)
    (hn : ∃ nw, n = .term s { new := nw } [] n.val) :
    DataLL s (pre ++ [n] ++ post) ((pre.map (·.val)) ++ n.val :: post.map (·.val)) := by
  refine ⟨by simp, ?_⟩
  intro x hx
  simp only [List.mem_append, List.mem_singleton] at hx
  rcases hx with (hx | hx) | hx
  · exact h.2 x (by simp [hx])
  · subst hx; exact hn
  · exact h.2 x (by simp [hx])

/-- `lyd_diff_insert` of a new instance `k` behind the anchor (`none` = first) -/
theorem insertUO_new {S : Schema} {s : Nat} (C : LLCtx S s) (hp : Bool) {sibs : List DNode} {l l' : List Bytes} (h : DataLL s sibs l)
    (n : DNode) (hn : ∃ nw, n = .term s { new := nw } [] n.val) (a : Option Bytes)
    (hins : UOG.insertAfter l a n.val = some l') :
    ∃ sibs', insertUO S sibs hp n none a = .ok sibs' ∧ DataLL s sibs' l' := by
  have hns : n.sid = s := by obtain ⟨nw, e⟩ := hn; rw [e]; rfl
  unfold insertUO
  by_cases hemp : sibs = []
  · subst hemp
    have hl : l = [] := by rw [← h.1]; rfl
    subst hl
    cases a with
    | none =>
      simp only [UOG.insertAfter, Option.some.injEq] at hins
      subst hins
      exact ⟨[n], by simp, by simp, by intro x hx; simp at hx; subst hx; exact hn⟩
    | some z => simp [UOG.insertAfter, UOG.insertAfterKey] at hins
  · have hemp' : sibs.isEmpty = false := by cases sibs <;> simp_all
    simp only [hemp', Bool.false_eq_true, if_false]
    cases a with
    | none =>
      simp only [UOG.insertAfter, Option.some.injEq] at hins
      subst hins
      simp only [hns, findFirst_ll h hemp]
      refine ⟨_, rfl, ?_⟩
      have := DataLL.insert (pre := []) (post := sibs) (n := n) (by simpa using h) hn
      simpa [h.1] using this
    | some z =>
      simp only [UOG.insertAfter, insertAfterKey_eq] at hins
      by_cases hz : z ∈ l
      · simp only [hz, if_true, Option.some.injEq] at hins
        subst hins
        simp only [hns, findAnchor_ll C h, hz, if_true, bind, Except.bind]
        refine ⟨sibs.take (l.idxOf z + 1) ++ [n] ++ sibs.drop (l.idxOf z + 1), by simp, ?_⟩
        have := DataLL.insert (pre := sibs.take (l.idxOf z + 1)) (post := sibs.drop (l.idxOf z + 1)) (n := n)
          (by simpa using h) hn
        rw [List.map_take, List.map_drop, h.1] at this
        exact this
      · simp [hz] at hins

theorem map_eraseIdx' {α β : Type} (f : α → β) : ∀ (v : List α) (i : Nat), (v.eraseIdx i).map f = (v.map f).eraseIdx i
  | [], _ => rfl
  | _ :: t, 0 => rfl
  | h :: t, i + 1 => by simp [map_eraseIdx' f t i]

theorem DataLL.eraseIdx {s : Nat} {sibs : List DNode} {l : List Bytes} (h : DataLL s sibs l) (k : Bytes) :
    DataLL s (sibs.eraseIdx (l.idxOf k)) (l.erase k) := by
  refine ⟨?_, fun n hn => h.2 n (List.mem_of_mem_eraseIdx hn)⟩
  rw [map_eraseIdx', h.1, eraseIdx_idxOf]

theorem idxOf_zero_iff {l : List Bytes} {k : Bytes} (hk : k ∈ l) : l.idxOf k = 0 ↔ l.head? = some k := by
  cases l with
  | nil => simp at hk
  | cons h t =>
    by_cases e : h = k
    · subst e; simp [List.idxOf_cons]
    · have e' : (h == k) = false := by simpa using e
      simp [List.idxOf_cons, e', e]

/-- `lyd_diff_insert` of the existing instance `k` (= `sibs[idxOf k]`) behind the anchor -/
theorem insertUO_move {S : Schema} {s : Nat} (C : LLCtx S s) (hp : Bool) {sibs : List DNode} {l l' : List Bytes} (h : DataLL s sibs l)
    (n : DNode) (hn : ∃ nw, n = .term s { new := nw } [] n.val) (hk : n.val ∈ l) (a : Option Bytes)
    (ha1 : a ≠ some n.val) (ha2 : ¬ (a = none ∧ l.head? = some n.val))
    (hins : UOG.insertAfter (l.erase n.val) a n.val = some l') :
    ∃ sibs', insertUO S sibs hp n (some (l.idxOf n.val)) a = .ok sibs' ∧ DataLL s sibs' l' := by
  have hns : n.sid = s := by obtain ⟨nw, e⟩ := hn; rw [e]; rfl
  have hemp : sibs ≠ [] := by
    intro e; subst e
    have : l = [] := by rw [← h.1]; rfl
    subst this; simp at hk
  have hemp' : sibs.isEmpty = false := by cases sibs <;> simp_all
  have he := h.eraseIdx n.val
  unfold insertUO
  simp only [hemp', Bool.false_eq_true, if_false]
  cases a with
  | none =>
    simp only [UOG.insertAfter, Option.some.injEq] at hins
    subst hins
    have hi0 : l.idxOf n.val ≠ 0 := fun e => ha2 ⟨rfl, (idxOf_zero_iff hk).mp e⟩
    simp only [hns, findFirst_ll h hemp]
    have hb : (some (l.idxOf n.val) == some 0) = false := by simpa using hi0
    simp only [hb, Bool.false_eq_true, if_false]
    refine ⟨_, rfl, ?_⟩
    have := DataLL.insert (pre := []) (post := sibs.eraseIdx (l.idxOf n.val)) (n := n) (by simpa using he) hn
    simpa [he.1] using this
  | some z =>
    simp only [UOG.insertAfter, insertAfterKey_eq] at hins
    by_cases hz : z ∈ l.erase n.val
    · simp only [hz, if_true, Option.some.injEq] at hins
      subst hins
      have hzl : z ∈ l := List.mem_of_mem_erase hz
      have hzk : z ≠ n.val := fun e => ha1 (by rw [e])
      have hne : l.idxOf n.val ≠ l.idxOf z := fun e => hzk (idxOf_inj hk e).symm
      have hb : (some (l.idxOf n.val) == some (l.idxOf z)) = false := by simpa using hne
      simp only [hns, findAnchor_ll C h, hzl, if_true, bind, Except.bind, hb, Bool.false_eq_true, if_false]
      have hidx := idxOf_erase (l := l) hzk
      rw [← hidx]
      refine ⟨_, rfl, ?_⟩
      have := DataLL.insert (pre := (sibs.eraseIdx (l.idxOf n.val)).take ((l.erase n.val).idxOf z + 1))
        (post := (sibs.eraseIdx (l.idxOf n.val)).drop ((l.erase n.val).idxOf z + 1)) (n := n) (by simpa using he) hn
      rw [List.map_take, List.map_drop, he.1] at this
      exact this
    · simp [hz] at hins

end LyModel.Diff.UOB
