import LyModel.Diff.LemmasLevelA
/-!
# Matched pairs (C06 proofs): same keys, what "no operation" means
Core Lean only.
-/
namespace LyModel.Diff
open LyModel LyModel.Tree

/-- key leaves are determined by schema id and value -/
theorem keys_eq_of_pairs (S : Schema) : ∀ (k1 k2 : List DNode),
    (∀ c ∈ k1, wfNode S c = true ∧ c.isTerm = true ∧ c.flags.dflt = false) →
    (∀ c ∈ k2, wfNode S c = true ∧ c.isTerm = true ∧ c.flags.dflt = false) →
    keyPairs k1 = keyPairs k2 → k1 = k2
  | [], [], _, _, _ => rfl
  | [], _ :: _, _, _, h => by simp [keyPairs] at h
  | _ :: _, [], _, _, h => by simp [keyPairs] at h
  | a :: as, b :: bs, h1, h2, h => by
    simp only [keyPairs, List.map_cons, List.cons.injEq, Prod.mk.injEq] at h
    have ih := keys_eq_of_pairs S as bs (fun c hc => h1 c (by simp [hc])) (fun c hc => h2 c (by simp [hc]))
      (by simpa [keyPairs] using h.2)
    rw [ih]
    congr 1
    obtain ⟨wa, ta, da⟩ := h1 a (by simp)
    obtain ⟨wb, tb, db⟩ := h2 b (by simp)
    cases a with
    | inner => simp [DNode.isTerm] at ta
    | term sa fa ma va =>
      cases b with
      | inner => simp [DNode.isTerm] at tb
      | term sb fb mb vb =>
        have hta := wfNode_term S _ _ _ _ wa
        have htb := wfNode_term S _ _ _ _ wb
        simp only [DNode.sid, DNode.val] at h
        obtain ⟨⟨hs, hv⟩, _⟩ := h
        subst hs hv
        have hma := hta.nometa
        have hmb := htb.nometa
        subst hma hmb
        congr 1
        cases fa; cases fb
        have := hta.nonew; have := hta.nowhen; have := htb.nonew; have := htb.nowhen
        simp only [DNode.flags] at da db
        simp_all

theorem wf_keys (S : Schema) (s : Nat) (f : Flags) (m : List Meta) (ks : List DNode) (hi : WfInner S s f m ks) :
    ∀ c ∈ keysOf S ks, wfNode S c = true ∧ c.isTerm = true ∧ c.flags.dflt = false := by
  intro c hc
  exact ⟨wfL_mem S ks c hi.kids ((List.takeWhile_sublist _).subset hc), hi.keysTerm c hc, hi.keysNoDflt c hc⟩

/-- matched inner nodes have the same key leaves -/
theorem keysOf_eq_of_kkey (S : Schema) (sa : Nat) (fa fb : Flags) (ma mb : List Meta) (ka kb : List DNode)
    (ha : WfInner S sa fa ma ka) (hb : WfInner S sa fb mb kb)
    (hk : kkey S (.inner sa fa ma ka) = kkey S (.inner sa fb mb kb)) : keysOf S ka = keysOf S kb := by
  rcases ha.keysList with hl | he
  · have hnll : S.isKind sa .leaflist = false := by
      cases h : S.isKind sa .leaflist with
      | false => rfl
      | true => exact absurd (isKind_unique S sa _ _ hl h) (by decide)
    have : keyPairs (keysOf S ka) = keyPairs (keysOf S kb) := by
      have := congrArg Prod.snd hk
      simpa [kkey, DNode.sid, DNode.kids, hnll, hl] using this
    exact keys_eq_of_pairs S _ _ (wf_keys S _ _ _ _ ha) (wf_keys S _ _ _ _ hb) this
  · rcases hb.keysList with hl | he'
    · have hnll : S.isKind sa .leaflist = false := by
        cases h : S.isKind sa .leaflist with
        | false => rfl
        | true => exact absurd (isKind_unique S sa _ _ hl h) (by decide)
      have : keyPairs (keysOf S ka) = keyPairs (keysOf S kb) := by
        have := congrArg Prod.snd hk
        simpa [kkey, DNode.sid, DNode.kids, hnll, hl] using this
      exact keys_eq_of_pairs S _ _ (wf_keys S _ _ _ _ ha) (wf_keys S _ _ _ _ hb) this
    · rw [he, he']

theorem normNode_sid (S : Schema) (n : DNode) : (normNode S n).sid = n.sid := by cases n <;> rfl
theorem normNode_val (S : Schema) (n : DNode) : (normNode S n).val = n.val := by cases n <;> rfl

theorem keyPairs_keysOf_norm (S : Schema) (l : List DNode) :
    keyPairs (keysOf S (normL S l)) = keyPairs (keysOf S l) := by
  rw [normL_eq_map, takeWhile_map_sid S (normNode S) (normNode_sid S)]
  exact keyPairs_map (normNode S) (normNode_sid S) (normNode_val S) _

/-- the key of an inner node is a function of its children up to `normL` -/
theorem kkey_inner_of_norm (S : Schema) (s : Nat) (f f' : Flags) (m m' : List Meta) (r kb : List DNode)
    (h : normL S r = normL S kb) : kkey S (.inner s f m r) = kkey S (.inner s f' m' kb) := by
  have : keyPairs (keysOf S r) = keyPairs (keysOf S kb) := by
    rw [← keyPairs_keysOf_norm S r, ← keyPairs_keysOf_norm S kb, h]
  simp only [kkey, DNode.sid, DNode.kids, DNode.val, this]
  rfl

theorem normFlags_eq (S : Schema) (s : Nat) (fa fb : Flags) (ha1 : fa.new = false) (ha2 : fa.whenTrue = false)
    (ha3 : fa.dflt = true → S.isNpCont s = true) (hb1 : fb.new = false) (hb2 : fb.whenTrue = false)
    (hb3 : fb.dflt = true → S.isNpCont s = true) :
    ({ fa with new := false, dflt := if S.isNpCont s = true then false else fa.dflt } : Flags) =
      { fb with new := false, dflt := if S.isNpCont s = true then false else fb.dflt } := by
  cases fa with
  | mk da wa na =>
    cases fb with
    | mk db wb nb =>
      simp only at ha1 ha2 ha3 hb1 hb2 hb3
      subst ha1 ha2 hb1 hb2
      by_cases hnp : S.isNpCont s = true
      · simp [hnp]
      · have h1 : da = false := by cases da <;> simp_all
        have h2 : db = false := by cases db <;> simp_all
        simp [h1, h2]

/-- matched inner nodes whose children agree up to `normL` agree up to `normNode` -/
theorem normNode_inner_eq (S : Schema) (s : Nat) (fa fb : Flags) (ma mb : List Meta) (ka kb r : List DNode)
    (ha : WfInner S s fa ma ka) (hb : WfInner S s fb mb kb) (h : normL S r = normL S kb) :
    normNode S (.inner s fa ma r) = normNode S (.inner s fb mb kb) := by
  simp only [normNode, h, ha.nometa, hb.nometa]
  congr 1
  exact normFlags_eq S s fa fb ha.nonew ha.nowhen ha.dflt hb.nonew hb.nowhen hb.dflt

/-- a matched pair of terms without an operation: the same node -/
theorem term_unchanged (S : Schema) (a b : DNode) (hwa : wfNode S a = true) (hwb : wfNode S b = true)
    (hk : kkey S a = kkey S b) (ht : S.isTerm a.sid = true) (hat : plainAttrs S true (some a) (some b) = none) :
    a = b := by
  have hsid := kkey_sid S a b hk
  obtain ⟨fa, ma, va, ea⟩ := term_of_shape S a (wfNode_shape S a hwa) ht
  obtain ⟨fb, mb, vb, eb⟩ := term_of_shape S b (wfNode_shape S b hwb) (by rw [← hsid]; exact ht)
  rw [← hsid] at eb
  generalize a.sid = s at ea eb ht
  subst ea eb
  have hta := wfNode_term S _ _ _ _ hwa
  have htb := wfNode_term S _ _ _ _ hwb
  have hma := hta.nometa
  have hmb := htb.nometa
  subst hma hmb
  -- value and default flag from "no change"
  unfold plainAttrs at hat
  simp only [Bool.true_and, DNode.sid, DNode.flags, DNode.val] at hat
  have hkind : S.isKind s .leaf = true ∨ S.isKind s .leaflist = true := by
    unfold Schema.isTerm at ht
    simpa using ht
  have hv_d : va = vb ∧ fa.dflt = fb.dflt := by
    rcases hkind with hl | hll
    · have hkd : S.kind? s = some .leaf := by simpa [Schema.isKind] using hl
      simp only [hkd] at hat
      by_cases hs : sameInst S (.term s fa [] va) (.term s fb [] vb) = true
      · simp only [hs, Bool.not_true, Bool.false_eq_true, if_false] at hat
        have hv : va = vb := by
          unfold sameInst at hs
          simpa [DNode.sid, hkd, DNode.val] using hs
        by_cases hf : (fa.dflt != fb.dflt) = true
        · rw [if_pos hf] at hat; exact absurd hat (by simp)
        · exact ⟨hv, by simpa using hf⟩
      · have hs' : sameInst S (.term s fa [] va) (.term s fb [] vb) = false := by simpa using hs
        rw [hs'] at hat
        exact absurd hat (by simp)
    · have hkd : S.kind? s = some .leaflist := by simpa [Schema.isKind] using hll
      simp only [hkd] at hat
      have hv : va = vb := by
        have := congrArg Prod.snd hk
        simpa [kkey, DNode.sid, DNode.val, hll] using this
      by_cases hf : (fa.dflt != fb.dflt) = true
      · rw [if_pos hf] at hat; exact absurd hat (by simp)
      · exact ⟨hv, by simpa using hf⟩
  obtain ⟨hv, hd⟩ := hv_d
  subst hv
  congr 1
  cases fa with
  | mk da wa na =>
    cases fb with
    | mk db wb nb =>
      have h1 := hta.nonew; have h2 := hta.nowhen; have h3 := htb.nonew; have h4 := htb.nowhen
      simp only at h1 h2 h3 h4 hd
      subst h1 h2 h3 h4 hd
      rfl

end LyModel.Diff
