import LyModel.Diff.UORevSim
import LyModel.Diff.UOBridgeLLApply2
/-!
# C13 bridge, step (i'): applying a reversed diff of user-ordered leaf-list operations = the list core on the reversed operations

`lyd_diff_apply_all` does not look at `LYD_NEW` of a leaf-list diff node (`applyStep_term_new`), so the reversed diff of
`reverseRepaired_enc` can be applied through the apply simulation of the C06 bridge (`UOB.apply_ops`).  Core Lean only.
-/
namespace LyModel.Diff.UORev
open LyModel LyModel.Tree LyModel.Diff LyModel.Diff.UOB

/-- `lyd_diff_apply_r` does not read `LYD_NEW` (nor `LYD_WHEN_TRUE`) of a diff node that is a leaf-list instance -/
theorem applyStep_term_new (S : Schema) (fx : Fixes) (recur : Recur) (sibs : List DNode) (hp : Bool) (inh : Option Op)
    (s : Nat) (f : Flags) (m : List Meta) (v : Bytes) (b : Bool) (hnd : S.isDupInst s = false) (hl : S.isKind s .leaf = false) :
    applyStep S fx recur sibs hp inh (.term s { f with new := b } m v) = applyStep S fx recur sibs hp inh (.term s f m v) := by
  simp only [applyStep, applyUO, applyNone, applyDelete, applyCreate, applyReplace, findForApply, instMatch, hnd, dupSingle,
    getMeta, effOp, ownOp, DNode.sid, DNode.metas, DNode.flags, DNode.kids, applyKids, sameInst, DNode.val, hl, anchorMetaName,
    childInhOf, DNode.isTerm, DNode.setKids]
  rfl

theorem Ctx.notLeaf {S : Schema} {s : Nat} (C : Ctx S s) : S.isKind s .leaf = false := by simp [Schema.isKind, C.kind]
theorem Ctx.ll {S : Schema} {s : Nat} (C : Ctx S s) : LLCtx S s := ⟨C.kind, C.uo, C.nd⟩

theorem applyNode_encF_new {S : Schema} {s : Nat} (C : Ctx S s) (fx : Fixes) (fuel : Nat) (sibs : List DNode) (hp : Bool)
    (inh : Option Op) (op : UOpO) :
    applyNode S fx (fuel + 1) sibs hp inh (encF s { new := true } op) = applyNode S fx (fuel + 1) sibs hp inh (enc s op) := by
  cases op <;> exact applyStep_term_new S fx _ sibs hp inh s {} _ _ true C.nd C.notLeaf

theorem foldlM_encF_new {S : Schema} {s : Nat} (C : Ctx S s) (fx : Fixes) (fuel : Nat) (hp : Bool) (inh : Option Op) :
    ∀ (ops : List UOpO) (sibs : List DNode),
      (ops.map (encF s { new := true })).foldlM (fun sibs d => applyNode S fx (fuel + 1) sibs hp inh d) sibs =
      (ops.map (enc s)).foldlM (fun sibs d => applyNode S fx (fuel + 1) sibs hp inh d) sibs
  | [], _ => rfl
  | op :: ops, sibs => by
    simp only [List.map_cons, List.foldlM_cons, applyNode_encF_new C fx fuel sibs hp inh op]
    congr 1
    funext sibs1
    exact foldlM_encF_new C fx fuel hp inh ops sibs1

theorem heightL_encF (s : Nat) (f : Flags) : ∀ ops : List UOpO, heightL (ops.map (encF s f)) = heightL (ops.map (enc s))
  | [] => rfl
  | op :: ops => by
    have h1 : (encF s f op).height = (enc s op).height := by cases op <;> rfl
    simp [heightL, h1, heightL_encF s f ops]

/-- the diff nodes of operations whose new anchors are not the empty value encode them (C06 bridge: `OpNodes`) -/
def AnchorOk : UOpO → Prop
  | .del _ _ => True
  | .create _ a => a ≠ some []
  | .move _ a _ => a ≠ some []

theorem opNodes_enc (s : Nat) : ∀ ops : List UOpO, (∀ op ∈ ops, AnchorOk op) →
    OpNodes s (ops.map (enc s)) (ops.map UOpO.forget)
  | [], _ => .nil
  | op :: ops, h => by
    refine .cons ?_ (opNodes_enc s ops fun o ho => h o (by simp [ho]))
    have := h op (by simp)
    cases op with
    | del k o => exact .del k _
    | create k a => exact .create k a this
    | move k a o => exact .move k _ a this

/-- **reverse, then apply = the core on the reversed operations.**  `ops`: any operations on one user-ordered configuration
leaf-list (`MoveOk`: a move changes the predecessor; `AnchorOk` of the inverse operations: no original anchor is the empty value);
`sibs` holds the instances `l`.  If the list core applies the reversed operations to `l` with result `l'`, then
`lyd_diff_reverse_all` (repaired) succeeds on the diff nodes of `ops` and `lyd_diff_apply_all` of its result on `sibs` succeeds
with the instances `l'`. -/
theorem reverse_apply_enc {S : Schema} {s : Nat} (C : Ctx S s) (fx : Fixes) (ops : List UOpO) (hm : ∀ op ∈ ops, MoveOk op)
    (ha : ∀ op ∈ reverseO ops, AnchorOk op) (sibs : List DNode) (l l' : List Bytes) (hd : DataLL s sibs l)
    (hap : UOG.applyU l ((reverseO ops).map UOpO.forget) = some l') :
    ∃ R sibs', reverseRepaired S (ops.map (enc s)) = .ok R ∧ apply S sibs R fx = .ok sibs' ∧ DataLL s sibs' l' := by
  obtain ⟨sibs', h1, h2⟩ := apply_ops C.ll fx (heightL ((reverseO ops).map (enc s))) false none (opNodes_enc s _ ha) sibs l l' hd hap
  refine ⟨_, sibs', reverseRepaired_enc C ops hm, ?_, h2⟩
  unfold apply
  rw [heightL_encF, foldlM_encF_new C fx _ false none]
  exact h1

end LyModel.Diff.UORev
