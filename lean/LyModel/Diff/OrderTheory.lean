import LyModel.Diff.ApplyDiff
/-!
# The order of the type plugins' `sort` callbacks (C06 proofs)

`BaseTy.cmp` is, for every S1 type, a total preorder on byte strings: `cmp b a = (cmp a b).swap`, `lt` is
transitive, `eq` is a congruence.  Hence `cmpPairs` (the lexicographic `rb_compare_lists`) is a strict weak
order on keys with the same key leaves, and `kltK` one on the keys of well-formed trees.  Core Lean only.
-/
namespace LyModel.Diff
open LyModel LyModel.Tree

/-! ### `strcmp` -/

theorem cmpBytes_swap : ∀ (a b : Bytes), cmpBytes b a = (cmpBytes a b).swap
  | [], [] => rfl
  | [], _ :: _ => rfl
  | _ :: _, [] => rfl
  | x :: xs, y :: ys => by
    simp only [cmpBytes]
    by_cases h1 : x < y
    · have h2 : ¬ y < x := by
        intro h; exact absurd (UInt8.lt_trans h1 h) (UInt8.lt_irrefl x)
      simp [h1, h2]
    · by_cases h2 : y < x
      · simp [h1, h2]
      · simp [h1, h2, cmpBytes_swap xs ys]

theorem cmpBytes_eq : ∀ (a b : Bytes), cmpBytes a b = .eq → a = b
  | [], [], _ => rfl
  | [], _ :: _, h => by simp [cmpBytes] at h
  | _ :: _, [], h => by simp [cmpBytes] at h
  | x :: xs, y :: ys, h => by
    simp only [cmpBytes] at h
    by_cases h1 : x < y
    · simp [h1] at h
    · by_cases h2 : y < x
      · simp [h1, h2] at h
      · simp only [h1, h2, if_false] at h
        have : x = y := by
          have := UInt8.le_antisymm (UInt8.not_lt.1 h2) (UInt8.not_lt.1 h1)
          exact this
        rw [this, cmpBytes_eq xs ys h]

theorem cmpBytes_lt_trans : ∀ (a b c : Bytes), cmpBytes a b = .lt → cmpBytes b c = .lt → cmpBytes a c = .lt
  | [], [], _, h, _ => by simp [cmpBytes] at h
  | [], _ :: _, [], _, h => by simp [cmpBytes] at h
  | [], _ :: _, _ :: _, _, _ => rfl
  | _ :: _, [], _, h, _ => by simp [cmpBytes] at h
  | _ :: _, _ :: _, [], _, h => by simp [cmpBytes] at h
  | x :: xs, y :: ys, z :: zs, h1, h2 => by
    simp only [cmpBytes] at h1 h2 ⊢
    by_cases hxy : x < y
    · by_cases hyz : y < z
      · simp [UInt8.lt_trans hxy hyz]
      · by_cases hzy : z < y
        · simp [hyz, hzy] at h2
        · have : y = z := UInt8.le_antisymm (UInt8.not_lt.1 hzy) (UInt8.not_lt.1 hyz)
          subst this
          simp [hxy]
    · by_cases hyx : y < x
      · simp [hxy, hyx] at h1
      · have : x = y := UInt8.le_antisymm (UInt8.not_lt.1 hyx) (UInt8.not_lt.1 hxy)
        subst this
        simp only [hxy, if_false] at h1
        by_cases hyz : x < z
        · simp [hyz]
        · by_cases hzy : z < x
          · simp [hyz, hzy] at h2
          · simp only [hyz, hzy, if_false] at h2 ⊢
            exact cmpBytes_lt_trans xs ys zs h1 h2

/-! ### every type -/

theorem cmp_swap (t : BaseTy) (a b : Bytes) : t.cmp b a = (t.cmp a b).swap := by
  cases t <;> simp only [BaseTy.cmp] <;> first | exact cmpBytes_swap a b | exact Std.OrientedOrd.eq_swap

theorem cmp_lt_trans (t : BaseTy) (a b c : Bytes) (h1 : t.cmp a b = .lt) (h2 : t.cmp b c = .lt) : t.cmp a c = .lt := by
  cases t <;> simp only [BaseTy.cmp] at h1 h2 ⊢ <;>
    first
    | exact cmpBytes_lt_trans a b c h1 h2
    | exact Std.TransCmp.lt_trans h1 h2
    | exact Std.TransCmp.lt_trans h2 h1

theorem cmp_eq_left (t : BaseTy) (a b c : Bytes) (h : t.cmp a b = .eq) : t.cmp a c = t.cmp b c := by
  cases t <;> simp only [BaseTy.cmp] at h ⊢ <;>
    first
    | (rw [cmpBytes_eq a b h])
    | (rw [Int.compare_eq_eq.mp h])
    | (rw [Nat.compare_eq_eq.mp h])

theorem cmp_eq_right (t : BaseTy) (a b c : Bytes) (h : t.cmp b c = .eq) : t.cmp a b = t.cmp a c := by
  cases t <;> simp only [BaseTy.cmp] at h ⊢ <;>
    first
    | (rw [cmpBytes_eq b c h])
    | (rw [Int.compare_eq_eq.mp h])
    | (rw [Nat.compare_eq_eq.mp h])

/-! ### keys with the same key leaves -/

theorem cmpPairs_swap (S : Schema) : ∀ (l1 l2 : List (Nat × Bytes)), l1.map Prod.fst = l2.map Prod.fst →
    cmpPairs S l2 l1 = (cmpPairs S l1 l2).swap
  | [], [], _ => rfl
  | [], _ :: _, h => by simp at h
  | _ :: _, [], h => by simp at h
  | a :: as, b :: bs, h => by
    simp only [List.map_cons, List.cons.injEq] at h
    simp only [cmpPairs, ← h.1, cmp_swap (S.ty a.1) a.2 b.2]
    cases (S.ty a.1).cmp a.2 b.2 with
    | lt => rfl
    | gt => rfl
    | eq => exact cmpPairs_swap S as bs h.2

theorem cmpPairs_lt_trans (S : Schema) : ∀ (l1 l2 l3 : List (Nat × Bytes)), l1.map Prod.fst = l2.map Prod.fst →
    l2.map Prod.fst = l3.map Prod.fst → cmpPairs S l1 l2 = .lt → cmpPairs S l2 l3 = .lt → cmpPairs S l1 l3 = .lt
  | [], [], _, _, _, h, _ => by simp [cmpPairs] at h
  | [], _ :: _, _, h, _, _, _ => by simp at h
  | _ :: _, [], _, h, _, _, _ => by simp at h
  | _ :: _, _ :: _, [], _, h, _, _ => by simp at h
  | a :: as, b :: bs, c :: cs, h12, h23, h1, h2 => by
    simp only [List.map_cons, List.cons.injEq] at h12 h23
    simp only [cmpPairs, ← h12.1] at h1 h2 ⊢
    cases hab : (S.ty a.1).cmp a.2 b.2 with
    | gt => simp [hab] at h1
    | lt =>
      cases hbc : (S.ty a.1).cmp b.2 c.2 with
      | gt => simp [hbc] at h2
      | lt => simp [cmp_lt_trans _ _ _ _ hab hbc]
      | eq => simp [← cmp_eq_right _ a.2 b.2 c.2 hbc, hab]
    | eq =>
      simp only [hab] at h1
      rw [cmp_eq_left _ a.2 b.2 c.2 hab]
      cases hbc : (S.ty a.1).cmp b.2 c.2 with
      | gt => simp [hbc] at h2
      | lt => rfl
      | eq =>
        simp only [hbc] at h2
        exact cmpPairs_lt_trans S as bs cs h12.2 h23.2 h1 h2

/-- keys of one schema node have the same key leaves -/
def AlignedOn (P : Key → Prop) : Prop := ∀ k1 k2, P k1 → P k2 → k1.1 = k2.1 → k1.2.map Prod.fst = k2.2.map Prod.fst

theorem kltK_asymm_on (S : Schema) (P : Key → Prop) (hal : AlignedOn P) : KAsymOn S P := by
  intro k1 k2 h1 h2 hk
  unfold kltK at hk ⊢
  simp only [Bool.or_eq_true, decide_eq_true_eq, Bool.and_eq_true, beq_iff_eq] at hk
  rcases hk with hk | ⟨⟨hs, _⟩, hc⟩
  · have h3 : ¬ k2.1 < k1.1 := by omega
    have h4 : (k2.1 == k1.1) = false := by simp; omega
    simp [h3, h4]
  · have h3 : ¬ k2.1 < k1.1 := by omega
    have := cmpPairs_swap S k1.2 k2.2 (hal k1 k2 h1 h2 hs)
    rw [hc] at this
    simp [h3, this]

theorem kltK_trans_on (S : Schema) (P : Key → Prop) (hal : AlignedOn P) (k1 k2 k3 : Key) (h1 : P k1) (h2 : P k2)
    (h3 : P k3) (h12 : kltK S k1 k2 = true) (h23 : kltK S k2 k3 = true) : kltK S k1 k3 = true := by
  unfold kltK at h12 h23 ⊢
  simp only [Bool.or_eq_true, decide_eq_true_eq, Bool.and_eq_true, beq_iff_eq] at h12 h23 ⊢
  rcases h12 with h12 | ⟨⟨hs12, hso⟩, hc12⟩
  · rcases h23 with h23 | ⟨⟨hs23, _⟩, _⟩
    · left; omega
    · left; omega
  · rcases h23 with h23 | ⟨⟨hs23, _⟩, hc23⟩
    · left; omega
    · right
      refine ⟨⟨by omega, hso⟩, ?_⟩
      exact cmpPairs_lt_trans S k1.2 k2.2 k3.2 (hal k1 k2 h1 h2 hs12) (hal k2 k3 h2 h3 hs23) hc12 hc23

/-! ### the nodes of two well-formed trees -/

theorem subnodes_self (n : DNode) : n ∈ subnodes n := by cases n <;> simp [subnodes]

theorem mem_subnodesL : ∀ (F : List DNode) (x : DNode), x ∈ subnodesL F ↔ ∃ r ∈ F, x ∈ subnodes r
  | [], x => by simp [subnodesL]
  | n :: ns, x => by simp [subnodesL, mem_subnodesL ns x]

theorem subnodes_inner (s : Nat) (f : Flags) (m : List Meta) (ks : List DNode) (x : DNode) :
    x ∈ subnodes (.inner s f m ks) ↔ x = .inner s f m ks ∨ ∃ c ∈ ks, x ∈ subnodes c := by
  simp [subnodes, mem_subnodesL]

/-- descendants are closed under children -/
theorem subnodes_kids : ∀ (n : Nat) (r x c : DNode), r.height ≤ n → x ∈ subnodes r → c ∈ x.kids → c ∈ subnodes r
  | 0, r, _, _, h, _, _ => by have := height_pos r; omega
  | n + 1, r, x, c, h, hx, hc => by
    cases r with
    | term s f m v =>
      simp only [subnodes, List.mem_singleton] at hx
      subst hx
      simp [DNode.kids] at hc
    | inner s f m ks =>
      rcases (subnodes_inner s f m ks x).1 hx with hx | ⟨k, hk, hxk⟩
      · subst hx
        exact (subnodes_inner s f m ks c).2 (Or.inr ⟨c, hc, subnodes_self c⟩)
      · have hh : k.height ≤ n := by
          have := heightL_mem ks k hk
          simp only [DNode.height] at h
          omega
        exact (subnodes_inner s f m ks c).2 (Or.inr ⟨k, hk, subnodes_kids n k x c hh hxk hc⟩)

theorem subnodes_wf (S : Schema) : ∀ (n : Nat) (r x : DNode), r.height ≤ n → wfNode S r = true → x ∈ subnodes r →
    wfNode S x = true
  | 0, r, _, h, _, _ => by have := height_pos r; omega
  | n + 1, r, x, h, hw, hx => by
    cases r with
    | term s f m v =>
      simp only [subnodes, List.mem_singleton] at hx
      subst hx; exact hw
    | inner s f m ks =>
      rcases (subnodes_inner s f m ks x).1 hx with hx | ⟨k, hk, hxk⟩
      · subst hx; exact hw
      · have hh : k.height ≤ n := by
          have := heightL_mem ks k hk
          simp only [DNode.height] at h
          omega
        exact subnodes_wf S n k x hh (wfL_mem S ks k (wfNode_inner S s f m ks hw).kids hk) hxk

theorem mem_subnodesL_wf (S : Schema) (F : List DNode) (hw : wfL S F = true) (x : DNode) (hx : x ∈ subnodesL F) :
    wfNode S x = true := by
  obtain ⟨r, hr, hxr⟩ := (mem_subnodesL F x).1 hx
  exact subnodes_wf S r.height r x (Nat.le_refl _) (wfL_mem S F r hw hr) hxr

theorem mem_subnodesL_kids (F : List DNode) (x c : DNode) (hx : x ∈ subnodesL F) (hc : c ∈ x.kids) : c ∈ subnodesL F := by
  obtain ⟨r, hr, hxr⟩ := (mem_subnodesL F x).1 hx
  exact (mem_subnodesL F c).2 ⟨r, hr, subnodes_kids r.height r x c (Nat.le_refl _) hxr hc⟩

theorem keyPairs_fst (l : List DNode) : (keyPairs l).map Prod.fst = l.map (·.sid) := by
  simp [keyPairs, List.map_map, Function.comp_def]

/-- the keys of well-formed nodes of one schema node have the same key leaves -/
theorem kkey_aligned (S : Schema) (x y : DNode) (hx : wfNode S x = true) (hy : wfNode S y = true)
    (hs : (kkey S x).1 = (kkey S y).1) : (kkey S x).2.map Prod.fst = (kkey S y).2.map Prod.fst := by
  have hsid : x.sid = y.sid := hs
  unfold kkey
  simp only [← hsid]
  by_cases hll : S.isKind x.sid .leaflist = true
  · simp [hll]
  · by_cases hl : S.isKind x.sid .list = true
    · simp only [hll, hl, Bool.false_eq_true, if_false, if_true, keyPairs_fst]
      have hin : S.isInner x.sid = true := by simp [Schema.isInner, hl]
      obtain ⟨fx, mx, kx, ex⟩ := inner_of_shape S x (wfNode_shape S x hx) hin
      obtain ⟨fy, my, ky, ey⟩ := inner_of_shape S y (wfNode_shape S y hy) (by rw [← hsid]; exact hin)
      rw [ex] at hx ⊢
      rw [ey] at hy ⊢
      have h1 := (wfNode_inner S _ _ _ _ hx).keysSids hl
      have h2 := (wfNode_inner S _ _ _ _ hy).keysSids (by rw [← hsid]; exact hl)
      simp only [DNode.kids]
      rw [h1, h2, hsid]
    · simp [hll, hl]

theorem cmpInst_eq_cmpPairs (S : Schema) (x y : DNode) (hx : shapeOk S x = true) (hs : x.sid = y.sid)
    (hso : S.isSorted x.sid = true) : cmpInst S x y = cmpPairs S (kkey S x).2 (kkey S y).2 := by
  unfold kkey
  rcases isSorted_cases S x.sid hso with ⟨hll, ht⟩ | ⟨hl, hnll, ht⟩
  · have hxt : x.isTerm = true := by simpa [shapeOk, ht] using hx
    simp only [cmpInst, hxt, ← hs, hll, if_true, cmpPairs]
    cases (S.ty x.sid).cmp x.val y.val <;> rfl
  · have hxt : x.isTerm = false := by simpa [shapeOk, ht] using hx
    simp [cmpInst, hxt, ← hs, hl, hnll, cmpKeys_eq_cmpPairs]

/-- a node of the fragment that is not kept sorted is a leaf or a container: its key is its schema node -/
theorem kkey_of_unsorted (S : Schema) (x : DNode) (hp : plainSid S x.sid = true) (hso : S.isSorted x.sid = false) :
    kkey S x = (x.sid, []) := by
  unfold plainSid Schema.isUserOrd Schema.isDupInst at hp
  unfold Schema.isSorted at hso
  unfold kkey Schema.isKind Schema.kind?
  cases hg : S.get? x.sid with
  | none => simp
  | some n =>
    simp only [hg, Bool.and_eq_true, Bool.not_eq_true', Bool.or_eq_true, Bool.or_eq_false_iff, beq_iff_eq,
      Bool.and_eq_false_imp] at hp hso
    simp only [Option.map_some]
    by_cases hll : n.kind = .leaflist
    · exfalso
      have h1 := hp.1.1
      simp [hll] at h1 hso
      simp_all
    · by_cases hl : n.kind = .list
      · exfalso
        have h1 := hp.1.1
        have h2 := hp.1.2
        simp [hl] at h1 h2 hso
        simp_all
      · simp [hll, hl]

/-- **the order hypotheses hold** for the nodes of well-formed trees whose sorted keys the order distinguishes -/
theorem ordHyp_of_wf (S : Schema) (F : List DNode) (hw : wfL S F = true) (hd : KeysDistinguished S F) :
    OrdHyp S (· ∈ subnodesL F) := by
  have hal : AlignedOn (fun k => ∃ x, x ∈ subnodesL F ∧ kkey S x = k) := by
    rintro k1 k2 ⟨x, hx, rfl⟩ ⟨y, hy, rfl⟩ hs
    exact kkey_aligned S x y (mem_subnodesL_wf S F hw x hx) (mem_subnodesL_wf S F hw y hy) hs
  refine ⟨kltK_asymm_on S _ hal, ?_, ?_, fun x hx c hc => mem_subnodesL_kids F x c hx hc⟩
  · intro x y z hx hy hz
    exact kltK_trans_on S _ hal _ _ _ ⟨x, hx, rfl⟩ ⟨y, hy, rfl⟩ ⟨z, hz, rfl⟩
  · intro x y hx hy hne
    have hwx := mem_subnodesL_wf S F hw x hx
    have hwy := mem_subnodesL_wf S F hw y hy
    have hsx := wfNode_shape S x hwx
    have hsy := wfNode_shape S y hwy
    by_cases h1 : x.sid < y.sid
    · left; simp [kltK, kkey, h1]
    · by_cases h2 : y.sid < x.sid
      · right; simp [kltK, kkey, h2]
      · have hs : x.sid = y.sid := by omega
        cases hso : S.isSorted x.sid with
        | false =>
          exfalso
          apply hne
          rw [kkey_of_unsorted S x (wfNode_plain S x hwx) hso,
            kkey_of_unsorted S y (wfNode_plain S y hwy) (by rw [← hs]; exact hso), hs]
        | true =>
          have hci := cmpInst_eq_cmpPairs S x y hsx hs hso
          cases hc : cmpPairs S (kkey S x).2 (kkey S y).2 with
          | lt =>
            left
            unfold kltK
            have : (kkey S x).1 = (kkey S y).1 := hs
            have hso' : S.isSorted (kkey S y).1 = true := by show S.isSorted y.sid = true; rw [← hs]; exact hso
            simp [this, hso', hc]
          | gt =>
            right
            have hsw := cmpPairs_swap S (kkey S x).2 (kkey S y).2 (kkey_aligned S x y hwx hwy hs)
            rw [hc] at hsw
            unfold kltK
            have : (kkey S y).1 = (kkey S x).1 := hs.symm
            have hso' : S.isSorted (kkey S x).1 = true := hso
            simp [this, hso', hsw]
          | eq =>
            exfalso
            apply hne
            obtain ⟨e1, e2⟩ := hd x y hx hy hs hso (by rw [hci, hc])
            unfold kkey
            rw [e1, e2, hs]

/-- `apply_diff_fragment` with the order hypotheses discharged -/
theorem apply_diff_wf (S : Schema) (fx : Fixes) (A B : List DNode) (hA : wfForest S A = true)
    (hB : wfForest S B = true) (hk : KeysDistinguished S (A ++ B)) :
    ∃ B', apply S A (diffFromPtr S true A B fx) fx = .ok B' ∧ normL S B' = normL S B := by
  have hw : wfL S (A ++ B) = true := by
    simp only [wfForest, Bool.and_eq_true] at hA hB
    apply wfL_of_forall
    intro x hx
    rcases List.mem_append.1 hx with hx | hx
    · exact wfL_mem S A x hA.1.1 hx
    · exact wfL_mem S B x hB.1.1 hx
  apply apply_diff_fragment S fx _ (ordHyp_of_wf S (A ++ B) hw hk) A B hA hB
  intro x hx
  exact (mem_subnodesL (A ++ B) x).2 ⟨x, hx, subnodes_self x⟩

/-- `diffSiblings_self` at the top level -/
theorem diffFull_self (S : Schema) (defaults : Bool) (A : List DNode) (h : wfForest S A = true) :
    diffFull S defaults A A = ([], 0) := by
  simp only [wfForest, Bool.and_eq_true] at h
  unfold diffFull
  rw [diffSiblings_self S defaults _ true A h.1.1 h.1.2]
  simp

end LyModel.Diff
