import LyModel.Diff.Lemmas13Apply
/-!
# C13 helper lemmas: normal forms, created subtrees

* `normN` — a node without metadata, `LYD_NEW`, `LYD_WHEN_TRUE` and the flags of inner nodes: `dataEq true x y ↔ normN x = normN y`
  (what `lyd_compare_siblings(…, FULL_RECURSION | DEFAULTS)` observes); order (`nlt`), instance matching (`matchP`) and goodness
  do not depend on what `normN` removes;
* `mkCreated d` — the subtree `lyd_diff_apply_r` builds for a `create` node with a plain good subtree (`apply_create`);
* `normL_eq_of_look` — two good sibling lists with the same lookups (up to `normN`) are equal up to `normN`.
-/
set_option linter.unusedSimpArgs false
namespace LyModel.Diff
open LyModel LyModel.Tree

mutual
def normN : DNode → DNode
  | .inner s _ _ ks => .inner s {} [] (normL13 ks)
  | .term s f _ v => .term s { dflt := f.dflt } [] v
def normL13 : List DNode → List DNode
  | [] => []
  | x :: xs => normN x :: normL13 xs
end

mutual
theorem dataEq_iff_norm : ∀ x y, dataEq true x y = true ↔ normN x = normN y
  | .inner s f m k, .inner s' f' m' k' => by
    simp only [dataEq, normN, Bool.and_eq_true, beq_iff_eq, DNode.inner.injEq, true_and, and_true]
    rw [dataEqL_iff_norm k k']
  | .term s f m v, .term s' f' m' v' => by
    simp [dataEq, normN]
    constructor
    · rintro ⟨⟨a, b⟩, c⟩
      exact ⟨a, c, b⟩
    · rintro ⟨a, c, b⟩
      exact ⟨⟨a, b⟩, c⟩
  | .inner .., .term .. => by simp [dataEq, normN]
  | .term .., .inner .. => by simp [dataEq, normN]
theorem dataEqL_iff_norm : ∀ l l', dataEqL true l l' = true ↔ normL13 l = normL13 l'
  | [], [] => by simp [dataEqL, normL13]
  | a :: as, b :: bs => by
    simp only [dataEqL, normL13, Bool.and_eq_true, List.cons.injEq]
    rw [dataEq_iff_norm a b, dataEqL_iff_norm as bs]
  | [], _ :: _ => by simp [dataEqL, normL13]
  | _ :: _, [] => by simp [dataEqL, normL13]
end

theorem normL_eq_map13 : ∀ l, normL13 l = l.map normN
  | [] => rfl
  | x :: xs => by simp [normL13, normL_eq_map13 xs]

@[simp] theorem sid_normN (x : DNode) : (normN x).sid = x.sid := by cases x <;> rfl
@[simp] theorem val_normN (x : DNode) : (normN x).val = x.val := by cases x <;> rfl
@[simp] theorem isTerm_normN (x : DNode) : (normN x).isTerm = x.isTerm := by cases x <;> rfl
@[simp] theorem kids_normN (x : DNode) : (normN x).kids = normL13 x.kids := by cases x <;> rfl

mutual
theorem normN_idem : ∀ x, normN (normN x) = normN x
  | .inner s f m ks => by simp [normN, normL_idem ks]
  | .term s f m v => by simp [normN]
theorem normL_idem : ∀ l, normL13 (normL13 l) = normL13 l
  | [] => rfl
  | x :: xs => by simp [normL13, normN_idem x, normL_idem xs]
end

theorem normL_append13 (a b : List DNode) : normL13 (a ++ b) = normL13 a ++ normL13 b := by
  simp [normL_eq_map13]

/-! ### what does not depend on the removed parts -/

theorem takeWhile_normL (p : Nat → Bool) : ∀ l : List DNode,
    (normL13 l).takeWhile (fun c => p c.sid) = normL13 (l.takeWhile (fun c => p c.sid))
  | [] => rfl
  | x :: xs => by
    simp only [normL13, List.takeWhile_cons, sid_normN]
    split
    · simp [normL13, takeWhile_normL p xs]
    · rfl

theorem dropWhile_normL (p : Nat → Bool) : ∀ l : List DNode,
    (normL13 l).dropWhile (fun c => p c.sid) = normL13 (l.dropWhile (fun c => p c.sid))
  | [] => rfl
  | x :: xs => by
    simp only [normL13, List.dropWhile_cons, sid_normN]
    split
    · exact dropWhile_normL p xs
    · simp [normL13]

theorem keysOf_normL (S : Schema) (l : List DNode) : keysOf S (normL13 l) = normL13 (keysOf S l) :=
  takeWhile_normL (fun s => S.isKey s) l

theorem noKeys_normL (S : Schema) (l : List DNode) : noKeys S (normL13 l) = normL13 (noKeys S l) :=
  dropWhile_normL (fun s => S.isKey s) l

theorem cmpKeys_normL (S : Schema) : ∀ a b : List DNode, cmpKeys S (normL13 a) (normL13 b) = cmpKeys S a b
  | [], _ => by simp [normL13, cmpKeys]
  | _ :: _, [] => by simp [normL13, cmpKeys]
  | x :: xs, y :: ys => by
    simp only [normL13, cmpKeys, sid_normN, val_normN]
    rw [cmpKeys_normL S xs ys]

theorem keysEq_normL : ∀ a b : List DNode, keysEq (normL13 a) (normL13 b) = keysEq a b
  | [], [] => rfl
  | [], _ :: _ => rfl
  | _ :: _, [] => rfl
  | x :: xs, y :: ys => by
    simp only [normL13, keysEq, sid_normN, val_normN]
    rw [keysEq_normL xs ys]

theorem cmpInst_normN (S : Schema) (x y : DNode) : cmpInst S (normN x) (normN y) = cmpInst S x y := by
  simp only [cmpInst, isTerm_normN, sid_normN, val_normN, kids_normN, keysOf_normL, cmpKeys_normL]

theorem sameInst_normN (S : Schema) (x y : DNode) : sameInst S (normN x) (normN y) = sameInst S x y := by
  simp only [sameInst, sid_normN, val_normN, kids_normN, keysOf_normL, keysEq_normL]

theorem nlt_normN (S : Schema) (x y : DNode) : nlt S (normN x) (normN y) = nlt S x y := by
  simp only [nlt, sid_normN, cmpInst_normN]

theorem domB_normN (S : Schema) (x : DNode) : domB S (normN x) = domB S x := by
  simp only [domB, sid_normN, isTerm_normN]

/-- for instances of the fragment (no duplicate-instance lists) matching is by keys / value -/
theorem matchP_normN {S : Schema} {d x : DNode} (hd : S.isDupInst d.sid = false) :
    matchP S (normN d) (normN x) = matchP S d x := by
  simp only [matchP, sid_normN, instMatch, hd, sameInst_normN]
  simp

theorem nlt_congr_norm {S : Schema} {x x' y y' : DNode} (hx : normN x = normN x') (hy : normN y = normN y') :
    nlt S x y = nlt S x' y' := by
  rw [← nlt_normN S x y, ← nlt_normN S x' y', hx, hy]

theorem matchP_congr_norm {S : Schema} {d d' x x' : DNode} (hd : S.isDupInst d.sid = false)
    (hdd : normN d = normN d') (hx : normN x = normN x') : matchP S d x = matchP S d' x' := by
  have hs : d'.sid = d.sid := by
    have := congrArg DNode.sid hdd
    simpa using this.symm
  have hd' : S.isDupInst d'.sid = false := by rw [hs]; exact hd
  have h1 := matchP_normN (x := x) hd
  have h2 := matchP_normN (x := x') hd'
  rw [← h1, ← h2, hdd, hx]

theorem keysLead_normL (S : Schema) (l : List DNode) : keysLead S (normL13 l) = keysLead S l := by
  simp only [keysLead, noKeys_normL]
  rw [normL_eq_map13, List.all_map]
  apply List.all_congr rfl
  intro y
  simp

mutual
theorem goodN_normN (S : Schema) : ∀ x, goodN S (normN x) = goodN S x
  | .inner s f m ks => by
    simp only [normN, goodN, goodL_normL S ks, keysLead_normL]
    rfl
  | .term s f m v => by
    simp only [normN, goodN]
    rfl
theorem goodL_normL (S : Schema) : ∀ l, goodL S (normL13 l) = goodL S l
  | [] => rfl
  | x :: xs => by
    simp only [normL13, goodL, goodN_normN S x, goodL_normL S xs]
    congr 2
    rw [normL_eq_map13, List.all_map]
    apply List.all_congr rfl
    intro y
    exact nlt_normN S x y
end

theorem goodT_normL (S : Schema) (l : List DNode) : goodT S (normL13 l) = goodT S l := by
  simp only [goodT, goodL_normL, keysLead_normL]

theorem goodT_congr_norm {S : Schema} {l l' : List DNode} (h : normL13 l = normL13 l') : goodT S l = goodT S l' := by
  rw [← goodT_normL S l, ← goodT_normL S l', h]

theorem goodN_congr_norm {S : Schema} {x x' : DNode} (h : normN x = normN x') : goodN S x = goodN S x' := by
  rw [← goodN_normN S x, ← goodN_normN S x', h]

theorem goodL_congr_norm {S : Schema} {l l' : List DNode} (h : normL13 l = normL13 l') : goodL S l = goodL S l' := by
  rw [← goodL_normL S l, ← goodL_normL S l', h]

end LyModel.Diff

namespace LyModel.Diff
open LyModel LyModel.Tree

/-! ## instance matching on the carrier -/

theorem matchP_refl {S : Schema} (K : KeyOrder S) {x : DNode} (hx : Dom S x) : matchP S x x = true :=
  (ordOf S K).same_refl hx

theorem matchP_symm {S : Schema} (K : KeyOrder S) {x y : DNode} (hx : Dom S x) (hy : Dom S y) :
    matchP S x y = matchP S y x := by
  cases h : matchP S x y
  · cases h2 : matchP S y x
    · rfl
    · have h3 : matchP S x y = true := (ordOf S K).same_symm hy hx h2
      rw [h3] at h
      exact absurd h (by decide)
  · have h3 : matchP S y x = true := (ordOf S K).same_symm hx hy h
    exact h3.symm

/-- probes see the same thing in two versions of one instance -/
theorem matchP_right_congr {S : Schema} (K : KeyOrder S) {q c x : DNode} (hq : Dom S q) (hc : Dom S c) (hx : Dom S x)
    (h : matchP S c x = true) : matchP S q x = matchP S q c := by
  cases h1 : matchP S q c
  · cases h2 : matchP S q x
    · rfl
    · have h3 : matchP S q c = true := (ordOf S K).same_trans hq hx hc h2 ((ordOf S K).same_symm hc hx h)
      rw [h1] at h3
      exact absurd h3 (by decide)
  · have h3 : matchP S q x = true := (ordOf S K).same_trans hq hc hx h1 h
    exact h3

theorem matchP_left_congr {S : Schema} (K : KeyOrder S) {q c x : DNode} (hq : Dom S q) (hc : Dom S c) (hx : Dom S x)
    (h : matchP S c x = true) : matchP S x q = matchP S c q := by
  rw [matchP_symm K hx hq, matchP_symm K hc hq]
  exact matchP_right_congr K hq hc hx h

theorem look_congr {S : Schema} (K : KeyOrder S) {l : List DNode} (hg : goodL S l = true) {p q : DNode} (hp : Dom S p)
    (hq : Dom S q) (h : matchP S p q = true) : look S l p = look S l q :=
  (ordOf S K).find?_congr (goodL_allDom K hg) hp hq h

theorem look_self {S : Schema} (K : KeyOrder S) {l : List DNode} (hg : goodL S l = true) {x : DNode} (hx : x ∈ l) :
    look S l x = some x := by
  obtain ⟨i, hi, hix⟩ := List.getElem_of_mem hx
  have hget : l[i]? = some x := by simp [hi, hix]
  have hxd := goodL_allDom K hg x hx
  exact ((ordOf S K).find?_same_unique (goodL_allDom K hg) (goodL_sorted K hg) hxd hget (matchP_refl K hxd)).1

theorem look_mem {S : Schema} {l : List DNode} {q x : DNode} (h : look S l q = some x) : x ∈ l ∧ matchP S q x = true :=
  ⟨List.mem_of_find?_eq_some h, List.find?_some h⟩

/-- two good sibling lists with the same lookups up to `normN` are equal up to `normN` -/
theorem normL_eq_of_look {S : Schema} (K : KeyOrder S) {l₁ l₂ : List DNode} (h₁ : goodL S l₁ = true) (h₂ : goodL S l₂ = true)
    (h : ∀ q, Dom S q → (look S l₁ q).map normN = (look S l₂ q).map normN) : normL13 l₁ = normL13 l₂ := by
  have key : KL.All₂ (fun x y => normN x = normN y) l₁ l₂ := by
    apply (ordOf S K).forall2_of_find? (R := fun x y => normN x = normN y) (goodL_allDom K h₁) (goodL_allDom K h₂) (goodL_sorted K h₁) (goodL_sorted K h₂)
    · intro x hx
      have hxd := goodL_allDom K h₁ x hx
      have := h x hxd
      rw [look_self K h₁ hx] at this
      cases h2 : look S l₂ x with
      | none => simp [h2] at this
      | some y =>
        simp only [h2, Option.map_some, Option.some.injEq] at this
        exact ⟨y, h2, this⟩
    · intro y hy
      have hyd := goodL_allDom K h₂ y hy
      have := h y hyd
      rw [look_self K h₂ hy] at this
      cases h1 : look S l₁ y with
      | none => simp [h1] at this
      | some x =>
        simp only [h1, Option.map_some, Option.some.injEq] at this
        exact ⟨x, h1, this⟩
  clear h h₁ h₂
  induction key with
  | nil => rfl
  | cons hab _ ih => simp [normL13, hab, ih]

/-! ## created subtrees -/

mutual
/-- the subtree `lyd_diff_apply_r` creates from a diff node with a plain good subtree: no metadata, `LYD_NEW` everywhere -/
def mkCreated : DNode → DNode
  | .inner s f _ ks => .inner s { dflt := f.dflt, new := true } [] (mkCreatedL ks)
  | .term s f _ v => .term s { dflt := f.dflt, new := true } [] v
def mkCreatedL : List DNode → List DNode
  | [] => []
  | x :: xs => mkCreated x :: mkCreatedL xs
end

mutual
theorem normN_mkCreated : ∀ x, normN (mkCreated x) = normN x
  | .inner s f m ks => by simp [mkCreated, normN, normL_mkCreatedL ks]
  | .term s f m v => by simp [mkCreated, normN]
theorem normL_mkCreatedL : ∀ l, normL13 (mkCreatedL l) = normL13 l
  | [] => rfl
  | x :: xs => by simp [mkCreatedL, normL13, normN_mkCreated x, normL_mkCreatedL xs]
end

theorem mkCreatedL_append : ∀ a b : List DNode, mkCreatedL (a ++ b) = mkCreatedL a ++ mkCreatedL b
  | [], _ => rfl
  | x :: xs, b => by simp [mkCreatedL, mkCreatedL_append xs b]

theorem mem_mkCreatedL {y : DNode} : ∀ {l : List DNode}, y ∈ mkCreatedL l → ∃ x ∈ l, y = mkCreated x
  | [], h => by cases h
  | x :: xs, h => by
    simp only [mkCreatedL, List.mem_cons] at h
    rcases h with rfl | h
    · exact ⟨x, List.mem_cons_self .., rfl⟩
    · obtain ⟨z, hz, rfl⟩ := mem_mkCreatedL h
      exact ⟨z, List.mem_cons_of_mem _ hz, rfl⟩

@[simp] theorem sid_mkCreated (x : DNode) : (mkCreated x).sid = x.sid := by cases x <;> rfl

theorem goodN_mkCreated (S : Schema) (x : DNode) : goodN S (mkCreated x) = goodN S x :=
  goodN_congr_norm (normN_mkCreated x)

theorem insertNode_at_end {S : Schema} {l : List DNode} {n : DNode} (h : ∀ y ∈ l, nlt S n y = false) :
    insertNode S l n = l ++ [n] := by
  rw [insertNode_eq]
  induction l with
  | nil => rfl
  | cons y ys ih =>
    simp only [KL.insBefore, h y (List.mem_cons_self ..), Bool.false_eq_true, ↓reduceIte, List.cons_append]
    rw [ih (fun z hz => h z (List.mem_cons_of_mem _ hz))]

theorem plainN_ownOp {d : DNode} (h : plainN d = true) : ownOp d = none := by
  cases d <;> simp_all [plainN, ownOp, getMeta, DNode.metas]

theorem plainN_kids {d : DNode} (h : plainN d = true) : plainL d.kids = true := by
  cases d <;> simp_all [plainN, DNode.kids, plainL]

theorem plainL_mem {l : List DNode} (h : plainL l = true) {x : DNode} (hx : x ∈ l) : plainN x = true := by
  induction l with
  | nil => cases hx
  | cons y ys ih =>
    simp only [plainL, Bool.and_eq_true] at h
    rcases List.mem_cons.mp hx with rfl | hx
    · exact h.1
    · exact ih h.2 hx

theorem plainL_of_sub {l l' : List DNode} (h : plainL l' = true) (hs : ∀ x ∈ l, x ∈ l') : plainL l = true := by
  induction l with
  | nil => rfl
  | cons y ys ih =>
    simp only [plainL, Bool.and_eq_true]
    exact ⟨plainL_mem h (hs y (List.mem_cons_self ..)), ih (fun x hx => hs x (List.mem_cons_of_mem _ hx))⟩

theorem childInh_of_effOp_create {inh : Option Op} {d : DNode} (h : effOp d inh = some .create) :
    childInhOf d inh = some .create := by
  unfold effOp at h
  unfold childInhOf
  cases ho : ownOp d with
  | none => simpa [ho] using h
  | some o =>
    simp only [ho, Option.some.injEq] at h
    subst h
    rfl

theorem keysOf_append_noKeys (S : Schema) (ks : List DNode) : keysOf S ks ++ noKeys S ks = ks :=
  List.takeWhile_append_dropWhile

theorem mem_keysOf_isKey {S : Schema} {ks : List DNode} {k : DNode} (h : k ∈ keysOf S ks) : S.isKey k.sid = true := by
  unfold keysOf at h
  induction ks with
  | nil => simp at h
  | cons y ys ih =>
    simp only [List.takeWhile_cons] at h
    split at h
    · rename_i hy
      rcases List.mem_cons.mp h with rfl | h
      · exact hy
      · exact ih h
    · simp at h

/-- the copy `lyd_dup_single` makes of the keys is the created form of the keys -/
theorem dupSingle_kids {S : Schema} (K : KeyOrder S) {d : DNode} (hg : goodN S d = true) :
    (dupSingle S d).kids = mkCreatedL (keysOf S d.kids) := by
  cases d with
  | term s f m v => simp [dupSingle, DNode.kids, keysOf, mkCreatedL]
  | inner s f m ks =>
    simp only [dupSingle, DNode.kids]
    have hk : ∀ k ∈ keysOf S ks, k.isTerm = true := by
      intro k hk
      have hkm : k ∈ ks := (List.takeWhile_sublist _).subset hk
      have hgl : goodL S ks = true := goodN_kids hg
      have hd := goodL_allDom K hgl k hkm
      rw [hd.typed]
      exact K.keyTerm (mem_keysOf_isKey hk)
    generalize keysOf S ks = kk at hk
    induction kk with
    | nil => rfl
    | cons k ks' ih =>
      have h1 := hk k (List.mem_cons_self ..)
      simp only [List.map_cons, mkCreatedL]
      rw [ih (fun x hx => hk x (List.mem_cons_of_mem _ hx))]
      cases k with
      | inner => simp [DNode.isTerm] at h1
      | term s' f' m' v' => rfl

theorem dupSingle_setKids (S : Schema) (d : DNode) : (dupSingle S d).setKids (mkCreatedL d.kids) = mkCreated d := by
  cases d <;> simp [dupSingle, DNode.setKids, mkCreated, DNode.kids]

/-- the loop that creates the children of a created node: every child lands behind the ones created before it -/
theorem applyF_create {S : Schema} (K : KeyOrder S) {n : Nat} {hp : Bool}
    (IH : ∀ c L, c.height ≤ n → plainN c = true → goodN S c = true →
      applyNode S fx n L hp (some .create) c = .ok (insertNode S L (mkCreated c)))
    (rest pre : List DNode) (hg : goodL S (pre ++ rest) = true) (hpl : plainL rest = true) (hh : heightL rest ≤ n) :
    applyF S fx n hp (some .create) rest (mkCreatedL pre) = .ok (mkCreatedL (pre ++ rest)) := by
  induction rest generalizing pre with
  | nil => simp [applyF_nil]
  | cons c cs ih =>
    have hgs := (goodL_iff K).mp hg
    have hc_mem : c ∈ pre ++ c :: cs := by simp
    have hgc : goodN S c = true := hgs.2 c hc_mem
    have hcd := goodN_dom hgc
    simp only [plainL, Bool.and_eq_true] at hpl
    have hhc : c.height ≤ n := Nat.le_trans (height_le_heightL (List.mem_cons_self ..)) hh
    have hhcs : heightL cs ≤ n := Nat.le_trans (Nat.le_max_right ..) hh
    rw [applyF_cons, IH c _ hhc hpl.1 hgc]
    have hend : insertNode S (mkCreatedL pre) (mkCreated c) = mkCreatedL pre ++ [mkCreated c] := by
      apply insertNode_at_end
      intro y hy
      obtain ⟨x, hx, rfl⟩ := mem_mkCreatedL hy
      have hxd := goodL_allDom K hg x (List.mem_append_left _ hx)
      rw [nlt_congr_norm (normN_mkCreated c) (normN_mkCreated x)]
      have hlt : nlt S x c = true := by
        have := hgs.1
        simp only [KL.Ord.Sorted, List.pairwise_append, List.pairwise_cons] at this
        exact this.2.2 x hx c (List.mem_cons_self ..)
      exact (ordOf S K).asymm hxd hcd hlt
    simp only [Except.bind, hend]
    have : mkCreatedL pre ++ [mkCreated c] = mkCreatedL (pre ++ [c]) := by
      simp [mkCreatedL_append, mkCreatedL]
    rw [this, ih (pre ++ [c]) (by simpa using hg) hpl.2 hhcs]
    simp

/-- `create` with a plain good subtree (the operation is inherited): `lyd_insert_node` of the created form -/
theorem apply_create_plain {S : Schema} (K : KeyOrder S) : ∀ (n : Nat) (hp : Bool) (c L : _), c.height ≤ n → plainN c = true →
    goodN S c = true → applyNode S fx n L hp (some .create) c = .ok (insertNode S L (mkCreated c)) := by
  intro n
  induction n with
  | zero =>
    intro hp c L hh
    have := height_pos13 c
    omega
  | succ n ih =>
    intro hp c L hh hpl hg
    have hd := goodN_dom hg
    rw [applyNode_succ_nuo hd.nuo]
    have hop : effOp c (some .create) = some .create := by simp [effOp, plainN_ownOp hpl]
    have hci : childInhOf c (some .create) = some .create := childInh_of_effOp_create hop
    simp only [hop, hci]
    have hkids : heightL c.kids ≤ n := by
      cases c with
      | term => simp [DNode.kids, heightL]
      | inner s f m ks =>
        simp only [DNode.height] at hh
        simp only [DNode.kids]
        omega
    have := applyF_create K (n := n) (hp := true) (fun c' L' h1 h2 h3 => ih true c' L' h1 h2 h3) (noKeys S c.kids)
      (keysOf S c.kids) (by rw [keysOf_append_noKeys]; exact goodN_kids hg)
      (plainL_of_sub (plainN_kids hpl) (fun x hx => (List.dropWhile_sublist _).subset hx))
      (Nat.le_trans (heightL_noKeys_le S c.kids) hkids)
    rw [dupSingle_kids K hg, this, keysOf_append_noKeys]
    simp only [Except.bind, dupSingle_setKids]

end LyModel.Diff
