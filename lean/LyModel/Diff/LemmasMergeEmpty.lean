import LyModel.Diff.LemmasExact
import LyModel.Diff.LemmasCancel
import LyModel.Diff.LemmasSorted
/-!
# Merging a computed diff into the empty diff (C13, the triples `A → A → C` of `merge_apply`)

`lyd_diff_merge_all(&diff, D)` with `diff == NULL` (how a caller starts accumulating diffs): no source node finds a target, each
is copied with its operation made explicit (`changeOp`: the `yang:operation` metadata moves to the end) and lands behind the
copies made before (the diff is ordered by schema node); for a computed diff nothing is redundant.  Applying the result is
applying `D`: `lyd_diff_apply_r` reads the metadata by name.  No hypothesis on the `sort` callbacks.
Core Lean only.
-/
set_option linter.unusedSimpArgs false
namespace LyModel.Diff
open LyModel LyModel.Tree

/-! ### `lyd_diff_apply_r` does not depend on where `yang:operation` stands among the metadata -/

theorem fullEq_setMetas_right (x d : DNode) (m : List Meta) : fullEq x (d.setMetas m) = fullEq x d := by
  cases x <;> cases d <;> rfl

theorem instMatch_changeOp (S : Schema) (d x : DNode) (op : Op) : instMatch S (changeOp d op) x = instMatch S d x := by
  unfold instMatch
  simp only [sid_changeOp]
  congr 1
  · exact fullEq_setMetas_right x d _
  · simp [sameInst]

theorem findForApply_changeOp (S : Schema) (L : List DNode) (d : DNode) (op : Op) :
    findForApply S L (changeOp d op) = findForApply S L d := by
  unfold findForApply
  simp only [sid_changeOp, instMatch_changeOp]

theorem dupSingle_changeOp (S : Schema) (d : DNode) (op : Op) : dupSingle S (changeOp d op) = dupSingle S d := by
  cases d <;> rfl

theorem childInh_changeOp {d : DNode} {inh : Option Op} {op : Op} (hm : MetaOK d) (hop : effOp d inh = some op) :
    childInhOf (changeOp d op) inh = childInhOf d inh := by
  unfold childInhOf
  rw [ownOp_changeOp hm op]
  unfold effOp at hop
  cases ho : ownOp d with
  | some o =>
    simp only [ho, Option.some.injEq] at hop
    subst hop
    rfl
  | none =>
    simp only [ho] at hop
    subst hop
    cases op <;> rfl

theorem anchorMetaName_ne (S : Schema) (sid : Nat) : anchorMetaName S sid ≠ "operation" := by
  unfold anchorMetaName
  split
  · decide
  · split <;> decide

section changeOp
variable {S : Schema} {fx : Fixes} {recur : Recur} {d : DNode} {inh : Option Op} {op : Op}
  (hm : MetaOK d) (hop : effOp d inh = some op)
include hm hop

theorem applyKids_changeOp (kids : List DNode) :
    applyKids S fx recur (changeOp d op) inh kids = applyKids S fx recur d inh kids := by
  unfold applyKids
  simp only [effOp_changeOp hm op, hop, sid_changeOp, kids_changeOp, childInh_changeOp hm hop]

theorem applyStep_changeOp (L : List DNode) (hp : Bool) :
    applyStep S fx recur L hp inh (changeOp d op) = applyStep S fx recur L hp inh d := by
  unfold applyStep
  simp only [effOp_changeOp hm op, hop, sid_changeOp]
  split
  · unfold applyUO
    simp only [findForApply_changeOp, sid_changeOp, flags_changeOp, dupSingle_changeOp,
      getMeta_changeOp_ne (anchorMetaName_ne S d.sid), applyKids_changeOp hm hop]
  · cases op with
    | none =>
      unfold applyNone
      simp only [findForApply_changeOp, flags_changeOp, kids_changeOp, applyKids_changeOp hm hop]
    | create =>
      unfold applyCreate
      simp only [dupSingle_changeOp, applyKids_changeOp hm hop]
    | delete =>
      unfold applyDelete
      simp only [findForApply_changeOp]
    | replace =>
      unfold applyReplace
      simp only [findForApply_changeOp, sid_changeOp, val_changeOp, flags_changeOp]

end changeOp

theorem foldlM_congr_mem {α β ε : Type} (f g : β → α → Except ε β) : ∀ (l : List α) (b : β),
    (∀ a ∈ l, ∀ b, f b a = g b a) → l.foldlM f b = l.foldlM g b
  | [], _, _ => rfl
  | a :: l, b, h => by
    simp only [List.foldlM_cons, h a (by simp) b]
    cases g b a with
    | error e => rfl
    | ok b' => exact foldlM_congr_mem f g l b' (fun x hx => h x (by simp [hx]))

/-- the copy of a diff node with the operation made explicit -/
def cop (c : DNode) : DNode := changeOp c ((effOp c none).getD .none)

theorem heightL_map_cop : ∀ D : List DNode, heightL (D.map cop) = heightL D
  | [] => rfl
  | c :: cs => by simp [heightL, cop, height_changeOp, heightL_map_cop cs]

/-- applying the copies is applying the diff -/
theorem apply_map_cop (S : Schema) (fx : Fixes) (A D : List DNode)
    (h : ∀ c ∈ D, MetaOK c ∧ (effOp c none).isSome = true) : apply S A (D.map cop) fx = apply S A D fx := by
  unfold apply
  rw [heightL_map_cop, List.foldlM_map]
  apply foldlM_congr_mem
  intro c hc L
  obtain ⟨hm, hs⟩ := h c hc
  obtain ⟨op, hop⟩ := Option.isSome_iff_exists.1 hs
  show applyStep S fx _ L false none (cop c) = applyStep S fx _ L false none c
  unfold cop
  rw [hop]
  exact applyStep_changeOp hm hop L false

end LyModel.Diff

namespace LyModel.Diff
open LyModel LyModel.Tree

/-! ### the merge: every source node is added behind the ones before -/

theorem insertBySchema_end (n : DNode) : ∀ (l : List DNode), (∀ x ∈ l, x.sid ≤ n.sid) → insertBySchema n l = l ++ [n]
  | [], _ => rfl
  | x :: xs, h => by
    have hx : ¬ n.sid < x.sid := by have := h x (by simp); omega
    simp only [insertBySchema, hx, if_false, List.cons_append, List.cons.injEq, true_and]
    exact insertBySchema_end n xs (fun y hy => h y (by simp [hy]))

theorem findForApply_none (S : Schema) (T : List DNode) (src : DNode) (h : ∀ t ∈ T, matchP S src t = false) :
    findForApply S T src = none := by
  rw [findForApply_eq13, List.findIdx?_eq_none_iff]
  intro t ht
  rw [h t ht]

theorem mergeStep_add (S : Schema) (o : MergeOpts) (cur sin : Option Op) (src : DNode) (T : List DNode) (sop : Op)
    (kidsK : Option Op → Option Op → List DNode → Except DiffErr (List DNode))
    (hsop : effOp src sin = some sop) (hf : ∀ t ∈ T, matchP S src t = false)
    (hred : isRedundant S cur (changeOp src sop) = (changeOp src sop, false)) (hs : ∀ t ∈ T, t.sid ≤ src.sid) :
    mergeStep S o cur sin src T kidsK = .ok (T ++ [changeOp src sop]) := by
  unfold mergeStep
  simp only [hsop, findForApply_none S T src hf, hred, Bool.false_eq_true, if_false]
  rw [insertBySchema_end _ T (by simpa using hs)]

theorem mergeKids_into (S : Schema) (o : MergeOpts) : ∀ (D T : List DNode),
    D.Pairwise (fun c c2 => matchP S c2 c = false ∧ c.sid ≤ c2.sid) →
    (∀ c ∈ D, ∀ t ∈ T, matchP S c t = false ∧ t.sid ≤ c.sid) →
    (∀ c ∈ D, S.isDupInst c.sid = false ∧ S.isKey c.sid = false ∧
      ∃ op, effOp c none = some op ∧ isRedundant S none (changeOp c op) = (changeOp c op, false)) →
    mergeKids S o none none false D T = .ok (T ++ D.map cop)
  | [], T, _, _, _ => by simp [mergeKids_nil]
  | c :: cs, T, h1, h2, h3 => by
    obtain ⟨hnd, hk, op, hop, hred⟩ := h3 c (by simp)
    have h1' := List.pairwise_cons.1 h1
    have hstep : mergeR S o none none c T = .ok (T ++ [changeOp c op]) := by
      rw [mergeR_eq]
      exact mergeStep_add S o none none c T op _ hop (fun t ht => (h2 c (by simp) t ht).1) hred
        (fun t ht => (h2 c (by simp) t ht).2)
    rw [mergeKids_cons_nokey S o none none false c cs T _ hk hstep]
    rw [mergeKids_into S o cs (T ++ [changeOp c op]) h1'.2 ?_ (fun x hx => h3 x (by simp [hx]))]
    · simp [cop, hop]
    · intro c2 hc2 t ht
      rcases List.mem_append.1 ht with ht | ht
      · exact h2 c2 (by simp [hc2]) t ht
      · simp only [List.mem_singleton] at ht
        subst ht
        obtain ⟨hm, hle⟩ := h1'.1 c2 hc2
        have hnd2 := (h3 c2 (by simp [hc2])).1
        refine ⟨?_, by simpa using hle⟩
        rw [matchP_of_same_data_right (x := c) hnd2 (by simp) (by simp) (by simp)]
        exact hm

/-! ### what the merge needs to know about a computed diff -/

theorem matchP_false_symm' (S : Schema) (x y : DNode) (hx : S.isDupInst x.sid = false) (hy : S.isDupInst y.sid = false)
    (h : matchP S x y = false) : matchP S y x = false := by
  unfold matchP at h ⊢
  rw [instMatch_eq hx] at h
  rw [instMatch_eq hy]
  by_cases hs : x.sid = y.sid
  · have h1 : (y.sid == x.sid) = true := by simp [hs]
    simp only [h1, Bool.true_and] at h
    have h2 : (x.sid == y.sid) = true := by simp [hs]
    simp only [h2, Bool.true_and]
    rw [← hs]
    cases hl : isLL S x.sid with
    | false => simp [hl] at h
    | true =>
      simp only [hl, Bool.not_true, Bool.false_or] at h ⊢
      cases hxy : sameInst S x y with
      | false => rfl
      | true => rw [sameInst_symm hxy] at h; exact absurd h (by decide)
  · have : (x.sid == y.sid) = false := beq_eq_false_iff_ne.mpr hs
    simp [this]

theorem exactK_pairwise {S : Schema} {inh : Option Op} {L : List DNode} : ∀ (D : List DNode), exactK S inh L false D = true →
    D.Pairwise (fun c c' => matchP S c c' = false)
  | [], _ => List.Pairwise.nil
  | c :: cs, h => by
    rw [exactK_cons_false] at h
    simp only [Bool.and_eq_true, List.all_eq_true, Bool.not_eq_eq_eq_not, Bool.not_true] at h
    exact List.Pairwise.cons h.1.2 (exactK_pairwise cs h.2)

theorem redundant_false_of_op (S : Schema) (cur : Option Op) (t : DNode) (op : Op) (hop : effOp t cur = some op)
    (h1 : op ≠ .none) (h2 : S.isUserOrd t.sid = false) : isRedundant S cur t = (t, false) := by
  unfold isRedundant
  cases op <;> simp [hop, h2] at h1 ⊢

end LyModel.Diff

namespace LyModel.Diff
open LyModel LyModel.Tree

theorem metaOK_single (n : DNode) (v : Bytes) : MetaOK (n.setMetas [("operation", v)]) := by
  simp [MetaOK, setMetas_metas]

/-- no top-level node of a computed diff is redundant for `lyd_diff_is_redundant` -/
theorem diff_top_nonredundant (S : Schema) (A B : List DNode) (hA : wfForest S A = true) (hB : wfForest S B = true) :
    ∀ d ∈ diff S true A B, ∃ op, effOp d none = some op ∧ isRedundant S none (changeOp d op) = (changeOp d op, false) := by
  simp only [wfForest, Bool.and_eq_true, List.all_eq_true, Bool.not_eq_true'] at hA hB
  obtain ⟨_, L⟩ := levelD S (Nat.max (heightL A) (heightL B)) true A B hA.1.1 hB.1.1 hA.1.2 hB.1.2
  have hout : diff S true A B = (diffSiblings S true (Nat.max (heightL A) (heightL B) + 1) true A B).out := rfl
  rw [hout]
  generalize (diffSiblings S true (Nat.max (heightL A) (heightL B) + 1) true A B).out = out at L
  have hwa' : ∀ a ∈ A, wfNode S a = true := fun a ha => wfL_mem S A a hA.1.1 ha
  have hwb' : ∀ b ∈ B, wfNode S b = true := fun b hb => wfL_mem S B b hB.1.1 hb
  have hrec0 := diffSiblings_nil S true (Nat.max (heightL A) (heightL B)) false
  intro d hd
  rcases L.sound d hd with ⟨a, ha, hn⟩ | ⟨b, hb, hp, rfl⟩
  · have hwa := hwa' a ha
    have hpl := wfNode_plain S a hwa
    have hnu := plainSid_not_userOrd S a.sid hpl
    have hnd := plainSid_not_dupInst S a.sid hpl
    cases hn with
    | del hp =>
      refine ⟨.delete, effOp_of_own _ _ _ (ownOp_cons _ .delete [] (setMetas_metas _ _)), ?_⟩
      apply redundant_false_of_op S none _ .delete (effOp_changeOp (metaOK_single _ _) .delete) (by decide)
      simpa [setMetas_sid, dupRec_sid] using hnu
    | term b atr hp hat =>
      have hbm := partner_mem S B a b hp
      have hwb := hwb' b hbm
      have hkb := partner_kkey S B a b hnd hp
      have hsb : b.sid = a.sid := kkey_sid S b a hkb
      have hterm : S.isTerm a.sid = true := by
        rcases plainAttrs_cases S a b atr hat with ⟨h, _, _⟩ | ⟨h | h, _, _⟩
        · exact isTerm_of_kind S _ (Or.inl h)
        · exact isTerm_of_kind S _ (Or.inl h.1)
        · exact isTerm_of_kind S _ (Or.inr h)
      have hflag : atr.op = .none → a.flags.dflt ≠ b.flags.dflt := by
        intro ho
        rcases plainAttrs_cases S a b atr hat with ⟨_, _, h⟩ | ⟨_, h, _⟩
        · rw [h] at ho; exact absurd ho (by decide)
        · exact h
      obtain ⟨fa, ma, va, hae⟩ := term_of_shape S a (wfNode_shape S a hwa) hterm
      obtain ⟨fb, mb, vb, hbe⟩ := term_of_shape S b (wfNode_shape S b hwb) (by rw [hsb]; exact hterm)
      rw [hsb] at hbe
      generalize a.sid = s at hae hbe hterm hnu
      subst hae hbe
      have hdr : dupRec (.term s fb mb vb) = .term s fb [] vb := rfl
      rw [hdr]
      rcases plainAttrs_term_cases S s fa fb ma mb va vb atr hat with ⟨_, _, rfl⟩ | ⟨_, rfl⟩
      · rw [withAttrs_replace]
        have hmok : MetaOK (.term s fb [("operation", Op.replace.bytes), ("orig-default", boolBytes fa.dflt),
            ("orig-value", va)] vb) := by simp [MetaOK, pj_metas_term]
        refine ⟨.replace, effOp_of_own _ _ _ (ownOp_cons _ .replace _ rfl), ?_⟩
        exact redundant_false_of_op S none _ .replace (effOp_changeOp hmok .replace) (by decide)
          (by simpa [pj_sid_term] using hnu)
      · rw [withAttrs_none]
        have hmok : MetaOK (.term s fb [("operation", Op.none.bytes), ("orig-default", boolBytes fa.dflt)] vb) := by
          simp [MetaOK, pj_metas_term]
        refine ⟨.none, effOp_of_own _ _ _ (ownOp_cons _ .none _ rfl), ?_⟩
        have hne : fa.dflt ≠ fb.dflt := hflag rfl
        have heff := effOp_changeOp (inh := none) hmok .none
        have hod : getMeta (changeOp (.term s fb [("operation", Op.none.bytes), ("orig-default", boolBytes fa.dflt)] vb) .none)
            "orig-default" = some (boolBytes fa.dflt) := by
          rw [getMeta_changeOp_ne (by decide)]
          simp [getMeta, pj_metas_term]
        unfold isRedundant
        simp only [heff, sid_changeOp, pj_sid_term, hterm, hod, flags_changeOp, pj_flags_term, boolBytes_eq_true,
          boolBytes_eq_false]
        cases h1 : fa.dflt <;> cases h2 : fb.dflt <;> simp_all
    | parent b src f m hp hat hne hsrc htop hm =>
      have hbm := partner_mem S B a b hp
      have hwb := hwb' b hbm
      have hkb := partner_kkey S B a b hnd hp
      have hsb : b.sid = a.sid := kkey_sid S b a hkb
      have hin := inner_of_sub S _ a b hwa hwb hsb hrec0 hne
      have hsrcsid : src.sid = a.sid := by
        rcases hsrc with h | h <;> subst h
        · rfl
        · exact hsb
      have hsubkey : ∀ x ∈ (subOf S (diffSiblings S true (Nat.max (heightL A) (heightL B)) false) a b).out,
          S.isKey x.sid = false := by
        intro x hx
        obtain ⟨y, hy, he⟩ := diffSiblings_sids S true _ false _ _ x hx
        rw [he]
        rcases List.mem_append.1 hy with hy | hy
        · exact noKeys_notKey S a hwa y hy
        · exact noKeys_notKey S b hwb y hy
      obtain ⟨_, hk2⟩ := parentNode_facts S src f m _ (by rw [hsrcsid]; exact hin) hsubkey
      have hmm := htop rfl
      subst hmm
      have hdsid : (dupShallow S src).sid = a.sid := by rw [dupShallow_sid, hsrcsid]
      have hmok : MetaOK (.inner (dupShallow S src).sid f [("operation", Op.none.bytes)]
          ((dupShallow S src).kids ++ (subOf S (diffSiblings S true (Nat.max (heightL A) (heightL B)) false) a b).out)) := by
        simp [MetaOK, pj_metas_inner]
      refine ⟨.none, effOp_of_own _ _ _ (ownOp_cons _ .none [] rfl), ?_⟩
      have heff := effOp_changeOp (inh := none) hmok .none
      unfold isRedundant
      have hnt := isInner_not_isTerm S a.sid hin
      have hkids : noKeys S ((dupShallow S src).kids ++
          (subOf S (diffSiblings S true (Nat.max (heightL A) (heightL B)) false) a b).out) =
          (subOf S (diffSiblings S true (Nat.max (heightL A) (heightL B)) false) a b).out := hk2
      have hne' : ((subOf S (diffSiblings S true (Nat.max (heightL A) (heightL B)) false) a b).out).isEmpty = false := by
        cases h : (subOf S (diffSiblings S true (Nat.max (heightL A) (heightL B)) false) a b).out with
        | nil => exact absurd h hne
        | cons _ _ => rfl
      simp [heff, sid_changeOp, pj_sid_inner, hdsid, hnu, hnt, hnd, kids_changeOp, pj_kids_inner, hkids, hne']
      split <;> rfl
  · have hwb := hwb' b hb
    have hnu := plainSid_not_userOrd S b.sid (wfNode_plain S b hwb)
    refine ⟨.create, effOp_of_own _ _ _ (ownOp_cons _ .create [] (setMetas_metas _ _)), ?_⟩
    apply redundant_false_of_op S none _ .create (effOp_changeOp (metaOK_single _ _) .create) (by decide)
    simpa [cnode, setMetas_sid, dupRec_sid] using hnu

/-- **merging a computed diff into the empty diff**: the merged diff consists of the nodes of `D = diff(A, C)` with the
operation made explicit, in the same order, and applying it is applying `D` -/
theorem merge_into_empty (S : Schema) (o : MergeOpts) (fx : Fixes) (A C : List DNode) (hA : wfForest S A = true)
    (hC : wfForest S C = true) :
    mergeDiff o S [] (diff S true A C) = .ok ((diff S true A C).map cop) ∧
      apply S A ((diff S true A C).map cop) fx = apply S A (diff S true A C) fx := by
  have hex := exactDiff_diff S A C hA hC
  have hmem := exactK_mem false (diff S true A C) hex
  have hbase : ∀ c ∈ diff S true A C, Dom S c ∧ MetaOK c ∧ S.isKey c.sid = false := by
    intro c hc
    exact exactE_base (hmem c (by simpa [dk] using hc)).1
  have hnr := diff_top_nonredundant S A C hA hC
  constructor
  · have := mergeKids_into S o (diff S true A C) [] ?_ (by simp) ?_
    · simpa [mergeDiff] using this
    · -- pairwise: different instances, ordered by schema node
      have hp := exactK_pairwise (diff S true A C) hex
      have hs : (diff S true A C).Pairwise (fun c c2 => c.sid ≤ c2.sid) := by
        have := diff_sorted S true A C
        unfold SidSorted at this
        exact List.pairwise_map.1 this
      have hboth := hp.and hs
      apply hboth.imp_of_mem
      intro x y hx hy h
      exact ⟨matchP_false_symm' S x y (hbase x hx).1.ndi (hbase y hy).1.ndi h.1, h.2⟩
    · intro c hc
      obtain ⟨op, h1, h2⟩ := hnr c hc
      exact ⟨(hbase c hc).1.ndi, (hbase c hc).2.2, op, h1, h2⟩
  · apply apply_map_cop
    intro c hc
    obtain ⟨op, h1, _⟩ := hnr c hc
    exact ⟨(hbase c hc).2.1, by rw [h1]; rfl⟩

end LyModel.Diff
