import LyModel.Diff.LemmasPair
/-!
# apply(diff(A, B), A) = B on the fragment (C06 proofs): the induction
Core Lean only.
-/
namespace LyModel.Diff
open LyModel LyModel.Tree

/-- one sibling level under comparison: `pre` are the (identical) key leaves in front of the compared children -/
structure LevelCtx (S : Schema) (U : DNode → Prop) (pre as bs : List DNode) : Prop where
  wfa : wfL S as = true
  wfb : wfL S bs = true
  ca : canonB S (pre ++ as) = true
  cb : canonB S (pre ++ bs) = true
  spre : ∀ x ∈ pre, shapeOk S x = true
  inU : ∀ x ∈ pre ++ as ++ bs, U x

/-- what has to be shown for every level of height below `fuelD` -/
def LevelGoal (S : Schema) (fx : Fixes) (U : DNode → Prop) (fuelD : Nat) : Prop :=
  ∀ (top hp : Bool) (pre as bs : List DNode) (fuelA : Nat), LevelCtx S U pre as bs →
    heightL as < fuelD → heightL bs < fuelD →
    heightL (diffSiblings S true fuelD top as bs).out ≤ fuelA →
    ∃ r, (diffSiblings S true fuelD top as bs).out.foldlM
          (fun sibs d => applyNode S fx fuelA sibs hp (if top then none else some Op.none) d) (pre ++ as) = .ok r ∧
      normL S r = normL S (pre ++ bs)

theorem inner_of_shape (S : Schema) (n : DNode) (hs : shapeOk S n = true) (hi : S.isInner n.sid = true) :
    ∃ f m k, n = .inner n.sid f m k := by
  cases n with
  | term s f m v =>
    simp only [DNode.sid] at hi
    have := isInner_not_isTerm S s hi
    simp [shapeOk, DNode.isTerm, DNode.sid, this] at hs
  | inner s f m k => exact ⟨f, m, k, rfl⟩

theorem canonB_append_right (S : Schema) (l1 l2 : List DNode) (h : canonB S (l1 ++ l2) = true) : canonB S l2 = true :=
  canonB_sublist S (List.sublist_append_right l1 l2) h

/-- the children of a matched pair of inner nodes form a level -/
theorem kids_ctx (S : Schema) (U : DNode → Prop) (ho : OrdHyp S U) (s : Nat) (fa fb : Flags) (ma mb : List Meta)
    (ka kb : List DNode) (ha : WfInner S s fa ma ka) (hb : WfInner S s fb mb kb)
    (hk : kkey S (.inner s fa ma ka) = kkey S (.inner s fb mb kb))
    (hUa : U (.inner s fa ma ka)) (hUb : U (.inner s fb mb kb)) :
    LevelCtx S U (keysOf S ka) (noKeys S ka) (noKeys S kb) where
  wfa := wfL_of_forall S _ (fun x hx => wfL_mem S ka x ha.kids ((noKeys_sublist S ka).subset hx))
  wfb := wfL_of_forall S _ (fun x hx => wfL_mem S kb x hb.kids ((noKeys_sublist S kb).subset hx))
  ca := by rw [keys_append_noKeys]; exact ha.canon
  cb := by rw [keysOf_eq_of_kkey S s fa fb ma mb ka kb ha hb hk, keys_append_noKeys]; exact hb.canon
  spre := fun x hx => wfNode_shape S x (wfL_mem S ka x ha.kids ((List.takeWhile_sublist _).subset hx))
  inU := by
    intro x hx
    simp only [List.mem_append] at hx
    rcases hx with (hx | hx) | hx
    · exact ho.kids _ hUa x ((List.takeWhile_sublist _).subset hx)
    · exact ho.kids _ hUa x ((noKeys_sublist S ka).subset hx)
    · exact ho.kids _ hUb x ((noKeys_sublist S kb).subset hx)

/-! ### one diff node -/

theorem idx_of_mem {α : Type} (l : List α) (a : α) (h : a ∈ l) : ∃ i : Nat, l[i]? = some a := by
  obtain ⟨i, hi, hg⟩ := List.getElem_of_mem h
  exact ⟨i, by simp [hi, hg]⟩

theorem proc_del (S : Schema) (fx : Fixes) (pre as bs : List DNode) (done : List Key) (data : List DNode)
    (hinv : Inv S pre as bs done data) (a : DNode) (ha : a ∈ as) (hwa : wfNode S a = true)
    (hp : partner S bs a = none) (hnd : kkey S a ∉ done) (f : Nat) (hpB : Bool) (inh : Option Op) :
    ∃ data', applyNode S fx (f + 1) data hpB inh ((dupRec a).setMetas [("operation", Op.delete.bytes)]) = .ok data' ∧
      Inv S pre as bs (kkey S a :: done) data' := by
  have hpl := wfNode_plain S a hwa
  obtain ⟨i, hg⟩ := idx_of_mem data a (hinv.keepOld a (by simp [ha]) hnd)
  refine ⟨data.eraseIdx i, apply_del S fx f data hpB inh a a i hpl hinv.canon hinv.shape hg rfl, ?_⟩
  exact Inv.erase S pre as bs done data a i hinv hg (partner_none S bs a (plainSid_not_dupInst S _ hpl) hp)

theorem proc_term (S : Schema) (fx : Fixes) (pre as bs : List DNode) (done : List Key) (data : List DNode)
    (hinv : Inv S pre as bs done data) (a b : DNode) (atr : Attrs) (ha : a ∈ as) (hwa : wfNode S a = true)
    (hwb : ∀ b ∈ bs, wfNode S b = true)
    (hp : partner S bs a = some b) (hat : plainAttrs S true (some a) (some b) = some atr)
    (hnd : kkey S a ∉ done) (f : Nat) (hpB : Bool) (inh : Option Op) :
    ∃ data', applyNode S fx (f + 1) data hpB inh (withAttrs S (dupRec b) atr) = .ok data' ∧
      Inv S pre as bs (kkey S a :: done) data' := by
  have hpl := wfNode_plain S a hwa
  have hbm := partner_mem S bs a b hp
  have hkb := partner_kkey S bs a b (plainSid_not_dupInst S _ hpl) hp
  obtain ⟨i, hg⟩ := idx_of_mem data a (hinv.keepOld a (by simp [ha]) hnd)
  refine ⟨data.set i b, apply_term S fx f data hpB inh a b atr i hwa (hwb b hbm) hkb.symm hat hinv.canon hinv.shape hg, ?_⟩
  exact Inv.set S pre as bs done data a b b i hinv hg hkb (wfNode_shape S b (hwb b hbm)) hbm hkb rfl

theorem dupRec_height : ∀ (n : Nat) (b : DNode), b.height ≤ n → (dupRec b).height = b.height
  | 0, b, h => by have := height_pos b; omega
  | n + 1, b, h => by
    cases b with
    | term => rfl
    | inner s f m ks =>
      simp only [dupRec, DNode.height, dupRecL_eq_map] at h ⊢
      congr 1
      have : ∀ (l : List DNode), heightL l ≤ n → heightL (l.map dupRec) = heightL l := by
        intro l
        induction l with
        | nil => intro _; rfl
        | cons x xs ih =>
          intro hl
          simp only [heightL] at hl
          have h1 : x.height ≤ n := Nat.le_trans (Nat.le_max_left _ _) hl
          have h2 : heightL xs ≤ n := Nat.le_trans (Nat.le_max_right _ _) hl
          simp only [List.map_cons, heightL, dupRec_height n x h1, ih h2]
      exact this ks (by omega)

theorem setMetas_height (m : List Meta) (n : DNode) : (n.setMetas m).height = n.height := by cases n <;> rfl

theorem proc_create (S : Schema) (fx : Fixes) (U : DNode → Prop) (ho : OrdHyp S U) (pre as bs : List DNode)
    (ctx : LevelCtx S U pre as bs) (done : List Key) (data : List DNode)
    (hinv : Inv S pre as bs done data) (b : DNode) (hb : b ∈ bs) (hp : partner S as b = none)
    (hnd : kkey S b ∉ done) (f : Nat) (hf : (cnode b).height ≤ f + 1) (hpB : Bool) (inh : Option Op) :
    ∃ data', applyNode S fx (f + 1) data hpB inh (cnode b) = .ok data' ∧ Inv S pre as bs (kkey S b :: done) data' := by
  have hwb := wfL_mem S bs b ctx.wfb hb
  have hpl := wfNode_plain S b hwb
  have hh : b.height ≤ f + 1 := by
    unfold cnode at hf
    rwa [setMetas_height, dupRec_height b.height b (Nat.le_refl _)] at hf
  have happ := apply_created S fx U ho.kids ho.asym (f + 1) b [("operation", Op.create.bytes)] data hpB inh hwb
    (ctx.inU b (by simp [hb])) hh
    (effOp_of_own _ _ inh (ownOp_cons _ .create [] (setMetas_metas _ _)))
  refine ⟨_, happ, ?_⟩
  apply Inv.insert S U ho pre as bs done data (createdNode b) b hinv ctx.inU hb (createdNode_kkey S b)
    (createdNode_shape S b (wfNode_shape S b hwb)) (norm_created S b.height b (Nat.le_refl _) hwb)
  -- the key is not there yet
  intro x hx hk
  have hxo := hinv.old x hx (by rw [hk]; exact hnd)
  rcases List.mem_append.1 hxo with hxp | hxa
  · -- a key leaf in front: another key
    have hpw := canon_pairwise_kkey S (pre ++ bs) ctx.cb (by
      intro y hy
      rcases List.mem_append.1 hy with hy | hy
      · exact ctx.spre y hy
      · exact wfNode_shape S y (wfL_mem S bs y ctx.wfb hy))
    exact (List.pairwise_append.1 hpw).2.2 x hxp b hb hk
  · exact partner_none S as b (plainSid_not_dupInst S _ hpl) hp x hxa hk

theorem effOp_parent (d : DNode) (top : Bool) (m : List Meta) (hm : d.metas = m)
    (htop : top = true → m = [("operation", Op.none.bytes)]) (hmm : m = [] ∨ m = [("operation", Op.none.bytes)]) :
    effOp d (if top = true then none else some Op.none) = some .none := by
  rcases hmm with h | h
  · have : top = false := by
      cases top with
      | false => rfl
      | true => have := htop rfl; rw [h] at this; simp at this
    subst this
    simp [effOp, ownOp_nometa d (by rw [hm, h])]
  · exact effOp_of_own _ _ _ (ownOp_cons d .none [] (by rw [hm, h]))

theorem proc_parent (S : Schema) (fx : Fixes) (U : DNode → Prop) (ho : OrdHyp S U) (fuelD : Nat)
    (IH : LevelGoal S fx U fuelD) (top : Bool) (pre as bs : List DNode) (ctx : LevelCtx S U pre as bs)
    (hha : heightL as < fuelD + 1) (hhb : heightL bs < fuelD + 1)
    (done : List Key) (data : List DNode) (hinv : Inv S pre as bs done data)
    (a b src : DNode) (f : Flags) (m : List Meta) (ha : a ∈ as) (hp : partner S bs a = some b)
    (hne : (subOf S (diffSiblings S true fuelD false) a b).out ≠ []) (hsrc : src = a ∨ src = b)
    (htop : top = true → m = [("operation", Op.none.bytes)]) (hmm : m = [] ∨ m = [("operation", Op.none.bytes)])
    (hnd : kkey S a ∉ done) (fA : Nat) (hpB : Bool)
    (hfA : (DNode.inner (dupShallow S src).sid f m
      ((dupShallow S src).kids ++ (subOf S (diffSiblings S true fuelD false) a b).out)).height ≤ fA + 1) :
    ∃ data', applyNode S fx (fA + 1) data hpB (if top = true then none else some Op.none)
        (.inner (dupShallow S src).sid f m ((dupShallow S src).kids ++ (subOf S (diffSiblings S true fuelD false) a b).out))
        = .ok data' ∧
      Inv S pre as bs (kkey S a :: done) data' := by
  have hwa := wfL_mem S as a ctx.wfa ha
  have hbm := partner_mem S bs a b hp
  have hwb := wfL_mem S bs b ctx.wfb hbm
  have hpl := wfNode_plain S a hwa
  have hnda := plainSid_not_dupInst S a.sid hpl
  have hkb := partner_kkey S bs a b hnda hp
  have hsb := kkey_sid S b a hkb
  have hin := inner_of_sub S _ a b hwa hwb hsb (diffSiblings_nil S true fuelD false) hne
  -- both are inner nodes of the same schema node
  obtain ⟨fa, ma, ka, ea⟩ := inner_of_shape S a (wfNode_shape S a hwa) hin
  obtain ⟨fb, mb, kb, eb⟩ := inner_of_shape S b (wfNode_shape S b hwb) (by rw [hsb]; exact hin)
  rw [hsb] at eb
  generalize a.sid = s at ea eb hin hpl hnda
  subst ea eb
  have hia := wfNode_inner S _ _ _ _ hwa
  have hib := wfNode_inner S _ _ _ _ hwb
  have hUa : U (.inner s fa ma ka) := ctx.inU _ (by simp [ha])
  have hUb : U (.inner s fb mb kb) := ctx.inU _ (by simp [hbm])
  have hsub_def : subOf S (diffSiblings S true fuelD false) (.inner s fa ma ka) (.inner s fb mb kb)
      = diffSiblings S true fuelD false (noKeys S ka) (noKeys S kb) := rfl
  rw [hsub_def] at hne hfA ⊢
  -- the parent copy
  have hsubkey : ∀ x ∈ (diffSiblings S true fuelD false (noKeys S ka) (noKeys S kb)).out, S.isKey x.sid = false := by
    intro x hx
    obtain ⟨y, hy, he⟩ := diffSiblings_sids S true fuelD false _ _ x hx
    rw [he]
    rcases List.mem_append.1 hy with hy | hy
    · exact hia.restNoKey y hy
    · exact hib.restNoKey y hy
  have hsrcin : S.isInner src.sid = true := by rcases hsrc with h | h <;> subst h <;> exact hin
  have hsrcsid : src.sid = s := by rcases hsrc with h | h <;> subst h <;> rfl
  obtain ⟨hkd, hnk⟩ := parentNode_facts S src f m _ hsrcin hsubkey
  have hkd' : kkey S (DNode.inner (dupShallow S src).sid f m ((dupShallow S src).kids ++
      (diffSiblings S true fuelD false (noKeys S ka) (noKeys S kb)).out)) = kkey S (.inner s fa ma ka) := by
    rw [hkd]; rcases hsrc with h | h <;> subst h
    · rfl
    · exact hkb
  -- the children: the induction hypothesis
  have hkctx := kids_ctx S U ho s fa fb ma mb ka kb hia hib hkb.symm hUa hUb
  have hh1 : heightL (noKeys S ka) < fuelD := by
    have h1 := heightL_mem as _ ha
    have h2 := heightL_sublist (noKeys_sublist S ka)
    simp only [DNode.height] at h1
    omega
  have hh2 : heightL (noKeys S kb) < fuelD := by
    have h1 := heightL_mem bs _ hbm
    have h2 := heightL_sublist (noKeys_sublist S kb)
    simp only [DNode.height] at h1
    omega
  have hh3 : heightL (diffSiblings S true fuelD false (noKeys S ka) (noKeys S kb)).out ≤ fA := by
    have h2 := heightL_sublist (List.sublist_append_right (dupShallow S src).kids
      (diffSiblings S true fuelD false (noKeys S ka) (noKeys S kb)).out)
    simp only [DNode.height] at hfA
    omega
  obtain ⟨r, hr, hnr⟩ := IH false true (keysOf S ka) (noKeys S ka) (noKeys S kb) fA hkctx hh1 hh2 hh3
  simp only [Bool.false_eq_true, if_false, keys_append_noKeys] at hr
  have hnr' : normL S r = normL S kb := by
    rw [hnr, keysOf_eq_of_kkey S s fa fb ma mb ka kb hia hib hkb.symm, keys_append_noKeys]
  -- the node itself
  obtain ⟨i, hg⟩ := idx_of_mem data _ (hinv.keepOld _ (by simp [ha]) hnd)
  have hnud : S.isUserOrd (dupShallow S src).sid = false := by
    rw [dupShallow_sid, hsrcsid]; exact plainSid_not_userOrd S s hpl
  have hndd : S.isDupInst (dupShallow S src).sid = false := by rw [dupShallow_sid, hsrcsid]; exact hnda
  have happ := apply_parent S fx fA data hpB (if top = true then none else some Op.none)
    (.inner (dupShallow S src).sid f m ((dupShallow S src).kids ++
      (diffSiblings S true fuelD false (noKeys S ka) (noKeys S kb)).out))
    (.inner s fa ma ka) _ r i (effOp_parent _ top m rfl htop hmm) hnud hndd hnk hne rfl hinv.canon hinv.shape hg hkd' hr
  refine ⟨_, happ, ?_⟩
  have hy : kkey S (DNode.setKids r (.inner s fa ma ka)) = kkey S (.inner s fa ma ka) := by
    show kkey S (.inner s fa ma r) = _
    rw [kkey_inner_of_norm S s fa fb ma mb r kb hnr']
    exact hkb
  apply Inv.set S pre as bs done data (.inner s fa ma ka) _ (.inner s fb mb kb) i hinv hg hy
  · show shapeOk S (.inner s fa ma r) = true
    have := wfNode_shape S _ hwa
    simpa [shapeOk, DNode.isTerm, DNode.sid] using this
  · exact hbm
  · exact hkb
  · show normNode S (.inner s fa ma r) = _
    exact normNode_inner_eq S s fa fb ma mb ka kb r hia hib hnr'

/-- any diff node of the level: it is applied successfully and its key is then as in the second tree -/
theorem process_node (S : Schema) (fx : Fixes) (U : DNode → Prop) (ho : OrdHyp S U) (fuelD : Nat)
    (IH : LevelGoal S fx U fuelD) (top : Bool) (pre as bs out : List DNode) (ctx : LevelCtx S U pre as bs)
    (hha : heightL as < fuelD + 1) (hhb : heightL bs < fuelD + 1)
    (L : LevelD S top (diffSiblings S true fuelD false) as bs out)
    (done : List Key) (data : List DNode) (hinv : Inv S pre as bs done data)
    (d : DNode) (hd : d ∈ out) (hnd : kkey S d ∉ done) (fA : Nat) (hpB : Bool) (hfA : d.height ≤ fA + 1) :
    ∃ data', applyNode S fx (fA + 1) data hpB (if top = true then none else some Op.none) d = .ok data' ∧
      Inv S pre as bs (kkey S d :: done) data' := by
  have hwb' : ∀ b ∈ bs, wfNode S b = true := fun b hb => wfL_mem S bs b ctx.wfb hb
  have hrec0 := diffSiblings_nil S true fuelD false
  rcases L.sound d hd with ⟨a, ha, hn⟩ | ⟨b, hb, hp, he⟩
  · have hwa := wfL_mem S as a ctx.wfa ha
    have hsubkey : ∀ b, partner S bs a = some b →
        ∀ x ∈ (subOf S (diffSiblings S true fuelD false) a b).out, S.isKey x.sid = false := by
      intro b hp x hx
      obtain ⟨y, hy, he⟩ := diffSiblings_sids S true fuelD false _ _ x hx
      rw [he]
      rcases List.mem_append.1 hy with hy | hy
      · exact noKeys_notKey S a hwa y hy
      · exact noKeys_notKey S b (hwb' b (partner_mem S bs a b hp)) y hy
    have hkd := node1_kkey S top _ bs a d hn hwa hwb' hrec0 hsubkey
    rw [hkd] at hnd ⊢
    cases hn with
    | del hp => exact proc_del S fx pre as bs done data hinv a ha hwa hp hnd fA hpB _
    | term b atr hp hat => exact proc_term S fx pre as bs done data hinv a b atr ha hwa hwb' hp hat hnd fA hpB _
    | parent b src f m hp hat hne hsrc htop hmm =>
      exact proc_parent S fx U ho fuelD IH top pre as bs ctx hha hhb done data hinv a b src f m ha hp hne hsrc htop hmm
        hnd fA hpB hfA
  · subst he
    rw [cnode_kkey] at hnd ⊢
    exact proc_create S fx U ho pre as bs ctx done data hinv b hb hp hnd fA hfA hpB _

/-- all diff nodes of the level, in whatever order they come -/
theorem fold_out (S : Schema) (fx : Fixes) (U : DNode → Prop) (ho : OrdHyp S U) (fuelD : Nat)
    (IH : LevelGoal S fx U fuelD) (top : Bool) (pre as bs out : List DNode) (ctx : LevelCtx S U pre as bs)
    (hha : heightL as < fuelD + 1) (hhb : heightL bs < fuelD + 1)
    (L : LevelD S top (diffSiblings S true fuelD false) as bs out) (fA : Nat) (hpB : Bool) :
    ∀ (todo : List DNode) (done : List Key) (data : List DNode), (∀ d ∈ todo, d ∈ out) →
      todo.Pairwise (fun x y => kkey S x ≠ kkey S y) → (∀ d ∈ todo, kkey S d ∉ done) →
      Inv S pre as bs done data → heightL todo ≤ fA + 1 →
      ∃ r, todo.foldlM (fun sibs d => applyNode S fx (fA + 1) sibs hpB (if top = true then none else some Op.none) d) data
          = .ok r ∧ Inv S pre as bs ((todo.map (kkey S)).reverse ++ done) r
  | [], done, data, _, _, _, hinv, _ => ⟨data, rfl, by simpa using hinv⟩
  | d :: rest, done, data, hsub, hpw, hnd, hinv, hh => by
    have hpw' := List.pairwise_cons.1 hpw
    have hhd : d.height ≤ fA + 1 := Nat.le_trans (heightL_mem _ d (by simp)) hh
    obtain ⟨data', happ, hinv'⟩ := process_node S fx U ho fuelD IH top pre as bs out ctx hha hhb L done data hinv d
      (hsub d (by simp)) (hnd d (by simp)) fA hpB hhd
    obtain ⟨r, hr, hir⟩ := fold_out S fx U ho fuelD IH top pre as bs out ctx hha hhb L fA hpB rest (kkey S d :: done) data'
      (fun x hx => hsub x (by simp [hx])) hpw'.2
      (by
        intro x hx
        simp only [List.mem_cons, not_or]
        exact ⟨fun e => hpw'.1 x hx e.symm, hnd x (by simp [hx])⟩)
      hinv' (Nat.le_trans (heightL_sublist (List.sublist_cons_self d rest)) hh)
    refine ⟨r, ?_, ?_⟩
    · simp only [List.foldlM_cons, happ, bind, Except.bind]
      exact hr
    · simpa [List.map_cons, List.reverse_cons, List.append_assoc] using hir

/-! ### the end of a level -/

/-- a matched pair without an operation and with an empty sub-diff: the same up to `normNode` -/
theorem noemit_norm (S : Schema) (fx : Fixes) (U : DNode → Prop) (ho : OrdHyp S U) (fuelD : Nat)
    (IH : LevelGoal S fx U fuelD) (pre as bs : List DNode) (ctx : LevelCtx S U pre as bs)
    (hha : heightL as < fuelD + 1) (hhb : heightL bs < fuelD + 1)
    (a b : DNode) (ha : a ∈ as) (hb : b ∈ bs) (hkb : kkey S b = kkey S a)
    (hat : plainAttrs S true (some a) (some b) = none)
    (hem : (subOf S (diffSiblings S true fuelD false) a b).out = []) : normNode S a = normNode S b := by
  have hwa := wfL_mem S as a ctx.wfa ha
  have hwb := wfL_mem S bs b ctx.wfb hb
  have hsb := kkey_sid S b a hkb
  rcases plainSid_cases S a.sid (wfNode_plain S a hwa) with ht | hin
  · rw [term_unchanged S a b hwa hwb hkb.symm ht hat]
  · obtain ⟨fa, ma, ka, ea⟩ := inner_of_shape S a (wfNode_shape S a hwa) hin
    obtain ⟨fb, mb, kb, eb⟩ := inner_of_shape S b (wfNode_shape S b hwb) (by rw [hsb]; exact hin)
    rw [hsb] at eb
    generalize a.sid = s at ea eb hin
    subst ea eb
    have hia := wfNode_inner S _ _ _ _ hwa
    have hib := wfNode_inner S _ _ _ _ hwb
    have hUa : U (.inner s fa ma ka) := ctx.inU _ (by simp [ha])
    have hUb : U (.inner s fb mb kb) := ctx.inU _ (by simp [hb])
    have hsub_def : subOf S (diffSiblings S true fuelD false) (.inner s fa ma ka) (.inner s fb mb kb)
        = diffSiblings S true fuelD false (noKeys S ka) (noKeys S kb) := rfl
    rw [hsub_def] at hem
    have hkctx := kids_ctx S U ho s fa fb ma mb ka kb hia hib hkb.symm hUa hUb
    have hh1 : heightL (noKeys S ka) < fuelD := by
      have h1 := heightL_mem as _ ha
      have h2 := heightL_sublist (noKeys_sublist S ka)
      simp only [DNode.height] at h1
      omega
    have hh2 : heightL (noKeys S kb) < fuelD := by
      have h1 := heightL_mem bs _ hb
      have h2 := heightL_sublist (noKeys_sublist S kb)
      simp only [DNode.height] at h1
      omega
    obtain ⟨r, hr, hnr⟩ := IH false true (keysOf S ka) (noKeys S ka) (noKeys S kb) 0 hkctx hh1 hh2
      (by rw [hem]; simp [heightL])
    rw [hem] at hr
    simp only [List.foldlM_nil, pure, Except.pure, Except.ok.injEq, keys_append_noKeys] at hr
    subst hr
    have hnr' : normL S ka = normL S kb := by
      rw [hnr, keysOf_eq_of_kkey S s fa fb ma mb ka kb hia hib hkb.symm, keys_append_noKeys]
    exact normNode_inner_eq S s fa fb ma mb ka kb ka hia hib hnr'

theorem level_final (S : Schema) (fx : Fixes) (U : DNode → Prop) (ho : OrdHyp S U) (fuelD : Nat)
    (IH : LevelGoal S fx U fuelD) (top : Bool) (pre as bs out : List DNode) (ctx : LevelCtx S U pre as bs)
    (hha : heightL as < fuelD + 1) (hhb : heightL bs < fuelD + 1)
    (L : LevelD S top (diffSiblings S true fuelD false) as bs out)
    (doneF : List Key) (r : List DNode) (hinv : Inv S pre as bs doneF r)
    (hdone : ∀ k, k ∈ doneF ↔ ∃ d ∈ out, kkey S d = k) : normL S r = normL S (pre ++ bs) := by
  have hwa' : ∀ a ∈ as, wfNode S a = true := fun a ha => wfL_mem S as a ctx.wfa ha
  have hwb' : ∀ b ∈ bs, wfNode S b = true := fun b hb => wfL_mem S bs b ctx.wfb hb
  have hrec0 := diffSiblings_nil S true fuelD false
  have hspa : ∀ x ∈ pre ++ as, shapeOk S x = true := by
    intro x hx
    rcases List.mem_append.1 hx with hx | hx
    · exact ctx.spre x hx
    · exact wfNode_shape S x (hwa' x hx)
  have hspb : ∀ x ∈ pre ++ bs, shapeOk S x = true := by
    intro x hx
    rcases List.mem_append.1 hx with hx | hx
    · exact ctx.spre x hx
    · exact wfNode_shape S x (hwb' x hx)
  have hpwa := List.pairwise_append.1 (canon_pairwise_kkey S (pre ++ as) ctx.ca hspa)
  have hpwb := List.pairwise_append.1 (canon_pairwise_kkey S (pre ++ bs) ctx.cb hspb)
  -- the key of a diff node is the key of a compared sibling
  have hkeyOut : ∀ d ∈ out, (∃ a ∈ as, kkey S d = kkey S a) ∨ (∃ b ∈ bs, kkey S d = kkey S b) := by
    intro d hd
    rcases L.sound d hd with ⟨a, ha, hn⟩ | ⟨b, hb, _, he⟩
    · left
      refine ⟨a, ha, node1_kkey S top _ bs a d hn (hwa' a ha) hwb' hrec0 ?_⟩
      intro b hp x hx
      obtain ⟨y, hy, he⟩ := diffSiblings_sids S true fuelD false _ _ x hx
      rw [he]
      rcases List.mem_append.1 hy with hy | hy
      · exact noKeys_notKey S a (hwa' a ha) y hy
      · exact noKeys_notKey S b (hwb' b (partner_mem S bs a b hp)) y hy
    · right; exact ⟨b, hb, by rw [he, cnode_kkey]⟩
  have hpreNotDone : ∀ y ∈ pre, kkey S y ∉ doneF := by
    intro y hy hk
    obtain ⟨d, hd, hkd⟩ := (hdone _).1 hk
    rcases hkeyOut d hd with ⟨a, ha, he⟩ | ⟨b, hb, he⟩
    · exact hpwa.2.2 y hy a ha (by rw [← hkd, he])
    · exact hpwb.2.2 y hy b hb (by rw [← hkd, he])
  apply canon_ext S _ ho.asym r (pre ++ bs) hinv.canon ctx.cb
    (fun x hx => ⟨hinv.shape x hx, by
      obtain ⟨y, hy, hk⟩ := hinv.keysIn x hx
      exact ⟨y, ctx.inU y hy, hk.symm⟩⟩)
    (fun y hy => ⟨hspb y hy, ⟨y, ctx.inU y (by
      simp only [List.mem_append] at hy ⊢
      rcases hy with h | h
      · exact Or.inl (Or.inl h)
      · exact Or.inr h), rfl⟩⟩)
  · intro x hx
    by_cases hk : kkey S x ∈ doneF
    · obtain ⟨y, hy, hky, hny⟩ := hinv.new x hx hk
      exact ⟨y, by simp [hy], hky.symm, hny⟩
    · rcases List.mem_append.1 (hinv.old x hx hk) with hxp | hxa
      · exact ⟨x, by simp [hxp], rfl, rfl⟩
      · rcases L.complete1 x hxa with ⟨b, hp, hat, hem⟩ | ⟨d, hd, hn⟩
        · have hnd := plainSid_not_dupInst S x.sid (wfNode_plain S x (hwa' x hxa))
          have hbm := partner_mem S bs x b hp
          have hkb := partner_kkey S bs x b hnd hp
          exact ⟨b, by simp [hbm], hkb.symm,
            noemit_norm S fx U ho fuelD IH pre as bs ctx hha hhb x b hxa hbm hkb hat hem⟩
        · exfalso
          apply hk
          rcases hkeyOut d hd with _ | _
          all_goals
            refine (hdone _).2 ⟨d, hd, ?_⟩
            refine node1_kkey S top _ bs x d hn (hwa' x hxa) hwb' hrec0 ?_
            intro b hp z hz
            obtain ⟨y, hy, he⟩ := diffSiblings_sids S true fuelD false _ _ z hz
            rw [he]
            rcases List.mem_append.1 hy with hy | hy
            · exact noKeys_notKey S x (hwa' x hxa) y hy
            · exact noKeys_notKey S b (hwb' b (partner_mem S bs x b hp)) y hy
  · intro y hy
    rcases List.mem_append.1 hy with hyp | hyb
    · exact ⟨y, hinv.keepOld y (by simp [hyp]) (hpreNotDone y hyp), rfl⟩
    · by_cases hk : kkey S y ∈ doneF
      · exact hinv.haveNew y hyb hk
      · have hnd := plainSid_not_dupInst S y.sid (wfNode_plain S y (hwb' y hyb))
        cases hp : partner S as y with
        | none =>
          exfalso
          exact hk ((hdone _).2 ⟨cnode y, L.complete2 y hyb hp, cnode_kkey S y⟩)
        | some a =>
          have ham := partner_mem S as y a hp
          have hka := partner_kkey S as y a hnd hp
          exact ⟨a, hinv.keepOld a (by simp [ham]) (by rw [hka]; exact hk), hka⟩

/-! ### the induction over the height -/

theorem Inv.init (S : Schema) (U : DNode → Prop) (pre as bs : List DNode) (ctx : LevelCtx S U pre as bs) :
    Inv S pre as bs [] (pre ++ as) where
  canon := ctx.ca
  shape := by
    intro x hx
    rcases List.mem_append.1 hx with hx | hx
    · exact ctx.spre x hx
    · exact wfNode_shape S x (wfL_mem S as x ctx.wfa hx)
  keysIn := fun x hx => ⟨x, by simp only [List.mem_append] at hx ⊢; exact Or.inl hx, rfl⟩
  old := fun x hx _ => hx
  new := fun x _ h => by simp at h
  keepOld := fun a ha _ => ha
  haveNew := fun y _ h => by simp at h

theorem levelGoal_all (S : Schema) (fx : Fixes) (U : DNode → Prop) (ho : OrdHyp S U) :
    ∀ (fuelD : Nat), LevelGoal S fx U fuelD
  | 0 => by intro top hp pre as bs fuelA _ h; omega
  | fuelD + 1 => by
    intro top hp pre as bs fuelA ctx hha hhb hout
    have IH := levelGoal_all S fx U ho fuelD
    obtain ⟨_, L⟩ := levelD S fuelD top as bs ctx.wfa ctx.wfb (canonB_append_right S pre as ctx.ca)
      (canonB_append_right S pre bs ctx.cb)
    generalize (diffSiblings S true (fuelD + 1) top as bs).out = out at L hout
    cases fuelA with
    | zero =>
      -- no fuel: the diff level is empty
      have hout0 : out = [] := by
        cases out with
        | nil => rfl
        | cons d rest =>
          have h1 := height_pos d
          simp only [heightL] at hout
          have h2 := Nat.le_trans (Nat.le_max_left d.height (heightL rest)) hout
          omega
      subst hout0
      refine ⟨pre ++ as, rfl, ?_⟩
      exact level_final S fx U ho fuelD IH top pre as bs [] ctx hha hhb L [] (pre ++ as) (Inv.init S U pre as bs ctx)
        (by intro k; simp)
    | succ fA =>
      obtain ⟨r, hr, hir⟩ := fold_out S fx U ho fuelD IH top pre as bs out ctx hha hhb L fA hp out [] (pre ++ as)
        (fun d hd => hd) L.distinct (fun d _ => by simp) (Inv.init S U pre as bs ctx) hout
      refine ⟨r, hr, ?_⟩
      apply level_final S fx U ho fuelD IH top pre as bs out ctx hha hhb L _ r hir
      intro k
      simp only [List.append_nil, List.mem_reverse, List.mem_map]

/-- **apply(diff(A, B), A) = B on the fragment**, for the model of `lyd_diff_siblings` + `lyd_diff_apply_all` -/
theorem apply_diff_fragment (S : Schema) (fx : Fixes) (U : DNode → Prop) (ho : OrdHyp S U) (A B : List DNode)
    (hA : wfForest S A = true) (hB : wfForest S B = true) (hU : ∀ x ∈ A ++ B, U x) :
    ∃ B', apply S A (diffFromPtr S true A B fx) fx = .ok B' ∧ normL S B' = normL S B := by
  simp only [wfForest, Bool.and_eq_true] at hA hB
  have ctx : LevelCtx S U [] A B :=
    { wfa := hA.1.1, wfb := hB.1.1, ca := by simpa using hA.1.2, cb := by simpa using hB.1.2,
      spre := fun x hx => by simp at hx, inU := by simpa using hU }
  obtain ⟨hptr, _⟩ := levelD S (Nat.max (heightL A) (heightL B)) true A B hA.1.1 hB.1.1 hA.1.2 hB.1.2
  have hgoal := levelGoal_all S fx U ho (Nat.max (heightL A) (heightL B) + 1) true false [] A B
    (heightL (diffSiblings S true (Nat.max (heightL A) (heightL B) + 1) true A B).out + 1) ctx
    (Nat.lt_succ_of_le (Nat.le_max_left _ _)) (Nat.lt_succ_of_le (Nat.le_max_right _ _)) (Nat.le_succ _)
  obtain ⟨r, hr, hn⟩ := hgoal
  refine ⟨r, ?_, by simpa using hn⟩
  unfold apply diffFromPtr diffFull
  simp only [hptr, ite_self, List.drop_zero]
  simpa using hr

end LyModel.Diff
