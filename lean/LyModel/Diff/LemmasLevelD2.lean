import LyModel.Diff.LemmasSids
/-!
# One sibling level of the diff on the fragment: the emitted nodes, all together (C06 proofs)
Core Lean only.
-/
namespace LyModel.Diff
open LyModel LyModel.Tree

theorem takeWhile_append_of {α : Type} (p : α → Bool) : ∀ (l1 l2 : List α), (∀ x ∈ l1, p x = true) →
    (∀ x ∈ l2, p x = false) → (l1 ++ l2).takeWhile p = l1
  | [], [], _, _ => rfl
  | [], y :: ys, _, h2 => by simp [h2 y (by simp)]
  | x :: xs, l2, h1, h2 => by
    simp only [List.cons_append, List.takeWhile_cons, h1 x (by simp), if_true, List.cons.injEq, true_and]
    exact takeWhile_append_of p xs l2 (fun y hy => h1 y (by simp [hy])) h2

theorem dropWhile_append_of {α : Type} (p : α → Bool) : ∀ (l1 l2 : List α), (∀ x ∈ l1, p x = true) →
    (∀ x ∈ l2, p x = false) → (l1 ++ l2).dropWhile p = l2
  | [], [], _, _ => rfl
  | [], y :: ys, _, h2 => by simp [h2 y (by simp)]
  | x :: xs, l2, h1, h2 => by
    simp only [List.cons_append, List.dropWhile_cons, h1 x (by simp), if_true]
    exact dropWhile_append_of p xs l2 (fun y hy => h1 y (by simp [hy])) h2

theorem dupShallow_kids (S : Schema) (src : DNode) :
    (dupShallow S src).kids = (keysOf S src.kids).map (fun k => k.setMetas []) := by
  cases src <;> simp [dupShallow, DNode.kids, keysOf]

theorem mem_takeWhile_imp {α : Type} (p : α → Bool) : ∀ (l : List α) (x : α), x ∈ l.takeWhile p → p x = true
  | [], _, h => by simp at h
  | y :: ys, x, h => by
    simp only [List.takeWhile_cons] at h
    split at h
    · rename_i hy
      rcases List.mem_cons.1 h with h | h
      · subst h; exact hy
      · exact mem_takeWhile_imp p ys x h
    · simp at h

theorem keysOf_all_key (S : Schema) (ks : List DNode) : ∀ x ∈ keysOf S ks, S.isKey x.sid = true := by
  intro x hx
  exact mem_takeWhile_imp _ ks x hx

/-- the parent copy of a matched pair: its key is the key of the pair, its children after the keys are the sub-diff -/
theorem parentNode_facts (S : Schema) (src : DNode) (f : Flags) (m : List Meta) (sub : List DNode)
    (hinner : S.isInner src.sid = true) (hsub : ∀ x ∈ sub, S.isKey x.sid = false) :
    kkey S (.inner (dupShallow S src).sid f m ((dupShallow S src).kids ++ sub)) = kkey S src ∧
    noKeys S (DNode.inner (dupShallow S src).sid f m ((dupShallow S src).kids ++ sub)).kids = sub := by
  have hk1 : ∀ x ∈ (dupShallow S src).kids, S.isKey x.sid = true := by
    intro x hx
    rw [dupShallow_kids] at hx
    obtain ⟨y, hy, rfl⟩ := List.mem_map.1 hx
    rw [setMetas_sid]; exact keysOf_all_key S _ y hy
  have hnt := isInner_not_isTerm S src.sid hinner
  have hnll : S.isKind src.sid .leaflist = false := by
    unfold Schema.isTerm at hnt
    simp only [Bool.or_eq_false_iff] at hnt
    exact hnt.2
  constructor
  · have h1 : kkey S (.inner (dupShallow S src).sid f m ((dupShallow S src).kids ++ sub)) =
        ((dupShallow S src).sid,
          if S.isKind (dupShallow S src).sid .leaflist then [((dupShallow S src).sid, [])]
          else if S.isKind (dupShallow S src).sid .list then keyPairs (keysOf S ((dupShallow S src).kids ++ sub)) else []) := rfl
    rw [h1, dupShallow_sid]
    unfold kkey
    simp only [hnll, Bool.false_eq_true, if_false]
    congr 1
    split
    · unfold keysOf
      rw [takeWhile_append_of _ _ _ hk1 hsub, dupShallow_kids]
      exact keyPairs_map (fun k => k.setMetas []) (fun x => setMetas_sid _ _) (fun x => setMetas_val _ _) _
    · rfl
  · have h2 : (DNode.inner (dupShallow S src).sid f m ((dupShallow S src).kids ++ sub)).kids
        = (dupShallow S src).kids ++ sub := rfl
    rw [h2]
    exact dropWhile_append_of _ _ _ hk1 hsub

theorem plainSid_cases (S : Schema) (sid : Nat) (h : plainSid S sid = true) : S.isTerm sid = true ∨ S.isInner sid = true := by
  unfold plainSid at h
  simp only [Bool.and_eq_true, Bool.or_eq_true] at h
  exact h.2

/-- a matched pair whose recursion produced something is a pair of inner nodes -/
theorem inner_of_sub (S : Schema) (recur : List DNode → List DNode → St) (a b : DNode)
    (hwa : wfNode S a = true) (hwb : wfNode S b = true) (hsid : b.sid = a.sid) (hrec0 : recur [] [] = {})
    (hne : (subOf S recur a b).out ≠ []) : S.isInner a.sid = true := by
  rcases plainSid_cases S a.sid (wfNode_plain S a hwa) with ht | hi
  · exfalso
    apply hne
    have hka := kids_of_term S a hwa ht
    have hkb := kids_of_term S b hwb (by rw [hsid]; exact ht)
    simp [subOf, hka, hkb, noKeys, hrec0]
  · exact hi

theorem node1_kkey (S : Schema) (top : Bool) (recur : List DNode → List DNode → St) (bs : List DNode) (a d : DNode)
    (h : Node1 S top recur bs a d) (hwa : wfNode S a = true) (hwb : ∀ b ∈ bs, wfNode S b = true)
    (hrec0 : recur [] [] = {})
    (hsubkey : ∀ b, partner S bs a = some b → ∀ x ∈ (subOf S recur a b).out, S.isKey x.sid = false) :
    kkey S d = kkey S a := by
  have hnd := plainSid_not_dupInst S a.sid (wfNode_plain S a hwa)
  cases h with
  | del hp => rw [kkey_setMetas, dupRec_kkey]
  | term b atr hp hat =>
    have hop : atr.op ≠ .create := by
      rcases plainAttrs_cases S a b atr hat with ⟨_, _, h⟩ | ⟨_, _, h⟩ <;> simp [h]
    obtain ⟨rest, hd⟩ := withAttrs_metas S (dupRec b) atr hop (dupRec_metas b)
    rw [hd, kkey_setMetas, dupRec_kkey]
    exact partner_kkey S bs a b hnd hp
  | parent b src f m hp hat hne hsrc htop hm =>
    have hkb := partner_kkey S bs a b hnd hp
    have hsb := kkey_sid S b a hkb
    have hin := inner_of_sub S recur a b hwa (hwb b (partner_mem S bs a b hp)) hsb hrec0 hne
    have hsrcin : S.isInner src.sid = true := by
      rcases hsrc with h | h <;> subst h
      · exact hin
      · rw [hsb]; exact hin
    rw [(parentNode_facts S src f m _ hsrcin (hsubkey b hp)).1]
    rcases hsrc with h | h <;> subst h
    · rfl
    · exact hkb

/-! ### the folds -/

theorem pairwise_insertBySchema (R : DNode → DNode → Prop) (hsym : ∀ x y, R x y → R y x) (d : DNode) :
    ∀ (l : List DNode), (∀ x ∈ l, R d x) → l.Pairwise R → (insertBySchema d l).Pairwise R
  | [], _, _ => by simp [insertBySchema]
  | x :: xs, hd, hp => by
    simp only [insertBySchema]
    split
    · exact List.Pairwise.cons hd hp
    · have hp' := List.pairwise_cons.1 hp
      refine List.Pairwise.cons ?_ (pairwise_insertBySchema R hsym d xs (fun y hy => hd y (by simp [hy])) hp'.2)
      intro y hy
      rcases (mem_insertBySchema d xs y).1 hy with h | h
      · subst h; exact hsym _ _ (hd x (by simp))
      · exact hp'.1 y h

/-- invariant of the first pass over a suffix `l` of the first sibling list -/
theorem phase1_fold (S : Schema) (top : Bool) (recur : List DNode → List DNode → St) (bs : List DNode)
    (hwb : ∀ b ∈ bs, wfNode S b = true) (hrec0 : recur [] [] = {})
    (hsubkey : ∀ a, wfNode S a = true → ∀ b, partner S bs a = some b →
      ∀ x ∈ (subOf S recur a b).out, S.isKey x.sid = false) :
    ∀ (l : List DNode) (st : St), (∀ a ∈ l, wfNode S a = true) → l.Pairwise (fun x y => kkey S x ≠ kkey S y) →
      st.uo = [] → st.ptr = 0 → (∀ x ∈ st.out, ∀ a ∈ l, kkey S x ≠ kkey S a) →
      st.out.Pairwise (fun x y => kkey S x ≠ kkey S y) →
      (l.foldl (p1 S top recur bs) st).uo = [] ∧ (l.foldl (p1 S top recur bs) st).used = st.used ∧
      (l.foldl (p1 S top recur bs) st).ptr = 0 ∧
      (l.foldl (p1 S top recur bs) st).out.Pairwise (fun x y => kkey S x ≠ kkey S y) ∧
      (∀ d ∈ (l.foldl (p1 S top recur bs) st).out, d ∈ st.out ∨ ∃ a ∈ l, Node1 S top recur bs a d) ∧
      (∀ d ∈ st.out, d ∈ (l.foldl (p1 S top recur bs) st).out) ∧
      (∀ a ∈ l, NoEmit1 S recur bs a ∨ ∃ d ∈ (l.foldl (p1 S top recur bs) st).out, Node1 S top recur bs a d)
  | [], st, _, _, huo, hptr, _, hpw => by
    simp only [List.foldl_nil]
    exact ⟨huo, trivial, hptr, hpw, fun d hd => Or.inl hd, fun d hd => hd, fun a ha => by simp at ha⟩
  | a :: l, st, hw, hnd, huo, hptr, hno, hpw => by
    simp only [List.foldl_cons]
    have hwa := hw a (by simp)
    have hnd' := List.pairwise_cons.1 hnd
    obtain ⟨h1, h2, h3⟩ := phase1_step S top recur bs st a hwa hwb hrec0 huo (fun x hx => hno x hx a (by simp))
    -- the state after the step
    have hstep : (p1 S top recur bs st a).ptr = 0 ∧
        (∀ x ∈ (p1 S top recur bs st a).out, ∀ a' ∈ l, kkey S x ≠ kkey S a') ∧
        (p1 S top recur bs st a).out.Pairwise (fun x y => kkey S x ≠ kkey S y) := by
      rcases h3 with ⟨ho, hp, _⟩ | ⟨d, hn, ho, hp⟩
      · rw [ho, hp]
        exact ⟨hptr, fun x hx a' ha' => hno x hx a' (by simp [ha']), hpw⟩
      · have hkd := node1_kkey S top recur bs a d hn hwa hwb hrec0 (hsubkey a hwa)
        rw [ho]
        refine ⟨hp, ?_, ?_⟩
        · intro x hx a' ha'
          rcases (mem_insertBySchema d st.out x).1 hx with h | h
          · subst h; rw [hkd]; exact hnd'.1 a' ha'
          · exact hno x h a' (by simp [ha'])
        · apply pairwise_insertBySchema _ (fun x y h => fun e => h e.symm) d st.out _ hpw
          intro x hx
          rw [hkd]
          exact fun e => hno x hx a (by simp) e.symm
    obtain ⟨i1, i2, i3, i4, i5, i6, i7⟩ := phase1_fold S top recur bs hwb hrec0 hsubkey l (p1 S top recur bs st a)
      (fun x hx => hw x (by simp [hx])) hnd'.2 h1 hstep.1 hstep.2.1 hstep.2.2
    refine ⟨i1, by rw [i2, h2], i3, i4, ?_, ?_, ?_⟩
    · intro d hd
      rcases i5 d hd with h | ⟨a', ha', hn⟩
      · rcases h3 with ⟨ho, _, _⟩ | ⟨d', hn', ho, _⟩
        · rw [ho] at h; exact Or.inl h
        · rw [ho] at h
          rcases (mem_insertBySchema d' st.out d).1 h with h | h
          · subst h; exact Or.inr ⟨a, by simp, hn'⟩
          · exact Or.inl h
      · exact Or.inr ⟨a', by simp [ha'], hn⟩
    · intro d hd
      apply i6
      rcases h3 with ⟨ho, _, _⟩ | ⟨d', _, ho, _⟩
      · rw [ho]; exact hd
      · rw [ho]; exact (mem_insertBySchema d' st.out d).2 (Or.inr hd)
    · intro a' ha'
      rcases List.mem_cons.1 ha' with h | h
      · subst h
        rcases h3 with ⟨_, _, hne⟩ | ⟨d', hn', ho, _⟩
        · exact Or.inl hne
        · exact Or.inr ⟨d', i6 d' (by rw [ho]; exact (mem_insertBySchema d' st.out d').2 (Or.inl rfl)), hn'⟩
      · exact i7 a' h

/-- the diff node of a created instance -/
def cnode (b : DNode) : DNode := (dupRec b).setMetas [("operation", Op.create.bytes)]

theorem cnode_kkey (S : Schema) (b : DNode) : kkey S (cnode b) = kkey S b := by
  unfold cnode; rw [kkey_setMetas, dupRec_kkey]

theorem phase2_fold (S : Schema) (as : List DNode) :
    ∀ (l : List DNode) (st : St), (∀ b ∈ l, wfNode S b = true) → l.Pairwise (fun x y => kkey S x ≠ kkey S y) →
      st.uo = [] → st.ptr = 0 → (∀ x ∈ st.out, ∀ b ∈ l, partner S as b = none → kkey S x ≠ kkey S b) →
      st.out.Pairwise (fun x y => kkey S x ≠ kkey S y) →
      (l.foldl (p2 S as) st).ptr = 0 ∧
      (l.foldl (p2 S as) st).out.Pairwise (fun x y => kkey S x ≠ kkey S y) ∧
      (∀ d ∈ (l.foldl (p2 S as) st).out, d ∈ st.out ∨ ∃ b ∈ l, partner S as b = none ∧ d = cnode b) ∧
      (∀ d ∈ st.out, d ∈ (l.foldl (p2 S as) st).out) ∧
      (∀ b ∈ l, partner S as b = none → cnode b ∈ (l.foldl (p2 S as) st).out)
  | [], st, _, _, _, hptr, _, hpw => by
    simp only [List.foldl_nil]
    exact ⟨hptr, hpw, fun d hd => Or.inl hd, fun d hd => hd, fun b hb => by simp at hb⟩
  | b :: l, st, hw, hnd, huo, hptr, hno, hpw => by
    simp only [List.foldl_cons]
    have hwb := hw b (by simp)
    have hnd' := List.pairwise_cons.1 hnd
    by_cases hp : partner S as b = none
    · -- created
      obtain ⟨h1, _, h3⟩ := phase2_step S as st b hwb huo (fun x hx => hno x hx b (by simp) hp)
      rcases h3 with ⟨_, _, hne⟩ | ⟨_, ho, hpt⟩
      · exact absurd hp hne
      · have ho' : (p2 S as st b).out = insertBySchema (cnode b) st.out := ho
        obtain ⟨i1, i2, i3, i4, i5⟩ := phase2_fold S as l (p2 S as st b) (fun x hx => hw x (by simp [hx])) hnd'.2 h1 hpt
          (by
            intro x hx b' hb' hp'
            rw [ho'] at hx
            rcases (mem_insertBySchema _ st.out x).1 hx with h | h
            · subst h; rw [cnode_kkey]; exact hnd'.1 b' hb'
            · exact hno x h b' (by simp [hb']) hp')
          (by
            rw [ho']
            apply pairwise_insertBySchema _ (fun x y h => fun e => h e.symm) _ st.out _ hpw
            intro x hx
            rw [cnode_kkey]
            exact fun e => hno x hx b (by simp) hp e.symm)
        refine ⟨i1, i2, ?_, ?_, ?_⟩
        · intro d hd
          rcases i3 d hd with h | ⟨b', hb', hn⟩
          · rw [ho'] at h
            rcases (mem_insertBySchema _ st.out d).1 h with h | h
            · exact Or.inr ⟨b, by simp, hp, h⟩
            · exact Or.inl h
          · exact Or.inr ⟨b', by simp [hb'], hn⟩
        · intro d hd
          apply i4
          rw [ho']; exact (mem_insertBySchema _ st.out d).2 (Or.inr hd)
        · intro b' hb' hp'
          rcases List.mem_cons.1 hb' with h | h
          · subst h
            apply i4
            rw [ho']; exact (mem_insertBySchema _ st.out _).2 (Or.inl rfl)
          · exact i5 b' h hp'
    · -- matched in the first tree: handled in the first pass
      have hst : p2 S as st b = st := by
        unfold p2
        cases h : partner S as b with
        | none => exact absurd h hp
        | some x => rfl
      rw [hst]
      obtain ⟨i1, i2, i3, i4, i5⟩ := phase2_fold S as l st (fun x hx => hw x (by simp [hx])) hnd'.2 huo hptr
        (fun x hx b' hb' hp' => hno x hx b' (by simp [hb']) hp') hpw
      refine ⟨i1, i2, ?_, i4, ?_⟩
      · intro d hd
        rcases i3 d hd with h | ⟨b', hb', hn⟩
        · exact Or.inl h
        · exact Or.inr ⟨b', by simp [hb'], hn⟩
      · intro b' hb' hp'
        rcases List.mem_cons.1 hb' with h | h
        · subst h; exact absurd hp' hp
        · exact i5 b' h hp'

/-! ### the level, assembled -/

/-- what one call of `lyd_diff_siblings_r` leaves at its level, on the fragment -/
structure LevelD (S : Schema) (top : Bool) (recur : List DNode → List DNode → St) (as bs out : List DNode) : Prop where
  sound : ∀ d ∈ out, (∃ a ∈ as, Node1 S top recur bs a d) ∨ (∃ b ∈ bs, partner S as b = none ∧ d = cnode b)
  distinct : out.Pairwise (fun x y => kkey S x ≠ kkey S y)
  complete1 : ∀ a ∈ as, NoEmit1 S recur bs a ∨ ∃ d ∈ out, Node1 S top recur bs a d
  complete2 : ∀ b ∈ bs, partner S as b = none → cnode b ∈ out

theorem foldl_zipIdx_congr {α β : Type} (f : β → α × Nat → β) (g : β → α → β) :
    ∀ (l : List α) (k : Nat) (init : β), (∀ st a i, a ∈ l → f st (a, i) = g st a) →
      (l.zipIdx k).foldl f init = l.foldl g init
  | [], _, _, _ => by simp
  | x :: xs, k, init, h => by
    simp only [List.zipIdx_cons, List.foldl_cons, h init x k (by simp)]
    exact foldl_zipIdx_congr f g xs (k + 1) _ (fun st a i ha => h st a i (by simp [ha]))

theorem diffSiblings_nil (S : Schema) (d : Bool) (fuel : Nat) (top : Bool) : diffSiblings S d fuel top [] [] = {} := by
  cases fuel <;> simp [diffSiblings, resetPhase]

theorem canon_pairwise_kkey (S : Schema) : ∀ (l : List DNode), canonB S l = true → (∀ x ∈ l, shapeOk S x = true) →
    l.Pairwise (fun x y => kkey S x ≠ kkey S y)
  | [], _, _ => List.Pairwise.nil
  | x :: xs, hc, hs => by
    have hc' := (canonB_cons S x xs).1 hc
    refine List.Pairwise.cons ?_ (canon_pairwise_kkey S xs hc'.2 (fun y hy => hs y (by simp [hy])))
    intro y hy
    exact kkey_ne_of_klt S x y (hs x (by simp)) (hs y (by simp [hy])) (hc'.1 y hy)

theorem noKeys_notKey (S : Schema) (n : DNode) (hw : wfNode S n = true) : ∀ y ∈ noKeys S n.kids, S.isKey y.sid = false := by
  cases n with
  | term s f m v => intro y hy; simp [DNode.kids, noKeys] at hy
  | inner s f m ks => exact (wfNode_inner S s f m ks hw).restNoKey

theorem levelD (S : Schema) (fuel : Nat) (top : Bool) (as bs : List DNode)
    (hwa : wfL S as = true) (hwb : wfL S bs = true) (hca : canonB S as = true) (hcb : canonB S bs = true) :
    (diffSiblings S true (fuel + 1) top as bs).ptr = 0 ∧
    LevelD S top (diffSiblings S true fuel false) as bs (diffSiblings S true (fuel + 1) top as bs).out := by
  have hwa' : ∀ a ∈ as, wfNode S a = true := fun a ha => wfL_mem S as a hwa ha
  have hwb' : ∀ b ∈ bs, wfNode S b = true := fun b hb => wfL_mem S bs b hwb hb
  have hsa : ∀ x ∈ as, shapeOk S x = true := fun x hx => wfNode_shape S x (hwa' x hx)
  have hsb : ∀ x ∈ bs, shapeOk S x = true := fun x hx => wfNode_shape S x (hwb' x hx)
  have hrec0 := diffSiblings_nil S true fuel false
  have hsubkey : ∀ a, wfNode S a = true → ∀ b, partner S bs a = some b →
      ∀ x ∈ (subOf S (diffSiblings S true fuel false) a b).out, S.isKey x.sid = false := by
    intro a hwa1 b hp x hx
    obtain ⟨y, hy, he⟩ := diffSiblings_sids S true fuel false _ _ x hx
    rw [he]
    rcases List.mem_append.1 hy with hy | hy
    · exact noKeys_notKey S a hwa1 y hy
    · exact noKeys_notKey S b (hwb' b (partner_mem S bs a b hp)) y hy
  -- the two passes as folds over the lists
  have e1 : as.zipIdx.foldl (phase1Step S true top (diffSiblings S true fuel false) as bs) {}
      = as.foldl (p1 S top (diffSiblings S true fuel false) bs) {} := by
    apply foldl_zipIdx_congr
    intro st a i ha
    have hpl := wfNode_plain S a (hwa' a ha)
    exact phase1Step_eq_p1 S top _ as bs st a i (plainSid_not_userOrd S _ hpl) (plainSid_not_dupInst S _ hpl)
  have e2 : ∀ st0, bs.zipIdx.foldl (phase2Step S true as bs) st0 = bs.foldl (p2 S as) st0 := by
    intro st0
    apply foldl_zipIdx_congr
    intro st b j hb
    have hpl := wfNode_plain S b (hwb' b hb)
    exact phase2Step_eq_p2 S as bs st b j (plainSid_not_userOrd S _ hpl) (plainSid_not_dupInst S _ hpl)
  obtain ⟨f1, _, f3, f4, f5, _, f7⟩ := phase1_fold S top (diffSiblings S true fuel false) bs hwb' hrec0 hsubkey as {}
    hwa' (canon_pairwise_kkey S as hca hsa) rfl rfl (fun x hx => by simp at hx) List.Pairwise.nil
  have hreset : ∀ st : St, st.uo = [] → (resetPhase st).uo = [] ∧ (resetPhase st).out = st.out ∧
      (resetPhase st).ptr = st.ptr := by
    intro st h; simp [resetPhase, h]
  obtain ⟨r1, r2, r3⟩ := hreset _ f1
  obtain ⟨g1, g2, g3, g4, g5⟩ := phase2_fold S as bs (resetPhase (as.foldl (p1 S top (diffSiblings S true fuel false) bs) {}))
    hwb' (canon_pairwise_kkey S bs hcb hsb) r1 (by rw [r3]; exact f3)
    (by
      intro x hx b hb hp
      rw [r2] at hx
      rcases f5 x hx with h | ⟨a, ha, hn⟩
      · simp at h
      · rw [node1_kkey S top _ bs a x hn (hwa' a ha) hwb' hrec0 (hsubkey a (hwa' a ha))]
        have hnd := plainSid_not_dupInst S b.sid (wfNode_plain S b (hwb' b hb))
        exact partner_none S as b hnd hp a ha)
    (by rw [r2]; exact f4)
  simp only [diffSiblings, e1, e2]
  refine ⟨g1, ⟨?_, g2, ?_, g5⟩⟩
  · intro d hd
    rcases g3 d hd with h | h
    · rw [r2] at h
      rcases f5 d h with h' | h'
      · simp at h'
      · exact Or.inl h'
    · exact Or.inr h
  · intro a ha
    rcases f7 a ha with h | ⟨d, hd, hn⟩
    · exact Or.inl h
    · exact Or.inr ⟨d, g4 d (by rw [r2]; exact hd), hn⟩

end LyModel.Diff
