import LyModel.Diff.UORevSim
/-!
# C13 bridge, step (ii): the list core with original anchors over the STRICT generic core `UOG` (identities = leaf-list values)

`Diff/UserOrdRev.lean` (`UO.diffU'`, `UO.reverseU`, `userord_reverse_apply` over `Nat` identities and the lenient `UO.applyOp`) restated
for `UORev.UOpO` (values `Bytes`) and `UOG.applyOp`, which is as strict as `lyd_diff_insert` (a move to the moved instance itself /
of the first instance to the front is an error): `diffO va vb` = `UOG.diffU va vb` with the original anchors
(`diffO_forget`), and `applyO vb (reverseO (diffO va vb)) = some va` (`reverse_apply_core`).  Core Lean only.
-/
namespace LyModel.Diff.UORev
open LyModel LyModel.Diff.UOG

/-- as in the C06 bridge: `==` on byte strings is the one derived from decidable equality (what `UOG` is instantiated with) -/
local instance (priority := high) bytesBEq : BEq Bytes := instBEqOfDecidableEq

/-- apply operations that carry original anchors (`lyd_diff_apply_r` ignores them) -/
def applyO (a : List Bytes) (ops : List UOpO) : Option (List Bytes) := applyU a (ops.map UOpO.forget)

/-- `inst[first_pos - 1]`: the instance before `x` in the virtual list (`none`: `x` is the first one) -/
def predOf (x : Bytes) (v : List Bytes) : Option Bytes := (v.takeWhile (· ≠ x)).getLast?

/-- phase 1 with original anchors -/
def phase1O (b : List Bytes) : List Bytes → List UOpO × List Bytes → List UOpO × List Bytes
  | [], st => st
  | x :: xs, (ops, v) => if x ∈ b then phase1O b xs (ops, v) else phase1O b xs (ops ++ [.del x (predOf x v)], v.erase x)

/-- phase 2 with original anchors -/
def phase2O (a : List Bytes) : List Bytes → List UOpO × List Bytes × Nat → List UOpO × List Bytes × Nat
  | [], st => st
  | y :: ys, (ops, v, pos) =>
    let anchor := if pos = 0 then none else v[pos-1]?
    if y ∈ a then
      if v[pos]? = some y then phase2O a ys (ops, v, pos+1)
      else phase2O a ys (ops ++ [.move y anchor (predOf y v)], insertAt (v.erase y) pos y, pos+1)
    else phase2O a ys (ops ++ [.create y anchor], insertAt v pos y, pos+1)

def diffO (a b : List Bytes) : List UOpO :=
  let (d, v) := phase1O b a ([], a)
  (phase2O a b (d, v, 0)).1

/-! ## `diffO` is `diffU` with the original anchors added -/

theorem phase1O_forget (b : List Bytes) : ∀ (todo : List Bytes) (ops : List UOpO) (v : List Bytes),
    ((phase1O b todo (ops, v)).1.map UOpO.forget, (phase1O b todo (ops, v)).2) = phase1 b todo (ops.map UOpO.forget, v)
  | [], ops, v => rfl
  | x :: xs, ops, v => by
    by_cases hx : x ∈ b
    · simp only [phase1O, phase1, hx, if_true]
      exact phase1O_forget b xs ops v
    · simp only [phase1O, phase1, hx, if_false]
      have := phase1O_forget b xs (ops ++ [.del x (predOf x v)]) (v.erase x)
      simpa [UOpO.forget] using this

theorem phase2O_forget (a : List Bytes) : ∀ (ys : List Bytes) (ops : List UOpO) (v : List Bytes) (pos : Nat),
    ((phase2O a ys (ops, v, pos)).1.map UOpO.forget, (phase2O a ys (ops, v, pos)).2) = phase2 a ys (ops.map UOpO.forget, v, pos)
  | [], ops, v, pos => rfl
  | y :: ys, ops, v, pos => by
    by_cases hy : y ∈ a
    · by_cases hh : v[pos]? = some y
      · simp only [phase2O, phase2, hy, if_true, hh]
        exact phase2O_forget a ys ops v (pos + 1)
      · simp only [phase2O, phase2, hy, if_true, hh, if_false]
        have := phase2O_forget a ys (ops ++ [.move y (if pos = 0 then none else v[pos-1]?) (predOf y v)])
          (insertAt (v.erase y) pos y) (pos + 1)
        simpa [UOpO.forget] using this
    · simp only [phase2O, phase2, hy, if_false]
      have := phase2O_forget a ys (ops ++ [.create y (if pos = 0 then none else v[pos-1]?)]) (insertAt v pos y) (pos + 1)
      simpa [UOpO.forget] using this

theorem diffO_forget (a b : List Bytes) : (diffO a b).map UOpO.forget = diffU a b := by
  unfold diffO diffU
  have h1 := phase1O_forget b a [] a
  simp only [List.map_nil] at h1
  have h2 := phase2O_forget a b (phase1O b a ([], a)).1 (phase1O b a ([], a)).2 0
  rw [← h1]
  exact congrArg Prod.fst h2

/-! ## chains of operations that are undone by their inverses -/

/-- the operations lead from `v` to `w`, and every one is undone by its inverse -/
def InvChain : List Bytes → List UOpO → List Bytes → Prop
  | v, [], w => v = w
  | v, op :: ops, w => ∃ v', applyOp (some v) op.forget = some v' ∧ applyOp (some v') (invOp op).forget = some v ∧
      InvChain v' ops w

theorem InvChain.append {v m w : List Bytes} {o1 o2 : List UOpO} (h1 : InvChain v o1 m) (h2 : InvChain m o2 w) :
    InvChain v (o1 ++ o2) w := by
  induction o1 generalizing v with
  | nil => simp only [InvChain] at h1; subst h1; simpa using h2
  | cons op ops ih =>
    obtain ⟨v', f, g, r⟩ := h1
    exact ⟨v', f, g, ih r⟩

/-- a chain applied forwards -/
theorem chain_apply {v w : List Bytes} {ops : List UOpO} (h : InvChain v ops w) : applyO v ops = some w := by
  induction ops generalizing v with
  | nil => simp only [InvChain] at h; subst h; rfl
  | cons op ops ih =>
    obtain ⟨v', f, _, r⟩ := h
    unfold applyO
    rw [List.map_cons, applyU_cons, f]
    exact ih r

/-- a chain is undone by its reversal -/
theorem chain_reverse {v w : List Bytes} {ops : List UOpO} (h : InvChain v ops w) : applyO w (reverseO ops) = some v := by
  induction ops generalizing v with
  | nil => simp only [InvChain] at h; subst h; rfl
  | cons op ops ih =>
    obtain ⟨v', _, g, r⟩ := h
    have := ih r
    unfold applyO reverseO at this ⊢
    rw [List.map_cons, List.reverse_cons, List.map_append, applyU_append, this]
    simpa [applyU] using g

/-! ## the original anchor -/

theorem predOf_split (y : Bytes) (p q : List Bytes) (h : y ∉ p) : predOf y (p ++ y :: q) = anchorOf p := by
  unfold predOf anchorOf
  have : (p ++ y :: q).takeWhile (· ≠ y) = p := by
    induction p with
    | nil => simp
    | cons c cs ih =>
      have hc : c ≠ y := by intro e; exact h (by simp [e])
      have hcs : y ∉ cs := by intro e; exact h (by simp [e])
      have ih' := ih hcs
      simp only [ne_eq, decide_not] at ih' ⊢
      simp [hc, ih']
  rw [this]

/-- a move changes the predecessor -/
def MoveNe : UOpO → Prop
  | .move _ a o => a ≠ o
  | _ => True

/-! ## the two passes produce a chain -/

theorem phase1O_spec (b : List Bytes) (todo kept : List Bytes) (ops : List UOpO) (nd : (kept ++ todo).Nodup) :
    ∃ ops', phase1O b todo (ops, kept ++ todo) = (ops ++ ops', kept ++ todo.filter (fun x => decide (x ∈ b))) ∧
      InvChain (kept ++ todo) ops' (kept ++ todo.filter (fun x => decide (x ∈ b))) ∧ ∀ op ∈ ops', MoveNe op := by
  induction todo generalizing kept ops with
  | nil => exact ⟨[], by simp [phase1O], by simp [InvChain], by simp⟩
  | cons x xs ih =>
    by_cases hx : x ∈ b
    · obtain ⟨ops', e1, e2, e3⟩ := ih (kept ++ [x]) ops (by simpa using nd)
      simp only [List.append_assoc, List.singleton_append] at e1 e2
      exact ⟨ops', by simpa [phase1O, hx] using e1, by simpa [hx] using e2, e3⟩
    · have hk : x ∉ kept := by
        intro hk
        exact (List.nodup_append.mp nd).2.2 x hk x (by simp) rfl
      have ndk : kept.Nodup := (List.nodup_append.mp nd).1
      have hxs : x ∉ xs := (List.nodup_cons.mp (List.nodup_append.mp nd).2.1).1
      have nd' : (kept ++ xs).Nodup := by
        have := nd
        simp only [List.nodup_append, List.nodup_cons] at this ⊢
        refine ⟨this.1, this.2.1.2, ?_⟩
        intro a ha b hb
        exact this.2.2 a ha b (by simp [hb])
      obtain ⟨ops', e1, e2, e3⟩ := ih kept (ops ++ [.del x (predOf x (kept ++ x :: xs))]) nd'
      refine ⟨.del x (predOf x (kept ++ x :: xs)) :: ops', ?_, ?_, ?_⟩
      rotate_left 2
      · intro op hop
        simp only [List.mem_cons] at hop
        rcases hop with rfl | hop
        · trivial
        · exact e3 op hop
      · simp only [phase1O, hx, if_false, erase_split x kept xs hk]
        simpa [hx] using e1
      · refine ⟨kept ++ xs, ?_, ?_, by simpa [hx] using e2⟩
        · simp [applyOp, UOpO.forget, erase_split x kept xs hk]
        · rw [predOf_split x kept xs hk]
          simp only [invOp, UOpO.forget, applyOp, Option.bind_some, List.mem_append, hk, hxs, or_self, if_false]
          exact insertAfter_anchor kept xs x ndk

/-- `phase2_spec` (UserOrdPhase2.lean) with the chain in place of the forward application -/
theorem phase2O_spec (a : List Bytes) (ys pre rest : List Bytes) (ops : List UOpO)
    (ndb : (pre ++ ys).Nodup) (ndv : (pre ++ rest).Nodup)
    (h1 : ∀ x, x ∈ rest → x ∈ ys) (h2 : ∀ y, y ∈ ys → y ∈ a → y ∈ rest) (h3 : ∀ x, x ∈ rest → x ∈ a) :
    ∃ ops', phase2O a ys (ops, pre ++ rest, pre.length) = (ops ++ ops', pre ++ ys, (pre ++ ys).length) ∧
            InvChain (pre ++ rest) ops' (pre ++ ys) ∧ ∀ op ∈ ops', MoveNe op := by
  induction ys generalizing pre rest ops with
  | nil =>
    have : rest = [] := by
      cases rest with
      | nil => rfl
      | cons r rs => exact absurd (h1 r (by simp)) (by simp)
    subst this
    exact ⟨[], by simp [phase2O], by simp [InvChain], by simp⟩
  | cons y ys ih =>
    have ndpre : pre.Nodup := (List.nodup_append.mp ndb).1
    have ypre : y ∉ pre := by
      intro hy; exact (List.nodup_append.mp ndb).2.2 y hy y (by simp) rfl
    have yys : y ∉ ys := by
      have := (List.nodup_append.mp ndb).2.1
      exact (List.nodup_cons.mp this).1
    have ndb' : ((pre ++ [y]) ++ ys).Nodup := by simpa using ndb
    by_cases hya : y ∈ a
    · have hyr : y ∈ rest := h2 y (by simp) hya
      obtain ⟨r1, r2, hr, hyr1⟩ : ∃ r1 r2, rest = r1 ++ y :: r2 ∧ y ∉ r1 := by
        obtain ⟨s, t, hst⟩ := List.append_of_mem hyr
        induction s generalizing rest with
        | nil => exact ⟨[], t, hst, by simp⟩
        | cons c cs _ =>
          refine ⟨c :: cs, t, hst, ?_⟩
          have ndr : rest.Nodup := (List.nodup_append.mp ndv).2.1
          rw [hst] at ndr
          intro hmem
          exact (List.nodup_append.mp ndr).2.2 y hmem y (by simp) rfl
      subst hr
      have ndv' : ((pre ++ [y]) ++ (r1 ++ r2)).Nodup := by
        have := ndv
        simp only [List.nodup_append, List.nodup_cons, List.mem_append, List.mem_cons] at this ⊢
        grind
      have h1' : ∀ x, x ∈ r1 ++ r2 → x ∈ ys := by
        intro x hx
        have hx' : x ∈ r1 ++ y :: r2 := by
          simp only [List.mem_append, List.mem_cons] at hx ⊢; grind
        have := h1 x hx'
        have hne : x ≠ y := by
          intro e; subst e
          have := (List.nodup_append.mp ndv).2.1
          simp only [List.nodup_append, List.nodup_cons, List.mem_append] at this hx
          grind
        simpa [hne] using this
      have h2' : ∀ z, z ∈ ys → z ∈ a → z ∈ r1 ++ r2 := by
        intro z hz hza
        have := h2 z (by simp [hz]) hza
        have hne : z ≠ y := by intro e; subst e; exact yys hz
        simp only [List.mem_append, List.mem_cons] at this ⊢; grind
      have h3' : ∀ x, x ∈ r1 ++ r2 → x ∈ a := by
        intro x hx; apply h3; simp only [List.mem_append, List.mem_cons] at hx ⊢; grind
      by_cases hhead : (pre ++ (r1 ++ y :: r2))[pre.length]? = some y
      · -- already in place: r1 must be empty
        have hr1 : r1 = [] := by
          rw [getElem?_at_len] at hhead
          cases r1 with
          | nil => rfl
          | cons c cs => simp at hhead; subst hhead; exact absurd (by simp) hyr1
        subst hr1
        obtain ⟨ops', e1, e2, e3⟩ := ih (pre ++ [y]) r2 ops ndb' (by simpa using ndv') (by simpa using h1')
          (by simpa using h2') (by simpa using h3')
        refine ⟨ops', ?_, ?_, e3⟩
        · have hh : (pre ++ y :: r2)[pre.length]? = some y := by simp
          simp only [phase2O, hya, if_true, hh, List.nil_append]
          simpa using e1
        · simpa using e2
      · -- move
        have hpo : predOf y (pre ++ (r1 ++ y :: r2)) = anchorOf (pre ++ r1) := by
          rw [← List.append_assoc]
          exact predOf_split y (pre ++ r1) r2 (by simp [ypre, hyr1])
        have ndpr : (pre ++ r1).Nodup := by
          have := ndv
          simp only [List.nodup_append, List.nodup_cons, List.mem_append, List.mem_cons] at this ⊢
          grind
        obtain ⟨ops', e1, e2, e3⟩ := ih (pre ++ [y]) (r1 ++ r2) (ops ++ [.move y (anchorOf pre) (anchorOf (pre ++ r1))]) ndb' ndv'
          h1' h2' h3'
        have her : (pre ++ (r1 ++ y :: r2)).erase y = pre ++ (r1 ++ r2) := by
          rw [← List.append_assoc, erase_split y (pre ++ r1) r2 (by simp [ypre, hyr1]), List.append_assoc]
        refine ⟨.move y (anchorOf pre) (anchorOf (pre ++ r1)) :: ops', ?_, ?_, ?_⟩
        rotate_left 2
        · intro op hop
          simp only [List.mem_cons] at hop
          rcases hop with rfl | hop
          · simp only [MoveNe]
            intro e
            have hr1 : r1 ≠ [] := by
              intro e'
              subst e'
              apply hhead
              simp
            rcases List.eq_nil_or_concat r1 with h0 | ⟨q, z, hq⟩
            · exact hr1 h0
            · subst hq
              have hz : anchorOf (pre ++ q.concat z) = some z := by simp [anchorOf]
              rw [hz] at e
              have hzp : z ∈ pre := List.mem_of_getLast? e
              exact (List.nodup_append.mp ndpr).2.2 z hzp z (by simp) rfl
          · exact e3 op hop
        · simp only [phase2O, hya, if_true, hhead, if_false, anchor_eq, her, insertAt_left, hpo]
          simpa using e1
        · refine ⟨pre ++ y :: (r1 ++ r2), ?_, ?_, by simpa using e2⟩
          · have hc : y ∈ pre ++ (r1 ++ y :: r2) ∧ anchorOf pre ≠ some y ∧
                ¬ (anchorOf pre = none ∧ (pre ++ (r1 ++ y :: r2)).head? = some y) := by
              refine ⟨by simp, ?_, ?_⟩
              · intro e
                exact ypre (List.mem_of_getLast? e)
              · rintro ⟨e1, e2⟩
                have hp : pre = [] := by simpa [anchorOf] using e1
                subst hp
                apply hhead
                simpa [List.head?_eq_getElem?] using e2
            simp only [UOpO.forget, applyOp, Option.bind_some]
            rw [if_pos hc, her]
            exact insertAfter_anchor pre (r1 ++ r2) y ndpre
          · have her2 : (pre ++ y :: (r1 ++ r2)).erase y = (pre ++ r1) ++ r2 := by
              rw [erase_split y pre (r1 ++ r2) ypre, List.append_assoc]
            have hr1 : r1 ≠ [] := by
              intro e
              subst e
              apply hhead
              simp
            have hc : y ∈ pre ++ y :: (r1 ++ r2) ∧ anchorOf (pre ++ r1) ≠ some y ∧
                ¬ (anchorOf (pre ++ r1) = none ∧ (pre ++ y :: (r1 ++ r2)).head? = some y) := by
              refine ⟨by simp, ?_, ?_⟩
              · intro e
                have := List.mem_of_getLast? e
                simp only [List.mem_append] at this
                exact this.elim ypre hyr1
              · rintro ⟨e1, _⟩
                have hp : r1 = [] ∧ pre = [] := by simpa [anchorOf] using e1
                exact hr1 hp.1
            simp only [invOp, UOpO.forget, applyOp, Option.bind_some]
            rw [if_pos hc, her2, insertAfter_anchor (pre ++ r1) r2 y ndpr, List.append_assoc]
    · -- create
      have hyr : y ∉ rest := fun h => hya (h3 y h)
      have ndv' : ((pre ++ [y]) ++ rest).Nodup := by
        have := ndv
        simp only [List.nodup_append, List.nodup_cons, List.mem_append, List.mem_cons] at this ⊢
        grind
      have h1' : ∀ x, x ∈ rest → x ∈ ys := by
        intro x hx
        have := h1 x hx
        have hne : x ≠ y := by intro e; subst e; exact hyr hx
        simpa [hne] using this
      have h2' : ∀ z, z ∈ ys → z ∈ a → z ∈ rest := fun z hz hza => h2 z (by simp [hz]) hza
      obtain ⟨ops', e1, e2, e3⟩ := ih (pre ++ [y]) rest (ops ++ [.create y (anchorOf pre)]) ndb' ndv' h1' h2' h3
      refine ⟨.create y (anchorOf pre) :: ops', ?_, ?_, ?_⟩
      rotate_left 2
      · intro op hop
        simp only [List.mem_cons] at hop
        rcases hop with rfl | hop
        · trivial
        · exact e3 op hop
      · simp only [phase2O, hya, if_false, anchor_eq, insertAt_left]
        simpa using e1
      · refine ⟨pre ++ y :: rest, ?_, ?_, by simpa using e2⟩
        · simp only [UOpO.forget, applyOp, Option.bind_some, List.mem_append, ypre, hyr, or_self, if_false]
          exact insertAfter_anchor pre rest y ndpre
        · simp [invOp, UOpO.forget, applyOp, erase_split y pre rest ypre]

/-- the operations of `diffO a b` lead from `a` to `b`, each undone by its inverse -/
theorem diffO_chain (a b : List Bytes) (nda : a.Nodup) (ndb : b.Nodup) :
    InvChain a (diffO a b) b ∧ ∀ op ∈ diffO a b, MoveNe op := by
  obtain ⟨o1, p1, c1, m1⟩ := phase1O_spec b a [] [] (by simpa using nda)
  simp only [List.nil_append] at p1 c1
  obtain ⟨o2, p2, c2, m2⟩ := phase2O_spec a b [] (a.filter fun x => decide (x ∈ b)) o1
    (by simpa using ndb) (by simp only [List.nil_append]; exact List.Pairwise.filter (fun x => decide (x ∈ b)) nda)
    (by intro x hx; simpa using (List.mem_filter.mp hx).2)
    (by intro y hy hya; exact List.mem_filter.mpr ⟨hya, by simpa using hy⟩)
    (by intro x hx; exact (List.mem_filter.mp hx).1)
  simp only [List.nil_append, List.length_nil] at p2 c2
  have : diffO a b = o1 ++ o2 := by
    unfold diffO
    rw [p1]
    show (phase2O a b (o1, List.filter (fun x => decide (x ∈ b)) a, 0)).1 = o1 ++ o2
    rw [p2]
  rw [this]
  refine ⟨c1.append c2, ?_⟩
  intro op hop
  rcases List.mem_append.mp hop with h | h
  · exact m1 op h
  · exact m2 op h


end LyModel.Diff.UORev
