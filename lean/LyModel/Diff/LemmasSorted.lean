import LyModel.Diff.LemmasLevelD2
/-!
# Every level of a computed diff is ordered by schema node (C06 / C13 proofs)

`lyd_diff_add` puts every diff node in front of the first sibling of a later schema node (`insertBySchema`), re-uses nodes in
place and moves a re-used user-ordered node only past nodes of its own schema node: the schema ids along a diff level never
decrease.  Holds for the whole model (every node kind, both options).  Core Lean only.
-/
set_option linter.unusedSimpArgs false
namespace LyModel.Diff
open LyModel LyModel.Tree

def SidSorted (l : List DNode) : Prop := (l.map (·.sid)).Pairwise (· ≤ ·)

theorem sidSorted_nil : SidSorted [] := List.Pairwise.nil

theorem sidSorted_cons {x : DNode} {xs : List DNode} : SidSorted (x :: xs) ↔ (∀ y ∈ xs, x.sid ≤ y.sid) ∧ SidSorted xs := by
  simp [SidSorted, List.pairwise_cons]

theorem insertBySchema_sorted (n : DNode) : ∀ (l : List DNode), SidSorted l → SidSorted (insertBySchema n l)
  | [], _ => by simp [insertBySchema, SidSorted]
  | x :: xs, h => by
    have h' := sidSorted_cons.1 h
    simp only [insertBySchema]
    split
    · rename_i hlt
      refine sidSorted_cons.2 ⟨?_, h⟩
      intro y hy
      rcases List.mem_cons.1 hy with rfl | hy
      · omega
      · have := h'.1 y hy; omega
    · rename_i hnlt
      refine sidSorted_cons.2 ⟨?_, insertBySchema_sorted n xs h'.2⟩
      intro y hy
      rcases (mem_insertBySchema n xs y).1 hy with rfl | hy
      · omega
      · exact h'.1 y hy

theorem map_sid_set : ∀ (l : List DNode) (i : Nat) (e e' : DNode), l[i]? = some e → e'.sid = e.sid →
    (l.set i e').map (·.sid) = l.map (·.sid)
  | [], _, _, _, h, _ => by simp at h
  | x :: xs, 0, e, e', h, hs => by
    simp only [List.getElem?_cons_zero, Option.some.injEq] at h
    subst h
    simp [hs]
  | x :: xs, i + 1, e, e', h, hs => by
    simp only [List.getElem?_cons_succ] at h
    simp [map_sid_set xs i e e' h hs]

theorem append_singleton_comm_of_all (s : Nat) : ∀ (G : List Nat), (∀ x ∈ G, x = s) → G ++ [s] = s :: G
  | [], _ => rfl
  | g :: G, h => by
    have hg : g = s := h g (by simp)
    subst hg
    simp [append_singleton_comm_of_all g G (fun x hx => h x (by simp [hx]))]

theorem split_at_get {α : Type} : ∀ (l : List α) (i : Nat) (e : α), l[i]? = some e → l = l.take i ++ e :: l.drop (i + 1)
  | [], _, _, h => by simp at h
  | x :: xs, 0, e, h => by simp at h; simp [h]
  | x :: xs, i + 1, e, h => by
    simp only [List.getElem?_cons_succ] at h
    simp only [List.take_succ_cons, List.drop_succ_cons, List.cons_append, List.cons.injEq, true_and]
    exact split_at_get xs i e h

theorem takeWhile_append_drop {α : Type} (p : α → Bool) : ∀ l : List α, l.takeWhile p ++ l.drop (l.takeWhile p).length = l
  | [] => rfl
  | x :: xs => by
    simp only [List.takeWhile_cons]
    split
    · simp [takeWhile_append_drop p xs]
    · simp

theorem map_sid_moveToGroupEnd (l : List DNode) (i : Nat) : (moveToGroupEnd l i).map (·.sid) = l.map (·.sid) := by
  unfold moveToGroupEnd
  cases hg : l[i]? with
  | none => rfl
  | some e =>
    simp only
    have hsplit := split_at_get l i e hg
    have hafter : l.drop (i + 1) = (l.drop (i + 1)).takeWhile (·.sid == e.sid) ++
        (l.drop (i + 1)).drop ((l.drop (i + 1)).takeWhile (·.sid == e.sid)).length :=
      (takeWhile_append_drop _ _).symm
    generalize l.drop (i + 1) = after at hsplit hafter
    generalize hgrp : after.takeWhile (·.sid == e.sid) = grp at hafter
    have hall : ∀ x ∈ grp.map (·.sid), x = e.sid := by
      intro x hx
      obtain ⟨y, hy, rfl⟩ := List.mem_map.1 hx
      rw [← hgrp] at hy
      have := mem_takeWhile_imp _ after y hy
      simpa using this
    conv => rhs; rw [hsplit, hafter]
    simp only [List.map_append, List.map_cons, List.map_nil, List.append_assoc]
    congr 1
    have := append_singleton_comm_of_all e.sid (grp.map (·.sid)) hall
    rw [← List.append_assoc, this]
    simp

theorem addExisting_sorted (S : Schema) (out : List DNode) (node : DNode) (a : Attrs) (i : Nat) (h : SidSorted out) :
    SidSorted (addExisting S out node a i).1 := by
  unfold addExisting
  cases hg : out[i]? with
  | none => exact h
  | some e =>
    simp only
    have hset : SidSorted (out.set i (reuseNode S e a)) := by
      unfold SidSorted
      rw [map_sid_set out i e _ hg (reuseNode_sid S e a)]
      exact h
    split
    · unfold SidSorted
      rw [map_sid_moveToGroupEnd]
      exact hset
    · exact hset

theorem addAt_sorted (S : Schema) (out : List DNode) (node : DNode) (a : Attrs) (h : SidSorted out) :
    SidSorted (addAt S out node a).1 := by
  unfold addAt
  generalize (if S.isDupInst node.sid = true then Option.none else findIdxFrom (fun x _ => sameInst S x node) out 0) = ex
  cases ex with
  | some i => exact addExisting_sorted S out node a i h
  | none => exact insertBySchema_sorted _ out h

theorem add_sorted (S : Schema) (st : St) (node : DNode) (a : Attrs) (side : Bool) (h : SidSorted st.out) :
    SidSorted (st.add S node a side).out := by
  unfold St.add
  simp only [emit_out]
  exact addAt_sorted S st.out node a h

theorem wrap_sorted (S : Schema) (top : Bool) (st : St) (a b : DNode) (sub : St) (h : SidSorted st.out) :
    SidSorted (wrapParent S top st a b sub).out := by
  unfold wrapParent
  split
  · exact h
  · simp only [emit_out]
    exact insertBySchema_sorted _ _ h

theorem phase1UO_sorted (S : Schema) (d : Bool) (first second : List DNode) (st : St) (a : DNode) (i : Nat) (m : Option Nat)
    (h : SidSorted st.out) : SidSorted (phase1UO S d first second st a i m).out := by
  unfold phase1UO
  cases m with
  | some _ => exact h
  | none =>
    simp only
    split
    · exact add_sorted S _ a _ false h
    · exact h

theorem phase1Plain_sorted (S : Schema) (d : Bool) (second : List DNode) (st : St) (a : DNode) (m : Option Nat)
    (h : SidSorted st.out) : SidSorted (phase1Plain S d second st a m).out := by
  unfold phase1Plain
  split
  · split
    · exact add_sorted S _ a _ false h
    · split
      · exact add_sorted S _ _ _ true h
      · exact h
  · exact h

theorem phase1Step_sorted (S : Schema) (d top : Bool) (recur : List DNode → List DNode → St) (first second : List DNode)
    (st : St) (a : DNode) (i : Nat) (h : SidSorted st.out) :
    SidSorted (phase1Step S d top recur first second st (a, i)).out := by
  unfold phase1Step
  simp only
  split
  · exact h
  · have h1 : SidSorted
        (if S.isUserOrd a.sid = true then
            phase1UO S d first second { st with used := (findMatch S second a d st.used).2 } a i
              (findMatch S second a d st.used).1
          else phase1Plain S d second { st with used := (findMatch S second a d st.used).2 } a
            (findMatch S second a d st.used).1).out := by
      split
      · exact phase1UO_sorted S d first second _ a i _ h
      · exact phase1Plain_sorted S d second _ a _ h
    split
    · exact wrap_sorted S top _ a _ _ h1
    · exact h1

theorem phase2Step_sorted (S : Schema) (d : Bool) (first second : List DNode) (st : St) (b : DNode) (j : Nat)
    (h : SidSorted st.out) : SidSorted (phase2Step S d first second st (b, j)).out := by
  unfold phase2Step
  simp only
  split
  · exact h
  · generalize findMatch S first b d st.used = fm
    obtain ⟨m, used'⟩ := fm
    simp only
    split
    · split
      · exact add_sorted S _ b _ true h
      · exact h
    · split
      · exact add_sorted S _ b _ true h
      · exact h

theorem foldl_inv {α β : Type} (f : β → α → β) (I : β → Prop) (hstep : ∀ st a, I st → I (f st a)) :
    ∀ (l : List α) (init : β), I init → I (l.foldl f init)
  | [], _, h => h
  | a :: l, init, h => foldl_inv f I hstep l (f init a) (hstep init a h)

/-- the schema ids along a diff level never decrease -/
theorem diffSiblings_sorted (S : Schema) (d : Bool) (fuel : Nat) (top : Bool) (first second : List DNode) :
    SidSorted (diffSiblings S d fuel top first second).out := by
  cases fuel with
  | zero => simp [diffSiblings, SidSorted]
  | succ fuel =>
    simp only [diffSiblings]
    apply foldl_inv (phase2Step S d first second) (fun st => SidSorted st.out)
      (fun st p h => phase2Step_sorted S d first second st p.1 p.2 h)
    show SidSorted (resetPhase _).out
    simp only [resetPhase]
    exact foldl_inv (phase1Step S d top (diffSiblings S d fuel false) first second) (fun st => SidSorted st.out)
      (fun st p h => phase1Step_sorted S d top _ first second st p.1 p.2 h) _ _ (by simp [SidSorted])

theorem diff_sorted (S : Schema) (d : Bool) (A B : List DNode) : SidSorted (diff S d A B) := by
  unfold diff diffFull
  exact diffSiblings_sorted S d _ true A B

end LyModel.Diff
