import LyModel.Diff.UOBridgeNBApply
/-!
# Bridge (C06) — Stage 3a, part 6: one diff node and the whole diff, applied to `P ++ instances ++ Q`
-/
namespace LyModel.Diff.UOB.NB
open LyModel LyModel.Tree LyModel.Diff LyModel.Diff.UOB
set_option linter.unusedSimpArgs false
set_option linter.unusedVariables false
local instance (priority := high) bytesBEqN6 : BEq Bytes := instBEqOfDecidableEq

theorem dataLL_len {s : Nat} {X : List DNode} {l : List Bytes} (h : DataLL s X l) : X.length = l.length := by
  rw [← h.1, List.length_map]

theorem idxOf_lt {l : List Bytes} {k : Bytes} (hk : k ∈ l) : l.idxOf k < l.length := by
  have := idxOf_getElem?_of_mem hk
  exact (List.getElem?_eq_some_iff.mp this).1

/-- **One diff node, among neighbours.** -/
theorem applyStep_op_nb {S : Schema} {s : Nat} (C : LLCtx S s) (fx : Fixes) (recur : Recur) (hp : Bool) (inh : Option Op) {P Q X : List DNode}
    (hP : ∀ x ∈ P, x.sid < s) (hQ : ∀ x ∈ Q, s < x.sid)
    {l l' : List Bytes} (h : DataLL s X l) {d : DNode} {op : UOG.UOp Bytes} (hop : IsOpNode s d op)
    (hap : UOG.applyOp (some l) op = some l') :
    ∃ X', applyStep S fx recur (P ++ X ++ Q) hp inh d = .ok (P ++ X' ++ Q) ∧ DataLL s X' l' := by
  have hPne : ∀ x ∈ P, x.sid ≠ s := fun x hx => Nat.ne_of_lt (hP x hx)
  have hQne : ∀ x ∈ Q, x.sid ≠ s := fun x hx => Nat.ne_of_gt (hQ x hx)
  cases hop with
  | del k ov =>
    have he : effOp (delNode s ov k) inh = some .delete := by rfl
    simp only [UOG.applyOp, Option.bind_some] at hap
    by_cases hk : k ∈ l
    · simp only [hk, if_true, Option.some.injEq] at hap
      subst hap
      have hf := findForApply_ll C h (delNode s ov k) rfl
      simp only [delNode, DNode.val, hk, if_true] at hf
      have hfm := findForApply_mid S P X Q (delNode s ov k) hPne hQne
      simp only [delNode, hf, Option.map_some] at hfm
      refine ⟨X.eraseIdx (l.idxOf k), ?_, h.eraseIdx k⟩
      have hlt : l.idxOf k < X.length := by rw [dataLL_len h]; exact idxOf_lt hk
      have her := eraseIdx_mid P X Q _ hlt
      rw [Nat.add_comm] at her
      simp only [List.append_assoc] at her hfm
      simp only [applyStep, he]
      simp [applyDelete, delNode, hfm, her]
    · simp [hk] at hap
  | create k a ha =>
    have he : effOp (createNode s (a.getD []) k) inh = some .create := by rfl
    simp only [UOG.applyOp, Option.bind_some] at hap
    by_cases hk : k ∈ l
    · simp [hk] at hap
    · simp only [hk, if_false] at hap
      have hn : ∃ nw, dupSingle S (createNode s (a.getD []) k) = .term s { new := nw } [] (dupSingle S (createNode s (a.getD []) k)).val :=
        ⟨true, rfl⟩
      obtain ⟨X', e1, e2⟩ := insertUO_new C hp h (dupSingle S (createNode s (a.getD []) k)) hn a hap
      have hc : X ≠ [] ∨ a = none := by
        cases X with
        | nil =>
          right
          have hl : l = [] := by rw [← h.1]; rfl
          subst hl
          cases a with
          | none => rfl
          | some z => simp [UOG.insertAfter, UOG.insertAfterKey] at hap
        | cons x xs => left; simp
      have e1' := insertUO_mid S hp P X Q (dupSingle S (createNode s (a.getD []) k)) none a X' (by exact C.nd)
        (fun x hx => h.sid x hx) hP hQ (by intro i hi; simp at hi) hc e1
      refine ⟨X', ?_, e2⟩
      have hm : getMeta (createNode s (a.getD []) k) "value" = some (a.getD []) := by rfl
      have hsid : (createNode s (a.getD []) k).sid = s := rfl
      have hset : (dupSingle S (createNode s (a.getD []) k)).setKids [] = dupSingle S (createNode s (a.getD []) k) := rfl
      simp only [Option.map_none, List.append_assoc] at e1'
      simp only [applyStep, he, hsid, C.uo, applyUO, anchorMeta_ll C, hm, decodeAnchor a ha,
        applyKids_term S fx recur _ (rfl : (createNode s (a.getD []) k).kids = []), bind, Except.bind]
      simp [e1', hset, dupSingle, createNode, DNode.setKids] at *
  | move k ov a ha =>
    have he : effOp (moveNode s ov (a.getD []) k) inh = some .replace := by rfl
    simp only [UOG.applyOp, Option.bind_some] at hap
    by_cases hc : k ∈ l ∧ a ≠ some k ∧ ¬ (a = none ∧ l.head? = some k)
    · rw [if_pos hc] at hap
      obtain ⟨nw, hg⟩ := dataLL_get h hc.1
      have hlt : l.idxOf k < X.length := by rw [dataLL_len h]; exact idxOf_lt hc.1
      have hf := findForApply_ll C h (moveNode s ov (a.getD []) k) rfl
      simp only [moveNode, DNode.val, hc.1, if_true] at hf
      have hfm := findForApply_mid S P X Q (moveNode s ov (a.getD []) k) hPne hQne
      simp only [moveNode, hf, Option.map_some] at hfm
      obtain ⟨X', e1, e2⟩ := insertUO_move C hp h (.term s { new := nw } [] k) ⟨nw, rfl⟩ hc.1 a hc.2.1 hc.2.2 hap
      simp only [DNode.val] at e1
      have hXne : X ≠ [] := by intro e; subst e; simp at hlt
      have e1' := insertUO_mid S hp P X Q (.term s { new := nw } [] k) (some (l.idxOf k)) a X' (by exact C.nd)
        (fun x hx => h.sid x hx) hP hQ (by intro i hi; simp at hi; omega) (Or.inl hXne) e1
      simp only [Option.map_some] at e1'
      have hg' : (P ++ X ++ Q)[l.idxOf k + P.length]? = some (.term s { new := nw } [] k) := by
        rw [Nat.add_comm, getElem?_mid' P X Q _ hlt, hg]
      refine ⟨X', ?_, e2⟩
      have hm : getMeta (moveNode s ov (a.getD []) k) "value" = some (a.getD []) := by rfl
      have hsid : (moveNode s ov (a.getD []) k).sid = s := rfl
      simp only [List.append_assoc] at hfm hg' e1'
      simp only [applyStep, he, hsid, C.uo, applyUO, anchorMeta_ll C, hm, decodeAnchor a ha,
        applyKids_term S fx recur _ (rfl : (moveNode s ov (a.getD []) k).kids = []), bind, Except.bind]
      simp [moveNode, hfm, hg', DNode.isTerm, DNode.setDflt, DNode.setFlags, DNode.flags, DNode.setKids, e1']
    · rw [if_neg hc] at hap; simp at hap

/-- **The whole diff, among neighbours.** -/
theorem apply_ops_nb {S : Schema} {s : Nat} (C : LLCtx S s) (fx : Fixes) (fuel : Nat) (hp : Bool) (inh : Option Op) {P Q : List DNode}
    (hP : ∀ x ∈ P, x.sid < s) (hQ : ∀ x ∈ Q, s < x.sid) {nodes : List DNode}
    {ops : List (UOG.UOp Bytes)} (hops : OpNodes s nodes ops) :
    ∀ (X : List DNode) (l l' : List Bytes), DataLL s X l → UOG.applyU l ops = some l' →
      ∃ X', nodes.foldlM (fun sibs d => applyNode S fx (fuel + 1) sibs hp inh d) (P ++ X ++ Q) = .ok (P ++ X' ++ Q) ∧
        DataLL s X' l' := by
  induction hops with
  | nil =>
    intro X l l' h hap
    simp only [UOG.applyU, List.foldl_nil, Option.some.injEq] at hap
    subst hap
    exact ⟨X, rfl, h⟩
  | @cons n op ns ops h1 _ ih =>
    intro X l l' h hap
    rw [UOG.applyU_cons] at hap
    cases hl1 : UOG.applyOp (some l) op with
    | none => simp [hl1] at hap
    | some l1 =>
      simp only [hl1, Option.bind_some] at hap
      obtain ⟨X1, e1, d1⟩ := applyStep_op_nb C fx (applyNode S fx fuel) hp inh hP hQ h h1 hl1
      obtain ⟨X', e2, d2⟩ := ih X1 l1 l' d1 hap
      refine ⟨X', ?_, d2⟩
      rw [List.foldlM_cons]
      show (applyStep S fx (applyNode S fx fuel) (P ++ X ++ Q) hp inh n >>= _) = _
      rw [e1]
      exact e2

theorem normL_app (S : Schema) : ∀ (l1 l2 : List DNode), normL S (l1 ++ l2) = normL S l1 ++ normL S l2
  | [], _ => rfl
  | x :: xs, l2 => by simp [normL, normL_app S xs l2]

/-- **apply(A, diff(A, B)) = B** for `A = P ++ instances va ++ Q`, `B = P ++ instances vb ++ Q`. -/
theorem apply_diff_nb {S : Schema} {s : Nat} (C : LLCtx S s) {P Q : List DNode} (N : NBCtx S s P Q) (fx : Fixes)
    (va vb : List Bytes) (nda : va.Nodup) (ndb : vb.Nodup) (hne : [] ∉ vb) :
    ∃ B', apply S (nbForest s P Q va) (diffFromPtr S true (nbForest s P Q va) (nbForest s P Q vb) fx) fx = .ok B' ∧
      normL S B' = normL S (nbForest s P Q vb) := by
  obtain ⟨nodes, hd, hops⟩ := diffFull_nb C N fx va vb nda ndb hne
  obtain ⟨X', h1, h2⟩ := apply_ops_nb C fx (heightL nodes) false none N.ltP N.gtQ hops (llForest s va) va vb (dataLL_llForest s va)
    (UOG.userord_apply_diff va vb nda ndb)
  refine ⟨P ++ X' ++ Q, ?_, ?_⟩
  · simp only [diffFromPtr, hd, List.drop_zero]; exact h1
  · unfold nbForest
    rw [normL_app, normL_app, normL_app, normL_app, normL_dataLL S s X' vb h2,
      normL_dataLL S s _ vb (dataLL_llForest s vb)]

end LyModel.Diff.UOB.NB
