import LyModel.Diff.Apply
/-!
# Model of `src/diff.c`: `lyd_diff_reverse_all` (reverse) — C13

`reverse` is `lyd_diff_reverse_all(src_diff, &diff)`: the source diff is duplicated (`revDup`: `lyd_dup_siblings` with
`LYD_DUP_RECURSIVE | LYD_DUP_NO_LYDS`, i.e. *without* `LYD_DUP_WITH_FLAGS`: every node gets `LYD_NEW`, keeps only
`LYD_DEFAULT`), then every node that is not a list key is visited depth first (`revNode`):

* `create` ↔ `delete`: the operation is swapped (`changeOp`: the old `yang:operation` is removed, the new one appended
  at the END of the metadata list), explicit operations equal to the old one are removed from the descendants
  (`removeOp`, `lyd_diff_reverse_remove_op_r` — its error return is ignored by the caller, and it stops walking the
  child's subtree at the first other operation), the descendants are not visited;
* `replace`: leaf — value ↔ `orig-value` (`revValue`) and default flag ↔ `orig-default` (`revDefault`); leaf-list —
  `revDefault` and `value` ↔ `orig-value` / `position` ↔ `orig-position`; list — `key` ↔ `orig-key` /
  `position` ↔ `orig-position` (`revMeta`); anything else is `LY_EINT`;
* `none`: leaf / leaf-list — `revDefault`; inner nodes — nothing.

The user-ordered part has the two defects of finding F15 (the moves keep their forward order; a reversed `delete`
has no anchor) — they are in the model exactly as in the code.

Not modelled: the default flag of non-presence containers in the result (`lyd_change_term` inside `revValue` clears it
on the ancestors although the leaf's own flags are restored afterwards; `lyd_dup_r` re-derives it).  `lyd_diff_apply_all`
and `lyd_compare_siblings` do not look at it; driver and harness print it as 0 (`stripNpL`).
Core Lean only.
-/
namespace LyModel.Diff
open LyModel LyModel.Tree

/-- `LY_ERR` values that leave `lyd_diff_reverse_all` / `lyd_diff_merge_all` -/
inductive DiffErr where
  | einval | eint | eexist | enot
  deriving Repr, BEq, DecidableEq

def DiffErr.name : DiffErr → String
  | .einval => "Einval" | .eint => "Eint" | .eexist => "Eexist" | .enot => "Enot"

def DiffErr.ofA : AErr → DiffErr
  | .einval => .einval | .eint => .eint

/-- `lyd_change_meta`: new value of the first metadata instance with that name, in place -/
def setMetaVal (name : String) (v : Bytes) : List Meta → List Meta
  | [] => []
  | m :: ms => if m.1 == name then (name, v) :: ms else m :: setMetaVal name v ms

/-- `lyd_diff_change_op`: delete the operation, append the new one -/
def changeOp (n : DNode) (op : Op) : DNode :=
  n.setMetas (eraseMeta "operation" n.metas ++ [("operation", bs op.str)])

mutual
/-- `lyd_dup_siblings(…, LYD_DUP_RECURSIVE | LYD_DUP_NO_LYDS)` of a diff: metadata kept, flags = `LYD_DEFAULT` of the
original plus `LYD_NEW` -/
def revDup : DNode → DNode
  | .inner s f m ks => .inner s { dflt := f.dflt, new := true } m (revDupL ks)
  | .term s f m v => .term s { dflt := f.dflt, new := true } m v
def revDupL : List DNode → List DNode
  | [] => []
  | n :: ns => revDup n :: revDupL ns
end

mutual
/-- `lyd_diff_reverse_remove_op_r(node, op)`: depth first; remove the node's operation if it is `op`; at the first node with
another operation the walk of this subtree ends (second component `true`) -/
def removeOp (op : Op) : DNode → DNode × Bool
  | .inner s f m ks =>
    match (m.find? (·.1 == "operation")).map (·.2) with
    | some v =>
      if Op.ofBytes v != some op then (.inner s f m ks, true)
      else
        let r := removeOpL op ks
        (.inner s f (eraseMeta "operation" m) r.1, r.2)
    | none =>
      let r := removeOpL op ks
      (.inner s f m r.1, r.2)
  | .term s f m v =>
    match (m.find? (·.1 == "operation")).map (·.2) with
    | some o => if Op.ofBytes o != some op then (.term s f m v, true) else (.term s f (eraseMeta "operation" m) v, false)
    | none => (.term s f m v, false)
def removeOpL (op : Op) : List DNode → List DNode × Bool
  | [] => ([], false)
  | k :: ks =>
    let r := removeOp op k
    if r.2 then (r.1 :: ks, true)
    else
      let r' := removeOpL op ks
      (r.1 :: r'.1, r'.2)
end

/-- `lyd_diff_reverse_value` (leaf): `lyd_change_term` to the original value must change the value (`LY_EEXIST` — the same
value, the default flag got cleared — and `LY_ENOT` — nothing to do — are returned as errors); the node's flags are kept -/
def revValue (n : DNode) : Except DiffErr DNode :=
  match getMeta n "orig-value" with
  | none => .error .einval
  | some ov =>
    if ov == n.val then .error (if n.flags.dflt then .eexist else .enot)
    else .ok ((n.setVal ov).setMetas (setMetaVal "orig-value" n.val n.metas))

/-- `lyd_diff_reverse_default` -/
def revDefault (n : DNode) : Except DiffErr DNode :=
  match getMeta n "orig-default" with
  | none => .error .eint
  | some od =>
    let flag1 := od == bs "true"
    let flag2 := n.flags.dflt
    if flag1 == flag2 then .ok n
    else .ok ((n.setDflt flag1).setMetas (setMetaVal "orig-default" (boolBytes flag2) n.metas))

/-- `lyd_diff_reverse_meta(node, mod, name1, name2)` -/
def revMeta (n : DNode) (name1 name2 : String) : Except DiffErr DNode :=
  match getMeta n name1, getMeta n name2 with
  | some v1, some v2 =>
    -- `lyd_change_meta` reports "no change" (LY_ENOT) for an equal value, which is an error here
    if v1 == v2 then .error .enot else .ok (n.setMetas (setMetaVal name2 v1 (setMetaVal name1 v2 n.metas)))
  | _, _ => .error .einval

/-- the node's own part of one `LYD_TREE_DFS` step for operation `replace` -/
def revReplace (S : Schema) (n : DNode) : Except DiffErr DNode :=
  match S.kind? n.sid with
  | some .leaf => (revValue n).bind revDefault
  | some .leaflist =>
    (revDefault n).bind fun n1 =>
      if S.isDupInst n.sid then revMeta n1 "orig-position" "position" else revMeta n1 "orig-value" "value"
  | some .list =>
    if S.isDupInst n.sid then revMeta n "orig-position" "position" else revMeta n "orig-key" "key"
  | _ => .error .eint

/-- … for operation `none` -/
def revNone (S : Schema) (n : DNode) : Except DiffErr DNode :=
  if S.isTerm n.sid then revDefault n else .ok n

mutual
/-- one node of the `LYD_TREE_DFS` loop of `lyd_diff_reverse_all`; `inh` = the operation inherited from the ancestors -/
def revNode (S : Schema) (inh : Option Op) : DNode → Except DiffErr DNode
  | .inner s f m ks =>
    if S.isKey s then .ok (.inner s f m ks) else
    match effOp (.inner s f m ks) inh with
    | none => .error .eint
    | some .create => .ok ((changeOp (.inner s f m ks) .delete).setKids (ks.map fun k => (removeOp .create k).1))
    | some .delete => .ok ((changeOp (.inner s f m ks) .create).setKids (ks.map fun k => (removeOp .delete k).1))
    | some .replace =>
      match revReplace S (.inner s f m ks) with
      | .error e => .error e
      | .ok n1 =>
        match revL S (childInhOf (.inner s f m ks) inh) ks with
        | .error e => .error e
        | .ok ks' => .ok (n1.setKids ks')
    | some .none =>
      match revL S (childInhOf (.inner s f m ks) inh) ks with
      | .error e => .error e
      | .ok ks' => .ok (.inner s f m ks')
  | .term s f m v =>
    if S.isKey s then .ok (.term s f m v) else
    match effOp (.term s f m v) inh with
    | none => .error .eint
    | some .create => .ok (changeOp (.term s f m v) .delete)
    | some .delete => .ok (changeOp (.term s f m v) .create)
    | some .replace => revReplace S (.term s f m v)
    | some .none => revNone S (.term s f m v)
def revL (S : Schema) (inh : Option Op) : List DNode → Except DiffErr (List DNode)
  | [] => .ok []
  | n :: ns =>
    match revNode S inh n with
    | .error e => .error e
    | .ok n' =>
      match revL S inh ns with
      | .error e => .error e
      | .ok ns' => .ok (n' :: ns')
end

/-- `lyd_diff_reverse_all(src_diff, &diff)` -/
def reverse (S : Schema) (d : List DNode) : Except DiffErr (List DNode) := revL S none (revDupL d)

end LyModel.Diff
