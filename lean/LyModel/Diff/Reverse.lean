import LyModel.Diff.Apply
import LyModel.Generated.Diff13
/-!
# Model of `src/diff.c`: `lyd_diff_reverse_all` (reverse) — C13

`reverse` is `lyd_diff_reverse_all(src_diff, &diff)`: the source diff is duplicated (`revDup`: `lyd_dup_siblings` with
`LYD_DUP_RECURSIVE | LYD_DUP_NO_LYDS`, i.e. *without* `LYD_DUP_WITH_FLAGS`: every node gets `LYD_NEW`, keeps only
`LYD_DEFAULT`), then every node that is not a list key is visited depth first (`revNode`):

* `create` ↔ `delete`: the operation is swapped (`changeOp`: the old `yang:operation` is removed, the new one appended
  at the END of the metadata list), explicit operations equal to the old one are removed from the descendants
  (`removeOp`, `lyd_diff_reverse_remove_op_r` — its error return is ignored by the caller, and it stops walking the
  child's subtree at the first other operation), the descendants are not visited;
* `replace`: leaf — value ↔ `orig-value` (`revValue`) and default flag ↔ `orig-default` (`revDefault`); leaf-list —
  `revDefault` and `value` ↔ `orig-value` / `position` ↔ `orig-position`; list — `key` ↔ `orig-key` /
  `position` ↔ `orig-position` (`revMeta`); anything else is `LY_EINT`;
* `none`: leaf / leaf-list — `revDefault`; inner nodes — nothing.

The user-ordered part of the pinned code (`reversePinned`) has the defects of finding F15 (the moves keep their forward order; a
reversed `delete` has no anchor; position metadata merely switched) — they are in the model exactly as in the code.  The repair
`fixes/F15.diff` (second pass `lyd_diff_reverse_userord_r`, `lyd_diff_reverse_position`) is modelled by `reverseRepaired` /
`revPosition`; `reverse` follows `Generated.Diff13.reverseUserordRepaired`, which tools/extractors/diff13.py reads off the source.

Not modelled: the default flag of non-presence containers in the result (`lyd_change_term` inside `revValue` clears it
on the ancestors although the leaf's own flags are restored afterwards; `lyd_dup_r` re-derives it).  `lyd_diff_apply_all`
and `lyd_compare_siblings` do not look at it; driver and harness print it as 0 (`stripNpL`).
Core Lean only.
-/
namespace LyModel.Diff
open LyModel LyModel.Tree

/-- `LY_ERR` values that leave `lyd_diff_reverse_all` / `lyd_diff_merge_all` -/
inductive DiffErr where
  | einval | eint | eexist | enot
  deriving Repr, BEq, DecidableEq

def DiffErr.name : DiffErr → String
  | .einval => "Einval" | .eint => "Eint" | .eexist => "Eexist" | .enot => "Enot"

def DiffErr.ofA : AErr → DiffErr
  | .einval => .einval | .eint => .eint

/-- `lyd_change_meta`: new value of the first metadata instance with that name, in place -/
def setMetaVal (name : String) (v : Bytes) : List Meta → List Meta
  | [] => []
  | m :: ms => if m.1 == name then (name, v) :: ms else m :: setMetaVal name v ms

/-- `lyd_diff_change_op`: delete the operation, append the new one -/
def changeOp (n : DNode) (op : Op) : DNode :=
  n.setMetas (eraseMeta "operation" n.metas ++ [("operation", bs op.str)])

mutual
/-- `lyd_dup_siblings(…, LYD_DUP_RECURSIVE | LYD_DUP_NO_LYDS)` of a diff: metadata kept, flags = `LYD_DEFAULT` of the
original plus `LYD_NEW` -/
def revDup : DNode → DNode
  | .inner s f m ks => .inner s { dflt := f.dflt, new := true } m (revDupL ks)
  | .term s f m v => .term s { dflt := f.dflt, new := true } m v
def revDupL : List DNode → List DNode
  | [] => []
  | n :: ns => revDup n :: revDupL ns
end

mutual
/-- `lyd_diff_reverse_remove_op_r(node, op)`: depth first; remove the node's operation if it is `op`; at the first node with
another operation the walk of this subtree ends (second component `true`) -/
def removeOp (op : Op) : DNode → DNode × Bool
  | .inner s f m ks =>
    match (m.find? (·.1 == "operation")).map (·.2) with
    | some v =>
      if Op.ofBytes v != some op then (.inner s f m ks, true)
      else
        let r := removeOpL op ks
        (.inner s f (eraseMeta "operation" m) r.1, r.2)
    | none =>
      let r := removeOpL op ks
      (.inner s f m r.1, r.2)
  | .term s f m v =>
    match (m.find? (·.1 == "operation")).map (·.2) with
    | some o => if Op.ofBytes o != some op then (.term s f m v, true) else (.term s f (eraseMeta "operation" m) v, false)
    | none => (.term s f m v, false)
def removeOpL (op : Op) : List DNode → List DNode × Bool
  | [] => ([], false)
  | k :: ks =>
    let r := removeOp op k
    if r.2 then (r.1 :: ks, true)
    else
      let r' := removeOpL op ks
      (r.1 :: r'.1, r'.2)
end

/-- `lyd_diff_reverse_value` (leaf): `lyd_change_term` to the original value must change the value (`LY_EEXIST` — the same
value, the default flag got cleared — and `LY_ENOT` — nothing to do — are returned as errors); the node's flags are kept -/
def revValue (n : DNode) : Except DiffErr DNode :=
  match getMeta n "orig-value" with
  | none => .error .einval
  | some ov =>
    if ov == n.val then .error (if n.flags.dflt then .eexist else .enot)
    else .ok ((n.setVal ov).setMetas (setMetaVal "orig-value" n.val n.metas))

/-- `lyd_diff_reverse_default` -/
def revDefault (n : DNode) : Except DiffErr DNode :=
  match getMeta n "orig-default" with
  | none => .error .eint
  | some od =>
    let flag1 := od == bs "true"
    let flag2 := n.flags.dflt
    if flag1 == flag2 then .ok n
    else .ok ((n.setDflt flag1).setMetas (setMetaVal "orig-default" (boolBytes flag2) n.metas))

/-- `lyd_diff_reverse_meta(node, mod, name1, name2)` -/
def revMeta (n : DNode) (name1 name2 : String) : Except DiffErr DNode :=
  match getMeta n name1, getMeta n name2 with
  | some v1, some v2 =>
    -- `lyd_change_meta` reports "no change" (LY_ENOT) for an equal value, which is an error here
    if v1 == v2 then .error .enot else .ok (n.setMetas (setMetaVal name2 v1 (setMetaVal name1 v2 n.metas)))
  | _, _ => .error .einval

/-- `lyd_diff_reverse_position(node, mod)` (part of the repair of F15, (c)): `orig-position` = number of instances before the
moved one, `position` = the instance to insert it after, counted with the moved one still in its old place (`""` = 0) -/
def revPosition (n : DNode) : Except DiffErr DNode :=
  match getMeta n "orig-position", getMeta n "position" with
  | some o, some p =>
    let cur := if atoiB p ≤ atoiB o then atoiB p else atoiB p - 1
    let np := if atoiB o > cur then atoiB o + 1 else atoiB o
    let str := fun (k : Nat) => if k == 0 then [] else bs (toString k)
    .ok (n.setMetas (setMetaVal "position" (str np) (setMetaVal "orig-position" (str cur) n.metas)))
  | _, _ => .error .einval

/-- the position metadata of a moved instance: switched on the pinned tree, `revPosition` with the repair -/
def revPos (n : DNode) : Except DiffErr DNode :=
  if Generated.Diff13.reverseUserordRepaired then revPosition n else revMeta n "orig-position" "position"

/-- the node's own part of one `LYD_TREE_DFS` step for operation `replace` -/
def revReplace (S : Schema) (n : DNode) : Except DiffErr DNode :=
  match S.kind? n.sid with
  | some .leaf => (revValue n).bind revDefault
  | some .leaflist =>
    (revDefault n).bind fun n1 =>
      if S.isDupInst n.sid then revPos n1 else revMeta n1 "orig-value" "value"
  | some .list =>
    if S.isDupInst n.sid then revPos n else revMeta n "orig-key" "key"
  | _ => .error .eint

/-- … for operation `none` -/
def revNone (S : Schema) (n : DNode) : Except DiffErr DNode :=
  if S.isTerm n.sid then revDefault n else .ok n

mutual
/-- one node of the `LYD_TREE_DFS` loop of `lyd_diff_reverse_all`; `inh` = the operation inherited from the ancestors -/
def revNode (S : Schema) (inh : Option Op) : DNode → Except DiffErr DNode
  | .inner s f m ks =>
    if S.isKey s then .ok (.inner s f m ks) else
    match effOp (.inner s f m ks) inh with
    | none => .error .eint
    | some .create => .ok ((changeOp (.inner s f m ks) .delete).setKids (ks.map fun k => (removeOp .create k).1))
    | some .delete => .ok ((changeOp (.inner s f m ks) .create).setKids (ks.map fun k => (removeOp .delete k).1))
    | some .replace =>
      match revReplace S (.inner s f m ks) with
      | .error e => .error e
      | .ok n1 =>
        match revL S (childInhOf (.inner s f m ks) inh) ks with
        | .error e => .error e
        | .ok ks' => .ok (n1.setKids ks')
    | some .none =>
      match revL S (childInhOf (.inner s f m ks) inh) ks with
      | .error e => .error e
      | .ok ks' => .ok (.inner s f m ks')
  | .term s f m v =>
    if S.isKey s then .ok (.term s f m v) else
    match effOp (.term s f m v) inh with
    | none => .error .eint
    | some .create => .ok (changeOp (.term s f m v) .delete)
    | some .delete => .ok (changeOp (.term s f m v) .create)
    | some .replace => revReplace S (.term s f m v)
    | some .none => revNone S (.term s f m v)
def revL (S : Schema) (inh : Option Op) : List DNode → Except DiffErr (List DNode)
  | [] => .ok []
  | n :: ns =>
    match revNode S inh n with
    | .error e => .error e
    | .ok n' =>
      match revL S inh ns with
      | .error e => .error e
      | .ok ns' => .ok (n' :: ns')
end

/-- the DFS loop of `lyd_diff_reverse_all` over the duplicated diff — all of `lyd_diff_reverse_all` on the pinned tree -/
def reversePinned (S : Schema) (d : List DNode) : Except DiffErr (List DNode) := revL S none (revDupL d)

/-! ## the repair of finding F15 (a), (b): `lyd_diff_reverse_userord_r`  ((c): `revPosition` above)

Present in `src/diff.c` iff `Generated.Diff13.reverseUserordRepaired` (tools/extractors/diff13.py).  After the DFS loop a second
pass over the reversed diff (siblings whose operation is `none` / `replace` recursively; `create` / `delete` subtrees are not
entered): a user-ordered node whose operation is now `create` gets its anchor `orig-key` / `orig-value` / `orig-position` renamed
to `key` / `value` / `position` (`uoRenameAnchor`: new metadata appended, old one freed), one whose operation is now `delete` the
other way round; the user-ordered descendants of a subtree to create get their anchors (`nestedAll`, the same
`lyd_diff_add_create_nested_userord` loop as in `lyd_diff_add`), those of a subtree to delete lose them (`uoDelNestedL`); finally
every maximal run of sibling instances of one user-ordered schema node is put in reverse order (`revRuns`).
Modelling shortcut: when the reversed diff has no user-ordered node at all (`uoFreeL`) the pass is not run — in the C it changes
nothing then (it touches user-ordered nodes only), and its `lyd_diff_get_op` cannot fail where the one of the DFS loop did not
unless a node carries two `yang:operation` metadata, which no libyang function produces. -/

mutual
/-- the diff touches no user-ordered node (at any depth, inside created / deleted subtrees as well) -/
def noUserOrdN (S : Schema) : DNode → Bool
  | .inner s _ _ ks => !S.isUserOrd s && noUserOrdL S ks
  | .term s _ _ _ => !S.isUserOrd s
def noUserOrdL (S : Schema) : List DNode → Bool
  | [] => true
  | x :: xs => noUserOrdN S x && noUserOrdL S xs
end

mutual
/-- no user-ordered node outside list keys (`lyd_diff_reverse_all` skips the keys; in a compiled schema a key is a leaf, so on
every real diff this is `noUserOrdN`) -/
def uoFreeN (S : Schema) : DNode → Bool
  | .inner s _ _ ks => S.isKey s || (!S.isUserOrd s && uoFreeL S ks)
  | .term s _ _ _ => S.isKey s || !S.isUserOrd s
def uoFreeL (S : Schema) : List DNode → Bool
  | [] => true
  | x :: xs => uoFreeN S x && uoFreeL S xs
end

/-- `lyd_diff_userord_meta_name(schema, orig)` -/
def uoMetaName (S : Schema) (sid : Nat) (orig : Bool) : String :=
  if S.isDupInst sid then (if orig then "orig-position" else "position")
  else if S.isKind sid .list then (if orig then "orig-key" else "key")
  else (if orig then "orig-value" else "value")

/-- `lyd_diff_reverse_userord_anchor(node, mod, to_orig)` -/
def uoRenameAnchor (S : Schema) (n : DNode) (toOrig : Bool) : Except DiffErr DNode :=
  match getMeta n (uoMetaName S n.sid (!toOrig)) with
  | none => .error .einval
  | some v => .ok (n.setMetas (eraseMeta (uoMetaName S n.sid (!toOrig)) n.metas ++ [(uoMetaName S n.sid toOrig, v)]))

mutual
/-- the anchor metadata of the user-ordered nodes of a subtree to delete is removed (`lyd_diff_del_meta`) -/
def uoDelNested (S : Schema) : DNode → DNode
  | .inner s f m ks => .inner s f (if S.isUserOrd s then eraseMeta (uoMetaName S s false) m else m) (uoDelNestedL S ks)
  | .term s f m v => .term s f (if S.isUserOrd s then eraseMeta (uoMetaName S s false) m else m) v
def uoDelNestedL (S : Schema) : List DNode → List DNode
  | [] => []
  | n :: ns => uoDelNested S n :: uoDelNestedL S ns
end

/-- a node whose operation is now `create` (`isCreate`) or `delete` -/
def uoFixCD (S : Schema) (n : DNode) (isCreate : Bool) : Except DiffErr DNode :=
  match (if S.isUserOrd n.sid then uoRenameAnchor S n (!isCreate) else .ok n) with
  | .error e => .error e
  | .ok n1 => .ok (if isCreate then n1.setKids (nestedAll S (n1.height + 1) n1.kids) else n1.setKids (uoDelNestedL S n1.kids))

/-- the last loop of `lyd_diff_reverse_userord_r`: every run of sibling instances of one user-ordered schema node in reverse
order; `run` = the instances of the current run seen so far, last one first -/
def revRunsGo (S : Schema) : List DNode → List DNode → List DNode
  | run, [] => run
  | [], x :: xs => revRunsGo S [x] xs
  | r :: run, x :: xs =>
    if S.isUserOrd x.sid && r.sid == x.sid then revRunsGo S (x :: r :: run) xs else r :: run ++ revRunsGo S [x] xs

def revRuns (S : Schema) (l : List DNode) : List DNode := revRunsGo S [] l

mutual
/-- one sibling of the first loop of `lyd_diff_reverse_userord_r`; `inh` = the operation inherited from the ancestors -/
def uoFixNode (S : Schema) (inh : Option Op) : DNode → Except DiffErr DNode
  | .inner s f m ks =>
    if S.isKey s then .ok (.inner s f m ks) else
    match effOp (.inner s f m ks) inh with
    | none => .error .eint
    | some .create => uoFixCD S (.inner s f m ks) true
    | some .delete => uoFixCD S (.inner s f m ks) false
    | some _ =>
      match uoFixL S (childInhOf (.inner s f m ks) inh) ks with
      | .error e => .error e
      | .ok ks' => .ok (.inner s f m (revRuns S ks'))
  | .term s f m v =>
    if S.isKey s then .ok (.term s f m v) else
    match effOp (.term s f m v) inh with
    | none => .error .eint
    | some .create => uoFixCD S (.term s f m v) true
    | some .delete => uoFixCD S (.term s f m v) false
    | some _ => .ok (.term s f m v)
def uoFixL (S : Schema) (inh : Option Op) : List DNode → Except DiffErr (List DNode)
  | [] => .ok []
  | n :: ns =>
    match uoFixNode S inh n with
    | .error e => .error e
    | .ok n' =>
      match uoFixL S inh ns with
      | .error e => .error e
      | .ok ns' => .ok (n' :: ns')
end

/-- `lyd_diff_reverse_userord_r(diff, mod)` on the top-level siblings -/
def uoFixTop (S : Schema) (r : List DNode) : Except DiffErr (List DNode) :=
  match uoFixL S none r with
  | .error e => .error e
  | .ok r' => .ok (revRuns S r')

/-- `lyd_diff_reverse_all` with the repair of F15 (a), (b) -/
def reverseRepaired (S : Schema) (d : List DNode) : Except DiffErr (List DNode) :=
  match revL S none (revDupL d) with
  | .error e => .error e
  | .ok r => if uoFreeL S r then .ok r else uoFixTop S r

/-- `lyd_diff_reverse_all(src_diff, &diff)`: follows the source (`Generated.Diff13.reverseUserordRepaired`) -/
def reverse (S : Schema) (d : List DNode) : Except DiffErr (List DNode) :=
  if Generated.Diff13.reverseUserordRepaired then reverseRepaired S d else reversePinned S d

end LyModel.Diff
