import LyModel.Diff.UOBridgeKLDiff
/-!
# Bridge (C06) — Stage 2a, part 2: one step of each pass of `lyd_diff_siblings_r` on one keyed user-ordered list

As `UOBridgeLLStep.lean`, for sibling lists that are the key-only instances of one user-ordered configuration list.
Core Lean only.
-/
namespace LyModel.Diff.UOB.KL
open LyModel LyModel.Tree LyModel.Diff LyModel.Diff.UOB
set_option linter.unusedSimpArgs false
set_option linter.unusedVariables false
local instance (priority := high) bytesBEqK2 : BEq Bytes := instBEqOfDecidableEq

/-! ## the diff nodes `lyd_diff_add` creates for the three operations -/

/-- `delete` of the instance `k`; `ov` = the predicate of the instance that preceded it (`yang:orig-key`, unused by apply) -/
def delNode (s : Nat) (ov k : Bytes) : DNode :=
  .inner s {} [("operation", Op.delete.bytes), ("orig-key", ov)] [keyLeaf s k]
/-- `create` of the instance `k` behind the instance with predicate `a` (`yang:key`; empty = first) -/
def createNode (s : Nat) (a k : Bytes) : DNode :=
  .inner s {} [("operation", Op.create.bytes), ("key", a)] [keyLeaf s k]
/-- move (`replace`) of the instance `k` behind the instance with predicate `a` (`yang:key`; empty = first) -/
def moveNode (s : Nat) (ov a k : Bytes) : DNode :=
  .inner s {} [("operation", Op.replace.bytes), ("key", a), ("orig-key", ov)] [keyLeaf s k]

theorem isKL_del (s : Nat) (ov k : Bytes) : IsKL s (delNode s ov k) := ⟨_, _, _, k, rfl⟩
theorem isKL_create (s : Nat) (a k : Bytes) : IsKL s (createNode s a k) := ⟨_, _, _, k, rfl⟩
theorem isKL_move (s : Nat) (ov a k : Bytes) : IsKL s (moveNode s ov a k) := ⟨_, _, _, k, rfl⟩

theorem dup_kl {S : Schema} {s : Nat} (C : KLCtx S s) (x : Bytes) (r : Bool) :
    (if r = true then dupRec (klNode s x) else dupShallow S (klNode s x)) = klNode s x := by
  cases r
  · simp [dupShallow, klNode, keyLeaf, keysOf_one C, DNode.setMetas]
  · rfl

theorem newNode_kl {S : Schema} {s : Nat} (C : KLCtx S s) (x : Bytes) (a : Attrs) :
    newNode S (klNode s x) a = withAttrs S (klNode s x) a := by
  simp only [newNode, dup_kl C]

theorem nested_key {S : Schema} {s : Nat} (C : KLCtx S s) (k : Bytes) (fuel : Nat) :
    nestedAll S (fuel + 1) [keyLeaf s k] = [keyLeaf s k] := by
  simp [nestedAll, nestedGo, nestedMeta, keyLeaf, DNode.sid, C.keyNoUO]

theorem newNode_delete {S : Schema} {s : Nat} (C : KLCtx S s) (x ov : Bytes) :
    newNode S (klNode s x) { op := .delete, origKey := some ov } = delNode s ov x := by
  rw [newNode_kl C]; rfl

theorem newNode_create {S : Schema} {s : Nat} (C : KLCtx S s) (x a : Bytes) :
    newNode S (klNode s x) { op := .create, key := some a } = createNode s a x := by
  rw [newNode_kl C]
  have := nested_key C x 2
  simp [withAttrs, addMeta, addMetaOpt, klNode, DNode.setMetas, DNode.metas, DNode.setKids, DNode.kids, DNode.height, heightL,
    keyLeaf, createNode] at this ⊢
  exact this

theorem newNode_move {S : Schema} {s : Nat} (C : KLCtx S s) (x ov a : Bytes) :
    newNode S (klNode s x) { op := .replace, origKey := some ov, key := some a } = moveNode s ov a x := by
  rw [newNode_kl C]; rfl

/-! ## `lyd_diff_add` at a level that holds nodes of `s` only -/

theorem addAt_kl {S : Schema} {s : Nat} (C : KLCtx S s) (out : List DNode) (x : Bytes) (a : Attrs)
    (hout : ∀ n ∈ out, IsKL s n ∧ keyOf n ≠ x) :
    addAt S out (klNode s x) a = (out ++ [newNode S (klNode s x) a], none) := by
  have h1 : findIdxFrom (fun n _ => sameInst S n (klNode s x)) out 0 = none := by
    rw [findIdxFrom_zero, List.findIdx?_eq_none_iff]
    intro n hn
    rw [sameInst_kl C n _ (hout n hn).1 (isKL_klNode s x)]
    exact decide_eq_false (hout n hn).2
  have hs : (newNode S (klNode s x) a).sid = s := by
    rw [newNode_kl C, sid_withAttrs]; rfl
  have h2 : insertBySchema (newNode S (klNode s x) a) out = out ++ [newNode S (klNode s x) a] := by
    apply insertBySchema_end'
    intro n hn
    rw [hs, (hout n hn).1.sid]
    exact Nat.le_refl _
  simp [addAt, C.nd, h1, h2]

/-! ## first pass -/

/-- an instance of the first tree that is not in the second: `delete` is appended, the virtual list loses the instance -/
theorem phase1Step_delete {S : Schema} {s : Nat} (C : KLCtx S s) (va vb v : List Bytes) (p i : Nat) (x : Bytes) (st : St)
    (top : Bool) (recur : List DNode → List DNode → St)
    (hv : ∀ y ∈ v, y ∈ va ∨ y ∈ vb) (nda : va.Nodup) (hi : va[i]? = some x) (hxb : x ∉ vb)
    (huo : uoGet st.uo s (klForest s va) true = ⟨s, v.map (ctag va vb), p⟩)
    (hout : ∀ n ∈ st.out, IsKL s n ∧ keyOf n ≠ x) :
    ∃ ov st', phase1Step S true top recur (klForest s va) (klForest s vb) st (klNode s x, i) = st' ∧
      st'.out = st.out ++ [delNode s ov x] ∧
      uoFind st'.uo s = some ⟨s, (v.erase x).map (ctag va vb), p + 1⟩ ∧ st'.used = st.used ∧ st'.ptr = 0 := by
  obtain ⟨ov, hat⟩ := attrs_delete C va vb v p i x hv nda hi
  refine ⟨ov, _, rfl, ?_⟩
  have hu := uoFind_uoSet st.uo ⟨s, (v.erase x).map (ctag va vb), p + 1⟩
  simp only [phase1Step, klNode_flags, findMatch_kl_none C vb x st.used hxb, klNode_sid, C.uo, phase1UO, huo, hat,
    St.add, addAt_kl C st.out x _ hout, newNode_delete C]
  simp [St.emit, hu]
  split <;> simp [hu]

/-- an instance of the first tree that is in the second too: nothing happens in the first pass -/
theorem phase1Step_keep {S : Schema} {s : Nat} (C : KLCtx S s) (va vb v : List Bytes) (p i : Nat) (x : Bytes) (st : St)
    (top : Bool) (recur : List DNode → List DNode → St) (hrec : (recur [] []).out = [])
    (hxb : x ∈ vb)
    (huo : uoGet st.uo s (klForest s va) true = ⟨s, v.map (ctag va vb), p⟩) :
    ∃ st', phase1Step S true top recur (klForest s va) (klForest s vb) st (klNode s x, i) = st' ∧
      st'.out = st.out ∧
      uoFind st'.uo s = some ⟨s, v.map (ctag va vb), p⟩ ∧ st'.used = st.used ∧ st'.ptr = st.ptr := by
  refine ⟨_, rfl, ?_⟩
  have hu := uoFind_uoSet st.uo ⟨s, v.map (ctag va vb), p⟩
  have hb : (klForest s vb)[vb.idxOf x]? = some (klNode s x) := by
    rw [klForest_get, idxOf_getElem?_of_mem hxb]; rfl
  simp only [phase1Step, klNode_flags, findMatch_kl_some C vb x st.used hxb, klNode_sid, C.uo, phase1UO, huo,
    Option.bind_some, hb, klNode_kids, keyLeaf, noKeys_one C, wrapParent, hrec, List.isEmpty_nil, if_true]
  simp [hu]

/-! ## second pass -/

/-- an instance of the second tree that is not in the first: `create` behind the instance placed before it -/
theorem phase2Step_create {S : Schema} {s : Nat} (C : KLCtx S s) (va vb v : List Bytes) (p j : Nat) (y : Bytes) (st : St)
    (hv : ∀ z ∈ v, z ∈ va ∨ z ∈ vb) (ndb : vb.Nodup) (hj : vb[j]? = some y) (hya : y ∉ va)
    (huo : uoGet st.uo s (klForest s va) false = ⟨s, v.map (ctag va vb), p⟩)
    (hout : ∀ n ∈ st.out, IsKL s n ∧ keyOf n ≠ y) :
    ∃ st', phase2Step S true (klForest s va) (klForest s vb) st (klNode s y, j) = st' ∧
      st'.out = st.out ++ [createNode s (anchorStr S s (anchorAt v p)) y] ∧
      uoFind st'.uo s = some ⟨s, (UOG.insertAt v p y).map (ctag va vb), p + 1⟩ ∧ st'.used = st.used ∧ st'.ptr = 0 := by
  have hat := attrs_create C va vb v p j y hv ndb hj hya
  refine ⟨_, rfl, ?_⟩
  have hu := uoFind_uoSet st.uo ⟨s, (UOG.insertAt v p y).map (ctag va vb), p + 1⟩
  simp only [phase2Step, klNode_flags, findMatch_kl_none C va y st.used hya, klNode_sid, C.uo, Option.isSome_none, huo, hat,
    St.add, addAt_kl C st.out y _ hout, newNode_create C]
  simp [St.emit, hu]
  split <;> simp [hu]

/-- a matched instance that already is at its place: nothing -/
theorem phase2Step_keep {S : Schema} {s : Nat} (C : KLCtx S s) (va vb v : List Bytes) (p j : Nat) (y : Bytes) (st : St)
    (hv : ∀ z ∈ v, z ∈ va ∨ z ∈ vb) (hj : vb[j]? = some y) (hya : y ∈ va) (hp : v[p]? = some y)
    (huo : uoGet st.uo s (klForest s va) true = ⟨s, v.map (ctag va vb), p⟩) :
    ∃ st', phase2Step S true (klForest s va) (klForest s vb) st (klNode s y, j) = st' ∧
      st'.out = st.out ∧
      uoFind st'.uo s = some ⟨s, v.map (ctag va vb), p + 1⟩ ∧ st'.used = st.used ∧ st'.ptr = st.ptr := by
  have hat := attrs_keep C va vb v p (va.idxOf y) j y hv (idxOf_getElem?_of_mem hya) hj hp
  refine ⟨_, rfl, ?_⟩
  have hu := uoFind_uoSet st.uo ⟨s, v.map (ctag va vb), p + 1⟩
  simp only [phase2Step, klNode_flags, findMatch_kl_some C va y st.used hya, klNode_sid, C.uo, Option.isSome_some, huo, hat]
  simp [hu]

/-- a matched instance that is not at its place: move (`replace`) behind the instance placed before it -/
theorem phase2Step_move {S : Schema} {s : Nat} (C : KLCtx S s) (va vb v : List Bytes) (p j : Nat) (y : Bytes) (st : St)
    (hv : ∀ z ∈ v, z ∈ va ∨ z ∈ vb) (nda : va.Nodup) (hj : vb[j]? = some y) (hya : y ∈ va) (hp : v[p]? ≠ some y)
    (huo : uoGet st.uo s (klForest s va) true = ⟨s, v.map (ctag va vb), p⟩)
    (hout : ∀ n ∈ st.out, IsKL s n ∧ keyOf n ≠ y) :
    ∃ ov st', phase2Step S true (klForest s va) (klForest s vb) st (klNode s y, j) = st' ∧
      st'.out = st.out ++ [moveNode s ov (anchorStr S s (anchorAt v p)) y] ∧
      uoFind st'.uo s = some ⟨s, (UOG.insertAt (v.erase y) p y).map (ctag va vb), p + 1⟩ ∧
      st'.used = st.used ∧ st'.ptr = 0 := by
  obtain ⟨ov, hat⟩ := attrs_move C va vb v p (va.idxOf y) j y hv nda (idxOf_getElem?_of_mem hya) hj hp
  refine ⟨ov, _, rfl, ?_⟩
  have hu := uoFind_uoSet st.uo ⟨s, (UOG.insertAt (v.erase y) p y).map (ctag va vb), p + 1⟩
  simp only [phase2Step, klNode_flags, findMatch_kl_some C va y st.used hya, klNode_sid, C.uo, Option.isSome_some, huo, hat,
    St.add, addAt_kl C st.out y _ hout, newNode_move C]
  simp [St.emit, hu]
  split <;> simp [hu]

end LyModel.Diff.UOB.KL
