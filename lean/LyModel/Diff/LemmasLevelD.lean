import LyModel.Diff.LemmasEffects
/-!
# One sibling level of the diff on the fragment: which nodes `lyd_diff_siblings_r` emits (C06 proofs)
Core Lean only.
-/
namespace LyModel.Diff
open LyModel LyModel.Tree

/-- the instance of `l` that `lyd_diff_find_match` returns for `t` -/
def partner (S : Schema) (l : List DNode) (t : DNode) : Option DNode := l.find? (matchK S t)

theorem findIdx_bind_get {α : Type} (p : α → Bool) : ∀ (l : List α), (l.findIdx? p).bind (l[·]?) = l.find? p
  | [] => rfl
  | x :: xs => by
    by_cases h : p x = true
    · simp [List.findIdx?_cons, h]
    · have ih := findIdx_bind_get p xs
      simp only [Bool.not_eq_true] at h
      simp only [List.findIdx?_cons, h, List.find?_cons, Bool.false_eq_true, if_false]
      rw [← ih]
      cases xs.findIdx? p <;> simp

theorem findMatch_true (S : Schema) (sibs : List DNode) (t : DNode) (used : List Nat) (h : S.isDupInst t.sid = false) :
    findMatch S sibs t true used = (sibs.findIdx? (matchK S t), used) := by
  rw [findMatch_plain S sibs t true used h]
  cases sibs.findIdx? (matchK S t) <;> simp

theorem partner_mem (S : Schema) (l : List DNode) (t b : DNode) (h : partner S l t = some b) : b ∈ l :=
  List.mem_of_find?_eq_some h

theorem partner_kkey (S : Schema) (l : List DNode) (t b : DNode) (hd : S.isDupInst t.sid = false)
    (h : partner S l t = some b) : kkey S b = kkey S t :=
  (matchK_iff_kkey S t b hd).1 (List.find?_some h)

theorem partner_none (S : Schema) (l : List DNode) (t : DNode) (hd : S.isDupInst t.sid = false)
    (h : partner S l t = none) : ∀ x ∈ l, kkey S x ≠ kkey S t := by
  intro x hx hk
  have := List.find?_eq_none.1 h x hx
  rw [(matchK_iff_kkey S t x hd).2 hk] at this
  exact absurd rfl this

theorem partner_of_key (S : Schema) (l : List DNode) (t b : DNode) (hd : S.isDupInst t.sid = false)
    (hc : canonB S l = true) (hs : ∀ x ∈ l, shapeOk S x = true) (hb : b ∈ l) (hk : kkey S b = kkey S t) :
    partner S l t = some b := by
  obtain ⟨i, hi, hg⟩ := List.getElem_of_mem hb
  have hg' : l[i]? = some b := by simp [hi, hg]
  have hdb : S.isDupInst b.sid = false := by rw [kkey_sid S b t hk]; exact hd
  have := findIdx_key S l i b t hc hs hg' hk.symm hdb
  unfold partner
  rw [← findIdx_bind_get, this]
  simpa using hg'

/-! ### adding a node when nothing is user-ordered -/

theorem sameInst_kkey (S : Schema) (x node : DNode) (hd : S.isDupInst node.sid = false)
    (h : sameInst S x node = true) : kkey S x = kkey S node := by
  apply (matchK_iff_kkey S node x hd).1
  have hsid : x.sid = node.sid := by
    unfold sameInst at h
    simp only [Bool.and_eq_true, beq_iff_eq] at h
    exact h.1
  unfold matchK
  split <;> simp [hsid, h]

structure AddOk (S : Schema) (st st' : St) (d : DNode) : Prop where
  out : st'.out = insertBySchema d st.out
  ptr : st'.ptr = 0
  uo : st'.uo = st.uo
  used : st'.used = st.used

theorem add_plain (S : Schema) (st : St) (node : DNode) (atr : Attrs) (side : Bool)
    (hnu : S.isUserOrd node.sid = false) (hnd : S.isDupInst node.sid = false)
    (hno : ∀ x ∈ st.out, kkey S x ≠ kkey S node) :
    AddOk S st (st.add S node atr side) (withAttrs S (dupRec node) atr) := by
  have hex : findIdxFrom (fun x _ => sameInst S x node) st.out 0 = none := by
    rw [findIdxFrom_zero, List.findIdx?_eq_none_iff]
    intro x hx
    cases h : sameInst S x node with
    | false => rfl
    | true => exact absurd (sameInst_kkey S x node hnd h) (hno x hx)
  unfold St.add addAt newNode
  simp only [hnd, Bool.false_eq_true, if_false, hex, hnu, Bool.false_and, Bool.and_false, Bool.not_false, if_true]
  unfold St.emit
  constructor <;> (split <;> rfl)

/-! ### the first pass, one node -/

/-- the recursion of `lyd_diff_siblings_r` into a matched pair -/
def subOf (S : Schema) (recur : List DNode → List DNode → St) (a b : DNode) : St :=
  recur (noKeys S a.kids) (noKeys S b.kids)

/-- the diff node the first pass emits for `a` -/
inductive Node1 (S : Schema) (top : Bool) (recur : List DNode → List DNode → St) (bs : List DNode) (a : DNode) :
    DNode → Prop
  | del : partner S bs a = none → Node1 S top recur bs a ((dupRec a).setMetas [("operation", Op.delete.bytes)])
  | term (b : DNode) (atr : Attrs) : partner S bs a = some b → plainAttrs S true (some a) (some b) = some atr →
      Node1 S top recur bs a (withAttrs S (dupRec b) atr)
  | parent (b src : DNode) (f : Flags) (m : List Meta) : partner S bs a = some b →
      plainAttrs S true (some a) (some b) = none → (subOf S recur a b).out ≠ [] → (src = a ∨ src = b) →
      (top = true → m = [("operation", Op.none.bytes)]) → (m = [] ∨ m = [("operation", Op.none.bytes)]) →
      Node1 S top recur bs a (.inner (dupShallow S src).sid f m ((dupShallow S src).kids ++ (subOf S recur a b).out))

/-- nothing is emitted for `a`: it has a partner, the same value and default flag, and the recursion found nothing -/
def NoEmit1 (S : Schema) (recur : List DNode → List DNode → St) (bs : List DNode) (a : DNode) : Prop :=
  ∃ b, partner S bs a = some b ∧ plainAttrs S true (some a) (some b) = none ∧ (subOf S recur a b).out = []

theorem kids_of_term (S : Schema) (n : DNode) (hw : wfNode S n = true) (ht : S.isTerm n.sid = true) : n.kids = [] := by
  obtain ⟨f, m, v, h⟩ := term_of_shape S n (wfNode_shape S n hw) ht
  rw [h]; rfl

/-- the first pass for a node of the fragment, written out -/
def p1 (S : Schema) (top : Bool) (recur : List DNode → List DNode → St) (bs : List DNode) (st : St) (a : DNode) : St :=
  match partner S bs a with
  | none => st.add S a { op := .delete } false
  | some b =>
    wrapParent S top
      (match plainAttrs S true (some a) (some b) with
        | some atr => if atr.op == .delete then st.add S a atr false else st.add S b atr true
        | none => st)
      a b (subOf S recur a b)

theorem phase1Step_eq_p1 (S : Schema) (top : Bool) (recur : List DNode → List DNode → St) (as bs : List DNode)
    (st : St) (a : DNode) (i : Nat) (hnu : S.isUserOrd a.sid = false) (hnd : S.isDupInst a.sid = false) :
    phase1Step S true top recur as bs st (a, i) = p1 S top recur bs st a := by
  have hst : ({ st with used := st.used } : St) = st := by cases st; rfl
  unfold phase1Step p1 phase1Plain
  simp only [Bool.not_true, Bool.and_false, Bool.false_eq_true, if_false, findMatch_true S bs a st.used hnd, hnu,
    findIdx_bind_get]
  have hpe : List.find? (matchK S a) bs = partner S bs a := rfl
  rw [hpe]
  cases hp : partner S bs a with
  | none => simp [plainAttrs]
  | some b =>
    simp only [subOf]
    cases hat : plainAttrs S true (some a) (some b) <;> rfl

theorem phase1_step (S : Schema) (top : Bool) (recur : List DNode → List DNode → St) (bs : List DNode)
    (st : St) (a : DNode)
    (hwa : wfNode S a = true) (hwb : ∀ b ∈ bs, wfNode S b = true) (hrec0 : recur [] [] = {})
    (huo : st.uo = []) (hno : ∀ x ∈ st.out, kkey S x ≠ kkey S a) :
    (p1 S top recur bs st a).uo = [] ∧ (p1 S top recur bs st a).used = st.used ∧
    (((p1 S top recur bs st a).out = st.out ∧ (p1 S top recur bs st a).ptr = st.ptr ∧ NoEmit1 S recur bs a) ∨
      ∃ d, Node1 S top recur bs a d ∧ (p1 S top recur bs st a).out = insertBySchema d st.out ∧
        (p1 S top recur bs st a).ptr = 0) := by
  have hpl := wfNode_plain S a hwa
  have hnu := plainSid_not_userOrd S a.sid hpl
  have hnd := plainSid_not_dupInst S a.sid hpl
  unfold p1
  cases hp : partner S bs a with
  | none =>
    -- deleted
    have hadd := add_plain S st a { op := .delete } false hnu hnd hno
    refine ⟨by rw [hadd.uo]; exact huo, hadd.used, Or.inr ⟨_, Node1.del hp, ?_, hadd.ptr⟩⟩
    rw [hadd.out, delNode_eq]
  | some b =>
    have hbm := partner_mem S bs a b hp
    have hkb := partner_kkey S bs a b hnd hp
    have hsb : b.sid = a.sid := kkey_sid S b a hkb
    have hnub : S.isUserOrd b.sid = false := by rw [hsb]; exact hnu
    have hndb : S.isDupInst b.sid = false := by rw [hsb]; exact hnd
    cases hat : plainAttrs S true (some a) (some b) with
    | some atr =>
      -- a changed term
      have hcases := plainAttrs_cases S a b atr hat
      have hopd : (atr.op == Op.delete) = false := by
        rcases hcases with ⟨_, _, h⟩ | ⟨_, _, h⟩ <;> simp [h]
      have hterm : S.isTerm a.sid = true := by
        rcases hcases with ⟨h, _, _⟩ | ⟨h | h, _, _⟩
        · exact isTerm_of_kind S _ (Or.inl h)
        · exact isTerm_of_kind S _ (Or.inl h.1)
        · exact isTerm_of_kind S _ (Or.inr h)
      have hka : a.kids = [] := kids_of_term S a hwa hterm
      have hkb' : b.kids = [] := kids_of_term S b (hwb b hbm) (by rw [hsb]; exact hterm)
      have hadd := add_plain S st b atr true hnub hndb (by rw [hkb]; exact hno)
      have hsub : subOf S recur a b = {} := by simp [subOf, hka, hkb', noKeys, hrec0]
      have hwrap : wrapParent S top (st.add S b atr true) a b (subOf S recur a b) = st.add S b atr true := by
        rw [hsub]; rfl
      simp only [hat, hopd, Bool.false_eq_true, if_false, hwrap]
      exact ⟨by rw [hadd.uo]; exact huo, hadd.used, Or.inr ⟨_, Node1.term b atr hp hat, hadd.out, hadd.ptr⟩⟩
    | none =>
      -- no operation on the pair itself: the recursion decides
      simp only [hat, wrapParent]
      by_cases hem : (subOf S recur a b).out = []
      · simp only [hem, List.isEmpty_nil, if_true]
        exact ⟨huo, (by first | rfl | trivial), Or.inl ⟨(by first | rfl | trivial), (by first | rfl | trivial), b, hp, hat, hem⟩⟩
      · have hne : (subOf S recur a b).out.isEmpty = false := by
          cases h : (subOf S recur a b).out <;> simp_all
        simp only [hne, Bool.false_eq_true, if_false]
        refine ⟨?_, ?_, Or.inr ⟨
          .inner (dupShallow S (if (subOf S recur a b).side = true then b else a)).sid
            { (dupShallow S (if (subOf S recur a b).side = true then b else a)).flags with
              dflt := (dupShallow S (if (subOf S recur a b).side = true then b else a)).flags.dflt &&
                (subOf S recur a b).out.all (·.flags.dflt) }
            (if noneOnParent top st.emitted (subOf S recur a b).fd = true then [("operation", Op.none.bytes)] else [])
            ((dupShallow S (if (subOf S recur a b).side = true then b else a)).kids ++ (subOf S recur a b).out),
          Node1.parent b (if (subOf S recur a b).side = true then b else a) _ _ hp hat hem
            (by split <;> simp) ?_ ?_, ?_, (by first | rfl | trivial)⟩⟩
        · unfold St.emit; split <;> exact huo
        · unfold St.emit; split <;> rfl
        · intro ht; simp [noneOnParent, ht]
        · split <;> simp
        · unfold St.emit; split <;> rfl

/-! ### the second pass, one node -/

def p2 (S : Schema) (as : List DNode) (st : St) (b : DNode) : St :=
  match partner S as b with
  | none => st.add S b { op := .create } true
  | some _ => st

theorem findIdx_none_iff_find {α : Type} (p : α → Bool) (l : List α) : l.findIdx? p = none ↔ l.find? p = none := by
  rw [List.findIdx?_eq_none_iff, List.find?_eq_none]
  constructor
  · intro h x hx; simp [h x hx]
  · intro h x hx; simpa using h x hx

theorem phase2Step_eq_p2 (S : Schema) (as bs : List DNode) (st : St) (b : DNode) (j : Nat)
    (hnu : S.isUserOrd b.sid = false) (hnd : S.isDupInst b.sid = false) :
    phase2Step S true as bs st (b, j) = p2 S as st b := by
  have hst : ({ st with used := st.used } : St) = st := by cases st; rfl
  unfold phase2Step p2 partner
  simp only [Bool.not_true, Bool.and_false, Bool.false_eq_true, if_false, findMatch_true S as b st.used hnd, hnu]
  cases hf : as.findIdx? (matchK S b) with
  | none => rw [(findIdx_none_iff_find _ _).1 hf]
  | some i =>
    cases hp : as.find? (matchK S b) with
    | none => rw [(findIdx_none_iff_find _ _).2 hp] at hf; simp at hf
    | some x => rfl

theorem phase2_step (S : Schema) (as : List DNode) (st : St) (b : DNode)
    (hwb : wfNode S b = true) (huo : st.uo = []) (hno : ∀ x ∈ st.out, kkey S x ≠ kkey S b) :
    (p2 S as st b).uo = [] ∧ (p2 S as st b).used = st.used ∧
    (((p2 S as st b).out = st.out ∧ (p2 S as st b).ptr = st.ptr ∧ partner S as b ≠ none) ∨
      (partner S as b = none ∧
        (p2 S as st b).out = insertBySchema ((dupRec b).setMetas [("operation", Op.create.bytes)]) st.out ∧
        (p2 S as st b).ptr = 0)) := by
  have hpl := wfNode_plain S b hwb
  have hnu := plainSid_not_userOrd S b.sid hpl
  have hnd := plainSid_not_dupInst S b.sid hpl
  unfold p2
  cases hp : partner S as b with
  | none =>
    have hadd := add_plain S st b { op := .create } true hnu hnd hno
    refine ⟨by rw [hadd.uo]; exact huo, hadd.used, Or.inr ⟨rfl, ?_, hadd.ptr⟩⟩
    rw [hadd.out, createNode_eq S b hwb]
  | some x => exact ⟨huo, rfl, Or.inl ⟨rfl, rfl, by simp⟩⟩

end LyModel.Diff
