import LyModel.Diff.Lemmas13Inv
/-!
# `lyd_diff_merge_all(D, lyd_diff_reverse_all(D))` leaves nothing (C13 `merge_cancel`, tree level)

For an exact diff `D` in the layout `lyd_diff_add` writes (`stdL`): every node of the reversed diff finds its original in the
target, the cell of the 4 × 4 table turns it into a `none` node, the recursion empties its children, and
`lyd_diff_is_redundant` removes it.  No hypothesis on the `sort` callbacks (`KeyOrder` is not needed): keyed lists included.
Core Lean only.
-/
set_option linter.unusedSimpArgs false
namespace LyModel.Diff
open LyModel LyModel.Tree

/-! ### lists -/

theorem set_eraseIdx_mid {α : Type} : ∀ (pre : List α) (c x : α) (rest : List α),
    ((pre ++ c :: rest).set pre.length x).eraseIdx pre.length = pre ++ rest
  | [], _, _, _ => rfl
  | p :: ps, c, x, rest => by
    simp only [List.cons_append, List.length_cons, List.set_cons_succ, List.eraseIdx_cons_succ,
      set_eraseIdx_mid ps c x rest]

theorem getElem?_mid {α : Type} : ∀ (pre : List α) (c : α) (rest : List α), (pre ++ c :: rest)[pre.length]? = some c
  | [], _, _ => rfl
  | _ :: ps, c, rest => by simpa using getElem?_mid ps c rest

theorem findIdx?_mid {α : Type} (p : α → Bool) : ∀ (pre : List α) (c : α) (rest : List α),
    (∀ x ∈ pre, p x = false) → p c = true → (pre ++ c :: rest).findIdx? p = some pre.length
  | [], c, rest, _, hc => by simp [List.findIdx?_cons, hc]
  | x :: ps, c, rest, hp, hc => by
    simp only [List.cons_append, List.findIdx?_cons, hp x (by simp), Bool.false_eq_true, if_false,
      findIdx?_mid p ps c rest (fun y hy => hp y (by simp [hy])) hc]
    simp

/-! ### one step of `lyd_diff_merge_r` that hits a target node which then becomes redundant -/

theorem placeBack_redundant (S : Schema) (cur : Option Op) (pre : List DNode) (c t' : DNode) (rest : List DNode)
    (h : (isRedundant S cur t').2 = true) : placeBack S cur (pre ++ c :: rest) pre.length t' false = pre ++ rest := by
  unfold placeBack
  simp only [h, Bool.false_eq_true, if_false, if_true]
  exact set_eraseIdx_mid pre c _ rest

theorem mergeR_eq (S : Schema) (o : MergeOpts) (cur sin : Option Op) (src : DNode) (sibs : List DNode) :
    mergeR S o cur sin src sibs = mergeStep S o cur sin src sibs
      (fun c' s' tk => if src.isTerm then .ok tk else mergeKids S o c' s' true src.kids tk) := by
  cases src <;> simp [mergeR, DNode.isTerm, DNode.kids]

/-- the source node `src` finds `t` behind the key leaves `pre`; cell, recursion, then `t` is dropped -/
theorem mergeStep_cancel (S : Schema) (o : MergeOpts) (cur sin : Option Op) (src t t1 : DNode) (pre rest ks' : List DNode)
    (sop cop : Op) (kidsK : Option Op → Option Op → List DNode → Except DiffErr (List DNode))
    (hsop : effOp src sin = some sop) (hcop : effOp t cur = some cop)
    (hpre : ∀ x ∈ pre, matchP S src x = false) (hm : matchP S src t = true)
    (hnd : S.isDupInst t.sid = false) (hnds : S.isDupInst src.sid = false)
    (hcell : mergeCell S o sop t cop src = .ok (t1, false))
    (hkids : kidsK (childInhOf t1 cur) (childInhOf src sin) t1.kids = .ok ks')
    (hred : (isRedundant S cur (t1.setKids ks')).2 = true) :
    mergeStep S o cur sin src (pre ++ t :: rest) kidsK = .ok (pre ++ rest) := by
  unfold mergeStep
  have hf : findForApply S (pre ++ t :: rest) src = some pre.length := by
    rw [findForApply_eq13]
    exact findIdx?_mid _ pre t rest hpre hm
  simp only [hsop, hf, getElem?_mid, hcop, hnd, Bool.and_false, Bool.false_eq_true, if_false, hcell, hnds, hkids]
  rw [placeBack_redundant S cur pre t _ rest hred]

end LyModel.Diff

namespace LyModel.Diff
open LyModel LyModel.Tree

/-! ### the loop over the source children -/

theorem mergeKids_nil (S : Schema) (o : MergeOpts) (cur sin : Option Op) (ld : Bool) (tk : List DNode) :
    mergeKids S o cur sin ld [] tk = .ok tk := by
  rw [mergeKids]

theorem mergeKids_cons_key (S : Schema) (o : MergeOpts) (cur sin : Option Op) (c : DNode) (cs tk : List DNode)
    (hk : S.isKey c.sid = true) : mergeKids S o cur sin true (c :: cs) tk = mergeKids S o cur sin true cs tk := by
  rw [mergeKids]
  simp [hk]

theorem mergeKids_cons_nokey (S : Schema) (o : MergeOpts) (cur sin : Option Op) (ld : Bool) (c : DNode) (cs tk tk' : List DNode)
    (hk : S.isKey c.sid = false) (h : mergeR S o cur sin c tk = .ok tk') :
    mergeKids S o cur sin ld (c :: cs) tk = mergeKids S o cur sin false cs tk' := by
  rw [mergeKids]
  simp [hk, h]

theorem mergeKids_skip_keys (S : Schema) (o : MergeOpts) (cur sin : Option Op) : ∀ (kp R tk : List DNode),
    (∀ k ∈ kp, S.isKey k.sid = true) → mergeKids S o cur sin true (kp ++ R) tk = mergeKids S o cur sin true R tk
  | [], _, _, _ => rfl
  | k :: kp, R, tk, h => by
    rw [List.cons_append, mergeKids_cons_key S o cur sin k _ tk (h k (by simp))]
    exact mergeKids_skip_keys S o cur sin kp R tk (fun x hx => h x (by simp [hx]))

/-- every source child cancels its partner: only the key leaves in front stay -/
theorem mergeKids_cancel_map (S : Schema) (o : MergeOpts) (cur sin : Option Op) (fS fT : DNode → DNode) :
    ∀ (l pre : List DNode) (ld : Bool),
      (∀ k ∈ l, S.isKey (fS k).sid = false ∧ ∀ pre rest, (∀ x ∈ pre, S.isKey x.sid = true) →
        mergeR S o cur sin (fS k) (pre ++ fT k :: rest) = .ok (pre ++ rest)) →
      (∀ x ∈ pre, S.isKey x.sid = true) →
      mergeKids S o cur sin ld (l.map fS) (pre ++ l.map fT) = .ok pre
  | [], pre, ld, _, _ => by simp [mergeKids_nil]
  | k :: l, pre, ld, h, hpre => by
    obtain ⟨hk, hm⟩ := h k (by simp)
    rw [List.map_cons, List.map_cons, mergeKids_cons_nokey S o cur sin ld _ _ _ _ hk (hm pre _ hpre)]
    exact mergeKids_cancel_map S o cur sin fS fT l pre false (fun x hx => h x (by simp [hx])) hpre

theorem revDupL_eq_map : ∀ l : List DNode, revDupL l = l.map revDup
  | [] => rfl
  | x :: xs => by simp [revDupL, revDupL_eq_map xs]

theorem keysOf_revDupL (S : Schema) : ∀ l : List DNode, keysOf S (revDupL l) = revDupL (keysOf S l)
  | [] => rfl
  | x :: xs => by
    simp only [keysOf, revDupL, List.takeWhile_cons, sid_revDup]
    split
    · have := keysOf_revDupL S xs
      simp only [keysOf] at this
      simp only [revDupL, this]
    · rfl

theorem noKeys_revDupL (S : Schema) : ∀ l : List DNode, noKeys S (revDupL l) = revDupL (noKeys S l)
  | [] => rfl
  | x :: xs => by
    simp only [noKeys, revDupL, List.dropWhile_cons, sid_revDup]
    split
    · exact noKeys_revDupL S xs
    · rfl

theorem keysEq_revDupL : ∀ l : List DNode, keysEq l (revDupL l) = true
  | [] => rfl
  | x :: xs => by simp [revDupL, keysEq, keysEq_revDupL xs]

/-- a node and a copy of it with duplicated children are the same instance -/
theorem sameInst_dupKids (S : Schema) (t s : DNode) (h1 : s.sid = t.sid) (h2 : s.val = t.val)
    (h3 : s.kids = revDupL t.kids) : sameInst S t s = true := by
  unfold sameInst
  rw [h1, h2, h3, keysOf_revDupL]
  simp only [beq_self_eq_true, Bool.true_and]
  split <;> simp [keysEq_revDupL]

theorem matchP_dupKids (S : Schema) (t s : DNode) (hd : S.isDupInst s.sid = false) (h1 : s.sid = t.sid) (h2 : s.val = t.val)
    (h3 : s.kids = revDupL t.kids) : matchP S s t = true := by
  unfold matchP
  rw [instMatch_eq hd, sameInst_dupKids S t s h1 h2 h3, h1]
  simp

theorem matchP_key_false (S : Schema) (s x : DNode) (hs : S.isKey s.sid = false) (hx : S.isKey x.sid = true) :
    matchP S s x = false := by
  unfold matchP
  have : (x.sid == s.sid) = false := by
    apply beq_eq_false_iff_ne.mpr
    intro h
    rw [h, hs] at hx
    exact absurd hx (by decide)
  simp [this]

theorem ownOp_of_metas_cons (d : DNode) (op : Op) (rest : List Meta) (h : d.metas = ("operation", bs op.str) :: rest) :
    ownOp d = some op := by
  unfold ownOp getMeta
  rw [h]
  simp [ofBytes_str]

theorem ownOp_of_metas (d : DNode) (op : Op) (h : d.metas = [("operation", bs op.str)]) : ownOp d = some op :=
  ownOp_of_metas_cons d op [] h

end LyModel.Diff

namespace LyModel.Diff
open LyModel LyModel.Tree

/-! ### small facts -/

theorem noKeys_keysOf (S : Schema) : ∀ l : List DNode, noKeys S (keysOf S l) = []
  | [] => rfl
  | x :: xs => by
    simp only [keysOf, List.takeWhile_cons]
    split
    · rename_i h
      simp only [noKeys, List.dropWhile_cons, h, if_true]
      exact noKeys_keysOf S xs
    · rfl

theorem plainN_metas {d : DNode} (h : plainN d = true) : d.metas = [] := by
  cases d <;> simp only [plainN, Bool.and_eq_true, List.isEmpty_iff] at h
  · exact h.1
  · exact h

theorem matchP_revDup_self (S : Schema) (c : DNode) (hd : S.isDupInst c.sid = false) : matchP S c (revDup c) = true := by
  unfold matchP
  rw [instMatch_eq hd]
  have : sameInst S (revDup c) c = true :=
    sameInst_symm (sameInst_dupKids S c (revDup c) (by simp) (by simp) (kids_revDup c))
  simp [this]

theorem findForApply_revDupL_isSome (S : Schema) (l : List DNode) (c : DNode) (hc : c ∈ l) (hd : S.isDupInst c.sid = false) :
    (findForApply S (revDupL l) c).isSome = true := by
  rw [findForApply_eq13, List.findIdx?_isSome, List.any_eq_true]
  exact ⟨revDup c, by rw [revDupL_eq_map]; exact List.mem_map_of_mem hc, matchP_revDup_self S c hd⟩

theorem changeOp_plain (c : DNode) (op : Op) (h : c.metas = []) : (changeOp c op).metas = [("operation", bs op.str)] := by
  simp [changeOp, h, eraseMeta]

theorem goodN_changeOp (S : Schema) (c : DNode) (op : Op) : goodN S (changeOp c op) = goodN S c :=
  goodN_congr_norm (normN_changeOp c op)

theorem mem_noKeys_notKey {S : Schema} {l : List DNode} (h : keysLead S l = true) {x : DNode} (hx : x ∈ noKeys S l) :
    S.isKey x.sid = false := by
  unfold keysLead at h
  have := List.all_eq_true.mp h x hx
  simpa using this

theorem childInh_of_own (d : DNode) (op : Op) (inh : Option Op) (h : ownOp d = some op) (hne : op ≠ .replace) :
    childInhOf d inh = some op := by
  unfold childInhOf
  rw [h]
  cases op <;> simp at hne ⊢

theorem redundant_none_nokids (S : Schema) (cur : Option Op) (t : DNode) (hop : effOp t cur = some .none)
    (hnt : S.isTerm t.sid = false) (hk : noKeys S t.kids = []) : (isRedundant S cur t).2 = true := by
  unfold isRedundant
  simp [hop, hnt, hk]

theorem redundant_none_term (S : Schema) (cur : Option Op) (t : DNode) (hop : effOp t cur = some .none)
    (ht : S.isTerm t.sid = true) (hod : getMeta t "orig-default" = some (boolBytes t.flags.dflt)) :
    (isRedundant S cur t).2 = true := by
  unfold isRedundant
  simp only [hop, hod, boolBytes_eq_true, boolBytes_eq_false, ht]
  cases t.flags.dflt <;> simp

end LyModel.Diff

namespace LyModel.Diff
open LyModel LyModel.Tree

/-! ### projections (as rewrite rules that leave abstract nodes alone) -/

theorem pj_sid_inner (s : Nat) (f : Flags) (m : List Meta) (k : List DNode) : (DNode.inner s f m k).sid = s := rfl
theorem pj_sid_term (s : Nat) (f : Flags) (m : List Meta) (v : Bytes) : (DNode.term s f m v).sid = s := rfl
theorem pj_kids_inner (s : Nat) (f : Flags) (m : List Meta) (k : List DNode) : (DNode.inner s f m k).kids = k := rfl
theorem pj_kids_term (s : Nat) (f : Flags) (m : List Meta) (v : Bytes) : (DNode.term s f m v).kids = [] := rfl
theorem pj_metas_inner (s : Nat) (f : Flags) (m : List Meta) (k : List DNode) : (DNode.inner s f m k).metas = m := rfl
theorem pj_metas_term (s : Nat) (f : Flags) (m : List Meta) (v : Bytes) : (DNode.term s f m v).metas = m := rfl
theorem pj_flags_inner (s : Nat) (f : Flags) (m : List Meta) (k : List DNode) : (DNode.inner s f m k).flags = f := rfl
theorem pj_flags_term (s : Nat) (f : Flags) (m : List Meta) (v : Bytes) : (DNode.term s f m v).flags = f := rfl
theorem pj_val_term (s : Nat) (f : Flags) (m : List Meta) (v : Bytes) : (DNode.term s f m v).val = v := rfl
theorem pj_setKids_inner (s : Nat) (f : Flags) (m : List Meta) (k k' : List DNode) :
    (DNode.inner s f m k).setKids k' = .inner s f m k' := rfl
theorem pj_setKids_term (s : Nat) (f : Flags) (m : List Meta) (v : Bytes) (k' : List DNode) :
    (DNode.term s f m v).setKids k' = .term s f m v := rfl
theorem pj_setMetas_inner (s : Nat) (f : Flags) (m m' : List Meta) (k : List DNode) :
    (DNode.inner s f m k).setMetas m' = .inner s f m' k := rfl
theorem pj_setMetas_term (s : Nat) (f : Flags) (m m' : List Meta) (v : Bytes) :
    (DNode.term s f m v).setMetas m' = .term s f m' v := rfl

theorem effOp_own (d : DNode) (op : Op) (inh : Option Op) (h : ownOp d = some op) : effOp d inh = some op := by
  simp [effOp, h]

theorem goodL_mem_c {S : Schema} : ∀ {l : List DNode} {x : DNode}, goodL S l = true → x ∈ l → goodN S x = true
  | [], _, _, h => by simp at h
  | y :: ys, x, hg, h => by
    simp only [goodL, Bool.and_eq_true] at hg
    rcases List.mem_cons.1 h with rfl | h
    · exact hg.1.1
    · exact goodL_mem_c hg.2 h

/-! ### `delete` merged into a created subtree -/

/-- what `lyd_diff_merge_delete` makes of a created inner node with a plain subtree -/
theorem mergeDelete_create_inner (S : Schema) (s0 : Nat) (f : Flags) (ks : List DNode) (s : DNode)
    (hsame : sameInst S (.inner s0 f [("operation", bs "create")] ks) s = true) (hnd : S.isDupInst s0 = false)
    (hnt : S.isTerm s0 = false)
    (hkids : ∀ c ∈ noKeys S ks, getMeta c "operation" = none ∧ (findForApply S s.kids c).isSome = true) :
    mergeDelete S (.inner s0 f [("operation", bs "create")] ks) .create s =
      .ok (.inner s0 f [("operation", bs "none")] (keysOf S ks ++ (noKeys S ks).map fun c => changeOp c .create)) := by
  unfold mergeDelete
  simp only [hsame, Bool.not_true, Bool.false_eq_true, if_false, pj_sid_inner, hnt, Except.map]
  have h1 : changeOp (DNode.inner s0 f [("operation", bs "create")] ks) Op.none =
      .inner s0 f [("operation", bs "none")] ks := by
    simp [changeOp, eraseMeta, pj_setMetas_inner, pj_metas_inner, Op.str]
  simp only [h1, pj_sid_inner, hnd, Bool.false_eq_true, if_false, pj_kids_inner, pj_setKids_inner]
  congr 3
  apply List.map_congr_left
  intro c hc
  obtain ⟨h2, h3⟩ := hkids c hc
  simp only [h2, h3, Option.isSome_none, Bool.false_eq_true, if_false, if_true]

theorem mergeDelete_create_term (S : Schema) (s0 : Nat) (f : Flags) (v : Bytes) (s : DNode)
    (hsame : sameInst S (.term s0 f [("operation", bs "create")] v) s = true) (hnd : S.isDupInst s0 = false)
    (ht : S.isTerm s0 = true) :
    mergeDelete S (.term s0 f [("operation", bs "create")] v) .create s =
      .ok (.term s0 f [("operation", bs "none"), ("orig-default", boolBytes s.flags.dflt)] v) := by
  unfold mergeDelete
  simp only [hsame, Bool.not_true, Bool.false_eq_true, if_false, pj_sid_term, ht, if_true, Except.map]
  simp [changeOp, eraseMeta, pj_setMetas_term, pj_metas_term, Op.str, addMeta, hnd, pj_setKids_term, pj_sid_term]

/-- a source node with effective operation `delete` and a copy of the (plain) subtree of the created target node `t` cancels it -/
theorem del_cancel (S : Schema) (o : MergeOpts) : ∀ (n : Nat) (t s : DNode) (cur sin : Option Op) (pre rest : List DNode),
    t.height ≤ n → goodN S t = true → S.isKey t.sid = false → t.metas = [("operation", bs "create")] →
    plainL t.kids = true → s.sid = t.sid → s.isTerm = t.isTerm → s.val = t.val → s.flags.dflt = t.flags.dflt →
    s.kids = revDupL t.kids → effOp s sin = some .delete → childInhOf s sin = some .delete →
    (∀ k ∈ pre, S.isKey k.sid = true) →
    mergeR S o cur sin s (pre ++ t :: rest) = .ok (pre ++ rest)
  | 0, t, _, _, _, _, _, h, _, _, _, _, _, _, _, _, _, _, _, _ => by have := height_pos13 t; omega
  | n + 1, t, s, cur, sin, pre, rest, hh, hg, hk, hm, hpl, hsid, hst, hval, hdf, hkids, hsop, hsinh, hpre => by
    have hd := goodN_dom hg
    have hds : S.isDupInst s.sid = false := by rw [hsid]; exact hd.ndi
    have hks : S.isKey s.sid = false := by rw [hsid]; exact hk
    have hown : ownOp t = some .create := ownOp_of_metas t .create hm
    rw [mergeR_eq]
    cases t with
    | term s0 f m v =>
      simp only [DNode.metas] at hm
      subst hm
      have hts : S.isTerm s0 = true := by have := hd.typed; simpa [DNode.isTerm, DNode.sid] using this.symm
      have hsT : s.isTerm = true := by rw [hst]; rfl
      have hdf' : s.flags.dflt = f.dflt := hdf
      have hcell : mergeCell S o .delete (.term s0 f [("operation", bs "create")] v) .create s =
          .ok (.term s0 f [("operation", bs "none"), ("orig-default", boolBytes s.flags.dflt)] v, false) := by
        show (mergeDelete S _ .create s).map (·, false) = _
        rw [mergeDelete_create_term S s0 f v s (sameInst_dupKids S _ s hsid hval hkids) hd.ndi hts]
        rfl
      have hred : (isRedundant S cur
          (DNode.term s0 f [("operation", bs "none"), ("orig-default", boolBytes s.flags.dflt)] v)).2 = true :=
        redundant_none_term S cur _ (effOp_own _ .none cur (ownOp_of_metas_cons _ .none _ rfl)) hts
          (by simp [getMeta, pj_metas_term, pj_flags_term, hdf'])
      exact mergeStep_cancel S o cur sin s _ _ pre rest [] .delete .create _ hsop (effOp_own _ _ _ hown)
        (fun x hx => matchP_key_false S s x hks (hpre x hx)) (matchP_dupKids S _ s hds hsid hval hkids) hd.ndi hds
        hcell (by simp [hsT, pj_kids_term]) hred
    | inner s0 f m ks =>
      simp only [DNode.metas] at hm
      subst hm
      simp only [pj_kids_inner] at hpl hkids
      have hnt : S.isTerm s0 = false := by have := hd.typed; simpa [DNode.isTerm, DNode.sid] using this.symm
      have hsT : s.isTerm = false := by rw [hst]; rfl
      have hgk : goodT S ks = true := goodN_kidsT hg
      have hkid : ∀ c ∈ noKeys S ks, c ∈ ks := fun c hc => (List.dropWhile_sublist _).subset hc
      have hkg : ∀ c ∈ ks, goodN S c = true := fun c hc => goodL_mem_c (goodT_goodL hgk) hc
      apply mergeStep_cancel S o cur sin s _ _ pre rest (keysOf S ks) .delete .create _ hsop (effOp_own _ _ _ hown)
        (fun x hx => matchP_key_false S s x hks (hpre x hx)) (matchP_dupKids S _ s hds hsid hval hkids) hd.ndi hds
      · show (mergeDelete S _ .create s).map (·, false) = _
        rw [mergeDelete_create_inner S s0 f ks s (sameInst_dupKids S _ s hsid hval hkids) hd.ndi hnt]
        · rfl
        · intro c hc
          refine ⟨?_, ?_⟩
          · simp [getMeta, plainN_metas (plainL_mem hpl (hkid c hc))]
          · rw [hkids]
            exact findForApply_revDupL_isSome S ks c (hkid c hc) (goodN_dom (hkg c (hkid c hc))).ndi
      · -- the recursion
        simp only [hsT, Bool.false_eq_true, if_false, pj_kids_inner, hsinh]
        rw [childInh_of_own _ .none cur (ownOp_of_metas _ .none (by simp [pj_metas_inner, Op.str])) (by decide)]
        rw [hkids]
        conv => lhs; arg 6; rw [← keysOf_append_noKeys S ks]
        rw [revDupL_eq_map, List.map_append,
          mergeKids_skip_keys S o _ _ _ _ _ (by
            intro k hk
            obtain ⟨y, hy, rfl⟩ := List.mem_map.1 hk
            rw [sid_revDup]; exact mem_keysOf_isKey hy)]
        apply mergeKids_cancel_map S o (some .none) (some .delete) revDup (fun c => changeOp c .create) (noKeys S ks)
          (keysOf S ks) true _ (fun x hx => mem_keysOf_isKey hx)
        intro k hkm
        have hkk := hkid k hkm
        have hnk : S.isKey k.sid = false := mem_noKeys_notKey (goodT_lead hgk) hkm
        have hkp := plainL_mem hpl hkk
        refine ⟨by rw [sid_revDup]; exact hnk, ?_⟩
        intro pre' rest' hpre'
        apply del_cancel S o n (changeOp k .create) (revDup k) (some .none) (some .delete) pre' rest'
        · rw [height_changeOp]
          have := height_le_heightL hkk
          simp only [DNode.height] at hh
          omega
        · rw [goodN_changeOp]; exact hkg k hkk
        · simpa using hnk
        · exact changeOp_plain k .create (plainN_metas hkp)
        · rw [kids_changeOp]; exact plainN_kids hkp
        · simp
        · simp
        · simp
        · simp
        · simp [kids_revDup]
        · simp [effOp, ownOp_revDup, plainN_ownOp hkp]
        · simp [childInhOf, ownOp_revDup, plainN_ownOp hkp]
        · exact hpre'
      · apply redundant_none_nokids S cur _ (effOp_own _ _ _ (ownOp_of_metas _ .none (by simp [pj_setKids_inner, pj_metas_inner, Op.str])))
        · simpa [pj_setKids_inner, pj_sid_inner] using hnt
        · simp [pj_setKids_inner, pj_kids_inner, noKeys_keysOf]

end LyModel.Diff

namespace LyModel.Diff
open LyModel LyModel.Tree

/-! ### `create` merged into a deleted subtree -/

theorem mergeCreate_delete_inner (S : Schema) (o : MergeOpts) (s0 : Nat) (f : Flags) (ks : List DNode) (s : DNode)
    (hsame : sameInst S (.inner s0 f [("operation", bs "delete")] ks) s = true) (hnu : S.isUserOrd s.sid = false)
    (hnt : S.isTerm s0 = false) :
    mergeCreate S o (.inner s0 f [("operation", bs "delete")] ks) .delete s =
      .ok (.inner s0 f [("operation", bs "none")] (keysOf S ks ++ (noKeys S ks).map fun c => changeOp c .delete), false) := by
  unfold mergeCreate
  have h1 : changeOp (DNode.inner s0 f [("operation", bs "delete")] ks) Op.none =
      .inner s0 f [("operation", bs "none")] ks := by
    simp [changeOp, eraseMeta, pj_setMetas_inner, pj_metas_inner, Op.str]
  simp only [hnu, Bool.false_eq_true, if_false, hsame, if_true, h1]
  split <;> (try split) <;> simp [Except.map, pj_sid_inner, hnt, pj_kids_inner, pj_setKids_inner]

theorem mergeCreate_delete_term (S : Schema) (o : MergeOpts) (s0 : Nat) (f : Flags) (v : Bytes) (s : DNode)
    (hsame : sameInst S (.term s0 f [("operation", bs "delete")] v) s = true) (hnu : S.isUserOrd s.sid = false)
    (ht : S.isTerm s0 = true) :
    mergeCreate S o (.term s0 f [("operation", bs "delete")] v) .delete s =
      .ok (.term s0 { f with dflt := s.flags.dflt } [("operation", bs "none"), ("orig-default", boolBytes f.dflt)] v, false) := by
  unfold mergeCreate
  have h1 : changeOp (DNode.term s0 f [("operation", bs "delete")] v) Op.none =
      .term s0 f [("operation", bs "none")] v := by
    simp [changeOp, eraseMeta, pj_setMetas_term, pj_metas_term, Op.str]
  simp only [hnu, Bool.false_eq_true, if_false, hsame, if_true, h1]
  split <;> (try split) <;>
    simp [Except.map, pj_sid_term, ht, pj_kids_term, pj_setKids_term, addMeta, pj_metas_term, pj_setMetas_term,
      DNode.setDflt, DNode.setFlags, pj_flags_term]

/-- a source node with effective operation `create` and a copy of the (plain) subtree of the deleted target node `t` cancels it -/
theorem cre_cancel (S : Schema) (o : MergeOpts) : ∀ (n : Nat) (t s : DNode) (cur sin : Option Op) (pre rest : List DNode),
    t.height ≤ n → goodN S t = true → S.isKey t.sid = false → t.metas = [("operation", bs "delete")] →
    plainL t.kids = true → s.sid = t.sid → s.isTerm = t.isTerm → s.val = t.val → s.flags.dflt = t.flags.dflt →
    s.kids = revDupL t.kids → effOp s sin = some .create → childInhOf s sin = some .create →
    (∀ k ∈ pre, S.isKey k.sid = true) →
    mergeR S o cur sin s (pre ++ t :: rest) = .ok (pre ++ rest)
  | 0, t, _, _, _, _, _, h, _, _, _, _, _, _, _, _, _, _, _, _ => by have := height_pos13 t; omega
  | n + 1, t, s, cur, sin, pre, rest, hh, hg, hk, hm, hpl, hsid, hst, hval, hdf, hkids, hsop, hsinh, hpre => by
    have hd := goodN_dom hg
    have hds : S.isDupInst s.sid = false := by rw [hsid]; exact hd.ndi
    have hus : S.isUserOrd s.sid = false := by rw [hsid]; exact hd.nuo
    have hks : S.isKey s.sid = false := by rw [hsid]; exact hk
    have hown : ownOp t = some .delete := ownOp_of_metas t .delete hm
    rw [mergeR_eq]
    cases t with
    | term s0 f m v =>
      simp only [pj_metas_term] at hm
      subst hm
      have hts : S.isTerm s0 = true := by have := hd.typed; simpa [DNode.isTerm, pj_sid_term] using this.symm
      have hsT : s.isTerm = true := by rw [hst]; rfl
      have hdf' : s.flags.dflt = f.dflt := hdf
      have hcell : mergeCell S o .create (.term s0 f [("operation", bs "delete")] v) .delete s =
          .ok (.term s0 { f with dflt := s.flags.dflt } [("operation", bs "none"), ("orig-default", boolBytes f.dflt)] v,
            false) := by
        show mergeCreate S o _ .delete s = _
        exact mergeCreate_delete_term S o s0 f v s (sameInst_dupKids S _ s hsid hval hkids) hus hts
      have hred : (isRedundant S cur (DNode.term s0 { f with dflt := s.flags.dflt }
          [("operation", bs "none"), ("orig-default", boolBytes f.dflt)] v)).2 = true :=
        redundant_none_term S cur _ (effOp_own _ .none cur (ownOp_of_metas_cons _ .none _ rfl)) hts
          (by simp [getMeta, pj_metas_term, pj_flags_term, hdf'])
      exact mergeStep_cancel S o cur sin s _ _ pre rest [] .create .delete _ hsop (effOp_own _ _ _ hown)
        (fun x hx => matchP_key_false S s x hks (hpre x hx)) (matchP_dupKids S _ s hds hsid hval hkids) hd.ndi hds
        hcell (by simp [hsT, pj_kids_term]) hred
    | inner s0 f m ks =>
      simp only [pj_metas_inner] at hm
      subst hm
      simp only [pj_kids_inner] at hpl hkids
      have hnt : S.isTerm s0 = false := by have := hd.typed; simpa [DNode.isTerm, pj_sid_inner] using this.symm
      have hsT : s.isTerm = false := by rw [hst]; rfl
      have hgk : goodT S ks = true := goodN_kidsT hg
      have hkid : ∀ c ∈ noKeys S ks, c ∈ ks := fun c hc => (List.dropWhile_sublist _).subset hc
      have hkg : ∀ c ∈ ks, goodN S c = true := fun c hc => goodL_mem_c (goodT_goodL hgk) hc
      have hcell : mergeCell S o .create (.inner s0 f [("operation", bs "delete")] ks) .delete s =
          .ok (.inner s0 f [("operation", bs "none")] (keysOf S ks ++ (noKeys S ks).map fun c => changeOp c .delete), false) := by
        show mergeCreate S o _ .delete s = _
        exact mergeCreate_delete_inner S o s0 f ks s (sameInst_dupKids S _ s hsid hval hkids) hus hnt
      apply mergeStep_cancel S o cur sin s _ _ pre rest (keysOf S ks) .create .delete _ hsop (effOp_own _ _ _ hown)
        (fun x hx => matchP_key_false S s x hks (hpre x hx)) (matchP_dupKids S _ s hds hsid hval hkids) hd.ndi hds hcell
      · -- the recursion
        simp only [hsT, Bool.false_eq_true, if_false, pj_kids_inner, hsinh]
        rw [childInh_of_own _ .none cur (ownOp_of_metas _ .none (by simp [pj_metas_inner, Op.str])) (by decide)]
        rw [hkids]
        conv => lhs; arg 6; rw [← keysOf_append_noKeys S ks]
        rw [revDupL_eq_map, List.map_append,
          mergeKids_skip_keys S o _ _ _ _ _ (by
            intro k hk
            obtain ⟨y, hy, rfl⟩ := List.mem_map.1 hk
            rw [sid_revDup]; exact mem_keysOf_isKey hy)]
        apply mergeKids_cancel_map S o (some .none) (some .create) revDup (fun c => changeOp c .delete) (noKeys S ks)
          (keysOf S ks) true _ (fun x hx => mem_keysOf_isKey hx)
        intro k hkm
        have hkk := hkid k hkm
        have hnk : S.isKey k.sid = false := mem_noKeys_notKey (goodT_lead hgk) hkm
        have hkp := plainL_mem hpl hkk
        refine ⟨by rw [sid_revDup]; exact hnk, ?_⟩
        intro pre' rest' hpre'
        apply cre_cancel S o n (changeOp k .delete) (revDup k) (some .none) (some .create) pre' rest'
        · rw [height_changeOp]
          have := height_le_heightL hkk
          simp only [DNode.height] at hh
          omega
        · rw [goodN_changeOp]; exact hkg k hkk
        · simpa using hnk
        · exact changeOp_plain k .delete (plainN_metas hkp)
        · rw [kids_changeOp]; exact plainN_kids hkp
        · simp
        · simp
        · simp
        · simp
        · simp [kids_revDup]
        · simp [effOp, ownOp_revDup, plainN_ownOp hkp]
        · simp [childInhOf, ownOp_revDup, plainN_ownOp hkp]
        · exact hpre'
      · apply redundant_none_nokids S cur _ (effOp_own _ _ _ (ownOp_of_metas _ .none (by simp [pj_setKids_inner, pj_metas_inner, Op.str])))
        · simpa [pj_setKids_inner, pj_sid_inner] using hnt
        · simp [pj_setKids_inner, pj_kids_inner, noKeys_keysOf]

end LyModel.Diff

namespace LyModel.Diff
open LyModel LyModel.Tree

/-! ### the nodes of an exact diff, one by one -/

/-- the reversed node of `c` finds `c` behind the key leaves and removes it -/
def NodeCanSpec (S : Schema) (o : MergeOpts) (c : DNode) : Prop :=
  ∀ (inh : Option Op) (e : Option DNode), (inh = none ∨ inh = some .none) → exactE S inh e c = true → stdN c = true →
    ∃ c', revNode S inh (revDup c) = .ok c' ∧ c'.sid = c.sid ∧
      ∀ pre rest, (∀ k ∈ pre, S.isKey k.sid = true) → mergeR S o inh inh c' (pre ++ c :: rest) = .ok (pre ++ rest)

def ListCanSpec (S : Schema) (o : MergeOpts) (D : List DNode) : Prop :=
  ∀ (inh : Option Op) (L : List DNode) (leading : Bool), (inh = none ∨ inh = some .none) →
    exactK S inh L leading D = true → stdL D = true →
    ∃ R, revL S inh (revDupL D) = .ok R ∧ (leading = true → keysOf S R = revDupL (keysOf S D)) ∧
      ∀ pre, (∀ k ∈ pre, S.isKey k.sid = true) →
        mergeKids S o inh inh leading R (pre ++ D) = .ok (pre ++ (if leading then keysOf S D else []))

theorem can_create {S : Schema} {o : MergeOpts} {inh : Option Op} {e : Option DNode} {c : DNode}
    (hinh : inh = none ∨ inh = some .none) (hex : exactE S inh e c = true) (hstd : stdN c = true)
    (hop : effOp c inh = some .create) :
    ∃ c', revNode S inh (revDup c) = .ok c' ∧ c'.sid = c.sid ∧
      ∀ pre rest, (∀ k ∈ pre, S.isKey k.sid = true) → mergeR S o inh inh c' (pre ++ c :: rest) = .ok (pre ++ rest) := by
  obtain ⟨hd, hm, hk⟩ := exactE_base hex
  obtain ⟨_, hpl, hgk⟩ := exactE_create hex hop
  have hown := ownOp_of_effOp hinh hop (by decide)
  have hrev : revNode S inh (revDup c) = .ok (changeOp (revDup c) .delete) := by
    rw [revNode_create (by simpa using hk) (by rw [effOp_revDup]; exact hop), kids_revDup,
      map_removeOp_plain _ (by rw [plainL_revDupL]; exact hpl), ← kids_revDup]
    have : (revDup c).kids = (changeOp (revDup c) .delete).kids := by simp
    rw [this, setKids_kids]
  refine ⟨_, hrev, by simp, ?_⟩
  intro pre rest hpre
  have hmo := metaOK_revDup hm
  exact del_cancel S o c.height c _ inh inh pre rest (Nat.le_refl _) (goodN_iff.mpr ⟨hd, hgk⟩) hk (stdN_create hstd hown) hpl
    (by simp) (by simp) (by simp) (by simp) (by simp [kids_revDup]) (effOp_changeOp hmo .delete)
    (childInh_of_own _ .delete inh (ownOp_changeOp hmo .delete) (by decide)) hpre

theorem can_delete {S : Schema} {o : MergeOpts} {inh : Option Op} {e : Option DNode} {c : DNode}
    (hinh : inh = none ∨ inh = some .none) (hex : exactE S inh e c = true) (hstd : stdN c = true)
    (hop : effOp c inh = some .delete) :
    ∃ c', revNode S inh (revDup c) = .ok c' ∧ c'.sid = c.sid ∧
      ∀ pre rest, (∀ k ∈ pre, S.isKey k.sid = true) → mergeR S o inh inh c' (pre ++ c :: rest) = .ok (pre ++ rest) := by
  obtain ⟨hd, hm, hk⟩ := exactE_base hex
  obtain ⟨_, _, _, hpl, hgk⟩ := exactE_delete hex hop
  have hown := ownOp_of_effOp hinh hop (by decide)
  have hrev : revNode S inh (revDup c) = .ok (changeOp (revDup c) .create) := by
    rw [revNode_delete (by simpa using hk) (by rw [effOp_revDup]; exact hop), kids_revDup,
      map_removeOp_plain _ (by rw [plainL_revDupL]; exact hpl), ← kids_revDup]
    have : (revDup c).kids = (changeOp (revDup c) .create).kids := by simp
    rw [this, setKids_kids]
  refine ⟨_, hrev, by simp, ?_⟩
  intro pre rest hpre
  have hmo := metaOK_revDup hm
  exact cre_cancel S o c.height c _ inh inh pre rest (Nat.le_refl _) (goodN_iff.mpr ⟨hd, hgk⟩) hk (stdN_delete hstd hown) hpl
    (by simp) (by simp) (by simp) (by simp) (by simp [kids_revDup]) (effOp_changeOp hmo .create)
    (childInh_of_own _ .create inh (ownOp_changeOp hmo .create) (by decide)) hpre

theorem matchP_self (S : Schema) (c : DNode) (hd : S.isDupInst c.sid = false) : matchP S c c = true := by
  unfold matchP
  rw [instMatch_eq hd, sameInst_refl13]
  simp

theorem can_none_term {S : Schema} {o : MergeOpts} {inh : Option Op} {e : Option DNode} {c : DNode}
    (hex : exactE S inh e c = true) (hop : effOp c inh = some .none) (hct : c.isTerm = true) :
    ∃ c', revNode S inh (revDup c) = .ok c' ∧ c'.sid = c.sid ∧
      ∀ pre rest, (∀ k ∈ pre, S.isKey k.sid = true) → mergeR S o inh inh c' (pre ++ c :: rest) = .ok (pre ++ rest) := by
  obtain ⟨hd, hm, hk⟩ := exactE_base hex
  obtain ⟨x, rfl, _, hod⟩ := exactE_none_term hex hop hct
  have htt : (revDup c).isTerm = true := by simpa using hct
  have hod' : getMeta (revDup c) "orig-default" = some (boolBytes x.flags.dflt) := by simpa [getMeta_def] using hod
  have hSt : S.isTerm c.sid = true := by rw [← hd.typed]; exact hct
  obtain ⟨c', hc', hs', hv', ht', hk', hf', ho', _⟩ := revDefault_spec hod'
  rw [boolBytes_eq_true] at hf'
  have hrev : revNode S inh (revDup c) = .ok c' := by
    rw [revNode_term_none htt (by simpa using hk) (by rw [effOp_revDup]; exact hop)]
    simp only [revNone, sid_revDup, hSt, ↓reduceIte]
    exact hc'
  have hsid : c'.sid = c.sid := by rw [hs']; simp
  refine ⟨c', hrev, hsid, ?_⟩
  intro pre rest hpre
  have hsop : effOp c' inh = some .none := by rw [effOp_of_getMeta ho', effOp_revDup]; exact hop
  have hc't : c'.isTerm = true := by rw [ht']; exact htt
  have hmatch : matchP S c' c = true := by
    rw [matchP_of_same_data hd.ndi hsid (by rw [hv']; simp) (by rw [hk', kids_revDup, kids_term hct]; rfl)]
    exact matchP_self S c hd.ndi
  rw [mergeR_eq]
  apply mergeStep_cancel S o inh inh c' c (c.setDflt x.flags.dflt) pre rest (c.setDflt x.flags.dflt).kids .none .none _ hsop hop
    (fun y hy => matchP_key_false S c' y (by rw [hsid]; exact hk) (hpre y hy)) hmatch hd.ndi (by rw [hsid]; exact hd.ndi)
  · show (mergeNone S c .none c').map (·, false) = _
    simp [mergeNone, hsid, hSt, hf', Except.map]
  · simp [hc't]
  · rw [setKids_kids]
    apply redundant_none_term S inh _ _ (by simpa using hSt)
    · rw [dflt_setDflt]
      have : getMeta (c.setDflt x.flags.dflt) "orig-default" = getMeta c "orig-default" := by
        simp [getMeta_def]
      rw [this]; exact hod
    · rw [effOp_congr_metas (d := c) (by simp)]; exact hop

end LyModel.Diff

namespace LyModel.Diff
open LyModel LyModel.Tree

theorem metas_changeTerm (n : DNode) (v : Bytes) : (changeTerm n v).metas = n.metas := by
  cases n <;> rfl
theorem sid_changeTerm (n : DNode) (v : Bytes) : (changeTerm n v).sid = n.sid := by
  cases n <;> rfl
theorem val_changeTerm {n : DNode} (h : n.isTerm = true) (v : Bytes) : (changeTerm n v).val = v := by
  cases n with
  | inner => simp [DNode.isTerm] at h
  | term => rfl

theorem can_replace {S : Schema} {o : MergeOpts} {inh : Option Op} {e : Option DNode} {c : DNode}
    (hex : exactE S inh e c = true) (hop : effOp c inh = some .replace) :
    ∃ c', revNode S inh (revDup c) = .ok c' ∧ c'.sid = c.sid ∧
      ∀ pre rest, (∀ k ∈ pre, S.isKey k.sid = true) → mergeR S o inh inh c' (pre ++ c :: rest) = .ok (pre ++ rest) := by
  obtain ⟨hd, hm, hk⟩ := exactE_base hex
  obtain ⟨hct, x, rfl, hleaf, hov, hod, hne⟩ := exactE_replace hex hop
  have htt : (revDup c).isTerm = true := by simpa using hct
  have hkind : S.kind? (revDup c).sid = some .leaf := by simpa using isKind_iff.mp hleaf
  have hkindc : S.kind? c.sid = some .leaf := isKind_iff.mp hleaf
  have hov' : getMeta (revDup c) "orig-value" = some x.val := by simpa [getMeta_def] using hov
  have hod' : getMeta (revDup c) "orig-default" = some (boolBytes x.flags.dflt) := by simpa [getMeta_def] using hod
  have hne' : x.val ≠ (revDup c).val := by simpa using Ne.symm hne
  have hV := revValue_spec hov' hne'
  have ht1od : getMeta (((revDup c).setVal x.val).setMetas (setMetaVal "orig-value" (revDup c).val (revDup c).metas))
      "orig-default" = some (boolBytes x.flags.dflt) := by
    have := getMeta_setMetas_setMetaVal_ne (t := (revDup c).setVal x.val) (name := "orig-value") (name' := "orig-default")
      (by decide) (revDup c).val
    simp only [metas_setVal] at this
    rw [this]
    simpa [getMeta_def] using hod'
  obtain ⟨c', hc', hs', hv', ht', _, hf', ho', _⟩ := revDefault_spec ht1od
  rw [boolBytes_eq_true] at hf'
  have hrev : revNode S inh (revDup c) = .ok c' := by
    rw [revNode_term_replace htt (by simpa using hk) (by rw [effOp_revDup]; exact hop)]
    simp only [revReplace, hkind, hV, Except.bind]
    exact hc'
  have hsid : c'.sid = c.sid := by rw [hs']; simp
  have hval : c'.val = x.val := by rw [hv', val_setMetas, val_setVal_term htt]
  have hc't : c'.isTerm = true := by rw [ht']; simpa using hct
  refine ⟨c', hrev, hsid, ?_⟩
  intro pre rest hpre
  have hsop : effOp c' inh = some .replace := by
    rw [effOp_of_getMeta ho']
    have := getMeta_setMetas_setMetaVal_ne (t := (revDup c).setVal x.val) (name := "orig-value") (name' := "operation")
      (by decide) (revDup c).val
    simp only [metas_setVal] at this
    rw [effOp_of_getMeta (d := revDup c) (by rw [this]; simp [getMeta_def]), effOp_revDup]
    exact hop
  have hmatch : matchP S c' c = true := matchP_leaf (by rw [hsid]; exact hleaf) hsid.symm
  have hsame : sameInst S c c' = false := by
    unfold sameInst
    rw [hkindc, hval]
    have : (c.val == x.val) = false := beq_eq_false_iff_ne.mpr hne
    simp [this]
  have hSt : S.isTerm c.sid = true := isTerm_of_leaf hleaf
  -- the merged node
  let Y := (changeTerm c x.val).setMetas (eraseMeta "orig-value" c.metas)
  have hYok : MetaOK Y := by
    show ((Y.metas).map (·.1)).Nodup
    simp only [Y, metas_setMetas]
    exact nodup_eraseMeta hm
  have hcell : mergeCell S o .replace c .replace c' = .ok ((changeOp Y .none).setDflt x.flags.dflt, false) := by
    show (mergeReplace S c .replace c').map (·, false) = _
    unfold mergeReplace
    have h1 : getMeta (changeTerm c x.val) "orig-value" = some x.val := by
      rw [getMeta_def, metas_changeTerm, ← getMeta_def]; exact hov
    simp only [hkindc, hsame, Bool.false_eq_true, if_false, beq_self_eq_true, if_true, hval, h1, val_changeTerm hct,
      metas_changeTerm, Except.map, hf']
    rfl
  rw [mergeR_eq]
  apply mergeStep_cancel S o inh inh c' c _ pre rest ((changeOp Y .none).setDflt x.flags.dflt).kids .replace .replace _ hsop hop
    (fun y hy => matchP_key_false S c' y (by rw [hsid]; exact hk) (hpre y hy)) hmatch hd.ndi (by rw [hsid]; exact hd.ndi) hcell
  · simp [hc't]
  · rw [setKids_kids]
    apply redundant_none_term S inh _ _ (by simpa [Y, sid_changeTerm] using hSt)
    · rw [dflt_setDflt]
      have h2 : getMeta ((changeOp Y .none).setDflt x.flags.dflt) "orig-default" = getMeta (changeOp Y .none) "orig-default" := by
        simp [getMeta_def]
      rw [h2, getMeta_changeOp_ne (by decide)]
      simp only [Y, getMeta_def, metas_setMetas]
      rw [find?_eraseMeta_ne (by decide), ← getMeta_def]
      exact hod
    · rw [effOp_congr_metas (d := changeOp Y .none) (by simp)]
      exact effOp_changeOp hYok .none

end LyModel.Diff

namespace LyModel.Diff
open LyModel LyModel.Tree

theorem can_none_inner {S : Schema} {o : MergeOpts} {s : Nat} {f : Flags} {m : List Meta} {ks : List DNode}
    (IH : ListCanSpec S o ks) {inh : Option Op} {e : Option DNode} (hinh : inh = none ∨ inh = some .none)
    (hex : exactE S inh e (.inner s f m ks) = true) (hstd : stdN (.inner s f m ks) = true)
    (hop : effOp (.inner s f m ks) inh = some .none) :
    ∃ c', revNode S inh (revDup (.inner s f m ks)) = .ok c' ∧ c'.sid = (DNode.inner s f m ks).sid ∧
      ∀ pre rest, (∀ k ∈ pre, S.isKey k.sid = true) →
        mergeR S o inh inh c' (pre ++ .inner s f m ks :: rest) = .ok (pre ++ rest) := by
  obtain ⟨hd, hm, hk⟩ := exactE_base hex
  obtain ⟨x, rfl, _, hexk⟩ := exactE_none_inner hex hop
  obtain ⟨R, hR, hRk, hRm⟩ := IH (childInhOf (.inner s f m ks) inh) x.kids true (childInh_none_or hinh hop) hexk
    (stdN_none_inner hinh hop hstd)
  simp only [pj_sid_inner] at hk
  have hci : ∀ ks', childInhOf (DNode.inner s { dflt := f.dflt, new := true } m ks') inh = childInhOf (.inner s f m ks) inh :=
    fun ks' => childInh_congr_metas (d := .inner s f m ks) (d' := .inner s { dflt := f.dflt, new := true } m ks') rfl
  have hopt : ∀ (f' : Flags) ks', effOp (DNode.inner s f' m ks') inh = some .none := fun f' ks' =>
    (effOp_congr_metas (d := .inner s f m ks) (d' := .inner s f' m ks') rfl).trans hop
  have hnt : S.isTerm s = false := by have := hd.typed; simpa [DNode.isTerm, pj_sid_inner] using this.symm
  have hndi : S.isDupInst s = false := hd.ndi
  refine ⟨.inner s { dflt := f.dflt, new := true } m R, ?_, rfl, ?_⟩
  · simp only [revDup, revNode, hk, Bool.false_eq_true, ↓reduceIte, hopt, hci, hR]
  · intro pre rest hpre
    rw [mergeR_eq]
    have hmatch : matchP S (.inner s { dflt := f.dflt, new := true } m R) (.inner s f m ks) = true := by
      unfold matchP
      rw [instMatch_eq hndi]
      have : sameInst S (.inner s f m ks) (.inner s { dflt := f.dflt, new := true } m R) = true := by
        unfold sameInst
        simp only [pj_sid_inner, pj_kids_inner, beq_self_eq_true, Bool.true_and, hRk rfl]
        split <;> simp [keysEq_revDupL, DNode.val]
      simp [this, pj_sid_inner]
    apply mergeStep_cancel S o inh inh _ (.inner s f m ks) (.inner s f m ks) pre rest (keysOf S ks) .none .none _
      (hopt _ _) hop (fun y hy => matchP_key_false S _ y hk (hpre y hy)) hmatch hndi hndi
    · show (mergeNone S _ .none _).map (·, false) = _
      simp [mergeNone, pj_sid_inner, hnt, Except.map]
    · simp only [DNode.isTerm, Bool.false_eq_true, if_false, pj_kids_inner, hci]
      have := hRm [] (by simp)
      simpa using this
    · apply redundant_none_nokids S inh _ (hopt _ _)
      · simpa [pj_setKids_inner, pj_sid_inner] using hnt
      · simp [pj_setKids_inner, pj_kids_inner, noKeys_keysOf]

theorem listCan_cons {S : Schema} {o : MergeOpts} {c : DNode} {cs : List DNode} (hc : NodeCanSpec S o c)
    (hcs : ListCanSpec S o cs) : ListCanSpec S o (c :: cs) := by
  intro inh L leading hinh hex hstd
  simp only [stdL, Bool.and_eq_true] at hstd
  by_cases hlk : (leading && S.isKey c.sid) = true
  · simp only [Bool.and_eq_true] at hlk
    obtain ⟨rfl, hk⟩ := hlk
    have hex' : exactK S inh L true cs = true := by
      unfold exactK at hex
      simpa [hk] using hex
    obtain ⟨R, hR, hRk, hRm⟩ := hcs inh L true hinh hex' hstd.2
    have hkr : S.isKey (revDup c).sid = true := by simpa using hk
    refine ⟨revDup c :: R, revL_cons (revNode_key hkr) hR, ?_, ?_⟩
    · intro _
      rw [keysOf_cons_key hkr, keysOf_cons_key hk, hRk rfl]
      rfl
    · intro pre hpre
      rw [mergeKids_cons_key S o inh inh _ _ _ hkr]
      have := hRm (pre ++ [c]) (by
        intro k hkm
        rcases List.mem_append.1 hkm with h | h
        · exact hpre k h
        · simp only [List.mem_singleton] at h; subst h; exact hk)
      simp only [List.append_assoc, List.singleton_append, if_true] at this ⊢
      rw [this, keysOf_cons_key hk]
  · have hex' := hex
    unfold exactK at hex'
    simp only [hlk, Bool.false_eq_true, ↓reduceIte, Bool.and_eq_true] at hex'
    obtain ⟨⟨⟨hE, _⟩, _⟩, hrest⟩ := hex'
    have hk : S.isKey c.sid = false := (exactE_base hE).2.2
    obtain ⟨c', h1, hsid, hm1⟩ := hc inh (look S L c) hinh hE hstd.1
    obtain ⟨R, hR, _, hRm⟩ := hcs inh L false hinh hrest hstd.2
    have hk' : S.isKey c'.sid = false := by rw [hsid]; exact hk
    refine ⟨c' :: R, revL_cons h1 hR, ?_, ?_⟩
    · intro _
      rw [keysOf_cons_nokey hk', keysOf_cons_nokey hk]
      rfl
    · intro pre hpre
      rw [mergeKids_cons_nokey S o inh inh leading c' R _ _ hk' (hm1 pre cs hpre)]
      have := hRm pre hpre
      simp only [Bool.false_eq_true, if_false, List.append_nil] at this
      rw [this, keysOf_cons_nokey hk]
      simp

mutual
theorem nodeCan {S : Schema} {o : MergeOpts} : ∀ c : DNode, NodeCanSpec S o c
  | .inner s f m ks => by
    intro inh e hinh hex hstd
    cases hop : effOp (.inner s f m ks) inh with
    | none =>
      simp only [exactE, hop, Bool.and_eq_true] at hex
      cases e <;> simp at hex
    | some op =>
      cases op with
      | create => exact can_create hinh hex hstd hop
      | delete => exact can_delete hinh hex hstd hop
      | replace =>
        simp only [exactE, hop, Bool.and_eq_true] at hex
        cases e <;> simp at hex
      | none => exact can_none_inner (listCan ks) hinh hex hstd hop
  | .term s f m v => by
    intro inh e hinh hex hstd
    cases hop : effOp (.term s f m v) inh with
    | none =>
      simp only [exactE, hop, Bool.and_eq_true] at hex
      cases e <;> simp at hex
    | some op =>
      cases op with
      | create => exact can_create hinh hex hstd hop
      | delete => exact can_delete hinh hex hstd hop
      | replace => exact can_replace hex hop
      | none => exact can_none_term hex hop rfl
theorem listCan {S : Schema} {o : MergeOpts} : ∀ D : List DNode, ListCanSpec S o D
  | [] => by
    intro inh L leading _ _ _
    refine ⟨[], rfl, fun _ => rfl, ?_⟩
    intro pre _
    rw [mergeKids_nil]
    cases leading <;> simp [keysOf]
  | c :: cs => listCan_cons (nodeCan c) (listCan cs)
end

/-- **merge_cancel, tree level**: merging the reversed diff of an exact diff into it leaves the empty diff -/
theorem merge_reverse_empty {S : Schema} {o : MergeOpts} {A D : List DNode} (hD : exactDiff S A D = true)
    (hstd : stdL D = true) : ∃ R, reverse S D = .ok R ∧ mergeDiff o S D R = .ok [] := by
  obtain ⟨R, hR, _, hm⟩ := listCan (S := S) (o := o) D none A false (Or.inl rfl) hD hstd
  refine ⟨R, reverse_of_noUO (noUO_of_exactDiff hD) hR, ?_⟩
  have := hm [] (by simp)
  simpa [mergeDiff] using this

end LyModel.Diff
