import LyModel.Diff.LemmasCreate
/-!
# The diff nodes of the fragment (C06 proofs): what `lyd_diff_add` writes when nothing is user-ordered
Core Lean only.
-/
namespace LyModel.Diff
open LyModel LyModel.Tree

theorem nestedMeta_plain (S : Schema) (prev : Option DNode) (cnt : Nat) (n : DNode) (h : S.isUserOrd n.sid = false) :
    nestedMeta S prev cnt n = n := by
  simp [nestedMeta, h]

theorem nestedGo_plain (S : Schema) (recur : List DNode → List DNode)
    (hr : ∀ (kk : List DNode), wfL S kk = true → recur (kk.map dupRec) = kk.map dupRec) :
    ∀ (l : List DNode) (prev : Option DNode) (cnt : Nat), wfL S l = true →
      nestedGo S recur prev cnt (l.map dupRec) = l.map dupRec
  | [], _, _, _ => rfl
  | k :: rest, prev, cnt, hwl => by
    simp only [wfL, Bool.and_eq_true] at hwl
    have hnu : S.isUserOrd (dupRec k).sid = false := by
      rw [dupRec_sid]; exact plainSid_not_userOrd S k.sid (wfNode_plain S k hwl.1)
    simp only [List.map_cons, nestedGo, nestedMeta_plain S _ _ _ hnu, nestedGo_plain S recur hr rest _ _ hwl.2,
      List.cons.injEq, and_true]
    cases k with
    | term s f m v => rfl
    | inner s f m kk =>
      have hi := wfNode_inner S s f m kk hwl.1
      simp only [dupRec, dupRecL_eq_map, hr kk hi.kids]

/-- no nested user-ordered node: `lyd_diff_add_create_nested_userord` has nothing to add -/
theorem nestedAll_plain (S : Schema) : ∀ (fuel : Nat) (ks : List DNode), wfL S ks = true →
    nestedAll S fuel (ks.map dupRec) = ks.map dupRec
  | 0, _, _ => by simp [nestedAll]
  | fuel + 1, ks, hw => by
    simp only [nestedAll]
    exact nestedGo_plain S (nestedAll S fuel) (nestedAll_plain S fuel) ks none 0 hw

theorem withAttrs_op (S : Schema) (n : DNode) (op : Op) (hop : op ≠ .create) :
    withAttrs S n { op := op } = addMeta n "operation" op.bytes := by
  unfold withAttrs
  have : (op == Op.create) = false := by simpa using hop
  simp [this, addMetaOpt]

theorem addMeta_dupRec (n : DNode) (name : String) (v : Bytes) :
    addMeta (dupRec n) name v = (dupRec n).setMetas [(name, v)] := by
  simp [addMeta, dupRec_metas]

/-- the diff node of a deleted instance -/
theorem delNode_eq (S : Schema) (a : DNode) :
    withAttrs S (dupRec a) { op := .delete } = (dupRec a).setMetas [("operation", Op.delete.bytes)] := by
  rw [withAttrs_op S _ _ (by decide), addMeta_dupRec]

theorem setKids_setMetas_dupRec (b : DNode) (m : List Meta) :
    ((dupRec b).setMetas m).setKids (dupRec b).kids = (dupRec b).setMetas m := by
  cases b <;> rfl

/-- the diff node of a created instance -/
theorem createNode_eq (S : Schema) (b : DNode) (hw : wfNode S b = true) :
    withAttrs S (dupRec b) { op := .create } = (dupRec b).setMetas [("operation", Op.create.bytes)] := by
  unfold withAttrs
  simp only [beq_self_eq_true, if_true, addMetaOpt, addMeta_dupRec, setMetas_kids]
  have hk : (dupRec b).kids = b.kids.map dupRec := by rw [dupRec_kids, dupRecL_eq_map]
  have hwk : wfL S b.kids = true := by
    cases b with
    | term s f m v => rfl
    | inner s f m ks => exact (wfNode_inner S s f m ks hw).kids
  rw [hk, nestedAll_plain S _ b.kids hwk, ← hk, setKids_setMetas_dupRec]

end LyModel.Diff
