import LyModel.Diff.LemmasLevelD2
/-!
# Applying one level of the diff: the invariant (C06 proofs)

While `lyd_diff_apply_all` walks the diff siblings of one level, the data siblings stay canonical; what has been
processed (`done`, a list of keys) is already as in the second tree (up to `normNode`), everything else is still the
first tree's.  The order in which the diff siblings come does not matter for this invariant.
Core Lean only.
-/
namespace LyModel.Diff
open LyModel LyModel.Tree

theorem split_at {α : Type} : ∀ (l : List α) (i : Nat) (a : α), l[i]? = some a →
    l = l.take i ++ a :: l.drop (i + 1) ∧ l.eraseIdx i = l.take i ++ l.drop (i + 1) ∧
    ∀ y, l.set i y = l.take i ++ y :: l.drop (i + 1)
  | [], _, _, h => by simp at h
  | x :: xs, 0, a, h => by
    simp only [List.getElem?_cons_zero, Option.some.injEq] at h
    subst h
    simp
  | x :: xs, i + 1, a, h => by
    simp only [List.getElem?_cons_succ] at h
    obtain ⟨h1, h2, h3⟩ := split_at xs i a h
    refine ⟨?_, ?_, ?_⟩
    · simp only [List.take_succ_cons, List.drop_succ_cons, List.cons_append, List.cons.injEq, true_and]; exact h1
    · simp only [List.eraseIdx_cons_succ, List.take_succ_cons, List.drop_succ_cons, List.cons_append, List.cons.injEq,
        true_and]; exact h2
    · intro y
      simp only [List.set_cons_succ, List.take_succ_cons, List.drop_succ_cons, List.cons_append, List.cons.injEq,
        true_and]; exact h3 y

/-- the other siblings of a canonical list have other keys -/
theorem split_keys (S : Schema) (l1 l2 : List DNode) (a : DNode) (hc : canonB S (l1 ++ a :: l2) = true)
    (hs : ∀ x ∈ l1 ++ a :: l2, shapeOk S x = true) : ∀ x ∈ l1 ++ l2, kkey S x ≠ kkey S a := by
  have hp := canon_pairwise_kkey S _ hc hs
  rw [List.pairwise_append] at hp
  intro x hx
  rcases List.mem_append.1 hx with h | h
  · exact hp.2.2 x h a (by simp)
  · exact fun e => (List.pairwise_cons.1 hp.2.1).1 x h e.symm

/-- **the invariant** -/
structure Inv (S : Schema) (pre as bs : List DNode) (done : List Key) (data : List DNode) : Prop where
  canon : canonB S data = true
  shape : ∀ x ∈ data, shapeOk S x = true
  keysIn : ∀ x ∈ data, ∃ y ∈ pre ++ as ++ bs, kkey S x = kkey S y
  old : ∀ x ∈ data, kkey S x ∉ done → x ∈ pre ++ as
  new : ∀ x ∈ data, kkey S x ∈ done → ∃ y ∈ bs, kkey S y = kkey S x ∧ normNode S x = normNode S y
  keepOld : ∀ a ∈ pre ++ as, kkey S a ∉ done → a ∈ data
  haveNew : ∀ y ∈ bs, kkey S y ∈ done → ∃ x ∈ data, kkey S x = kkey S y

/-- one more key processed: the other keys are untouched, what is at the key is the second tree's -/
theorem Inv.step (S : Schema) (pre as bs : List DNode) (done : List Key) (data data' : List DNode) (k : Key)
    (h : Inv S pre as bs done data)
    (g1 : canonB S data' = true) (g1' : ∀ x ∈ data', shapeOk S x = true)
    (g1'' : ∀ x ∈ data', ∃ y ∈ pre ++ as ++ bs, kkey S x = kkey S y)
    (g2 : ∀ x, kkey S x ≠ k → (x ∈ data' ↔ x ∈ data))
    (g3 : ∀ x ∈ data', kkey S x = k → ∃ y ∈ bs, kkey S y = kkey S x ∧ normNode S x = normNode S y)
    (g4 : ∀ y ∈ bs, kkey S y = k → ∃ x ∈ data', kkey S x = kkey S y) :
    Inv S pre as bs (k :: done) data' where
  canon := g1
  shape := g1'
  keysIn := g1''
  old := by
    intro x hx hnd
    simp only [List.mem_cons, not_or] at hnd
    exact h.old x ((g2 x hnd.1).1 hx) hnd.2
  new := by
    intro x hx hd
    by_cases hk : kkey S x = k
    · exact g3 x hx hk
    · simp only [List.mem_cons, hk, false_or] at hd
      exact h.new x ((g2 x hk).1 hx) hd
  keepOld := by
    intro a ha hnd
    simp only [List.mem_cons, not_or] at hnd
    exact (g2 a hnd.1).2 (h.keepOld a ha hnd.2)
  haveNew := by
    intro y hy hd
    by_cases hk : kkey S y = k
    · exact g4 y hy hk
    · simp only [List.mem_cons, hk, false_or] at hd
      obtain ⟨x, hx, hkx⟩ := h.haveNew y hy hd
      exact ⟨x, (g2 x (by rw [hkx]; exact hk)).2 hx, hkx⟩

/-- delete: the instance disappears, the second tree has none with this key -/
theorem Inv.erase (S : Schema) (pre as bs : List DNode) (done : List Key) (data : List DNode) (a : DNode) (i : Nat)
    (h : Inv S pre as bs done data) (hg : data[i]? = some a) (hb : ∀ y ∈ bs, kkey S y ≠ kkey S a) :
    Inv S pre as bs (kkey S a :: done) (data.eraseIdx i) := by
  obtain ⟨e1, e2, _⟩ := split_at data i a hg
  have hsub : (data.eraseIdx i).Sublist data := List.eraseIdx_sublist data i
  have hkeys := split_keys S _ _ a (by rw [← e1]; exact h.canon) (by rw [← e1]; exact h.shape)
  rw [← e2] at hkeys
  apply Inv.step S pre as bs done data _ (kkey S a) h (canonB_eraseIdx S data i h.canon)
    (fun x hx => h.shape x (hsub.subset hx)) (fun x hx => h.keysIn x (hsub.subset hx))
  · intro x hk
    constructor
    · exact fun hx => hsub.subset hx
    · intro hx
      rw [e2]
      rw [e1] at hx
      simp only [List.mem_append, List.mem_cons] at hx ⊢
      rcases hx with hx | hx | hx
      · exact Or.inl hx
      · subst hx; exact absurd rfl hk
      · exact Or.inr hx
  · intro x hx hk
    exact absurd hk (hkeys x hx)
  · intro y hy hk
    exact absurd hk (hb y hy)

/-- replace / none / recursion: the instance becomes `y`, which is the second tree's instance up to `normNode` -/
theorem Inv.set (S : Schema) (pre as bs : List DNode) (done : List Key) (data : List DNode) (a y yb : DNode) (i : Nat)
    (h : Inv S pre as bs done data) (hg : data[i]? = some a) (hk : kkey S y = kkey S a) (hsy : shapeOk S y = true)
    (hyb : yb ∈ bs) (hkb : kkey S yb = kkey S a) (hn : normNode S y = normNode S yb) :
    Inv S pre as bs (kkey S a :: done) (data.set i y) := by
  obtain ⟨e1, e2, e3⟩ := split_at data i a hg
  have hkeys := split_keys S _ _ a (by rw [← e1]; exact h.canon) (by rw [← e1]; exact h.shape)
  have hmem : ∀ x, x ∈ data.set i y ↔ x = y ∨ x ∈ data.take i ++ data.drop (i + 1) := by
    intro x; rw [e3 y]; simp only [List.mem_append, List.mem_cons]
    constructor
    · rintro (h | h | h) <;> simp [h]
    · rintro (h | h | h) <;> simp [h]
  have hmem0 : ∀ x, x ∈ data ↔ x = a ∨ x ∈ data.take i ++ data.drop (i + 1) := by
    intro x
    constructor
    · intro hx; rw [e1] at hx; simp only [List.mem_append, List.mem_cons] at hx ⊢
      rcases hx with h | h | h <;> simp [h]
    · intro hx; rw [e1]; simp only [List.mem_append, List.mem_cons] at hx ⊢
      rcases hx with h | h | h <;> simp [h]
  apply Inv.step S pre as bs done data _ (kkey S a) h
    (canonB_set S data i a y h.canon h.shape hsy hg hk)
  · intro x hx
    rcases (hmem x).1 hx with hx | hx
    · subst hx; exact hsy
    · exact h.shape x ((hmem0 x).2 (Or.inr hx))
  · intro x hx
    rcases (hmem x).1 hx with hx | hx
    · subst hx; rw [hk]; exact h.keysIn a (List.mem_of_getElem? hg)
    · exact h.keysIn x ((hmem0 x).2 (Or.inr hx))
  · intro x hkx
    rw [hmem x, hmem0 x]
    constructor
    · rintro (hx | hx)
      · subst hx; exact absurd hk hkx
      · exact Or.inr hx
    · rintro (hx | hx)
      · subst hx; exact absurd rfl hkx
      · exact Or.inr hx
  · intro x hx hkx
    rcases (hmem x).1 hx with hx | hx
    · subst hx; exact ⟨yb, hyb, by rw [hkb, hk], hn⟩
    · exact absurd hkx (hkeys x hx)
  · intro y' _ hy'
    exact ⟨y, (hmem y).2 (Or.inl rfl), by rw [hk]; exact hy'.symm⟩

/-- What the proof needs from the order of the type plugins (`sort` callbacks) on the sibling keys in play: a strict
total order.  Asymmetry and transitivity hold for all keys (`OrderTheory.lean`); totality is the statement that
two instances the order cannot tell apart are the same instance (`lyd_compare_single`), which holds for canonical
values of the S1 types and is what finding F28 (date-and-time) violates. -/
structure OrdHyp (S : Schema) (U : DNode → Prop) : Prop where
  asym : KAsymOn S (fun k => ∃ x, U x ∧ kkey S x = k)
  trans : ∀ x y z, U x → U y → U z → kltK S (kkey S x) (kkey S y) = true → kltK S (kkey S y) (kkey S z) = true →
    kltK S (kkey S x) (kkey S z) = true
  total : ∀ x y, U x → U y → kkey S x ≠ kkey S y →
    kltK S (kkey S x) (kkey S y) = true ∨ kltK S (kkey S y) (kkey S x) = true
  kids : ∀ x, U x → ∀ c ∈ x.kids, U c

/-- create: the new instance takes its place among the siblings -/
theorem Inv.insert (S : Schema) (U : DNode → Prop) (ho : OrdHyp S U) (pre as bs : List DNode) (done : List Key)
    (data : List DNode) (n b : DNode)
    (h : Inv S pre as bs done data) (hU : ∀ x ∈ pre ++ as ++ bs, U x)
    (hb : b ∈ bs) (hk : kkey S n = kkey S b) (hsn : shapeOk S n = true) (hn : normNode S n = normNode S b)
    (hfresh : ∀ x ∈ data, kkey S x ≠ kkey S b) :
    Inv S pre as bs (kkey S b :: done) (insertNode S data n) := by
  have hbU : U b := hU b (by simp [hb])
  have htot : ∀ x ∈ data, klt S x n = true ∨ klt S n x = true := by
    intro x hx
    obtain ⟨y, hy, hky⟩ := h.keysIn x hx
    have := ho.total y b (hU y hy) hbU (by rw [← hky]; exact hfresh x hx)
    rw [klt_eq_kltK S x n (h.shape x hx) hsn, klt_eq_kltK S n x hsn (h.shape x hx), hk, hky]
    exact this
  have htr : ∀ x ∈ data, ∀ z ∈ data, klt S n x = true → klt S x z = true → klt S n z = true := by
    intro x hx z hz h1 h2
    obtain ⟨x', hx', hkx⟩ := h.keysIn x hx
    obtain ⟨z', hz', hkz⟩ := h.keysIn z hz
    rw [klt_eq_kltK S n x hsn (h.shape x hx), hk, hkx] at h1
    rw [klt_eq_kltK S x z (h.shape x hx) (h.shape z hz), hkx, hkz] at h2
    rw [klt_eq_kltK S n z hsn (h.shape z hz), hk, hkz]
    exact ho.trans b x' z' hbU (hU x' hx') (hU z' hz') h1 h2
  apply Inv.step S pre as bs done data _ (kkey S b) h (insertNode_canon S data n h.canon htot htr)
  · intro x hx
    rcases (mem_insertNode S data n x).1 hx with hx | hx
    · subst hx; exact hsn
    · exact h.shape x hx
  · intro x hx
    rcases (mem_insertNode S data n x).1 hx with hx | hx
    · subst hx; exact ⟨b, by simp [hb], hk⟩
    · exact h.keysIn x hx
  · intro x hkx
    rw [mem_insertNode]
    constructor
    · rintro (hx | hx)
      · subst hx; exact absurd hk hkx
      · exact hx
    · exact fun hx => Or.inr hx
  · intro x hx hkx
    rcases (mem_insertNode S data n x).1 hx with hx | hx
    · subst hx; exact ⟨b, hb, hk.symm, hn⟩
    · exact absurd hkx (hfresh x hx)
  · intro y _ hky
    exact ⟨n, (mem_insertNode S data n n).2 (Or.inl rfl), by rw [hk, hky]⟩

end LyModel.Diff
