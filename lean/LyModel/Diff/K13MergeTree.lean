import LyModel.Diff.K13Merge
/-!
# C13: `lyd_diff_merge_r`, node by node — the induction over the source diff

`MergeConcl` is what one call of `lyd_diff_merge_r` for the source node `src` achieves at a level where the invariant
`TInv` / `Rel` (K13Merge.lean) holds: the call succeeds, `src` can be applied to `Y`, and the invariant holds again for the new
target level and what `src` made of `Y`.  Three cases: the source node meets no target node (`merge_unmatched`), two leaf /
leaf-list nodes meet (`merge_matched_term`: the cells), two inner nodes with operation `none` meet (`merge_matched_inner`: the
recursion).  `nodeMerge` / `listMerge` put them together by induction over the source diff.
-/
set_option linter.unusedSimpArgs false
namespace LyModel.Diff.K13
open LyModel LyModel.Tree LyModel.Diff

variable {P : DNode → Bool} {fx : Fixes}

/-- the operation of a target node is its own (unless it is an inner node with operation `none`), or the node is a copy inside a
created subtree: no metadata, `create` inherited -/
def OwnOK (cur : Option Op) (t : DNode) : Prop :=
  (∀ op, effOp t cur = some op → (t.isTerm = true ∨ op ≠ .none) → ownOp t = some op) ∨ (t.metas = [] ∧ cur = some .create)

/-- an original node of the first diff: exact for the instance of `L` at its place, literal leaf metadata -/
def Orig (S : Schema) (P : DNode → Bool) (cur : Option Op) (L : List DNode) (t : DNode) : Prop :=
  exactE S P cur (look S L t) t = true ∧ litN t = true ∧ OwnOK cur t

/-- at a level whose nodes inherit `none` (or nothing) every exact literal node has its operation as its own, unless it is an
inner node with operation `none` -/
theorem own_of_inhOK {S : Schema} {cur : Option Op} (hcur : InhOK cur) {t : DNode} {e : Option DNode}
    (hex : exactE S P cur e t = true) (hl : litN t = true) :
    ∀ op, effOp t cur = some op → (t.isTerm = true ∨ op ≠ .none) → ownOp t = some op := by
  intro op hop h
  rcases h with ht | hne
  · obtain ⟨op', ho⟩ := own_of_exact_lit hcur ht hex hl
    have := effOp_own' ho cur
    rw [hop] at this
    rw [ho, Option.some.inj this]
  · exact ownOp_of_effOp hcur hop hne

/-- the operation the nodes of a source level inherit: `none` (or none at all), or `delete` / `create` (the copies inside a deleted /
created subtree) -/
def SrcOK (sin : Option Op) : Prop := InhOK sin ∨ sin = some .delete ∨ sin = some .create

/-- a leaf / leaf-list node of an exact literal source level has an operation of its own, or it is a copy inside a deleted / created
subtree -/
theorem src_own_or_plain {S : Schema} {sin : Option Op} (hs : SrcOK sin) {src : DNode} {e : Option DNode} {sop : Op}
    (hst : src.isTerm = true) (hsex : exactE S P sin e src = true) (hls : litN src = true) (hsop : effOp src sin = some sop) :
    (∃ op, ownOp src = some op) ∨ (src.metas = [] ∧ (sop = .delete ∨ sop = .create)) := by
  rcases hs with hs | hs
  · exact Or.inl (own_of_exact_lit hs hst hsex hls)
  · cases ho : ownOp src with
    | some op => exact Or.inl ⟨op, rfl⟩
    | none =>
      right
      have h2 : sop = .delete ∨ sop = .create := by
        have : effOp src sin = sin := by simp [effOp, ho]
        rw [hsop] at this
        rcases hs with rfl | rfl
        · exact Or.inl (Option.some.inj this)
        · exact Or.inr (Option.some.inj this)
      refine ⟨?_, h2⟩
      cases src with
      | inner => simp [DNode.isTerm] at hst
      | term s f m v =>
        simp only [litN] at hls
        rcases lit_cases hls with rfl | rfl | rfl | ⟨d, rfl⟩ | ⟨d, ov, rfl⟩ <;>
          simp [ownOp, getMeta, DNode.metas, ofBytes_create, ofBytes_delete, ofBytes_none, ofBytes_replace] at ho ⊢

def MergeConcl (S : Schema) (P : DNode → Bool) (fx : Fixes) (o : MergeOpts) (n : Nat) (hp : Bool) (cur sin : Option Op)
    (src : DNode) (kp Tb L Y : List DNode) : Prop :=
  ∃ M E' Y', mergeR S o cur sin src (kp ++ Tb) = .ok (kp ++ M) ∧ applyNode S fx n Y hp sin src = .ok Y' ∧
    goodT S P Y' = true ∧ keysOf S Y' = keysOf S Y ∧ Local S P src Y Y' ∧ TInv S P fx cur M L E' ∧ Rel S P M L E' Y' ∧
    ∀ m ∈ M, m ∈ Tb ∨ matchP S src m = true

theorem matchP_key_lt {S : Schema} {src k : DNode} (h : k.sid < src.sid) : matchP S src k = false := by
  have : (k.sid == src.sid) = false := by simpa using Nat.ne_of_lt h
  simp [matchP, this]

theorem dom_changeOp {S : Schema} (K : KeyOrderOn S P) {d : DNode} (hd : Dom S P d) (op : Op) : Dom S P (changeOp d op) :=
  ⟨by simpa using hd.nuo, by simpa using hd.ndi, by simpa using hd.typed, by
    rw [K.pinv.pcongr (x := changeOp d op) (y := d) (by simp) (by simp) (by simp)]; exact hd.sat⟩

theorem good_look {S : Schema} {Y : List DNode} {c : DNode} (hgY : goodT S P Y = true) :
    ∀ x, look S Y c = some x → goodN S P x = true ∧ x.sid = c.sid :=
  fun x hx => ⟨goodL_mem (goodT_goodL hgY) (look_mem hx).1, matchP_sid (look_mem hx).2⟩

/-- the source node meets no node of the target level: a copy is added, unless it is a `none` that changes nothing -/
theorem merge_unmatched {S : Schema} (K : KeyOrderOn S P) {o : MergeOpts} {n : Nat} {hp : Bool} {cur sin : Option Op} {src : DNode}
    {kp Tb L Y : List DNode} {E : DNode → Option DNode} (hh : src.height ≤ n) (hgY : goodT S P Y = true)
    (hkY : ∀ c, KeysBelow S c Y → KeysBelow S c L) (hkp : ∀ k ∈ kp, S.isKey k.sid = true ∧ k.sid < src.sid)
    (hT : TInv S P fx cur Tb L E) (hR : Rel S P Tb L E Y) (hun : ∀ t ∈ Tb, matchP S src t = false)
    (hsex : exactE S P sin (look S Y src) src = true) (hkb : KeysBelow S src Y) :
    MergeConcl S P fx o n hp cur sin src kp Tb L Y := by
  obtain ⟨hsd, hsm, hsk⟩ := exactE_base hsex
  obtain ⟨sop, hsop⟩ := effOp_isSome_of_exact hsex
  obtain ⟨e2, hact⟩ := nodeFwd (fx := fx) K src sin (look S Y src) (good_look hgY) hsex
  obtain ⟨Y', hY', hgY', hkY', hloc, hval⟩ := hact n hp Y hh hgY hkb rfl
  have hf : ∀ t ∈ kp ++ Tb, matchP S src t = false := by
    intro t ht
    rcases List.mem_append.mp ht with ht | ht
    · exact matchP_key_lt (hkp t ht).2
    · exact hun t ht
  have huo : S.isUserOrd (changeOp src sop).sid = false := by simpa using hsd.nuo
  have hstep := mergeStep_unmatched S o cur sin src (kp ++ Tb) sop
    (fun c' s' tk => if src.isTerm then .ok tk else mergeKids S o c' s' true src.kids tk) hsop hf
  rw [← mergeR_eq, isRedundant_fst S cur _ huo] at hstep
  have hmm : ∀ x, matchP S (changeOp src sop) x = matchP S src x := fun x => matchP_changeOp S src x sop
  have hlk : ∀ Z, look S Z (changeOp src sop) = look S Z src := fun Z => look_congr_fun hmm
  cases hr : (isRedundant S cur (changeOp src sop)).2
  · -- the copy is added
    simp only [hr, Bool.false_eq_true, ↓reduceIte] at hstep
    rw [insertBySchema_keys _ kp Tb (fun k hk => by simpa using (hkp k hk).2)] at hstep
    have hperm := insertBySchema_perm (changeOp src sop) Tb
    obtain ⟨hT', hR'⟩ := tinv_add (fx := fx) K hT hR hkY (dom_changeOp K hsd sop) (by simpa using hsk)
      (by intro k hk; have := hkb k hk; simpa using this) (fun t ht => by rw [hmm]; exact hun t ht)
      (e' := e2) (by rw [hlk]; exact acts_changeOp hsm hsop hsd.nuo hact)
      (Y' := Y') (fun q hq hcq => hloc q hq (by rw [← hmm]; exact hcq)) (by rw [hlk]; exact hval)
    refine ⟨_, _, Y', hstep, hY', hgY', hkY', hloc, hT'.perm hperm.symm, hR'.perm hperm.symm, ?_⟩
    intro m hm
    rcases List.mem_cons.mp (hperm.mem_iff.mp hm) with rfl | hm
    · right
      rw [matchP_of_same_data_right (x := src) hsd.ndi (by simp) (by simp) (by simp)]
      exact matchP_refl K hsd
    · exact Or.inl hm
  · -- the copy is redundant: a `none` on a leaf / leaf-list instance that leaves the default flag as it is
    simp only [hr, ↓reduceIte] at hstep
    have hne : sop = .none := by
      cases sop <;> first
        | rfl
        | (rw [redundant_false_of_op S cur _ _ (effOp_changeOp hsm _) (by decide) huo] at hr; cases hr)
    subst hne
    have hst : src.isTerm = true := by
      cases hti : src.isTerm
      · exfalso
        cases src with
        | term => simp [DNode.isTerm] at hti
        | inner s f m ks =>
          obtain ⟨x, _, hne, _⟩ := exactE_none_inner hsex hsop
          have hnt : S.isTerm (DNode.inner s f m ks).sid = false := by rw [← hsd.typed]; rfl
          have hndi : S.isDupInst (DNode.inner s f m ks).sid = false := hsd.ndi
          have hnuo : S.isUserOrd (DNode.inner s f m ks).sid = false := hsd.nuo
          have hne' : (noKeys S (DNode.inner s f m ks).kids).isEmpty = false := hne
          unfold isRedundant at hr
          simp [effOp_changeOp hsm, hnt, hndi, hnuo, hne', op_beq] at hr
      · rfl
    obtain ⟨x, hx, hxv, hod⟩ := exactE_none_term hsex hsop hst
    have hSt : S.isTerm src.sid = true := by rw [← hsd.typed]; exact hst
    have hflag : x.flags.dflt = src.flags.dflt := by
      unfold isRedundant at hr
      have hnuo : S.isUserOrd src.sid = false := hsd.nuo
      simp [effOp_changeOp hsm, hSt, hnuo, op_beq, getMeta_changeOp_ne (show "orig-default" ≠ "operation" by decide), hod,
        boolBytes_eq_true, boolBytes_eq_false] at hr
      cases h1 : x.flags.dflt <;> cases h2 : src.flags.dflt <;> simp_all
    have hact' := acts_exact_term (fx := fx) K hst hsex hsop (good_look hgY)
    have he2 : e2 = tEff src .none := Acts.det hact hact' hgY hkb rfl
    have hxt : x.isTerm = true := by
      have := good_look hgY x hx
      rw [(goodN_dom this.1).typed, this.2]; exact hSt
    have hval' : (look S Y' src).map normN = (look S Y src).map normN := by
      rw [hval, he2, hx]
      simp only [tEff, Option.map_some]
      rw [if_neg (by decide)]
      exact congrArg some (normN_term_eq hxt hst (good_look hgY x hx).2 hxv hflag).symm
    exact ⟨Tb, E, Y', hstep, hY', hgY', hkY', hloc, hT, rel_skip K hT.lvl hR hsd hun hgY' hgY hloc hval',
      fun m hm => Or.inl hm⟩

theorem matchP_src_of_left {S : Schema} (K : KeyOrderOn S P) {src t m : DNode} (hsd : Dom S P src) (htd : Dom S P t)
    (hmd : Dom S P m) (hmm : ∀ x, matchP S m x = matchP S t x) (hm : matchP S src t = true) : matchP S src m = true := by
  rw [matchP_symm K hsd hmd, hmm, matchP_symm K htd hsd]; exact hm

/-- two leaf / leaf-list nodes meet: the cell of the table -/
theorem merge_matched_term {S : Schema} (K : KeyOrderOn S P) {o : MergeOpts}
    (hq : o.defaults = true → Generated.Diff13.mergeDfltNeedsDeletedDflt = true) {n : Nat} {hp : Bool} {cur sin : Option Op}
    (hsin : SrcOK sin) {src t : DNode} {kp pre rest L Y : List DNode} {E : DNode → Option DNode}
    (hh : src.height ≤ n) (hgL : goodT S P L = true) (hgY : goodT S P Y = true)
    (hkp : ∀ k ∈ kp, S.isKey k.sid = true ∧ k.sid < src.sid)
    (hT : TInv S P fx cur (pre ++ t :: rest) L E) (hR : Rel S P (pre ++ t :: rest) L E Y)
    (hpre : ∀ a ∈ pre, matchP S src a = false) (hm : matchP S src t = true) (hO : Orig S P cur L t)
    (hsafe : safeP S cur sin t src = true) (hsex : exactE S P sin (look S Y src) src = true) (hls : litN src = true)
    (hkb : KeysBelow S src Y) (hst : src.isTerm = true) :
    MergeConcl S P fx o n hp cur sin src kp (pre ++ t :: rest) L Y := by
  obtain ⟨htex, hlt, hown⟩ := hO
  obtain ⟨hsd, _, _⟩ := exactE_base hsex
  obtain ⟨htd, _, htk⟩ := exactE_base htex
  have hss : t.sid = src.sid := matchP_sid hm
  have htt : t.isTerm = true := by rw [htd.typed, hss, ← hsd.typed]; exact hst
  obtain ⟨sop, hsop⟩ := effOp_isSome_of_exact hsex
  obtain ⟨cop, hcop⟩ := effOp_isSome_of_exact htex
  have hmem : t ∈ pre ++ t :: rest := by simp
  have hperm : (pre ++ t :: rest).Perm (t :: (pre ++ rest)) := List.perm_middle
  have hT1 := hT.perm hperm
  have hR1 := hR.perm hperm
  have hEt : E t = tEff t cop :=
    Acts.det (hT.acts t hmem) (acts_exact_term (fx := fx) K htt htex hcop (good_look hgL)) hgL (hT.kb t hmem) rfl
  have hlY : look S Y src = look S Y t := look_congr K (goodT_goodL hgY) hsd htd hm
  have hy : (look S Y src).map normN = tEff t cop := by rw [hlY, hR.on t hmem, hEt]
  obtain ⟨m, hcell, hmd, hmt, hms, hmm, halt⟩ :=
    term_cell (fx := fx) K hq htt hst hm htex hlt hsex hls (good_look hgL) (good_look hgY) hcop hsop hy hsafe
      (hown.imp (fun h => ⟨_, h _ hcop (Or.inl htt)⟩) id) (src_own_or_plain hsin hst hsex hls hsop)
  obtain ⟨Y', hY', hgY', hkY', hloc, hval⟩ := acts_exact_term (fx := fx) K hst hsex hsop (good_look hgY) n hp Y hh hgY hkb rfl
  have hkids : (fun (c' s' : Option Op) (tk : List DNode) => if src.isTerm then Except.ok tk else mergeKids S o c' s' true src.kids tk)
      (childInhOf m cur) (childInhOf src sin) m.kids = .ok m.kids := by simp [hst]
  have hred : isRedundant S cur (m.setKids m.kids) = isRedundant S cur m := by rw [setKids_kids]
  have hpre' : ∀ x ∈ kp ++ pre, matchP S src x = false := by
    intro x hx
    rcases List.mem_append.mp hx with hx | hx
    · exact matchP_key_lt (hkp x hx).2
    · exact hpre x hx
  have hassoc : kp ++ (pre ++ t :: rest) = (kp ++ pre) ++ t :: rest := by simp
  rcases halt with ⟨hr, he⟩ | ⟨hr, hactm⟩
  · -- the node of the cell is dropped
    have hstep := mergeStep_cancel S o cur sin src t m (kp ++ pre) rest m.kids sop cop
      (fun c' s' tk => if src.isTerm then Except.ok tk else mergeKids S o c' s' true src.kids tk) hsop hcop hpre' hm htd.ndi hsd.ndi
      hcell hkids (by rw [hred]; exact hr)
    rw [← mergeR_eq, ← hassoc] at hstep
    obtain ⟨hT2, hR2⟩ := tinv_drop K hT1 hR1 hgL hsd hm hloc (by rw [hval, he]) hgY'
    exact ⟨pre ++ rest, E, Y', by rw [hstep]; simp, hY', hgY', hkY', hloc, hT2, hR2,
      fun x hx => Or.inl (by rcases List.mem_append.mp hx with h | h <;> simp [h])⟩
  · -- the node of the cell is kept
    have hstep := mergeStep_keep S o cur sin src t m (kp ++ pre) rest m.kids sop cop
      (fun c' s' tk => if src.isTerm then Except.ok tk else mergeKids S o c' s' true src.kids tk) hsop hcop hpre' hm htd.ndi hsd.ndi
      hcell hkids (by rw [hred]; exact hr)
    rw [← mergeR_eq, ← hassoc, hred, isRedundant_fst S cur m (by rw [hms]; exact htd.nuo)] at hstep
    obtain ⟨hT2, hR2⟩ := tinv_set K hT1 hR1 hmd (by rw [hms]; exact htk) hmm hms hactm hsd hm hloc hval hgY'
    have hperm2 : (m :: (pre ++ rest)).Perm (pre ++ m :: rest) := List.perm_middle.symm
    refine ⟨pre ++ m :: rest, _, Y', by rw [hstep]; simp, hY', hgY', hkY', hloc, hT2.perm hperm2, hR2.perm hperm2, ?_⟩
    intro x hx
    rcases List.mem_append.mp hx with h | h
    · exact Or.inl (by simp [h])
    · rcases List.mem_cons.mp h with rfl | h
      · exact Or.inr (matchP_src_of_left K hsd htd hmd hmm hm)
      · exact Or.inl (by simp [h])

/-! ### the recursion into two inner nodes with operation `none` -/

def NodeMergeSpec (S : Schema) (P : DNode → Bool) (fx : Fixes) (o : MergeOpts) (src : DNode) : Prop :=
  ∀ (n : Nat) (hp : Bool) (cur sin : Option Op) (kp Tb L Y : List DNode) (E : DNode → Option DNode),
    SrcOK sin → src.height ≤ n → goodT S P L = true → goodT S P Y = true →
    (∀ c, KeysBelow S c Y → KeysBelow S c L) → (∀ k ∈ kp, S.isKey k.sid = true ∧ k.sid < src.sid) →
    TInv S P fx cur Tb L E → Rel S P Tb L E Y →
    (∀ t ∈ Tb, matchP S src t = true → Orig S P cur L t ∧ safeP S cur sin t src = true) →
    exactE S P sin (look S Y src) src = true → litN src = true → KeysBelow S src Y →
    MergeConcl S P fx o n hp cur sin src kp Tb L Y

def ListMergeSpec (S : Schema) (P : DNode → Bool) (fx : Fixes) (o : MergeOpts) (cs : List DNode) : Prop :=
  ∀ (n : Nat) (hp : Bool) (cur sin : Option Op) (ld : Bool) (kp Tb L Y : List DNode) (E : DNode → Option DNode),
    SrcOK sin → heightL cs ≤ n → goodT S P L = true → goodT S P Y = true →
    (∀ c, KeysBelow S c Y → KeysBelow S c L) → (∀ k ∈ kp, S.isKey k.sid = true ∧ ∀ c ∈ dk S ld cs, k.sid < c.sid) →
    TInv S P fx cur Tb L E → Rel S P Tb L E Y →
    (∀ c ∈ dk S ld cs, ∀ t ∈ Tb, matchP S c t = true → Orig S P cur L t ∧ safeP S cur sin t c = true) →
    exactK S P sin Y ld cs = true → litL cs = true →
    ∃ M E' Y', mergeKids S o cur sin ld cs (kp ++ Tb) = .ok (kp ++ M) ∧ applyF S fx n hp sin (dk S ld cs) Y = .ok Y' ∧
      goodT S P Y' = true ∧ keysOf S Y' = keysOf S Y ∧ TInv S P fx cur M L E' ∧ Rel S P M L E' Y'

theorem childInh_none {d : DNode} {inh : Option Op} (h : effOp d inh = some .none) : childInhOf d inh = some .none := by
  unfold childInhOf
  cases ho : ownOp d with
  | none => simpa [effOp, ho] using h
  | some o =>
    have : o = .none := by simpa [effOp, ho] using h
    subst this
    rfl

theorem split_keys {S : Schema} {kp M : List DNode} (hk : ∀ k ∈ kp, S.isKey k.sid = true) (hm : ∀ m ∈ M, S.isKey m.sid = false) :
    keysOf S (kp ++ M) = kp ∧ noKeys S (kp ++ M) = M := by
  induction kp with
  | nil =>
    cases M with
    | nil => exact ⟨rfl, rfl⟩
    | cons m ms =>
      have := hm m (by simp)
      simp [keysOf, noKeys, List.takeWhile_cons, List.dropWhile_cons, this]
  | cons k ks ih =>
    have h1 := hk k (by simp)
    have ⟨i1, i2⟩ := ih (fun x hx => hk x (by simp [hx]))
    simp only [keysOf, noKeys] at i1 i2 ⊢
    simp [List.takeWhile_cons, List.dropWhile_cons, h1, i1, i2]

theorem normN_inner_form {y : DNode} (h : y.isTerm = false) : normN y = .inner y.sid {} [] (normL13 y.kids) := by
  cases y with
  | term => simp [DNode.isTerm] at h
  | inner => rfl

theorem litL_mem : ∀ {l : List DNode} {x : DNode}, litL l = true → x ∈ l → litN x = true := fun h hx =>
  (litL_iff_forall _).mp h _ hx

/-- two inner nodes with operation `none` meet: the children of the source node are merged into the children of the target
node (induction hypothesis `IH`); the node is kept unless no child is left -/
theorem merge_matched_inner {S : Schema} (K : KeyOrderOn S P) {o : MergeOpts} {n : Nat} {hp : Bool} {cur sin : Option Op}
    {s : Nat} {f : Flags} {ms : List Meta} {ks : List DNode} {t : DNode}
    {kp pre rest L Y : List DNode} {E : DNode → Option DNode} (IH : ListMergeSpec S P fx o ks)
    (hh : (DNode.inner s f ms ks).height ≤ n) (hgL : goodT S P L = true) (hgY : goodT S P Y = true)
    (hkp : ∀ k ∈ kp, S.isKey k.sid = true ∧ k.sid < s)
    (hT : TInv S P fx cur (pre ++ t :: rest) L E) (hR : Rel S P (pre ++ t :: rest) L E Y)
    (hpre : ∀ a ∈ pre, matchP S (.inner s f ms ks) a = false) (hm : matchP S (.inner s f ms ks) t = true)
    (hO : Orig S P cur L t) (hsafe : safeP S cur sin t (.inner s f ms ks) = true)
    (hcop : effOp t cur = some .none) (hsop : effOp (.inner s f ms ks) sin = some .none)
    (hsex : exactE S P sin (look S Y (.inner s f ms ks)) (.inner s f ms ks) = true) (hls : litN (.inner s f ms ks) = true)
    (hkb : KeysBelow S (.inner s f ms ks) Y) :
    MergeConcl S P fx o n hp cur sin (.inner s f ms ks) kp (pre ++ t :: rest) L Y := by
  obtain ⟨htex, hlt, _⟩ := hO
  obtain ⟨hsd, _, hsk⟩ := exactE_base hsex
  obtain ⟨htd, _, htk⟩ := exactE_base htex
  simp only [safeP, Bool.and_eq_true, Bool.not_eq_eq_eq_not, Bool.not_true] at hsafe
  obtain ⟨⟨⟨⟨htnt, _⟩, hkc⟩, hkord⟩, hsafeK⟩ := hsafe
  cases t with
  | term => simp [DNode.isTerm] at htnt
  | inner st ft mt kt =>
  have hss : st = s := matchP_sid hm
  subst hss
  obtain ⟨x, hx, hnet, hexkt⟩ := exactE_none_inner htex hcop
  obtain ⟨y, hy, hnes, hexks⟩ := exactE_none_inner hsex hsop
  obtain ⟨hgx, hxs⟩ := good_look hgL x hx
  obtain ⟨hgy, hys⟩ := good_look hgY y hy
  have hgxk := goodN_kidsT hgx
  have hgyk := goodN_kidsT hgy
  have hmem : DNode.inner st ft mt kt ∈ pre ++ DNode.inner st ft mt kt :: rest := by simp
  have hperm : (pre ++ DNode.inner st ft mt kt :: rest).Perm (DNode.inner st ft mt kt :: (pre ++ rest)) := List.perm_middle
  have hT1 := hT.perm hperm
  have hR1 := hR.perm hperm
  have hxt : x.isTerm = false := by
    rw [(goodN_dom hgx).typed, hxs, ← htd.typed]; rfl
  have hyt : y.isTerm = false := by
    rw [(goodN_dom hgy).typed, hys, ← hsd.typed]; rfl
  -- the children of the target node on the children of the instance
  obtain ⟨Ek, V, hTk, hAk, hRelk⟩ := kids_inv (fx := fx) K hgxk hexkt
  have hactt : Acts S P fx cur (.inner st ft mt kt) (some (normN x)) (some (.inner st {} [] V)) :=
    acts_none_inner (y := normN x) K htd htk hcop hnet (by simpa using hAk)
  have hactt' : Acts S P fx cur (.inner st ft mt kt) ((look S L (.inner st ft mt kt)).map normN) (some (.inner st {} [] V)) := by
    rw [hx]; exact hactt
  have hEt : E (.inner st ft mt kt) = some (.inner st {} [] V) :=
    Acts.det (hT.acts _ hmem) hactt' hgL (hT.kb _ hmem) rfl
  have hlY : look S Y (.inner st f ms ks) = look S Y (.inner st ft mt kt) := look_congr K (goodT_goodL hgY) hsd htd hm
  have hyV : normL13 y.kids = V := by
    have h1 := hR.on _ hmem
    rw [← hlY, hy, hEt] at h1
    simp only [Option.map_some, Option.some.injEq, normN_inner_form hyt, DNode.inner.injEq] at h1
    exact h1.2.2.2
  obtain ⟨hRk, hkYk, _⟩ := hRelk y.kids hgyk hyV
  -- the induction hypothesis
  obtain ⟨k, rfl⟩ : ∃ k, n = k + 1 := ⟨n - 1, by have := height_pos13 (DNode.inner st f ms ks); omega⟩
  have hks : heightL ks ≤ k := height_inner_le hh
  have hdk : dk S true ks = noKeys S ks := by simp [dk]
  have hcur' : childInhOf (.inner st ft mt kt) cur = some .none := childInh_none hcop
  have hsin' : SrcOK (childInhOf (.inner st f ms ks) sin) := Or.inl (Or.inr (childInh_none hsop))
  obtain ⟨Mk, Ek', Yk', hmk, hYk', hgYk', _, hTk', hRk'⟩ := IH k true (childInhOf (.inner st ft mt kt) cur)
    (childInhOf (.inner st f ms ks) sin) true (keysOf S kt) (noKeys S kt) x.kids y.kids Ek hsin' hks hgxk hgyk hkYk
    (by
      intro kk hkk
      refine ⟨keysOf_all_key S kt kk hkk, ?_⟩
      intro c hc
      rw [hdk] at hc
      have := List.all_eq_true.mp (List.all_eq_true.mp hkord kk hkk) c hc
      simpa using this)
    hTk hRk
    (by
      intro c hc tk htk hmc
      rw [hdk] at hc
      have h1 := exactK_mem true kt hexkt tk (by simpa [dk] using htk)
      have hlk := litL_mem (by simp only [litN, Bool.and_eq_true] at hlt; exact hlt.2) ((noKeys_sublist S kt).subset htk)
      exact ⟨⟨h1.1, hlk, Or.inl (own_of_inhOK (Or.inr hcur') h1.1 hlk)⟩,
        safeK_mem hsafeK c ((noKeys_sublist S ks).subset hc) tk htk hmc⟩)
    hexks (by simp only [litN, Bool.and_eq_true] at hls; exact hls.2)
  rw [keysOf_append_noKeys] at hmk
  rw [hdk] at hYk'
  -- the source node on `Y`
  obtain ⟨V2, hV2⟩ := listFwd (fx := fx) K ks (childInhOf (.inner st f ms ks) sin) y.kids true hgyk hexks
  rw [hdk] at hV2
  have hV2' : normL13 Yk' = V2 := by
    obtain ⟨X1, h1, _, _, h4⟩ := hV2 k true y.kids (Nat.le_trans (heightL_noKeys_le S ks) hks) hgyk rfl
    rw [hYk'] at h1
    cases h1
    exact h4
  have hacts : Acts S P fx sin (.inner st f ms ks) (some (normN y)) (some (.inner st {} [] V2)) :=
    acts_none_inner (y := normN y) K hsd hsk hsop hnes (by simpa using hV2)
  obtain ⟨Y', hY', hgY', hkY', hloc, hval⟩ := hacts (k + 1) hp Y hh hgY hkb (by rw [hy]; rfl)
  -- the merge step
  have hMk : ∀ m ∈ Mk, S.isKey m.sid = false := hTk'.lvl.nokey
  obtain ⟨hko, hno⟩ := split_keys (S := S) (keysOf_all_key S kt) hMk
  have hSt : S.isTerm st = false := by have := hsd.typed; simpa [DNode.isTerm, DNode.sid] using this.symm
  have hcell : mergeCell S o .none (.inner st ft mt kt) .none (.inner st f ms ks) = .ok (.inner st ft mt kt, false) := by
    simp [mergeCell, mergeNone, Except.map, DNode.sid, hSt]
  have hkids : (fun (c' s' : Option Op) (tk : List DNode) =>
      if (DNode.inner st f ms ks).isTerm then Except.ok tk else mergeKids S o c' s' true (DNode.inner st f ms ks).kids tk)
      (childInhOf (.inner st ft mt kt) cur) (childInhOf (.inner st f ms ks) sin) (DNode.inner st ft mt kt).kids =
        .ok (keysOf S kt ++ Mk) := by
    simp only [DNode.isTerm, Bool.false_eq_true, ↓reduceIte, DNode.kids]
    exact hmk
  have hpre' : ∀ a ∈ kp ++ pre, matchP S (.inner st f ms ks) a = false := by
    intro a ha
    rcases List.mem_append.mp ha with ha | ha
    · exact matchP_key_lt (hkp a ha).2
    · exact hpre a ha
  have hassoc : kp ++ (pre ++ DNode.inner st ft mt kt :: rest) = (kp ++ pre) ++ DNode.inner st ft mt kt :: rest := by simp
  have hsetk : (DNode.inner st ft mt kt).setKids (keysOf S kt ++ Mk) = .inner st ft mt (keysOf S kt ++ Mk) := rfl
  have hopt' : effOp (DNode.inner st ft mt (keysOf S kt ++ Mk)) cur = some .none :=
    (effOp_congr_metas (d := .inner st ft mt kt) (d' := .inner st ft mt (keysOf S kt ++ Mk)) rfl).trans hcop
  have hndi : S.isDupInst st = false := htd.ndi
  have hnuo : S.isUserOrd st = false := htd.nuo
  obtain ⟨V', hA', hU'⟩ := hTk'.actsL K hgxk
  have hVV : normL13 Yk' = V' := hU' Yk' hgYk' hRk'
  cases hMe : Mk with
  | nil =>
    -- nothing is left below the node: it is dropped
    subst hMe
    have hred : (isRedundant S cur ((DNode.inner st ft mt kt).setKids (keysOf S kt ++ []))).2 = true := by
      rw [hsetk]
      exact redundant_none_nokids S cur _ hopt' hSt (by simpa [DNode.kids] using hno)
    have hstep := mergeStep_cancel S o cur sin (.inner st f ms ks) (.inner st ft mt kt) (.inner st ft mt kt) (kp ++ pre) rest
      (keysOf S kt ++ []) .none .none
      (fun c' s' tk => if (DNode.inner st f ms ks).isTerm then Except.ok tk
        else mergeKids S o c' s' true (DNode.inner st f ms ks).kids tk)
      hsop hcop hpre' hm hndi hndi hcell hkids hred
    rw [← mergeR_eq, ← hassoc] at hstep
    have hV'x : V' = normL13 x.kids := by
      obtain ⟨X1, h1, _, _, h4⟩ := hA' 0 true x.kids (by simp [heightL]) hgxk rfl
      simp only [applyF_nil] at h1
      cases h1
      exact h4.symm
    have hvalx : (look S Y' (.inner st f ms ks)).map normN = (look S L (.inner st ft mt kt)).map normN := by
      rw [hval, hx, ← hV2', hVV, hV'x]
      simp only [Option.map_some, Option.some.injEq, normN_inner_form hxt, hxs]
      rfl
    obtain ⟨hT2, hR2⟩ := tinv_drop K hT1 hR1 hgL hsd hm hloc hvalx hgY'
    exact ⟨pre ++ rest, E, Y', by rw [hstep]; simp, hY', hgY', hkY', hloc, hT2, hR2,
      fun z hz => Or.inl (by rcases List.mem_append.mp hz with h | h <;> simp [h])⟩
  | cons m0 Mr =>
    -- the node is kept with the merged children
    have hne : (noKeys S (keysOf S kt ++ Mk)).isEmpty = false := by rw [hno, hMe]; rfl
    have hredf : isRedundant S cur (DNode.inner st ft mt (keysOf S kt ++ Mk)) = (DNode.inner st ft mt (keysOf S kt ++ Mk), false) := by
      unfold isRedundant
      simp [hopt', DNode.sid, DNode.kids, hSt, hndi, hnuo, hne, op_beq]
    have hstep := mergeStep_keep S o cur sin (.inner st f ms ks) (.inner st ft mt kt) (.inner st ft mt kt) (kp ++ pre) rest
      (keysOf S kt ++ Mk) .none .none
      (fun c' s' tk => if (DNode.inner st f ms ks).isTerm then Except.ok tk
        else mergeKids S o c' s' true (DNode.inner st f ms ks).kids tk)
      hsop hcop hpre' hm hndi hndi hcell hkids (by rw [hsetk, hredf])
    rw [← mergeR_eq, ← hassoc, hsetk, hredf] at hstep
    let t' : DNode := .inner st ft mt (keysOf S kt ++ Mk)
    have hmd : Dom S P t' := by
      refine ⟨hnuo, hndi, by have := htd.typed; simpa [t', DNode.isTerm, DNode.sid] using this, ?_⟩
      rw [K.pinv.pcongr (x := t') (y := .inner st ft mt kt) rfl rfl (by simp only [t', DNode.kids, hko])]
      exact htd.sat
    have hmm : ∀ z, matchP S t' z = matchP S (.inner st ft mt kt) z := fun z =>
      matchP_of_same_keys (d := .inner st ft mt kt) (d' := t') hndi rfl rfl (by simp only [t', DNode.kids, hko]) z
    have hactm : Acts S P fx cur t' (some (normN x)) (some (.inner st {} [] V')) := by
      apply acts_none_inner (y := normN x) K hmd htk hopt' hne
      rw [hno, childInh_congr_metas (d := .inner st ft mt kt) (d' := .inner st ft mt (keysOf S kt ++ Mk)) rfl]
      simpa using hA'
    obtain ⟨hT2, hR2⟩ := tinv_set K hT1 hR1 hmd htk hmm rfl (by rw [hx]; exact hactm) hsd hm hloc
      (by rw [hval, ← hV2', hVV]) hgY'
    have hperm2 : (t' :: (pre ++ rest)).Perm (pre ++ t' :: rest) := List.perm_middle.symm
    refine ⟨pre ++ t' :: rest, _, Y', by rw [hstep]; simp [t'], hY', hgY', hkY', hloc, hT2.perm hperm2, hR2.perm hperm2, ?_⟩
    intro z hz
    rcases List.mem_append.mp hz with h | h
    · exact Or.inl (by simp [h])
    · rcases List.mem_cons.mp h with rfl | h
      · exact Or.inr (matchP_src_of_left K hsd htd hmd hmm hm)
      · exact Or.inl (by simp [h])

/-! ### nothing but `create` acts where there is no instance -/

theorem length_insertNode (S : Schema) (l : List DNode) (n : DNode) : (insertNode S l n).length = l.length + 1 := by
  rw [insertNode_eq]
  exact KL.insBefore_length

theorem length_normL (l : List DNode) : (normL13 l).length = l.length := by rw [normL_eq_map13]; simp

/-- a node cannot act on a place where there is no instance and leave none: the only operation that applies there is `create` -/
theorem acts_none_ne_none {S : Schema} (K : KeyOrderOn S P) {inh : Option Op} {c : DNode} {e' : Option DNode} (hd : Dom S P c)
    (h : Acts S P fx inh c none e') {X : List DNode} (hgX : goodT S P X = true) (hkb : KeysBelow S c X)
    (hl : look S X c = none) : e' ≠ none := by
  rintro rfl
  obtain ⟨X', ha, hgX', _, hloc, hval⟩ := h c.height false X (Nat.le_refl _) hgX hkb (by rw [hl]; rfl)
  have hl' : look S X' c = none := look_none_of_norm hval
  have hnorm : normL13 X' = normL13 X := by
    apply normL_eq_of_look K (goodT_goodL hgX') (goodT_goodL hgX)
    intro q hq
    cases hcq : matchP S c q
    · rw [hloc q hq hcq]
    · rw [← look_congr K (goodT_goodL hgX') hd hq hcq, ← look_congr K (goodT_goodL hgX) hd hq hcq, hl', hl]
  have hlen : X'.length = X.length := by rw [← length_normL X', hnorm, length_normL]
  have hf : findForApply S X c = none := look_none_iff_findIdx.mp hl
  obtain ⟨k, hk⟩ : ∃ k, c.height = k + 1 := ⟨c.height - 1, by have := height_pos13 c; omega⟩
  rw [hk, applyNode_succ_nuo hd.nuo] at ha
  cases hop : effOp c inh with
  | none => simp [hop] at ha
  | some op =>
    cases op with
    | none => simp [hop, hf] at ha
    | delete => simp [hop, hf] at ha
    | replace =>
      simp only [hop, hf] at ha
      split at ha <;> simp at ha
    | create =>
      simp only [hop] at ha
      cases hk' : applyF S fx k true (childInhOf c inh) (noKeys S c.kids) (dupSingle S c).kids with
      | error e => simp [hk', Except.bind] at ha
      | ok ks =>
        simp only [hk', Except.bind, Except.ok.injEq] at ha
        rw [← ha, length_insertNode] at hlen
        omega


/-! ### good sibling lists: the keys come first and belong to earlier schema nodes; different members are different instances -/

theorem good_keys_lt {S : Schema} (K : KeyOrderOn S P) {l : List DNode} (hg : goodT S P l = true) :
    ∀ k ∈ keysOf S l, ∀ c ∈ noKeys S l, k.sid < c.sid := by
  intro k hk c hc
  have hs := (goodL_iff K).mp (goodT_goodL hg)
  have hsorted : (ordOf S K).Sorted (keysOf S l ++ noKeys S l) := by rw [keysOf_append_noKeys]; exact hs.1
  have hlt : nlt S k c = true := (List.pairwise_append.mp hsorted).2.2 k hk c hc
  have hkk : S.isKey k.sid = true := mem_keysOf_isKey hk
  have hck : S.isKey c.sid = false := mem_noKeys_notKey (goodT_lead hg) hc
  simp only [nlt, Bool.or_eq_true, decide_eq_true_eq, Bool.and_eq_true, beq_iff_eq] at hlt
  rcases hlt with h | ⟨⟨h, _⟩, _⟩
  · exact h
  · rw [h, hck] at hkk; cases hkk

theorem good_pairwise {S : Schema} (K : KeyOrderOn S P) {l : List DNode} (hg : goodL S P l = true) :
    l.Pairwise (fun a b => matchP S a b = false ∧ matchP S b a = false) := by
  have hs := (goodL_iff K).mp hg
  have hd := goodL_allDom K hg
  have h1 : (ordOf S K).Sorted l := hs.1
  unfold KL.Ord.Sorted at h1
  refine (List.Pairwise.and_mem.mp h1).imp ?_
  rintro a b ⟨ha, hb, hlt⟩
  have h := (ordOf S K).lt_not_same (hd a ha) (hd b hb) hlt
  exact ⟨h, matchP_false_symm K (hd a ha) (hd b hb) h⟩

/-! ### exactness when the inherited operation changes and operations are made explicit -/

theorem exactE_own {S : Schema} {c : DNode} {op : Op} (ho : ownOp c = some op) (a b : Option Op) (e : Option DNode) :
    exactE S P a e c = exactE S P b e c := by
  have he : ∀ i, effOp c i = some op := fun i => effOp_own' ho i
  cases c with
  | term s f m v => simp only [exactE, he]
  | inner s f m ks =>
    cases op with
    | replace => cases e <;> simp [exactE, he]
    | create => cases e <;> simp [exactE, he]
    | delete => cases e <;> simp [exactE, he]
    | none =>
      have hc' : childInhOf (.inner s f m ks) a = childInhOf (.inner s f m ks) b := by
        simp [childInhOf, ho]
      simp only [exactE, he, hc']

/-- making the inherited operation `none` of an inner node explicit keeps it exact, whatever is inherited afterwards -/
theorem exactE_changeOp_none {S : Schema} (K : KeyOrderOn S P) {s : Nat} {f : Flags} {m : List Meta} {ks : List DNode}
    {inh : Option Op} (hm : MetaOK (.inner s f m ks)) (hop : effOp (.inner s f m ks) inh = some .none) (b : Option Op)
    (e : Option DNode) :
    exactE S P b e (changeOp (.inner s f m ks) .none) = exactE S P inh e (.inner s f m ks) := by
  have h1 : changeOp (.inner s f m ks) .none = .inner s f (eraseMeta "operation" m ++ [("operation", bs Op.none.str)]) ks := rfl
  have hm' : MetaOK (changeOp (.inner s f m ks) .none) := metaOK_changeOp hm .none
  have ho' : ownOp (changeOp (.inner s f m ks) .none) = some .none := ownOp_changeOp hm .none
  have he' : effOp (changeOp (.inner s f m ks) .none) b = some .none := effOp_own' ho' b
  have hc' : childInhOf (changeOp (.inner s f m ks) .none) b = some .none := childInh_of_own _ .none b ho' (by decide)
  have hc : childInhOf (.inner s f m ks) inh = some .none := childInh_none hop
  rw [h1] at hm' he' hc' ⊢
  have hdom : domB S P (.inner s f (eraseMeta "operation" m ++ [("operation", bs Op.none.str)]) ks) =
      domB S P (.inner s f m ks) := by
    simp only [domB, Diff.domB, DNode.sid, DNode.isTerm]
    rw [K.pinv.pcongr (x := .inner s f (eraseMeta "operation" m ++ [("operation", bs Op.none.str)]) ks)
      (y := .inner s f m ks) rfl rfl rfl]
  simp only [exactE, he', hop, hc', hc, hdom, metaOKB_iff.mpr hm', metaOKB_iff.mpr hm]
  cases e <;> rfl

/-- an exact sibling list stays exact when its nodes are replaced by nodes that address the same instances and are exact for them
(under another inherited operation) -/
theorem exactK_map {S : Schema} {inh inh2 : Option Op} {L : List DNode} (g : DNode → DNode)
    (hg1 : ∀ c x, matchP S (g c) x = matchP S c x)
    (hg2 : ∀ q c, S.isDupInst q.sid = false → matchP S q (g c) = matchP S q c) (hg3 : ∀ c, (g c).sid = c.sid) :
    ∀ (ld : Bool) (D : List DNode), exactK S P inh L ld D = true →
      (∀ c ∈ dk S ld D, exactE S P inh2 (look S L c) (g c) = true) → exactK S P inh2 L ld (D.map g) = true
  | ld, [], _, _ => by simp [exactK]
  | ld, c :: cs, h, hE => by
    rw [List.map_cons]
    unfold exactK at h ⊢
    rw [hg3]
    split at h
    · rename_i hlk
      simp only [hlk, ↓reduceIte]
      simp only [Bool.and_eq_true] at hlk
      obtain ⟨rfl, hk⟩ := hlk
      rw [dk_cons_key hk] at hE
      exact exactK_map g hg1 hg2 hg3 true cs h hE
    · rename_i hlk
      simp only [hlk, Bool.false_eq_true, ↓reduceIte]
      simp only [Bool.and_eq_true] at h ⊢
      obtain ⟨⟨⟨hE0, hkb⟩, hdist⟩, hrest⟩ := h
      have hk : S.isKey c.sid = false := (exactE_base hE0).2.2
      rw [dk_cons_nokey hk] at hE
      have hfind : L.find? (matchP S (g c)) = L.find? (matchP S c) := by
        have : matchP S (g c) = matchP S c := funext (hg1 c)
        rw [this]
      refine ⟨⟨⟨?_, hkb⟩, ?_⟩, ?_⟩
      · rw [hfind]; exact hE c (List.mem_cons_self ..)
      · rw [List.all_map]
        rw [List.all_eq_true] at hdist ⊢
        intro c' hc'
        simp only [Function.comp, hg1, hg2 c c' (exactE_base hE0).1.ndi]
        exact hdist c' hc'
      · exact exactK_map g hg1 hg2 hg3 false cs hrest (fun c' hc' => hE c' (List.mem_cons_of_mem _ (by simpa [dk] using hc')))

/-- applying the mapped nodes is applying the nodes -/
theorem applyF_map_congr {S : Schema} {n : Nat} {hp : Bool} {i1 i2 : Option Op} (g : DNode → DNode) :
    ∀ (D : List DNode) (X : List DNode), (∀ c ∈ D, ∀ Z, applyNode S fx n Z hp i2 (g c) = applyNode S fx n Z hp i1 c) →
      applyF S fx n hp i2 (D.map g) X = applyF S fx n hp i1 D X
  | [], _, _ => rfl
  | c :: cs, X, h => by
    rw [List.map_cons, applyF_cons, applyF_cons, h c (List.mem_cons_self ..) X]
    cases applyNode S fx n X hp i1 c with
    | error e => rfl
    | ok X' => exact applyF_map_congr g cs X' (fun c' hc' => h c' (List.mem_cons_of_mem _ hc'))

/-- `exactK` from its members -/
theorem exactK_intro {S : Schema} {inh : Option Op} {L : List DNode} : ∀ (ld : Bool) (D : List DNode),
    (∀ c ∈ dk S ld D, exactE S P inh (look S L c) c = true ∧ KeysBelow S c L) →
    (dk S ld D).Pairwise (fun a b => matchP S a b = false) → exactK S P inh L ld D = true
  | ld, [], _, _ => by simp [exactK]
  | ld, c :: cs, h, hp => by
    unfold exactK
    split
    · rename_i hlk
      simp only [Bool.and_eq_true] at hlk
      obtain ⟨rfl, hk⟩ := hlk
      rw [dk_cons_key hk] at h hp
      exact exactK_intro true cs h hp
    · rename_i hlk
      have hdk : dk S ld (c :: cs) = c :: cs := by
        cases ld
        · simp [dk]
        · exact dk_cons_nokey (by simpa using hlk) true
      rw [hdk] at h hp
      have hdk0 : dk S false cs = cs := by simp [dk]
      obtain ⟨hE, hkb⟩ := h c (List.mem_cons_self ..)
      simp only [Bool.and_eq_true]
      refine ⟨⟨⟨hE, ?_⟩, ?_⟩, ?_⟩
      · rw [List.all_eq_true]
        intro k hk
        simpa using hkb k hk
      · rw [List.all_eq_true]
        intro c' hc'
        simpa using (List.pairwise_cons.mp hp).1 c' hc'
      · exact exactK_intro false cs (by rw [hdk0]; exact fun c' hc' => h c' (List.mem_cons_of_mem _ hc'))
          (by rw [hdk0]; exact (List.pairwise_cons.mp hp).2)

/-- the children of a DELETED subtree (plain copies, operation inherited) are an exact diff for every good list with their
observation -/
theorem exactK_plain_delete {S : Schema} (K : KeyOrderOn S P) {ks Yk : List DNode} (hg : goodT S P ks = true)
    (hpl : plainL ks = true) (hn : normL13 Yk = normL13 ks) :
    exactK S P (some .delete) Yk true ks = true := by
  have hdk : dk S true ks = noKeys S ks := by simp [dk]
  apply exactK_intro true ks
  · rw [hdk]
    intro c hc
    have hcm : c ∈ ks := (noKeys_sublist S ks).subset hc
    have hgc : goodN S P c = true := goodL_mem (goodT_goodL hg) hcm
    have hpc : plainN c = true := plainL_mem hpl hcm
    have hck : S.isKey c.sid = false := mem_noKeys_notKey (goodT_lead hg) hc
    have hkb : KeysBelow S c ks := fun k hk => good_keys_lt K hg k hk c hc
    refine ⟨?_, keysBelow_congr hn hkb⟩
    have hl : (look S Yk c).map normN = some (normN c) := by
      rw [look_norm_congr hn c, look_self K (goodT_goodL hg) hcm]; rfl
    obtain ⟨yc, hyc, hyn⟩ := look_some_of_norm hl
    have hop : effOp c (some .delete) = some .delete := by simp [effOp, plainN_ownOp hpc]
    have hdq : dataEq true yc c = true := (dataEq_iff_norm yc c).mpr hyn
    have hdom : domB S P c = true := domB_iff.mpr (goodN_dom hgc)
    rw [hyc]
    cases c with
    | term s f m v =>
      simp only [exactE, hop, hdom, hdq, Bool.and_eq_true, Bool.true_and, Bool.and_true]
      exact ⟨by simp [metaOKB, plainN_metas hpc], by simpa [DNode.sid] using hck⟩
    | inner s f m ks' =>
      have hgk : goodT S P ks' = true := goodN_kidsT hgc
      have hpk : plainL ks' = true := by simpa [DNode.kids] using plainN_kids hpc
      simp only [exactE, hop, hdom, hdq, hgk, hpk, Bool.and_eq_true, Bool.true_and, Bool.and_true]
      exact ⟨by simp [metaOKB, plainN_metas hpc], by simpa [DNode.sid] using hck⟩
  · rw [hdk]
    exact ((good_pairwise K (goodT_goodL hg)).sublist (noKeys_sublist S ks)).imp (fun h => h.1)

theorem sameInst_of_matchP_inner {S : Schema} {src t : DNode} (hsd : Dom S P src) (hnt : src.isTerm = false)
    (hm : matchP S src t = true) : sameInst S t src = true := by
  have hs : t.sid = src.sid := matchP_sid hm
  have hSt : S.isTerm src.sid = false := by rw [← hsd.typed]; exact hnt
  simp only [matchP, Bool.and_eq_true, Bool.or_eq_true, Bool.not_eq_eq_eq_not, Bool.not_true, instMatch, hsd.ndi,
    Bool.false_eq_true, ↓reduceIte] at hm
  rcases hm.2 with h | h
  · simp only [Schema.isTerm, Bool.or_eq_false_iff] at hSt
    simp only [isLL, Bool.or_eq_false_iff] at h
    have h1 := hSt.1; have h2 := hSt.2; have h3 := h.1
    simp only [Schema.isKind, beq_eq_false_iff_ne, ne_eq] at h1 h2 h3
    unfold sameInst
    rw [hs]
    cases hk : S.kind? src.sid with
    | none => simp
    | some k => cases k <;> simp_all
  · exact h

/-- the key copies in front stay as they are -/
def offKeys (S : Schema) (g : DNode → DNode) (c : DNode) : DNode := if S.isKey c.sid then c else g c

theorem map_offKeys {S : Schema} (g : DNode → DNode) {kt : List DNode} (hl : keysLead S kt = true) :
    kt.map (offKeys S g) = keysOf S kt ++ (noKeys S kt).map g := by
  conv => lhs; rw [← keysOf_append_noKeys S kt]
  rw [List.map_append]
  congr 1
  · conv => rhs; rw [← List.map_id (keysOf S kt)]
    apply List.map_congr_left
    intro k hk
    simp [offKeys, mem_keysOf_isKey hk]
  · apply List.map_congr_left
    intro c hc
    simp [offKeys, mem_noKeys_notKey hl hc]

theorem heightL_map_le {g : DNode → DNode} (hg : ∀ c, (g c).height = c.height) : ∀ l : List DNode, heightL (l.map g) = heightL l
  | [] => rfl
  | c :: cs => by simp [heightL, hg c, heightL_map_le hg cs]

/-! ### an inner node changed inside by the first diff and deleted by the second -/

/-- `lyd_diff_merge_delete` makes the operation `none` a child inherits explicit -/
def explNone (c : DNode) : DNode := if ownOp c = none then changeOp c .none else c

theorem childInh_delete {d : DNode} {inh : Option Op} (h : effOp d inh = some .delete) : childInhOf d inh = some .delete := by
  unfold childInhOf
  cases ho : ownOp d with
  | none => simpa [effOp, ho] using h
  | some o =>
    have : o = .delete := by simpa [effOp, ho] using h
    subst this
    rfl

theorem safeP_congr {S : Schema} {cur1 cur2 sin : Option Op} {t t' : DNode} (h1 : t'.isTerm = t.isTerm)
    (h2 : effOp t' cur2 = effOp t cur1) (h3 : t.isTerm = false → childInhOf t' cur2 = childInhOf t cur1) (h4 : t'.kids = t.kids)
    (c : DNode) : safeP S cur2 sin t' c = safeP S cur1 sin t c := by
  cases c with
  | term s f m v => simp only [safeP, h1, h2]
  | inner s f m ks =>
    cases ht : t.isTerm
    · simp only [safeP, h1, h2, h3 ht, h4]
    · simp only [safeP, h1, ht, Bool.not_true, Bool.false_and]

theorem ownOp_explNone {c : DNode} (hm : MetaOK c) : ∃ op, ownOp (explNone c) = some op := by
  unfold explNone
  cases ho : ownOp c with
  | none => exact ⟨.none, by simp only [↓reduceIte]; exact ownOp_changeOp hm .none⟩
  | some op => exact ⟨op, by simp only [reduceCtorEq, ↓reduceIte]; exact ho⟩

theorem matchP_explNone (S : Schema) (c x : DNode) : matchP S (explNone c) x = matchP S c x := by
  unfold explNone; split
  · exact matchP_changeOp S c x .none
  · rfl

theorem matchP_explNone_right {S : Schema} {q : DNode} (hq : S.isDupInst q.sid = false) (c : DNode) :
    matchP S q (explNone c) = matchP S q c := by
  unfold explNone; split
  · exact matchP_of_same_data_right (x := c) hq (by simp) (by simp) (by simp)
  · rfl

@[simp] theorem sid_explNone (c : DNode) : (explNone c).sid = c.sid := by unfold explNone; split <;> simp
@[simp] theorem kids_explNone (c : DNode) : (explNone c).kids = c.kids := by unfold explNone; split <;> simp
@[simp] theorem isTerm_explNone (c : DNode) : (explNone c).isTerm = c.isTerm := by unfold explNone; split <;> simp
theorem height_explNone (c : DNode) : (explNone c).height = c.height := by
  unfold explNone; split
  · exact height_changeOp c .none
  · rfl

/-- what `lyd_diff_merge_delete` makes of an inner target node with operation `none` -/
theorem mergeDelete_none_inner (S : Schema) (st : Nat) (ft : Flags) (mt : List Meta) (kt : List DNode) (src : DNode)
    (hsame : sameInst S (.inner st ft mt kt) src = true) (hndi : S.isDupInst st = false) :
    mergeDelete S (.inner st ft mt kt) .none src =
      .ok (.inner st ft (eraseMeta "operation" mt ++ [("operation", bs Op.delete.str)])
        (keysOf S kt ++ (noKeys S kt).map fun c =>
          if (getMeta c "operation").isSome then c else if (findForApply S src.kids c).isSome then changeOp c .none else c)) := by
  have hco : changeOp (.inner st ft mt kt) .delete = .inner st ft (eraseMeta "operation" mt ++ [("operation", bs Op.delete.str)]) kt := rfl
  unfold mergeDelete
  simp only [hsame, Bool.not_true, Bool.false_eq_true, ↓reduceIte, Except.map, hco, pj_sid_inner, hndi, pj_kids_inner,
    pj_setKids_inner]

/-- an inner node with operation `none` (changed inside by the first diff) meets a `delete` of the whole instance: the target node
becomes `delete`, the children of the deleted subtree are merged into its children (induction hypothesis `IH`) -/
theorem merge_matched_inner_nd {S : Schema} (K : KeyOrderOn S P) {o : MergeOpts} {n : Nat} {hp : Bool} {cur sin : Option Op}
    {s : Nat} {f : Flags} {ms : List Meta} {ks : List DNode} {t : DNode}
    {kp pre rest L Y : List DNode} {E : DNode → Option DNode} (IH : ListMergeSpec S P fx o ks)
    (hh : (DNode.inner s f ms ks).height ≤ n) (hgL : goodT S P L = true) (hgY : goodT S P Y = true)
    (hkp : ∀ k ∈ kp, S.isKey k.sid = true ∧ k.sid < s)
    (hT : TInv S P fx cur (pre ++ t :: rest) L E) (hR : Rel S P (pre ++ t :: rest) L E Y)
    (hpre : ∀ a ∈ pre, matchP S (.inner s f ms ks) a = false) (hm : matchP S (.inner s f ms ks) t = true)
    (hO : Orig S P cur L t) (hsafe : safeP S cur sin t (.inner s f ms ks) = true)
    (hcop : effOp t cur = some .none) (hsop : effOp (.inner s f ms ks) sin = some .delete)
    (hsex : exactE S P sin (look S Y (.inner s f ms ks)) (.inner s f ms ks) = true)
    (hkb : KeysBelow S (.inner s f ms ks) Y) :
    MergeConcl S P fx o n hp cur sin (.inner s f ms ks) kp (pre ++ t :: rest) L Y := by
  obtain ⟨htex, hlt, _⟩ := hO
  obtain ⟨hsd, _, hsk⟩ := exactE_base hsex
  obtain ⟨htd, htm, htk⟩ := exactE_base htex
  simp only [safeP, Bool.and_eq_true, Bool.not_eq_eq_eq_not, Bool.not_true] at hsafe
  obtain ⟨⟨⟨⟨htnt, _⟩, hkc⟩, hkord⟩, hsafeK⟩ := hsafe
  cases t with
  | term => simp [DNode.isTerm] at htnt
  | inner st ft mt kt =>
  have hss : st = s := matchP_sid hm
  subst hss
  obtain ⟨x, hx, hnet, hexkt⟩ := exactE_none_inner htex hcop
  obtain ⟨y, hy, hdq, hpl, hgks⟩ := exactE_delete hsex hsop
  obtain ⟨hgx, hxs⟩ := good_look hgL x hx
  obtain ⟨hgy, hys⟩ := good_look hgY y hy
  have hgxk := goodN_kidsT hgx
  have hgyk := goodN_kidsT hgy
  have hmem : DNode.inner st ft mt kt ∈ pre ++ DNode.inner st ft mt kt :: rest := by simp
  have hperm : (pre ++ DNode.inner st ft mt kt :: rest).Perm (DNode.inner st ft mt kt :: (pre ++ rest)) := List.perm_middle
  have hT1 := hT.perm hperm
  have hR1 := hR.perm hperm
  have hxt : x.isTerm = false := by rw [(goodN_dom hgx).typed, hxs, ← htd.typed]; rfl
  have hyt : y.isTerm = false := by rw [(goodN_dom hgy).typed, hys, ← hsd.typed]; rfl
  have hcur' : childInhOf (.inner st ft mt kt) cur = some .none := childInh_none hcop
  have hsin' : childInhOf (.inner st f ms ks) sin = some .delete := childInh_delete hsop
  rw [hcur'] at hexkt hsafeK
  rw [hsin'] at hsafeK
  have hdkt : dk S true kt = noKeys S kt := by simp [dk]
  have hlitk : litL kt = true := by simp only [litN, Bool.and_eq_true] at hlt; exact hlt.2
  -- the children of the target node: what `lyd_diff_merge_delete` makes of them
  have hkfacts : ∀ c ∈ noKeys S kt, exactE S P (some .none) (look S x.kids c) c = true ∧ litN c = true ∧
      (ownOp c = none → c.isTerm = false ∧ c.metas = []) := by
    intro c hc
    have h1 := (exactK_mem true kt hexkt c (by rw [hdkt]; exact hc)).1
    have h2 := litL_mem hlitk ((noKeys_sublist S kt).subset hc)
    refine ⟨h1, h2, ?_⟩
    intro ho
    cases hct : c.isTerm
    · refine ⟨rfl, ?_⟩
      cases c with
      | term => simp [DNode.isTerm] at hct
      | inner sc fc mc kc =>
        simp only [litN, Bool.and_eq_true, litInner, Bool.or_eq_true, beq_iff_eq] at h2
        rcases h2.1 with ((h | h) | h) | h
        · exact h
        all_goals (subst h; simp [ownOp, getMeta, DNode.metas, ofBytes_none, ofBytes_create, ofBytes_delete] at ho)
    · obtain ⟨op, ho'⟩ := own_of_exact_lit (Or.inr rfl) hct h1 h2
      rw [ho] at ho'; cases ho'
  have hgexact : ∀ c ∈ noKeys S kt, exactE S P (some .delete) (look S x.kids c) (explNone c) = true := by
    intro c hc
    obtain ⟨h1, _, h3⟩ := hkfacts c hc
    unfold explNone
    cases ho : ownOp c with
    | some op => simp only [reduceCtorEq, ↓reduceIte]; rw [exactE_own ho (some .delete) (some .none)]; exact h1
    | none =>
      simp only [↓reduceIte]
      obtain ⟨hct, _⟩ := h3 ho
      cases c with
      | term => simp [DNode.isTerm] at hct
      | inner sc fc mc kc =>
        have hop : effOp (.inner sc fc mc kc) (some .none) = some .none := by simp [effOp, ho]
        rw [exactE_changeOp_none K (exactE_base h1).2.1 hop]
        exact h1
  have hlvl0 := exactK_level K true kt hexkt
  rw [hdkt] at hlvl0
  have hlead : keysLead S kt = true := by
    simp only [keysLead, List.all_eq_true, Bool.not_eq_eq_eq_not, Bool.not_true]
    exact hlvl0.nokey
  have hmapK : exactK S P (some .delete) x.kids true (kt.map (offKeys S explNone)) = true := by
    apply exactK_map (offKeys S explNone) ?_ ?_ ?_ true kt hexkt
    · intro c hc
      rw [hdkt] at hc
      have : offKeys S explNone c = explNone c := by simp [offKeys, hlvl0.nokey c hc]
      rw [this]
      exact hgexact c hc
    · intro c z; unfold offKeys; split
      · rfl
      · exact matchP_explNone S c z
    · intro q c hq; unfold offKeys; split
      · rfl
      · exact matchP_explNone_right hq c
    · intro c; unfold offKeys; split <;> simp
  rw [map_offKeys explNone hlead] at hmapK
  obtain ⟨hko, hno⟩ := split_keys (S := S) (kp := keysOf S kt) (M := (noKeys S kt).map explNone) (keysOf_all_key S kt)
    (by
      intro m hm
      obtain ⟨c, hc, rfl⟩ := List.mem_map.mp hm
      rw [sid_explNone]; exact hlvl0.nokey c hc)
  obtain ⟨Ek, V, hTk, hAk, hRelk⟩ := kids_inv (fx := fx) K hgxk hmapK
  rw [hno] at hTk hAk hRelk
  -- applying the mapped children is applying the children
  have hcongr : ∀ (m : Nat) (hp' : Bool), ∀ c ∈ noKeys S kt, ∀ Z,
      applyNode S fx m Z hp' (some .delete) (explNone c) = applyNode S fx m Z hp' (some .none) c := by
    intro m hp' c hc Z
    obtain ⟨h1, _, _⟩ := hkfacts c hc
    obtain ⟨hcd, hcm, _⟩ := exactE_base h1
    unfold explNone
    cases ho : ownOp c with
    | some op => simp only [reduceCtorEq, ↓reduceIte]; exact applyNode_own ho hcd.nuo m Z hp' _ _
    | none =>
      simp only [↓reduceIte]
      exact applyNode_changeOp hcm (by simp [effOp, ho]) hcd.nuo m Z hp'
  have hAk' : ActsL S P fx (some .none) (noKeys S kt) (normL13 x.kids) V := by
    intro m hp' X hhm hgX hX
    have := hAk m hp' X (by rw [heightL_map_le height_explNone]; exact hhm) hgX hX
    rwa [applyF_map_congr explNone (noKeys S kt) X (hcongr m hp')] at this
  have hactt : Acts S P fx cur (.inner st ft mt kt) (some (normN x)) (some (.inner st {} [] V)) :=
    acts_none_inner (y := normN x) K htd htk hcop hnet (by rw [hcur']; simpa using hAk')
  have hactt' : Acts S P fx cur (.inner st ft mt kt) ((look S L (.inner st ft mt kt)).map normN) (some (.inner st {} [] V)) := by
    rw [hx]; exact hactt
  have hEt : E (.inner st ft mt kt) = some (.inner st {} [] V) :=
    Acts.det (hT.acts _ hmem) hactt' hgL (hT.kb _ hmem) rfl
  have hlY : look S Y (.inner st f ms ks) = look S Y (.inner st ft mt kt) := look_congr K (goodT_goodL hgY) hsd htd hm
  have hyV : normL13 y.kids = V := by
    have h1 := hR.on _ hmem
    rw [← hlY, hy, hEt] at h1
    simp only [Option.map_some, Option.some.injEq, normN_inner_form hyt, DNode.inner.injEq] at h1
    exact h1.2.2.2
  obtain ⟨hRk, hkYk, _⟩ := hRelk y.kids hgyk hyV
  have hn : normL13 y.kids = normL13 ks := by
    have h1 := (dataEq_iff_norm y (.inner st f ms ks)).mp hdq
    rw [normN_inner_form hyt] at h1
    simp only [normN, DNode.inner.injEq] at h1
    exact h1.2.2.2
  have hexks : exactK S P (some .delete) y.kids true ks = true := exactK_plain_delete K hgks hpl hn
  -- the induction hypothesis: the children of the deleted subtree into the children of the target node
  obtain ⟨k, rfl⟩ : ∃ k, n = k + 1 := ⟨n - 1, by have := height_pos13 (DNode.inner st f ms ks); omega⟩
  have hks : heightL ks ≤ k := height_inner_le hh
  have hdk : dk S true ks = noKeys S ks := by simp [dk]
  have hmemT : ∀ c ∈ noKeys S kt, explNone c ∈ (noKeys S kt).map explNone := fun c hc => List.mem_map_of_mem hc
  obtain ⟨Mk, Ek', Yk', hmk, _, _, _, hTk', _⟩ := IH k true (some .delete) (some .delete) true (keysOf S kt)
    ((noKeys S kt).map explNone) x.kids y.kids Ek (Or.inr (Or.inl rfl)) hks hgxk hgyk hkYk
    (by
      intro kk hkk
      refine ⟨keysOf_all_key S kt kk hkk, ?_⟩
      intro c hc
      rw [hdk] at hc
      have := List.all_eq_true.mp (List.all_eq_true.mp hkord kk hkk) c hc
      simpa using this)
    hTk hRk
    (by
      intro c hc tk htk hmc
      rw [hdk] at hc
      obtain ⟨c0, hc0, rfl⟩ := List.mem_map.mp htk
      obtain ⟨h1, h2, h3⟩ := hkfacts c0 hc0
      have hcd : Dom S P c := (exactE_base (exactK_mem true ks hexks c (by rw [hdk]; exact hc)).1).1
      have hlk : look S x.kids (explNone c0) = look S x.kids c0 := look_congr_fun (matchP_explNone S c0)
      obtain ⟨opx, hopx⟩ := ownOp_explNone (exactE_base h1).2.1
      refine ⟨⟨by rw [hlk]; exact hgexact c0 hc0, ?_, ?_⟩, ?_⟩
      · unfold explNone
        cases ho : ownOp c0 with
        | some op => simp only [reduceCtorEq, ↓reduceIte]; exact h2
        | none =>
          simp only [↓reduceIte]
          obtain ⟨hct, hmeta⟩ := h3 ho
          cases c0 with
          | term => simp [DNode.isTerm] at hct
          | inner sc fc mc kc =>
            simp only [DNode.metas] at hmeta
            subst hmeta
            have hco : changeOp (DNode.inner sc fc [] kc) .none = .inner sc fc [("operation", bs "none")] kc := by
              simp [changeOp, eraseMeta, DNode.setMetas, DNode.metas, Op.str]
            rw [hco]
            simp only [litN, Bool.and_eq_true] at h2 ⊢
            exact ⟨by simp [litInner], h2.2⟩
      · refine Or.inl ?_
        intro op hop _
        rw [effOp_own' hopx] at hop
        rw [hopx, Option.some.inj hop]
      · rw [safeP_congr (t := c0) (cur1 := some .none) (isTerm_explNone c0) ?_ ?_ (kids_explNone c0)]
        · exact safeK_mem hsafeK c ((noKeys_sublist S ks).subset hc) c0 hc0
            (by rw [← matchP_explNone_right hcd.ndi c0]; exact hmc)
        · unfold explNone
          cases ho : ownOp c0 with
          | some op => simp only [reduceCtorEq, ↓reduceIte, effOp, ho]
          | none =>
            simp only [↓reduceIte]
            rw [effOp_changeOp (exactE_base h1).2.1]
            simp [effOp, ho]
        · intro hct
          unfold explNone
          cases ho : ownOp c0 with
          | some op =>
            simp only [reduceCtorEq, ↓reduceIte]
            have hne : op ≠ .replace := by
              rintro rfl
              have hop : effOp c0 (some .none) = some .replace := by simp [effOp, ho]
              have := (exactE_replace h1 hop).1
              rw [hct] at this; cases this
            rw [childInh_of_own c0 op _ ho hne, childInh_of_own c0 op _ ho hne]
          | none =>
            simp only [↓reduceIte]
            rw [childInh_of_own _ .none _ (ownOp_changeOp (exactE_base h1).2.1 .none) (by decide)]
            simp [childInhOf, ho])
    hexks (litL_of_plain ks hpl)
  -- every child without an operation of its own is found among the children of the deleted subtree
  have hfound : ∀ c ∈ noKeys S kt, ownOp c = none → (findForApply S ks c).isSome = true := by
    intro c hc ho
    obtain ⟨h1, _, h3⟩ := hkfacts c hc
    obtain ⟨hct, hmeta⟩ := h3 ho
    have htkm := hmemT c hc
    have hex2 := hgexact c hc
    have hlk : ∀ Z, look S Z (explNone c) = look S Z c := fun Z => look_congr_fun (matchP_explNone S c)
    cases c with
    | term => simp [DNode.isTerm] at hct
    | inner sc fc mc kc =>
      simp only [DNode.metas] at hmeta
      subst hmeta
      have hco : explNone (DNode.inner sc fc [] kc) = .inner sc fc [("operation", bs "none")] kc := by
        simp [explNone, ho, changeOp, eraseMeta, DNode.setMetas, DNode.metas, Op.str]
      rw [hco] at hex2 htkm hlk
      have hop2 : effOp (DNode.inner sc fc [("operation", bs "none")] kc) (some .delete) = some .none :=
        effOp_own' (ownOp_of_metas _ .none rfl) _
      obtain ⟨hd2, _, hk2⟩ := exactE_base hex2
      obtain ⟨xc, hxc, hnec, hexkc⟩ := exactE_none_inner hex2 hop2
      obtain ⟨hgxc, _⟩ := good_look hgxk xc hxc
      obtain ⟨Vc, hVc⟩ := listFwd (fx := fx) K kc _ xc.kids true (goodN_kidsT hgxc) hexkc
      have hacts2 := acts_none_inner (fx := fx) (y := normN xc) K hd2 hk2 hop2 hnec (by simpa [dk] using hVc)
      have hEk := Acts.det (hTk.acts _ htkm) (by rw [hlk, hxc]; exact hacts2) hgxk (hTk.kb _ htkm) rfl
      have h5 := hRk.on _ htkm
      rw [hEk, hlk, look_norm_congr hn] at h5
      cases hf : findForApply S ks (DNode.inner sc fc [] kc) with
      | some i => rfl
      | none =>
        have := look_none_iff_findIdx.mpr hf
        rw [this] at h5
        cases h5
  -- the cell `delete` on `none`
  have hsame : sameInst S (.inner st ft mt kt) (.inner st f ms ks) = true := sameInst_of_matchP_inner hsd rfl hm
  have hndi : S.isDupInst st = false := htd.ndi
  have hnuo : S.isUserOrd st = false := htd.nuo
  let mt' : List Meta := eraseMeta "operation" mt ++ [("operation", bs Op.delete.str)]
  have hco : changeOp (.inner st ft mt kt) .delete = .inner st ft mt' kt := rfl
  let t1 : DNode := .inner st ft mt' (keysOf S kt ++ (noKeys S kt).map explNone)
  have hcell : mergeCell S o .delete (.inner st ft mt kt) .none (.inner st f ms ks) = .ok (t1, false) := by
    show (mergeDelete S _ .none _).map (·, false) = _
    rw [mergeDelete_none_inner S st ft mt kt _ hsame hndi]
    simp only [Except.map, t1, mt']
    congr 4
    apply List.map_congr_left
    intro c hc
    cases ho : ownOp c with
    | some op =>
      have hg : (getMeta c "operation").isSome = true := by
        cases hgm : getMeta c "operation" with
        | none => simp [ownOp, hgm] at ho
        | some b => rfl
      simp [hg, explNone, ho]
    | none =>
      have hmeta := ((hkfacts c hc).2.2 ho).2
      have hg : getMeta c "operation" = none := by simp [getMeta, hmeta]
      have hf : (findForApply S (DNode.inner st f ms ks).kids c).isSome = true := hfound c hc ho
      simp [hg, hf, explNone, ho]
  have hown1 : ownOp t1 = some .delete := by
    have h0 := ownOp_changeOp htm .delete
    rw [hco] at h0
    exact (ownOp_congr_metas (d := .inner st ft mt' kt) (d' := t1) rfl).trans h0
  have hkids : (fun (c' s' : Option Op) (tk : List DNode) =>
      if (DNode.inner st f ms ks).isTerm then Except.ok tk else mergeKids S o c' s' true (DNode.inner st f ms ks).kids tk)
      (childInhOf t1 cur) (childInhOf (.inner st f ms ks) sin) t1.kids = .ok (keysOf S kt ++ Mk) := by
    simp only [DNode.isTerm, Bool.false_eq_true, ↓reduceIte, pj_kids_inner, hsin',
      childInh_of_own t1 .delete cur hown1 (by decide)]
    exact hmk
  -- the source node on `Y`: the instance is deleted
  obtain ⟨Y', hY', hgY', hkY', hloc, hval⟩ := acts_delete (fx := fx) (y := normN y) K hsd hsk hsop (k + 1) hp Y hh hgY hkb
    (by rw [hy]; rfl)
  -- the merge step: the target node is kept, with the operation `delete`
  have hMk : ∀ m ∈ Mk, S.isKey m.sid = false := hTk'.lvl.nokey
  obtain ⟨hko2, _⟩ := split_keys (S := S) (keysOf_all_key S kt) hMk
  let t' : DNode := .inner st ft mt' (keysOf S kt ++ Mk)
  have hsetk : t1.setKids (keysOf S kt ++ Mk) = t' := rfl
  have hown' : ownOp t' = some .delete := (ownOp_congr_metas (d := t1) (d' := t') rfl).trans hown1
  have hredf : isRedundant S cur t' = (t', false) :=
    redundant_false_of_op S cur t' .delete (effOp_own' hown' cur) (by decide) hnuo
  have hpre' : ∀ a ∈ kp ++ pre, matchP S (.inner st f ms ks) a = false := by
    intro a ha
    rcases List.mem_append.mp ha with ha | ha
    · exact matchP_key_lt (hkp a ha).2
    · exact hpre a ha
  have hassoc : kp ++ (pre ++ DNode.inner st ft mt kt :: rest) = (kp ++ pre) ++ DNode.inner st ft mt kt :: rest := by simp
  have hstep := mergeStep_keep S o cur sin (.inner st f ms ks) (.inner st ft mt kt) t1 (kp ++ pre) rest
    (keysOf S kt ++ Mk) .delete .none
    (fun c' s' tk => if (DNode.inner st f ms ks).isTerm then Except.ok tk
      else mergeKids S o c' s' true (DNode.inner st f ms ks).kids tk)
    hsop hcop hpre' hm hndi hndi hcell hkids (by rw [hsetk, hredf])
  rw [← mergeR_eq, ← hassoc, hsetk, hredf] at hstep
  have hmd : Dom S P t' := by
    refine ⟨hnuo, hndi, by have := htd.typed; simpa [t', DNode.isTerm, DNode.sid] using this, ?_⟩
    rw [K.pinv.pcongr (x := t') (y := .inner st ft mt kt) rfl rfl (by simp only [t', DNode.kids, hko2])]
    exact htd.sat
  have hmm : ∀ z, matchP S t' z = matchP S (.inner st ft mt kt) z := fun z =>
    matchP_of_same_keys (d := .inner st ft mt kt) (d' := t') hndi rfl rfl (by simp only [t', DNode.kids, hko2]) z
  have hactm : Acts S P fx cur t' ((look S L (.inner st ft mt kt)).map normN) none := by
    rw [hx]; exact acts_delete (y := normN x) K hmd htk (effOp_own' hown' cur)
  obtain ⟨hT2, hR2⟩ := tinv_set K hT1 hR1 hmd htk hmm rfl hactm hsd hm hloc hval hgY'
  have hperm2 : (t' :: (pre ++ rest)).Perm (pre ++ t' :: rest) := List.perm_middle.symm
  refine ⟨pre ++ t' :: rest, _, Y', by rw [hstep]; simp, hY', hgY', hkY', hloc, hT2.perm hperm2, hR2.perm hperm2, ?_⟩
  intro z hz
  rcases List.mem_append.mp hz with h | h
  · exact Or.inl (by simp [h])
  · rcases List.mem_cons.mp h with rfl | h
    · exact Or.inr (matchP_src_of_left K hsd htd hmd hmm hm)
    · exact Or.inl (by simp [h])

/-! ### an inner node created by the first diff and deleted by the second -/

theorem keysOf_keysOf (S : Schema) (l : List DNode) : keysOf S (keysOf S l) = keysOf S l := by
  unfold keysOf
  induction l with
  | nil => rfl
  | cons x xs ih =>
    simp only [List.takeWhile_cons]
    split
    · rename_i h; simp only [List.takeWhile_cons, h, ↓reduceIte, ih]
    · rfl

theorem goodT_keysOf {S : Schema} (K : KeyOrderOn S P) {l : List DNode} (hg : goodT S P l = true) :
    goodT S P (keysOf S l) = true := by
  have hs := (goodL_iff K).mp (goodT_goodL hg)
  have hsub : (keysOf S l).Sublist l := List.takeWhile_sublist _
  unfold goodT
  rw [Bool.and_eq_true]
  refine ⟨(goodL_iff K).mpr ⟨hs.1.sublist hsub, fun x hx => hs.2 x (hsub.subset hx)⟩, ?_⟩
  simp [keysLead, noKeys_keysOf]

/-- a node of a schema node that is not a list key finds nothing among key leaves -/
theorem look_keys_none {S : Schema} {l : List DNode} {q : DNode} (hq : S.isKey q.sid = false) : look S (keysOf S l) q = none := by
  rw [look, List.find?_eq_none]
  intro k hk
  have hkk := mem_keysOf_isKey hk
  have : (k.sid == q.sid) = false := by
    rw [beq_eq_false_iff_ne]; intro h; rw [h, hq] at hkk; cases hkk
  simp [matchP, this]

/-- a key leaf is found among the keys in front -/
theorem look_key_front {S : Schema} {l : List DNode} {q : DNode} (hl : keysLead S l = true) (hq : S.isKey q.sid = true) :
    look S l q = look S (keysOf S l) q := by
  conv => lhs; rw [← keysOf_append_noKeys S l]
  rw [look, List.find?_append]
  have : (noKeys S l).find? (matchP S q) = none := by
    rw [List.find?_eq_none]
    intro c hc
    have hck := mem_noKeys_notKey hl hc
    have : (c.sid == q.sid) = false := by
      rw [beq_eq_false_iff_ne]; intro h; rw [h, hq] at hck; cases hck
    simp [matchP, this]
  rw [this]
  simp [look]

/-- two good lists with the same observation: a node (not a key) that no member of the second list after the keys addresses finds
nothing in the first -/
theorem look_nonkey_none {S : Schema} (K : KeyOrderOn S P) {A B : List DNode} (hgB : goodT S P B = true)
    (hAB : normL13 A = normL13 B) {q : DNode} (hq : Dom S P q) (hqk : S.isKey q.sid = false)
    (hall : ∀ b ∈ noKeys S B, matchP S b q = false) : look S A q = none := by
  cases hA : look S A q with
  | none => rfl
  | some a =>
    exfalso
    have h1 : (look S B q).map normN = (look S A q).map normN := (look_norm_congr hAB q).symm
    rw [hA] at h1
    obtain ⟨b, hb, _⟩ := look_some_of_norm h1
    obtain ⟨hbm, hqb⟩ := look_mem hb
    have hbd : Dom S P b := goodN_dom (goodL_mem (goodT_goodL hgB) hbm)
    have hbs : b.sid = q.sid := matchP_sid hqb
    have hbn : b ∈ noKeys S B := by
      rw [← keysOf_append_noKeys S B] at hbm
      rcases List.mem_append.mp hbm with h | h
      · have := mem_keysOf_isKey h
        rw [hbs, hqk] at this; cases this
      · exact h
    have := hall b hbn
    rw [matchP_symm K hbd hq, hqb] at this
    cases this

theorem changeOp_of_plain {c : DNode} (hp : plainN c = true) (op : Op) : changeOp c op = c.setMetas [("operation", bs op.str)] := by
  simp [changeOp, plainN_metas hp, eraseMeta]

/-- the copy of a plain good subtree with `create` made explicit is exact where there is no instance -/
theorem exactE_created {S : Schema} (K : KeyOrderOn S P) {c : DNode} (inh : Option Op) (hg : goodN S P c = true) (hp : plainN c = true)
    (hk : S.isKey c.sid = false) : exactE S P inh none (changeOp c .create) = true := by
  have hd : domB S P (changeOp c .create) = true := domB_iff.mpr (dom_changeOp K (goodN_dom hg) .create)
  have hm : metaOKB (changeOp c .create) = true := by rw [changeOp_of_plain hp]; cases c <;> simp [metaOKB, DNode.setMetas, DNode.metas]
  have ho : effOp (changeOp c .create) inh = some .create := by
    rw [changeOp_of_plain hp]
    exact effOp_own' (ownOp_of_metas _ .create (by cases c <;> rfl)) inh
  rw [changeOp_of_plain hp] at hd hm ho ⊢
  cases c with
  | term s f m v =>
    simp only [DNode.setMetas] at hd hm ho ⊢
    simp only [exactE, hd, hm, ho, Bool.and_eq_true, Bool.true_and, Bool.and_true]
    simpa [DNode.sid] using hk
  | inner s f m ks =>
    simp only [DNode.setMetas] at hd hm ho ⊢
    have hgk : goodT S P ks = true := goodN_kidsT hg
    have hpk : plainL ks = true := by simpa [DNode.kids] using plainN_kids hp
    simp only [exactE, hd, hm, ho, hgk, hpk, Bool.and_eq_true, Bool.true_and, Bool.and_true]
    simpa [DNode.sid] using hk

theorem matchP_changeOp_both {S : Schema} {a : DNode} (ha : S.isDupInst a.sid = false) (b : DNode) (op : Op) :
    matchP S (changeOp a op) (changeOp b op) = matchP S a b := by
  rw [matchP_changeOp, matchP_of_same_data_right (x := b) ha (by simp) (by simp) (by simp)]

/-- what `lyd_diff_merge_delete` makes of a created inner node with a plain subtree (its `create` its own or inherited) -/
theorem mergeDelete_create_inner' (S : Schema) (s0 : Nat) (f : Flags) (mt : List Meta) (ks : List DNode) (s : DNode)
    (hchg : changeOp (.inner s0 f mt ks) .none = .inner s0 f [("operation", bs "none")] ks)
    (hsame : sameInst S (.inner s0 f mt ks) s = true) (hnd : S.isDupInst s0 = false) (hnt : S.isTerm s0 = false)
    (hkids : ∀ c ∈ noKeys S ks, getMeta c "operation" = none ∧ (findForApply S s.kids c).isSome = true) :
    mergeDelete S (.inner s0 f mt ks) .create s =
      .ok (.inner s0 f [("operation", bs "none")] (keysOf S ks ++ (noKeys S ks).map fun c => changeOp c .create)) := by
  unfold mergeDelete
  simp only [hsame, Bool.not_true, Bool.false_eq_true, if_false, pj_sid_inner, hnt, Except.map]
  simp only [hchg, pj_sid_inner, hnd, Bool.false_eq_true, if_false, pj_kids_inner, pj_setKids_inner]
  congr 3
  apply List.map_congr_left
  intro c hc
  obtain ⟨h2, h3⟩ := hkids c hc
  simp only [h2, h3, Option.isSome_none, Bool.false_eq_true, if_false, if_true]

/-- an inner node CREATED by the first diff meets a `delete` of the whole instance by the second: nothing is left -/
theorem merge_matched_inner_cd {S : Schema} (K : KeyOrderOn S P) {o : MergeOpts} {n : Nat} {hp : Bool} {cur sin : Option Op}
    {s : Nat} {f : Flags} {ms : List Meta} {ks : List DNode} {t : DNode}
    {kp pre rest L Y : List DNode} {E : DNode → Option DNode} (IH : ListMergeSpec S P fx o ks)
    (hh : (DNode.inner s f ms ks).height ≤ n) (hgL : goodT S P L = true) (hgY : goodT S P Y = true)
    (hkp : ∀ k ∈ kp, S.isKey k.sid = true ∧ k.sid < s)
    (hT : TInv S P fx cur (pre ++ t :: rest) L E) (hR : Rel S P (pre ++ t :: rest) L E Y)
    (hpre : ∀ a ∈ pre, matchP S (.inner s f ms ks) a = false) (hm : matchP S (.inner s f ms ks) t = true)
    (hO : Orig S P cur L t) (hsafe : safeP S cur sin t (.inner s f ms ks) = true)
    (hcop : effOp t cur = some .create) (hsop : effOp (.inner s f ms ks) sin = some .delete)
    (hsex : exactE S P sin (look S Y (.inner s f ms ks)) (.inner s f ms ks) = true)
    (hkb : KeysBelow S (.inner s f ms ks) Y) :
    MergeConcl S P fx o n hp cur sin (.inner s f ms ks) kp (pre ++ t :: rest) L Y := by
  obtain ⟨htex, hlt, hown⟩ := hO
  obtain ⟨hsd, _, hsk⟩ := exactE_base hsex
  obtain ⟨htd, htm, htk⟩ := exactE_base htex
  simp only [safeP, Bool.and_eq_true, Bool.not_eq_eq_eq_not, Bool.not_true] at hsafe
  obtain ⟨⟨⟨⟨htnt, _⟩, hkc⟩, hkord⟩, hsafeK⟩ := hsafe
  cases t with
  | term => simp [DNode.isTerm] at htnt
  | inner st ft mt kt =>
  have hss : st = s := matchP_sid hm
  subst hss
  have hmt : mt = [("operation", bs "create")] ∨ (mt = [] ∧ cur = some .create) := by
    rcases hown with hown | ⟨h1, h2⟩
    · left
      have hot : ownOp (DNode.inner st ft mt kt) = some .create := hown .create hcop (Or.inr (by decide))
      simp only [litN, Bool.and_eq_true, litInner, Bool.or_eq_true, beq_iff_eq] at hlt
      rcases hlt.1 with ((h | h) | h) | h
      · subst h; simp [ownOp, getMeta, DNode.metas] at hot
      · subst h; simp [ownOp, getMeta, DNode.metas, ofBytes_none] at hot
      · exact h
      · subst h; simp [ownOp, getMeta, DNode.metas, ofBytes_delete] at hot
    · exact Or.inr ⟨h1, h2⟩
  have hchg : changeOp (.inner st ft mt kt) .none = .inner st ft [("operation", bs "none")] kt := by
    rcases hmt with rfl | ⟨rfl, _⟩ <;> simp [changeOp, eraseMeta, DNode.setMetas, DNode.metas, Op.str]
  obtain ⟨hx0, hplt, hgkt⟩ := exactE_create htex hcop
  obtain ⟨y, hy, hdq, hpl, hgks⟩ := exactE_delete hsex hsop
  simp only [DNode.kids] at hplt hgkt hpl hgks
  obtain ⟨hgy, hys⟩ := good_look hgY y hy
  have hgyk := goodN_kidsT hgy
  have hyt : y.isTerm = false := by rw [(goodN_dom hgy).typed, hys, ← hsd.typed]; rfl
  have hmem : DNode.inner st ft mt kt ∈ pre ++ DNode.inner st ft mt kt :: rest := by
    simp
  have hperm : (pre ++ DNode.inner st ft mt kt :: rest).Perm
      (DNode.inner st ft mt kt :: (pre ++ rest)) := List.perm_middle
  have hT1 := hT.perm hperm
  have hR1 := hR.perm hperm
  have hcur' : childInhOf (.inner st ft mt kt) cur = some .create := by
    rcases hmt with rfl | ⟨rfl, rfl⟩
    · exact childInh_of_own _ .create cur (ownOp_of_metas _ .create rfl) (by decide)
    · simp [childInhOf, ownOp, getMeta, DNode.metas]
  have hsin' : childInhOf (.inner st f ms ks) sin = some .delete := childInh_delete hsop
  rw [hcur', hsin'] at hsafeK
  simp only [DNode.kids] at hsafeK hkord
  -- what the target node makes of the (absent) instance, and what the second tree has there
  have hEt : E (.inner st ft mt kt) = some (normN (.inner st ft mt kt)) :=
    Acts.det (hT.acts _ hmem) (by rw [hx0]; exact acts_create K (by rw [← hx0]; exact htex) hcop) hgL (hT.kb _ hmem) rfl
  have hlY : look S Y (.inner st f ms ks) = look S Y (.inner st ft mt kt) :=
    look_congr K (goodT_goodL hgY) hsd htd hm
  have hykt : normL13 y.kids = normL13 kt := by
    have h1 := hR.on _ hmem
    rw [← hlY, hy, hEt] at h1
    simp only [Option.map_some, Option.some.injEq, normN_inner_form hyt, normN, DNode.inner.injEq] at h1
    exact h1.2.2.2
  have hn : normL13 y.kids = normL13 ks := by
    have h1 := (dataEq_iff_norm y (.inner st f ms ks)).mp hdq
    rw [normN_inner_form hyt] at h1
    simp only [normN, DNode.inner.injEq] at h1
    exact h1.2.2.2
  -- the children of the created subtree, `create` made explicit, on the keys of the instance
  let Tk : List DNode := (noKeys S kt).map fun c => changeOp c .create
  let L' : List DNode := keysOf S y.kids
  have hgL' : goodT S P L' = true := goodT_keysOf K hgyk
  have hleadt : keysLead S kt = true := goodT_lead hgkt
  have hkid : ∀ c ∈ noKeys S kt, c ∈ kt ∧ goodN S P c = true ∧ plainN c = true ∧ S.isKey c.sid = false := by
    intro c hc
    have hcm : c ∈ kt := (noKeys_sublist S kt).subset hc
    exact ⟨hcm, goodL_mem (goodT_goodL hgkt) hcm, plainL_mem hplt hcm, mem_noKeys_notKey hleadt hc⟩
  obtain ⟨hko, hno⟩ := split_keys (S := S) (kp := keysOf S kt) (M := Tk) (keysOf_all_key S kt)
    (by
      intro m hm
      obtain ⟨c, hc, rfl⟩ := List.mem_map.mp hm
      simpa using (hkid c hc).2.2.2)
  have hdkT : dk S true (keysOf S kt ++ Tk) = Tk := by simp only [dk, ↓reduceIte, hno]
  have hlookL' : ∀ c ∈ noKeys S kt, look S L' (changeOp c .create) = none := fun c hc =>
    look_keys_none (by simpa using (hkid c hc).2.2.2)
  have hexTk : exactK S P (some .none) L' true (keysOf S kt ++ Tk) = true := by
    apply exactK_intro true
    · rw [hdkT]
      intro tk htk
      obtain ⟨c, hc, rfl⟩ := List.mem_map.mp htk
      obtain ⟨_, hgc, hpc, hck⟩ := hkid c hc
      refine ⟨by rw [hlookL' c hc]; exact exactE_created K _ hgc hpc hck, ?_⟩
      intro k hk
      rw [keysOf_keysOf] at hk
      have h1 : KeysBelow S c kt := fun k' hk' => good_keys_lt K hgkt k' hk' c hc
      have := keysBelow_congr hykt h1 k hk
      simpa using this
    · rw [hdkT]
      rw [List.pairwise_map]
      refine (List.Pairwise.and_mem.mp ((good_pairwise K (goodT_goodL hgkt)).sublist (noKeys_sublist S kt))).imp ?_
      rintro a b ⟨ha, _, hab, _⟩
      rw [matchP_changeOp_both (goodN_dom (goodL_mem (goodT_goodL hgkt) ((noKeys_sublist S kt).subset ha))).ndi]
      exact hab
  obtain ⟨Ek, _, hTk, _, _⟩ := kids_inv (fx := fx) K hgL' hexTk
  rw [hno] at hTk
  have hEk : ∀ c ∈ noKeys S kt, Ek (changeOp c .create) = some (normN c) := by
    intro c hc
    obtain ⟨_, hgc, hpc, hck⟩ := hkid c hc
    have htkm : changeOp c .create ∈ Tk := List.mem_map_of_mem hc
    have h1 := hTk.acts _ htkm
    rw [hlookL' c hc] at h1
    have h2 := acts_create (fx := fx) K (exactE_created K (some .none) hgc hpc hck)
      (effOp_changeOp (by simp [MetaOK, plainN_metas hpc]) .create)
    have := Acts.det h1 h2 hgL' (hTk.kb _ htkm) (by rw [hlookL' c hc])
    rw [this, normN_changeOp]
  have hRk : Rel S P Tk L' Ek y.kids := by
    refine ⟨?_, ?_⟩
    · intro tk htk
      obtain ⟨c, hc, rfl⟩ := List.mem_map.mp htk
      rw [hEk c hc, look_congr_fun (fun z => matchP_changeOp S c z .create), look_norm_congr hykt,
        look_self K (goodT_goodL hgkt) (hkid c hc).1]
      rfl
    · intro q hq hall
      cases hqk : S.isKey q.sid
      · have hall' : ∀ b ∈ noKeys S kt, matchP S b q = false := fun b hb => by
          rw [← matchP_changeOp S b q .create]; exact hall _ (List.mem_map_of_mem hb)
        rw [look_nonkey_none K hgkt hykt hq hqk hall', look_keys_none hqk]
      · rw [look_key_front (goodT_lead hgyk) hqk]
  have hkYk : ∀ c, KeysBelow S c y.kids → KeysBelow S c L' := by
    intro c h k hk
    rw [keysOf_keysOf] at hk
    exact h k hk
  -- the induction hypothesis: the children of the deleted subtree into the (explicitly created) children of the target node
  obtain ⟨k, rfl⟩ : ∃ k, n = k + 1 := ⟨n - 1, by have := height_pos13 (DNode.inner st f ms ks); omega⟩
  have hks : heightL ks ≤ k := height_inner_le hh
  have hdk : dk S true ks = noKeys S ks := by simp [dk]
  have hexks : exactK S P (some .delete) y.kids true ks = true := exactK_plain_delete K hgks hpl hn
  obtain ⟨Mk, Ek', Yk', hmk, hYk', hgYk', _, hTk', hRk'⟩ := IH k true (some .none) (some .delete) true (keysOf S kt) Tk L' y.kids Ek
    (Or.inr (Or.inl rfl)) hks hgL' hgyk hkYk
    (by
      intro kk hkk
      refine ⟨keysOf_all_key S kt kk hkk, ?_⟩
      intro c hc
      rw [hdk] at hc
      have := List.all_eq_true.mp (List.all_eq_true.mp hkord kk hkk) c hc
      simpa using this)
    hTk hRk
    (by
      intro c hc tk htk hmc
      rw [hdk] at hc
      obtain ⟨c0, hc0, rfl⟩ := List.mem_map.mp htk
      obtain ⟨_, hgc, hpc, hck⟩ := hkid c0 hc0
      have hcd : Dom S P c := (exactE_base (exactK_mem true ks hexks c (by rw [hdk]; exact hc)).1).1
      have hmok : MetaOK c0 := by simp [MetaOK, plainN_metas hpc]
      have hown0 : ownOp (changeOp c0 .create) = some .create := ownOp_changeOp hmok .create
      refine ⟨⟨by rw [hlookL' c0 hc0]; exact exactE_created K _ hgc hpc hck, ?_, ?_⟩, ?_⟩
      · rw [changeOp_of_plain hpc]
        cases c0 with
        | term s' f' m' v' => simp [DNode.setMetas, litN, litMeta, Op.str]
        | inner s' f' m' k' =>
          have hpk : plainL k' = true := by simpa [DNode.kids] using plainN_kids hpc
          simp [DNode.setMetas, litN, litInner, Op.str, litL_of_plain k' hpk]
      · refine Or.inl ?_
        intro op hop _
        rw [effOp_own' hown0] at hop
        rw [hown0, Option.some.inj hop]
      · rw [safeP_congr (t := c0) (cur1 := some .create) (by simp) ?_ ?_ (by simp)]
        · exact safeK_mem hsafeK c ((noKeys_sublist S ks).subset hc) c0 hc0
            (by rw [← matchP_of_same_data_right (x' := changeOp c0 .create) (x := c0) hcd.ndi (by simp) (by simp) (by simp)]; exact hmc)
        · rw [effOp_own' hown0]; simp [effOp, plainN_ownOp hpc]
        · intro _
          rw [childInh_of_own _ .create _ hown0 (by decide)]
          simp [childInhOf, plainN_ownOp hpc])
    hexks (litL_of_plain ks hpl)
  rw [hdk] at hYk'
  -- nothing is left below the target node
  have hMk : Mk = [] := by
    cases hMe : Mk with
    | nil => rfl
    | cons m Mr =>
      exfalso
      have hmm : m ∈ Mk := by rw [hMe]; simp
      have hmd := hTk'.lvl.dom m hmm
      have hmk' := hTk'.lvl.nokey m hmm
      have hlm : look S L' m = none := look_keys_none hmk'
      have hne := acts_none_ne_none K hmd (by have := hTk'.acts m hmm; rwa [hlm] at this) hgL' (hTk'.kb m hmm) hlm
      have hon := hRk'.on m hmm
      -- what the deleted subtree's children make of `y.kids`: no instance after the keys is left
      obtain ⟨Eks, hEks⟩ := exactK_acts (fx := fx) (nodesFwd K ks) hgyk hexks
      obtain ⟨Z, hZ, hgZ, _, hlocZ, hvalZ⟩ := exactK_apply (fx := fx) (n := k) (hp := true) K hgyk hexks hEks
        (by rw [hdk]; exact Nat.le_trans (heightL_noKeys_le S ks) hks) hgyk rfl
      rw [hdk] at hZ hlocZ hvalZ hEks
      rw [hYk'] at hZ
      cases hZ
      have hnone : look S Yk' m = none := by
        by_cases hex : ∃ c ∈ noKeys S ks, matchP S c m = true
        · obtain ⟨c, hc, hcm⟩ := hex
          have hce := exactK_mem true ks hexks c (by rw [hdk]; exact hc)
          obtain ⟨hcd, _, hck⟩ := exactE_base hce.1
          have hop : effOp c (some .delete) = some .delete := by
            simp [effOp, plainN_ownOp (plainL_mem hpl ((noKeys_sublist S ks).subset hc))]
          obtain ⟨yc, hyc, _⟩ := exactE_delete hce.1 hop
          have h1 := hEks c hc
          rw [hyc] at h1
          have h2 := acts_delete (fx := fx) (y := normN yc) K hcd hck hop
          have h3 := Acts.det h1 h2 hgyk hce.2 (by rw [hyc])
          have h4 := hvalZ c hc
          rw [h3] at h4
          rw [← look_congr K (goodT_goodL hgZ) hcd hmd hcm]
          exact look_none_of_norm h4
        · have hall : ∀ c ∈ noKeys S ks, matchP S c m = false := by
            intro c hc
            cases h : matchP S c m
            · rfl
            · exact absurd ⟨c, hc, h⟩ hex
          rw [hlocZ m hmd hall]
          exact look_nonkey_none K hgks hn hmd hmk' hall
      rw [hnone] at hon
      exact hne hon.symm
  subst hMk
  -- the source node on `Y`: the instance is deleted
  obtain ⟨Y', hY', hgY', hkY', hloc, hval⟩ := acts_delete (fx := fx) (y := normN y) K hsd hsk hsop (k + 1) hp Y hh hgY hkb
    (by rw [hy]; rfl)
  -- the cell `delete` on `create`, the recursion, and the node is dropped
  have hndi : S.isDupInst st = false := htd.ndi
  have hSt : S.isTerm st = false := by have := hsd.typed; simpa [DNode.isTerm, DNode.sid] using this.symm
  have hsame : sameInst S (.inner st ft mt kt) (.inner st f ms ks) = true :=
    sameInst_of_matchP_inner hsd rfl hm
  let t1 : DNode := .inner st ft [("operation", bs "none")] (keysOf S kt ++ Tk)
  have hcell : mergeCell S o .delete (.inner st ft mt kt) .create (.inner st f ms ks) = .ok (t1, false) := by
    show (mergeDelete S _ .create _).map (·, false) = _
    rw [mergeDelete_create_inner' S st ft mt kt _ hchg hsame hndi hSt]
    · rfl
    · intro c hc
      obtain ⟨hcm, _, hpc, _⟩ := hkid c hc
      refine ⟨by simp [getMeta, plainN_metas hpc], ?_⟩
      show (findForApply S ks c).isSome = true
      cases hf : findForApply S ks c with
      | some i => rfl
      | none =>
        exfalso
        have h1 := look_none_iff_findIdx.mpr hf
        have h2 : (look S ks c).map normN = (look S kt c).map normN := by
          rw [← look_norm_congr hn, look_norm_congr hykt]
        rw [h1, look_self K (goodT_goodL hgkt) hcm] at h2
        cases h2
  have hown1 : ownOp t1 = some .none := ownOp_of_metas t1 .none rfl
  have hkids : (fun (c' s' : Option Op) (tk : List DNode) =>
      if (DNode.inner st f ms ks).isTerm then Except.ok tk else mergeKids S o c' s' true (DNode.inner st f ms ks).kids tk)
      (childInhOf t1 cur) (childInhOf (.inner st f ms ks) sin) t1.kids = .ok (keysOf S kt ++ []) := by
    simp only [DNode.isTerm, Bool.false_eq_true, ↓reduceIte, pj_kids_inner, hsin',
      childInh_of_own t1 .none cur hown1 (by decide)]
    exact hmk
  have hred : (isRedundant S cur (t1.setKids (keysOf S kt ++ []))).2 = true := by
    have hs : t1.setKids (keysOf S kt ++ []) = .inner st ft [("operation", bs "none")] (keysOf S kt ++ []) := rfl
    rw [hs]
    exact redundant_none_nokids S cur _ (effOp_own' (ownOp_of_metas _ .none rfl) cur) hSt
      (by simp [DNode.kids, noKeys_keysOf])
  have hpre' : ∀ a ∈ kp ++ pre, matchP S (.inner st f ms ks) a = false := by
    intro a ha
    rcases List.mem_append.mp ha with ha | ha
    · exact matchP_key_lt (hkp a ha).2
    · exact hpre a ha
  have hassoc : kp ++ (pre ++ DNode.inner st ft mt kt :: rest) =
      (kp ++ pre) ++ DNode.inner st ft mt kt :: rest := by simp
  have hstep := mergeStep_cancel S o cur sin (.inner st f ms ks) (.inner st ft mt kt) t1 (kp ++ pre) rest
    (keysOf S kt ++ []) .delete .create
    (fun c' s' tk => if (DNode.inner st f ms ks).isTerm then Except.ok tk
      else mergeKids S o c' s' true (DNode.inner st f ms ks).kids tk)
    hsop hcop hpre' hm hndi hndi hcell hkids hred
  rw [← mergeR_eq, ← hassoc] at hstep
  obtain ⟨hT2, hR2⟩ := tinv_drop K hT1 hR1 hgL hsd hm hloc (by rw [hval, hx0]; rfl) hgY'
  exact ⟨pre ++ rest, E, Y', by rw [hstep]; simp, hY', hgY', hkY', hloc, hT2, hR2,
    fun z hz => Or.inl (by rcases List.mem_append.mp hz with h | h <;> simp [h])⟩

/-! ### an inner node created by the first diff and changed inside by the second -/

theorem dupSingle_kids' {S : Schema} (s : Nat) (f : Flags) (m : List Meta) (ks : List DNode)
    (hk : ∀ k ∈ keysOf S ks, k.isTerm = true) : (dupSingle S (.inner s f m ks)).kids = mkCreatedL (keysOf S ks) := by
  simp only [dupSingle, DNode.kids]
  generalize keysOf S ks = kk at hk
  induction kk with
  | nil => rfl
  | cons k ks' ih =>
    have h1 := hk k (List.mem_cons_self ..)
    simp only [List.map_cons, mkCreatedL]
    rw [ih (fun x hx => hk x (List.mem_cons_of_mem _ hx))]
    cases k with
    | inner => simp [DNode.isTerm] at h1
    | term s' f' m' v' => rfl

/-- `create` of an inner node whose children act on the (created) keys: whatever the children are — plain copies, or what the
merge made of them -/
theorem acts_create_inner {S : Schema} (K : KeyOrderOn S P) {s : Nat} {f : Flags} {m : List Meta} {ks : List DNode}
    {inh : Option Op} {V : List DNode} (hd : Dom S P (.inner s f m ks)) (hk : S.isKey s = false)
    (hop : effOp (.inner s f m ks) inh = some .create) (hgk : goodT S P (keysOf S ks) = true)
    (hkids : ActsL S P fx (childInhOf (.inner s f m ks) inh) (noKeys S ks) (normL13 (keysOf S ks)) V) :
    Acts S P fx inh (.inner s f m ks) none (some (.inner s {} [] V)) := by
  intro n hp X hh hgX hkb hl
  have hl' := look_none_of_norm hl
  obtain ⟨k, rfl⟩ : ∃ k, n = k + 1 := ⟨n - 1, by have := height_pos13 (DNode.inner s f m ks); omega⟩
  have hks : heightL (noKeys S ks) ≤ k := Nat.le_trans (heightL_noKeys_le S ks) (height_inner_le hh)
  have hkt : ∀ kk ∈ keysOf S ks, kk.isTerm = true := by
    intro kk hkk
    have hdk := goodN_dom (goodL_mem (goodT_goodL hgk) hkk)
    rw [hdk.typed]; exact K.keyTerm (mem_keysOf_isKey hkk)
  have hX0 : (dupSingle S (.inner s f m ks)).kids = mkCreatedL (keysOf S ks) := dupSingle_kids' s f m ks hkt
  have hn0 : normL13 (mkCreatedL (keysOf S ks)) = normL13 (keysOf S ks) := normL_mkCreatedL _
  have hg0 : goodT S P (mkCreatedL (keysOf S ks)) = true := by rw [goodT_congr_norm K.pinv hn0]; exact hgk
  obtain ⟨K1, hK1, hgK1, hkK1, hnK1⟩ := hkids k true (mkCreatedL (keysOf S ks)) hks hg0 hn0
  let n0 : DNode := .inner s { dflt := f.dflt, new := true } [] K1
  have hkeys : normL13 (keysOf S K1) = normL13 (keysOf S ks) := by
    rw [hkK1, ← keysOf_normL, hn0, keysOf_normL, keysOf_keysOf]
  have hn0d : Dom S P n0 := by
    refine ⟨hd.nuo, hd.ndi, hd.typed, ?_⟩
    rw [K.pinv.pcongr (x := n0) (y := .inner s f m ks) rfl rfl (by
      show keyPairs (keysOf S K1) = keyPairs (keysOf S ks)
      rw [← keyPairs_normL, hkeys, keyPairs_normL])]
    exact hd.sat
  have hgn0 : goodN S P n0 = true := goodN_iff.mpr ⟨hn0d, hgK1⟩
  have hcn : ∀ x, matchP S n0 x = matchP S (.inner s f m ks) x := fun x =>
    matchP_of_same_keys (d := .inner s f m ks) (d' := n0) hd.ndi rfl rfl hkeys x
  have hcn' : matchP S (.inner s f m ks) n0 = true := by
    rw [matchP_symm K hd hn0d, hcn]; exact matchP_refl K hd
  obtain ⟨h1, hkk, h2, h3⟩ := fwd_insert K hgX hd hk hkb hl' hgn0 rfl hcn hcn'
  refine ⟨insertNode S X n0, ?_, h1, hkk, h2, ?_⟩
  · rw [applyNode_succ_nuo hd.nuo, hop]
    simp only [hX0, kids_inner, hK1, Except.bind]
    rfl
  · rw [h3]
    simp [n0, normN, hnK1]

/-- an inner node CREATED by the first diff (with its subtree) meets a node with operation `none` of the second diff — the created
instance is changed inside: the children of the source node are merged into the copies of the created subtree, which inherit
`create` (induction hypothesis `IH`); the node stays a `create` of the changed subtree -/
theorem merge_matched_inner_cn {S : Schema} (K : KeyOrderOn S P) {o : MergeOpts} {n : Nat} {hp : Bool} {cur sin : Option Op}
    {s : Nat} {f : Flags} {ms : List Meta} {ks : List DNode} {t : DNode}
    {kp pre rest L Y : List DNode} {E : DNode → Option DNode} (IH : ListMergeSpec S P fx o ks)
    (hh : (DNode.inner s f ms ks).height ≤ n) (hgL : goodT S P L = true) (hgY : goodT S P Y = true)
    (hkp : ∀ k ∈ kp, S.isKey k.sid = true ∧ k.sid < s)
    (hT : TInv S P fx cur (pre ++ t :: rest) L E) (hR : Rel S P (pre ++ t :: rest) L E Y)
    (hpre : ∀ a ∈ pre, matchP S (.inner s f ms ks) a = false) (hm : matchP S (.inner s f ms ks) t = true)
    (hO : Orig S P cur L t) (hsafe : safeP S cur sin t (.inner s f ms ks) = true)
    (hcop : effOp t cur = some .create) (hsop : effOp (.inner s f ms ks) sin = some .none)
    (hsex : exactE S P sin (look S Y (.inner s f ms ks)) (.inner s f ms ks) = true) (hls : litN (.inner s f ms ks) = true)
    (hkb : KeysBelow S (.inner s f ms ks) Y) :
    MergeConcl S P fx o n hp cur sin (.inner s f ms ks) kp (pre ++ t :: rest) L Y := by
  obtain ⟨htex, hlt, hown⟩ := hO
  obtain ⟨hsd, _, hsk⟩ := exactE_base hsex
  obtain ⟨htd, htm, htk⟩ := exactE_base htex
  simp only [safeP, Bool.and_eq_true, Bool.not_eq_eq_eq_not, Bool.not_true] at hsafe
  obtain ⟨⟨⟨⟨htnt, _⟩, hkc⟩, hkord⟩, hsafeK⟩ := hsafe
  cases t with
  | term => simp [DNode.isTerm] at htnt
  | inner st ft mt kt =>
  have hss : st = s := matchP_sid hm
  subst hss
  have hmt : mt = [("operation", bs "create")] ∨ (mt = [] ∧ cur = some .create) := by
    rcases hown with hown | ⟨h1, h2⟩
    · left
      have hot : ownOp (DNode.inner st ft mt kt) = some .create := hown .create hcop (Or.inr (by decide))
      simp only [litN, Bool.and_eq_true, litInner, Bool.or_eq_true, beq_iff_eq] at hlt
      rcases hlt.1 with ((h | h) | h) | h
      · subst h; simp [ownOp, getMeta, DNode.metas] at hot
      · subst h; simp [ownOp, getMeta, DNode.metas, ofBytes_none] at hot
      · exact h
      · subst h; simp [ownOp, getMeta, DNode.metas, ofBytes_delete] at hot
    · exact Or.inr ⟨h1, h2⟩
  have hcur' : childInhOf (.inner st ft mt kt) cur = some .create := by
    rcases hmt with rfl | ⟨rfl, rfl⟩
    · exact childInh_of_own _ .create cur (ownOp_of_metas _ .create rfl) (by decide)
    · simp [childInhOf, ownOp, getMeta, DNode.metas]
  have hsin' : childInhOf (.inner st f ms ks) sin = some .none := childInh_none hsop
  obtain ⟨hx0, hplt, hgkt⟩ := exactE_create htex hcop
  obtain ⟨y, hy, hnes, hexks⟩ := exactE_none_inner hsex hsop
  rw [hsin'] at hexks
  simp only [DNode.kids] at hplt hgkt
  obtain ⟨hgy, hys⟩ := good_look hgY y hy
  have hgyk := goodN_kidsT hgy
  have hyt : y.isTerm = false := by rw [(goodN_dom hgy).typed, hys, ← hsd.typed]; rfl
  have hmem : DNode.inner st ft mt kt ∈ pre ++ DNode.inner st ft mt kt :: rest := by simp
  have hperm : (pre ++ DNode.inner st ft mt kt :: rest).Perm (DNode.inner st ft mt kt :: (pre ++ rest)) := List.perm_middle
  have hT1 := hT.perm hperm
  have hR1 := hR.perm hperm
  rw [hcur', hsin'] at hsafeK
  simp only [DNode.kids] at hsafeK hkord
  have hEt : E (.inner st ft mt kt) = some (normN (.inner st ft mt kt)) :=
    Acts.det (hT.acts _ hmem) (by rw [hx0]; exact acts_create K (by rw [← hx0]; exact htex) hcop) hgL (hT.kb _ hmem) rfl
  have hlY : look S Y (.inner st f ms ks) = look S Y (.inner st ft mt kt) := look_congr K (goodT_goodL hgY) hsd htd hm
  have hykt : normL13 y.kids = normL13 kt := by
    have h1 := hR.on _ hmem
    rw [← hlY, hy, hEt] at h1
    simp only [Option.map_some, Option.some.injEq, normN_inner_form hyt, normN, DNode.inner.injEq] at h1
    exact h1.2.2.2
  -- the children of the created subtree (their `create` inherited) on the keys of the instance
  let L' : List DNode := keysOf S y.kids
  have hgL' : goodT S P L' = true := goodT_keysOf K hgyk
  have hleadt : keysLead S kt = true := goodT_lead hgkt
  have hkid : ∀ c ∈ noKeys S kt, c ∈ kt ∧ goodN S P c = true ∧ plainN c = true ∧ S.isKey c.sid = false := by
    intro c hc
    have hcm : c ∈ kt := (noKeys_sublist S kt).subset hc
    exact ⟨hcm, goodL_mem (goodT_goodL hgkt) hcm, plainL_mem hplt hcm, mem_noKeys_notKey hleadt hc⟩
  have hdkt : dk S true kt = noKeys S kt := by simp [dk]
  have hlookL' : ∀ c ∈ noKeys S kt, look S L' c = none := fun c hc => look_keys_none (hkid c hc).2.2.2
  have hexTk : exactK S P (some .create) L' true kt = true := by
    apply exactK_intro true
    · rw [hdkt]
      intro c hc
      obtain ⟨_, hgc, hpc, hck⟩ := hkid c hc
      refine ⟨by rw [hlookL' c hc]; exact exactE_plain_create hgc hpc hck, ?_⟩
      intro k hk
      rw [keysOf_keysOf] at hk
      have h1 : KeysBelow S c kt := fun k' hk' => good_keys_lt K hgkt k' hk' c hc
      exact keysBelow_congr hykt h1 k hk
    · rw [hdkt]
      exact ((good_pairwise K (goodT_goodL hgkt)).sublist (noKeys_sublist S kt)).imp (fun h => h.1)
  obtain ⟨Ek, _, hTk, _, _⟩ := kids_inv (fx := fx) K hgL' hexTk
  have hEk : ∀ c ∈ noKeys S kt, Ek c = some (normN c) := by
    intro c hc
    obtain ⟨_, hgc, hpc, hck⟩ := hkid c hc
    have h1 := hTk.acts _ hc
    rw [hlookL' c hc] at h1
    have h2 := acts_create (fx := fx) K (exactE_plain_create hgc hpc hck) (by simp [effOp, plainN_ownOp hpc])
    exact Acts.det h1 h2 hgL' (hTk.kb _ hc) (by rw [hlookL' c hc])
  have hRk : Rel S P (noKeys S kt) L' Ek y.kids := by
    refine ⟨?_, ?_⟩
    · intro c hc
      rw [hEk c hc, look_norm_congr hykt, look_self K (goodT_goodL hgkt) (hkid c hc).1]
      rfl
    · intro q hq hall
      cases hqk : S.isKey q.sid
      · rw [look_nonkey_none K hgkt hykt hq hqk hall, look_keys_none hqk]
      · rw [look_key_front (goodT_lead hgyk) hqk]
  have hkYk : ∀ c, KeysBelow S c y.kids → KeysBelow S c L' := by
    intro c h k hk
    rw [keysOf_keysOf] at hk
    exact h k hk
  -- the induction hypothesis
  obtain ⟨k, rfl⟩ : ∃ k, n = k + 1 := ⟨n - 1, by have := height_pos13 (DNode.inner st f ms ks); omega⟩
  have hks : heightL ks ≤ k := height_inner_le hh
  have hdk : dk S true ks = noKeys S ks := by simp [dk]
  obtain ⟨Mk, Ek', Yk', hmk, hYk', hgYk', _, hTk', hRk'⟩ := IH k true (some .create) (some .none) true (keysOf S kt) (noKeys S kt)
    L' y.kids Ek (Or.inl (Or.inr rfl)) hks hgL' hgyk hkYk
    (by
      intro kk hkk
      refine ⟨keysOf_all_key S kt kk hkk, ?_⟩
      intro c hc
      rw [hdk] at hc
      have := List.all_eq_true.mp (List.all_eq_true.mp hkord kk hkk) c hc
      simpa using this)
    hTk hRk
    (by
      intro c hc tk htk hmc
      rw [hdk] at hc
      obtain ⟨_, hgc, hpc, hck⟩ := hkid tk htk
      exact ⟨⟨by rw [hlookL' tk htk]; exact exactE_plain_create hgc hpc hck, litN_of_plain tk hpc,
        Or.inr ⟨plainN_metas hpc, rfl⟩⟩, safeK_mem hsafeK c ((noKeys_sublist S ks).subset hc) tk htk hmc⟩)
    hexks (by simp only [litN, Bool.and_eq_true] at hls; exact hls.2)
  rw [keysOf_append_noKeys] at hmk
  rw [hdk] at hYk'
  -- the source node on `Y`
  obtain ⟨V2, hV2⟩ := listFwd (fx := fx) K ks (some .none) y.kids true hgyk hexks
  rw [hdk] at hV2
  have hV2' : normL13 Yk' = V2 := by
    obtain ⟨X1, h1, _, _, h4⟩ := hV2 k true y.kids (Nat.le_trans (heightL_noKeys_le S ks) hks) hgyk rfl
    rw [hYk'] at h1
    cases h1
    exact h4
  have hacts : Acts S P fx sin (.inner st f ms ks) (some (normN y)) (some (.inner st {} [] V2)) :=
    acts_none_inner (y := normN y) K hsd hsk hsop hnes (by rw [hsin']; simpa using hV2)
  obtain ⟨Y', hY', hgY', hkY', hloc, hval⟩ := hacts (k + 1) hp Y hh hgY hkb (by rw [hy]; rfl)
  -- the merge step: the node stays a `create`, with the merged children
  have hMk : ∀ m ∈ Mk, S.isKey m.sid = false := hTk'.lvl.nokey
  obtain ⟨hko, hno⟩ := split_keys (S := S) (keysOf_all_key S kt) hMk
  have hSt : S.isTerm st = false := by have := hsd.typed; simpa [DNode.isTerm, DNode.sid] using this.symm
  have hndi : S.isDupInst st = false := htd.ndi
  have hnuo : S.isUserOrd st = false := htd.nuo
  have hcell : mergeCell S o .none (.inner st ft mt kt) .create (.inner st f ms ks) = .ok (.inner st ft mt kt, false) := by
    simp [mergeCell, mergeNone, Except.map, DNode.sid, hSt]
  have hkids : (fun (c' s' : Option Op) (tk : List DNode) =>
      if (DNode.inner st f ms ks).isTerm then Except.ok tk else mergeKids S o c' s' true (DNode.inner st f ms ks).kids tk)
      (childInhOf (.inner st ft mt kt) cur) (childInhOf (.inner st f ms ks) sin) (DNode.inner st ft mt kt).kids =
        .ok (keysOf S kt ++ Mk) := by
    simp only [DNode.isTerm, Bool.false_eq_true, ↓reduceIte, DNode.kids, hcur', hsin']
    exact hmk
  let t' : DNode := .inner st ft mt (keysOf S kt ++ Mk)
  have hsetk : (DNode.inner st ft mt kt).setKids (keysOf S kt ++ Mk) = t' := rfl
  have hopt' : effOp t' cur = some .create :=
    (effOp_congr_metas (d := .inner st ft mt kt) (d' := t') rfl).trans hcop
  have hredf : isRedundant S cur t' = (t', false) := redundant_false_of_op S cur t' .create hopt' (by decide) hnuo
  have hpre' : ∀ a ∈ kp ++ pre, matchP S (.inner st f ms ks) a = false := by
    intro a ha
    rcases List.mem_append.mp ha with ha | ha
    · exact matchP_key_lt (hkp a ha).2
    · exact hpre a ha
  have hassoc : kp ++ (pre ++ DNode.inner st ft mt kt :: rest) = (kp ++ pre) ++ DNode.inner st ft mt kt :: rest := by simp
  have hstep := mergeStep_keep S o cur sin (.inner st f ms ks) (.inner st ft mt kt) (.inner st ft mt kt) (kp ++ pre) rest
    (keysOf S kt ++ Mk) .none .create
    (fun c' s' tk => if (DNode.inner st f ms ks).isTerm then Except.ok tk
      else mergeKids S o c' s' true (DNode.inner st f ms ks).kids tk)
    hsop hcop hpre' hm hndi hndi hcell hkids (by rw [hsetk, hredf])
  rw [← mergeR_eq, ← hassoc, hsetk, hredf] at hstep
  have hmd : Dom S P t' := by
    refine ⟨hnuo, hndi, by have := htd.typed; simpa [t', DNode.isTerm, DNode.sid] using this, ?_⟩
    rw [K.pinv.pcongr (x := t') (y := .inner st ft mt kt) rfl rfl (by simp only [t', DNode.kids, hko])]
    exact htd.sat
  have hmm : ∀ z, matchP S t' z = matchP S (.inner st ft mt kt) z := fun z =>
    matchP_of_same_keys (d := .inner st ft mt kt) (d' := t') hndi rfl rfl (by simp only [t', DNode.kids, hko]) z
  obtain ⟨V', hA', hU'⟩ := hTk'.actsL K hgL'
  have hVV : normL13 Yk' = V' := hU' Yk' hgYk' hRk'
  have hLk : normL13 L' = normL13 (keysOf S kt) := by
    show normL13 (keysOf S y.kids) = _
    rw [← keysOf_normL, hykt, keysOf_normL]
  have hactm : Acts S P fx cur t' ((look S L (.inner st ft mt kt)).map normN) (some (.inner st {} [] V')) := by
    rw [hx0]
    apply acts_create_inner K hmd htk hopt'
    · rw [hko]; exact goodT_keysOf K hgkt
    · rw [hko, hno, childInh_congr_metas (d := .inner st ft mt kt) (d' := t') rfl, hcur', ← hLk]
      exact hA'
  obtain ⟨hT2, hR2⟩ := tinv_set K hT1 hR1 hmd htk hmm rfl hactm hsd hm hloc (by rw [hval, ← hV2', hVV]) hgY'
  have hperm2 : (t' :: (pre ++ rest)).Perm (pre ++ t' :: rest) := List.perm_middle.symm
  refine ⟨pre ++ t' :: rest, _, Y', by rw [hstep]; simp, hY', hgY', hkY', hloc, hT2.perm hperm2, hR2.perm hperm2, ?_⟩
  intro z hz
  rcases List.mem_append.mp hz with h | h
  · exact Or.inl (by simp [h])
  · rcases List.mem_cons.mp h with rfl | h
    · exact Or.inr (matchP_src_of_left K hsd htd hmd hmm hm)
    · exact Or.inl (by simp [h])

/-! ### an inner node deleted by the first diff and created again by the second -/

theorem look_allkeys_none {S : Schema} {l : List DNode} {q : DNode} (hl : ∀ k ∈ l, S.isKey k.sid = true)
    (hq : S.isKey q.sid = false) : look S l q = none := by
  rw [look, List.find?_eq_none]
  intro k hk
  have hkk := hl k hk
  have : (k.sid == q.sid) = false := by
    rw [beq_eq_false_iff_ne]; intro h; rw [h, hq] at hkk; cases hkk
  simp [matchP, this]

theorem keysBelow_congr_keys {S : Schema} {c : DNode} {L X : List DNode} (h : normL13 (keysOf S X) = normL13 (keysOf S L))
    (hk : KeysBelow S c L) : KeysBelow S c X := by
  intro k hkm
  have h2 : normN k ∈ normL13 (keysOf S X) := by rw [normL_eq_map13]; exact List.mem_map_of_mem hkm
  rw [h, normL_eq_map13] at h2
  obtain ⟨k', hk', hkk⟩ := List.mem_map.mp h2
  have := hk k' hk'
  have hs : k'.sid = k.sid := by
    have := congrArg DNode.sid hkk
    simpa using this
  omega

/-- the copy of a plain good subtree with `delete` made explicit is exact for an instance with its observation -/
theorem exactE_deleted {S : Schema} (K : KeyOrderOn S P) {c xc : DNode} (inh : Option Op) (hg : goodN S P c = true)
    (hp : plainN c = true) (hk : S.isKey c.sid = false) (hn : normN xc = normN c) :
    exactE S P inh (some xc) (changeOp c .delete) = true := by
  have hd : domB S P (changeOp c .delete) = true := domB_iff.mpr (dom_changeOp K (goodN_dom hg) .delete)
  have hm : metaOKB (changeOp c .delete) = true := by
    rw [changeOp_of_plain hp]; cases c <;> simp [metaOKB, DNode.setMetas, DNode.metas]
  have ho : effOp (changeOp c .delete) inh = some .delete := by
    rw [changeOp_of_plain hp]
    exact effOp_own' (ownOp_of_metas _ .delete (by cases c <;> rfl)) inh
  have hdq : dataEq true xc (changeOp c .delete) = true := by
    rw [dataEq_iff_norm, hn, normN_changeOp]
  rw [changeOp_of_plain hp] at hd hm ho hdq ⊢
  cases c with
  | term s f m v =>
    simp only [DNode.setMetas] at hd hm ho hdq ⊢
    simp only [exactE, hd, hm, ho, hdq, Bool.and_eq_true, Bool.true_and, Bool.and_true]
    simpa [DNode.sid] using hk
  | inner s f m ks =>
    simp only [DNode.setMetas] at hd hm ho hdq ⊢
    have hgk : goodT S P ks = true := goodN_kidsT hg
    have hpk : plainL ks = true := by simpa [DNode.kids] using plainN_kids hp
    simp only [exactE, hd, hm, ho, hdq, hgk, hpk, Bool.and_eq_true, Bool.true_and, Bool.and_true]
    simpa [DNode.sid] using hk

/-- an inner node DELETED by the first diff meets a `create` of the instance by the second ("delete-then-recreate", with the same
or other descendants): the target node becomes `none`, its children `delete`, the children of the created subtree are merged
into them (induction hypothesis `IH`); the node is dropped if nothing is left -/
theorem merge_matched_inner_dc {S : Schema} (K : KeyOrderOn S P) {o : MergeOpts} {n : Nat} {hp : Bool} {cur sin : Option Op}
    {s : Nat} {f : Flags} {ms : List Meta} {ks : List DNode} {t : DNode}
    {kp pre rest L Y : List DNode} {E : DNode → Option DNode} (IH : ListMergeSpec S P fx o ks)
    (hh : (DNode.inner s f ms ks).height ≤ n) (hgL : goodT S P L = true) (hgY : goodT S P Y = true)
    (hkp : ∀ k ∈ kp, S.isKey k.sid = true ∧ k.sid < s)
    (hT : TInv S P fx cur (pre ++ t :: rest) L E) (hR : Rel S P (pre ++ t :: rest) L E Y)
    (hpre : ∀ a ∈ pre, matchP S (.inner s f ms ks) a = false) (hm : matchP S (.inner s f ms ks) t = true)
    (hO : Orig S P cur L t) (hsafe : safeP S cur sin t (.inner s f ms ks) = true)
    (hcop : effOp t cur = some .delete) (hsop : effOp (.inner s f ms ks) sin = some .create)
    (hsex : exactE S P sin (look S Y (.inner s f ms ks)) (.inner s f ms ks) = true)
    (hkb : KeysBelow S (.inner s f ms ks) Y) :
    MergeConcl S P fx o n hp cur sin (.inner s f ms ks) kp (pre ++ t :: rest) L Y := by
  obtain ⟨htex, hlt, hown⟩ := hO
  obtain ⟨hsd, _, hsk⟩ := exactE_base hsex
  obtain ⟨htd, htm, htk⟩ := exactE_base htex
  simp only [safeP, Bool.and_eq_true, Bool.not_eq_eq_eq_not, Bool.not_true] at hsafe
  obtain ⟨⟨⟨⟨htnt, _⟩, hkc⟩, hkord⟩, hsafeK⟩ := hsafe
  cases t with
  | term => simp [DNode.isTerm] at htnt
  | inner st ft mt kt =>
  have hss : st = s := matchP_sid hm
  subst hss
  have hot : ownOp (DNode.inner st ft mt kt) = some .delete := by
    rcases hown with hown | ⟨h1, h2⟩
    · exact hown .delete hcop (Or.inr (by decide))
    · subst h2
      simp only [DNode.metas] at h1
      subst h1
      simp [effOp, ownOp, getMeta, DNode.metas] at hcop
  have hmt : mt = [("operation", bs "delete")] := by
    simp only [litN, Bool.and_eq_true, litInner, Bool.or_eq_true, beq_iff_eq] at hlt
    rcases hlt.1 with ((h | h) | h) | h
    · subst h; simp [ownOp, getMeta, DNode.metas] at hot
    · subst h; simp [ownOp, getMeta, DNode.metas, ofBytes_none] at hot
    · subst h; simp [ownOp, getMeta, DNode.metas, ofBytes_create] at hot
    · exact h
  subst hmt
  have hkeys : normL13 (keysOf S kt) = normL13 (keysOf S ks) := by
    simp only [hcop, beq_self_eq_true, Bool.not_true, Bool.false_or, DNode.kids] at hkc
    exact (dataEqL_iff_norm _ _).mp hkc
  obtain ⟨x, hx, hdqx, hplt, hgkt⟩ := exactE_delete htex hcop
  obtain ⟨hy0, hpl, hgks⟩ := exactE_create hsex hsop
  simp only [DNode.kids] at hplt hgkt hpl hgks
  obtain ⟨hgx, hxs⟩ := good_look hgL x hx
  have hgxk := goodN_kidsT hgx
  have hxt : x.isTerm = false := by rw [(goodN_dom hgx).typed, hxs, ← htd.typed]; rfl
  have hmem : DNode.inner st ft [("operation", bs "delete")] kt ∈ pre ++ DNode.inner st ft [("operation", bs "delete")] kt :: rest := by
    simp
  have hperm : (pre ++ DNode.inner st ft [("operation", bs "delete")] kt :: rest).Perm
      (DNode.inner st ft [("operation", bs "delete")] kt :: (pre ++ rest)) := List.perm_middle
  have hT1 := hT.perm hperm
  have hR1 := hR.perm hperm
  have hcur' : childInhOf (.inner st ft [("operation", bs "delete")] kt) cur = some .delete :=
    childInh_of_own _ .delete cur hot (by decide)
  have hsin' : childInhOf (.inner st f ms ks) sin = some .create := by
    unfold childInhOf
    cases ho : ownOp (DNode.inner st f ms ks) with
    | none => simpa [effOp, ho] using hsop
    | some o =>
      have : o = .create := by simpa [effOp, ho] using hsop
      subst this; rfl
  rw [hcur', hsin'] at hsafeK
  simp only [DNode.kids] at hsafeK hkord
  have hxkt : normL13 x.kids = normL13 kt := by
    have h1 := (dataEq_iff_norm x (.inner st ft [("operation", bs "delete")] kt)).mp hdqx
    rw [normN_inner_form hxt] at h1
    simp only [normN, DNode.inner.injEq] at h1
    exact h1.2.2.2
  -- the children of the deleted subtree, `delete` made explicit, on the children of the instance
  let Tk : List DNode := (noKeys S kt).map fun c => changeOp c .delete
  have hleadt : keysLead S kt = true := goodT_lead hgkt
  have hkid : ∀ c ∈ noKeys S kt, c ∈ kt ∧ goodN S P c = true ∧ plainN c = true ∧ S.isKey c.sid = false := by
    intro c hc
    have hcm : c ∈ kt := (noKeys_sublist S kt).subset hc
    exact ⟨hcm, goodL_mem (goodT_goodL hgkt) hcm, plainL_mem hplt hcm, mem_noKeys_notKey hleadt hc⟩
  obtain ⟨hko, hno⟩ := split_keys (S := S) (kp := keysOf S kt) (M := Tk) (keysOf_all_key S kt)
    (by
      intro m hm
      obtain ⟨c, hc, rfl⟩ := List.mem_map.mp hm
      simpa using (hkid c hc).2.2.2)
  have hdkT : dk S true (keysOf S kt ++ Tk) = Tk := by simp only [dk, ↓reduceIte, hno]
  have hlookx : ∀ c ∈ noKeys S kt, ∃ xc, look S x.kids (changeOp c .delete) = some xc ∧ normN xc = normN c := by
    intro c hc
    have h1 : (look S x.kids c).map normN = some (normN c) := by
      rw [look_norm_congr hxkt, look_self K (goodT_goodL hgkt) (hkid c hc).1]; rfl
    obtain ⟨xc, h2, h3⟩ := look_some_of_norm h1
    exact ⟨xc, by rw [look_congr_fun (fun z => matchP_changeOp S c z .delete)]; exact h2, h3⟩
  have hexTk : exactK S P (some .none) x.kids true (keysOf S kt ++ Tk) = true := by
    apply exactK_intro true
    · rw [hdkT]
      intro tk htk
      obtain ⟨c, hc, rfl⟩ := List.mem_map.mp htk
      obtain ⟨_, hgc, hpc, hck⟩ := hkid c hc
      obtain ⟨xc, hxc, hxn⟩ := hlookx c hc
      refine ⟨by rw [hxc]; exact exactE_deleted K _ hgc hpc hck hxn, ?_⟩
      have h1 : KeysBelow S c kt := fun k' hk' => good_keys_lt K hgkt k' hk' c hc
      have := keysBelow_congr hxkt h1
      intro k hk
      simpa using this k hk
    · rw [hdkT, List.pairwise_map]
      refine (List.Pairwise.and_mem.mp ((good_pairwise K (goodT_goodL hgkt)).sublist (noKeys_sublist S kt))).imp ?_
      rintro a b ⟨ha, _, hab, _⟩
      rw [matchP_changeOp_both (goodN_dom (goodL_mem (goodT_goodL hgkt) ((noKeys_sublist S kt).subset ha))).ndi]
      exact hab
  obtain ⟨Ek, _, hTk, _, _⟩ := kids_inv (fx := fx) K hgxk hexTk
  rw [hno] at hTk
  have hEk : ∀ c ∈ noKeys S kt, Ek (changeOp c .delete) = none := by
    intro c hc
    obtain ⟨_, hgc, hpc, hck⟩ := hkid c hc
    obtain ⟨xc, hxc, hxn⟩ := hlookx c hc
    have htkm : changeOp c .delete ∈ Tk := List.mem_map_of_mem hc
    have h1 := hTk.acts _ htkm
    rw [hxc] at h1
    have h2 := acts_delete (fx := fx) (inh := some .none) (y := normN xc) K (dom_changeOp K (goodN_dom hgc) .delete)
      (by simpa using hck) (effOp_changeOp (by simp [MetaOK, plainN_metas hpc]) .delete)
    exact Acts.det h1 h2 hgxk (hTk.kb _ htkm) (by rw [hxc])
  -- what is there after the first diff: nothing; the children of the created subtree start from its (created) keys
  let Yk : List DNode := mkCreatedL (keysOf S ks)
  have hnYk : normL13 Yk = normL13 (keysOf S ks) := normL_mkCreatedL _
  have hgYk : goodT S P Yk = true := by rw [goodT_congr_norm K.pinv hnYk]; exact goodT_keysOf K hgks
  have hYkeys : ∀ k ∈ Yk, S.isKey k.sid = true := by
    intro k hk
    obtain ⟨k0, hk0, rfl⟩ := mem_mkCreatedL hk
    have := mem_keysOf_isKey hk0
    cases k0 <;> simpa [mkCreated, DNode.sid] using this
  have hkYkk : keysOf S Yk = Yk := by
    unfold keysOf
    generalize Yk = l at hYkeys
    induction l with
    | nil => rfl
    | cons a as ih =>
      simp only [List.takeWhile_cons, hYkeys a (List.mem_cons_self ..), ↓reduceIte]
      rw [ih (fun z hz => hYkeys z (List.mem_cons_of_mem _ hz))]
  have hkx : normL13 (keysOf S x.kids) = normL13 (keysOf S ks) := by
    rw [← keysOf_normL, hxkt, keysOf_normL, hkeys]
  have hRk : Rel S P Tk x.kids Ek Yk := by
    refine ⟨?_, ?_⟩
    · intro tk htk
      obtain ⟨c, hc, rfl⟩ := List.mem_map.mp htk
      rw [hEk c hc, look_allkeys_none hYkeys (by simpa using (hkid c hc).2.2.2)]
      rfl
    · intro q hq hall
      cases hqk : S.isKey q.sid
      · have hall' : ∀ b ∈ noKeys S kt, matchP S b q = false := fun b hb => by
          rw [← matchP_changeOp S b q .delete]; exact hall _ (List.mem_map_of_mem hb)
        rw [look_nonkey_none K hgkt hxkt hq hqk hall', look_allkeys_none hYkeys hqk]
      · rw [look_key_front (goodT_lead hgxk) hqk]
        have h1 : normL13 Yk = normL13 (keysOf S x.kids) := by rw [hnYk, hkx]
        exact look_norm_congr h1 q
  have hkYk : ∀ c, KeysBelow S c Yk → KeysBelow S c x.kids := by
    intro c h
    apply keysBelow_congr_keys (L := Yk) ?_ h
    rw [hkYkk, hnYk, hkx]
  have hkidS : ∀ c ∈ noKeys S ks, c ∈ ks ∧ goodN S P c = true ∧ plainN c = true ∧ S.isKey c.sid = false := by
    intro c hc
    have hcm : c ∈ ks := (noKeys_sublist S ks).subset hc
    exact ⟨hcm, goodL_mem (goodT_goodL hgks) hcm, plainL_mem hpl hcm, mem_noKeys_notKey (goodT_lead hgks) hc⟩
  have hdk : dk S true ks = noKeys S ks := by simp [dk]
  have hexks : exactK S P (some .create) Yk true ks = true := by
    apply exactK_intro true
    · rw [hdk]
      intro c hc
      obtain ⟨_, hgc, hpc, hck⟩ := hkidS c hc
      refine ⟨by rw [look_allkeys_none hYkeys hck]; exact exactE_plain_create hgc hpc hck, ?_⟩
      have h1 : KeysBelow S c ks := fun k' hk' => good_keys_lt K hgks k' hk' c hc
      apply keysBelow_congr_keys (L := ks) ?_ h1
      rw [hkYkk, hnYk]
    · rw [hdk]
      exact ((good_pairwise K (goodT_goodL hgks)).sublist (noKeys_sublist S ks)).imp (fun h => h.1)
  -- the induction hypothesis
  obtain ⟨k, rfl⟩ : ∃ k, n = k + 1 := ⟨n - 1, by have := height_pos13 (DNode.inner st f ms ks); omega⟩
  have hks : heightL ks ≤ k := height_inner_le hh
  obtain ⟨Mk, Ek', Yk', hmk, hYk', hgYk', _, hTk', hRk'⟩ := IH k true (some .none) (some .create) true (keysOf S kt) Tk x.kids Yk Ek
    (Or.inr (Or.inr rfl)) hks hgxk hgYk hkYk
    (by
      intro kk hkk
      refine ⟨keysOf_all_key S kt kk hkk, ?_⟩
      intro c hc
      rw [hdk] at hc
      have := List.all_eq_true.mp (List.all_eq_true.mp hkord kk hkk) c hc
      simpa using this)
    hTk hRk
    (by
      intro c hc tk htk hmc
      rw [hdk] at hc
      obtain ⟨c0, hc0, rfl⟩ := List.mem_map.mp htk
      obtain ⟨_, hgc, hpc, hck⟩ := hkid c0 hc0
      obtain ⟨xc, hxc, hxn⟩ := hlookx c0 hc0
      have hcd : Dom S P c := (exactE_base (exactK_mem true ks hexks c (by rw [hdk]; exact hc)).1).1
      have hmok : MetaOK c0 := by simp [MetaOK, plainN_metas hpc]
      have hown0 : ownOp (changeOp c0 .delete) = some .delete := ownOp_changeOp hmok .delete
      refine ⟨⟨by rw [hxc]; exact exactE_deleted K _ hgc hpc hck hxn, ?_, ?_⟩, ?_⟩
      · rw [changeOp_of_plain hpc]
        cases c0 with
        | term s' f' m' v' => simp [DNode.setMetas, litN, litMeta, Op.str]
        | inner s' f' m' k' =>
          have hpk : plainL k' = true := by simpa [DNode.kids] using plainN_kids hpc
          simp [DNode.setMetas, litN, litInner, Op.str, litL_of_plain k' hpk]
      · refine Or.inl ?_
        intro op hop _
        rw [effOp_own' hown0] at hop
        rw [hown0, Option.some.inj hop]
      · rw [safeP_congr (t := c0) (cur1 := some .delete) (by simp) ?_ ?_ (by simp)]
        · exact safeK_mem hsafeK c ((noKeys_sublist S ks).subset hc) c0 hc0
            (by rw [← matchP_of_same_data_right (x' := changeOp c0 .delete) (x := c0) hcd.ndi (by simp) (by simp) (by simp)]; exact hmc)
        · rw [effOp_own' hown0]; simp [effOp, plainN_ownOp hpc]
        · intro _
          rw [childInh_of_own _ .delete _ hown0 (by decide)]
          simp [childInhOf, plainN_ownOp hpc])
    hexks (litL_of_plain ks hpl)
  rw [hdk] at hYk'
  -- what the created children make of the keys: the created subtree
  have hYk'n : normL13 Yk' = normL13 ks := by
    have h1 := applyF_create (fx := fx) K (n := k) (hp := true) (fun c L h1 h2 h3 => apply_create_plain (fx := fx) K k true c L h1 h2 h3)
      (noKeys S ks) (keysOf S ks) (by rw [keysOf_append_noKeys]; exact goodT_goodL hgks)
      (plainL_of_sub hpl (fun z hz => (noKeys_sublist S ks).subset hz)) (Nat.le_trans (heightL_noKeys_le S ks) hks)
    rw [hYk'] at h1
    cases h1
    rw [keysOf_append_noKeys, normL_mkCreatedL]
  -- the source node on `Y`: the instance is created
  have hsex0 : exactE S P sin none (.inner st f ms ks) = true := by rw [← hy0]; exact hsex
  obtain ⟨Y', hY', hgY', hkY', hloc, hval⟩ := acts_create (fx := fx) K hsex0 hsop (k + 1) hp Y hh hgY hkb (by rw [hy0]; rfl)
  -- the cell `create` on `delete`
  have hndi : S.isDupInst st = false := htd.ndi
  have hnuo : S.isUserOrd st = false := htd.nuo
  have hSt : S.isTerm st = false := by have := hsd.typed; simpa [DNode.isTerm, DNode.sid] using this.symm
  have hsame : sameInst S (.inner st ft [("operation", bs "delete")] kt) (.inner st f ms ks) = true :=
    sameInst_of_matchP_inner hsd rfl hm
  let t1 : DNode := .inner st ft [("operation", bs "none")] (keysOf S kt ++ Tk)
  have hcell : mergeCell S o .create (.inner st ft [("operation", bs "delete")] kt) .delete (.inner st f ms ks) = .ok (t1, false) := by
    show mergeCreate S o _ .delete _ = _
    exact mergeCreate_delete_inner S o st ft kt _ hsame hnuo hSt
  have hown1 : ownOp t1 = some .none := ownOp_of_metas t1 .none rfl
  have hMk : ∀ m ∈ Mk, S.isKey m.sid = false := hTk'.lvl.nokey
  obtain ⟨hko2, hno2⟩ := split_keys (S := S) (keysOf_all_key S kt) hMk
  have hkids : (fun (c' s' : Option Op) (tk : List DNode) =>
      if (DNode.inner st f ms ks).isTerm then Except.ok tk else mergeKids S o c' s' true (DNode.inner st f ms ks).kids tk)
      (childInhOf t1 cur) (childInhOf (.inner st f ms ks) sin) t1.kids = .ok (keysOf S kt ++ Mk) := by
    simp only [DNode.isTerm, Bool.false_eq_true, ↓reduceIte, pj_kids_inner, hsin',
      childInh_of_own t1 .none cur hown1 (by decide)]
    exact hmk
  have hpre' : ∀ a ∈ kp ++ pre, matchP S (.inner st f ms ks) a = false := by
    intro a ha
    rcases List.mem_append.mp ha with ha | ha
    · exact matchP_key_lt (hkp a ha).2
    · exact hpre a ha
  have hassoc : kp ++ (pre ++ DNode.inner st ft [("operation", bs "delete")] kt :: rest) =
      (kp ++ pre) ++ DNode.inner st ft [("operation", bs "delete")] kt :: rest := by simp
  let t' : DNode := .inner st ft [("operation", bs "none")] (keysOf S kt ++ Mk)
  have hsetk : t1.setKids (keysOf S kt ++ Mk) = t' := rfl
  have hopt' : effOp t' cur = some .none := effOp_own' (ownOp_of_metas t' .none rfl) cur
  obtain ⟨V', hA', hU'⟩ := hTk'.actsL K hgxk
  have hVV : normL13 Yk' = V' := hU' Yk' hgYk' hRk'
  have hvalx : (look S Y' (.inner st f ms ks)).map normN = some (.inner st {} [] V') := by
    rw [hval, ← hVV, hYk'n]; rfl
  cases hMe : Mk with
  | nil =>
    -- the recreated instance is the deleted one: the node is dropped
    subst hMe
    have hred : (isRedundant S cur (t1.setKids (keysOf S kt ++ []))).2 = true := by
      rw [hsetk]
      exact redundant_none_nokids S cur _ hopt' hSt (by simpa [t', DNode.kids] using hno2)
    have hstep := mergeStep_cancel S o cur sin (.inner st f ms ks) (.inner st ft [("operation", bs "delete")] kt) t1 (kp ++ pre) rest
      (keysOf S kt ++ []) .create .delete
      (fun c' s' tk => if (DNode.inner st f ms ks).isTerm then Except.ok tk
        else mergeKids S o c' s' true (DNode.inner st f ms ks).kids tk)
      hsop hcop hpre' hm hndi hndi hcell hkids hred
    rw [← mergeR_eq, ← hassoc] at hstep
    have hV'x : V' = normL13 x.kids := by
      obtain ⟨X1, h1, _, _, h4⟩ := hA' 0 true x.kids (by simp [heightL]) hgxk rfl
      simp only [applyF_nil] at h1
      cases h1
      exact h4.symm
    have hvalx' : (look S Y' (.inner st f ms ks)).map normN = (look S L (.inner st ft [("operation", bs "delete")] kt)).map normN := by
      rw [hvalx, hx, hV'x]
      simp only [Option.map_some, Option.some.injEq, normN_inner_form hxt, hxs]
      rfl
    obtain ⟨hT2, hR2⟩ := tinv_drop K hT1 hR1 hgL hsd hm hloc hvalx' hgY'
    exact ⟨pre ++ rest, E, Y', by rw [hstep]; simp, hY', hgY', hkY', hloc, hT2, hR2,
      fun z hz => Or.inl (by rcases List.mem_append.mp hz with h | h <;> simp [h])⟩
  | cons m0 Mr =>
    have hne : (noKeys S (keysOf S kt ++ Mk)).isEmpty = false := by rw [hno2, hMe]; rfl
    have hredf : isRedundant S cur t' = (t', false) := by
      unfold isRedundant
      simp [hopt', t', DNode.sid, DNode.kids, hSt, hndi, hnuo, hne, op_beq]
    have hstep := mergeStep_keep S o cur sin (.inner st f ms ks) (.inner st ft [("operation", bs "delete")] kt) t1 (kp ++ pre) rest
      (keysOf S kt ++ Mk) .create .delete
      (fun c' s' tk => if (DNode.inner st f ms ks).isTerm then Except.ok tk
        else mergeKids S o c' s' true (DNode.inner st f ms ks).kids tk)
      hsop hcop hpre' hm hndi hndi hcell hkids (by rw [hsetk, hredf])
    rw [← mergeR_eq, ← hassoc, hsetk, hredf] at hstep
    have hmd : Dom S P t' := by
      refine ⟨hnuo, hndi, by have := htd.typed; simpa [t', DNode.isTerm, DNode.sid] using this, ?_⟩
      rw [K.pinv.pcongr (x := t') (y := .inner st ft [("operation", bs "delete")] kt) rfl rfl (by simp only [t', DNode.kids, hko2])]
      exact htd.sat
    have hmm : ∀ z, matchP S t' z = matchP S (.inner st ft [("operation", bs "delete")] kt) z := fun z =>
      matchP_of_same_keys (d := .inner st ft [("operation", bs "delete")] kt) (d' := t') hndi rfl rfl
        (by simp only [t', DNode.kids, hko2]) z
    have hactm : Acts S P fx cur t' ((look S L (.inner st ft [("operation", bs "delete")] kt)).map normN)
        (some (.inner st {} [] V')) := by
      rw [hx]
      apply acts_none_inner (y := normN x) K hmd htk hopt' hne
      rw [hno2, childInh_of_own t' .none cur (ownOp_of_metas t' .none rfl) (by decide)]
      simpa using hA'
    obtain ⟨hT2, hR2⟩ := tinv_set K hT1 hR1 hmd htk hmm rfl hactm hsd hm hloc hvalx hgY'
    have hperm2 : (t' :: (pre ++ rest)).Perm (pre ++ t' :: rest) := List.perm_middle.symm
    refine ⟨pre ++ t' :: rest, _, Y', by rw [hstep]; simp [t'], hY', hgY', hkY', hloc, hT2.perm hperm2, hR2.perm hperm2, ?_⟩
    intro z hz
    rcases List.mem_append.mp hz with h | h
    · exact Or.inl (by simp [h])
    · rcases List.mem_cons.mp h with rfl | h
      · exact Or.inr (matchP_src_of_left K hsd htd hmd hmm hm)
      · exact Or.inl (by simp [h])

/-! ### the induction over the source diff -/

theorem listMerge_nil (S : Schema) (o : MergeOpts) : ListMergeSpec S P fx o [] := by
  intro n hp cur sin ld kp Tb L Y E _ _ _ hgY _ _ hT hR _ _ _
  have hdk : dk S ld [] = [] := by cases ld <;> simp [dk, noKeys]
  exact ⟨Tb, E, Y, mergeKids_nil S o cur sin ld _, by rw [hdk]; rfl, hgY, rfl, hT, hR⟩

theorem listMerge_cons {S : Schema} (K : KeyOrderOn S P) {o : MergeOpts} {c : DNode} {cs : List DNode}
    (hc : NodeMergeSpec S P fx o c) (hcs : ListMergeSpec S P fx o cs) : ListMergeSpec S P fx o (c :: cs) := by
  intro n hp cur sin ld kp Tb L Y E hsin hh hgL hgY hkY hkp hT hR hmeet hex hlit
  have hhc : c.height ≤ n := Nat.le_trans (Nat.le_max_left ..) hh
  have hhcs : heightL cs ≤ n := Nat.le_trans (Nat.le_max_right ..) hh
  simp only [litL, Bool.and_eq_true] at hlit
  by_cases hlk : (ld && S.isKey c.sid) = true
  · -- a leading list key: not part of the diff
    simp only [Bool.and_eq_true] at hlk
    obtain ⟨rfl, hk⟩ := hlk
    have hex' : exactK S P sin Y true cs = true := by
      unfold exactK at hex
      simpa [hk] using hex
    rw [dk_cons_key hk] at hkp hmeet ⊢
    rw [mergeKids_cons_key S o cur sin c cs _ hk]
    exact hcs n hp cur sin true kp Tb L Y E hsin hhcs hgL hgY hkY hkp hT hR hmeet hex' hlit.2
  · -- a diff node
    have hex' := hex
    unfold exactK at hex'
    simp only [hlk, Bool.false_eq_true, ↓reduceIte, Bool.and_eq_true] at hex'
    obtain ⟨⟨⟨hE, hkbY⟩, hdist⟩, hrest⟩ := hex'
    obtain ⟨hd, _, hk⟩ := exactE_base hE
    have hkbL : KeysBelow S c Y := by
      intro k hkm
      have := List.all_eq_true.mp hkbY k hkm
      simpa using this
    have hdkD : dk S ld (c :: cs) = c :: cs := dk_cons_nokey hk ld
    rw [hdkD] at hkp hmeet ⊢
    have hdk0 : dk S false cs = cs := by simp [dk]
    have hdcs : ∀ c' ∈ cs, Dom S P c' ∧ matchP S c c' = false := by
      intro c' hc'
      have h1 := exactK_mem false cs hrest c' (by simpa [dk] using hc')
      have h2 := List.all_eq_true.mp hdist c' hc'
      exact ⟨(exactE_base h1.1).1, by simpa using h2⟩
    obtain ⟨M1, E1, Y1, hm1, ha1, hgY1, hkY1, hloc1, hT1, hR1, hnew⟩ := hc n hp cur sin kp Tb L Y E hsin hhc hgL hgY hkY
      (fun k hk' => ⟨(hkp k hk').1, (hkp k hk').2 c (List.mem_cons_self ..)⟩) hT hR
      (fun t ht hmt => hmeet c (List.mem_cons_self ..) t ht hmt) hE hlit.1 hkbL
    have hexcs : exactK S P sin Y1 false cs = true := by
      rw [exactK_congr hkY1 false cs (fun c'' hc'' => hloc1 c'' (hdcs c'' hc'').1 (hdcs c'' hc'').2)]
      exact hrest
    obtain ⟨M, E', Y', hm, ha, hgY', hkY', hT', hR'⟩ := hcs n hp cur sin false kp M1 L Y1 E1 hsin hhcs hgL hgY1
      (fun c' hc' => hkY c' (by intro k hk'; rw [← hkY1] at hk'; exact hc' k hk'))
      (fun k hk' => ⟨(hkp k hk').1, fun c' hc' => (hkp k hk').2 c' (List.mem_cons_of_mem _ (by simpa [dk] using hc'))⟩)
      hT1 hR1
      (by
        intro c' hc' t ht hmt
        rw [hdk0] at hc'
        rcases hnew t ht with hin | hct
        · exact hmeet c' (List.mem_cons_of_mem _ hc') t hin hmt
        · exfalso
          have h1 := matchP_right_congr K (hdcs c' hc').1 hd (hT1.lvl.dom t ht) hct
          rw [hmt, matchP_symm K (hdcs c' hc').1 hd, (hdcs c' hc').2] at h1
          cases h1)
      hexcs hlit.2
    rw [hdk0] at ha
    refine ⟨M, E', Y', ?_, ?_, hgY', hkY'.trans hkY1, hT', hR'⟩
    · rw [mergeKids_cons_nokey S o cur sin ld c cs _ _ hk hm1]
      exact hm
    · rw [applyF_cons, ha1]
      exact ha

mutual
/-- every node of the second diff is merged correctly -/
theorem nodeMerge {S : Schema} (K : KeyOrderOn S P) {o : MergeOpts}
    (hq : o.defaults = true → Generated.Diff13.mergeDfltNeedsDeletedDflt = true) : ∀ src : DNode, NodeMergeSpec S P fx o src
  | .inner s f ms ks => by
    intro n hp cur sin kp Tb L Y E hsin hh hgL hgY hkY hkp hT hR hmeet hsex hls hkb
    cases hfind : Tb.find? (matchP S (.inner s f ms ks)) with
    | none =>
      have hun : ∀ t ∈ Tb, matchP S (.inner s f ms ks) t = false := by
        intro t ht
        have := List.find?_eq_none.mp hfind t ht
        simpa using this
      exact merge_unmatched K hh hgY hkY hkp hT hR hun hsex hkb
    | some t =>
      obtain ⟨hm, pre, rest, rfl, hpre⟩ := List.find?_eq_some_iff_append.mp hfind
      obtain ⟨hO, hsafe⟩ := hmeet t (by simp) hm
      have hops : (effOp t cur = some .none ∧ effOp (DNode.inner s f ms ks) sin = some .none) ∨
          (effOp t cur = some .none ∧ effOp (DNode.inner s f ms ks) sin = some .delete) ∨
          (effOp t cur = some .create ∧ effOp (DNode.inner s f ms ks) sin = some .delete) ∨
          (effOp t cur = some .create ∧ effOp (DNode.inner s f ms ks) sin = some .none) ∨
          (effOp t cur = some .delete ∧ effOp (DNode.inner s f ms ks) sin = some .create) := by
        have h := hsafe
        simp only [safeP, Bool.and_eq_true] at h
        have h2 := h.1.1.1.2
        revert h2
        cases effOp t cur <;> cases effOp (DNode.inner s f ms ks) sin <;> simp [meetOps]
        rename_i a b
        cases a <;> cases b <;> simp [meetOps]
      rcases hops with ⟨h1, h2⟩ | ⟨h1, h2⟩ | ⟨h1, h2⟩ | ⟨h1, h2⟩ | ⟨h1, h2⟩
      · exact merge_matched_inner K (listMerge K hq ks) hh hgL hgY hkp hT hR
          (fun a ha => by simpa using hpre a ha) hm hO hsafe h1 h2 hsex hls hkb
      · exact merge_matched_inner_nd K (listMerge K hq ks) hh hgL hgY hkp hT hR
          (fun a ha => by simpa using hpre a ha) hm hO hsafe h1 h2 hsex hkb
      · exact merge_matched_inner_cd K (listMerge K hq ks) hh hgL hgY hkp hT hR
          (fun a ha => by simpa using hpre a ha) hm hO hsafe h1 h2 hsex hkb
      · exact merge_matched_inner_cn K (listMerge K hq ks) hh hgL hgY hkp hT hR
          (fun a ha => by simpa using hpre a ha) hm hO hsafe h1 h2 hsex hls hkb
      · exact merge_matched_inner_dc K (listMerge K hq ks) hh hgL hgY hkp hT hR
          (fun a ha => by simpa using hpre a ha) hm hO hsafe h1 h2 hsex hkb
  | .term s f ms v => by
    intro n hp cur sin kp Tb L Y E hsin hh hgL hgY hkY hkp hT hR hmeet hsex hls hkb
    cases hfind : Tb.find? (matchP S (.term s f ms v)) with
    | none =>
      have hun : ∀ t ∈ Tb, matchP S (.term s f ms v) t = false := by
        intro t ht
        have := List.find?_eq_none.mp hfind t ht
        simpa using this
      exact merge_unmatched K hh hgY hkY hkp hT hR hun hsex hkb
    | some t =>
      obtain ⟨hm, pre, rest, rfl, hpre⟩ := List.find?_eq_some_iff_append.mp hfind
      obtain ⟨hO, hsafe⟩ := hmeet t (by simp) hm
      exact merge_matched_term K hq hsin hh hgL hgY hkp hT hR (fun a ha => by simpa using hpre a ha) hm hO hsafe
        hsex hls hkb rfl
/-- every sibling list of the second diff is merged correctly -/
theorem listMerge {S : Schema} (K : KeyOrderOn S P) {o : MergeOpts}
    (hq : o.defaults = true → Generated.Diff13.mergeDfltNeedsDeletedDflt = true) : ∀ cs : List DNode, ListMergeSpec S P fx o cs
  | [] => listMerge_nil S o
  | c :: cs => listMerge_cons K (nodeMerge K hq c) (listMerge K hq cs)
end

/-! ### the composition law for exact literal diffs -/

/-- `D1` an exact literal diff for `A` leading to `B'`, `D2` an exact literal diff for `B'`, meeting only in leaf cells and
`none` / `none` inner nodes: `lyd_diff_merge_all(D1, D2)` succeeds and applying the merged diff to `A` gives what `D2` makes of
`B'`, up to `normN` -/
theorem merge_apply_exact {S : Schema} (K : KeyOrderOn S P) {o : MergeOpts}
    (hq : o.defaults = true → Generated.Diff13.mergeDfltNeedsDeletedDflt = true) {A B' D1 D2 : List DNode}
    (hA : goodT S P A = true) (hD1 : exactDiff S P A D1 = true) (hl1 : litL D1 = true) (hB' : apply S A D1 fx = .ok B')
    (hD2 : exactDiff S P B' D2 = true) (hl2 : litL D2 = true) (hsafe : mergeSafe S D1 D2 = true) :
    ∃ M C' C'', mergeDiff o S D1 D2 = .ok M ∧ apply S A M fx = .ok C'' ∧ apply S B' D2 fx = .ok C' ∧
      normL13 C'' = normL13 C' := by
  have hdk1 : dk S false D1 = D1 := by simp [dk]
  have hdk2 : dk S false D2 = D2 := by simp [dk]
  obtain ⟨E, hE⟩ := exactK_acts (fx := fx) (nodesFwd K D1) hA hD1
  have hlvl := exactK_level K false D1 hD1
  obtain ⟨X1, hX1, hgX1, hkX1, hloc1, hval1⟩ := exactK_apply (fx := fx) (n := heightL D1 + 1) (hp := false) K hA hD1 hE
    (by rw [hdk1]; exact Nat.le_succ _) hA rfl
  rw [hdk1] at hE hlvl hX1 hloc1 hval1
  have hXB : X1 = B' := by
    rw [apply_eq_applyF, hX1] at hB'
    exact Except.ok.inj hB'
  subst hXB
  have hT : TInv S P fx none D1 A E := ⟨hlvl, fun c hc => (exactK_mem false D1 hD1 c (by rw [hdk1]; exact hc)).2, hE⟩
  have hR : Rel S P D1 A E X1 := ⟨hval1, fun q hq hall => by rw [hloc1 q hq hall]⟩
  obtain ⟨M, E', C', hm, ha, hgC', _, hT', hR'⟩ := listMerge (fx := fx) K hq D2 (heightL D2 + 1) false none none false [] D1 A X1 E
    (Or.inl (Or.inl rfl)) (Nat.le_succ _) hA hgX1
    (fun c hc => by intro k hk; rw [← hkX1] at hk; exact hc k hk) (by simp) hT hR
    (by
      intro c hc t ht hmt
      rw [hdk2] at hc
      have hex := (exactK_mem false D1 hD1 t (by rw [hdk1]; exact ht)).1
      exact ⟨⟨hex, litL_mem hl1 ht, Or.inl (own_of_inhOK (Or.inl rfl) hex (litL_mem hl1 ht))⟩,
        safeK_mem hsafe c hc t ht hmt⟩)
    hD2 hl2
  rw [hdk2] at ha
  simp only [List.nil_append] at hm
  obtain ⟨C'', hC'', hgC'', _, hoff, hon⟩ := hT'.apply (n := heightL M + 1) (hp := false) K (Nat.le_succ _) hA rfl
  refine ⟨M, C', C'', hm, by rw [apply_eq_applyF]; exact hC'', by rw [apply_eq_applyF]; exact ha, ?_⟩
  exact Rel.result K hT'.lvl hR' hgC' rfl hgC'' hoff hon

end LyModel.Diff.K13
