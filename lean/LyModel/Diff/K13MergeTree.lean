import LyModel.Diff.K13Merge
/-!
# C13: `lyd_diff_merge_r`, node by node — the induction over the source diff

`MergeConcl` is what one call of `lyd_diff_merge_r` for the source node `src` achieves at a level where the invariant
`TInv` / `Rel` (K13Merge.lean) holds: the call succeeds, `src` can be applied to `Y`, and the invariant holds again for the new
target level and what `src` made of `Y`.  Three cases: the source node meets no target node (`merge_unmatched`), two leaf /
leaf-list nodes meet (`merge_matched_term`: the cells), two inner nodes with operation `none` meet (`merge_matched_inner`: the
recursion).  `nodeMerge` / `listMerge` put them together by induction over the source diff.
-/
set_option linter.unusedSimpArgs false
namespace LyModel.Diff.K13
open LyModel LyModel.Tree LyModel.Diff

variable {P : DNode → Bool} {fx : Fixes}

/-- an original node of the first diff: exact for the instance of `L` at its place, literal leaf metadata -/
def Orig (S : Schema) (P : DNode → Bool) (cur : Option Op) (L : List DNode) (t : DNode) : Prop :=
  exactE S P cur (look S L t) t = true ∧ litN t = true

def MergeConcl (S : Schema) (P : DNode → Bool) (fx : Fixes) (o : MergeOpts) (n : Nat) (hp : Bool) (cur sin : Option Op)
    (src : DNode) (kp Tb L Y : List DNode) : Prop :=
  ∃ M E' Y', mergeR S o cur sin src (kp ++ Tb) = .ok (kp ++ M) ∧ applyNode S fx n Y hp sin src = .ok Y' ∧
    goodT S P Y' = true ∧ keysOf S Y' = keysOf S Y ∧ Local S P src Y Y' ∧ TInv S P fx cur M L E' ∧ Rel S P M L E' Y' ∧
    ∀ m ∈ M, m ∈ Tb ∨ matchP S src m = true

theorem matchP_key_lt {S : Schema} {src k : DNode} (h : k.sid < src.sid) : matchP S src k = false := by
  have : (k.sid == src.sid) = false := by simpa using Nat.ne_of_lt h
  simp [matchP, this]

theorem dom_changeOp {S : Schema} (K : KeyOrderOn S P) {d : DNode} (hd : Dom S P d) (op : Op) : Dom S P (changeOp d op) :=
  ⟨by simpa using hd.nuo, by simpa using hd.ndi, by simpa using hd.typed, by
    rw [K.pinv.pcongr (x := changeOp d op) (y := d) (by simp) (by simp) (by simp)]; exact hd.sat⟩

theorem good_look {S : Schema} {Y : List DNode} {c : DNode} (hgY : goodT S P Y = true) :
    ∀ x, look S Y c = some x → goodN S P x = true ∧ x.sid = c.sid :=
  fun x hx => ⟨goodL_mem (goodT_goodL hgY) (look_mem hx).1, matchP_sid (look_mem hx).2⟩

/-- the source node meets no node of the target level: a copy is added, unless it is a `none` that changes nothing -/
theorem merge_unmatched {S : Schema} (K : KeyOrderOn S P) {o : MergeOpts} {n : Nat} {hp : Bool} {cur sin : Option Op} {src : DNode}
    {kp Tb L Y : List DNode} {E : DNode → Option DNode} (hh : src.height ≤ n) (hgY : goodT S P Y = true)
    (hkY : ∀ c, KeysBelow S c Y → KeysBelow S c L) (hkp : ∀ k ∈ kp, S.isKey k.sid = true ∧ k.sid < src.sid)
    (hT : TInv S P fx cur Tb L E) (hR : Rel S P Tb L E Y) (hun : ∀ t ∈ Tb, matchP S src t = false)
    (hsex : exactE S P sin (look S Y src) src = true) (hkb : KeysBelow S src Y) :
    MergeConcl S P fx o n hp cur sin src kp Tb L Y := by
  obtain ⟨hsd, hsm, hsk⟩ := exactE_base hsex
  obtain ⟨sop, hsop⟩ := effOp_isSome_of_exact hsex
  obtain ⟨e2, hact⟩ := nodeFwd (fx := fx) K src sin (look S Y src) (good_look hgY) hsex
  obtain ⟨Y', hY', hgY', hkY', hloc, hval⟩ := hact n hp Y hh hgY hkb rfl
  have hf : ∀ t ∈ kp ++ Tb, matchP S src t = false := by
    intro t ht
    rcases List.mem_append.mp ht with ht | ht
    · exact matchP_key_lt (hkp t ht).2
    · exact hun t ht
  have huo : S.isUserOrd (changeOp src sop).sid = false := by simpa using hsd.nuo
  have hstep := mergeStep_unmatched S o cur sin src (kp ++ Tb) sop
    (fun c' s' tk => if src.isTerm then .ok tk else mergeKids S o c' s' true src.kids tk) hsop hf
  rw [← mergeR_eq, isRedundant_fst S cur _ huo] at hstep
  have hmm : ∀ x, matchP S (changeOp src sop) x = matchP S src x := fun x => matchP_changeOp S src x sop
  have hlk : ∀ Z, look S Z (changeOp src sop) = look S Z src := fun Z => look_congr_fun hmm
  cases hr : (isRedundant S cur (changeOp src sop)).2
  · -- the copy is added
    simp only [hr, Bool.false_eq_true, ↓reduceIte] at hstep
    rw [insertBySchema_keys _ kp Tb (fun k hk => by simpa using (hkp k hk).2)] at hstep
    have hperm := insertBySchema_perm (changeOp src sop) Tb
    obtain ⟨hT', hR'⟩ := tinv_add (fx := fx) K hT hR hkY (dom_changeOp K hsd sop) (by simpa using hsk)
      (by intro k hk; have := hkb k hk; simpa using this) (fun t ht => by rw [hmm]; exact hun t ht)
      (e' := e2) (by rw [hlk]; exact acts_changeOp hsm hsop hsd.nuo hact)
      (Y' := Y') (fun q hq hcq => hloc q hq (by rw [← hmm]; exact hcq)) (by rw [hlk]; exact hval)
    refine ⟨_, _, Y', hstep, hY', hgY', hkY', hloc, hT'.perm hperm.symm, hR'.perm hperm.symm, ?_⟩
    intro m hm
    rcases List.mem_cons.mp (hperm.mem_iff.mp hm) with rfl | hm
    · right
      rw [matchP_of_same_data_right (x := src) hsd.ndi (by simp) (by simp) (by simp)]
      exact matchP_refl K hsd
    · exact Or.inl hm
  · -- the copy is redundant: a `none` on a leaf / leaf-list instance that leaves the default flag as it is
    simp only [hr, ↓reduceIte] at hstep
    have hne : sop = .none := by
      cases sop <;> first
        | rfl
        | (rw [redundant_false_of_op S cur _ _ (effOp_changeOp hsm _) (by decide) huo] at hr; cases hr)
    subst hne
    have hst : src.isTerm = true := by
      cases hti : src.isTerm
      · exfalso
        cases src with
        | term => simp [DNode.isTerm] at hti
        | inner s f m ks =>
          obtain ⟨x, _, hne, _⟩ := exactE_none_inner hsex hsop
          have hnt : S.isTerm (DNode.inner s f m ks).sid = false := by rw [← hsd.typed]; rfl
          have hndi : S.isDupInst (DNode.inner s f m ks).sid = false := hsd.ndi
          have hnuo : S.isUserOrd (DNode.inner s f m ks).sid = false := hsd.nuo
          have hne' : (noKeys S (DNode.inner s f m ks).kids).isEmpty = false := hne
          unfold isRedundant at hr
          simp [effOp_changeOp hsm, hnt, hndi, hnuo, hne', op_beq] at hr
      · rfl
    obtain ⟨x, hx, hxv, hod⟩ := exactE_none_term hsex hsop hst
    have hSt : S.isTerm src.sid = true := by rw [← hsd.typed]; exact hst
    have hflag : x.flags.dflt = src.flags.dflt := by
      unfold isRedundant at hr
      have hnuo : S.isUserOrd src.sid = false := hsd.nuo
      simp [effOp_changeOp hsm, hSt, hnuo, op_beq, getMeta_changeOp_ne (show "orig-default" ≠ "operation" by decide), hod,
        boolBytes_eq_true, boolBytes_eq_false] at hr
      cases h1 : x.flags.dflt <;> cases h2 : src.flags.dflt <;> simp_all
    have hact' := acts_exact_term (fx := fx) K hst hsex hsop (good_look hgY)
    have he2 : e2 = tEff src .none := Acts.det hact hact' hgY hkb rfl
    have hxt : x.isTerm = true := by
      have := good_look hgY x hx
      rw [(goodN_dom this.1).typed, this.2]; exact hSt
    have hval' : (look S Y' src).map normN = (look S Y src).map normN := by
      rw [hval, he2, hx]
      simp only [tEff, Option.map_some]
      rw [if_neg (by decide)]
      exact congrArg some (normN_term_eq hxt hst (good_look hgY x hx).2 hxv hflag).symm
    exact ⟨Tb, E, Y', hstep, hY', hgY', hkY', hloc, hT, rel_skip K hT.lvl hR hsd hun hgY' hgY hloc hval',
      fun m hm => Or.inl hm⟩

theorem matchP_src_of_left {S : Schema} (K : KeyOrderOn S P) {src t m : DNode} (hsd : Dom S P src) (htd : Dom S P t)
    (hmd : Dom S P m) (hmm : ∀ x, matchP S m x = matchP S t x) (hm : matchP S src t = true) : matchP S src m = true := by
  rw [matchP_symm K hsd hmd, hmm, matchP_symm K htd hsd]; exact hm

/-- two leaf / leaf-list nodes meet: the cell of the table -/
theorem merge_matched_term {S : Schema} (K : KeyOrderOn S P) {o : MergeOpts}
    (hq : o.defaults = true → Generated.Diff13.mergeDfltNeedsDeletedDflt = true) {n : Nat} {hp : Bool} {cur sin : Option Op}
    (hcur : InhOK cur) (hsin : InhOK sin) {src t : DNode} {kp pre rest L Y : List DNode} {E : DNode → Option DNode}
    (hh : src.height ≤ n) (hgL : goodT S P L = true) (hgY : goodT S P Y = true)
    (hkp : ∀ k ∈ kp, S.isKey k.sid = true ∧ k.sid < src.sid)
    (hT : TInv S P fx cur (pre ++ t :: rest) L E) (hR : Rel S P (pre ++ t :: rest) L E Y)
    (hpre : ∀ a ∈ pre, matchP S src a = false) (hm : matchP S src t = true) (hO : Orig S P cur L t)
    (hsafe : safeP S cur sin t src = true) (hsex : exactE S P sin (look S Y src) src = true) (hls : litN src = true)
    (hkb : KeysBelow S src Y) (hst : src.isTerm = true) :
    MergeConcl S P fx o n hp cur sin src kp (pre ++ t :: rest) L Y := by
  obtain ⟨htex, hlt⟩ := hO
  obtain ⟨hsd, _, _⟩ := exactE_base hsex
  obtain ⟨htd, _, htk⟩ := exactE_base htex
  have hss : t.sid = src.sid := matchP_sid hm
  have htt : t.isTerm = true := by rw [htd.typed, hss, ← hsd.typed]; exact hst
  obtain ⟨sop, hsop⟩ := effOp_isSome_of_exact hsex
  obtain ⟨cop, hcop⟩ := effOp_isSome_of_exact htex
  have hmem : t ∈ pre ++ t :: rest := by simp
  have hperm : (pre ++ t :: rest).Perm (t :: (pre ++ rest)) := List.perm_middle
  have hT1 := hT.perm hperm
  have hR1 := hR.perm hperm
  have hEt : E t = tEff t cop :=
    Acts.det (hT.acts t hmem) (acts_exact_term (fx := fx) K htt htex hcop (good_look hgL)) hgL (hT.kb t hmem) rfl
  have hlY : look S Y src = look S Y t := look_congr K (goodT_goodL hgY) hsd htd hm
  have hy : (look S Y src).map normN = tEff t cop := by rw [hlY, hR.on t hmem, hEt]
  obtain ⟨m, hcell, hmd, hmt, hms, hmm, ⟨opm, hopm⟩, halt⟩ :=
    term_cell (fx := fx) K hq hcur hsin htt hst hm htex hlt hsex hls (good_look hgL) (good_look hgY) hcop hsop hy hsafe
  obtain ⟨Y', hY', hgY', hkY', hloc, hval⟩ := acts_exact_term (fx := fx) K hst hsex hsop (good_look hgY) n hp Y hh hgY hkb rfl
  have hkids : (fun (c' s' : Option Op) (tk : List DNode) => if src.isTerm then Except.ok tk else mergeKids S o c' s' true src.kids tk)
      (childInhOf m cur) (childInhOf src sin) m.kids = .ok m.kids := by simp [hst]
  have hred : isRedundant S cur (m.setKids m.kids) = isRedundant S none m := by
    rw [setKids_kids]; exact isRedundant_own S cur none m opm hopm
  have hpre' : ∀ x ∈ kp ++ pre, matchP S src x = false := by
    intro x hx
    rcases List.mem_append.mp hx with hx | hx
    · exact matchP_key_lt (hkp x hx).2
    · exact hpre x hx
  have hassoc : kp ++ (pre ++ t :: rest) = (kp ++ pre) ++ t :: rest := by simp
  rcases halt with ⟨hr, he⟩ | ⟨hr, hactm⟩
  · -- the node of the cell is dropped
    have hstep := mergeStep_cancel S o cur sin src t m (kp ++ pre) rest m.kids sop cop
      (fun c' s' tk => if src.isTerm then Except.ok tk else mergeKids S o c' s' true src.kids tk) hsop hcop hpre' hm htd.ndi hsd.ndi
      hcell hkids (by rw [hred]; exact hr)
    rw [← mergeR_eq, ← hassoc] at hstep
    obtain ⟨hT2, hR2⟩ := tinv_drop K hT1 hR1 hgL hsd hm hloc (by rw [hval, he]) hgY'
    exact ⟨pre ++ rest, E, Y', by rw [hstep]; simp, hY', hgY', hkY', hloc, hT2, hR2,
      fun x hx => Or.inl (by rcases List.mem_append.mp hx with h | h <;> simp [h])⟩
  · -- the node of the cell is kept
    have hstep := mergeStep_keep S o cur sin src t m (kp ++ pre) rest m.kids sop cop
      (fun c' s' tk => if src.isTerm then Except.ok tk else mergeKids S o c' s' true src.kids tk) hsop hcop hpre' hm htd.ndi hsd.ndi
      hcell hkids (by rw [hred]; exact hr)
    rw [← mergeR_eq, ← hassoc, hred, isRedundant_fst S none m (by rw [hms]; exact htd.nuo)] at hstep
    obtain ⟨hT2, hR2⟩ := tinv_set K hT1 hR1 hmd (by rw [hms]; exact htk) hmm hms hactm hsd hm hloc hval hgY'
    have hperm2 : (m :: (pre ++ rest)).Perm (pre ++ m :: rest) := List.perm_middle.symm
    refine ⟨pre ++ m :: rest, _, Y', by rw [hstep]; simp, hY', hgY', hkY', hloc, hT2.perm hperm2, hR2.perm hperm2, ?_⟩
    intro x hx
    rcases List.mem_append.mp hx with h | h
    · exact Or.inl (by simp [h])
    · rcases List.mem_cons.mp h with rfl | h
      · exact Or.inr (matchP_src_of_left K hsd htd hmd hmm hm)
      · exact Or.inl (by simp [h])

end LyModel.Diff.K13
