import LyModel.Diff.UOBridgeLLStep
/-!
# Bridge from the user-ordered list core to the tree model (C06) — part 4: the two passes as folds

`lyd_diff_siblings_r` on two sibling lists that are the instances of one user-ordered configuration leaf-list produces, node
for node, the operations of the core's `UOG.phase1` / `UOG.phase2` (`IsOpNode`).  Core Lean only.
-/
namespace LyModel.Diff.UOB
open LyModel LyModel.Tree LyModel.Diff
set_option linter.unusedSimpArgs false
set_option linter.unusedVariables false
local instance (priority := high) bytesBEq'' : BEq Bytes := instBEqOfDecidableEq

/-- diff node `n` encodes the core operation `op` the way `lyd_diff_userord_attrs` + `lyd_diff_add` do: `yang:operation`, and
for create / move the anchor in `yang:value` (empty = first), which therefore must not be an empty value (finding F122) -/
inductive IsOpNode (s : Nat) : DNode → UOG.UOp Bytes → Prop
  | del (k ov : Bytes) : IsOpNode s (delNode s ov k) (.del k)
  | create (k : Bytes) (a : Option Bytes) : a ≠ some [] → IsOpNode s (createNode s (a.getD []) k) (.create k a)
  | move (k ov : Bytes) (a : Option Bytes) : a ≠ some [] → IsOpNode s (moveNode s ov (a.getD []) k) (.move k a)

/-- the diff nodes encode the core operations, one by one -/
inductive OpNodes (s : Nat) : List DNode → List (UOG.UOp Bytes) → Prop
  | nil : OpNodes s [] []
  | cons {n : DNode} {op : UOG.UOp Bytes} {ns : List DNode} {ops : List (UOG.UOp Bytes)} :
      IsOpNode s n op → OpNodes s ns ops → OpNodes s (n :: ns) (op :: ops)

theorem forall₂_snoc {s : Nat} {l : List DNode} {m : List (UOG.UOp Bytes)} (h : OpNodes s l m) {a : DNode}
    {b : UOG.UOp Bytes} (hab : IsOpNode s a b) : OpNodes s (l ++ [a]) (m ++ [b]) := by
  induction h with
  | nil => exact .cons hab .nil
  | cons h1 _ ih => exact .cons h1 ih

theorem getElem?_mid (done todo : List Bytes) (x : Bytes) : (done ++ x :: todo)[done.length]? = some x := by simp

/-- **first pass.** -/
theorem phase1_fold {S : Schema} {s : Nat} (C : LLCtx S s) (va vb : List Bytes) (nda : va.Nodup) (top : Bool)
    (recur : List DNode → List DNode → St) (hrec : (recur [] []).out = []) :
    ∀ (todo done : List Bytes) (st : St) (v : List Bytes) (p : Nat) (ops : List (UOG.UOp Bytes)),
      va = done ++ todo → (∀ y ∈ v, y ∈ va ∨ y ∈ vb) →
      uoGet st.uo s (llForest s va) true = ⟨s, v.map (ctag va vb), p⟩ →
      OpNodes s st.out ops →
      (∀ n ∈ st.out, n.sid = s ∧ n.val ∈ done ∧ n.val ∉ vb) → st.ptr = 0 →
      ∃ st' p', ((llForest s todo).zipIdx done.length).foldl
            (phase1Step S true top recur (llForest s va) (llForest s vb)) st = st' ∧
        uoGet st'.uo s (llForest s va) true = ⟨s, (UOG.phase1 vb todo (ops, v)).2.map (ctag va vb), p'⟩ ∧
        (todo ≠ [] → uoFind st'.uo s = some ⟨s, (UOG.phase1 vb todo (ops, v)).2.map (ctag va vb), p'⟩) ∧
        (∀ y ∈ (UOG.phase1 vb todo (ops, v)).2, y ∈ v) ∧
        OpNodes s st'.out (UOG.phase1 vb todo (ops, v)).1 ∧
        (∀ n ∈ st'.out, n.sid = s ∧ n.val ∉ vb) ∧ st'.used = st.used ∧ st'.ptr = 0
  | [], done, st, v, p, ops, _, _, huo, hops, hout, hptr => by
    refine ⟨st, p, rfl, ?_, ?_, ?_, ?_, ?_, rfl, hptr⟩
    · simpa [UOG.phase1] using huo
    · intro h; exact absurd rfl h
    · intro y hy; simpa [UOG.phase1] using hy
    · simpa [UOG.phase1] using hops
    · intro n hn; exact ⟨(hout n hn).1, (hout n hn).2.2⟩
  | x :: xs, done, st, v, p, ops, hva, hv, huo, hops, hout, hptr => by
    have hi : va[done.length]? = some x := by rw [hva]; exact getElem?_mid done xs x
    have hva' : va = (done ++ [x]) ++ xs := by simp [hva]
    have hxd : x ∉ done := by
      intro hx
      rw [hva] at nda
      exact (List.nodup_append.mp nda).2.2 x hx x (by simp) rfl
    have hz : (llForest s (x :: xs)).zipIdx done.length = (llNode s x, done.length) :: (llForest s xs).zipIdx (done ++ [x]).length := by
      simp [llForest, List.zipIdx_cons]
    rw [hz, List.foldl_cons]
    by_cases hxb : x ∈ vb
    · obtain ⟨st1, e1, o1, u1, us1, pt1⟩ := phase1Step_keep C va vb v p done.length x st top recur hrec hxb huo
      rw [e1]
      obtain ⟨st', p', e', r1, r2, r3, r4, r5, r6, r7⟩ := phase1_fold C va vb nda top recur hrec xs (done ++ [x]) st1 v p ops hva' hv
        (uoGet_of_find u1 _ _) (by rw [o1]; exact hops)
        (by rw [o1]; intro n hn; have := hout n hn; exact ⟨this.1, by simp [this.2.1], this.2.2⟩) (by rw [pt1]; exact hptr)
      have hp1 : UOG.phase1 vb (x :: xs) (ops, v) = UOG.phase1 vb xs (ops, v) := by simp [UOG.phase1, hxb]
      rw [hp1]
      refine ⟨st', p', e', r1, ?_, r3, r4, r5, by rw [r6, us1], r7⟩
      intro _
      cases xs with
      | nil =>
        simp only [llForest, List.map_nil, List.zipIdx_nil, List.foldl_nil] at e'
        subst e'
        rw [uoGet_of_find u1] at r1
        rw [← r1]; exact u1
      | cons a t => exact r2 (by simp)
    · have hout1 : ∀ n ∈ st.out, n.sid = s ∧ n.val ≠ x := by
        intro n hn
        have := hout n hn
        exact ⟨this.1, fun e => hxd (e ▸ this.2.1)⟩
      obtain ⟨ov, st1, e1, o1, u1, us1, pt1⟩ := phase1Step_delete C va vb v p done.length x st top recur hv nda hi hxb huo hout1
      rw [e1]
      have hv1 : ∀ y ∈ v.erase x, y ∈ va ∨ y ∈ vb := fun y hy => hv y (List.mem_of_mem_erase hy)
      obtain ⟨st', p', e', r1, r2, r3, r4, r5, r6, r7⟩ := phase1_fold C va vb nda top recur hrec xs (done ++ [x]) st1 (v.erase x) (p + 1)
        (ops ++ [.del x]) hva' hv1 (uoGet_of_find u1 _ _) (by rw [o1]; exact forall₂_snoc hops (.del x ov))
        (by
          rw [o1]; intro n hn
          rcases List.mem_append.mp hn with h | h
          · have := hout n h; exact ⟨this.1, by simp [this.2.1], this.2.2⟩
          · simp only [List.mem_singleton] at h; subst h; exact ⟨rfl, by simp [delNode, DNode.val], hxb⟩) pt1
      have hp1 : UOG.phase1 vb (x :: xs) (ops, v) = UOG.phase1 vb xs (ops ++ [.del x], v.erase x) := by simp [UOG.phase1, hxb]
      rw [hp1]
      refine ⟨st', p', e', r1, ?_, fun y hy => List.mem_of_mem_erase (r3 y hy), r4, r5, by rw [r6, us1], r7⟩
      intro _
      cases xs with
      | nil =>
        simp only [llForest, List.map_nil, List.zipIdx_nil, List.foldl_nil] at e'
        subst e'
        rw [uoGet_of_find u1] at r1
        rw [← r1]; exact u1
      | cons a t => exact r2 (by simp)

theorem anchorAt_ne {v vb : List Bytes} (hv : ∀ z ∈ v, z ∈ vb) (hne : [] ∉ vb) (p : Nat) : anchorAt v p ≠ some [] := by
  unfold anchorAt
  split
  · simp
  · intro h
    exact hne (hv _ (List.mem_of_getElem? h))

theorem mem_insertAt {v : List Bytes} {p : Nat} {y z : Bytes} (h : z ∈ UOG.insertAt v p y) : z = y ∨ z ∈ v := by
  unfold UOG.insertAt at h
  simp only [List.mem_append, List.mem_cons] at h
  rcases h with h | h | h
  · exact Or.inr (List.mem_of_mem_take h)
  · exact Or.inl h
  · exact Or.inr (List.mem_of_mem_drop h)

/-- **second pass.** -/
theorem phase2_fold {S : Schema} {s : Nat} (C : LLCtx S s) (va vb : List Bytes) (nda : va.Nodup) (ndb : vb.Nodup)
    (hne : [] ∉ vb) :
    ∀ (todo done : List Bytes) (st : St) (v : List Bytes) (p : Nat) (ops : List (UOG.UOp Bytes)),
      vb = done ++ todo → (∀ z ∈ v, z ∈ vb) →
      (∀ hf, uoGet st.uo s (llForest s va) hf = ⟨s, v.map (ctag va vb), p⟩) →
      OpNodes s st.out ops →
      (∀ n ∈ st.out, n.sid = s ∧ (n.val ∉ vb ∨ n.val ∈ done)) → st.ptr = 0 →
      ∃ st', ((llForest s todo).zipIdx done.length).foldl (phase2Step S true (llForest s va) (llForest s vb)) st = st' ∧
        OpNodes s st'.out (UOG.phase2 va todo (ops, v, p)).1 ∧ st'.ptr = 0
  | [], done, st, v, p, ops, _, _, huo, hops, hout, hptr => ⟨st, rfl, by simpa [UOG.phase2] using hops, hptr⟩
  | y :: ys, done, st, v, p, ops, hvb, hv, huo, hops, hout, hptr => by
    have hj : vb[done.length]? = some y := by rw [hvb]; exact getElem?_mid done ys y
    have hyb : y ∈ vb := List.mem_of_getElem? hj
    have hvb' : vb = (done ++ [y]) ++ ys := by simp [hvb]
    have hyd : y ∉ done := by
      intro hx
      rw [hvb] at ndb
      exact (List.nodup_append.mp ndb).2.2 y hx y (by simp) rfl
    have hv2 : ∀ z ∈ v, z ∈ va ∨ z ∈ vb := fun z hz => Or.inr (hv z hz)
    have hz : (llForest s (y :: ys)).zipIdx done.length = (llNode s y, done.length) :: (llForest s ys).zipIdx (done ++ [y]).length := by
      simp [llForest, List.zipIdx_cons]
    have hout1 : ∀ n ∈ st.out, n.sid = s ∧ n.val ≠ y := by
      intro n hn
      have := hout n hn
      refine ⟨this.1, fun e => ?_⟩
      rcases this.2 with h | h
      · exact h (e ▸ hyb)
      · exact hyd (e ▸ h)
    have houtS : ∀ (st1 : St) (nd : DNode), st1.out = st.out ++ [nd] → nd.sid = s → nd.val = y →
        ∀ n ∈ st1.out, n.sid = s ∧ (n.val ∉ vb ∨ n.val ∈ done ++ [y]) := by
      intro st1 nd o1 h1 h2 n hn
      rw [o1] at hn
      rcases List.mem_append.mp hn with h | h
      · have := hout n h
        exact ⟨this.1, this.2.imp id (fun h => by simp [h])⟩
      · simp only [List.mem_singleton] at h; subst h; exact ⟨h1, Or.inr (by simp [h2])⟩
    rw [hz, List.foldl_cons]
    by_cases hya : y ∈ va
    · by_cases hp : v[p]? = some y
      · obtain ⟨st1, e1, o1, u1, us1, pt1⟩ := phase2Step_keep C va vb v p done.length y st hv2 hj hya hp (huo true)
        rw [e1]
        obtain ⟨st', e', r1, r2⟩ := phase2_fold C va vb nda ndb hne ys (done ++ [y]) st1 v (p + 1) ops hvb' hv
          (fun hf => uoGet_of_find u1 _ hf) (by rw [o1]; exact hops)
          (by rw [o1]; intro n hn; have := hout n hn; exact ⟨this.1, this.2.imp id (fun h => by simp [h])⟩)
          (by rw [pt1]; exact hptr)
        refine ⟨st', e', ?_, r2⟩
        have : UOG.phase2 va (y :: ys) (ops, v, p) = UOG.phase2 va ys (ops, v, p + 1) := by simp [UOG.phase2, hya, hp]
        rw [this]; exact r1
      · obtain ⟨ov, st1, e1, o1, u1, us1, pt1⟩ := phase2Step_move C va vb v p done.length y st hv2 nda hj hya hp (huo true) hout1
        rw [e1]
        have hv' : ∀ z ∈ UOG.insertAt (v.erase y) p y, z ∈ vb := by
          intro z hz
          rcases mem_insertAt hz with h | h
          · exact h ▸ hyb
          · exact hv z (List.mem_of_mem_erase h)
        obtain ⟨st', e', r1, r2⟩ := phase2_fold C va vb nda ndb hne ys (done ++ [y]) st1 (UOG.insertAt (v.erase y) p y) (p + 1)
          (ops ++ [.move y (anchorAt v p)]) hvb' hv' (fun hf => uoGet_of_find u1 _ hf)
          (by rw [o1]; exact forall₂_snoc hops (.move y ov _ (anchorAt_ne hv hne p)))
          (houtS st1 _ o1 rfl rfl) pt1
        refine ⟨st', e', ?_, r2⟩
        have : UOG.phase2 va (y :: ys) (ops, v, p) =
            UOG.phase2 va ys (ops ++ [.move y (anchorAt v p)], UOG.insertAt (v.erase y) p y, p + 1) := by
          simp [UOG.phase2, hya, hp, anchorAt]
        rw [this]; exact r1
    · obtain ⟨st1, e1, o1, u1, us1, pt1⟩ := phase2Step_create C va vb v p done.length y st hv2 ndb hj hya (huo false) hout1
      rw [e1]
      have hv' : ∀ z ∈ UOG.insertAt v p y, z ∈ vb := by
        intro z hz
        rcases mem_insertAt hz with h | h
        · exact h ▸ hyb
        · exact hv z h
      obtain ⟨st', e', r1, r2⟩ := phase2_fold C va vb nda ndb hne ys (done ++ [y]) st1 (UOG.insertAt v p y) (p + 1)
        (ops ++ [.create y (anchorAt v p)]) hvb' hv' (fun hf => uoGet_of_find u1 _ hf)
        (by rw [o1]; exact forall₂_snoc hops (.create y _ (anchorAt_ne hv hne p)))
        (houtS st1 _ o1 rfl rfl) pt1
      refine ⟨st', e', ?_, r2⟩
      have : UOG.phase2 va (y :: ys) (ops, v, p) =
          UOG.phase2 va ys (ops ++ [.create y (anchorAt v p)], UOG.insertAt v p y, p + 1) := by
        simp [UOG.phase2, hya, anchorAt]
      rw [this]; exact r1

end LyModel.Diff.UOB
