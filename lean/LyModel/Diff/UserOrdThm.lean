import LyModel.Diff.UserOrdPhase2
/-!
# The user-ordered list core of `lyd_diff_siblings_r` / `lyd_diff_apply_r` (C06) — the theorem

One user-ordered (leaf-)list in isolation, instances abstracted to their identity (`Nat`: the key of a list instance, the
value of a leaf-list instance).  `diffU a b` is what the two passes of `lyd_diff_siblings_r` generate for this list — first
every `delete` (instances of `a` that are not in `b`), then for each position of `b` a `create` or a `move` anchored at the
instance placed just before it — maintaining the *virtual* first list the way `lyd_diff_userord_attrs` does
(`userord_item->inst`, `pos`).  `applyU` is `lyd_diff_apply_r` + `lyd_diff_insert` for these operations.
(Ported from the design-phase calibration proof; the full tree model is `LyModel.Diff.Model` / `.Apply`.)
Core Lean only.
-/
namespace LyModel.Diff.UO

/-- C06 core for user-ordered (leaf-)lists: applying the generated operations to the first list yields the second. -/
theorem userord_apply_diff (a b : List Nat) (nda : a.Nodup) (ndb : b.Nodup) :
    applyU a (diffU a b) = some b := by
  unfold diffU
  have p1 := phase1_spec b a [] [] (by simpa using nda)
  simp only [List.nil_append] at p1
  rw [p1]
  have ad := apply_dels b a [] (by simpa using nda)
  simp only [List.nil_append] at ad
  obtain ⟨ops', e1, e2⟩ := phase2_spec a b [] (a.filter fun x => decide (x ∈ b))
    ((a.filter fun x => !decide (x ∈ b)).map UOp.del)
    (by simpa using ndb) (by simp only [List.nil_append]; exact List.Pairwise.filter (fun x => decide (x ∈ b)) nda)
    (by intro x hx; simpa using (List.mem_filter.mp hx).2)
    (by intro y hy hya; exact List.mem_filter.mpr ⟨hya, by simpa using hy⟩)
    (by intro x hx; exact (List.mem_filter.mp hx).1)
  simp only [List.nil_append, List.length_nil] at e1 e2
  show applyU a (phase2 a b (List.map UOp.del (List.filter (fun x => !decide (x ∈ b)) a), List.filter (fun x => decide (x ∈ b)) a, 0)).1 = some b
  rw [e1]
  show applyU a (List.map UOp.del (List.filter (fun x => !decide (x ∈ b)) a) ++ ops') = some b
  rw [applyU_append, ad]
  simpa using e2


-- non-vacuity and executable sanity
example : applyU [1,2,3,4,5] (diffU [1,2,3,4,5] [1,2,5,3,4]) = some [1,2,5,3,4] := by decide
example : diffU [1,2,3] [3,4,1] = [.del 2, .move 3 none, .create 4 (some 3)] := by decide
end LyModel.Diff.UO
