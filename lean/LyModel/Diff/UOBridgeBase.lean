import LyModel.Diff.UOBridgeCore
import LyModel.Diff.Order
/-!
# Bridge from the user-ordered list core to the tree model (C06) — part 1: list and tag lemmas

The model of `lyd_diff_userord_attrs` identifies the entries of the virtual instance list by (tree, index) tags; the core
(`UOG`) by the instance identity.  `ctag` is the tag the model uses for an identity; the lemmas here translate the list
operations on tags (`idxOfTag`, `eraseIdx`, `take ++ [t] ++ drop`) into the operations of the core (`idxOf`, `erase`,
`insertAt`).  Core Lean only.
-/
namespace LyModel.Diff.UOB
set_option linter.unusedSimpArgs false
set_option linter.unusedSectionVars false
set_option linter.unusedVariables false
open LyModel LyModel.Tree LyModel.Diff

variable {α : Type} [DecidableEq α]

theorem eraseIdx_idxOf (v : List α) (x : α) : v.eraseIdx (v.idxOf x) = v.erase x := by
  induction v with
  | nil => rfl
  | cons h t ih =>
    by_cases e : h = x
    · subst e; simp [List.idxOf_cons]
    · have e' : (h == x) = false := by simpa using e
      simp [List.idxOf_cons, e', List.erase_cons, ih]

theorem map_eraseIdx {β : Type} (f : α → β) (v : List α) (i : Nat) : (v.map f).eraseIdx i = (v.eraseIdx i).map f := by
  induction v generalizing i with
  | nil => rfl
  | cons h t ih => cases i <;> simp [ih]

/-- position of the tag of `x` among the tags of `v`, for an injective tagging -/
theorem idxOfTag_map (f : α → Bool × Nat) (v : List α) (x : α) (hinj : ∀ y ∈ v, f y = f x → y = x) :
    idxOfTag (v.map f) (f x) = v.idxOf x := by
  induction v with
  | nil => rfl
  | cons h t ih =>
    have iht := ih (fun y hy => hinj y (by simp [hy]))
    unfold idxOfTag at iht ⊢
    by_cases e : h = x
    · subst e; simp [List.idxOf_cons, List.findIdx?_cons]
    · have e' : (h == x) = false := by simpa using e
      have e2 : (f h == f x) = false := by
        simp only [beq_eq_false_iff_ne, ne_eq]
        intro hh; exact e (hinj h (by simp) hh)
      simp only [List.map_cons, List.findIdx?_cons, e2, List.idxOf_cons, e', cond_false, List.length_cons]
      cases hf : List.findIdx? (fun x_1 => x_1 == f x) (List.map f t) with
      | none => simp [hf] at iht ⊢; omega
      | some i => simp [hf] at iht ⊢; omega

theorem insertAt_map {β : Type} (f : α → β) (v : List α) (p : Nat) (y : α) :
    (v.map f).take p ++ [f y] ++ (v.map f).drop p = (UOG.insertAt v p y).map f := by
  simp [UOG.insertAt, List.map_take, List.map_drop]

/-- the model's tag of an instance identity: instances of the first tree keep their index there, new ones the index in the
second tree -/
def ctag (va vb : List α) (x : α) : Bool × Nat :=
  if x ∈ va then (false, va.idxOf x) else (true, vb.idxOf x)

theorem idxOf_inj {l : List α} {x y : α} (hx : x ∈ l) (h : l.idxOf x = l.idxOf y) : x = y := by
  induction l with
  | nil => simp at hx
  | cons a t ih =>
    by_cases e1 : a = x
    · by_cases e2 : a = y
      · rw [← e1, ← e2]
      · have e2' : (a == y) = false := by simpa using e2
        subst e1
        simp [List.idxOf_cons, e2'] at h
    · have e1' : (a == x) = false := by simpa using e1
      by_cases e2 : a = y
      · subst e2; simp [List.idxOf_cons, e1'] at h
      · have e2' : (a == y) = false := by simpa using e2
        simp only [List.idxOf_cons, e1', e2', cond_false, Nat.add_right_cancel_iff] at h
        exact ih (by simpa [Ne.symm e1] using hx) h

theorem ctag_inj (va vb : List α) {x y : α} (hx : x ∈ va ∨ x ∈ vb) (hy : y ∈ va ∨ y ∈ vb)
    (h : ctag va vb x = ctag va vb y) : x = y := by
  unfold ctag at h
  by_cases h1 : x ∈ va <;> by_cases h2 : y ∈ va <;> simp only [h1, h2, if_true, if_false, Prod.mk.injEq] at h
  · exact idxOf_inj h1 h.2
  · simp at h
  · simp at h
  · exact idxOf_inj (hx.resolve_left h1) h.2

theorem idxOf_getElem?_of_mem {l : List α} {x : α} (hx : x ∈ l) : l[l.idxOf x]? = some x := by
  induction l with
  | nil => simp at hx
  | cons a t ih =>
    by_cases e : a = x
    · subst e; simp [List.idxOf_cons]
    · have e' : (a == x) = false := by simpa using e
      simp only [List.idxOf_cons, e', cond_false, List.getElem?_cons_succ]
      exact ih (by simpa [Ne.symm e] using hx)

theorem idxOf_of_getElem? {l : List α} (nd : l.Nodup) {i : Nat} {x : α} (h : l[i]? = some x) : l.idxOf x = i := by
  induction l generalizing i with
  | nil => simp at h
  | cons a t ih =>
    cases i with
    | zero => simp at h; subst h; simp [List.idxOf_cons]
    | succ j =>
      simp only [List.getElem?_cons_succ] at h
      have hx : x ∈ t := List.mem_of_getElem? h
      have hne : a ≠ x := by
        intro e; subst e; exact (List.nodup_cons.mp nd).1 hx
      have e' : (a == x) = false := by simpa using hne
      simp [List.idxOf_cons, e', ih (List.nodup_cons.mp nd).2 h]

end LyModel.Diff.UOB
