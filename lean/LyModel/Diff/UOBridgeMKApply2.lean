import LyModel.Diff.UOBridgeMKApply
/-!
# Bridge (C06) — multi-key user-ordered lists, part 6: one diff node, and the whole diff (as `UOBridgeKLApply2.lean`)
-/
namespace LyModel.Diff.UOB.MK
open LyModel LyModel.Tree LyModel.Diff LyModel.Diff.UOB LyModel.Diff.UOB.KL
set_option linter.unusedSimpArgs false
set_option linter.unusedVariables false
local instance (priority := high) keyBEq6 {nk : Nat} : BEq (KeyN nk) := instBEqOfDecidableEq

theorem applyKids_key {S : Schema} {s nk : Nat} (C : MKCtx S s nk) (fx : Fixes) (recur : Recur) (d : DNode) (kf : Flags)
    (k : KeyN nk) (hd : d.kids = keyLeavesF kf (s + 1) k.1) (inh : Option Op) (ks : List DNode) :
    applyKids S fx recur d inh ks = .ok ks := by
  simp [applyKids, hd, noKeys_all C, pure, Except.pure]

theorem anchorMeta_kl {S : Schema} {s nk : Nat} (C : MKCtx S s nk) : anchorMetaName S s = "key" := by
  simp [anchorMetaName, C.nd, C.l]

theorem decodeAnchor_kl {S : Schema} {s nk : Nat} (C : MKCtx S s nk) (a : Option (KeyN nk)) :
    (if (anchorStr S s a).isEmpty then none else some (anchorStr S s a)) = a.map (pred S s) := by
  cases a with
  | none => rfl
  | some z => simp [anchorStr, pred_ne_nil C z]

theorem dataKL_get {s nk : Nat} {sibs : List DNode} {l : List (KeyN nk)} (h : DataKL s nk sibs l) {k : KeyN nk} (hk : k ∈ l) :
    ∃ nw nw', sibs[l.idxOf k]? = some (.inner s { new := nw } [] (keyLeavesF { new := nw' } (s + 1) k.1)) := by
  have h1 : (sibs.map (keyN nk))[l.idxOf k]? = some k := by rw [h.1]; exact idxOf_getElem?_of_mem hk
  rw [List.getElem?_map] at h1
  cases hm : sibs[l.idxOf k]? with
  | none => simp [hm] at h1
  | some m =>
    simp only [hm, Option.map_some, Option.some.injEq] at h1
    obtain ⟨nw, nw', k', e⟩ := h.2 m (List.mem_of_getElem? hm)
    rw [e, keyN_shape] at h1
    subst h1
    exact ⟨nw, nw', by rw [e]⟩

theorem map_new_leaves (kf : Flags) : ∀ (j : Nat) (kv : List Bytes),
    (keyLeavesF kf j kv).map (fun k => (k.setMetas []).setFlags { dflt := k.flags.dflt, new := true }) =
      keyLeavesF { dflt := kf.dflt, new := true } j kv
  | _, [] => rfl
  | j, v :: vs => by
    show DNode.term j { dflt := kf.dflt, new := true } [] v :: (keyLeavesF kf (j + 1) vs).map _ = _
    rw [map_new_leaves kf (j + 1) vs]; rfl

theorem dupSingle_create {S : Schema} {s nk : Nat} (C : MKCtx S s nk) (a : Bytes) (k : KeyN nk) :
    dupSingle S (createNode s a k) = .inner s { new := true } [] (keyLeavesF { new := true } (s + 1) k.1) := by
  simp only [dupSingle, createNode, keysOf_all C, map_new_leaves]

/-- **One diff node.** -/
theorem applyStep_op {S : Schema} {s nk : Nat} (C : MKCtx S s nk) (fx : Fixes) (recur : Recur) {sibs : List DNode}
    {l l' : List (KeyN nk)} (h : DataKL s nk sibs l) {d : DNode} {op : UOG.UOp (KeyN nk)} (hop : IsOpNode S s d op)
    (hap : UOG.applyOp (some l) op = some l') :
    ∃ sibs', applyStep S fx recur sibs false none d = .ok sibs' ∧ DataKL s nk sibs' l' := by
  cases hop with
  | del k ov =>
    have he : effOp (delNode s ov k) none = some .delete := by rfl
    simp only [UOG.applyOp, Option.bind_some] at hap
    by_cases hk : k ∈ l
    · simp only [hk, if_true, Option.some.injEq] at hap
      subst hap
      have hf := findForApply_kl C h (delNode s ov k) (isKL_del s ov k)
      have hko : keyN nk (delNode s ov k) = k := keyN_shape _ _ _ _ _
      simp only [hko, hk, if_true] at hf
      refine ⟨sibs.eraseIdx (l.idxOf k), ?_, h.eraseIdx k⟩
      have hu : (S.isUserOrd (delNode s ov k).sid && (Op.delete == Op.create || Op.delete == Op.replace)) = false := by
        simp
      simp only [applyStep, he, hu, Bool.false_eq_true, if_false, applyDelete, hf]
    · simp [hk] at hap
  | create k a ha =>
    have he : effOp (createNode s (anchorStr S s a) k) none = some .create := by rfl
    simp only [UOG.applyOp, Option.bind_some] at hap
    by_cases hk : k ∈ l
    · simp [hk] at hap
    · simp only [hk, if_false] at hap
      have hds := dupSingle_create C (anchorStr S s a) k
      have hn : ∃ nw nw', ∃ k' : KeyN nk, dupSingle S (createNode s (anchorStr S s a) k) =
          .inner s { new := nw } [] (keyLeavesF { new := nw' } (s + 1) k'.1) := ⟨true, true, k, hds⟩
      have hko : keyN nk (dupSingle S (createNode s (anchorStr S s a) k)) = k := by rw [hds]; exact keyN_shape _ _ _ _ _
      obtain ⟨sibs', e1, e2⟩ := insertUO_new C h (dupSingle S (createNode s (anchorStr S s a) k)) hn a ha (by rw [hko]; exact hap)
      refine ⟨sibs', ?_, e2⟩
      have hm : getMeta (createNode s (anchorStr S s a) k) "key" = some (anchorStr S s a) := by rfl
      have hsid : (createNode s (anchorStr S s a) k).sid = s := rfl
      have hset : (dupSingle S (createNode s (anchorStr S s a) k)).setKids (dupSingle S (createNode s (anchorStr S s a) k)).kids =
          dupSingle S (createNode s (anchorStr S s a) k) := by rw [hds]; rfl
      have hu : (S.isUserOrd s && (Op.create == Op.create || Op.create == Op.replace)) = true := by simp [C.uo]
      have hr : (Op.create == Op.replace) = false := by decide
      simp only [applyStep, he, hsid, hu, if_true, applyUO, hr, Bool.false_eq_true, if_false, Bool.false_and, Option.isNone_none,
        Option.bind_none, anchorMeta_kl C, hm, decodeAnchor_kl C a,
        applyKids_key C fx recur _ {} k (rfl : (createNode s (anchorStr S s a) k).kids = keyLeavesF {} (s + 1) k.1), bind,
        Except.bind, e1, hset]
      simp [C.uo]
  | move k ov a ha =>
    have he : effOp (moveNode s ov (anchorStr S s a) k) none = some .replace := by rfl
    simp only [UOG.applyOp, Option.bind_some] at hap
    by_cases hc : k ∈ l ∧ a ≠ some k ∧ ¬ (a = none ∧ l.head? = some k)
    · rw [if_pos hc] at hap
      obtain ⟨nw, nw', hg⟩ := dataKL_get h hc.1
      have hf := findForApply_kl C h (moveNode s ov (anchorStr S s a) k) (isKL_move s ov _ k)
      have hko : keyN nk (moveNode s ov (anchorStr S s a) k) = k := keyN_shape _ _ _ _ _
      simp only [hko, hc.1, if_true] at hf
      have hko2 : keyN nk (DNode.inner s { new := nw } [] (keyLeavesF { new := nw' } (s + 1) k.1)) = k := keyN_shape _ _ _ _ _
      obtain ⟨sibs', e1, e2⟩ := insertUO_move C h (.inner s { new := nw } [] (keyLeavesF { new := nw' } (s + 1) k.1))
        ⟨nw, nw', k, rfl⟩ (by rw [hko2]; exact hc.1) a (by rw [hko2]; exact hc.2.1) (by rw [hko2]; exact hc.2.2) ha
        (by rw [hko2]; exact hap)
      refine ⟨sibs', ?_, e2⟩
      have hm : getMeta (moveNode s ov (anchorStr S s a) k) "key" = some (anchorStr S s a) := by rfl
      have hsid : (moveNode s ov (anchorStr S s a) k).sid = s := rfl
      rw [hko2] at e1
      have hu : (S.isUserOrd s && (Op.replace == Op.create || Op.replace == Op.replace)) = true := by simp [C.uo]
      have hr : (Op.replace == Op.replace) = true := by decide
      simp only [applyStep, he, hsid, hu, if_true, applyUO, hr, hf, Option.isNone_some, Bool.and_false, Bool.false_eq_true,
        if_false, Option.bind_some, hg, DNode.isTerm, Bool.and_false, anchorMeta_kl C, hm, decodeAnchor_kl C a,
        applyKids_key C fx recur _ {} k (rfl : (moveNode s ov (anchorStr S s a) k).kids = keyLeavesF {} (s + 1) k.1), bind,
        Except.bind, e1, DNode.kids, DNode.setKids]
      simp [C.uo]
    · rw [if_neg hc] at hap; simp at hap

/-- **The whole diff.** -/
theorem apply_ops {S : Schema} {s nk : Nat} (C : MKCtx S s nk) (fx : Fixes) (fuel : Nat) {nodes : List DNode}
    {ops : List (UOG.UOp (KeyN nk))} (hops : OpNodes S s nodes ops) :
    ∀ (sibs : List DNode) (l l' : List (KeyN nk)), DataKL s nk sibs l → UOG.applyU l ops = some l' →
      ∃ sibs', nodes.foldlM (fun sibs d => applyNode S fx (fuel + 1) sibs false none d) sibs = .ok sibs' ∧
        DataKL s nk sibs' l' := by
  induction hops with
  | nil =>
    intro sibs l l' h hap
    simp only [UOG.applyU, List.foldl_nil, Option.some.injEq] at hap
    subst hap
    exact ⟨sibs, rfl, h⟩
  | @cons n op ns ops h1 _ ih =>
    intro sibs l l' h hap
    rw [UOG.applyU_cons] at hap
    cases hl1 : UOG.applyOp (some l) op with
    | none => simp [hl1] at hap
    | some l1 =>
      simp only [hl1, Option.bind_some] at hap
      obtain ⟨sibs1, e1, d1⟩ := applyStep_op C fx (applyNode S fx fuel) h h1 hl1
      obtain ⟨sibs', e2, d2⟩ := ih sibs1 l1 l' d1 hap
      refine ⟨sibs', ?_, d2⟩
      rw [List.foldlM_cons]
      show (applyStep S fx (applyNode S fx fuel) sibs false none n >>= _) = _
      rw [e1]
      exact e2

theorem normL_leaves (S : Schema) (nw : Bool) : ∀ (j : Nat) (kv : List Bytes),
    normL S (keyLeavesF { new := nw } j kv) = keyLeavesF {} j kv
  | _, [] => rfl
  | j, v :: vs => by simp [keyLeavesF, normL, normNode, normL_leaves S nw (j + 1) vs]

theorem normL_dataKL {S : Schema} {s nk : Nat} (C : MKCtx S s nk) : ∀ (sibs : List DNode) (l : List (KeyN nk)),
    DataKL s nk sibs l → normL S sibs = klForest s l
  | [], l, h => by
    have := h.1
    cases l with
    | nil => rfl
    | cons a t => simp at this
  | x :: xs, l, h => by
    obtain ⟨nw, nw', k, e⟩ := h.2 x (by simp)
    have ht : DataKL s nk xs (xs.map (keyN nk)) := ⟨rfl, fun n hn => h.2 n (by simp [hn])⟩
    have hnp : S.isNpCont s = false := by
      have := C.kind
      unfold Schema.kind? at this
      unfold Schema.isNpCont
      cases hg : S.get? s with
      | none => rfl
      | some n => simp [hg] at this; simp [this]
    rw [← h.1, normL, normL_dataKL C xs _ ht, e, List.map_cons, keyN_shape]
    simp [normNode, hnp, klForest, klNode, normL_leaves]

theorem dataKL_klForest {nk : Nat} (s : Nat) (l : List (KeyN nk)) : DataKL s nk (klForest s l) l := by
  refine ⟨?_, ?_⟩
  · simp only [klForest, List.map_map]
    conv => rhs; rw [← List.map_id l]
    apply List.map_congr_left
    intro k _
    exact keyN_shape _ _ _ _ _
  · intro n hn
    simp only [klForest, List.mem_map] at hn
    obtain ⟨v, _, rfl⟩ := hn
    exact ⟨false, false, v, rfl⟩

/-- **apply(A, diff(A, B)) = B** for the key-only instances of one multi-key user-ordered list. -/
theorem apply_diff_mk {S : Schema} {s nk : Nat} (C : MKCtx S s nk) (fx : Fixes) (va vb : List (KeyN nk)) (nda : va.Nodup)
    (ndb : vb.Nodup) (hq : ∀ z ∈ vb, QOkN z) :
    ∃ B', apply S (klForest s va) (diffFromPtr S true (klForest s va) (klForest s vb) fx) fx = .ok B' ∧
      normL S B' = normL S (klForest s vb) := by
  obtain ⟨nodes, hd, hops⟩ := diffFull_kl C fx va vb nda ndb hq
  obtain ⟨B', h1, h2⟩ := apply_ops C fx (heightL nodes) hops (klForest s va) va vb (dataKL_klForest s va)
    (UOG.userord_apply_diff va vb nda ndb)
  refine ⟨B', ?_, ?_⟩
  · simp only [diffFromPtr, hd, List.drop_zero]; exact h1
  · rw [normL_dataKL C B' vb h2, normL_dataKL C _ vb (dataKL_klForest s vb)]

end LyModel.Diff.UOB.MK
