import LyModel.Diff.LemmasNodes
/-!
# What `lyd_diff_apply_r` does with each kind of diff node (C06 proofs) — delete, replace, none
Core Lean only.
-/
namespace LyModel.Diff
open LyModel LyModel.Tree

theorem kkey_setMetas (S : Schema) (m : List Meta) (n : DNode) : kkey S (n.setMetas m) = kkey S n := by
  simp [kkey, setMetas_sid, setMetas_val, setMetas_kids]

theorem ownOp_cons (n : DNode) (op : Op) (rest : List Meta) (h : n.metas = ("operation", op.bytes) :: rest) :
    ownOp n = some op := by
  simp only [ownOp, getMeta, h, List.find?_cons, beq_self_eq_true]
  cases op <;> rfl

theorem effOp_of_own (n : DNode) (op : Op) (inh : Option Op) (h : ownOp n = some op) : effOp n inh = some op := by
  simp [effOp, h]

/-- delete: the instance with the key of `a` is removed -/
theorem apply_del (S : Schema) (fx : Fixes) (fuel : Nat) (data : List DNode) (hp : Bool) (inh : Option Op)
    (a a' : DNode) (i : Nat) (hpl : plainSid S a.sid = true)
    (hc : canonB S data = true) (hs : ∀ x ∈ data, shapeOk S x = true) (hg : data[i]? = some a')
    (hk : kkey S a' = kkey S a) :
    applyNode S fx (fuel + 1) data hp inh ((dupRec a).setMetas [("operation", Op.delete.bytes)]) = .ok (data.eraseIdx i) := by
  have hsid : ((dupRec a).setMetas [("operation", Op.delete.bytes)]).sid = a.sid := by rw [setMetas_sid, dupRec_sid]
  have hown := ownOp_cons ((dupRec a).setMetas [("operation", Op.delete.bytes)]) .delete [] (setMetas_metas _ _)
  have hnd : S.isDupInst ((dupRec a).setMetas [("operation", Op.delete.bytes)]).sid = false := by
    rw [hsid]; exact plainSid_not_dupInst S a.sid hpl
  have hnd' : S.isDupInst a'.sid = false := by
    rw [kkey_sid S a' a hk]; exact plainSid_not_dupInst S a.sid hpl
  show applyStep S fx (applyNode S fx fuel) data hp inh _ = _
  unfold applyStep
  simp only [effOp_of_own _ _ inh hown]
  have : (Op.delete == Op.create || Op.delete == Op.replace) = false := by decide
  simp only [this, Bool.and_false, Bool.false_eq_true, if_false]
  unfold applyDelete
  rw [findForApply_eq S data _ hnd,
    findIdx_key S data i a' _ hc hs hg (by rw [kkey_setMetas, dupRec_kkey, hk]) hnd']

/-! ### `withAttrs` only touches the metadata (operations other than create) -/

theorem addMeta_eq (n : DNode) (name : String) (v : Bytes) : addMeta n name v = n.setMetas (n.metas ++ [(name, v)]) := rfl

theorem addMetaOpt_eq (n : DNode) (name : String) (o : Option Bytes) :
    ∃ ms, addMetaOpt n name o = n.setMetas (n.metas ++ ms) := by
  cases o with
  | none => exact ⟨[], by cases n <;> simp [addMetaOpt, DNode.setMetas, DNode.metas]⟩
  | some v => exact ⟨[(name, v)], rfl⟩

theorem setMetas_setMetas (n : DNode) (m m' : List Meta) : (n.setMetas m).setMetas m' = n.setMetas m' := by
  cases n <;> rfl

/-- for an operation other than create `withAttrs` is the node with `yang:operation` first in its metadata -/
theorem withAttrs_metas (S : Schema) (n : DNode) (a : Attrs) (hop : a.op ≠ .create) (hm : n.metas = []) :
    ∃ rest, withAttrs S n a = n.setMetas (("operation", a.op.bytes) :: rest) := by
  unfold withAttrs
  have : (a.op == Op.create) = false := by simpa using hop
  simp only [this, Bool.false_eq_true, if_false]
  obtain ⟨m1, h1⟩ := addMetaOpt_eq (addMeta n "operation" a.op.bytes) "orig-default" a.origDefault
  rw [h1]
  obtain ⟨m2, h2⟩ := addMetaOpt_eq ((addMeta n "operation" a.op.bytes).setMetas _) "orig-value" a.origValue
  rw [h2]
  obtain ⟨m3, h3⟩ := addMetaOpt_eq (((addMeta n "operation" a.op.bytes).setMetas _).setMetas _) "key" a.key
  rw [h3]
  obtain ⟨m4, h4⟩ := addMetaOpt_eq ((((addMeta n "operation" a.op.bytes).setMetas _).setMetas _).setMetas _) "value" a.value
  rw [h4]
  obtain ⟨m5, h5⟩ := addMetaOpt_eq (((((addMeta n "operation" a.op.bytes).setMetas _).setMetas _).setMetas _).setMetas _)
    "position" a.position
  rw [h5]
  obtain ⟨m6, h6⟩ := addMetaOpt_eq
    ((((((addMeta n "operation" a.op.bytes).setMetas _).setMetas _).setMetas _).setMetas _).setMetas _) "orig-key" a.origKey
  rw [h6]
  obtain ⟨m7, h7⟩ := addMetaOpt_eq
    (((((((addMeta n "operation" a.op.bytes).setMetas _).setMetas _).setMetas _).setMetas _).setMetas _).setMetas _)
    "orig-position" a.origPosition
  rw [h7]
  simp only [addMeta_eq, setMetas_setMetas, setMetas_metas, hm, List.nil_append, List.cons_append]
  exact ⟨_, rfl⟩

/-! ### replace and none on a leaf / leaf-list instance -/

theorem flags_setDflt (fa fb : Flags) (h1 : fa.new = false) (h2 : fa.whenTrue = false) (h3 : fb.new = false)
    (h4 : fb.whenTrue = false) : ({ fa with dflt := fb.dflt } : Flags) = fb := by
  cases fa; cases fb; simp_all

/-- what `lyd_diff_attrs` can say about a matched pair -/
theorem plainAttrs_cases (S : Schema) (a b : DNode) (atr : Attrs)
    (h : plainAttrs S true (some a) (some b) = some atr) :
    (S.isKind a.sid .leaf = true ∧ sameInst S a b = false ∧ atr.op = .replace) ∨
    ((S.isKind a.sid .leaf = true ∧ sameInst S a b = true ∨ S.isKind a.sid .leaflist = true) ∧
      a.flags.dflt ≠ b.flags.dflt ∧ atr.op = .none) := by
  unfold plainAttrs at h
  simp only [Bool.true_and] at h
  unfold Schema.isKind
  cases hkd : S.kind? a.sid with
  | none => simp [hkd] at h
  | some k =>
    cases k <;> simp only [hkd] at h
    case leaf =>
      by_cases hs : sameInst S a b = true
      · simp only [hs, Bool.not_true, Bool.false_eq_true, if_false] at h
        by_cases hf : (a.flags.dflt != b.flags.dflt) = true
        · simp only [hf, if_true, Option.some.injEq] at h
          subst h
          exact Or.inr ⟨Or.inl ⟨by simp, hs⟩, by simpa using hf, rfl⟩
        · simp [hf] at h
      · have hs' : sameInst S a b = false := by simpa using hs
        simp only [hs', Bool.not_false, if_true, Option.some.injEq] at h
        subst h
        exact Or.inl ⟨by simp, hs', rfl⟩
    case leaflist =>
      by_cases hf : (a.flags.dflt != b.flags.dflt) = true
      · simp only [hf, if_true, Option.some.injEq] at h
        subst h
        exact Or.inr ⟨Or.inr (by simp), by simpa using hf, rfl⟩
      · simp [hf] at h
    all_goals simp at h

theorem isTerm_of_kind (S : Schema) (sid : Nat) (h : S.isKind sid .leaf = true ∨ S.isKind sid .leaflist = true) :
    S.isTerm sid = true := by
  unfold Schema.isTerm
  rcases h with h | h <;> simp [h]

theorem term_of_shape (S : Schema) (n : DNode) (hs : shapeOk S n = true) (ht : S.isTerm n.sid = true) :
    ∃ f m v, n = .term n.sid f m v := by
  cases n with
  | inner s f m k =>
    simp only [DNode.sid] at ht
    simp [shapeOk, DNode.isTerm, DNode.sid, ht] at hs
  | term s f m v => exact ⟨f, m, v, rfl⟩

/-- replace: the leaf gets the value and the flags of the diff node -/
theorem apply_replace (S : Schema) (fx : Fixes) (fuel : Nat) (data : List DNode) (hp : Bool) (inh : Option Op)
    (s : Nat) (fa fb : Flags) (va vb : Bytes) (rest : List Meta) (i : Nat)
    (hleaf : S.isKind s .leaf = true) (hnu : S.isUserOrd s = false) (hnd : S.isDupInst s = false) (hv : va ≠ vb)
    (hc : canonB S data = true) (hs : ∀ x ∈ data, shapeOk S x = true) (hg : data[i]? = some (.term s fa [] va)) :
    applyNode S fx (fuel + 1) data hp inh (.term s fb (("operation", Op.replace.bytes) :: rest) vb)
      = .ok (data.set i (.term s fb [] vb)) := by
  have hown : ownOp (.term s fb (("operation", Op.replace.bytes) :: rest) vb) = some .replace := ownOp_cons _ _ rest rfl
  have hfind : findForApply S data (.term s fb (("operation", Op.replace.bytes) :: rest) vb) = some i := by
    rw [findForApply_eq S data (.term s fb (("operation", Op.replace.bytes) :: rest) vb) hnd]
    refine findIdx_key S data i (.term s fa [] va) _ hc hs hg ?_ hnd
    have hnl : S.isKind s .leaflist = false := by
      cases h : S.isKind s .leaflist with
      | false => rfl
      | true => exact absurd (isKind_unique S s _ _ hleaf h) (by decide)
    have hnli : S.isKind s .list = false := by
      cases h : S.isKind s .list with
      | false => rfl
      | true => exact absurd (isKind_unique S s _ _ hleaf h) (by decide)
    simp [kkey, DNode.sid, hnl, hnli]
  show applyStep S fx (applyNode S fx fuel) data hp inh _ = _
  unfold applyStep
  simp only [effOp_of_own _ _ inh hown, DNode.sid, hnu, Bool.false_and, Bool.false_eq_true, if_false]
  unfold applyReplace
  have hvb : (va == vb) = false := by simpa using hv
  simp only [DNode.sid, hleaf, Bool.not_true, Bool.false_eq_true, if_false, hfind, hg, DNode.val, hvb,
    Bool.false_and, DNode.setVal, DNode.setFlags, DNode.flags]

/-- none on a term: only the default flag changes -/
theorem apply_noneTerm (S : Schema) (fx : Fixes) (fuel : Nat) (data : List DNode) (hp : Bool) (inh : Option Op)
    (s : Nat) (fa fb : Flags) (v : Bytes) (rest : List Meta) (i : Nat)
    (hnu : S.isUserOrd s = false) (hnd : S.isDupInst s = false)
    (h1 : fa.new = false) (h2 : fa.whenTrue = false) (h3 : fb.new = false) (h4 : fb.whenTrue = false)
    (hc : canonB S data = true) (hs : ∀ x ∈ data, shapeOk S x = true) (hg : data[i]? = some (.term s fa [] v)) :
    applyNode S fx (fuel + 1) data hp inh (.term s fb (("operation", Op.none.bytes) :: rest) v)
      = .ok (data.set i (.term s fb [] v)) := by
  have hown : ownOp (.term s fb (("operation", Op.none.bytes) :: rest) v) = some .none := ownOp_cons _ _ rest rfl
  have hfind : findForApply S data (.term s fb (("operation", Op.none.bytes) :: rest) v) = some i := by
    rw [findForApply_eq S data (.term s fb (("operation", Op.none.bytes) :: rest) v) hnd]
    exact findIdx_key S data i (.term s fa [] v) _ hc hs hg rfl hnd
  show applyStep S fx (applyNode S fx fuel) data hp inh _ = _
  unfold applyStep
  simp only [effOp_of_own _ _ inh hown, DNode.sid, hnu, Bool.false_and, Bool.false_eq_true, if_false]
  unfold applyNone
  simp only [hfind, hg, DNode.isTerm, if_true, DNode.setDflt, DNode.setFlags, DNode.flags, flags_setDflt fa fb h1 h2 h3 h4]

/-- a changed leaf / a leaf-list instance whose default flag changed becomes the node of the second tree -/
theorem apply_term (S : Schema) (fx : Fixes) (fuel : Nat) (data : List DNode) (hp : Bool) (inh : Option Op)
    (a b : DNode) (atr : Attrs) (i : Nat) (hwa : wfNode S a = true) (hwb : wfNode S b = true)
    (hk : kkey S a = kkey S b) (hat : plainAttrs S true (some a) (some b) = some atr)
    (hc : canonB S data = true) (hs : ∀ x ∈ data, shapeOk S x = true) (hg : data[i]? = some a) :
    applyNode S fx (fuel + 1) data hp inh (withAttrs S (dupRec b) atr) = .ok (data.set i b) := by
  have hsid := kkey_sid S a b hk
  have hcases := plainAttrs_cases S a b atr hat
  have hterm : S.isTerm a.sid = true := by
    rcases hcases with ⟨h, _, _⟩ | ⟨h | h, _, _⟩
    · exact isTerm_of_kind S _ (Or.inl h)
    · exact isTerm_of_kind S _ (Or.inl h.1)
    · exact isTerm_of_kind S _ (Or.inr h)
  have hpl := wfNode_plain S a hwa
  have hnu := plainSid_not_userOrd S a.sid hpl
  have hnd := plainSid_not_dupInst S a.sid hpl
  obtain ⟨fa, ma, va, ea⟩ := term_of_shape S a (wfNode_shape S a hwa) hterm
  obtain ⟨fb, mb, vb, eb⟩ := term_of_shape S b (wfNode_shape S b hwb) (by rw [← hsid]; exact hterm)
  rw [← hsid] at eb
  generalize a.sid = s at ea eb hterm hnu hnd hcases
  subst ea eb
  have hta := wfNode_term S _ _ _ _ hwa
  have htb := wfNode_term S _ _ _ _ hwb
  have hma := hta.nometa
  have hmb := htb.nometa
  subst hma hmb
  have hop : atr.op ≠ .create := by
    rcases hcases with ⟨_, _, h⟩ | ⟨_, _, h⟩ <;> simp [h]
  obtain ⟨rest, hd⟩ := withAttrs_metas S (dupRec (.term s fb [] vb)) atr hop (dupRec_metas _)
  rw [hd]
  simp only [dupRec, DNode.setMetas]
  rcases hcases with ⟨hl, hsame, hop'⟩ | ⟨hkind, _, hop'⟩
  · rw [hop']
    have hv : va ≠ vb := by
      intro e
      subst e
      have hkd : S.kind? s = some .leaf := by simpa [Schema.isKind] using hl
      unfold sameInst at hsame
      simp [DNode.sid, hkd, DNode.val] at hsame
    exact apply_replace S fx fuel data hp inh s fa fb va vb rest i hl hnu hnd hv hc hs hg
  · rw [hop']
    have hv : va = vb := by
      rcases hkind with ⟨hl, hsame⟩ | hll
      · have hkd : S.kind? s = some .leaf := by simpa [Schema.isKind] using hl
        unfold sameInst at hsame
        simpa [DNode.sid, hkd, DNode.val] using hsame
      · have := congrArg Prod.snd hk
        simpa [kkey, DNode.sid, DNode.val, hll] using this
    subst hv
    exact apply_noneTerm S fx fuel data hp inh s fa fb va rest i hnu hnd hta.nonew hta.nowhen htb.nonew htb.nowhen hc hs hg

/-! ### none on an inner node: the recursion into the matched pair -/

theorem childInh_of_none (d : DNode) (inh : Option Op) (h : effOp d inh = some .none) :
    childInhOf d inh = some .none := by
  unfold effOp at h
  unfold childInhOf
  cases ho : ownOp d with
  | none => simpa [ho] using h
  | some o =>
    simp only [ho, Option.some.injEq] at h
    subst h
    rfl

theorem apply_parent (S : Schema) (fx : Fixes) (fuel : Nat) (data : List DNode) (hp : Bool) (inh : Option Op)
    (d a : DNode) (sub r : List DNode) (i : Nat)
    (heff : effOp d inh = some .none) (hnu : S.isUserOrd d.sid = false) (hnd : S.isDupInst d.sid = false)
    (hsub : noKeys S d.kids = sub) (hne : sub ≠ []) (hat : a.isTerm = false)
    (hc : canonB S data = true) (hs : ∀ x ∈ data, shapeOk S x = true) (hg : data[i]? = some a)
    (hk : kkey S d = kkey S a)
    (hkids : sub.foldlM (fun ks c => applyNode S fx fuel ks true (some .none) c) a.kids = .ok r) :
    applyNode S fx (fuel + 1) data hp inh d = .ok (data.set i (a.setKids r)) := by
  have hnda : S.isDupInst a.sid = false := by rw [← kkey_sid S d a hk]; exact hnd
  have hfind : findForApply S data d = some i := by
    rw [findForApply_eq S data d hnd]
    exact findIdx_key S data i a d hc hs hg hk hnda
  show applyStep S fx (applyNode S fx fuel) data hp inh d = _
  unfold applyStep
  simp only [heff, hnu, Bool.false_and, Bool.false_eq_true, if_false]
  unfold applyNone applyKids
  have hne' : sub.isEmpty = false := by cases sub <;> simp_all
  have hnr : (effOp d inh == some Op.replace) = false := by rw [heff]; rfl
  simp only [hfind, hg, hat, Bool.false_eq_true, if_false, hsub, hne', hnr, Bool.and_false, Bool.false_and,
    childInh_of_none d inh heff, hkids, bind, Except.bind]

end LyModel.Diff
