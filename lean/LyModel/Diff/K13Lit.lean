import LyModel.Diff.K13Diff
import LyModel.Diff.LemmasRevLit
/-!
# C13 over keyed lists: the reversed diff applied to the literal second tree, and chains of computed diffs

`LemmasRevLit.lean` under `KeyOrderOn S P`: the hypothesis `KeysDistinguished` of C06 `apply_diff_partial` follows from
`KeyOrderOn` for well-formed trees whose nodes satisfy `P` (`keysDistinguished_of_keyOrderOn`: for keyed lists as well — under
the old `KeyOrder` that case was vacuous); `reverse_apply_literal`; `diff_chain_exact`.
-/
set_option linter.unusedSimpArgs false
namespace LyModel.Diff.K13
open LyModel LyModel.Tree LyModel.Diff

variable {P : DNode → Bool}

theorem wfL_append {S : Schema} {A B : List DNode} (hA : wfForest S A = true) (hB : wfForest S B = true) :
    wfL S (A ++ B) = true := by
  simp only [wfForest, Bool.and_eq_true] at hA hB
  apply wfL_of_forall
  intro x hx
  rcases List.mem_append.1 hx with hx | hx
  · exact wfL_mem S A x hA.1.1 hx
  · exact wfL_mem S B x hB.1.1 hx

/-- under `KeyOrderOn S P` the instances of well-formed trees (all nodes satisfying `P`) that the `sort` callback cannot tell
apart are the same instance — the hypothesis of C06 `apply_diff_partial`, for leaf-lists and keyed lists -/
theorem keysDistinguished_of_keyOrderOn {S : Schema} (K : KeyOrderOn S P) (F : List DNode) (hw : wfL S F = true)
    (hp : allPL P F = true) : KeysDistinguished S F := by
  intro x y hx hy hs hso hc
  have hwx := mem_subnodesL_wf S F hw x hx
  have hwy := mem_subnodesL_wf S F hw y hy
  have hox : Diff.Dom S x := Diff.domB_iff.mp (domB_of_wf S x hwx)
  have hoy : Diff.Dom S y := Diff.domB_iff.mp (domB_of_wf S y hwy)
  have hdx : Dom S P x := ⟨hox.nuo, hox.ndi, hox.typed, allPL_subnodes F hp x hx⟩
  have hdy : Dom S P y := ⟨hoy.nuo, hoy.ndi, hoy.typed, allPL_subnodes F hp y hy⟩
  have hsx := wfNode_shape S x hwx
  have hsy := wfNode_shape S y hwy
  -- the comparison is antisymmetric on well-formed instances (same key leaves)
  have hswap : cmpInst S y x = (cmpInst S x y).swap := by
    rw [cmpInst_eq_cmpPairs S y x hsy hs.symm (hs ▸ hso), cmpInst_eq_cmpPairs S x y hsx hs hso]
    exact cmpPairs_swap S _ _ (kkey_aligned S x y hwx hwy hs)
  have hsame : sameInst S x y = true := by
    cases h : sameInst S x y with
    | true => rfl
    | false =>
      exfalso
      rcases K.total hdx hdy hs hso h with h1 | h1
      · rw [hc] at h1; exact absurd h1 (by decide)
      · rw [hswap, hc] at h1; exact absurd h1 (by decide)
  rcases isSorted_cases S x.sid hso with ⟨hll, ht⟩ | ⟨hl, hnll, ht⟩
  · -- leaf-list instances
    obtain ⟨fx, mx, vx, hxe⟩ := term_of_shape S x hsx ht
    obtain ⟨fy, my, vy, hye⟩ := term_of_shape S y hsy (by rw [← hs]; exact ht)
    have hkx : x.kids = [] := by rw [hxe]; rfl
    have hky : y.kids = [] := by rw [hye]; rfl
    refine ⟨by rw [hkx, hky], ?_⟩
    have hk : S.kind? x.sid = some .leaflist := isKind_iff.mp hll
    unfold sameInst at hsame
    simp only [hk, Bool.and_eq_true, beq_iff_eq] at hsame
    exact hsame.2
  · -- keyed list instances
    have hin : S.isInner x.sid = true := by simp [Schema.isInner, hl]
    obtain ⟨fx, mx, kx, hxe⟩ := inner_of_shape S x hsx hin
    obtain ⟨fy, my, ky, hye⟩ := inner_of_shape S y hsy (by rw [← hs]; exact hin)
    have hvx : x.val = [] := by rw [hxe]; rfl
    have hvy : y.val = [] := by rw [hye]; rfl
    refine ⟨?_, by rw [hvx, hvy]⟩
    have hk : S.kind? x.sid = some .list := isKind_iff.mp hl
    have hn := nkeys_ne_zero S x.sid hl hdx.ndi
    unfold sameInst at hsame
    simp only [hk, Bool.and_eq_true, beq_iff_eq] at hsame
    rw [if_neg hn] at hsame
    exact (keysEq_iff _ _).1 hsame.2

/-- the reversed diff of `diff(A, B)` applied to `B` itself gives `A` back, up to `normN` (`dataEqL true`) -/
theorem reverse_apply_literal {S : Schema} {fx : Fixes} (K : KeyOrderOn S P) (A B : List DNode) (hA : wfForest S A = true)
    (hB : wfForest S B = true) (hpA : allPL P A = true) (hpB : allPL P B = true) :
    ∃ R A', reverse S (diff S true A B) = .ok R ∧ apply S B R fx = .ok A' ∧ normL13 A' = normL13 A := by
  have hk : KeysDistinguished S (A ++ B) :=
    keysDistinguished_of_keyOrderOn K (A ++ B) (wfL_append hA hB) (by rw [allPL_append, hpA, hpB]; rfl)
  obtain ⟨B', hB', hnB⟩ := apply_diff_wf S fx A B hA hB hk
  rw [diffFromPtr_eq_diff S fx A B hA hB] at hB'
  obtain ⟨B1, R, A1, h1, _, hR, _, h2, h3⟩ :=
    reverse_roundtrip (fx := fx) K (goodT_of_wfForest A hA hpA) (exactDiff_diff K.pinv A B hA hB hpA hpB)
  rw [hB'] at h1
  have hBB : B' = B1 := Except.ok.inj h1
  subst hBB
  have hc := apply_congr S fx B' B R (normRL_of_normL hnB)
  rw [h2] at hc
  cases hr : apply S B R fx with
  | error e => rw [hr] at hc; exact absurd hc (by simp [RelR])
  | ok A2 =>
    rw [hr] at hc
    refine ⟨R, A2, hR, hr, ?_⟩
    have : normRL S A1 = normRL S A2 := hc
    rw [← normL_of_normRL this]
    exact h3

/-- computed diffs chain: `diff(B, C)` is an exact diff (relative to `P`) for the tree `diff(A, B)` leads to from `A` -/
theorem diff_chain_exact {S : Schema} (K : KeyOrderOn S P) (fx : Fixes) (A B C : List DNode) (hA : wfForest S A = true)
    (hB : wfForest S B = true) (hC : wfForest S C = true) (hpA : allPL P A = true) (hpB : allPL P B = true)
    (hpC : allPL P C = true) :
    ∃ B', apply S A (diff S true A B) fx = .ok B' ∧ goodT S P B' = true ∧ normL13 B' = normL13 B ∧
      exactDiff S P B' (diff S true B C) = true := by
  have hk : KeysDistinguished S (A ++ B) :=
    keysDistinguished_of_keyOrderOn K (A ++ B) (wfL_append hA hB) (by rw [allPL_append, hpA, hpB]; rfl)
  obtain ⟨B', h1, h2, h3, h4⟩ := Diff.diff_chain_exact S fx A B C hA hB hC hk
  have hpB' : allPL P B' = true := by rw [allPL_congr_norm K.pinv h3]; exact hpB
  exact ⟨B', h1, goodT_intro h2 hpB', h3, exactDiff_intro h4 (allPL_diff K.pinv B C hB hC hpB hpC)⟩

end LyModel.Diff.K13
