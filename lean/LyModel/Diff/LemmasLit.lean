import LyModel.Diff.LemmasExact
/-!
# The computed diff carries, on its leaf / leaf-list nodes, exactly the metadata `lyd_diff_add` writes (`litL`)

`create` / `delete`: `yang:operation` only; `none`: `operation`, `orig-default`; `replace`: `operation`, `orig-default`,
`orig-value` — in this order; the copies below a created / deleted node carry none.  With `exactDiff` this makes the leaf
nodes of a computed diff the literal nodes `nCreate` / `nDelete` / `nReplace` / `nNone` of the cell theorems (Props/C13Merge).
-/
set_option linter.unusedSimpArgs false
namespace LyModel.Diff
open LyModel LyModel.Tree

def litMeta (m : List Meta) : Bool :=
  match m with
  | [] => true
  | [(a, x)] => a == "operation" && (x == bs "create" || x == bs "delete")
  | [(a, x), (b, _)] => a == "operation" && x == bs "none" && b == "orig-default"
  | [(a, x), (b, _), (c, _)] => a == "operation" && x == bs "replace" && b == "orig-default" && c == "orig-value"
  | _ => false

/-- the metadata of a container / list-instance diff node: none (a parent copy below the diff roots, a copy inside a created /
deleted subtree) or the operation alone -/
def litInner (m : List Meta) : Bool :=
  m == [] || m == [("operation", bs "none")] || m == [("operation", bs "create")] || m == [("operation", bs "delete")]

mutual
/-- diff nodes carry the metadata `lyd_diff_add` writes, at any depth -/
def litN : DNode → Bool
  | .inner _ _ m ks => litInner m && litL ks
  | .term _ _ m _ => litMeta m
def litL : List DNode → Bool
  | [] => true
  | x :: xs => litN x && litL xs
end

theorem litL_iff_forall : ∀ (l : List DNode), litL l = true ↔ ∀ x ∈ l, litN x = true
  | [] => by simp [litL]
  | x :: xs => by simp [litL, litL_iff_forall xs]

mutual
theorem litN_of_plain : ∀ x, plainN x = true → litN x = true
  | .inner s f m ks, h => by
    simp only [plainN, Bool.and_eq_true, List.isEmpty_iff] at h
    obtain ⟨rfl, h2⟩ := h
    simp only [litN, Bool.and_eq_true]
    exact ⟨rfl, litL_of_plain ks h2⟩
  | .term s f m v, h => by
    simp only [plainN, List.isEmpty_iff] at h
    subst h
    rfl
theorem litL_of_plain : ∀ l, plainL l = true → litL l = true
  | [], _ => rfl
  | x :: xs, h => by
    simp only [plainL, Bool.and_eq_true] at h
    simp only [litL, Bool.and_eq_true]
    exact ⟨litN_of_plain x h.1, litL_of_plain xs h.2⟩
end

theorem litN_setMetas_op (x : DNode) (b : Bytes) (hp : plainN x = true) (hb : b = bs "create" ∨ b = bs "delete") :
    litN (x.setMetas [("operation", b)]) = true := by
  cases x with
  | inner s f m ks =>
    simp only [plainN, Bool.and_eq_true] at hp
    simp only [DNode.setMetas, litN, Bool.and_eq_true]
    refine ⟨?_, litL_of_plain ks hp.2⟩
    rcases hb with rfl | rfl <;> simp [litInner]
  | term s f m v =>
    simp only [DNode.setMetas, litN, litMeta]
    rcases hb with rfl | rfl <;> simp

theorem replace_bytes_eq : Op.replace.bytes = bs "replace" := by decide +kernel
theorem none_bytes_eq : Op.none.bytes = bs "none" := by decide +kernel

def LitGoal (S : Schema) (fuelD : Nat) : Prop :=
  ∀ (top : Bool) (as bs : List DNode), wfL S as = true → wfL S bs = true → canonB S as = true → canonB S bs = true →
    litL (diffSiblings S true fuelD top as bs).out = true

theorem litGoal_all (S : Schema) : ∀ (fuelD : Nat), LitGoal S fuelD
  | 0 => by intro top as bs _ _ _ _; simp [diffSiblings, litL]
  | fuelD + 1 => by
    intro top as bs hwa hwb hca hcb
    have IH := litGoal_all S fuelD
    obtain ⟨_, L⟩ := levelD S fuelD top as bs hwa hwb hca hcb
    generalize (diffSiblings S true (fuelD + 1) top as bs).out = out at L
    have hrec0 := diffSiblings_nil S true fuelD false
    rw [litL_iff_forall]
    intro d hd
    rcases L.sound d hd with ⟨a, ha, hn⟩ | ⟨b, hb, hp, rfl⟩
    · have hwa1 := wfL_mem S as a hwa ha
      have hnd := plainSid_not_dupInst S a.sid (wfNode_plain S a hwa1)
      cases hn with
      | del hp => exact litN_setMetas_op _ _ (plainN_dupRec a) (Or.inr delete_bytes_eq)
      | term b atr hp hat =>
        have hbm := partner_mem S bs a b hp
        have hwb1 := wfL_mem S bs b hwb hbm
        have hsb : b.sid = a.sid := kkey_sid S b a (partner_kkey S bs a b hnd hp)
        have hterm : S.isTerm a.sid = true := by
          rcases plainAttrs_cases S a b atr hat with ⟨h, _, _⟩ | ⟨h | h, _, _⟩
          · exact isTerm_of_kind S _ (Or.inl h)
          · exact isTerm_of_kind S _ (Or.inl h.1)
          · exact isTerm_of_kind S _ (Or.inr h)
        obtain ⟨fa, ma, va, hae⟩ := term_of_shape S a (wfNode_shape S a hwa1) hterm
        obtain ⟨fb, mb, vb, hbe⟩ := term_of_shape S b (wfNode_shape S b hwb1) (by rw [hsb]; exact hterm)
        rw [hsb] at hbe
        generalize a.sid = s at hae hbe
        subst hae hbe
        have hdr : dupRec (.term s fb mb vb) = .term s fb [] vb := rfl
        rw [hdr]
        rcases plainAttrs_term_cases S s fa fb ma mb va vb atr hat with ⟨_, _, rfl⟩ | ⟨_, rfl⟩
        · rw [withAttrs_replace]
          simp [litN, litMeta, replace_bytes_eq]
        · rw [withAttrs_none]
          simp [litN, litMeta, none_bytes_eq]
      | parent b src f m hp hat hne hsrc htop hm =>
        have hbm := partner_mem S bs a b hp
        have hwb1 := wfL_mem S bs b hwb hbm
        have hsb : b.sid = a.sid := kkey_sid S b a (partner_kkey S bs a b hnd hp)
        have hin := inner_of_sub S _ a b hwa1 hwb1 hsb hrec0 hne
        simp only [litN, Bool.and_eq_true]
        refine ⟨by rcases hm with rfl | rfl <;> simp [litInner, none_bytes_eq], ?_⟩
        rw [litL_iff_forall]
        intro x hx
        rcases List.mem_append.1 hx with hx | hx
        · rw [dupShallow_kids] at hx
          obtain ⟨y, hy, rfl⟩ := List.mem_map.1 hx
          have hyt : y.isTerm = true := by
            have hsrcw : wfNode S src = true := by rcases hsrc with h | h <;> subst h <;> assumption
            have hsrci : S.isInner src.sid = true := by
              rcases hsrc with h | h <;> subst h
              · exact hin
              · rw [hsb]; exact hin
            obtain ⟨fs, ms, ks, hse⟩ := inner_of_shape S src (wfNode_shape S src hsrcw) hsrci
            rw [hse] at hsrcw hy
            exact (wfNode_inner S _ fs ms ks hsrcw).keysTerm y hy
          cases y with
          | inner => simp [DNode.isTerm] at hyt
          | term s' f' m' v' => rfl
        · have hsub : litL (subOf S (diffSiblings S true fuelD false) a b).out = true := by
            obtain ⟨fa, ma, ka, hae⟩ := inner_of_shape S a (wfNode_shape S a hwa1) hin
            obtain ⟨fb, mb, kb, hbe⟩ := inner_of_shape S b (wfNode_shape S b hwb1) (by rw [hsb]; exact hin)
            rw [hae] at hwa1
            rw [hbe] at hwb1
            have hia := wfNode_inner S _ fa ma ka hwa1
            have hib := wfNode_inner S _ fb mb kb hwb1
            have := IH false (noKeys S ka) (noKeys S kb)
              (wfL_of_forall S _ (fun x hx => wfL_mem S ka x hia.kids ((noKeys_sublist S ka).subset hx)))
              (wfL_of_forall S _ (fun x hx => wfL_mem S kb x hib.kids ((noKeys_sublist S kb).subset hx)))
              (canonB_sublist S (noKeys_sublist S ka) hia.canon) (canonB_sublist S (noKeys_sublist S kb) hib.canon)
            rw [hae, hbe]
            simpa [subOf, DNode.kids] using this
          exact (litL_iff_forall _).1 hsub x hx
    · exact litN_setMetas_op _ _ (plainN_dupRec b) (Or.inl create_bytes_eq)

/-- the diff of two well-formed trees has the metadata layout `lyd_diff_add` writes on every leaf / leaf-list node -/
theorem litL_diff (S : Schema) (A B : List DNode) (hA : wfForest S A = true) (hB : wfForest S B = true) :
    litL (diff S true A B) = true := by
  simp only [wfForest, Bool.and_eq_true] at hA hB
  have := litGoal_all S (Nat.max (heightL A) (heightL B) + 1) true A B hA.1.1 hB.1.1 hA.1.2 hB.1.2
  simpa [diff, diffFull] using this

end LyModel.Diff
