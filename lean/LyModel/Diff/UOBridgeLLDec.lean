import LyModel.Diff.UOBridgeHyp
import LyModel.Diff.UOBridgeLLApply2
/-!
# Bridge (C06) — part 8: the decidable hypothesis `flatLL` gives the hypotheses of the leaf-list theorem
-/
namespace LyModel.Diff.UOB
open LyModel LyModel.Tree LyModel.Diff
set_option linter.unusedSimpArgs false

theorem isPlainInst_eq {s : Nat} {n : DNode} (h : isPlainInst s n = true) : n = llNode s n.val := by
  cases n with
  | inner => simp [isPlainInst] at h
  | term s' f m v =>
    obtain ⟨d, w, nw⟩ := f
    simp only [isPlainInst, Bool.and_eq_true, beq_iff_eq, Bool.not_eq_true', List.isEmpty_iff] at h
    obtain ⟨⟨⟨⟨h1, h2⟩, h3⟩, h4⟩, h5⟩ := h
    subst h1 h2 h3 h4 h5
    rfl

theorem all_plain_eq {s : Nat} : ∀ {A : List DNode}, A.all (isPlainInst s) = true → A = llForest s (A.map (·.val))
  | [], _ => rfl
  | x :: xs, h => by
    simp only [List.all_cons, Bool.and_eq_true] at h
    have h1 := isPlainInst_eq h.1
    have h2 := all_plain_eq h.2
    simp only [llForest, List.map_cons, List.map_map] at h2 ⊢
    rw [← h2, ← h1]

theorem nodupB_nodup : ∀ {l : List Bytes}, nodupB l = true → l.Nodup
  | [], _ => List.nodup_nil
  | x :: xs, h => by
    simp only [nodupB, Bool.and_eq_true, Bool.not_eq_true', List.contains_eq_mem, decide_eq_false_iff_not] at h
    exact List.nodup_cons.mpr ⟨h.1, nodupB_nodup h.2⟩

theorem flatLL_spec {S : Schema} {A B : List DNode} {s : Nat} (h : flatLL S A B = some s) :
    (S.kind? s = some .leaflist ∧ S.isUserOrd s = true ∧ S.config s = true) ∧
      A = llForest s (A.map (·.val)) ∧ B = llForest s (B.map (·.val)) ∧
      (A.map (·.val)).Nodup ∧ (B.map (·.val)).Nodup ∧ [] ∉ B.map (·.val) := by
  unfold flatLL at h
  split at h
  · simp at h
  · rename_i n _
    simp only at h
    split at h
    · rename_i hc
      simp only [Option.some.injEq] at h
      subst h
      simp only [Bool.and_eq_true, beq_iff_eq, Bool.not_eq_true', List.contains_eq_mem, decide_eq_false_iff_not] at hc
      obtain ⟨⟨⟨⟨⟨⟨⟨h1, h2⟩, h3⟩, h4⟩, h5⟩, h6⟩, h7⟩, h8⟩ := hc
      exact ⟨⟨h1, h2, h3⟩, all_plain_eq h4, all_plain_eq h5, nodupB_nodup h6, nodupB_nodup h7, h8⟩
    · simp at h

end LyModel.Diff.UOB
