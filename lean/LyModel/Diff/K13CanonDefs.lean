import LyModel.Diff.K13Defs
/-!
# C13 over keyed lists: the decidable hypotheses of the `_keyed` theorems (definitions only; core Lean — the driver evaluates them)

`schemaOK S` (keys are leaves, enum values distinct), `keyedOK S x`, `canonOK S x` / `canonT S A` (key and leaf-list values are
canonical values of their type).  The theorems about them are in K13Canon.lean.
-/
namespace LyModel.Diff.K13
open LyModel LyModel.Tree LyModel.Diff

/-- the canonical (libyang: `lyplg_type_print_int` / `_uint`) decimal rendering of an integer -/
def intBytes (i : Int) : Bytes := bs (toString i)

/-- `v` is the canonical rendering of the number it denotes: digits without leading zeros, `-` only in front of a non-zero
number (`-0`, `007`, `+1`, the empty string are not canonical) -/
def canonIntB (v : Bytes) : Bool := v == intBytes (parseIntB v)

/-- canonical values of the seven value types of the tree base, as far as the `sort` callbacks depend on it -/
def canonV : BaseTy → Bytes → Bool
  | .string, _ => true
  | .empty, _ => true
  | .int8, v => canonIntB v
  | .uint8, v => canonIntB v
  | .int32, v => canonIntB v
  | .boolean, v => v == [116, 114, 117, 101] || v == [102, 97, 108, 115, 101]
  | .enumeration items, v => items.any fun it => bytesOfString it.1 == v

/-- the enum items have pairwise different values (YANG 9.6.4.2) -/
def tyOK : BaseTy → Bool
  | .enumeration items => decide ((items.map (·.2)).Nodup)
  | _ => true


/-- all values of a key are canonical for the type of their key leaf -/
def canonPairs (S : Schema) (l : List (Nat × Bytes)) : Bool := l.all fun p => canonV (S.ty p.1) p.2

/-- every type of the schema is fine, and list keys are leaves -/
def schemaOK (S : Schema) : Bool :=
  (List.range S.nodes.length).all fun sid => (!S.isKey sid || S.isTerm sid) && tyOK (S.ty sid)


/-- an instance of a system-ordered list carries exactly its key leaves, with canonical values; an instance of a
system-ordered leaf-list has a canonical value; nothing is asked of other nodes -/
def keyedOK (S : Schema) (x : DNode) : Bool :=
  !S.isSorted x.sid ||
    (if S.isKind x.sid .leaflist then canonV (S.ty x.sid) x.val
     else (keyPairs (keysOf S x.kids)).map Prod.fst == keySids S x.sid && canonPairs S (keyPairs (keysOf S x.kids)))


/-- key and leaf-list values are canonical (nothing about the presence of keys) -/
def canonOK (S : Schema) (x : DNode) : Bool :=
  !S.isSorted x.sid ||
    (if S.isKind x.sid .leaflist then canonV (S.ty x.sid) x.val else canonPairs S (keyPairs (keysOf S x.kids)))

/-- every list-key value and every value of a system-ordered leaf-list in the tree, at any depth, is a canonical value of its
type — what `lyd_value` stores; `decide`-able on a concrete tree -/
def canonT (S : Schema) (A : List DNode) : Bool := allPL (canonOK S) A


end LyModel.Diff.K13
