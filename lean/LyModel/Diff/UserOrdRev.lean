import LyModel.Diff.UserOrdThm
/-!
# The user-ordered list core, reversed (C13 `reverse_apply` for user-ordered (leaf-)lists, finding F15 repaired)

`UserOrd.lean` abstracts one user-ordered (leaf-)list to the identities of its instances; `diffU a b` are the operations of the
two passes of `lyd_diff_siblings_r`.  Here the operations also record the ORIGINAL anchor `lyd_diff_userord_attrs` writes
(`orig-key` / `orig-value`: the predecessor of the instance in the virtual first list just before the operation — `inst[first_pos - 1]`):
`diffU' a b`, with `(diffU' a b).map UOp'.forget = diffU a b`.

`reverseU` is what the repaired `lyd_diff_reverse_all` (second pass `lyd_diff_reverse_userord_r`, `Diff.reverseRepaired`) makes of
the operations of one list: every operation is inverted on its own — `delete` with original anchor `o` ↦ `create` anchored at `o`;
`create` anchored at `a` ↦ `delete` with original anchor `a`; `move` anchor `a`, original anchor `o` ↦ `move` anchor `o`, original
anchor `a` — and the sibling order is reversed.

`InvChain v ops w`: the operations lead from `v` to `w` one after the other and each is undone by its inverse.  The two passes of
the diff produce such a chain from `a` to `b` (`phase1'_spec`, `phase2'_spec`: the invariants of `UserOrdDel` / `UserOrdPhase2`
with the inverse step added), and a chain is undone by its reversal (`chain_reverse`).  Core Lean only.
-/
namespace LyModel.Diff.UO

/-- an operation with the original anchor of `lyd_diff_userord_attrs` -/
inductive UOp' where
  | del (k : Nat) (orig : Option Nat)
  | create (k : Nat) (anchor : Option Nat)
  | move (k : Nat) (anchor orig : Option Nat)
  deriving Repr, DecidableEq

/-- what `lyd_diff_apply_r` looks at -/
def UOp'.forget : UOp' → UOp
  | .del k _ => .del k
  | .create k a => .create k a
  | .move k a _ => .move k a

/-- the inverse operation: `create` ↔ `delete`, anchor ↔ original anchor -/
def invOp : UOp' → UOp'
  | .del k o => .create k o
  | .create k a => .del k a
  | .move k a o => .move k o a

/-- the repaired `lyd_diff_reverse_all` on the operations of one user-ordered (leaf-)list: inverse operations, reverse order -/
def reverseU (ops : List UOp') : List UOp' := (ops.map invOp).reverse

/-- apply operations that carry original anchors (`lyd_diff_apply_r` ignores them) -/
def applyU' (a : List Nat) (ops : List UOp') : Option (List Nat) := applyU a (ops.map UOp'.forget)

/-- `inst[first_pos - 1]`: the instance before `x` in the virtual list (`none`: `x` is the first one) -/
def predOf (x : Nat) (v : List Nat) : Option Nat := (v.takeWhile (· ≠ x)).getLast?

/-- phase 1 with original anchors -/
def phase1' (b : List Nat) : List Nat → List UOp' × List Nat → List UOp' × List Nat
  | [], st => st
  | x :: xs, (ops, v) => if x ∈ b then phase1' b xs (ops, v) else phase1' b xs (ops ++ [.del x (predOf x v)], v.erase x)

/-- phase 2 with original anchors -/
def phase2' (a : List Nat) : List Nat → List UOp' × List Nat × Nat → List UOp' × List Nat × Nat
  | [], st => st
  | y :: ys, (ops, v, pos) =>
    let anchor := if pos = 0 then none else v[pos-1]?
    if y ∈ a then
      if v[pos]? = some y then phase2' a ys (ops, v, pos+1)
      else phase2' a ys (ops ++ [.move y anchor (predOf y v)], insertAt (v.erase y) pos y, pos+1)
    else phase2' a ys (ops ++ [.create y anchor], insertAt v pos y, pos+1)

def diffU' (a b : List Nat) : List UOp' :=
  let (d, v) := phase1' b a ([], a)
  (phase2' a b (d, v, 0)).1

/-! ## `diffU'` is `diffU` with the original anchors added -/

theorem phase1'_forget (b : List Nat) : ∀ (todo : List Nat) (ops : List UOp') (v : List Nat),
    ((phase1' b todo (ops, v)).1.map UOp'.forget, (phase1' b todo (ops, v)).2) = phase1 b todo (ops.map UOp'.forget, v)
  | [], ops, v => rfl
  | x :: xs, ops, v => by
    by_cases hx : x ∈ b
    · simp only [phase1', phase1, hx, if_true]
      exact phase1'_forget b xs ops v
    · simp only [phase1', phase1, hx, if_false]
      have := phase1'_forget b xs (ops ++ [.del x (predOf x v)]) (v.erase x)
      simpa [UOp'.forget] using this

theorem phase2'_forget (a : List Nat) : ∀ (ys : List Nat) (ops : List UOp') (v : List Nat) (pos : Nat),
    ((phase2' a ys (ops, v, pos)).1.map UOp'.forget, (phase2' a ys (ops, v, pos)).2) = phase2 a ys (ops.map UOp'.forget, v, pos)
  | [], ops, v, pos => rfl
  | y :: ys, ops, v, pos => by
    by_cases hy : y ∈ a
    · by_cases hh : v[pos]? = some y
      · simp only [phase2', phase2, hy, if_true, hh]
        exact phase2'_forget a ys ops v (pos + 1)
      · simp only [phase2', phase2, hy, if_true, hh, if_false]
        have := phase2'_forget a ys (ops ++ [.move y (if pos = 0 then none else v[pos-1]?) (predOf y v)])
          (insertAt (v.erase y) pos y) (pos + 1)
        simpa [UOp'.forget] using this
    · simp only [phase2', phase2, hy, if_false]
      have := phase2'_forget a ys (ops ++ [.create y (if pos = 0 then none else v[pos-1]?)]) (insertAt v pos y) (pos + 1)
      simpa [UOp'.forget] using this

theorem diffU'_forget (a b : List Nat) : (diffU' a b).map UOp'.forget = diffU a b := by
  unfold diffU' diffU
  have h1 := phase1'_forget b a [] a
  simp only [List.map_nil] at h1
  have h2 := phase2'_forget a b (phase1' b a ([], a)).1 (phase1' b a ([], a)).2 0
  rw [← h1]
  exact congrArg Prod.fst h2

/-! ## chains of operations that are undone by their inverses -/

/-- the operations lead from `v` to `w`, and every one is undone by its inverse -/
def InvChain : List Nat → List UOp' → List Nat → Prop
  | v, [], w => v = w
  | v, op :: ops, w => ∃ v', applyOp (some v) op.forget = some v' ∧ applyOp (some v') (invOp op).forget = some v ∧
      InvChain v' ops w

theorem InvChain.append {v m w : List Nat} {o1 o2 : List UOp'} (h1 : InvChain v o1 m) (h2 : InvChain m o2 w) :
    InvChain v (o1 ++ o2) w := by
  induction o1 generalizing v with
  | nil => simp only [InvChain] at h1; subst h1; simpa using h2
  | cons op ops ih =>
    obtain ⟨v', f, g, r⟩ := h1
    exact ⟨v', f, g, ih r⟩

/-- a chain applied forwards -/
theorem chain_apply {v w : List Nat} {ops : List UOp'} (h : InvChain v ops w) : applyU' v ops = some w := by
  induction ops generalizing v with
  | nil => simp only [InvChain] at h; subst h; rfl
  | cons op ops ih =>
    obtain ⟨v', f, _, r⟩ := h
    unfold applyU'
    rw [List.map_cons, applyU_cons, f]
    exact ih r

/-- a chain is undone by its reversal -/
theorem chain_reverse {v w : List Nat} {ops : List UOp'} (h : InvChain v ops w) : applyU' w (reverseU ops) = some v := by
  induction ops generalizing v with
  | nil => simp only [InvChain] at h; subst h; rfl
  | cons op ops ih =>
    obtain ⟨v', _, g, r⟩ := h
    have := ih r
    unfold applyU' reverseU at this ⊢
    rw [List.map_cons, List.reverse_cons, List.map_append, applyU_append, this]
    simpa [applyU] using g

/-! ## the original anchor -/

theorem predOf_split (y : Nat) (p q : List Nat) (h : y ∉ p) : predOf y (p ++ y :: q) = anchorOf p := by
  unfold predOf anchorOf
  have : (p ++ y :: q).takeWhile (· ≠ y) = p := by
    induction p with
    | nil => simp
    | cons c cs ih =>
      have hc : c ≠ y := by intro e; exact h (by simp [e])
      have hcs : y ∉ cs := by intro e; exact h (by simp [e])
      have ih' := ih hcs
      simp only [ne_eq, decide_not] at ih' ⊢
      simp [hc, ih']
  rw [this]

/-! ## the two passes produce a chain -/

theorem phase1'_spec (b : List Nat) (todo kept : List Nat) (ops : List UOp') (nd : (kept ++ todo).Nodup) :
    ∃ ops', phase1' b todo (ops, kept ++ todo) = (ops ++ ops', kept ++ todo.filter (fun x => decide (x ∈ b))) ∧
      InvChain (kept ++ todo) ops' (kept ++ todo.filter (fun x => decide (x ∈ b))) := by
  induction todo generalizing kept ops with
  | nil => exact ⟨[], by simp [phase1'], by simp [InvChain]⟩
  | cons x xs ih =>
    by_cases hx : x ∈ b
    · obtain ⟨ops', e1, e2⟩ := ih (kept ++ [x]) ops (by simpa using nd)
      simp only [List.append_assoc, List.singleton_append] at e1 e2
      exact ⟨ops', by simpa [phase1', hx] using e1, by simpa [hx] using e2⟩
    · have hk : x ∉ kept := by
        intro hk
        exact (List.nodup_append.mp nd).2.2 x hk x (by simp) rfl
      have ndk : kept.Nodup := (List.nodup_append.mp nd).1
      have hxs : x ∉ xs := (List.nodup_cons.mp (List.nodup_append.mp nd).2.1).1
      have nd' : (kept ++ xs).Nodup := by
        have := nd
        simp only [List.nodup_append, List.nodup_cons] at this ⊢
        refine ⟨this.1, this.2.1.2, ?_⟩
        intro a ha b hb
        exact this.2.2 a ha b (by simp [hb])
      obtain ⟨ops', e1, e2⟩ := ih kept (ops ++ [.del x (predOf x (kept ++ x :: xs))]) nd'
      refine ⟨.del x (predOf x (kept ++ x :: xs)) :: ops', ?_, ?_⟩
      · simp only [phase1', hx, if_false, erase_split x kept xs hk]
        simpa [hx] using e1
      · refine ⟨kept ++ xs, ?_, ?_, by simpa [hx] using e2⟩
        · simp [applyOp, UOp'.forget, erase_split x kept xs hk]
        · rw [predOf_split x kept xs hk]
          simp only [invOp, UOp'.forget, applyOp, Option.bind_some, List.mem_append, hk, hxs, or_self, if_false]
          exact insertAfter_anchor kept xs x ndk

/-- `phase2_spec` (UserOrdPhase2.lean) with the chain in place of the forward application -/
theorem phase2'_spec (a : List Nat) (ys pre rest : List Nat) (ops : List UOp')
    (ndb : (pre ++ ys).Nodup) (ndv : (pre ++ rest).Nodup)
    (h1 : ∀ x, x ∈ rest → x ∈ ys) (h2 : ∀ y, y ∈ ys → y ∈ a → y ∈ rest) (h3 : ∀ x, x ∈ rest → x ∈ a) :
    ∃ ops', phase2' a ys (ops, pre ++ rest, pre.length) = (ops ++ ops', pre ++ ys, (pre ++ ys).length) ∧
            InvChain (pre ++ rest) ops' (pre ++ ys) := by
  induction ys generalizing pre rest ops with
  | nil =>
    have : rest = [] := by
      cases rest with
      | nil => rfl
      | cons r rs => exact absurd (h1 r (by simp)) (by simp)
    subst this
    exact ⟨[], by simp [phase2'], by simp [InvChain]⟩
  | cons y ys ih =>
    have ndpre : pre.Nodup := (List.nodup_append.mp ndb).1
    have ypre : y ∉ pre := by
      intro hy; exact (List.nodup_append.mp ndb).2.2 y hy y (by simp) rfl
    have yys : y ∉ ys := by
      have := (List.nodup_append.mp ndb).2.1
      exact (List.nodup_cons.mp this).1
    have ndb' : ((pre ++ [y]) ++ ys).Nodup := by simpa using ndb
    by_cases hya : y ∈ a
    · have hyr : y ∈ rest := h2 y (by simp) hya
      obtain ⟨r1, r2, hr, hyr1⟩ : ∃ r1 r2, rest = r1 ++ y :: r2 ∧ y ∉ r1 := by
        obtain ⟨s, t, hst⟩ := List.append_of_mem hyr
        induction s generalizing rest with
        | nil => exact ⟨[], t, hst, by simp⟩
        | cons c cs _ =>
          refine ⟨c :: cs, t, hst, ?_⟩
          have ndr : rest.Nodup := (List.nodup_append.mp ndv).2.1
          rw [hst] at ndr
          intro hmem
          exact (List.nodup_append.mp ndr).2.2 y hmem y (by simp) rfl
      subst hr
      have ndv' : ((pre ++ [y]) ++ (r1 ++ r2)).Nodup := by
        have := ndv
        simp only [List.nodup_append, List.nodup_cons, List.mem_append, List.mem_cons] at this ⊢
        grind
      have h1' : ∀ x, x ∈ r1 ++ r2 → x ∈ ys := by
        intro x hx
        have hx' : x ∈ r1 ++ y :: r2 := by
          simp only [List.mem_append, List.mem_cons] at hx ⊢; grind
        have := h1 x hx'
        have hne : x ≠ y := by
          intro e; subst e
          have := (List.nodup_append.mp ndv).2.1
          simp only [List.nodup_append, List.nodup_cons, List.mem_append] at this hx
          grind
        simpa [hne] using this
      have h2' : ∀ z, z ∈ ys → z ∈ a → z ∈ r1 ++ r2 := by
        intro z hz hza
        have := h2 z (by simp [hz]) hza
        have hne : z ≠ y := by intro e; subst e; exact yys hz
        simp only [List.mem_append, List.mem_cons] at this ⊢; grind
      have h3' : ∀ x, x ∈ r1 ++ r2 → x ∈ a := by
        intro x hx; apply h3; simp only [List.mem_append, List.mem_cons] at hx ⊢; grind
      by_cases hhead : (pre ++ (r1 ++ y :: r2))[pre.length]? = some y
      · -- already in place: r1 must be empty
        have hr1 : r1 = [] := by
          rw [getElem?_at_len] at hhead
          cases r1 with
          | nil => rfl
          | cons c cs => simp at hhead; subst hhead; exact absurd (by simp) hyr1
        subst hr1
        obtain ⟨ops', e1, e2⟩ := ih (pre ++ [y]) r2 ops ndb' (by simpa using ndv') (by simpa using h1')
          (by simpa using h2') (by simpa using h3')
        refine ⟨ops', ?_, ?_⟩
        · have hh : (pre ++ y :: r2)[pre.length]? = some y := by simp
          simp only [phase2', hya, if_true, hh, List.nil_append]
          simpa using e1
        · simpa using e2
      · -- move
        have hpo : predOf y (pre ++ (r1 ++ y :: r2)) = anchorOf (pre ++ r1) := by
          rw [← List.append_assoc]
          exact predOf_split y (pre ++ r1) r2 (by simp [ypre, hyr1])
        have ndpr : (pre ++ r1).Nodup := by
          have := ndv
          simp only [List.nodup_append, List.nodup_cons, List.mem_append, List.mem_cons] at this ⊢
          grind
        obtain ⟨ops', e1, e2⟩ := ih (pre ++ [y]) (r1 ++ r2) (ops ++ [.move y (anchorOf pre) (anchorOf (pre ++ r1))]) ndb' ndv'
          h1' h2' h3'
        have her : (pre ++ (r1 ++ y :: r2)).erase y = pre ++ (r1 ++ r2) := by
          rw [← List.append_assoc, erase_split y (pre ++ r1) r2 (by simp [ypre, hyr1]), List.append_assoc]
        refine ⟨.move y (anchorOf pre) (anchorOf (pre ++ r1)) :: ops', ?_, ?_⟩
        · simp only [phase2', hya, if_true, hhead, if_false, anchor_eq, her, insertAt_left, hpo]
          simpa using e1
        · refine ⟨pre ++ y :: (r1 ++ r2), ?_, ?_, by simpa using e2⟩
          · simp only [UOp'.forget, applyOp, Option.bind_some, List.mem_append, List.mem_cons, true_or, or_true, if_true, her]
            exact insertAfter_anchor pre (r1 ++ r2) y ndpre
          · have her2 : (pre ++ y :: (r1 ++ r2)).erase y = (pre ++ r1) ++ r2 := by
              rw [erase_split y pre (r1 ++ r2) ypre, List.append_assoc]
            simp only [invOp, UOp'.forget, applyOp, Option.bind_some, List.mem_append, List.mem_cons, true_or, or_true,
              if_true, her2]
            rw [insertAfter_anchor (pre ++ r1) r2 y ndpr, List.append_assoc]
    · -- create
      have hyr : y ∉ rest := fun h => hya (h3 y h)
      have ndv' : ((pre ++ [y]) ++ rest).Nodup := by
        have := ndv
        simp only [List.nodup_append, List.nodup_cons, List.mem_append, List.mem_cons] at this ⊢
        grind
      have h1' : ∀ x, x ∈ rest → x ∈ ys := by
        intro x hx
        have := h1 x hx
        have hne : x ≠ y := by intro e; subst e; exact hyr hx
        simpa [hne] using this
      have h2' : ∀ z, z ∈ ys → z ∈ a → z ∈ rest := fun z hz hza => h2 z (by simp [hz]) hza
      obtain ⟨ops', e1, e2⟩ := ih (pre ++ [y]) rest (ops ++ [.create y (anchorOf pre)]) ndb' ndv' h1' h2' h3
      refine ⟨.create y (anchorOf pre) :: ops', ?_, ?_⟩
      · simp only [phase2', hya, if_false, anchor_eq, insertAt_left]
        simpa using e1
      · refine ⟨pre ++ y :: rest, ?_, ?_, by simpa using e2⟩
        · simp only [UOp'.forget, applyOp, Option.bind_some, List.mem_append, ypre, hyr, or_self, if_false]
          exact insertAfter_anchor pre rest y ndpre
        · simp [invOp, UOp'.forget, applyOp, erase_split y pre rest ypre]

/-- the operations of `diffU' a b` lead from `a` to `b`, each undone by its inverse -/
theorem diffU'_chain (a b : List Nat) (nda : a.Nodup) (ndb : b.Nodup) : InvChain a (diffU' a b) b := by
  obtain ⟨o1, p1, c1⟩ := phase1'_spec b a [] [] (by simpa using nda)
  simp only [List.nil_append] at p1 c1
  obtain ⟨o2, p2, c2⟩ := phase2'_spec a b [] (a.filter fun x => decide (x ∈ b)) o1
    (by simpa using ndb) (by simp only [List.nil_append]; exact List.Pairwise.filter (fun x => decide (x ∈ b)) nda)
    (by intro x hx; simpa using (List.mem_filter.mp hx).2)
    (by intro y hy hya; exact List.mem_filter.mpr ⟨hya, by simpa using hy⟩)
    (by intro x hx; exact (List.mem_filter.mp hx).1)
  simp only [List.nil_append, List.length_nil] at p2 c2
  have : diffU' a b = o1 ++ o2 := by
    unfold diffU'
    rw [p1]
    show (phase2' a b (o1, List.filter (fun x => decide (x ∈ b)) a, 0)).1 = o1 ++ o2
    rw [p2]
  rw [this]
  exact c1.append c2

end LyModel.Diff.UO
