import LyModel.Diff.Obs13
/-!
# C13: what the theorems assume about trees and diffs (executable predicates)

* `goodT S T` — a data tree of the fragment: every node is an instance of a data node that is not user-ordered, of the shape
  (term / inner) its schema node says, and every sibling list is in libyang's order (`nlt`: schema order, then the `sort`
  callback for system-ordered lists and leaf-lists), which makes the instances of a sibling list distinct; list keys come first.
* `exactK S none A false D` — `D` is an *exact* diff for the tree `A`: every diff node addresses a different instance
  (`matchP`) of a schema node that follows the list keys of the parent, and says the truth about it — `create`: no such instance in `A`, the subtree to create is a plain good tree;
  `delete`: the instance is in `A` and equals the recorded subtree (default flags included); `replace` (leaf): `orig-value` /
  `orig-default` are the value and flag in `A`, and the new value differs; `none`: leaf / leaf-list instance — same value,
  `orig-default` is the flag in `A`; inner node — at least one non-key child, and the children are an exact diff for the
  children of the instance.
  This is what `lyd_diff_siblings(A, B, LYD_DIFF_DEFAULTS)` produces on the fragment (checked for every generated case by
  `tools/checks/c13.py`, op `exact`); *without* `LYD_DIFF_DEFAULTS` diffs are not exact as soon as default nodes are involved —
  that is finding F18(a).
Core Lean only (the driver evaluates these predicates).
-/
namespace LyModel.Diff
open LyModel LyModel.Tree

def isLL (S : Schema) (sid : Nat) : Bool := S.isKind sid .list || S.isKind sid .leaflist

/-- `x` precedes `y` in the order `lyd_insert_node` maintains -/
def nlt (S : Schema) (x y : DNode) : Bool :=
  decide (x.sid < y.sid) || (x.sid == y.sid && S.isSorted x.sid && cmpInst S x y == .lt)

/-- the predicate of `findForApply`: `x` is the instance the diff node `d` addresses -/
def matchP (S : Schema) (d x : DNode) : Bool := x.sid == d.sid && (!isLL S d.sid || instMatch S d x)

/-- instance of a data node that is not user-ordered, of the right shape -/
def domB (S : Schema) (x : DNode) : Bool :=
  !S.isUserOrd x.sid && !S.isDupInst x.sid && (x.isTerm == S.isTerm x.sid)

/-- the list keys come first among the siblings -/
def keysLead (S : Schema) (l : List DNode) : Bool := (noKeys S l).all (fun x => !S.isKey x.sid)

mutual
def goodN (S : Schema) : DNode → Bool
  | .inner s f m ks => domB S (.inner s f m ks) && goodL S ks && keysLead S ks
  | .term s f m v => domB S (.term s f m v)
def goodL (S : Schema) : List DNode → Bool
  | [] => true
  | x :: xs => goodN S x && xs.all (nlt S x) && goodL S xs
end

/-- a good sibling list -/
def goodT (S : Schema) (l : List DNode) : Bool := goodL S l && keysLead S l

mutual
/-- no metadata anywhere: the copies `lyd_diff_add` puts below a created / deleted node -/
def plainN : DNode → Bool
  | .inner _ _ m ks => m.isEmpty && plainL ks
  | .term _ _ m _ => m.isEmpty
def plainL : List DNode → Bool
  | [] => true
  | x :: xs => plainN x && plainL xs
end

def metaOKB (d : DNode) : Bool := decide ((d.metas.map (·.1)).Nodup)

mutual
/-- `d` is exact for the instance `e` found at its place (`none`: there is none) -/
def exactE (S : Schema) (inh : Option Op) (e : Option DNode) : DNode → Bool
  | .inner s f m ks =>
    domB S (.inner s f m ks) && metaOKB (.inner s f m ks) && !S.isKey s &&
    match effOp (.inner s f m ks) inh, e with
    | some .create, none => plainL ks && goodT S ks
    | some .delete, some x => dataEq true x (.inner s f m ks) && plainL ks && goodT S ks
    | some .none, some x => !(noKeys S ks).isEmpty && exactK S (childInhOf (.inner s f m ks) inh) x.kids true ks
    | _, _ => false
  | .term s f m v =>
    domB S (.term s f m v) && metaOKB (.term s f m v) && !S.isKey s &&
    match effOp (.term s f m v) inh, e with
    | some .create, none => true
    | some .delete, some x => dataEq true x (.term s f m v)
    | some .replace, some x =>
      S.isKind s .leaf && getMeta (.term s f m v) "orig-value" == some x.val &&
        getMeta (.term s f m v) "orig-default" == some (boolBytes x.flags.dflt) && v != x.val
    | some .none, some x => x.val == v && getMeta (.term s f m v) "orig-default" == some (boolBytes x.flags.dflt)
    | _, _ => false
/-- the children `cs` of a diff node (leading keys skipped when `leading`) are an exact diff for the sibling list `L` -/
def exactK (S : Schema) (inh : Option Op) (L : List DNode) : (leading : Bool) → List DNode → Bool
  | _, [] => true
  | leading, c :: cs =>
    if leading && S.isKey c.sid then exactK S inh L true cs
    else exactE S inh (L.find? (matchP S c)) c && (keysOf S L).all (fun k => decide (k.sid < c.sid)) &&
      cs.all (fun c' => !matchP S c c') && exactK S inh L false cs
end

/-- `D` is an exact diff for the data tree `A` -/
def exactDiff (S : Schema) (A D : List DNode) : Bool := exactK S none A false D

-- `noUserOrdN` / `noUserOrdL` (the diff touches no user-ordered node) are defined in Diff/Reverse.lean

end LyModel.Diff
