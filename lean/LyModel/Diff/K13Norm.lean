import LyModel.Diff.K13Apply
import LyModel.Diff.Lemmas13Norm
/-!
# C13 over keyed lists: normal forms and created subtrees

The declarations of `Lemmas13Norm.lean` that depend on the fragment predicates, restated for the predicates relative to `P`
(K13Defs.lean) and the hypothesis `KeyOrderOn S P` (K13Ord.lean); the proofs are the same, with `P` carried along.  Lemmas of
`Lemmas13Norm.lean` that do not mention the predicates are used as they are.
-/
set_option linter.unusedSimpArgs false
namespace LyModel.Diff.K13
open LyModel LyModel.Tree LyModel.Diff

variable {P : DNode → Bool} {fx : Fixes}

theorem keyPairs_normL (l : List DNode) : keyPairs (normL13 l) = keyPairs l := by
  rw [normL_eq_map13]
  simp [keyPairs, List.map_map, Function.comp_def]

/-- `P` does not look at what `normN` removes -/
theorem P_normN {S : Schema} (hP : PInv S P) (x : DNode) : P (normN x) = P x :=
  hP.pcongr (sid_normN x) (val_normN x) (by rw [kids_normN, keysOf_normL, keyPairs_normL])

theorem P_congr_norm {S : Schema} (hP : PInv S P) {x x' : DNode} (h : normN x = normN x') : P x = P x' := by
  rw [← P_normN hP x, ← P_normN hP x', h]

theorem domB_normN {S : Schema} (hP : PInv S P) (x : DNode) : domB S P (normN x) = domB S P x := by
  simp only [domB, Diff.domB_normN, P_normN hP]

mutual
theorem goodN_normN {S : Schema} (hP : PInv S P) : ∀ x, goodN S P (normN x) = goodN S P x
  | .inner s f m ks => by
    have h := domB_normN hP (.inner s f m ks)
    simp only [normN] at h
    simp only [normN, goodN, goodL_normL hP ks, keysLead_normL, h]
  | .term s f m v => by
    have h := domB_normN hP (.term s f m v)
    simp only [normN] at h
    simp only [normN, goodN, h]
theorem goodL_normL {S : Schema} (hP : PInv S P) : ∀ l, goodL S P (normL13 l) = goodL S P l
  | [] => rfl
  | x :: xs => by
    simp only [normL13, goodL, goodN_normN hP x, goodL_normL hP xs]
    congr 2
    rw [normL_eq_map13, List.all_map]
    apply List.all_congr rfl
    intro y
    exact nlt_normN S x y
end

theorem goodT_normL {S : Schema} (hP : PInv S P) (l : List DNode) : goodT S P (normL13 l) = goodT S P l := by
  simp only [goodT, goodL_normL hP, keysLead_normL]

theorem goodT_congr_norm {S : Schema} (hP : PInv S P) {l l' : List DNode} (h : normL13 l = normL13 l') :
    goodT S P l = goodT S P l' := by
  rw [← goodT_normL hP l, ← goodT_normL hP l', h]

theorem goodN_congr_norm {S : Schema} (hP : PInv S P) {x x' : DNode} (h : normN x = normN x') : goodN S P x = goodN S P x' := by
  rw [← goodN_normN hP x, ← goodN_normN hP x', h]

theorem goodL_congr_norm {S : Schema} (hP : PInv S P) {l l' : List DNode} (h : normL13 l = normL13 l') :
    goodL S P l = goodL S P l' := by
  rw [← goodL_normL hP l, ← goodL_normL hP l', h]

theorem matchP_refl {S : Schema} (K : KeyOrderOn S P) {x : DNode} (hx : Dom S P x) : matchP S x x = true :=
  (ordOf S K).same_refl hx

theorem matchP_symm {S : Schema} (K : KeyOrderOn S P) {x y : DNode} (hx : Dom S P x) (hy : Dom S P y) :
    matchP S x y = matchP S y x := by
  cases h : matchP S x y
  · cases h2 : matchP S y x
    · rfl
    · have h3 : matchP S x y = true := (ordOf S K).same_symm hy hx h2
      rw [h3] at h
      exact absurd h (by decide)
  · have h3 : matchP S y x = true := (ordOf S K).same_symm hx hy h
    exact h3.symm

/-- probes see the same thing in two versions of one instance -/
theorem matchP_right_congr {S : Schema} (K : KeyOrderOn S P) {q c x : DNode} (hq : Dom S P q) (hc : Dom S P c) (hx : Dom S P x)
    (h : matchP S c x = true) : matchP S q x = matchP S q c := by
  cases h1 : matchP S q c
  · cases h2 : matchP S q x
    · rfl
    · have h3 : matchP S q c = true := (ordOf S K).same_trans hq hx hc h2 ((ordOf S K).same_symm hc hx h)
      rw [h1] at h3
      exact absurd h3 (by decide)
  · have h3 : matchP S q x = true := (ordOf S K).same_trans hq hc hx h1 h
    exact h3

theorem matchP_left_congr {S : Schema} (K : KeyOrderOn S P) {q c x : DNode} (hq : Dom S P q) (hc : Dom S P c) (hx : Dom S P x)
    (h : matchP S c x = true) : matchP S x q = matchP S c q := by
  rw [matchP_symm K hx hq, matchP_symm K hc hq]
  exact matchP_right_congr K hq hc hx h

theorem look_congr {S : Schema} (K : KeyOrderOn S P) {l : List DNode} (hg : goodL S P l = true) {p q : DNode} (hp : Dom S P p)
    (hq : Dom S P q) (h : matchP S p q = true) : look S l p = look S l q :=
  (ordOf S K).find?_congr (goodL_allDom K hg) hp hq h

theorem look_self {S : Schema} (K : KeyOrderOn S P) {l : List DNode} (hg : goodL S P l = true) {x : DNode} (hx : x ∈ l) :
    look S l x = some x := by
  obtain ⟨i, hi, hix⟩ := List.getElem_of_mem hx
  have hget : l[i]? = some x := by simp [hi, hix]
  have hxd := goodL_allDom K hg x hx
  exact ((ordOf S K).find?_same_unique (goodL_allDom K hg) (goodL_sorted K hg) hxd hget (matchP_refl K hxd)).1

/-- two good sibling lists with the same lookups up to `normN` are equal up to `normN` -/
theorem normL_eq_of_look {S : Schema} (K : KeyOrderOn S P) {l₁ l₂ : List DNode} (h₁ : goodL S P l₁ = true) (h₂ : goodL S P l₂ = true)
    (h : ∀ q, Dom S P q → (look S l₁ q).map normN = (look S l₂ q).map normN) : normL13 l₁ = normL13 l₂ := by
  have key : KL.All₂ (fun x y => normN x = normN y) l₁ l₂ := by
    apply (ordOf S K).forall2_of_find? (R := fun x y => normN x = normN y) (goodL_allDom K h₁) (goodL_allDom K h₂) (goodL_sorted K h₁) (goodL_sorted K h₂)
    · intro x hx
      have hxd := goodL_allDom K h₁ x hx
      have := h x hxd
      rw [look_self K h₁ hx] at this
      cases h2 : look S l₂ x with
      | none => simp [h2] at this
      | some y =>
        simp only [h2, Option.map_some, Option.some.injEq] at this
        exact ⟨y, h2, this⟩
    · intro y hy
      have hyd := goodL_allDom K h₂ y hy
      have := h y hyd
      rw [look_self K h₂ hy] at this
      cases h1 : look S l₁ y with
      | none => simp [h1] at this
      | some x =>
        simp only [h1, Option.map_some, Option.some.injEq] at this
        exact ⟨x, h1, this⟩
  clear h h₁ h₂
  induction key with
  | nil => rfl
  | cons hab _ ih => simp [normL13, hab, ih]

theorem goodN_mkCreated {S : Schema} (hP : PInv S P) (x : DNode) : goodN S P (mkCreated x) = goodN S P x :=
  goodN_congr_norm hP (normN_mkCreated x)

/-- the copy `lyd_dup_single` makes of the keys is the created form of the keys -/
theorem dupSingle_kids {S : Schema} (K : KeyOrderOn S P) {d : DNode} (hg : goodN S P d = true) :
    (dupSingle S d).kids = mkCreatedL (keysOf S d.kids) := by
  cases d with
  | term s f m v => simp [dupSingle, DNode.kids, keysOf, mkCreatedL]
  | inner s f m ks =>
    simp only [dupSingle, DNode.kids]
    have hk : ∀ k ∈ keysOf S ks, k.isTerm = true := by
      intro k hk
      have hkm : k ∈ ks := (List.takeWhile_sublist _).subset hk
      have hgl : goodL S P ks = true := goodN_kids hg
      have hd := goodL_allDom K hgl k hkm
      rw [hd.typed]
      exact K.keyTerm (mem_keysOf_isKey hk)
    generalize keysOf S ks = kk at hk
    induction kk with
    | nil => rfl
    | cons k ks' ih =>
      have h1 := hk k (List.mem_cons_self ..)
      simp only [List.map_cons, mkCreatedL]
      rw [ih (fun x hx => hk x (List.mem_cons_of_mem _ hx))]
      cases k with
      | inner => simp [DNode.isTerm] at h1
      | term s' f' m' v' => rfl

/-- the loop that creates the children of a created node: every child lands behind the ones created before it -/
theorem applyF_create {S : Schema} (K : KeyOrderOn S P) {n : Nat} {hp : Bool}
    (IH : ∀ c L, c.height ≤ n → plainN c = true → goodN S P c = true →
      applyNode S fx n L hp (some .create) c = .ok (insertNode S L (mkCreated c)))
    (rest pre : List DNode) (hg : goodL S P (pre ++ rest) = true) (hpl : plainL rest = true) (hh : heightL rest ≤ n) :
    applyF S fx n hp (some .create) rest (mkCreatedL pre) = .ok (mkCreatedL (pre ++ rest)) := by
  induction rest generalizing pre with
  | nil => simp [applyF_nil]
  | cons c cs ih =>
    have hgs := (goodL_iff K).mp hg
    have hc_mem : c ∈ pre ++ c :: cs := by simp
    have hgc : goodN S P c = true := hgs.2 c hc_mem
    have hcd := goodN_dom hgc
    simp only [plainL, Bool.and_eq_true] at hpl
    have hhc : c.height ≤ n := Nat.le_trans (height_le_heightL (List.mem_cons_self ..)) hh
    have hhcs : heightL cs ≤ n := Nat.le_trans (Nat.le_max_right ..) hh
    rw [applyF_cons, IH c _ hhc hpl.1 hgc]
    have hend : insertNode S (mkCreatedL pre) (mkCreated c) = mkCreatedL pre ++ [mkCreated c] := by
      apply insertNode_at_end
      intro y hy
      obtain ⟨x, hx, rfl⟩ := mem_mkCreatedL hy
      have hxd := goodL_allDom K hg x (List.mem_append_left _ hx)
      rw [nlt_congr_norm (normN_mkCreated c) (normN_mkCreated x)]
      have hlt : nlt S x c = true := by
        have := hgs.1
        simp only [KL.Ord.Sorted, List.pairwise_append, List.pairwise_cons] at this
        exact this.2.2 x hx c (List.mem_cons_self ..)
      exact (ordOf S K).asymm hxd hcd hlt
    simp only [Except.bind, hend]
    have : mkCreatedL pre ++ [mkCreated c] = mkCreatedL (pre ++ [c]) := by
      simp [mkCreatedL_append, mkCreatedL]
    rw [this, ih (pre ++ [c]) (by simpa using hg) hpl.2 hhcs]
    simp

/-- `create` with a plain good subtree (the operation is inherited): `lyd_insert_node` of the created form -/
theorem apply_create_plain {S : Schema} (K : KeyOrderOn S P) : ∀ (n : Nat) (hp : Bool) (c L : _), c.height ≤ n → plainN c = true →
    goodN S P c = true → applyNode S fx n L hp (some .create) c = .ok (insertNode S L (mkCreated c)) := by
  intro n
  induction n with
  | zero =>
    intro hp c L hh
    have := height_pos13 c
    omega
  | succ n ih =>
    intro hp c L hh hpl hg
    have hd := goodN_dom hg
    rw [applyNode_succ_nuo hd.nuo]
    have hop : effOp c (some .create) = some .create := by simp [effOp, plainN_ownOp hpl]
    have hci : childInhOf c (some .create) = some .create := childInh_of_effOp_create hop
    simp only [hop, hci]
    have hkids : heightL c.kids ≤ n := by
      cases c with
      | term => simp [DNode.kids, heightL]
      | inner s f m ks =>
        simp only [DNode.height] at hh
        simp only [DNode.kids]
        omega
    have := applyF_create K (n := n) (hp := true) (fun c' L' h1 h2 h3 => ih true c' L' h1 h2 h3) (noKeys S c.kids)
      (keysOf S c.kids) (by rw [keysOf_append_noKeys]; exact goodN_kids hg)
      (plainL_of_sub (plainN_kids hpl) (fun x hx => (List.dropWhile_sublist _).subset hx))
      (Nat.le_trans (heightL_noKeys_le S c.kids) hkids)
    rw [dupSingle_kids K hg, this, keysOf_append_noKeys]
    simp only [Except.bind, dupSingle_setKids]

end LyModel.Diff.K13
