import LyModel.Diff.Lemmas13Ord
/-!
# C13 helper lemmas: `applyNode` on the fragment, good trees, normal forms

* `applyNode_succ_nuo` — one step of `lyd_diff_apply_r` for a node that is not user-ordered, operation by operation;
* `goodL` as `Sorted ∧ AllDom` of the keyed-list theory, and the three list-level effects of apply — insert
  (`good_insertNode`), erase (`good_eraseIdx`), update in place (`good_set`) — with the lookups after them;
* `normN` — a node without metadata, `LYD_NEW`, `LYD_WHEN_TRUE` and container flags: `dataEq true x y ↔ normN x = normN y`;
  order, instance matching and goodness do not depend on what `normN` removes.
-/
set_option linter.unusedSimpArgs false
namespace LyModel.Diff
open LyModel LyModel.Tree

variable {fx : Fixes}

/-- the loop over the diff children in `lyd_diff_apply_r` (also the loop of `lyd_diff_apply_all` over the roots) -/
def applyF (S : Schema) (fx : Fixes) (n : Nat) (hp : Bool) (inh : Option Op) (ds : List DNode) (data : List DNode) :
    Except AErr (List DNode) :=
  ds.foldlM (fun ks c => applyNode S fx n ks hp inh c) data

theorem applyF_nil {S : Schema} {n : Nat} {hp : Bool} {inh : Option Op} {data : List DNode} :
    applyF S fx n hp inh [] data = .ok data := rfl

theorem applyF_cons {S : Schema} {n : Nat} {hp : Bool} {inh : Option Op} {d : DNode} {ds data : List DNode} :
    applyF S fx n hp inh (d :: ds) data = (applyNode S fx n data hp inh d).bind (applyF S fx n hp inh ds) := by
  simp only [applyF, List.foldlM_cons]
  rfl

theorem apply_eq_applyF (S : Schema) (data D : List DNode) :
    apply S data D fx = applyF S fx (heightL D + 1) false none D data := rfl

/-- one step of `lyd_diff_apply_r` for a node that is not user-ordered (whatever repairs `fx` are in place: they concern
user-ordered nodes only) -/
theorem applyNode_succ_nuo {S : Schema} {n : Nat} {sibs : List DNode} {hp : Bool} {inh : Option Op} {d : DNode}
    (huo : S.isUserOrd d.sid = false) :
    applyNode S fx (n + 1) sibs hp inh d =
      match effOp d inh with
      | none => .error .eint
      | some .none =>
        match findForApply S sibs d with
        | none => .error .einval
        | some i =>
          match sibs[i]? with
          | none => .error .einval
          | some m =>
            if m.isTerm then .ok (sibs.set i (m.setDflt d.flags.dflt))
            else if (noKeys S d.kids).isEmpty then .error .einval
            else (applyF S fx n true (childInhOf d inh) (noKeys S d.kids) m.kids).bind fun ks => .ok (sibs.set i (m.setKids ks))
      | some .create =>
        (applyF S fx n true (childInhOf d inh) (noKeys S d.kids) (dupSingle S d).kids).bind fun ks =>
          .ok (insertNode S sibs ((dupSingle S d).setKids ks))
      | some .delete =>
        match findForApply S sibs d with
        | none => .error .einval
        | some i => .ok (sibs.eraseIdx i)
      | some .replace =>
        if !S.isKind d.sid .leaf then .error .einval else
        match findForApply S sibs d with
        | none => .error .einval
        | some i =>
          match sibs[i]? with
          | none => .error .einval
          | some m =>
            if m.val == d.val && !m.flags.dflt then .error .einval
            else .ok (sibs.set i ((m.setVal d.val).setFlags d.flags)) := by
  show applyStep S fx (applyNode S fx n) sibs hp inh d = _
  unfold applyStep
  cases h : effOp d inh with
  | none => rfl
  | some o =>
    simp only [huo, Bool.false_and, Bool.false_eq_true, ↓reduceIte]
    cases o with
    | none => simp only [applyNone, applyKids, huo, Bool.and_false, Bool.false_eq_true, ↓reduceIte, applyF]; rfl
    | create => simp only [applyCreate, applyKids, huo, Bool.and_false, Bool.false_eq_true, ↓reduceIte, applyF]; rfl
    | delete => rfl
    | replace => rfl

/-! ## heights -/

theorem height_le_heightL {x : DNode} {l : List DNode} (h : x ∈ l) : x.height ≤ heightL l := by
  induction l with
  | nil => cases h
  | cons y ys ih =>
    simp only [heightL]
    rcases List.mem_cons.mp h with rfl | h
    · exact Nat.le_max_left ..
    · exact Nat.le_trans (ih h) (Nat.le_max_right ..)

theorem heightL_cons (x : DNode) (l : List DNode) : heightL (x :: l) = Nat.max x.height (heightL l) := rfl

theorem height_inner (s : Nat) (f : Flags) (m : List Meta) (ks : List DNode) :
    (DNode.inner s f m ks).height = heightL ks + 1 := rfl

theorem height_pos13 (x : DNode) : 0 < x.height := by cases x <;> simp [DNode.height]

theorem heightL_le_of_sublist {l l' : List DNode} (h : ∀ x ∈ l, x ∈ l') : heightL l ≤ heightL l' := by
  induction l with
  | nil => exact Nat.zero_le _
  | cons y ys ih =>
    simp only [heightL]
    exact Nat.max_le.mpr ⟨height_le_heightL (h y (List.mem_cons_self ..)), ih (fun x hx => h x (List.mem_cons_of_mem _ hx))⟩

theorem heightL_noKeys_le (S : Schema) (ks : List DNode) : heightL (noKeys S ks) ≤ heightL ks :=
  heightL_le_of_sublist (fun _ hx => (List.dropWhile_sublist _).subset hx)

/-! ## carrier and goodness as propositions -/

theorem domB_iff {S : Schema} {x : DNode} : domB S x = true ↔ Dom S x := by
  simp only [domB, Bool.and_eq_true, Bool.not_eq_eq_eq_not, Bool.not_true, beq_iff_eq]
  exact ⟨fun ⟨⟨a, b⟩, c⟩ => ⟨a, b, c⟩, fun h => ⟨⟨h.nuo, h.ndi⟩, h.typed⟩⟩

theorem goodN_dom {S : Schema} {x : DNode} (h : goodN S x = true) : Dom S x := by
  cases x <;> simp only [goodN, Bool.and_eq_true] at h
  · exact domB_iff.mp h.1.1
  · exact domB_iff.mp h

theorem goodN_kids {S : Schema} {x : DNode} (h : goodN S x = true) : goodL S x.kids = true := by
  cases x <;> simp only [goodN, Bool.and_eq_true] at h
  · exact h.1.2
  · simp [DNode.kids, goodL]

theorem goodT_nil (S : Schema) : goodT S [] = true := by simp [goodT, goodL, keysLead, noKeys]

theorem goodT_goodL {S : Schema} {l : List DNode} (h : goodT S l = true) : goodL S l = true := by
  simp only [goodT, Bool.and_eq_true] at h
  exact h.1

theorem goodT_lead {S : Schema} {l : List DNode} (h : goodT S l = true) : keysLead S l = true := by
  simp only [goodT, Bool.and_eq_true] at h
  exact h.2

theorem goodN_iff {S : Schema} {x : DNode} : goodN S x = true ↔ Dom S x ∧ goodT S x.kids = true := by
  cases x with
  | inner s f m ks =>
    simp only [goodN, goodT, Bool.and_eq_true, DNode.kids, domB_iff]
    exact ⟨fun ⟨⟨a, b⟩, c⟩ => ⟨a, b, c⟩, fun ⟨a, b, c⟩ => ⟨⟨a, b⟩, c⟩⟩
  | term s f m v =>
    simp only [goodN, DNode.kids, goodT_nil, and_true, domB_iff]

theorem goodN_kidsT {S : Schema} {x : DNode} (h : goodN S x = true) : goodT S x.kids = true := (goodN_iff.mp h).2

theorem keysLead_iff {S : Schema} {l : List DNode} : keysLead S l = true ↔ KL.Lead (fun x => S.isKey x.sid) l := by
  simp [keysLead, KL.Lead, noKeys]

theorem goodL_iff {S : Schema} (K : KeyOrder S) {l : List DNode} :
    goodL S l = true ↔ (ordOf S K).Sorted l ∧ ∀ x ∈ l, goodN S x = true := by
  induction l with
  | nil => simp [goodL, KL.Ord.Sorted]
  | cons y ys ih =>
    simp only [goodL, Bool.and_eq_true, List.all_eq_true, ih, KL.Ord.Sorted, List.pairwise_cons, List.mem_cons,
      forall_eq_or_imp]
    constructor
    · rintro ⟨⟨a, b⟩, c, d⟩
      exact ⟨⟨b, c⟩, a, d⟩
    · rintro ⟨⟨b, c⟩, a, d⟩
      exact ⟨⟨a, b⟩, c, d⟩

theorem goodL_allDom {S : Schema} (K : KeyOrder S) {l : List DNode} (h : goodL S l = true) : (ordOf S K).AllDom l :=
  fun x hx => goodN_dom ((goodL_iff K).mp h |>.2 x hx)

theorem goodL_sorted {S : Schema} (K : KeyOrder S) {l : List DNode} (h : goodL S l = true) : (ordOf S K).Sorted l :=
  (goodL_iff K).mp h |>.1

/-! ## the three list-level effects of apply -/

/-- `L.find? (matchP S q)`: the instance a probe addresses -/
abbrev look (S : Schema) (l : List DNode) (q : DNode) : Option DNode := l.find? (matchP S q)

theorem look_none_iff_findIdx {S : Schema} {l : List DNode} {q : DNode} :
    look S l q = none ↔ findForApply S l q = none := by
  rw [findForApply_eq13]
  simp [look, List.find?_eq_none, List.findIdx?_eq_none_iff]

theorem look_some_findIdx {S : Schema} (K : KeyOrder S) {l : List DNode} (hg : goodL S l = true) {q x : DNode}
    (hq : Dom S q) (h : look S l q = some x) :
    ∃ i, findForApply S l q = some i ∧ l[i]? = some x ∧ matchP S q x = true := by
  have hm : matchP S q x = true := List.find?_some h
  have hx : x ∈ l := List.mem_of_find?_eq_some h
  obtain ⟨i, hi, hix⟩ := List.getElem_of_mem hx
  have hget : l[i]? = some x := by simp [hi, hix]
  have := (ordOf S K).find?_same_unique (goodL_allDom K hg) (goodL_sorted K hg) hq hget hm
  exact ⟨i, by rw [findForApply_eq13]; exact this.2, hget, hm⟩

/-- create: the new sibling list after `lyd_insert_node` of a new instance -/
theorem good_insertNode {S : Schema} (K : KeyOrder S) {l : List DNode} (hg : goodL S l = true) {n : DNode}
    (hn : goodN S n = true) (hf : look S l n = none) :
    goodL S (insertNode S l n) = true ∧
      ∀ q, Dom S q → look S (insertNode S l n) q = if matchP S q n then some n else look S l q := by
  have hnd := goodN_dom hn
  have hfresh : (ordOf S K).Fresh n l := (ordOf S K).fresh_iff_find?.mpr hf
  rw [insertNode_eq]
  refine ⟨?_, ?_⟩
  · rw [goodL_iff K]
    refine ⟨(ordOf S K).sorted_insBefore hnd (goodL_allDom K hg) (goodL_sorted K hg) hfresh, ?_⟩
    intro x hx
    rcases KL.insBefore_mem.mp hx with rfl | h
    · exact hn
    · exact ((goodL_iff K).mp hg).2 x h
  · intro q hq
    exact (ordOf S K).find?_insBefore (goodL_allDom K hg) hnd hq hfresh

/-- delete -/
theorem good_eraseIdx {S : Schema} (K : KeyOrder S) {l : List DNode} (hg : goodL S l = true) {i : Nat} {x : DNode}
    (hx : l[i]? = some x) :
    goodL S (l.eraseIdx i) = true ∧
      ∀ q, Dom S q → look S (l.eraseIdx i) q = if matchP S q x then none else look S l q := by
  refine ⟨?_, ?_⟩
  · rw [goodL_iff K]
    exact ⟨(ordOf S K).sorted_eraseIdx (goodL_sorted K hg) i,
      fun y hy => ((goodL_iff K).mp hg).2 y (List.mem_of_mem_eraseIdx hy)⟩
  · intro q hq
    exact (ordOf S K).find?_eraseIdx (goodL_allDom K hg) (goodL_sorted K hg) hx hq

/-- replace / none: another version of the same instance in place -/
theorem good_set {S : Schema} (K : KeyOrder S) {l : List DNode} (hg : goodL S l = true) {i : Nat} {x x' : DNode}
    (hx : l[i]? = some x) (hx' : goodN S x' = true) (hsame : matchP S x x' = true) :
    goodL S (l.set i x') = true ∧
      ∀ q, Dom S q → look S (l.set i x') q = if matchP S q x then some x' else look S l q := by
  have hxd' := goodN_dom hx'
  refine ⟨?_, ?_⟩
  · rw [goodL_iff K]
    refine ⟨(ordOf S K).sorted_set (goodL_allDom K hg) (goodL_sorted K hg) hx hxd' hsame, ?_⟩
    intro y hy
    rcases List.mem_or_eq_of_mem_set hy with h | rfl
    · exact ((goodL_iff K).mp hg).2 y h
    · exact hx'
  · intro q hq
    exact (ordOf S K).find?_set (goodL_allDom K hg) (goodL_sorted K hg) hx hxd' hsame hq

/-! ### the same for good sibling lists (`goodT`: sorted and keys first); the keys stay what they are -/

theorem nlt_false_of_sid_lt {S : Schema} {n k : DNode} (h : k.sid < n.sid) : nlt S n k = false := by
  have h1 : ¬ n.sid < k.sid := by omega
  have h2 : (n.sid == k.sid) = false := beq_eq_false_iff_ne.mpr (by omega)
  simp [nlt, h1, h2]

theorem goodT_insertNode {S : Schema} (K : KeyOrder S) {l : List DNode} (hg : goodT S l = true) {n : DNode}
    (hn : goodN S n = true) (hf : look S l n = none) (hnk : S.isKey n.sid = false)
    (hkb : ∀ k ∈ keysOf S l, k.sid < n.sid) :
    goodT S (insertNode S l n) = true ∧ keysOf S (insertNode S l n) = keysOf S l ∧
      ∀ q, Dom S q → look S (insertNode S l n) q = if matchP S q n then some n else look S l q := by
  obtain ⟨h1, h2⟩ := good_insertNode K (goodT_goodL hg) hn hf
  have := KL.takeWhile_insBefore (p := fun x : DNode => S.isKey x.sid) (q := nlt S n) (n := n) (l := l) hnk
    (fun x hx => nlt_false_of_sid_lt (hkb x hx))
  rw [← insertNode_eq] at this
  refine ⟨?_, this.1, h2⟩
  simp only [goodT, Bool.and_eq_true]
  exact ⟨h1, keysLead_iff.mpr (this.2 (keysLead_iff.mp (goodT_lead hg)))⟩

theorem goodT_eraseIdx {S : Schema} (K : KeyOrder S) {l : List DNode} (hg : goodT S l = true) {i : Nat} {x : DNode}
    (hx : l[i]? = some x) (hxk : S.isKey x.sid = false) :
    goodT S (l.eraseIdx i) = true ∧ keysOf S (l.eraseIdx i) = keysOf S l ∧
      ∀ q, Dom S q → look S (l.eraseIdx i) q = if matchP S q x then none else look S l q := by
  obtain ⟨h1, h2⟩ := good_eraseIdx K (goodT_goodL hg) hx
  have := KL.takeWhile_eraseIdx (p := fun x : DNode => S.isKey x.sid) (keysLead_iff.mp (goodT_lead hg)) hx hxk
  refine ⟨?_, this.1, h2⟩
  simp only [goodT, Bool.and_eq_true]
  exact ⟨h1, keysLead_iff.mpr this.2⟩

theorem goodT_set {S : Schema} (K : KeyOrder S) {l : List DNode} (hg : goodT S l = true) {i : Nat} {x x' : DNode}
    (hx : l[i]? = some x) (hx' : goodN S x' = true) (hsame : matchP S x x' = true) (hxk : S.isKey x.sid = false) :
    goodT S (l.set i x') = true ∧ keysOf S (l.set i x') = keysOf S l ∧
      ∀ q, Dom S q → look S (l.set i x') q = if matchP S q x then some x' else look S l q := by
  obtain ⟨h1, h2⟩ := good_set K (goodT_goodL hg) hx hx' hsame
  have hs : x'.sid = x.sid := matchP_sid hsame
  have := KL.takeWhile_set (p := fun x : DNode => S.isKey x.sid) (y' := x') hx hxk (by simpa [hs] using hxk)
  refine ⟨?_, this.1, h2⟩
  simp only [goodT, Bool.and_eq_true]
  exact ⟨h1, keysLead_iff.mpr (this.2 (keysLead_iff.mp (goodT_lead hg)))⟩

end LyModel.Diff
