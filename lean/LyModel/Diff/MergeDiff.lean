import LyModel.Diff.Reverse
import LyModel.Generated.Diff13
/-!
# Model of `src/diff.c`: `lyd_diff_merge_all` (merge of two diffs) — C13

`mergeDiff o S d1 d2` is `lyd_diff_merge_all(&d1, d2, o)`: every root of the source diff `d2` is merged into the target
`d1` by `mergeR` (= `lyd_diff_merge_r`):

* the source node's operation (`effOp`, inherited like in apply) is looked up; an equal node is searched among the target
  siblings (`findForApply` = `lyd_diff_find_match(…, defaults = 1, …)`);
* found: the 4 × 4 table `mergeNone / mergeReplace / mergeCreate / mergeDelete` (rows = operation of the source, columns =
  current operation of the target node) updates the target node; then the source children are merged into it recursively
  (not below key-less lists: their descendants act as keys);
* not found (or `create` on `create` for duplicate-instance lists): a copy of the source subtree is added with the
  source operation made explicit (`changeOp`);
* finally `isRedundant` (`lyd_diff_is_redundant`) may remove the target node.

The target is mutated in place in the C; here every function returns the new node / sibling list, and the operation a target
child inherits is taken from the *updated* parent (`childInhOf t' cur`), which is what the C's walk up the parents sees.

Quirks kept as they are: `none` on `replace` for a leaf sets the new value but adds no `orig-value` and keeps the default
flag of the first diff; `delete` + `create` of a leaf equal to its schema default under `LYD_DIFF_MERGE_DEFAULTS` keeps the
*deleted* value in the node (finding F18(b); `Generated.Diff13.mergeDfltNeedsDeletedDflt`, read from the source by
`tools/extractors/diff13.py`, says whether the repaired condition is in place); the redundant-move test of `isRedundant` compares two metadata instances of different
annotations (`orig-key` with `key`, …) with `lyd_compare_meta`, which is never "equal", so a move back to the original place
is never dropped; a leaf-list (`none` + `replace`, a moved instance whose default flag changed before) is `LY_EINT`.

Not modelled (as in `Reverse.lean`): the default flag of non-presence containers inside the merged diff; the
duplicate-instance cache (`lyd_dup_inst_next`: equal instances inside one key-less list / state leaf-list).
Core Lean only.
-/
namespace LyModel.Diff
open LyModel LyModel.Tree

structure MergeOpts where
  defaults : Bool := false        -- LYD_DIFF_MERGE_DEFAULTS
  deriving Repr

/-- `lyd_change_term(node, value)` when the value differs: new value, `LYD_NEW`, default flag cleared -/
def changeTerm (n : DNode) (v : Bytes) : DNode :=
  (n.setVal v).setFlags { n.flags with dflt := false, new := true }

/-- names of the anchor metadata of a user-ordered node: (`key`|`value`|`position`, `orig-…`) -/
def origAnchorMetaName (S : Schema) (sid : Nat) : String :=
  if S.isDupInst sid then "orig-position" else if S.isKind sid .list then "orig-key" else "orig-value"

/-- `lyd_diff_merge_none` -/
def mergeNone (S : Schema) (t : DNode) (cur : Op) (src : DNode) : Except DiffErr DNode :=
  match cur with
  | .delete => .error .einval
  | _ => .ok (if S.isTerm src.sid then t.setDflt src.flags.dflt else t)

/-- `lyd_diff_merge_replace` -/
def mergeReplace (S : Schema) (t : DNode) (cur : Op) (src : DNode) : Except DiffErr DNode :=
  match cur with
  | .delete => .error .einval
  | .none =>
    match S.kind? t.sid with
    | some .list =>
      -- it is moved now
      let t1 := changeOp t .replace
      match getMeta src (origAnchorMetaName S t.sid) with
      | none => .error .einval
      | some ov =>
        match getMeta src (anchorMetaName S t.sid) with
        | none => .error .einval
        | some v => .ok (addMeta (addMeta t1 (origAnchorMetaName S t.sid) ov) (anchorMetaName S t.sid) v)
    | some .leaf =>
      -- only the default flag had changed, now the value as well (no orig-value is added)
      if src.val == t.val then .error .eint
      else .ok (changeTerm (changeOp t .replace) src.val)
    | _ => .error .eint
  | _ =>          -- replace, create
    match S.kind? t.sid with
    | some .container => .error .eint
    | some .leaf =>
      if sameInst S t src then .error .einval else
      let t1 := changeTerm t src.val
      let t2 : Except DiffErr DNode :=
        if cur == .replace then
          match getMeta t1 "orig-value" with
          | none => .error .einval
          | some ov =>
            if ov == t1.val then .ok (changeOp (t1.setMetas (eraseMeta "orig-value" t1.metas)) .none) else .ok t1
        else .ok t1
      t2.map fun t2 => t2.setDflt src.flags.dflt
    | some _ =>    -- list, leaf-list: created / moved somewhere, now created / moved somewhere else
      let name := anchorMetaName S t.sid
      match getMeta src name with
      | none => .error .einval
      | some v => .ok (addMeta (t.setMetas (eraseMeta name t.metas)) name v)
    | none => .error .eint

/-- `lyd_diff_merge_create`; second component: the node is moved behind its fellow instances -/
def mergeCreate (S : Schema) (o : MergeOpts) (t : DNode) (cur : Op) (src : DNode) : Except DiffErr (DNode × Bool) :=
  match cur with
  | .delete =>
    let r : Except DiffErr (DNode × Bool) :=
      if S.isUserOrd src.sid then
        match getMeta src (anchorMetaName S t.sid), getMeta t (origAnchorMetaName S t.sid) with
        | some v, some ov =>
          if v != ov then .ok (addMeta (changeOp t .replace) (anchorMetaName S t.sid) v, true)
          else .ok ((changeOp t .none).setMetas (eraseMeta (origAnchorMetaName S t.sid) (changeOp t .none).metas), false)
        | _, _ => .error .einval
      else if S.isKind src.sid .leaf then
        let sdflt : Option Bytes := if o.defaults then ((S.get? src.sid).bind fun n => n.dflts.head?) else none
        if sdflt == some src.val && (!Generated.Diff13.mergeDfltNeedsDeletedDflt || sdflt == some t.val) then
          .ok (changeOp t .none, false)
        else if sameInst S t src then .ok (changeOp t .none, false)
        else .ok (changeTerm (addMeta (changeOp t .replace) "orig-value" t.val) src.val, false)
      else .ok (changeOp t .none, false)
    r.map fun (t1, mv) =>
      let t2 := if S.isTerm t1.sid then (addMeta t1 "orig-default" (boolBytes t.flags.dflt)).setDflt src.flags.dflt else t1
      -- the operation of its children remains delete
      (t2.setKids (keysOf S t2.kids ++ (noKeys S t2.kids).map fun c => changeOp c .delete), mv)
  | _ => .error .einval

/-- `lyd_diff_merge_delete` -/
def mergeDelete (S : Schema) (t : DNode) (cur : Op) (src : DNode) : Except DiffErr DNode :=
  if !sameInst S t src then .error .eint else
  let r : Except DiffErr DNode :=
    match cur with
    | .create =>
      let t1 := changeOp t .none
      .ok (if S.isTerm t.sid then addMeta t1 "orig-default" (boolBytes src.flags.dflt) else t1)
    | .replace =>
      if S.isUserOrd t.sid then
        .ok (changeOp (t.setMetas (eraseMeta (anchorMetaName S t.sid) t.metas)) .delete)
      else
        match getMeta t "orig-value" with
        | none => .error .einval
        | some ov =>
          if ov == t.val then .error .einval else
          let t1 := changeTerm t ov
          match getMeta t1 "orig-default" with
          | none => .error .einval
          | some od =>
            let t2 := t1.setDflt (od == bs "true")
            .ok (changeOp (t2.setMetas (eraseMeta "orig-value" (eraseMeta "orig-default" t2.metas))) .delete)
    | .none => .ok (changeOp t .delete)
    | .delete => .error .einval
  r.map fun t1 =>
    if S.isDupInst t1.sid then t1 else
    -- keep the operation of descendants that have none of their own and are yet to be merged
    t1.setKids (keysOf S t1.kids ++ (noKeys S t1.kids).map fun c =>
      if (getMeta c "operation").isSome then c
      else if (findForApply S src.kids c).isSome then changeOp c cur
      else c)

/-- `lyd_compare_meta(m1, m2) == LY_SUCCESS`: the same annotation and the same value -/
def metaEq (name1 name2 : String) (v1 v2 : Option Bytes) : Bool := name1 == name2 && v1 == v2

/-- `lyd_diff_is_redundant`; returns the (possibly changed) node and the verdict -/
def isRedundant (S : Schema) (inh : Option Op) (t : DNode) : DNode × Bool :=
  let child := !S.isDupInst t.sid && !(noKeys S t.kids).isEmpty
  match effOp t inh with
  | none => (t, false)
  | some op =>
    if op == .replace && S.isUserOrd t.sid then
      let oname := origAnchorMetaName S t.sid
      let name := anchorMetaName S t.sid
      if metaEq oname name (getMeta t oname) (getMeta t name) then
        -- there is actually no move
        let t1 := t.setMetas (eraseMeta name (eraseMeta oname t.metas))
        if child then (changeOp t1 .none, false) else (t1, true)
      else (t, false)
    else if op == .none && S.isTerm t.sid then
      -- redundant when the default flag did not change either
      match getMeta t "orig-default" with
      | some od => (t, (od == bs "true" && t.flags.dflt) || (od == bs "false" && !t.flags.dflt))
      | none => (t, false)
    else (t, !child && op == .none)

/-- the node at index `i` is replaced by `t` and, if asked, moved behind the directly following instances of its schema
node; then removed again if it is redundant -/
def placeBack (S : Schema) (inh : Option Op) (sibs : List DNode) (i : Nat) (t : DNode) (mv : Bool) : List DNode :=
  let r := isRedundant S inh t
  let l := sibs.set i r.1
  let j := if mv then i + ((l.drop (i + 1)).takeWhile (·.sid == t.sid)).length else i
  let l := if mv then moveToGroupEnd l i else l
  if r.2 then l.eraseIdx j else l

/-- one cell of the 4 × 4 table: source operation `sop` merged into the target node `t` whose current operation is `cop`;
second component: the node is moved behind its fellow instances -/
def mergeCell (S : Schema) (o : MergeOpts) (sop : Op) (t : DNode) (cop : Op) (src : DNode) : Except DiffErr (DNode × Bool) :=
  match sop with
  | .replace => (mergeReplace S t cop src).map (·, false)
  | .create => mergeCreate S o t cop src
  | .delete => (mergeDelete S t cop src).map (·, false)
  | .none => (mergeNone S t cop src).map (·, false)

/-- `lyd_diff_merge_r(src, diff_parent, …)` without its recursion: `kidsK curInh srcInh tkids` merges the source node's
children into the children `tkids` of the updated target node.  `sibs`: the sibling list of the target (all children of
`diff_parent`, or the top level); `cur` / `sin`: the operations inherited at this level in the target / in the source. -/
def mergeStep (S : Schema) (o : MergeOpts) (cur sin : Option Op) (src : DNode) (sibs : List DNode)
    (kidsK : Option Op → Option Op → List DNode → Except DiffErr (List DNode)) : Except DiffErr (List DNode) :=
  match effOp src sin with
  | none => .error .eint
  | some sop =>
    -- add a copy of the source subtree, its operation made explicit
    let add : Except DiffErr (List DNode) :=
      let r := isRedundant S cur (changeOp src sop)
      .ok (if r.2 then sibs else insertBySchema r.1 sibs)
    match findForApply S sibs src with
    | none => add
    | some i =>
      match sibs[i]? with
      | none => add
      | some t =>
        match effOp t cur with
        | none => .error .eint
        | some cop =>
          -- special case of creating duplicate (leaf-)list instances
          if sop == .create && cop == .create && S.isDupInst t.sid then add else
          match mergeCell S o sop t cop src with
          | .error e => .error e
          | .ok (t1, mv) =>
            -- all descendants of a key-less list act as keys: nothing to merge below
            if S.isDupInst src.sid then .ok (placeBack S cur sibs i t1 mv) else
            match kidsK (childInhOf t1 cur) (childInhOf src sin) t1.kids with
            | .error e => .error e
            | .ok ks' => .ok (placeBack S cur sibs i (t1.setKids ks') mv)

mutual
/-- `lyd_diff_merge_r` -/
def mergeR (S : Schema) (o : MergeOpts) (cur sin : Option Op) : (src : DNode) → (sibs : List DNode) → Except DiffErr (List DNode)
  | .inner s f m ks, sibs =>
    mergeStep S o cur sin (.inner s f m ks) sibs fun c' s' tk => mergeKids S o c' s' true ks tk
  | .term s f m v, sibs =>
    mergeStep S o cur sin (.term s f m v) sibs fun _ _ tk => .ok tk
/-- the children of the source node, leading keys skipped (`lyd_child_no_keys`), merged one after the other -/
def mergeKids (S : Schema) (o : MergeOpts) (cur sin : Option Op) : (leading : Bool) → (srcKids : List DNode) → (tkids : List DNode) →
    Except DiffErr (List DNode)
  | _, [], tk => .ok tk
  | leading, c :: cs, tk =>
    if leading && S.isKey c.sid then mergeKids S o cur sin true cs tk else
    match mergeR S o cur sin c tk with
    | .error e => .error e
    | .ok tk' => mergeKids S o cur sin false cs tk'
end

/-- `lyd_diff_merge_all(&d1, d2, options)` -/
def mergeDiff (o : MergeOpts) (S : Schema) (d1 d2 : List DNode) : Except DiffErr (List DNode) :=
  mergeKids S o none none false d2 d1

end LyModel.Diff
