import LyModel.Diff.Apply
import LyModel.Diff.UOBridgeCore
/-!
# The decidable hypothesis of `apply_diff_userord_flat_ll` (C06), as the driver evaluates it per generated case

`flatLL S A B`: both sibling lists consist of plain instances (no flags, no metadata) of ONE user-ordered configuration
leaf-list, values duplicate-free, no empty value in `B` (finding F122).  `coreOps`: the operations of the list core for the
value lists, rendered for the comparison with libyang's diff in `tools/checks/c06.py`.  Core Lean only (linked into `lydrv`).
-/
namespace LyModel.Diff.UOB
open LyModel LyModel.Tree LyModel.Diff

def isPlainInst (s : Nat) : DNode → Bool
  | .term s' f m _ => s' == s && !f.dflt && !f.whenTrue && !f.new && m.isEmpty
  | .inner .. => false

def nodupB : List Bytes → Bool
  | [] => true
  | x :: xs => !xs.contains x && nodupB xs

/-- the schema node both sibling lists are made of, if the hypotheses of `apply_diff_userord_flat_ll` hold -/
def flatLL (S : Schema) (A B : List DNode) : Option Nat :=
  match (A ++ B).head? with
  | none => none
  | some n =>
    let s := n.sid
    if S.kind? s == some .leaflist && S.isUserOrd s && S.config s && A.all (isPlainInst s) && B.all (isPlainInst s)
        && nodupB (A.map (·.val)) && nodupB (B.map (·.val)) && !(B.map (·.val)).contains []
    then some s else none

def renderOp : UOG.UOp Bytes → String
  | .del k => "d:" ++ Hex.enc k
  | .create k a => "c:" ++ Hex.enc k ++ ":" ++ (match a with | some z => Hex.enc z | none => "~")
  | .move k a => "m:" ++ Hex.enc k ++ ":" ++ (match a with | some z => Hex.enc z | none => "~")

/-- `UOG.diffU` on the values, one token per operation -/
def coreOps (A B : List DNode) : List String := (UOG.diffU (A.map (·.val)) (B.map (·.val))).map renderOp

/-! ## Stage 3a: a user-ordered leaf-list with inert neighbours among the siblings -/

/-- an inert sibling: a leaf, or a child-less container, of a schema node that is neither user-ordered nor position-addressed -/
def inertH (S : Schema) (n : DNode) : Bool :=
  !S.isUserOrd n.sid && !S.isDupInst n.sid &&
    ((S.kind? n.sid == some .leaf && n.isTerm) || (S.kind? n.sid == some .container && !n.isTerm && n.kids.isEmpty))

/-- equality of two child-less nodes, field by field -/
def eqFlat (a b : DNode) : Bool :=
  a.sid == b.sid && a.flags == b.flags && a.metas == b.metas && a.val == b.val && a.isTerm == b.isTerm
    && a.kids.isEmpty && b.kids.isEmpty

def eqFlatL : List DNode → List DNode → Bool
  | [], [] => true
  | a :: as, b :: bs => eqFlat a b && eqFlatL as bs
  | _, _ => false

def nodupN : List Nat → Bool
  | [] => true
  | x :: xs => !xs.contains x && nodupN xs

/-- the split of a sibling list around the instances of `s` -/
def splitAt (s : Nat) (A : List DNode) : List DNode × List DNode × List DNode :=
  let r := A.dropWhile (·.sid != s)
  (A.takeWhile (·.sid != s), r.takeWhile (·.sid == s), r.dropWhile (·.sid == s))

/-- the schema node `s` of the user-ordered leaf-list, if the hypotheses of `apply_diff_userord_ll_neighbours` hold:
`A = P ++ instances ++ Q`, `B = P ++ instances' ++ Q` with the same inert neighbours -/
def nbLL (S : Schema) (A B : List DNode) : Option Nat :=
  match (A ++ B).find? (fun n => S.kind? n.sid == some .leaflist && S.isUserOrd n.sid && S.config n.sid) with
  | none => none
  | some n0 =>
    let s := n0.sid
    let a := splitAt s A
    let b := splitAt s B
    if S.kind? s == some .leaflist && S.isUserOrd s && S.config s
        && eqFlatL a.1 b.1 && eqFlatL a.2.2 b.2.2
        && (a.1 ++ a.2.2).all (inertH S) && nodupN ((a.1 ++ a.2.2).map (·.sid))
        && a.1.all (fun n => decide (n.sid < s)) && a.2.2.all (fun n => decide (s < n.sid))
        && a.2.1.all (isPlainInst s) && b.2.1.all (isPlainInst s)
        && nodupB (a.2.1.map (·.val)) && nodupB (b.2.1.map (·.val)) && !(b.2.1.map (·.val)).contains []
    then some s else none

/-- `UOG.diffU` on the values of the instances of `s` -/
def coreOpsNB (s : Nat) (A B : List DNode) : List String :=
  (UOG.diffU ((splitAt s A).2.1.map (·.val)) ((splitAt s B).2.1.map (·.val))).map renderOp

/-! ## Stage 3b: the group (with its neighbours) inside a container -/

/-- the schema node `s` of the user-ordered leaf-list, if the hypotheses of `apply_diff_userord_ll_in_container` hold: both trees
are ONE container instance (same flags, no metadata) whose children satisfy `nbLL`, nothing among them a list key -/
def contLL (S : Schema) (A B : List DNode) : Option Nat :=
  match A, B with
  | [.inner c f m ka], [.inner c' f' m' kb] =>
    if c == c' && f == f' && m.isEmpty && m'.isEmpty && S.kind? c == some .container then
      match nbLL S ka kb with
      | some s => if !S.isKey s && (ka ++ kb).all (fun n => !S.isKey n.sid) then some s else none
      | none => none
    else none
  | _, _ => none

/-- `UOG.diffU` on the values of the instances of `s` among the children of the two containers -/
def coreOpsCont (s : Nat) (A B : List DNode) : List String :=
  coreOpsNB s ((A.head?.map (·.kids)).getD []) ((B.head?.map (·.kids)).getD [])

/-! ## Stage 2a: one user-ordered list with a single key, key-only instances -/

def isPlainKL (s : Nat) : DNode → Bool
  | .inner s' f m [.term ks kf km _] =>
    s' == s && ks == s + 1 && !f.dflt && !f.whenTrue && !f.new && m.isEmpty && !kf.dflt && !kf.whenTrue && !kf.new && km.isEmpty
  | _ => false

/-- the key value of an instance -/
def keyOfH (n : DNode) : Bytes :=
  match n.kids with
  | c :: _ => c.val
  | [] => []

/-- a key value `lyd_path_list_predicate` can quote -/
def qokB (z : Bytes) : Bool := !(z.contains 39 && z.contains 34)

/-- the schema node both sibling lists are made of, if the hypotheses of `apply_diff_userord_flat_kl` hold -/
def flatKL (S : Schema) (A B : List DNode) : Option Nat :=
  match (A ++ B).head? with
  | none => none
  | some n =>
    let s := n.sid
    if S.kind? s == some .list && S.isUserOrd s && S.nkeys s == 1 && S.isKey (s + 1) && S.kind? (s + 1) == some .leaf
        && !(bs (S.name (s + 1))).contains 61
        && A.all (isPlainKL s) && B.all (isPlainKL s)
        && nodupB (A.map keyOfH) && nodupB (B.map keyOfH) && (B.map keyOfH).all qokB
    then some s else none

def predH (S : Schema) (s : Nat) (z : Bytes) : Bytes := keyPredicate S (.inner s {} [] [.term (s + 1) {} [] z])

def renderOpK (S : Schema) (s : Nat) : UOG.UOp Bytes → String
  | .del k => "d:" ++ Hex.enc k
  | .create k a => "c:" ++ Hex.enc k ++ ":" ++ (match a with | some z => Hex.enc (predH S s z) | none => "~")
  | .move k a => "m:" ++ Hex.enc k ++ ":" ++ (match a with | some z => Hex.enc (predH S s z) | none => "~")

/-- `UOG.diffU` on the key values, one token per operation, anchors as key predicates -/
def coreOpsK (S : Schema) (s : Nat) (A B : List DNode) : List String :=
  (UOG.diffU (A.map keyOfH) (B.map keyOfH)).map (renderOpK S s)

/-! ## several keys: one user-ordered list with `nk ≥ 1` keys, key-only instances -/

def keyLeavesH : Nat → List Bytes → List DNode
  | _, [] => []
  | j, v :: vs => .term j {} [] v :: keyLeavesH (j + 1) vs

/-- the children are plain key leaves of the schema nodes `j, j+1, …` -/
def kidsOk : Nat → List DNode → Bool
  | _, [] => true
  | j, .term sid kf km _ :: rest => sid == j && !kf.dflt && !kf.whenTrue && !kf.new && km.isEmpty && kidsOk (j + 1) rest
  | _, _ => false

def isPlainMK (s nk : Nat) : DNode → Bool
  | .inner s' f m kids => s' == s && !f.dflt && !f.whenTrue && !f.new && m.isEmpty && kids.length == nk && kidsOk (s + 1) kids
  | _ => false

/-- the key values of an instance -/
def keysOfH (n : DNode) : List Bytes := n.kids.map (·.val)

def nodupLL : List (List Bytes) → Bool
  | [] => true
  | x :: xs => !xs.contains x && nodupLL xs

/-- `(s, nk)` if the hypotheses of `apply_diff_userord_flat_kl_multikey` hold -/
def flatMK (S : Schema) (A B : List DNode) : Option (Nat × Nat) :=
  match (A ++ B).head? with
  | none => none
  | some n =>
    let s := n.sid
    let nk := S.nkeys s
    if S.kind? s == some .list && S.isUserOrd s && decide (0 < nk)
        && (List.range nk).all (fun i => S.isKey (s + 1 + i) && S.kind? (s + 1 + i) == some .leaf
              && !(bs (S.name (s + 1 + i))).contains 61)
        && A.all (isPlainMK s nk) && B.all (isPlainMK s nk)
        && nodupLL (A.map keysOfH) && nodupLL (B.map keysOfH) && (B.map keysOfH).all (fun kv => kv.all qokB)
    then some (s, nk) else none

def renderKey (kv : List Bytes) : String := ",".intercalate (kv.map Hex.enc)
def predM (S : Schema) (s : Nat) (kv : List Bytes) : Bytes := keyPredicate S (.inner s {} [] (keyLeavesH (s + 1) kv))

def renderOpM (S : Schema) (s : Nat) : UOG.UOp (List Bytes) → String
  | .del k => "d:" ++ renderKey k
  | .create k a => "c:" ++ renderKey k ++ ":" ++ (match a with | some z => Hex.enc (predM S s z) | none => "~")
  | .move k a => "m:" ++ renderKey k ++ ":" ++ (match a with | some z => Hex.enc (predM S s z) | none => "~")

/-- `UOG.diffU` on the key-value tuples, one token per operation, anchors as the concatenated key predicates -/
def coreOpsM (S : Schema) (s : Nat) (A B : List DNode) : List String :=
  (UOG.diffU (A.map keysOfH) (B.map keysOfH)).map (renderOpM S s)

end LyModel.Diff.UOB
