import LyModel.Diff.UOBridgeMKThm
/-!
# Bridge (C06) — multi-key user-ordered lists, part 5: `lyd_diff_apply_r` / `lyd_diff_insert` (as `UOBridgeKLApply.lean`)

The anchor travels as the concatenated key predicates and is parsed back (`MK.parsePreds_keyPredicate`).  Core Lean only.
-/
namespace LyModel.Diff.UOB.MK
open LyModel LyModel.Tree LyModel.Diff LyModel.Diff.UOB LyModel.Diff.UOB.KL
set_option linter.unusedSimpArgs false
set_option linter.unusedVariables false
local instance (priority := high) keyBEq5 {nk : Nat} : BEq (KeyN nk) := instBEqOfDecidableEq

/-- the identity of an instance as an element of `KeyN nk` (a dummy for nodes of another shape) -/
def keyN (nk : Nat) (n : DNode) : KeyN nk :=
  if h : (keyOf n).length = nk then ⟨keyOf n, h⟩ else ⟨List.replicate nk [], by simp⟩

theorem keyN_shape {nk : Nat} (s : Nat) (f : Flags) (m : List Meta) (kf : Flags) (k : KeyN nk) :
    keyN nk (.inner s f m (keyLeavesF kf (s + 1) k.1)) = k := by
  have h : keyOf (.inner s f m (keyLeavesF kf (s + 1) k.1)) = k.1 := keyLeaves_val _ _ _
  unfold keyN
  rw [dif_pos (by rw [h]; exact k.2)]
  exact Subtype.ext h

theorem keyOf_eq_keyN {s nk : Nat} {n : DNode} (h : IsKL s nk n) : keyOf n = (keyN nk n).1 := by
  obtain ⟨f, m, kf, k, rfl⟩ := h
  rw [keyN_shape]; exact keyLeaves_val _ _ _

theorem sameInst_klN {S : Schema} {s nk : Nat} (C : MKCtx S s nk) (x y : DNode) (hx : IsKL s nk x) (hy : IsKL s nk y) :
    sameInst S x y = decide (keyN nk x = keyN nk y) := by
  rw [sameInst_kl C x y hx hy, keyOf_eq_keyN hx, keyOf_eq_keyN hy]
  exact decide_eq_decide.mpr keyN_ext

theorem keyOk_leaves {S : Schema} {s nk : Nat} (C : MKCtx S s nk) (kf : Flags) {k : KeyN nk} (hq : QOkN k) :
    ∀ c ∈ keysOf S (keyLeavesF kf (s + 1) k.1), KeyOk S c := by
  rw [keysOf_all C]
  intro c hc
  refine ⟨hq c.val ?_, (keyLeaves_all0 C kf k c hc).2.2⟩
  have : c.val ∈ (keyLeavesF kf (s + 1) k.1).map (·.val) := List.mem_map.mpr ⟨c, hc, rfl⟩
  rwa [keyLeaves_val] at this

theorem pred_ne_nil {S : Schema} {s nk : Nat} (C : MKCtx S s nk) (z : KeyN nk) : (pred S s z).isEmpty = false := by
  have hp := C.pos
  obtain ⟨kv, hk⟩ := z
  cases kv with
  | nil => simp at hk; omega
  | cons v vs =>
    have hk2 := keysOf_all C {} ⟨v :: vs, hk⟩
    simp only [keyLeavesF] at hk2
    simp [pred, keyPredicate, klNode, DNode.kids, keyLeavesF, hk2]

/-- `lyd_create_list2` on what `lyd_path_list_predicate` printed gives the key values back -/
theorem parsePreds_pred {S : Schema} {s nk : Nat} (C : MKCtx S s nk) {z : KeyN nk} (hz : QOkN z) :
    parsePreds ((pred S s z).length + 1) (pred S s z) = some z.1 := by
  have := parsePreds_keyPredicate S (klNode s z) (keyOk_leaves C {} hz)
  rw [show keyVals S (klNode s z) = z.1 by simp [keyVals, klNode, DNode.kids, keysOf_all C, keyLeaves_val]] at this
  exact this

/-! ### list facts (as in `UOBridgeLLApply.lean`, any identity type) -/

theorem insertAfterKey_eq {α : Type} [DecidableEq α] (z k : α) : ∀ (l : List α),
    UOG.insertAfterKey z k l = if z ∈ l then some (l.take (l.idxOf z + 1) ++ k :: l.drop (l.idxOf z + 1)) else none
  | [] => by simp [UOG.insertAfterKey]
  | h :: t => by
    by_cases e : h = z
    · subst e; simp [UOG.insertAfterKey, List.idxOf_cons]
    · have e' : (h == z) = false := by simpa using e
      have e2 : ¬ z = h := fun hh => e hh.symm
      simp only [UOG.insertAfterKey, e, if_false, insertAfterKey_eq z k t, List.mem_cons, e2, false_or, List.idxOf_cons, e',
        cond_false]
      split <;> simp

theorem idxOf_erase {α : Type} [DecidableEq α] {l : List α} {k z : α} (hzk : z ≠ k) :
    (l.erase k).idxOf z = if l.idxOf k < l.idxOf z then l.idxOf z - 1 else l.idxOf z := by
  induction l with
  | nil => simp
  | cons h t ih =>
    by_cases e1 : h = k
    · subst e1
      have : (h == z) = false := by simpa using (Ne.symm hzk)
      simp [List.idxOf_cons, this]
    · have e1' : (h == k) = false := by simpa using e1
      by_cases e2 : h = z
      · subst e2; simp [List.erase_cons, e1', List.idxOf_cons]
      · have e2' : (h == z) = false := by simpa using e2
        simp only [List.erase_cons, e1', List.idxOf_cons, e2', cond_false, ih, Bool.false_eq_true, if_false]
        split <;> split <;> omega

theorem idxOf_zero_iff {α : Type} [DecidableEq α] {l : List α} {k : α} (hk : k ∈ l) : l.idxOf k = 0 ↔ l.head? = some k := by
  cases l with
  | nil => simp at hk
  | cons h t =>
    by_cases e : h = k
    · subst e; simp [List.idxOf_cons]
    · have e' : (h == k) = false := by simpa using e
      simp [List.idxOf_cons, e', e]

/-! ### data siblings -/

/-- a data sibling list holding exactly the instances with the keys `l` of the list `s`; `LYD_NEW` may be set -/
def DataKL (s nk : Nat) (sibs : List DNode) (l : List (KeyN nk)) : Prop :=
  sibs.map (keyN nk) = l ∧ ∀ n ∈ sibs, ∃ nw nw', ∃ k : KeyN nk, n = .inner s { new := nw } [] (keyLeavesF { new := nw' } (s + 1) k.1)

theorem DataKL.isKL {s nk : Nat} {sibs : List DNode} {l : List (KeyN nk)} (h : DataKL s nk sibs l) : ∀ n ∈ sibs, IsKL s nk n := by
  intro n hn
  obtain ⟨nw, nw', k, e⟩ := h.2 n hn
  exact ⟨_, _, _, k, e⟩

theorem findIdx?_key {nk : Nat} (k : KeyN nk) : ∀ (sibs : List DNode),
    sibs.findIdx? (fun x => decide ((keyN nk) x = k)) =
      if k ∈ sibs.map (keyN nk) then some ((sibs.map (keyN nk)).idxOf k) else none
  | [] => by simp
  | x :: xs => by
    by_cases e : (keyN nk) x = k
    · simp [List.findIdx?_cons, e, List.idxOf_cons]
    · have e' : ((keyN nk) x == k) = false := by simpa using e
      have e2 : ¬ k = (keyN nk) x := fun h => e h.symm
      have ih := findIdx?_key k xs
      simp only [List.findIdx?_cons, e, decide_false, List.map_cons, List.mem_cons, e2, false_or, List.idxOf_cons, e',
        cond_false, ih]
      by_cases hm : k ∈ xs.map (keyN nk) <;> simp [hm]

/-! ### the lookups of apply -/

theorem findForApply_kl {S : Schema} {s nk : Nat} (C : MKCtx S s nk) {sibs : List DNode} {l : List (KeyN nk)} (h : DataKL s nk sibs l)
    (d : DNode) (hd : IsKL s nk d) :
    findForApply S sibs d = if (keyN nk) d ∈ l then some (l.idxOf ((keyN nk) d)) else none := by
  unfold findForApply
  simp only [hd.sid, C.l, Bool.true_or, if_true]
  rw [findIdxFrom_zero, findIdx?_congr_mem (q := fun x => decide ((keyN nk) x = (keyN nk) d)) sibs, findIdx?_key, h.1]
  intro x hx
  have hs := (h.isKL x hx).sid
  simp [instMatch, C.nd, hd.sid, hs, sameInst_klN C x d (h.isKL x hx) hd]

theorem keyVals_kl {S : Schema} {s nk : Nat} (C : MKCtx S s nk) {x : DNode} (hx : IsKL s nk x) : keyVals S x = ((keyN nk) x).1 := by
  obtain ⟨f, m, kf, k, rfl⟩ := hx
  simp [keyVals, DNode.kids, keysOf_all C, keyLeaves_val, keyN_shape]

theorem findAnchor_kl {S : Schema} {s nk : Nat} (C : MKCtx S s nk) {sibs : List DNode} {l : List (KeyN nk)} (h : DataKL s nk sibs l)
    {z : KeyN nk} (hz : QOkN z) :
    findAnchor S sibs s (pred S s z) = if z ∈ l then .ok (l.idxOf z) else .error .einval := by
  unfold findAnchor
  simp only [C.nd, C.nll, Bool.false_eq_true, if_false, parsePreds_pred C hz]
  rw [findIdxFrom_zero, findIdx?_congr_mem (q := fun x => decide ((keyN nk) x = z)) sibs, findIdx?_key, h.1]
  · by_cases hzl : z ∈ l <;> simp [hzl]
  · intro x hx
    simp only [(h.isKL x hx).sid, keyVals_kl C (h.isKL x hx), beq_self_eq_true, Bool.true_and, Bool.beq_eq_decide_eq]
    exact decide_eq_decide.mpr keyN_ext

theorem findFirst_kl {s nk : Nat} {sibs : List DNode} {l : List (KeyN nk)} (h : DataKL s nk sibs l) (hne : sibs ≠ []) :
    findIdxFrom (fun x _ => x.sid == s) sibs 0 = some 0 := by
  cases sibs with
  | nil => exact absurd rfl hne
  | cons x xs => simp [findIdxFrom, (h.isKL x (by simp)).sid]

/-! ### `lyd_diff_insert` -/

theorem DataKL.insert {s nk : Nat} {pre post : List DNode} {l : List (KeyN nk)} {n : DNode} (h : DataKL s nk (pre ++ post) l)
    (hn : ∃ nw nw', ∃ k : KeyN nk, n = .inner s { new := nw } [] (keyLeavesF { new := nw' } (s + 1) k.1)) :
    DataKL s nk (pre ++ [n] ++ post) ((pre.map (keyN nk)) ++ (keyN nk) n :: post.map (keyN nk)) := by
  refine ⟨by simp, ?_⟩
  intro x hx
  simp only [List.mem_append, List.mem_singleton] at hx
  rcases hx with (hx | hx) | hx
  · exact h.2 x (by simp [hx])
  · subst hx; exact hn
  · exact h.2 x (by simp [hx])

/-- `lyd_diff_insert` of a new instance `k` behind the anchor (`none` = first) -/
theorem insertUO_new {S : Schema} {s nk : Nat} (C : MKCtx S s nk) {sibs : List DNode} {l l' : List (KeyN nk)} (h : DataKL s nk sibs l)
    (n : DNode) (hn : ∃ nw nw', ∃ k : KeyN nk, n = .inner s { new := nw } [] (keyLeavesF { new := nw' } (s + 1) k.1)) (a : Option (KeyN nk))
    (haq : ∀ z, a = some z → QOkN z) (hins : UOG.insertAfter l a ((keyN nk) n) = some l') :
    ∃ sibs', insertUO S sibs false n none (a.map (pred S s)) = .ok sibs' ∧ DataKL s nk sibs' l' := by
  have hns : n.sid = s := by obtain ⟨nw, nw', k, e⟩ := hn; rw [e]; rfl
  unfold insertUO
  by_cases hemp : sibs = []
  · subst hemp
    have hl : l = [] := by rw [← h.1]; rfl
    subst hl
    cases a with
    | none =>
      simp only [UOG.insertAfter, Option.some.injEq] at hins
      subst hins
      exact ⟨[n], by simp, by simp, by intro x hx; simp at hx; subst hx; exact hn⟩
    | some z => simp [UOG.insertAfter, UOG.insertAfterKey] at hins
  · have hemp' : sibs.isEmpty = false := by cases sibs <;> simp_all
    simp only [hemp', Bool.false_eq_true, if_false]
    cases a with
    | none =>
      simp only [UOG.insertAfter, Option.some.injEq] at hins
      subst hins
      simp only [Option.map_none, hns, findFirst_kl h hemp]
      refine ⟨_, rfl, ?_⟩
      have := DataKL.insert (pre := []) (post := sibs) (n := n) (by simpa using h) hn
      simpa [h.1] using this
    | some z =>
      simp only [UOG.insertAfter, insertAfterKey_eq] at hins
      by_cases hz : z ∈ l
      · simp only [hz, if_true, Option.some.injEq] at hins
        subst hins
        simp only [Option.map_some, hns, findAnchor_kl C h (haq z rfl), hz, if_true, bind, Except.bind]
        refine ⟨sibs.take (l.idxOf z + 1) ++ [n] ++ sibs.drop (l.idxOf z + 1), by simp, ?_⟩
        have := DataKL.insert (pre := sibs.take (l.idxOf z + 1)) (post := sibs.drop (l.idxOf z + 1)) (n := n)
          (by simpa using h) hn
        rw [List.map_take, List.map_drop, h.1] at this
        exact this
      · simp [hz] at hins

theorem DataKL.eraseIdx {s nk : Nat} {sibs : List DNode} {l : List (KeyN nk)} (h : DataKL s nk sibs l) (k : KeyN nk) :
    DataKL s nk (sibs.eraseIdx (l.idxOf k)) (l.erase k) := by
  refine ⟨?_, fun n hn => h.2 n (List.mem_of_mem_eraseIdx hn)⟩
  rw [map_eraseIdx', h.1, eraseIdx_idxOf]

/-- `lyd_diff_insert` of the existing instance `k` (= `sibs[idxOf k]`) behind the anchor -/
theorem insertUO_move {S : Schema} {s nk : Nat} (C : MKCtx S s nk) {sibs : List DNode} {l l' : List (KeyN nk)} (h : DataKL s nk sibs l)
    (n : DNode) (hn : ∃ nw nw', ∃ k : KeyN nk, n = .inner s { new := nw } [] (keyLeavesF { new := nw' } (s + 1) k.1)) (hk : ((keyN nk) n) ∈ l) (a : Option (KeyN nk))
    (ha1 : a ≠ some ((keyN nk) n)) (ha2 : ¬ (a = none ∧ l.head? = some ((keyN nk) n)))
    (haq : ∀ z, a = some z → QOkN z)
    (hins : UOG.insertAfter (l.erase ((keyN nk) n)) a ((keyN nk) n) = some l') :
    ∃ sibs', insertUO S sibs false n (some (l.idxOf ((keyN nk) n))) (a.map (pred S s)) = .ok sibs' ∧ DataKL s nk sibs' l' := by
  have hns : n.sid = s := by obtain ⟨nw, nw', k, e⟩ := hn; rw [e]; rfl
  have hemp : sibs ≠ [] := by
    intro e; subst e
    have : l = [] := by rw [← h.1]; rfl
    subst this; simp at hk
  have hemp' : sibs.isEmpty = false := by cases sibs <;> simp_all
  have he := h.eraseIdx ((keyN nk) n)
  unfold insertUO
  simp only [hemp', Bool.false_eq_true, if_false]
  cases a with
  | none =>
    simp only [UOG.insertAfter, Option.some.injEq] at hins
    subst hins
    have hi0 : l.idxOf ((keyN nk) n) ≠ 0 := fun e => ha2 ⟨rfl, (idxOf_zero_iff hk).mp e⟩
    simp only [Option.map_none, hns, findFirst_kl h hemp]
    have hb : (some (l.idxOf ((keyN nk) n)) == some 0) = false := by simpa using hi0
    simp only [hb, Bool.false_eq_true, if_false]
    refine ⟨_, rfl, ?_⟩
    have := DataKL.insert (pre := []) (post := sibs.eraseIdx (l.idxOf ((keyN nk) n))) (n := n) (by simpa using he) hn
    simpa [he.1] using this
  | some z =>
    simp only [UOG.insertAfter, insertAfterKey_eq] at hins
    by_cases hz : z ∈ l.erase ((keyN nk) n)
    · simp only [hz, if_true, Option.some.injEq] at hins
      subst hins
      have hzl : z ∈ l := List.mem_of_mem_erase hz
      have hzk : z ≠ ((keyN nk) n) := fun e => ha1 (by rw [e])
      have hne : l.idxOf ((keyN nk) n) ≠ l.idxOf z := fun e => hzk (idxOf_inj hk e).symm
      have hb : (some (l.idxOf ((keyN nk) n)) == some (l.idxOf z)) = false := by simpa using hne
      simp only [Option.map_some, hns, findAnchor_kl C h (haq z rfl), hzl, if_true, bind, Except.bind, hb, Bool.false_eq_true, if_false]
      have hidx := idxOf_erase (l := l) hzk
      rw [← hidx]
      refine ⟨_, rfl, ?_⟩
      have := DataKL.insert (pre := (sibs.eraseIdx (l.idxOf ((keyN nk) n))).take ((l.erase ((keyN nk) n)).idxOf z + 1))
        (post := (sibs.eraseIdx (l.idxOf ((keyN nk) n))).drop ((l.erase ((keyN nk) n)).idxOf z + 1)) (n := n) (by simpa using he) hn
      rw [List.map_take, List.map_drop, he.1] at this
      exact this
    · simp [hz] at hins

end LyModel.Diff.UOB.MK
