import LyModel.Diff.WF
/-!
# Order lemmas for the canonical sibling order (C06 proofs)

`BaseTy.cmp` (the plugin `sort` callbacks) is reflexive on equal values, so two siblings that `lyd_compare_single`
considers the same instance are never strictly ordered: in a canonical sibling list an instance is found at its own
position (`findIdx_self`).  Core Lean only.
-/
namespace LyModel.Diff
open LyModel LyModel.Tree

theorem cmpBytes_refl (a : Bytes) : cmpBytes a a = .eq := by
  induction a with
  | nil => rfl
  | cons x xs ih => simp [cmpBytes, ih]

theorem BaseTy.cmp_refl (t : BaseTy) (a : Bytes) : t.cmp a a = .eq := by
  cases t <;> simp [BaseTy.cmp, cmpBytes_refl]

theorem cmpKeys_eq_of_keysEq (S : Schema) : ∀ (as bs : List DNode), keysEq as bs = true → cmpKeys S as bs = .eq
  | [], [], _ => rfl
  | [], _ :: _, h => by simp [keysEq] at h
  | _ :: _, [], h => by simp [keysEq] at h
  | a :: as, b :: bs, h => by
    simp only [keysEq, Bool.and_eq_true, beq_iff_eq] at h
    simp only [cmpKeys, ← h.1.2, BaseTy.cmp_refl]
    exact cmpKeys_eq_of_keysEq S as bs h.2

/-- what `lyd_diff_find_match` / `lyd_find_sibling_first` compare a sibling `x` with for the target `t` (fragment: no
duplicate-instance schema nodes) -/
def matchK (S : Schema) (t x : DNode) : Bool :=
  if S.isKind t.sid .list || S.isKind t.sid .leaflist then x.sid == t.sid && sameInst S x t else x.sid == t.sid

theorem findIdxFrom_eq (q : DNode → Bool) : ∀ (l : List DNode) (k : Nat),
    findIdxFrom (fun x _ => q x) l k = (l.findIdx? q).map (· + k)
  | [], _ => by simp [findIdxFrom]
  | x :: xs, k => by
    by_cases h : q x
    · simp [findIdxFrom, h, List.findIdx?_cons]
    · simp [findIdxFrom, h, List.findIdx?_cons, findIdxFrom_eq q xs (k + 1), Option.map_map, Function.comp_def]
      congr 1
      funext n
      omega

theorem findIdxFrom_zero (q : DNode → Bool) (l : List DNode) :
    findIdxFrom (fun x _ => q x) l 0 = l.findIdx? q := by
  simp [findIdxFrom_eq]

/-- shape: a node is a `term` exactly when its schema node is a leaf / leaf-list -/
def shapeOk (S : Schema) (n : DNode) : Bool := n.isTerm == S.isTerm n.sid

theorem sameInst_cmpInst (S : Schema) (x y : DNode) (hx : shapeOk S x = true)
    (hs : S.isSorted x.sid = true) (h : sameInst S x y = true) : cmpInst S x y = .eq := by
  unfold Schema.isSorted at hs
  unfold sameInst at h
  unfold shapeOk Schema.isTerm Schema.isKind Schema.kind? at hx
  cases hg : S.get? x.sid with
  | none => simp [hg] at hs
  | some n =>
    simp only [hg, Bool.and_eq_true, Bool.not_eq_true', Bool.or_eq_true, beq_iff_eq, bne_iff_ne] at hs
    simp only [Schema.kind?, hg, Option.map_some, Bool.and_eq_true, beq_iff_eq] at h
    simp only [hg, Option.map_some] at hx
    rcases hs.2 with hk | ⟨hk, hn⟩
    · -- leaf-list
      have hxt : x.isTerm = true := by simpa [hk] using hx
      have hv : x.val = y.val := by simpa [hk] using h.2
      simp [cmpInst, hxt, hv, BaseTy.cmp_refl]
    · -- keyed list
      have hxt : x.isTerm = false := by
        rw [hk] at hx
        cases hxt : x.isTerm with
        | false => rfl
        | true => rw [hxt] at hx; exact absurd hx (by decide)
      have hke : keysEq (keysOf S x.kids) (keysOf S y.kids) = true := by
        have := h.2
        simp only [hk, Schema.nkeys, hg] at this
        simpa [hn] using this
      simp [cmpInst, hxt, cmpKeys_eq_of_keysEq S _ _ hke]

/-! ### facts about schema predicates -/

theorem isSorted_isLL (S : Schema) (sid : Nat) (h : S.isSorted sid = true) :
    (S.isKind sid .list || S.isKind sid .leaflist) = true := by
  unfold Schema.isSorted at h
  unfold Schema.isKind Schema.kind?
  cases hg : S.get? sid with
  | none => simp [hg] at h
  | some n =>
    simp only [hg, Bool.and_eq_true, Bool.not_eq_true', Bool.or_eq_true, beq_iff_eq, bne_iff_ne] at h
    rcases h.2 with hk | ⟨hk, _⟩ <;> simp [hk]

theorem keysEq_refl : ∀ (l : List DNode), keysEq l l = true
  | [] => rfl
  | a :: as => by simp [keysEq, keysEq_refl as]

theorem sameInst_refl (S : Schema) (a : DNode) : sameInst S a a = true := by
  unfold sameInst
  cases S.kind? a.sid with
  | none => simp
  | some k => cases k <;> simp [keysEq_refl]

theorem matchK_refl (S : Schema) (a : DNode) : matchK S a a = true := by
  unfold matchK
  split <;> simp [sameInst_refl]

/-- a strictly smaller sibling is not the instance looked for -/
theorem matchK_of_klt (S : Schema) (x a : DNode) (hx : shapeOk S x = true) (h : klt S x a = true) :
    matchK S a x = false := by
  unfold klt at h
  simp only [Bool.or_eq_true, decide_eq_true_eq, Bool.and_eq_true, beq_iff_eq] at h
  unfold matchK
  rcases h with h | ⟨⟨h1, h2⟩, h3⟩
  · have : x.sid ≠ a.sid := by omega
    split <;> simp [this]
  · have hll := isSorted_isLL S x.sid h2
    rw [h1] at hll
    simp only [hll, if_true, h1, beq_self_eq_true, Bool.true_and]
    cases hs : sameInst S x a with
    | false => rfl
    | true =>
      have := sameInst_cmpInst S x a hx h2 hs
      rw [this] at h3
      exact absurd h3 (by decide)

theorem canonB_cons (S : Schema) (x : DNode) (xs : List DNode) :
    canonB S (x :: xs) = true ↔ (∀ y ∈ xs, klt S x y = true) ∧ canonB S xs = true := by
  simp [canonB, List.all_eq_true]

/-- in a canonical sibling list every instance is found at its own position -/
theorem findIdx_self (S : Schema) : ∀ (l : List DNode) (i : Nat) (a : DNode),
    canonB S l = true → (∀ x ∈ l, shapeOk S x = true) → l[i]? = some a → l.findIdx? (matchK S a) = some i
  | [], i, a, _, _, h => by simp at h
  | x :: xs, 0, a, _, _, h => by
    simp only [List.getElem?_cons_zero, Option.some.injEq] at h
    subst h
    simp [List.findIdx?_cons, matchK_refl]
  | x :: xs, i + 1, a, hc, hs, h => by
    simp only [List.getElem?_cons_succ] at h
    have hc' := (canonB_cons S x xs).1 hc
    have hmem : a ∈ xs := List.mem_of_getElem? h
    have hk := hc'.1 a hmem
    have hx : matchK S a x = false := matchK_of_klt S x a (hs x (by simp)) hk
    have ih := findIdx_self S xs i a hc'.2 (fun y hy => hs y (by simp [hy])) h
    simp [List.findIdx?_cons, hx, ih]

end LyModel.Diff
