import LyModel.Diff.WF
/-!
# Order lemmas for the canonical sibling order (C06 proofs)

`BaseTy.cmp` (the plugin `sort` callbacks) is reflexive on equal values, so two siblings that `lyd_compare_single`
considers the same instance are never strictly ordered: in a canonical sibling list an instance is found at its own
position (`findIdx_self`).  Core Lean only.
-/
namespace LyModel.Diff
open LyModel LyModel.Tree

theorem cmpBytes_refl (a : Bytes) : cmpBytes a a = .eq := by
  induction a with
  | nil => rfl
  | cons x xs ih => simp [cmpBytes, ih]

theorem BaseTy.cmp_refl (t : BaseTy) (a : Bytes) : t.cmp a a = .eq := by
  cases t <;> simp [BaseTy.cmp, cmpBytes_refl]

theorem cmpKeys_eq_of_keysEq (S : Schema) : ∀ (as bs : List DNode), keysEq as bs = true → cmpKeys S as bs = .eq
  | [], [], _ => rfl
  | [], _ :: _, h => by simp [keysEq] at h
  | _ :: _, [], h => by simp [keysEq] at h
  | a :: as, b :: bs, h => by
    simp only [keysEq, Bool.and_eq_true, beq_iff_eq] at h
    simp only [cmpKeys, ← h.1.2, BaseTy.cmp_refl]
    exact cmpKeys_eq_of_keysEq S as bs h.2

/-- what `lyd_diff_find_match` / `lyd_find_sibling_first` compare a sibling `x` with for the target `t` (fragment: no
duplicate-instance schema nodes) -/
def matchP (S : Schema) (t x : DNode) : Bool :=
  if S.isKind t.sid .list || S.isKind t.sid .leaflist then x.sid == t.sid && sameInst S x t else x.sid == t.sid

theorem findIdxFrom_eq (q : DNode → Bool) : ∀ (l : List DNode) (k : Nat),
    findIdxFrom (fun x _ => q x) l k = (l.findIdx? q).map (· + k)
  | [], _ => by simp [findIdxFrom]
  | x :: xs, k => by
    by_cases h : q x
    · simp [findIdxFrom, h, List.findIdx?_cons]
    · simp [findIdxFrom, h, List.findIdx?_cons, findIdxFrom_eq q xs (k + 1), Option.map_map, Function.comp_def]
      congr 1
      funext n
      omega

theorem findIdxFrom_zero (q : DNode → Bool) (l : List DNode) :
    findIdxFrom (fun x _ => q x) l 0 = l.findIdx? q := by
  simp [findIdxFrom_eq]

/-- shape: a node is a `term` exactly when its schema node is a leaf / leaf-list -/
def shapeOk (S : Schema) (n : DNode) : Bool := n.isTerm == S.isTerm n.sid

theorem sameInst_cmpInst (S : Schema) (x y : DNode) (hx : shapeOk S x = true) (hy : shapeOk S y = true)
    (hs : S.isSorted x.sid = true) (h : sameInst S x y = true) : cmpInst S x y = .eq := by
  unfold Schema.isSorted at hs
  unfold sameInst at h
  unfold shapeOk Schema.isTerm Schema.isKind Schema.kind? at hx
  cases hg : S.get? x.sid with
  | none => simp [hg] at hs
  | some n =>
    simp only [hg, Bool.and_eq_true, Bool.not_eq_true', Bool.or_eq_true, beq_iff_eq, bne_iff_ne] at hs
    simp only [Schema.kind?, hg, Option.map_some, Bool.and_eq_true, beq_iff_eq] at h
    simp only [hg, Option.map_some] at hx
    rcases hs.2 with hk | ⟨hk, hn⟩
    · -- leaf-list
      have hxt : x.isTerm = true := by simpa [hk] using hx
      have hv : x.val = y.val := by simpa [hk] using h.2
      simp [cmpInst, hxt, hv, BaseTy.cmp_refl]
    · -- keyed list
      have hxt : x.isTerm = false := by
        rw [hk] at hx
        cases hxt : x.isTerm with
        | false => rfl
        | true => rw [hxt] at hx; exact absurd hx (by decide)
      have hke : keysEq (keysOf S x.kids) (keysOf S y.kids) = true := by
        have := h.2
        simp only [hk, Schema.nkeys, hg] at this
        simpa [hn] using this
      simp [cmpInst, hxt, cmpKeys_eq_of_keysEq S _ _ hke]

end LyModel.Diff
