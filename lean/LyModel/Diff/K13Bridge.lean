import LyModel.Diff.K13Top
import LyModel.Diff.OrderTheory
/-!
# C13 over keyed lists: from the driver's predicates (`goodT`, `exactDiff`) to the ones relative to `P`

`K13.goodT S P L = goodT S L && allPL P L`; an exact diff (`exactK`) all of whose nodes satisfy `P` is exact relative to `P`;
with `P = fun _ => true` nothing is added.  `allPL P` as a statement about `subnodesL`, and its invariance under `normN`.
-/
set_option linter.unusedSimpArgs false
namespace LyModel.Diff.K13
open LyModel LyModel.Tree LyModel.Diff

variable {P : DNode → Bool}

/-! ### `allPL` -/

theorem allPN_iff (x : DNode) : allPN P x = true ↔ P x = true ∧ allPL P x.kids = true := by
  cases x <;> simp [allPN, allPL, DNode.kids]

theorem allPL_iff_forall : ∀ (l : List DNode), allPL P l = true ↔ ∀ x ∈ l, allPN P x = true
  | [] => by simp [allPL]
  | x :: xs => by simp [allPL, allPL_iff_forall xs]

theorem allPL_mem {l : List DNode} (h : allPL P l = true) {x : DNode} (hx : x ∈ l) : allPN P x = true :=
  (allPL_iff_forall l).1 h x hx

theorem allPL_append (a b : List DNode) : allPL P (a ++ b) = (allPL P a && allPL P b) := by
  induction a with
  | nil => simp [allPL]
  | cons x xs ih => simp [allPL, ih, Bool.and_assoc]

theorem allPL_of_sub {l l' : List DNode} (h : allPL P l' = true) (hs : ∀ x ∈ l, x ∈ l') : allPL P l = true :=
  (allPL_iff_forall l).2 fun x hx => allPL_mem h (hs x hx)

mutual
theorem allPN_true : ∀ x : DNode, allPN (fun _ => true) x = true
  | .inner s f m ks => by simp [allPN, allPL_true ks]
  | .term s f m v => by simp [allPN]
theorem allPL_true : ∀ l : List DNode, allPL (fun _ => true) l = true
  | [] => rfl
  | x :: xs => by simp [allPL, allPN_true x, allPL_true xs]
end

mutual
theorem allPN_subnodes : ∀ (r : DNode), allPN P r = true → ∀ x ∈ subnodes r, P x = true
  | .inner s f m ks, h, x, hx => by
    simp only [allPN, Bool.and_eq_true] at h
    simp only [subnodes, List.mem_cons] at hx
    rcases hx with rfl | hx
    · exact h.1
    · exact allPL_subnodes ks h.2 x hx
  | .term s f m v, h, x, hx => by
    simp only [subnodes, List.mem_singleton] at hx
    subst hx
    simpa [allPN] using h
theorem allPL_subnodes : ∀ (l : List DNode), allPL P l = true → ∀ x ∈ subnodesL l, P x = true
  | [], _, x, hx => by simp [subnodesL] at hx
  | r :: rs, h, x, hx => by
    simp only [allPL, Bool.and_eq_true] at h
    simp only [subnodesL, List.mem_append] at hx
    rcases hx with hx | hx
    · exact allPN_subnodes r h.1 x hx
    · exact allPL_subnodes rs h.2 x hx
end

mutual
theorem allPN_normN {S : Schema} (hP : PInv S P) : ∀ x, allPN P (normN x) = allPN P x
  | .inner s f m ks => by
    have h := P_normN hP (.inner s f m ks)
    simp only [normN] at h
    simp only [normN, allPN, h, allPL_normL hP ks]
  | .term s f m v => by
    have h := P_normN hP (.term s f m v)
    simp only [normN] at h
    simp only [normN, allPN, h]
theorem allPL_normL {S : Schema} (hP : PInv S P) : ∀ l, allPL P (normL13 l) = allPL P l
  | [] => rfl
  | x :: xs => by simp only [normL13, allPL, allPN_normN hP x, allPL_normL hP xs]
end

theorem allPN_congr_norm {S : Schema} (hP : PInv S P) {x x' : DNode} (h : normN x = normN x') : allPN P x = allPN P x' := by
  rw [← allPN_normN hP x, ← allPN_normN hP x', h]

theorem allPL_congr_norm {S : Schema} (hP : PInv S P) {l l' : List DNode} (h : normL13 l = normL13 l') :
    allPL P l = allPL P l' := by
  rw [← allPL_normL hP l, ← allPL_normL hP l', h]

/-! ### good trees -/

mutual
theorem goodN_split (S : Schema) : ∀ x, goodN S P x = (Diff.goodN S x && allPN P x)
  | .inner s f m ks => by
    simp only [goodN, Diff.goodN, allPN, domB, goodL_split S ks]
    cases Diff.domB S (.inner s f m ks) <;> cases P (.inner s f m ks) <;> cases Diff.goodL S ks <;> cases allPL P ks <;>
      cases keysLead S ks <;> rfl
  | .term s f m v => by simp only [goodN, Diff.goodN, allPN, domB]
theorem goodL_split (S : Schema) : ∀ l, goodL S P l = (Diff.goodL S l && allPL P l)
  | [] => rfl
  | x :: xs => by
    simp only [goodL, Diff.goodL, allPL, goodN_split S x, goodL_split S xs]
    cases Diff.goodN S x <;> cases allPN P x <;> cases xs.all (nlt S x) <;> cases Diff.goodL S xs <;> cases allPL P xs <;> rfl
end

/-- a good tree relative to `P` is a good tree all of whose nodes satisfy `P` -/
theorem goodT_split (S : Schema) (l : List DNode) : goodT S P l = (Diff.goodT S l && allPL P l) := by
  simp only [goodT, Diff.goodT, goodL_split]
  cases Diff.goodL S l <;> cases allPL P l <;> cases keysLead S l <;> rfl

theorem goodT_intro {S : Schema} {l : List DNode} (h : Diff.goodT S l = true) (hp : allPL P l = true) :
    goodT S P l = true := by rw [goodT_split, h, hp]; rfl

theorem goodT_old {S : Schema} {l : List DNode} (h : goodT S P l = true) : Diff.goodT S l = true := by
  rw [goodT_split, Bool.and_eq_true] at h; exact h.1

theorem goodT_allP {S : Schema} {l : List DNode} (h : goodT S P l = true) : allPL P l = true := by
  rw [goodT_split, Bool.and_eq_true] at h; exact h.2

theorem goodT_true (S : Schema) (l : List DNode) : goodT S (fun _ => true) l = Diff.goodT S l := by
  rw [goodT_split, allPL_true, Bool.and_true]

/-! ### exact diffs -/

theorem domB_of {S : Schema} {x : DNode} (hp : P x = true) : domB S P x = Diff.domB S x := by
  simp [domB, hp]

mutual
theorem exactE_of (S : Schema) : ∀ (c : DNode) (inh : Option Op) (e : Option DNode), Diff.exactE S inh e c = true →
    allPN P c = true → exactE S P inh e c = true
  | .inner s f m ks, inh, e, h, hp => by
    simp only [allPN, Bool.and_eq_true] at hp
    simp only [exactE, domB_of hp.1]
    simp only [Diff.exactE] at h
    cases hop : effOp (.inner s f m ks) inh with
    | none => simp [hop] at h
    | some o =>
      cases o <;> cases e <;> simp only [hop, Bool.and_eq_true, Bool.and_false, Bool.false_eq_true, and_false] at h ⊢
      · -- create
        exact ⟨h.1, h.2.1, goodT_intro h.2.2 hp.2⟩
      · -- delete
        exact ⟨h.1, ⟨h.2.1.1, h.2.1.2⟩, goodT_intro h.2.2 hp.2⟩
      · -- none
        refine ⟨h.1, h.2.1, ?_⟩
        exact exactK_of S ks _ _ true h.2.2 hp.2
  | .term s f m v, inh, e, h, hp => by
    simp only [allPN] at hp
    simp only [exactE, domB_of hp]
    simp only [Diff.exactE] at h
    cases hop : effOp (.term s f m v) inh with
    | none => simp [hop] at h
    | some o => cases o <;> cases e <;> simp only [hop] at h ⊢ <;> exact h
theorem exactK_of (S : Schema) : ∀ (D : List DNode) (inh : Option Op) (L : List DNode) (ld : Bool),
    Diff.exactK S inh L ld D = true → allPL P D = true → exactK S P inh L ld D = true
  | [], _, _, _, _, _ => by simp [exactK]
  | c :: cs, inh, L, ld, h, hp => by
    simp only [allPL, Bool.and_eq_true] at hp
    rw [Diff.exactK] at h
    rw [exactK]
    split
    · rename_i hlk
      rw [if_pos hlk] at h
      exact exactK_of S cs inh L true h hp.2
    · rename_i hlk
      rw [if_neg hlk] at h
      simp only [Bool.and_eq_true] at h ⊢
      exact ⟨⟨⟨exactE_of S c inh _ h.1.1.1 hp.1, h.1.1.2⟩, h.1.2⟩, exactK_of S cs inh L false h.2 hp.2⟩
end

/-- an exact diff all of whose nodes (at any depth) satisfy `P` is exact relative to `P` -/
theorem exactDiff_intro {S : Schema} {A D : List DNode} (h : Diff.exactDiff S A D = true) (hp : allPL P D = true) :
    exactDiff S P A D = true := exactK_of S D none A false h hp

theorem exactDiff_true {S : Schema} {A D : List DNode} (h : Diff.exactDiff S A D = true) :
    exactDiff S (fun _ => true) A D = true := exactDiff_intro h (allPL_true D)

end LyModel.Diff.K13
