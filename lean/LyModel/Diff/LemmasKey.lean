import LyModel.Diff.LemmasDiff
/-!
# Sibling identity (`kkey`) and the canonical order (C06 proofs)

`kkey S n` is what identifies `n` among its siblings for `lyd_compare_single`: the schema node, plus the value of a
leaf-list instance / the key values of a list instance.  `matchK` (Order.lean) is equality of `kkey`; the strict order
`klt` depends on the nodes only through `kkey`.  Core Lean only.
-/
namespace LyModel.Diff
open LyModel LyModel.Tree

/-- a sibling key: schema id and (key leaf id, canonical value) pairs -/
abbrev Key := Nat × List (Nat × Bytes)

def kkey (S : Schema) (n : DNode) : Nat × List (Nat × Bytes) :=
  (n.sid,
    if S.isKind n.sid .leaflist then [(n.sid, n.val)]
    else if S.isKind n.sid .list then keyPairs (keysOf S n.kids) else [])

theorem kkey_sid (S : Schema) (x y : DNode) (h : kkey S x = kkey S y) : x.sid = y.sid := by
  have := congrArg Prod.fst h
  simpa [kkey] using this

theorem keysEq_iff : ∀ (as bs : List DNode), keysEq as bs = true ↔ keyPairs as = keyPairs bs
  | [], [] => by simp [keysEq, keyPairs]
  | [], _ :: _ => by simp [keysEq, keyPairs]
  | _ :: _, [] => by simp [keysEq, keyPairs]
  | a :: as, b :: bs => by
    have ih := keysEq_iff as bs
    simp only [keyPairs] at ih
    simp only [keysEq, Bool.and_eq_true, beq_iff_eq, keyPairs, List.map_cons, List.cons.injEq, Prod.mk.injEq, ih]

theorem isKind_unique (S : Schema) (sid : Nat) (k k' : SKind) (h : S.isKind sid k = true) (h' : S.isKind sid k' = true) :
    k = k' := by
  unfold Schema.isKind at h h'
  simp only [beq_iff_eq] at h h'
  rw [h] at h'
  exact Option.some.inj h'

/-- a keyed (non duplicate-instance) list has keys -/
theorem nkeys_ne_zero (S : Schema) (sid : Nat) (hl : S.isKind sid .list = true) (hd : S.isDupInst sid = false) :
    S.nkeys sid ≠ 0 := by
  unfold Schema.isKind Schema.kind? at hl
  unfold Schema.isDupInst at hd
  unfold Schema.nkeys
  cases hg : S.get? sid with
  | none => simp [hg] at hl
  | some n =>
    simp only [hg, Option.map_some, beq_iff_eq, Option.some.injEq] at hl
    simp only [hg, hl, Bool.or_eq_false_iff, Bool.and_eq_false_imp, beq_iff_eq] at hd
    intro h0
    have := hd.1
    simp [h0] at this

/-- `lyd_compare_single` on the fragment is equality of `kkey` -/
theorem matchK_iff_kkey (S : Schema) (t x : DNode) (hd : S.isDupInst t.sid = false) :
    matchK S t x = true ↔ kkey S x = kkey S t := by
  unfold matchK kkey
  by_cases hll : S.isKind t.sid .leaflist = true
  · -- leaf-list: schema node and value
    have hk : S.kind? t.sid = some .leaflist := by simpa [Schema.isKind] using hll
    simp only [hll, Bool.or_true, if_true, Bool.and_eq_true, beq_iff_eq, Prod.mk.injEq]
    constructor
    · rintro ⟨h1, h2⟩
      have hv : x.val = t.val := by
        have := h2; unfold sameInst at this; simp only [h1, hk, Bool.and_eq_true, beq_iff_eq] at this; exact this.2
      simp [h1, hll, hv]
    · rintro ⟨h1, h2⟩
      refine ⟨h1, ?_⟩
      simp only [h1, hll, if_true, List.cons.injEq, Prod.mk.injEq, and_true, true_and] at h2
      unfold sameInst; simp [h1, hk, h2]
  · by_cases hl : S.isKind t.sid .list = true
    · -- keyed list: schema node and key values
      have hk : S.kind? t.sid = some .list := by simpa [Schema.isKind] using hl
      have hn := nkeys_ne_zero S t.sid hl hd
      simp only [hl, Bool.true_or, if_true, Bool.and_eq_true, beq_iff_eq, Prod.mk.injEq, hll, Bool.false_eq_true, if_false]
      constructor
      · rintro ⟨h1, h2⟩
        have hke : keysEq (keysOf S x.kids) (keysOf S t.kids) = true := by
          have := h2; unfold sameInst at this
          simp only [h1, hk, Bool.and_eq_true, beq_iff_eq, hn, if_false] at this; exact this.2
        simp [h1, hll, hl, (keysEq_iff _ _).1 hke]
      · rintro ⟨h1, h2⟩
        refine ⟨h1, ?_⟩
        simp only [h1, hll, hl, Bool.false_eq_true, if_false, if_true] at h2
        unfold sameInst; simp [h1, hk, hn, (keysEq_iff _ _).2 h2]
    · -- leaf / container: the schema node
      simp only [hl, hll, Bool.or_self, Bool.false_eq_true, if_false, beq_iff_eq, Prod.mk.injEq]
      constructor
      · intro h1; simp [h1, hl, hll]
      · intro h; exact h.1

/-! ### the order on keys -/

/-- `rb_compare_lists` / `rb_compare_leaflists` on the key pairs -/
def cmpPairs (S : Schema) : List (Nat × Bytes) → List (Nat × Bytes) → Ordering
  | a :: as, b :: bs =>
    match (S.ty a.1).cmp a.2 b.2 with
    | .eq => cmpPairs S as bs
    | o => o
  | _, _ => .eq

def kltK (S : Schema) (k1 k2 : Nat × List (Nat × Bytes)) : Bool :=
  k1.1 < k2.1 || (k1.1 == k2.1 && S.isSorted k1.1 && cmpPairs S k1.2 k2.2 == .lt)

theorem cmpKeys_eq_cmpPairs (S : Schema) : ∀ (as bs : List DNode), cmpKeys S as bs = cmpPairs S (keyPairs as) (keyPairs bs)
  | [], _ => by simp [cmpKeys, cmpPairs, keyPairs]
  | _ :: _, [] => by simp [cmpKeys, cmpPairs, keyPairs]
  | a :: as, b :: bs => by
    have ih := cmpKeys_eq_cmpPairs S as bs
    simp only [keyPairs] at ih
    simp only [cmpKeys, cmpPairs, keyPairs, List.map_cons, ih]
    cases (S.ty a.sid).cmp a.val b.val <;> rfl

theorem isSorted_cases (S : Schema) (sid : Nat) (h : S.isSorted sid = true) :
    (S.isKind sid .leaflist = true ∧ S.isTerm sid = true) ∨
    (S.isKind sid .list = true ∧ S.isKind sid .leaflist = false ∧ S.isTerm sid = false) := by
  unfold Schema.isSorted at h
  unfold Schema.isTerm Schema.isKind Schema.kind?
  cases hg : S.get? sid with
  | none => simp [hg] at h
  | some n =>
    simp only [hg, Bool.and_eq_true, Bool.not_eq_true', Bool.or_eq_true, beq_iff_eq, bne_iff_ne] at h
    rcases h.2 with hk | ⟨hk, _⟩ <;> simp [hk]

/-- the instance order is the order of the keys -/
theorem klt_eq_kltK (S : Schema) (x y : DNode) (hx : shapeOk S x = true) (_hy : shapeOk S y = true) :
    klt S x y = kltK S (kkey S x) (kkey S y) := by
  unfold klt kltK
  simp only [kkey]
  by_cases hs : x.sid = y.sid
  · by_cases hso : S.isSorted x.sid = true
    · congr 2
      rcases isSorted_cases S x.sid hso with ⟨hll, ht⟩ | ⟨hl, hnll, ht⟩
      · have hxt : x.isTerm = true := by simpa [shapeOk, ht] using hx
        simp [cmpInst, hxt, ← hs, hll, cmpPairs]
        cases (S.ty x.sid).cmp x.val y.val <;> rfl
      · have hxt : x.isTerm = false := by simpa [shapeOk, ht] using hx
        simp [cmpInst, hxt, ← hs, hl, hnll, cmpKeys_eq_cmpPairs]
    · simp [hso]
      rfl
  · have : (x.sid == y.sid) = false := by simpa using hs
    simp [this]
    rfl

theorem kltK_irrefl (S : Schema) (k : Nat × List (Nat × Bytes)) : kltK S k k = false := by
  have : ∀ l : List (Nat × Bytes), cmpPairs S l l = .eq := by
    intro l
    induction l with
    | nil => rfl
    | cons a as ih => simp [cmpPairs, BaseTy.cmp_refl, ih]
  simp [kltK, this]

/-- strictly ordered siblings are different instances -/
theorem kkey_ne_of_klt (S : Schema) (x y : DNode) (hx : shapeOk S x = true) (hy : shapeOk S y = true)
    (h : klt S x y = true) : kkey S x ≠ kkey S y := by
  intro he
  rw [klt_eq_kltK S x y hx hy, he, kltK_irrefl] at h
  exact absurd h (by decide)

end LyModel.Diff
