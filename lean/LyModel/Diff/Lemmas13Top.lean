import LyModel.Diff.Lemmas13Rev
import LyModel.Diff.LemmasRevSwitch
/-!
# C13 helper lemmas: the round trip at the top level, and `KeyOrder` for string leaf-lists
-/
set_option linter.unusedSimpArgs false
namespace LyModel.Diff
open LyModel LyModel.Tree

/-- the reversed diff of an exact diff takes the result of the diff back (up to `normN`) -/
theorem reverse_roundtrip {S : Schema} {fx : Fixes} (K : KeyOrder S) {A D : List DNode} (hA : goodT S A = true)
    (hD : exactDiff S A D = true) :
    ∃ B R A', apply S A D fx = .ok B ∧ goodT S B = true ∧ reverse S D = .ok R ∧ heightL R = heightL D ∧
      apply S B R fx = .ok A' ∧ normL13 A' = normL13 A := by
  obtain ⟨R, hR, hRh, _, _, B, hB, hgB, hkB, hloc1, hback⟩ :=
    listRev K D (heightL D + 1) false none A false (Nat.le_succ _) hA hD
  have hdk : dk S false D = D := by simp [dk]
  have hdkR : dk S false R = R := by simp [dk]
  rw [hdk] at hB hloc1 hback
  rw [hdkR] at hback
  obtain ⟨A', hA', hgA', _, hloc2, hres⟩ := hback B hgB hkB (fun _ _ => rfl)
  refine ⟨B, R, A', ?_, hgB, reverse_of_noUO (noUO_of_exactDiff hD) hR, hRh, ?_, ?_⟩
  · rw [apply_eq_applyF]; exact hB
  · rw [apply_eq_applyF, hRh]; exact hA'
  · apply normL_eq_of_look K (goodT_goodL hgA') (goodT_goodL hA)
    intro q hq
    by_cases hex : ∃ c ∈ D, matchP S c q = true
    · obtain ⟨c, hc, hcq⟩ := hex
      have hcd : Dom S c := (exactE_base (exactK_mem false D hD c (by rw [hdk]; exact hc)).1).1
      rw [← look_congr K (goodT_goodL hgA') hcd hq hcq, ← look_congr K (goodT_goodL hA) hcd hq hcq]
      exact hres c hc
    · have hall : ∀ c ∈ D, matchP S c q = false := by
        intro c hc
        cases h : matchP S c q
        · rfl
        · exact absurd ⟨c, hc, h⟩ hex
      rw [hloc2 q hq hall, hloc1 q hq hall]

/-! ## `KeyOrder` holds when the system-ordered nodes are string leaf-lists -/

theorem cmpBytes_lt_gt : ∀ a b : Bytes, cmpBytes a b = .lt → cmpBytes b a = .gt
  | [], [] => by simp [cmpBytes]
  | [], _ :: _ => by simp [cmpBytes]
  | _ :: _, [] => by simp [cmpBytes]
  | a :: as, b :: bs => by
    simp only [cmpBytes]
    by_cases h1 : a < b
    · have h2 : ¬ b < a := by
        intro h
        exact absurd (UInt8.lt_trans h1 h) (UInt8.lt_irrefl a)
      simp [h1, h2]
    · by_cases h2 : b < a
      · simp [h1, h2]
      · simp only [h1, h2, ↓reduceIte]
        exact cmpBytes_lt_gt as bs

theorem cmpBytes_trans : ∀ a b c : Bytes, cmpBytes a b = .lt → cmpBytes b c = .lt → cmpBytes a c = .lt
  | [], [], _ => by simp [cmpBytes]
  | [], _ :: _, [] => by simp [cmpBytes]
  | [], _ :: _, _ :: _ => by simp [cmpBytes]
  | _ :: _, [], _ => by simp [cmpBytes]
  | _ :: _, _ :: _, [] => by simp [cmpBytes]
  | a :: as, b :: bs, c :: cs => by
    simp only [cmpBytes]
    intro h1 h2
    by_cases hab : a < b
    · by_cases hbc : b < c
      · simp [UInt8.lt_trans hab hbc]
      · by_cases hcb : c < b
        · simp [hbc, hcb] at h2
        · have : b = c := UInt8.le_antisymm (UInt8.not_lt.mp hcb) (UInt8.not_lt.mp hbc)
          subst this
          simp [hab]
    · by_cases hba : b < a
      · simp [hab, hba] at h1
      · have hab' : a = b := UInt8.le_antisymm (UInt8.not_lt.mp hba) (UInt8.not_lt.mp hab)
        subst hab'
        simp only [hab, ↓reduceIte] at h1
        by_cases hbc : a < c
        · simp [hbc]
        · by_cases hcb : c < a
          · simp [hbc, hcb] at h2
          · simp only [hbc, hcb, ↓reduceIte] at h2 ⊢
            exact cmpBytes_trans as bs cs h1 h2

theorem cmpBytes_total : ∀ a b : Bytes, a ≠ b → cmpBytes a b = .lt ∨ cmpBytes b a = .lt
  | [], [] => by simp
  | [], _ :: _ => by simp [cmpBytes]
  | _ :: _, [] => by simp [cmpBytes]
  | a :: as, b :: bs => by
    intro hne
    simp only [cmpBytes]
    by_cases h1 : a < b
    · simp [h1]
    · by_cases h2 : b < a
      · simp [h2]
      · have hab : a = b := UInt8.le_antisymm (UInt8.not_lt.mp h2) (UInt8.not_lt.mp h1)
        subst hab
        simp only [h1, ↓reduceIte]
        exact cmpBytes_total as bs (fun h => hne (by rw [h]))

/-- every system-ordered node is a leaf-list of type string, and list keys are leaves -/
def stringLLB (S : Schema) : Bool :=
  (List.range S.nodes.length).all fun sid =>
    (!S.isSorted sid || (S.isKind sid .leaflist && match S.ty sid with | .string => true | _ => false)) &&
    (!S.isKey sid || S.isTerm sid)

theorem get?_none_of_ge {S : Schema} {sid : Nat} (h : S.nodes.length ≤ sid) : S.get? sid = none := by
  simp [Schema.get?, h]

theorem stringLLB_spec {S : Schema} (h : stringLLB S = true) (sid : Nat) :
    (S.isSorted sid = true → S.isKind sid .leaflist = true ∧ S.ty sid = .string) ∧
      (S.isKey sid = true → S.isTerm sid = true) := by
  by_cases hlt : sid < S.nodes.length
  · have := List.all_eq_true.mp h sid (List.mem_range.mpr hlt)
    simp only [Bool.and_eq_true, Bool.or_eq_true, Bool.not_eq_eq_eq_not, Bool.not_true] at this
    constructor
    · intro hs
      rcases this.1 with h1 | h1
      · rw [hs] at h1; exact absurd h1 (by decide)
      · refine ⟨h1.1, ?_⟩
        cases hty : S.ty sid <;> simp_all
    · intro hk
      rcases this.2 with h1 | h1
      · rw [hk] at h1; exact absurd h1 (by decide)
      · exact h1
  · have hn := get?_none_of_ge (S := S) (Nat.le_of_not_lt hlt)
    constructor
    · intro hs
      simp [Schema.isSorted, hn] at hs
    · intro hk
      simp [Schema.isKey, hn] at hk

theorem keyOrder_of_stringLL {S : Schema} (h : stringLLB S = true) : KeyOrder S := by
  have key : ∀ {x y : DNode}, Dom S x → Dom S y → x.sid = y.sid → S.isSorted x.sid = true →
      cmpInst S x y = cmpBytes x.val y.val ∧ sameInst S x y = (x.val == y.val) := by
    intro x y hx hy hs hsrt
    obtain ⟨hll, hty⟩ := (stringLLB_spec h x.sid).1 hsrt
    have hxt : x.isTerm = true := by
      rw [hx.typed]
      simp [Schema.isTerm, hll]
    refine ⟨by simp [cmpInst, hxt, hty, BaseTy.cmp], ?_⟩
    have hk := isKind_iff.mp hll
    unfold sameInst
    rw [hk]
    simp [hs]
  refine ⟨fun hk => (stringLLB_spec h _).2 hk, ?_, ?_, ?_, ?_, ?_⟩
  · intro x y hx hy hs hsrt hlt
    rw [(key hx hy hs hsrt).1] at hlt
    rw [(key hy hx hs.symm (hs ▸ hsrt)).1, cmpBytes_lt_gt _ _ hlt]
    decide
  · intro x y z hx hy hz h1 h2 hsrt hxy hyz
    rw [(key hx hy h1 hsrt).1] at hxy
    rw [(key hy hz h2 (h1 ▸ hsrt)).1] at hyz
    rw [(key hx hz (h1.trans h2) hsrt).1]
    exact cmpBytes_trans _ _ _ hxy hyz
  · intro x y hx hy hs hsrt hne
    rw [(key hx hy hs hsrt).2] at hne
    rw [(key hx hy hs hsrt).1, (key hy hx hs.symm (hs ▸ hsrt)).1]
    exact cmpBytes_total _ _ (by simpa using hne)
  · intro x x' y hx hx' hy hs hsrt hsame
    have hs' : x.sid = x'.sid := sameInst_sid hsame
    rw [(key hx hx' hs' hsrt).2] at hsame
    rw [(key hx hy hs hsrt).1, (key hx' hy (hs'.symm.trans hs) (hs' ▸ hsrt)).1]
    have : x.val = x'.val := by simpa using hsame
    rw [this]
  · intro x y y' hx hy hy' hs hsrt hsame
    have hs' : y.sid = y'.sid := sameInst_sid hsame
    rw [(key hy hy' hs' (hs ▸ hsrt)).2] at hsame
    rw [(key hx hy hs hsrt).1, (key hx hy' (hs.trans hs') hsrt).1]
    have : y.val = y'.val := by simpa using hsame
    rw [this]

end LyModel.Diff
