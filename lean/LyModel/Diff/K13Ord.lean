import LyModel.Diff.K13Defs
import LyModel.Diff.Lemmas13Ord
/-!
# C13 over keyed lists: the order hypothesis relative to `P`, and the sibling order as a `KL.Ord` on the nodes satisfying `P`

`KeyOrderOn S P` is `Lemmas13Ord.KeyOrder S` with every axiom asked only for nodes that satisfy `P` (carrier `K13.Dom S P`).
`KeyOrder S → KeyOrderOn S (fun _ => true)` (`keyOrderOn_of_keyOrder`), so everything proved from `KeyOrderOn` holds under the
old hypothesis as well; unlike `KeyOrder`, `KeyOrderOn S (keyedOK S)` is satisfiable — it is proved for every schema whose list
keys are leaves and whose enumerations have distinct values (K13Canon.lean `keyOrderOn_keyed`).
-/
set_option linter.unusedSimpArgs false
namespace LyModel.Diff.K13
open LyModel LyModel.Tree LyModel.Diff

variable {P : DNode → Bool}

/-- nodes the theory speaks about: instances of data nodes that are not user-ordered, of the right shape, satisfying `P` -/
structure Dom (S : Schema) (P : DNode → Bool) (x : DNode) : Prop where
  nuo : S.isUserOrd x.sid = false
  ndi : S.isDupInst x.sid = false
  typed : x.isTerm = S.isTerm x.sid
  sat : P x = true

theorem Dom.old {S : Schema} {x : DNode} (h : Dom S P x) : Diff.Dom S x := ⟨h.nuo, h.ndi, h.typed⟩

/-- HYPOTHESIS of the C13 theorems about system-ordered lists and leaf-lists, relative to `P`: on the instances of one such
schema node THAT SATISFY `P`, `Tree.cmpInst` (the `sort` callbacks of the type plugins, key by key — `rb_compare_lists`) is a
strict total order, and instances with equal keys / values (`sameInst`) are indistinguishable for it.  What is used of the
type orders: asymmetry and transitivity of `lt`, and — the property finding F28 (date-and-time) violates — that two values the
callback cannot tell apart are the same canonical value (`total`). -/
structure KeyOrderOn (S : Schema) (P : DNode → Bool) : Prop where
  /-- list keys are leaves (schema well-formedness) -/
  keyTerm : ∀ {sid}, S.isKey sid = true → S.isTerm sid = true
  /-- `P` looks at the schema node, the value and the list keys only; it holds off the sorted schema nodes -/
  pinv : PInv S P
  asymm : ∀ {x y}, Dom S P x → Dom S P y → x.sid = y.sid → S.isSorted x.sid = true → cmpInst S x y = .lt → cmpInst S y x ≠ .lt
  trans : ∀ {x y z}, Dom S P x → Dom S P y → Dom S P z → x.sid = y.sid → y.sid = z.sid → S.isSorted x.sid = true →
    cmpInst S x y = .lt → cmpInst S y z = .lt → cmpInst S x z = .lt
  total : ∀ {x y}, Dom S P x → Dom S P y → x.sid = y.sid → S.isSorted x.sid = true → sameInst S x y = false →
    cmpInst S x y = .lt ∨ cmpInst S y x = .lt
  congr_l : ∀ {x x' y}, Dom S P x → Dom S P x' → Dom S P y → x.sid = y.sid → S.isSorted x.sid = true → sameInst S x x' = true →
    cmpInst S x y = cmpInst S x' y
  congr_r : ∀ {x y y'}, Dom S P x → Dom S P y → Dom S P y' → x.sid = y.sid → S.isSorted x.sid = true → sameInst S y y' = true →
    cmpInst S x y = cmpInst S x y'

/-- the old hypothesis is the instance `P = fun _ => true` -/
theorem keyOrderOn_of_keyOrder {S : Schema} (K : KeyOrder S) : KeyOrderOn S (fun _ => true) where
  keyTerm := K.keyTerm
  pinv := pinv_true S
  asymm := fun hx hy => K.asymm hx.old hy.old
  trans := fun hx hy hz => K.trans hx.old hy.old hz.old
  total := fun hx hy => K.total hx.old hy.old
  congr_l := fun hx hx' hy => K.congr_l hx.old hx'.old hy.old
  congr_r := fun hx hy hy' => K.congr_r hx.old hy.old hy'.old

/-- the order of the model on the carrier `Dom S P` -/
def ordOf (S : Schema) (K : KeyOrderOn S P) : KL.Ord DNode where
  lt := nlt S
  same := matchP S
  dom := Dom S P
  asymm := by
    intro x y hx hy h
    simp only [nlt, Bool.or_eq_true, decide_eq_true_eq, Bool.and_eq_true, beq_iff_eq] at h
    simp only [nlt, Bool.or_eq_false_iff, decide_eq_false_iff_not, Bool.and_eq_false_iff]
    rcases h with h | ⟨⟨h1, h2⟩, h3⟩
    · refine ⟨by omega, Or.inl (Or.inl ?_)⟩
      exact beq_eq_false_iff_ne.mpr (by omega)
    · refine ⟨by omega, Or.inr ?_⟩
      have := K.asymm hx hy h1 h2 h3
      cases hc : cmpInst S y x <;> simp_all
  trans := by
    intro x y z hx hy hz h1 h2
    simp only [nlt, Bool.or_eq_true, decide_eq_true_eq, Bool.and_eq_true, beq_iff_eq] at h1 h2 ⊢
    rcases h1 with h1 | ⟨⟨a1, a2⟩, a3⟩
    · rcases h2 with h2 | ⟨⟨b1, _⟩, _⟩
      · exact Or.inl (by omega)
      · exact Or.inl (by omega)
    · rcases h2 with h2 | ⟨⟨b1, b2⟩, b3⟩
      · exact Or.inl (by omega)
      · exact Or.inr ⟨⟨a1.trans b1, a2⟩, K.trans hx hy hz a1 b1 a2 a3 b3⟩
  total := by
    intro x y hx hy h
    simp only [matchP, Bool.and_eq_false_iff, Bool.or_eq_false_iff, Bool.not_eq_false'] at h
    simp only [nlt, Bool.or_eq_true, decide_eq_true_eq, Bool.and_eq_true, beq_iff_eq]
    by_cases hs : x.sid = y.sid
    · rcases h with h | ⟨hl, hm⟩
      · exact absurd hs.symm (by simpa using h)
      · have hsrt := isSorted_of_isLL hl hx.nuo hx.ndi
        rw [instMatch_eq hx.ndi] at hm
        have hm' : sameInst S x y = false := by
          cases hc : sameInst S x y
          · rfl
          · rw [sameInst_symm hc] at hm
            exact absurd hm (by decide)
        rcases K.total hx hy hs hsrt hm' with h | h
        · exact Or.inl (Or.inr ⟨⟨hs, hsrt⟩, h⟩)
        · exact Or.inr (Or.inr ⟨⟨hs.symm, hs ▸ hsrt⟩, h⟩)
    · rcases Nat.lt_or_gt_of_ne hs with h | h
      · exact Or.inl (Or.inl h)
      · exact Or.inr (Or.inl h)
  same_refl := by
    intro x hx
    simp [matchP, instMatch_eq hx.ndi, sameInst_refl13]
  same_symm := by
    intro x y hx hy h
    have hs := matchP_sid h
    simp only [matchP, Bool.and_eq_true, beq_iff_eq, Bool.or_eq_true, Bool.not_eq_eq_eq_not, Bool.not_true] at h ⊢
    refine ⟨hs.symm, ?_⟩
    rcases h.2 with h2 | h2
    · exact Or.inl (hs ▸ h2)
    · rw [instMatch_eq hx.ndi] at h2
      rw [instMatch_eq hy.ndi]
      exact Or.inr (sameInst_symm h2)
  same_trans := by
    intro x y z hx hy hz h1 h2
    have hs1 := matchP_sid h1
    have hs2 := matchP_sid h2
    simp only [matchP, Bool.and_eq_true, beq_iff_eq, Bool.or_eq_true, Bool.not_eq_eq_eq_not, Bool.not_true] at h1 h2 ⊢
    refine ⟨hs2.trans hs1, ?_⟩
    rcases h1.2 with a | a
    · exact Or.inl a
    · rcases h2.2 with b | b
      · rw [hs1] at b
        exact Or.inl b
      · rw [instMatch_eq hx.ndi] at a
        rw [instMatch_eq hy.ndi] at b
        rw [instMatch_eq hx.ndi]
        exact Or.inr (sameInst_trans b a)
  lt_congr_l := by
    intro x x' y hx hx' hy h
    have hs := matchP_sid h
    simp only [matchP, Bool.and_eq_true, beq_iff_eq, Bool.or_eq_true, Bool.not_eq_eq_eq_not, Bool.not_true] at h
    simp only [nlt, hs]
    by_cases hsy : x.sid = y.sid
    · by_cases hsrt : S.isSorted x.sid = true
      · have hl := isLL_of_isSorted hsrt
        have hm : sameInst S x x' = true := by
          rcases h.2 with a | a
          · rw [hl] at a
            exact absurd a (by decide)
          · rw [instMatch_eq hx.ndi] at a
            exact sameInst_symm a
        rw [K.congr_l hx hx' hy hsy hsrt hm]
      · have : S.isSorted x.sid = false := by simpa using hsrt
        simp [this]
    · have : (x.sid == y.sid) = false := beq_eq_false_iff_ne.mpr hsy
      simp [this]
  lt_congr_r := by
    intro x y y' hx hy hy' h
    have hs := matchP_sid h
    simp only [matchP, Bool.and_eq_true, beq_iff_eq, Bool.or_eq_true, Bool.not_eq_eq_eq_not, Bool.not_true] at h
    simp only [nlt, hs]
    by_cases hsy : x.sid = y.sid
    · by_cases hsrt : S.isSorted x.sid = true
      · have hl : isLL S y.sid = true := hsy ▸ isLL_of_isSorted hsrt
        have hm : sameInst S y y' = true := by
          rcases h.2 with a | a
          · rw [hl] at a
            exact absurd a (by decide)
          · rw [instMatch_eq hy.ndi] at a
            exact sameInst_symm a
        rw [K.congr_r hx hy hy' hsy hsrt hm]
      · have : S.isSorted x.sid = false := by simpa using hsrt
        simp [this]
    · have : (x.sid == y.sid) = false := beq_eq_false_iff_ne.mpr hsy
      simp [this]

end LyModel.Diff.K13
