import LyModel.Diff.UOBridgeMKDiff
/-!
# Bridge (C06) — multi-key user-ordered lists, part 2: one step of each pass of `lyd_diff_siblings_r` (as `UOBridgeKLStep.lean`)
-/
namespace LyModel.Diff.UOB.MK
open LyModel LyModel.Tree LyModel.Diff LyModel.Diff.UOB LyModel.Diff.UOB.KL
set_option linter.unusedSimpArgs false
set_option linter.unusedVariables false
local instance (priority := high) keyBEq2 {nk : Nat} : BEq (KeyN nk) := instBEqOfDecidableEq

/-! ## the diff nodes `lyd_diff_add` creates for the three operations -/

def delNode {nk : Nat} (s : Nat) (ov : Bytes) (k : KeyN nk) : DNode :=
  .inner s {} [("operation", Op.delete.bytes), ("orig-key", ov)] (keyLeavesF {} (s + 1) k.1)
def createNode {nk : Nat} (s : Nat) (a : Bytes) (k : KeyN nk) : DNode :=
  .inner s {} [("operation", Op.create.bytes), ("key", a)] (keyLeavesF {} (s + 1) k.1)
def moveNode {nk : Nat} (s : Nat) (ov a : Bytes) (k : KeyN nk) : DNode :=
  .inner s {} [("operation", Op.replace.bytes), ("key", a), ("orig-key", ov)] (keyLeavesF {} (s + 1) k.1)

theorem isKL_del {nk : Nat} (s : Nat) (ov : Bytes) (k : KeyN nk) : IsKL s nk (delNode s ov k) := ⟨_, _, _, k, rfl⟩
theorem isKL_create {nk : Nat} (s : Nat) (a : Bytes) (k : KeyN nk) : IsKL s nk (createNode s a k) := ⟨_, _, _, k, rfl⟩
theorem isKL_move {nk : Nat} (s : Nat) (ov a : Bytes) (k : KeyN nk) : IsKL s nk (moveNode s ov a k) := ⟨_, _, _, k, rfl⟩

theorem map_setMetas_leaves (kf : Flags) : ∀ (j : Nat) (kv : List Bytes),
    (keyLeavesF kf j kv).map (fun k => k.setMetas []) = keyLeavesF kf j kv
  | _, [] => rfl
  | j, v :: vs => by
    show DNode.term j kf [] v :: (keyLeavesF kf (j + 1) vs).map (fun k => k.setMetas []) = _
    rw [map_setMetas_leaves kf (j + 1) vs]; rfl

theorem dupRecL_leaves (kf : Flags) : ∀ (j : Nat) (kv : List Bytes), dupRecL (keyLeavesF kf j kv) = keyLeavesF kf j kv
  | _, [] => by simp [keyLeavesF, dupRecL]
  | j, v :: vs => by simp [keyLeavesF, dupRecL, dupRec, dupRecL_leaves kf (j + 1) vs]

theorem dup_kl {S : Schema} {s nk : Nat} (C : MKCtx S s nk) (x : KeyN nk) (r : Bool) :
    (if r = true then dupRec (klNode s x) else dupShallow S (klNode s x)) = klNode s x := by
  cases r
  · simp [dupShallow, klNode, keysOf_all C, map_setMetas_leaves]
  · simp [dupRec, klNode, dupRecL_leaves]

theorem newNode_kl {S : Schema} {s nk : Nat} (C : MKCtx S s nk) (x : KeyN nk) (a : Attrs) :
    newNode S (klNode s x) a = withAttrs S (klNode s x) a := by
  simp only [newNode, dup_kl C]

theorem nestedGo_leaves {S : Schema} (recur : List DNode → List DNode) (kf : Flags) : ∀ (kv : List Bytes) (j : Nat)
    (prev : Option DNode) (cnt : Nat), (∀ c ∈ keyLeavesF kf j kv, S.isUserOrd c.sid = false) →
    nestedGo S recur prev cnt (keyLeavesF kf j kv) = keyLeavesF kf j kv
  | [], _, _, _, _ => rfl
  | v :: vs, j, prev, cnt, h => by
    have h0 : S.isUserOrd j = false := h (.term j kf [] v) (by simp [keyLeavesF])
    simp only [keyLeavesF, nestedGo, nestedMeta, DNode.sid, h0, Bool.not_false, if_true, List.cons.injEq, true_and]
    exact nestedGo_leaves recur kf vs (j + 1) _ _ (fun c hc => h c (by simp [keyLeavesF, hc]))

theorem nested_key {S : Schema} {s nk : Nat} (C : MKCtx S s nk) (k : KeyN nk) (fuel : Nat) :
    nestedAll S (fuel + 1) (keyLeavesF {} (s + 1) k.1) = keyLeavesF {} (s + 1) k.1 :=
  nestedGo_leaves _ _ _ _ _ _ (fun c hc => (keyLeaves_all0 C {} k c hc).2.1)

theorem newNode_delete {S : Schema} {s nk : Nat} (C : MKCtx S s nk) (x : KeyN nk) (ov : Bytes) :
    newNode S (klNode s x) { op := .delete, origKey := some ov } = delNode s ov x := by
  rw [newNode_kl C]; rfl

theorem newNode_create {S : Schema} {s nk : Nat} (C : MKCtx S s nk) (x : KeyN nk) (a : Bytes) :
    newNode S (klNode s x) { op := .create, key := some a } = createNode s a x := by
  rw [newNode_kl C]
  simp only [withAttrs, addMeta, addMetaOpt, klNode, DNode.setMetas, DNode.metas, DNode.setKids, DNode.kids, createNode,
    beq_self_eq_true, if_true, List.nil_append, nested_key C x]
  rfl

theorem newNode_move {S : Schema} {s nk : Nat} (C : MKCtx S s nk) (x : KeyN nk) (ov a : Bytes) :
    newNode S (klNode s x) { op := .replace, origKey := some ov, key := some a } = moveNode s ov a x := by
  rw [newNode_kl C]; rfl

/-! ## `lyd_diff_add` at a level that holds nodes of `s` only -/

theorem addAt_kl {S : Schema} {s nk : Nat} (C : MKCtx S s nk) (out : List DNode) (x : KeyN nk) (a : Attrs)
    (hout : ∀ n ∈ out, IsKL s nk n ∧ keyOf n ≠ x.1) :
    addAt S out (klNode s x) a = (out ++ [newNode S (klNode s x) a], none) := by
  have h1 : findIdxFrom (fun n _ => sameInst S n (klNode s x)) out 0 = none := by
    rw [findIdxFrom_zero, List.findIdx?_eq_none_iff]
    intro n hn
    rw [sameInst_kl C n _ (hout n hn).1 (isKL_klNode s x)]
    rw [klNode_key]; exact decide_eq_false (hout n hn).2
  have hs : (newNode S (klNode s x) a).sid = s := by
    rw [newNode_kl C, sid_withAttrs]; rfl
  have h2 : insertBySchema (newNode S (klNode s x) a) out = out ++ [newNode S (klNode s x) a] := by
    apply insertBySchema_end'
    intro n hn
    rw [hs, (hout n hn).1.sid]
    exact Nat.le_refl _
  simp [addAt, C.nd, h1, h2]

/-! ## first pass -/

/-- an instance of the first tree that is not in the second: `delete` is appended, the virtual list loses the instance -/
theorem phase1Step_delete {S : Schema} {s nk : Nat} (C : MKCtx S s nk) (va vb v : List (KeyN nk)) (p i : Nat) (x : KeyN nk) (st : St)
    (top : Bool) (recur : List DNode → List DNode → St)
    (hv : ∀ y ∈ v, y ∈ va ∨ y ∈ vb) (nda : va.Nodup) (hi : va[i]? = some x) (hxb : x ∉ vb)
    (huo : uoGet st.uo s (klForest s va) true = ⟨s, v.map (ctag va vb), p⟩)
    (hout : ∀ n ∈ st.out, IsKL s nk n ∧ keyOf n ≠ x.1) :
    ∃ ov st', phase1Step S true top recur (klForest s va) (klForest s vb) st (klNode s x, i) = st' ∧
      st'.out = st.out ++ [delNode s ov x] ∧
      uoFind st'.uo s = some ⟨s, (v.erase x).map (ctag va vb), p + 1⟩ ∧ st'.used = st.used ∧ st'.ptr = 0 := by
  obtain ⟨ov, hat⟩ := attrs_delete C va vb v p i x hv nda hi
  refine ⟨ov, _, rfl, ?_⟩
  have hu := uoFind_uoSet st.uo ⟨s, (v.erase x).map (ctag va vb), p + 1⟩
  simp only [phase1Step, klNode_flags, findMatch_kl_none C vb x st.used hxb, klNode_sid, C.uo, phase1UO, huo, hat,
    St.add, addAt_kl C st.out x _ hout, newNode_delete C]
  simp [St.emit, hu]
  split <;> simp [hu]

/-- an instance of the first tree that is in the second too: nothing happens in the first pass -/
theorem phase1Step_keep {S : Schema} {s nk : Nat} (C : MKCtx S s nk) (va vb v : List (KeyN nk)) (p i : Nat) (x : KeyN nk) (st : St)
    (top : Bool) (recur : List DNode → List DNode → St) (hrec : (recur [] []).out = [])
    (hxb : x ∈ vb)
    (huo : uoGet st.uo s (klForest s va) true = ⟨s, v.map (ctag va vb), p⟩) :
    ∃ st', phase1Step S true top recur (klForest s va) (klForest s vb) st (klNode s x, i) = st' ∧
      st'.out = st.out ∧
      uoFind st'.uo s = some ⟨s, v.map (ctag va vb), p⟩ ∧ st'.used = st.used ∧ st'.ptr = st.ptr := by
  refine ⟨_, rfl, ?_⟩
  have hu := uoFind_uoSet st.uo ⟨s, v.map (ctag va vb), p⟩
  have hb : (klForest s vb)[vb.idxOf x]? = some (klNode s x) := by
    rw [klForest_get, idxOf_getElem?_of_mem hxb]; rfl
  simp only [phase1Step, klNode_flags, findMatch_kl_some C vb x st.used hxb, klNode_sid, C.uo, phase1UO, huo,
    Option.bind_some, hb, klNode_kids, noKeys_all C, wrapParent, hrec, List.isEmpty_nil, if_true]
  simp [hu]

/-! ## second pass -/

/-- an instance of the second tree that is not in the first: `create` behind the instance placed before it -/
theorem phase2Step_create {S : Schema} {s nk : Nat} (C : MKCtx S s nk) (va vb v : List (KeyN nk)) (p j : Nat) (y : KeyN nk) (st : St)
    (hv : ∀ z ∈ v, z ∈ va ∨ z ∈ vb) (ndb : vb.Nodup) (hj : vb[j]? = some y) (hya : y ∉ va)
    (huo : uoGet st.uo s (klForest s va) false = ⟨s, v.map (ctag va vb), p⟩)
    (hout : ∀ n ∈ st.out, IsKL s nk n ∧ keyOf n ≠ y.1) :
    ∃ st', phase2Step S true (klForest s va) (klForest s vb) st (klNode s y, j) = st' ∧
      st'.out = st.out ++ [createNode s (anchorStr S s (anchorAt v p)) y] ∧
      uoFind st'.uo s = some ⟨s, (UOG.insertAt v p y).map (ctag va vb), p + 1⟩ ∧ st'.used = st.used ∧ st'.ptr = 0 := by
  have hat := attrs_create C va vb v p j y hv ndb hj hya
  refine ⟨_, rfl, ?_⟩
  have hu := uoFind_uoSet st.uo ⟨s, (UOG.insertAt v p y).map (ctag va vb), p + 1⟩
  simp only [phase2Step, klNode_flags, findMatch_kl_none C va y st.used hya, klNode_sid, C.uo, Option.isSome_none, huo, hat,
    St.add, addAt_kl C st.out y _ hout, newNode_create C]
  simp [St.emit, hu]
  split <;> simp [hu]

/-- a matched instance that already is at its place: nothing -/
theorem phase2Step_keep {S : Schema} {s nk : Nat} (C : MKCtx S s nk) (va vb v : List (KeyN nk)) (p j : Nat) (y : KeyN nk) (st : St)
    (hv : ∀ z ∈ v, z ∈ va ∨ z ∈ vb) (hj : vb[j]? = some y) (hya : y ∈ va) (hp : v[p]? = some y)
    (huo : uoGet st.uo s (klForest s va) true = ⟨s, v.map (ctag va vb), p⟩) :
    ∃ st', phase2Step S true (klForest s va) (klForest s vb) st (klNode s y, j) = st' ∧
      st'.out = st.out ∧
      uoFind st'.uo s = some ⟨s, v.map (ctag va vb), p + 1⟩ ∧ st'.used = st.used ∧ st'.ptr = st.ptr := by
  have hat := attrs_keep C va vb v p (va.idxOf y) j y hv (idxOf_getElem?_of_mem hya) hj hp
  refine ⟨_, rfl, ?_⟩
  have hu := uoFind_uoSet st.uo ⟨s, v.map (ctag va vb), p + 1⟩
  simp only [phase2Step, klNode_flags, findMatch_kl_some C va y st.used hya, klNode_sid, C.uo, Option.isSome_some, huo, hat]
  simp [hu]

/-- a matched instance that is not at its place: move (`replace`) behind the instance placed before it -/
theorem phase2Step_move {S : Schema} {s nk : Nat} (C : MKCtx S s nk) (va vb v : List (KeyN nk)) (p j : Nat) (y : KeyN nk) (st : St)
    (hv : ∀ z ∈ v, z ∈ va ∨ z ∈ vb) (nda : va.Nodup) (hj : vb[j]? = some y) (hya : y ∈ va) (hp : v[p]? ≠ some y)
    (huo : uoGet st.uo s (klForest s va) true = ⟨s, v.map (ctag va vb), p⟩)
    (hout : ∀ n ∈ st.out, IsKL s nk n ∧ keyOf n ≠ y.1) :
    ∃ ov st', phase2Step S true (klForest s va) (klForest s vb) st (klNode s y, j) = st' ∧
      st'.out = st.out ++ [moveNode s ov (anchorStr S s (anchorAt v p)) y] ∧
      uoFind st'.uo s = some ⟨s, (UOG.insertAt (v.erase y) p y).map (ctag va vb), p + 1⟩ ∧
      st'.used = st.used ∧ st'.ptr = 0 := by
  obtain ⟨ov, hat⟩ := attrs_move C va vb v p (va.idxOf y) j y hv nda (idxOf_getElem?_of_mem hya) hj hp
  refine ⟨ov, _, rfl, ?_⟩
  have hu := uoFind_uoSet st.uo ⟨s, (UOG.insertAt (v.erase y) p y).map (ctag va vb), p + 1⟩
  simp only [phase2Step, klNode_flags, findMatch_kl_some C va y st.used hya, klNode_sid, C.uo, Option.isSome_some, huo, hat,
    St.add, addAt_kl C st.out y _ hout, newNode_move C]
  simp [St.emit, hu]
  split <;> simp [hu]

end LyModel.Diff.UOB.MK
