import LyModel.Diff.UOBridgeMKStep
/-!
# Bridge (C06) — multi-key user-ordered lists, part 3: the two passes as folds (as `UOBridgeKLFold.lean`)
-/
namespace LyModel.Diff.UOB.MK
open LyModel LyModel.Tree LyModel.Diff LyModel.Diff.UOB LyModel.Diff.UOB.KL
set_option linter.unusedSimpArgs false
set_option linter.unusedVariables false
local instance (priority := high) keyBEq3 {nk : Nat} : BEq (KeyN nk) := instBEqOfDecidableEq

/-- an identity whose key values `lyd_path_list_predicate` can quote: none has both `'` and `"` in it -/
def QOkN {nk : Nat} (k : KeyN nk) : Prop := ∀ z ∈ k.1, QOk z

theorem getElem?_midK {α : Type} (done todo : List α) (x : α) : (done ++ x :: todo)[done.length]? = some x := by simp

theorem mem_snoc {nk : Nat} {done : List (KeyN nk)} {y : KeyN nk} {k : List Bytes} (h : k ∈ done.map (·.1)) :
    k ∈ (done ++ [y]).map (·.1) := by
  simp only [List.map_append, List.mem_append]; exact Or.inl h

theorem keyOf_del {nk : Nat} (s : Nat) (ov : Bytes) (k : KeyN nk) : keyOf (delNode s ov k) = k.1 := keyLeaves_val _ _ _
theorem keyOf_create {nk : Nat} (s : Nat) (a : Bytes) (k : KeyN nk) : keyOf (createNode s a k) = k.1 := keyLeaves_val _ _ _
theorem keyOf_move {nk : Nat} (s : Nat) (ov a : Bytes) (k : KeyN nk) : keyOf (moveNode s ov a k) = k.1 := keyLeaves_val _ _ _

theorem mem_insertAtK {α : Type} {v : List α} {p : Nat} {y z : α} (h : z ∈ UOG.insertAt v p y) : z = y ∨ z ∈ v := by
  unfold UOG.insertAt at h
  simp only [List.mem_append, List.mem_cons] at h
  rcases h with h | h | h
  · exact Or.inr (List.mem_of_mem_take h)
  · exact Or.inl h
  · exact Or.inr (List.mem_of_mem_drop h)

theorem mem_val {nk : Nat} {x : KeyN nk} {l : List (KeyN nk)} : x.1 ∈ l.map (·.1) ↔ x ∈ l := by
  simp only [List.mem_map]
  constructor
  · rintro ⟨y, hy, e⟩; rwa [← Subtype.ext e]
  · intro h; exact ⟨x, h, rfl⟩

/-- diff node `n` encodes the core operation `op` the way `lyd_diff_userord_attrs` + `lyd_diff_add` do: `yang:operation`, and
for create / move the anchor as a key predicate in `yang:key` (empty = first) -/
inductive IsOpNode {nk : Nat} (S : Schema) (s : Nat) : DNode → UOG.UOp (KeyN nk) → Prop
  | del (k : KeyN nk) (ov : Bytes) : IsOpNode S s (delNode s ov k) (.del k)
  | create (k : KeyN nk) (a : Option (KeyN nk)) : (∀ z, a = some z → QOkN z) →
      IsOpNode S s (createNode s (anchorStr S s a) k) (.create k a)
  | move (k : KeyN nk) (ov : Bytes) (a : Option (KeyN nk)) : (∀ z, a = some z → QOkN z) →
      IsOpNode S s (moveNode s ov (anchorStr S s a) k) (.move k a)

/-- the diff nodes encode the core operations, one by one -/
inductive OpNodes {nk : Nat} (S : Schema) (s : Nat) : List DNode → List (UOG.UOp (KeyN nk)) → Prop
  | nil : OpNodes S s [] []
  | cons {n : DNode} {op : UOG.UOp (KeyN nk)} {ns : List DNode} {ops : List (UOG.UOp (KeyN nk))} :
      IsOpNode S s n op → OpNodes S s ns ops → OpNodes S s (n :: ns) (op :: ops)

theorem forall₂_snoc {nk : Nat} {S : Schema} {s : Nat} {l : List DNode} {m : List (UOG.UOp (KeyN nk))} (h : OpNodes S s l m) {a : DNode}
    {b : UOG.UOp (KeyN nk)} (hab : IsOpNode S s a b) : OpNodes S s (l ++ [a]) (m ++ [b]) := by
  induction h with
  | nil => exact .cons hab .nil
  | cons h1 _ ih => exact .cons h1 ih


/-- **first pass.** -/
theorem phase1_fold {S : Schema} {s nk : Nat} (C : MKCtx S s nk) (va vb : List (KeyN nk)) (nda : va.Nodup) (top : Bool)
    (recur : List DNode → List DNode → St) (hrec : (recur [] []).out = []) :
    ∀ (todo done : List (KeyN nk)) (st : St) (v : List (KeyN nk)) (p : Nat) (ops : List (UOG.UOp (KeyN nk))),
      va = done ++ todo → (∀ y ∈ v, y ∈ va ∨ y ∈ vb) →
      uoGet st.uo s (klForest s va) true = ⟨s, v.map (ctag va vb), p⟩ →
      OpNodes S s st.out ops →
      (∀ n ∈ st.out, IsKL s nk n ∧ keyOf n ∈ done.map (·.1) ∧ keyOf n ∉ vb.map (·.1)) → st.ptr = 0 →
      ∃ st' p', ((klForest s todo).zipIdx done.length).foldl
            (phase1Step S true top recur (klForest s va) (klForest s vb)) st = st' ∧
        uoGet st'.uo s (klForest s va) true = ⟨s, (UOG.phase1 vb todo (ops, v)).2.map (ctag va vb), p'⟩ ∧
        (todo ≠ [] → uoFind st'.uo s = some ⟨s, (UOG.phase1 vb todo (ops, v)).2.map (ctag va vb), p'⟩) ∧
        (∀ y ∈ (UOG.phase1 vb todo (ops, v)).2, y ∈ v) ∧
        OpNodes S s st'.out (UOG.phase1 vb todo (ops, v)).1 ∧
        (∀ n ∈ st'.out, IsKL s nk n ∧ keyOf n ∉ vb.map (·.1)) ∧ st'.used = st.used ∧ st'.ptr = 0
  | [], done, st, v, p, ops, _, _, huo, hops, hout, hptr => by
    refine ⟨st, p, rfl, ?_, ?_, ?_, ?_, ?_, rfl, hptr⟩
    · simpa [UOG.phase1] using huo
    · intro h; exact absurd rfl h
    · intro y hy; simpa [UOG.phase1] using hy
    · simpa [UOG.phase1] using hops
    · intro n hn; exact ⟨(hout n hn).1, (hout n hn).2.2⟩
  | x :: xs, done, st, v, p, ops, hva, hv, huo, hops, hout, hptr => by
    have hi : va[done.length]? = some x := by rw [hva]; exact getElem?_midK done xs x
    have hva' : va = (done ++ [x]) ++ xs := by simp [hva]
    have hxd : x ∉ done := by
      intro hx
      rw [hva] at nda
      exact (List.nodup_append.mp nda).2.2 x hx x (by simp) rfl
    have hz : (klForest s (x :: xs)).zipIdx done.length = (klNode s x, done.length) :: (klForest s xs).zipIdx (done ++ [x]).length := by
      simp [klForest, List.zipIdx_cons]
    rw [hz, List.foldl_cons]
    by_cases hxb : x ∈ vb
    · obtain ⟨st1, e1, o1, u1, us1, pt1⟩ := phase1Step_keep C va vb v p done.length x st top recur hrec hxb huo
      rw [e1]
      obtain ⟨st', p', e', r1, r2, r3, r4, r5, r6, r7⟩ := phase1_fold C va vb nda top recur hrec xs (done ++ [x]) st1 v p ops hva' hv
        (uoGet_of_find u1 _ _) (by rw [o1]; exact hops)
        (by rw [o1]; intro n hn; have := hout n hn; exact ⟨this.1, mem_snoc this.2.1, this.2.2⟩) (by rw [pt1]; exact hptr)
      have hp1 : UOG.phase1 vb (x :: xs) (ops, v) = UOG.phase1 vb xs (ops, v) := by simp [UOG.phase1, hxb]
      rw [hp1]
      refine ⟨st', p', e', r1, ?_, r3, r4, r5, by rw [r6, us1], r7⟩
      intro _
      cases xs with
      | nil =>
        simp only [klForest, List.map_nil, List.zipIdx_nil, List.foldl_nil] at e'
        subst e'
        rw [uoGet_of_find u1] at r1
        rw [← r1]; exact u1
      | cons a t => exact r2 (by simp)
    · have hout1 : ∀ n ∈ st.out, IsKL s nk n ∧ keyOf n ≠ x.1 := by
        intro n hn
        have := hout n hn
        exact ⟨this.1, fun e => hxd (mem_val.mp (e ▸ this.2.1))⟩
      obtain ⟨ov, st1, e1, o1, u1, us1, pt1⟩ := phase1Step_delete C va vb v p done.length x st top recur hv nda hi hxb huo hout1
      rw [e1]
      have hv1 : ∀ y ∈ v.erase x, y ∈ va ∨ y ∈ vb := fun y hy => hv y (List.mem_of_mem_erase hy)
      obtain ⟨st', p', e', r1, r2, r3, r4, r5, r6, r7⟩ := phase1_fold C va vb nda top recur hrec xs (done ++ [x]) st1 (v.erase x) (p + 1)
        (ops ++ [.del x]) hva' hv1 (uoGet_of_find u1 _ _) (by rw [o1]; exact forall₂_snoc hops (.del x ov))
        (by
          rw [o1]; intro n hn
          rcases List.mem_append.mp hn with h | h
          · have := hout n h; exact ⟨this.1, mem_snoc this.2.1, this.2.2⟩
          · simp only [List.mem_singleton] at h; subst h; exact ⟨isKL_del s ov x, by rw [keyOf_del]; exact mem_val.mpr (by simp), by rw [keyOf_del]; exact fun h => hxb (mem_val.mp h)⟩) pt1
      have hp1 : UOG.phase1 vb (x :: xs) (ops, v) = UOG.phase1 vb xs (ops ++ [.del x], v.erase x) := by simp [UOG.phase1, hxb]
      rw [hp1]
      refine ⟨st', p', e', r1, ?_, fun y hy => List.mem_of_mem_erase (r3 y hy), r4, r5, by rw [r6, us1], r7⟩
      intro _
      cases xs with
      | nil =>
        simp only [klForest, List.map_nil, List.zipIdx_nil, List.foldl_nil] at e'
        subst e'
        rw [uoGet_of_find u1] at r1
        rw [← r1]; exact u1
      | cons a t => exact r2 (by simp)

theorem anchorAt_ok {nk : Nat} {v vb : List (KeyN nk)} (hv : ∀ z ∈ v, z ∈ vb) (hq : ∀ z ∈ vb, QOkN z) (p : Nat) :
    ∀ z, anchorAt v p = some z → QOkN z := by
  intro z h
  unfold anchorAt at h
  split at h
  · simp at h
  · exact hq z (hv _ (List.mem_of_getElem? h))

/-- **second pass.** -/
theorem phase2_fold {S : Schema} {s nk : Nat} (C : MKCtx S s nk) (va vb : List (KeyN nk)) (nda : va.Nodup) (ndb : vb.Nodup)
    (hq : ∀ z ∈ vb, QOkN z) :
    ∀ (todo done : List (KeyN nk)) (st : St) (v : List (KeyN nk)) (p : Nat) (ops : List (UOG.UOp (KeyN nk))),
      vb = done ++ todo → (∀ z ∈ v, z ∈ vb) →
      (∀ hf, uoGet st.uo s (klForest s va) hf = ⟨s, v.map (ctag va vb), p⟩) →
      OpNodes S s st.out ops →
      (∀ n ∈ st.out, IsKL s nk n ∧ (keyOf n ∉ vb.map (·.1) ∨ keyOf n ∈ done.map (·.1))) → st.ptr = 0 →
      ∃ st', ((klForest s todo).zipIdx done.length).foldl (phase2Step S true (klForest s va) (klForest s vb)) st = st' ∧
        OpNodes S s st'.out (UOG.phase2 va todo (ops, v, p)).1 ∧ st'.ptr = 0
  | [], done, st, v, p, ops, _, _, huo, hops, hout, hptr => ⟨st, rfl, by simpa [UOG.phase2] using hops, hptr⟩
  | y :: ys, done, st, v, p, ops, hvb, hv, huo, hops, hout, hptr => by
    have hj : vb[done.length]? = some y := by rw [hvb]; exact getElem?_midK done ys y
    have hyb : y ∈ vb := List.mem_of_getElem? hj
    have hvb' : vb = (done ++ [y]) ++ ys := by simp [hvb]
    have hyd : y ∉ done := by
      intro hx
      rw [hvb] at ndb
      exact (List.nodup_append.mp ndb).2.2 y hx y (by simp) rfl
    have hv2 : ∀ z ∈ v, z ∈ va ∨ z ∈ vb := fun z hz => Or.inr (hv z hz)
    have hz : (klForest s (y :: ys)).zipIdx done.length = (klNode s y, done.length) :: (klForest s ys).zipIdx (done ++ [y]).length := by
      simp [klForest, List.zipIdx_cons]
    have hout1 : ∀ n ∈ st.out, IsKL s nk n ∧ keyOf n ≠ y.1 := by
      intro n hn
      have := hout n hn
      refine ⟨this.1, fun e => ?_⟩
      rcases this.2 with h | h
      · exact h (e ▸ mem_val.mpr hyb)
      · exact hyd (mem_val.mp (e ▸ h))
    have houtS : ∀ (st1 : St) (nd : DNode), st1.out = st.out ++ [nd] → IsKL s nk nd → keyOf nd = y.1 →
        ∀ n ∈ st1.out, IsKL s nk n ∧ (keyOf n ∉ vb.map (·.1) ∨ keyOf n ∈ (done ++ [y]).map (·.1)) := by
      intro st1 nd o1 h1 h2 n hn
      rw [o1] at hn
      rcases List.mem_append.mp hn with h | h
      · have := hout n h
        exact ⟨this.1, this.2.imp id mem_snoc⟩
      · simp only [List.mem_singleton] at h; subst h; exact ⟨h1, Or.inr (by rw [h2]; exact mem_val.mpr (by simp))⟩
    rw [hz, List.foldl_cons]
    by_cases hya : y ∈ va
    · by_cases hp : v[p]? = some y
      · obtain ⟨st1, e1, o1, u1, us1, pt1⟩ := phase2Step_keep C va vb v p done.length y st hv2 hj hya hp (huo true)
        rw [e1]
        obtain ⟨st', e', r1, r2⟩ := phase2_fold C va vb nda ndb hq ys (done ++ [y]) st1 v (p + 1) ops hvb' hv
          (fun hf => uoGet_of_find u1 _ hf) (by rw [o1]; exact hops)
          (by rw [o1]; intro n hn; have := hout n hn; exact ⟨this.1, this.2.imp id mem_snoc⟩)
          (by rw [pt1]; exact hptr)
        refine ⟨st', e', ?_, r2⟩
        have : UOG.phase2 va (y :: ys) (ops, v, p) = UOG.phase2 va ys (ops, v, p + 1) := by simp [UOG.phase2, hya, hp]
        rw [this]; exact r1
      · obtain ⟨ov, st1, e1, o1, u1, us1, pt1⟩ := phase2Step_move C va vb v p done.length y st hv2 nda hj hya hp (huo true) hout1
        rw [e1]
        have hv' : ∀ z ∈ UOG.insertAt (v.erase y) p y, z ∈ vb := by
          intro z hz
          rcases mem_insertAtK hz with h | h
          · exact h ▸ hyb
          · exact hv z (List.mem_of_mem_erase h)
        obtain ⟨st', e', r1, r2⟩ := phase2_fold C va vb nda ndb hq ys (done ++ [y]) st1 (UOG.insertAt (v.erase y) p y) (p + 1)
          (ops ++ [.move y (anchorAt v p)]) hvb' hv' (fun hf => uoGet_of_find u1 _ hf)
          (by rw [o1]; exact forall₂_snoc hops (.move y ov _ (anchorAt_ok hv hq p)))
          (houtS st1 _ o1 ⟨_, _, _, y, rfl⟩ (keyLeaves_val _ _ _)) pt1
        refine ⟨st', e', ?_, r2⟩
        have : UOG.phase2 va (y :: ys) (ops, v, p) =
            UOG.phase2 va ys (ops ++ [.move y (anchorAt v p)], UOG.insertAt (v.erase y) p y, p + 1) := by
          simp [UOG.phase2, hya, hp, anchorAt]
        rw [this]; exact r1
    · obtain ⟨st1, e1, o1, u1, us1, pt1⟩ := phase2Step_create C va vb v p done.length y st hv2 ndb hj hya (huo false) hout1
      rw [e1]
      have hv' : ∀ z ∈ UOG.insertAt v p y, z ∈ vb := by
        intro z hz
        rcases mem_insertAtK hz with h | h
        · exact h ▸ hyb
        · exact hv z h
      obtain ⟨st', e', r1, r2⟩ := phase2_fold C va vb nda ndb hq ys (done ++ [y]) st1 (UOG.insertAt v p y) (p + 1)
        (ops ++ [.create y (anchorAt v p)]) hvb' hv' (fun hf => uoGet_of_find u1 _ hf)
        (by rw [o1]; exact forall₂_snoc hops (.create y _ (anchorAt_ok hv hq p)))
        (houtS st1 _ o1 ⟨_, _, _, y, rfl⟩ (keyLeaves_val _ _ _)) pt1
      refine ⟨st', e', ?_, r2⟩
      have : UOG.phase2 va (y :: ys) (ops, v, p) =
          UOG.phase2 va ys (ops ++ [.create y (anchorAt v p)], UOG.insertAt v p y, p + 1) := by
        simp [UOG.phase2, hya, anchorAt]
      rw [this]; exact r1

end LyModel.Diff.UOB.MK
