import LyModel.Diff.Model
/-!
# Model of `src/diff.c`: `lyd_diff_apply_all` (apply) — C06

`applyNode` is `lyd_diff_apply_r` for one diff node against one sibling list of the data tree; `insertUO` is
`lyd_diff_insert` (user-ordered create / move anchored by key, value or position).

Fragment (`tools/checks/c06.py: in_fragment`): no two equal instances inside one duplicate-instance sibling group
(key-less list, state leaf-list) — there `lyd_dup_inst_next` keeps pointers into a sibling list that apply is
changing, which a value model cannot follow (and the C itself goes wrong, finding F123).  The default flag of
non-presence containers is not tracked through apply (`lyd_np_cont_dflt_set/del`): both sides print it as 0 in the
replies of `diffapply`/`apply3`, and `eqData` (= `lyd_compare_siblings`) ignores it.
Core Lean only.
-/
namespace LyModel.Diff
open LyModel LyModel.Tree

inductive AErr where
  | einval | eint
  deriving Repr, DecidableEq

def AErr.name : AErr → String
  | .einval => "Einval" | .eint => "Eint"

/-- `lyd_dup_single(diff_node, NULL, LYD_DUP_NO_META)`: no children (a list keeps its keys), `LYD_NEW` set, default flag kept -/
def dupSingle (S : Schema) : DNode → DNode
  | .inner s f _ ks =>
    .inner s { dflt := f.dflt, new := true } [] ((keysOf S ks).map fun k => k.setMetas [] |>.setFlags { dflt := k.flags.dflt, new := true })
  | .term s f _ v => .term s { dflt := f.dflt, new := true } [] v

/-- `lyd_diff_find_match(siblings, diff_node, 1, …)` during apply (without the duplicate-instance cache) -/
def findForApply (S : Schema) (sibs : List DNode) (d : DNode) : Option Nat :=
  if S.isKind d.sid .list || S.isKind d.sid .leaflist then
    findIdxFrom (fun x _ => x.sid == d.sid && instMatch S d x) sibs 0
  else findIdxFrom (fun x _ => x.sid == d.sid) sibs 0

/-- `atoi` on the digits we print -/
def atoiB (b : Bytes) : Nat := parseNatB (b.takeWhile fun c => 48 ≤ c && c ≤ 57) 0

/-- `[k='v'][k2="w"]` → the values, in order (`lyd_create_list2` on a string printed by `keyPredicate`) -/
def parsePreds : (fuel : Nat) → Bytes → Option (List Bytes)
  | 0, _ => none
  | _ + 1, [] => some []
  | fuel + 1, 91 :: rest =>
    let afterName := rest.dropWhile (· != 61)
    match afterName with
    | 61 :: q :: r2 =>
      if q != 39 && q != 34 then none else
      let v := r2.takeWhile (· != q)
      match r2.drop v.length with
      | q' :: 93 :: r3 => if q' == q then (parsePreds fuel r3).map (v :: ·) else none
      | _ => none
    | _ => none
  | _ + 1, _ => none

def keyVals (S : Schema) (n : DNode) : List Bytes := (keysOf S n.kids).map (·.val)

/-- index of the anchor instance named by the `key` / `value` / `position` string -/
def findAnchor (S : Schema) (sibs : List DNode) (sid : Nat) (a : Bytes) : Except AErr Nat :=
  if S.isDupInst sid then
    let pos := atoiB a
    if pos == 0 then .error .einval else
    match (instIdxs sibs sid)[pos - 1]? with
    | some i => .ok i
    | none => .error .einval
  else if S.isKind sid .leaflist then
    match findIdxFrom (fun x _ => x.sid == sid && x.val == a) sibs 0 with
    | some i => .ok i
    | none => .error .einval
  else
    match parsePreds (a.length + 1) a with
    | none => .error .einval
    | some vals =>
      match findIdxFrom (fun x _ => x.sid == sid && keyVals S x == vals) sibs 0 with
      | some i => .ok i
      | none => .error .einval

/-- `lyd_diff_insert` for a user-ordered node `n`; `moving = some i`: `n` is `sibs[i]` (a move), otherwise it is new -/
def insertUO (S : Schema) (sibs : List DNode) (hasParent : Bool) (n : DNode) (moving : Option Nat)
    (anchor : Option Bytes) : Except AErr (List DNode) :=
  if sibs.isEmpty then
    if hasParent && anchor.isSome then .error .einval else .ok [n]
  else
    match anchor with
    | some a => do
      let ai ← findAnchor S sibs n.sid a
      if moving == some ai then .error .einval else
      match moving with
      | some i =>
        let l := sibs.eraseIdx i
        let ai' := if i < ai then ai - 1 else ai
        .ok (l.take (ai' + 1) ++ [n] ++ l.drop (ai' + 1))
      | none => .ok (sibs.take (ai + 1) ++ [n] ++ sibs.drop (ai + 1))
    | none =>
      match findIdxFrom (fun x _ => x.sid == n.sid) sibs 0 with
      | some fi =>
        if moving == some fi then .error .einval else
        match moving with
        | some i =>
          -- the first instance precedes the moved one
          let l := sibs.eraseIdx i
          .ok (l.take fi ++ [n] ++ l.drop fi)
        | none => .ok (sibs.take fi ++ [n] ++ sibs.drop fi)
      | none => .ok (insertNode S sibs n)

/-- metadata that carries the user-ordered anchor -/
def anchorMetaName (S : Schema) (sid : Nat) : String :=
  if S.isDupInst sid then "position" else if S.isKind sid .list then "key" else "value"

/-- the operation a diff node carries itself -/
def ownOp (d : DNode) : Option Op := (getMeta d "operation").bind Op.ofBytes

/-- `lyd_diff_get_op`: the node's own operation, else the one inherited from the diff ancestors -/
def effOp (d : DNode) (inh : Option Op) : Option Op :=
  match ownOp d with
  | some o => some o
  | none => inh

/-- what the children of `d` inherit: a parent's `replace` is not inherited -/
def childInhOf (d : DNode) (inh : Option Op) : Option Op :=
  match ownOp d with
  | some .replace => inh
  | some o => some o
  | none => inh

/-- the recursive call of `lyd_diff_apply_r` on a child of the diff node -/
abbrev Recur := List DNode → Bool → Option Op → DNode → Except AErr (List DNode)

/-- apply the children of diff node `d` to the children `kids` of the matched / created data node -/
def applyKids (S : Schema) (fx : Fixes) (recur : Recur) (d : DNode) (inh : Option Op) (kids : List DNode) :
    Except AErr (List DNode) :=
  -- [F126 repaired] what was copied below a moved instance only identifies it: no operation of its own, nothing to apply
  let dkids := if fx.f126 && effOp d inh == some .replace && S.isUserOrd d.sid
    then (noKeys S d.kids).filter (fun c => (getMeta c "operation").isSome) else noKeys S d.kids
  dkids.foldlM (fun ks c => recur ks true (childInhOf d inh) c) kids

/-- user-ordered create / move -/
def applyUO (S : Schema) (fx : Fixes) (recur : Recur) (op : Op) (sibs : List DNode) (hasParent : Bool) (inh : Option Op)
    (d : DNode) : Except AErr (List DNode) :=
  let found := if op == .replace then findForApply S sibs d else none
  if op == .replace && found.isNone then .error .einval else
  let m0 := match found.bind (sibs[·]?) with
    | some m => if fx.f120 && m.isTerm then m.setDflt d.flags.dflt else m       -- [F120 repaired]
    | none => dupSingle S d
  match getMeta d (anchorMetaName S d.sid) with
  | none => .error .einval
  | some str => do
    let anchor := if str.isEmpty then none else some str
    let _ ← insertUO S sibs hasParent m0 found anchor
    let ks ← applyKids S fx recur d inh m0.kids
    insertUO S sibs hasParent (m0.setKids ks) found anchor

def applyNone (S : Schema) (fx : Fixes) (recur : Recur) (sibs : List DNode) (inh : Option Op) (d : DNode) :
    Except AErr (List DNode) :=
  match findForApply S sibs d with
  | none => .error .einval
  | some i =>
    match sibs[i]? with
    | none => .error .einval
    | some m =>
      if m.isTerm then .ok (sibs.set i (m.setDflt d.flags.dflt))
      else if (noKeys S d.kids).isEmpty then .error .einval
      else do
        let ks ← applyKids S fx recur d inh m.kids
        .ok (sibs.set i (m.setKids ks))

def applyCreate (S : Schema) (fx : Fixes) (recur : Recur) (sibs : List DNode) (inh : Option Op) (d : DNode) :
    Except AErr (List DNode) := do
  let m0 := dupSingle S d
  let ks ← applyKids S fx recur d inh m0.kids
  .ok (insertNode S sibs (m0.setKids ks))

def applyDelete (S : Schema) (sibs : List DNode) (d : DNode) : Except AErr (List DNode) :=
  match findForApply S sibs d with
  | none => .error .einval
  | some i => .ok (sibs.eraseIdx i)

def applyReplace (S : Schema) (sibs : List DNode) (d : DNode) : Except AErr (List DNode) :=
  if !S.isKind d.sid .leaf then .error .einval else
  match findForApply S sibs d with
  | none => .error .einval
  | some i =>
    match sibs[i]? with
    | none => .error .einval
    | some m =>
      -- lyd_change_term: LY_ENOT (same value, not default) is an error here
      if m.val == d.val && !m.flags.dflt then .error .einval
      else .ok (sibs.set i ((m.setVal d.val).setFlags d.flags))

/-- one call of `lyd_diff_apply_r` with the recursion abstracted -/
def applyStep (S : Schema) (fx : Fixes) (recur : Recur) (sibs : List DNode) (hasParent : Bool) (inh : Option Op) (d : DNode) :
    Except AErr (List DNode) :=
  match effOp d inh with
  | none => .error .eint
  | some op =>
    if S.isUserOrd d.sid && (op == .create || op == .replace) then applyUO S fx recur op sibs hasParent inh d
    else
      match op with
      | .none => applyNone S fx recur sibs inh d
      | .create => applyCreate S fx recur sibs inh d
      | .delete => applyDelete S sibs d
      | .replace => applyReplace S sibs d

/-- `lyd_diff_apply_r(first_node, parent_node, diff_node, …)`: `sibs` = `*first_node` and its siblings (keys included),
`inh` = the operation inherited from the diff ancestors (`lyd_diff_get_op`: a parent's `replace` is not inherited) -/
def applyNode (S : Schema) (fx : Fixes) : (fuel : Nat) → Recur
  | 0 => fun _ _ _ _ => .error .eint
  | fuel + 1 => applyStep S fx (applyNode S fx fuel)

/-- `lyd_diff_apply_all(&data, diff)` -/
def apply (S : Schema) (data diffF : List DNode) (fx : Fixes := {}) : Except AErr (List DNode) :=
  diffF.foldlM (fun sibs d => applyNode S fx (heightL diffF + 1) sibs false none d) data

mutual
/-- the default flag of non-presence containers is not compared after apply (see the header) -/
def stripNp (S : Schema) : DNode → DNode
  | .inner s f m ks => .inner s { f with dflt := if S.isNpCont s then false else f.dflt } m (stripNpL S ks)
  | .term s f m v => .term s f m v
def stripNpL (S : Schema) : List DNode → List DNode
  | [] => []
  | n :: ns => stripNp S n :: stripNpL S ns
end

/-- two equal instances of a keyed list / configuration leaf-list among the siblings (invalid data: happens when a diff is
applied to a tree it was not made for, or, without `LYD_DIFF_DEFAULTS`, next to default instances).  Which of the two a
later lookup returns depends on libyang's children hash table, so such results are only reported as `DupInstances`. -/
def hasDupSibs (S : Schema) : List DNode → Bool
  | [] => false
  | x :: xs =>
    ((S.isKind x.sid .list || S.isKind x.sid .leaflist) && !S.isDupInst x.sid && xs.any (fun y => sameInst S x y))
      || hasDupSibs S xs

def hasDupInst (S : Schema) : (fuel : Nat) → List DNode → Bool
  | 0, _ => false
  | fuel + 1, f => hasDupSibs S f || f.any (fun n => hasDupInst S fuel n.kids)

end LyModel.Diff
