import LyModel.Diff.UOBridgeNBDiff
/-!
# Bridge (C06) — Stage 3a, part 2: `lyd_diff_find_match` and one step of each pass, with inert neighbours
-/
namespace LyModel.Diff.UOB.NB
open LyModel LyModel.Tree LyModel.Diff LyModel.Diff.UOB
set_option linter.unusedSimpArgs false
set_option linter.unusedVariables false
local instance (priority := high) bytesBEqN2 : BEq Bytes := instBEqOfDecidableEq

/-! ## searching a sibling list that is a concatenation -/

theorem findIdxFrom_append (p : DNode → Nat → Bool) : ∀ (l1 l2 : List DNode) (k : Nat),
    findIdxFrom p (l1 ++ l2) k =
      match findIdxFrom p l1 k with
      | some i => some i
      | none => findIdxFrom p l2 (k + l1.length)
  | [], l2, k => by simp [findIdxFrom]
  | x :: xs, l2, k => by
    by_cases h : p x k
    · simp [findIdxFrom, h]
    · simp only [List.cons_append, findIdxFrom, h, Bool.false_eq_true, if_false, findIdxFrom_append p xs l2 (k + 1),
        List.length_cons]
      have : k + 1 + xs.length = k + (xs.length + 1) := by omega
      rw [this]

theorem findIdxFrom_none (p : DNode → Nat → Bool) : ∀ (l : List DNode) (k : Nat), (∀ x ∈ l, ∀ i, p x i = false) →
    findIdxFrom p l k = none
  | [], _, _ => rfl
  | x :: xs, k, h => by
    simp only [findIdxFrom, h x (by simp) k, Bool.false_eq_true, if_false]
    exact findIdxFrom_none p xs (k + 1) (fun y hy => h y (by simp [hy]))

/-- among `P ++ X ++ Q` a predicate that fails on `P` and `Q` finds what it finds in `X`, shifted -/
theorem findIdxFrom_mid (p : DNode → Nat → Bool) (P X Q : List DNode) (hP : ∀ x ∈ P, ∀ i, p x i = false)
    (hQ : ∀ x ∈ Q, ∀ i, p x i = false) :
    findIdxFrom p (P ++ X ++ Q) 0 = findIdxFrom p X P.length := by
  rw [List.append_assoc, findIdxFrom_append, findIdxFrom_none p P 0 hP, findIdxFrom_append]
  simp only [Nat.zero_add]
  cases findIdxFrom p X P.length with
  | some i => rfl
  | none => exact findIdxFrom_none p Q _ hQ

theorem findMatch_nb_some {S : Schema} {s : Nat} (C : LLCtx S s) {P Q : List DNode} (N : NBCtx S s P Q) (vs : List Bytes)
    (x : Bytes) (used : List Nat) (hx : x ∈ vs) :
    findMatch S (nbForest s P Q vs) (llNode s x) true used = (some (P.length + vs.idxOf x), used) := by
  have hp : ∀ n, n.sid ≠ s → ∀ i, matchPred S (llNode s x) used n i = false := by
    intro n hn i
    simp [matchPred, C.ll, hn]
  unfold findMatch nbForest
  rw [findIdxFrom_mid _ P _ Q (fun n hn => hp n (N.neP n hn)) (fun n hn => hp n (N.neQ n hn)), findIdxFrom_ll C, if_pos hx]
  have hg := nb_get s P Q vs (idxOf_getElem?_of_mem hx)
  unfold nbForest at hg
  simp only [C.nd, Bool.false_eq_true, if_false, Nat.add_comm (vs.idxOf x) P.length, hg]
  simp [C.nd]

theorem findMatch_nb_none {S : Schema} {s : Nat} (C : LLCtx S s) {P Q : List DNode} (N : NBCtx S s P Q) (vs : List Bytes)
    (x : Bytes) (used : List Nat) (hx : x ∉ vs) :
    findMatch S (nbForest s P Q vs) (llNode s x) true used = (none, used) := by
  have hp : ∀ n, n.sid ≠ s → ∀ i, matchPred S (llNode s x) used n i = false := by
    intro n hn i
    simp [matchPred, C.ll, hn]
  unfold findMatch nbForest
  rw [findIdxFrom_mid _ P _ Q (fun n hn => hp n (N.neP n hn)) (fun n hn => hp n (N.neQ n hn)), findIdxFrom_ll C, if_neg hx]

/-! ## an inert neighbour is matched with itself -/

theorem find_self (a : DNode) : ∀ (l : List DNode) (k : Nat), a ∈ l → (∀ x ∈ l, x.sid = a.sid → x = a) →
    ∃ i, findIdxFrom (fun x _ => x.sid == a.sid) l k = some (k + i) ∧ l[i]? = some a
  | [], _, h, _ => by simp at h
  | x :: xs, k, h, hu => by
    by_cases e : x.sid = a.sid
    · have := hu x (by simp) e
      subst this
      exact ⟨0, by simp [findIdxFrom], by simp⟩
    · have hx : a ∈ xs := by
        rcases List.mem_cons.mp h with h | h
        · exact absurd (h ▸ rfl) e
        · exact h
      obtain ⟨i, h1, h2⟩ := find_self a xs (k + 1) hx (fun y hy => hu y (by simp [hy]))
      refine ⟨i + 1, ?_, by simpa using h2⟩
      simp only [findIdxFrom, beq_iff_eq, e, if_false, h1]
      congr 1; omega

theorem nodup_sid_inj {l : List DNode} (h : (l.map (·.sid)).Nodup) {x y : DNode} (hx : x ∈ l) (hy : y ∈ l)
    (e : x.sid = y.sid) : x = y := by
  induction l with
  | nil => simp at hx
  | cons a t ih =>
    simp only [List.map_cons, List.nodup_cons, List.mem_map, not_exists, not_and] at h
    rcases List.mem_cons.mp hx with rfl | hx'
    · rcases List.mem_cons.mp hy with rfl | hy'
      · rfl
      · exact absurd e.symm (h.1 y hy')
    · rcases List.mem_cons.mp hy with rfl | hy'
      · exact absurd e (h.1 x hx')
      · exact ih h.2 hx' hy'

theorem inert_unique {S : Schema} {s : Nat} {P Q : List DNode} (N : NBCtx S s P Q) (vs : List Bytes) {a : DNode}
    (ha : a ∈ P ++ Q) : ∀ x ∈ nbForest s P Q vs, x.sid = a.sid → x = a := by
  intro x hx e
  have has : a.sid ≠ s := by
    rcases List.mem_append.mp ha with h | h
    · exact N.neP a h
    · exact N.neQ a h
  unfold nbForest at hx
  simp only [List.mem_append] at hx
  rcases hx with (hx | hx) | hx
  · exact nodup_sid_inj N.sids (by simp [hx]) ha e
  · simp only [llForest, List.mem_map] at hx
    obtain ⟨v, _, rfl⟩ := hx
    exact absurd e.symm has
  · exact nodup_sid_inj N.sids (by simp [hx]) ha e

theorem mem_nb {s : Nat} {P Q : List DNode} (vs : List Bytes) {a : DNode} (ha : a ∈ P ++ Q) : a ∈ nbForest s P Q vs := by
  unfold nbForest
  simp only [List.mem_append] at ha ⊢
  rcases ha with h | h
  · exact Or.inl (Or.inl h)
  · exact Or.inr h

theorem inert_facts {S : Schema} {a : DNode} (h : inertB S a = true) :
    S.isUserOrd a.sid = false ∧ S.isDupInst a.sid = false ∧ (S.isKind a.sid .list || S.isKind a.sid .leaflist) = false ∧
      ((S.kind? a.sid = some .leaf ∧ a.kids = []) ∨ (S.kind? a.sid = some .container ∧ a.kids = [])) := by
  unfold inertB at h
  simp only [Bool.and_eq_true, Bool.not_eq_true', Bool.or_eq_true, beq_iff_eq, List.isEmpty_iff] at h
  obtain ⟨⟨h1, h2⟩, h3⟩ := h
  refine ⟨h1, h2, ?_, ?_⟩
  · rcases h3 with ⟨hk, _⟩ | ⟨⟨hk, _⟩, _⟩ <;> simp [Schema.isKind, hk]
  · rcases h3 with ⟨hk, ht⟩ | ⟨⟨hk, _⟩, he⟩
    · left; refine ⟨hk, ?_⟩; cases a <;> simp_all [DNode.isTerm, DNode.kids]
    · right; exact ⟨hk, he⟩

theorem findMatch_inert {S : Schema} {s : Nat} {P Q : List DNode} (N : NBCtx S s P Q) (vs : List Bytes) {a : DNode}
    (ha : a ∈ P ++ Q) (used : List Nat) :
    ∃ j, findMatch S (nbForest s P Q vs) a true used = (some j, used) ∧ (nbForest s P Q vs)[j]? = some a := by
  obtain ⟨hu, hd, hk, _⟩ := inert_facts (N.inert a ha)
  obtain ⟨j, h1, h2⟩ := find_self a (nbForest s P Q vs) 0 (mem_nb vs ha) (inert_unique N vs ha)
  refine ⟨j, ?_, h2⟩
  have hp : matchPred S a used = fun x _ => x.sid == a.sid := by
    funext x i; simp [matchPred, hk]
  unfold findMatch
  rw [hp, h1]
  simp [hd]

/-- first pass on a neighbour: nothing (it is matched with itself, `lyd_diff_attrs` reports no change, it has no children) -/
theorem phase1Step_inert {S : Schema} {s : Nat} {P Q : List DNode} (N : NBCtx S s P Q) (va vb : List Bytes) {a : DNode}
    (ha : a ∈ P ++ Q) (i : Nat) (st : St) (top : Bool) (recur : List DNode → List DNode → St)
    (hrec : (recur [] []).out = []) :
    phase1Step S true top recur (nbForest s P Q va) (nbForest s P Q vb) st (a, i) = st := by
  obtain ⟨hu, hd, hk, hkind⟩ := inert_facts (N.inert a ha)
  obtain ⟨j, h1, h2⟩ := findMatch_inert N vb ha st.used
  have hkids : a.kids = [] := by rcases hkind with h | h <;> exact h.2
  have hpl : plainAttrs S true (some a) (some a) = none := by
    rcases hkind with h | h
    · simp [plainAttrs, h.1, sameInst]
    · simp [plainAttrs, h.1]
  simp only [phase1Step, Bool.not_true, Bool.and_false, Bool.false_eq_true, if_false, h1, hu, phase1Plain, Option.bind_some, h2,
    hpl, hkids, noKeys, List.dropWhile_nil, wrapParent, hrec, List.isEmpty_nil, if_true]

/-- second pass on a neighbour: nothing -/
theorem phase2Step_inert {S : Schema} {s : Nat} {P Q : List DNode} (N : NBCtx S s P Q) (va vb : List Bytes) {b : DNode}
    (hb : b ∈ P ++ Q) (j : Nat) (st : St) :
    phase2Step S true (nbForest s P Q va) (nbForest s P Q vb) st (b, j) = st := by
  obtain ⟨hu, hd, hk, hkind⟩ := inert_facts (N.inert b hb)
  obtain ⟨i, h1, h2⟩ := findMatch_inert N va hb st.used
  simp only [phase2Step, Bool.not_true, Bool.and_false, Bool.false_eq_true, if_false, h1, hu]

/-! # the instances -/

/-! ## first pass -/

/-- an instance of the first tree that is not in the second: `delete` is appended, the virtual list loses the instance -/
theorem phase1Step_delete {S : Schema} {s : Nat} (C : LLCtx S s) {P Q : List DNode} (N : NBCtx S s P Q) (va vb v : List Bytes) (p i : Nat) (x : Bytes) (st : St)
    (top : Bool) (recur : List DNode → List DNode → St)
    (hv : ∀ y ∈ v, y ∈ va ∨ y ∈ vb) (nda : va.Nodup) (hi : va[i]? = some x) (hxb : x ∉ vb)
    (huo : uoGet st.uo s (nbForest s P Q va) true = ⟨s, v.map (ctagO P.length va vb), p⟩)
    (hout : ∀ n ∈ st.out, n.sid = s ∧ n.val ≠ x) :
    ∃ ov st', phase1Step S true top recur (nbForest s P Q va) (nbForest s P Q vb) st (llNode s x, P.length + i) = st' ∧
      st'.out = st.out ++ [delNode s ov x] ∧
      uoFind st'.uo s = some ⟨s, (v.erase x).map (ctagO P.length va vb), p + 1⟩ ∧ st'.used = st.used ∧ st'.ptr = 0 := by
  obtain ⟨ov, hat⟩ := attrs_delete C P Q va vb v p i x hv nda hi
  refine ⟨ov, _, rfl, ?_⟩
  have hu := uoFind_uoSet st.uo ⟨s, (v.erase x).map (ctagO P.length va vb), p + 1⟩
  simp only [phase1Step, llNode_flags, findMatch_nb_none C N vb x st.used hxb, llNode_sid, C.uo, phase1UO, huo, hat,
    St.add, addAt_ll C st.out x _ hout, newNode_delete]
  simp [St.emit, hu]
  split <;> simp [hu]

/-- an instance of the first tree that is in the second too: nothing happens in the first pass -/
theorem phase1Step_keep {S : Schema} {s : Nat} (C : LLCtx S s) {P Q : List DNode} (N : NBCtx S s P Q) (va vb v : List Bytes) (p i : Nat) (x : Bytes) (st : St)
    (top : Bool) (recur : List DNode → List DNode → St) (hrec : (recur [] []).out = [])
    (hxb : x ∈ vb)
    (huo : uoGet st.uo s (nbForest s P Q va) true = ⟨s, v.map (ctagO P.length va vb), p⟩) :
    ∃ st', phase1Step S true top recur (nbForest s P Q va) (nbForest s P Q vb) st (llNode s x, P.length + i) = st' ∧
      st'.out = st.out ∧
      uoFind st'.uo s = some ⟨s, v.map (ctagO P.length va vb), p⟩ ∧ st'.used = st.used ∧ st'.ptr = st.ptr := by
  refine ⟨_, rfl, ?_⟩
  have hu := uoFind_uoSet st.uo ⟨s, v.map (ctagO P.length va vb), p⟩
  have hb : (nbForest s P Q vb)[P.length + vb.idxOf x]? = some (llNode s x) := nb_get s P Q vb (idxOf_getElem?_of_mem hxb)
  simp only [phase1Step, llNode_flags, findMatch_nb_some C N vb x st.used hxb, llNode_sid, C.uo, phase1UO, huo,
    Option.bind_some, hb, llNode_kids, noKeys, List.dropWhile_nil, wrapParent, hrec, List.isEmpty_nil, if_true]
  simp [hu]

/-! ## second pass -/

/-- an instance of the second tree that is not in the first: `create` behind the instance placed before it -/
theorem phase2Step_create {S : Schema} {s : Nat} (C : LLCtx S s) {P Q : List DNode} (N : NBCtx S s P Q) (va vb v : List Bytes) (p j : Nat) (y : Bytes) (st : St)
    (hv : ∀ z ∈ v, z ∈ va ∨ z ∈ vb) (ndb : vb.Nodup) (hj : vb[j]? = some y) (hya : y ∉ va)
    (huo : uoGet st.uo s (nbForest s P Q va) false = ⟨s, v.map (ctagO P.length va vb), p⟩)
    (hout : ∀ n ∈ st.out, n.sid = s ∧ n.val ≠ y) :
    ∃ st', phase2Step S true (nbForest s P Q va) (nbForest s P Q vb) st (llNode s y, P.length + j) = st' ∧
      st'.out = st.out ++ [createNode s ((anchorAt v p).getD []) y] ∧
      uoFind st'.uo s = some ⟨s, (UOG.insertAt v p y).map (ctagO P.length va vb), p + 1⟩ ∧ st'.used = st.used ∧ st'.ptr = 0 := by
  have hat := attrs_create C P Q va vb v p j y hv ndb hj hya
  refine ⟨_, rfl, ?_⟩
  have hu := uoFind_uoSet st.uo ⟨s, (UOG.insertAt v p y).map (ctagO P.length va vb), p + 1⟩
  simp only [phase2Step, llNode_flags, findMatch_nb_none C N va y st.used hya, llNode_sid, C.uo, Option.isSome_none, huo, hat,
    St.add, addAt_ll C st.out y _ hout, newNode_create]
  simp [St.emit, hu]
  split <;> simp [hu]

/-- a matched instance that already is at its place: nothing -/
theorem phase2Step_keep {S : Schema} {s : Nat} (C : LLCtx S s) {P Q : List DNode} (N : NBCtx S s P Q) (va vb v : List Bytes) (p j : Nat) (y : Bytes) (st : St)
    (hv : ∀ z ∈ v, z ∈ va ∨ z ∈ vb) (hj : vb[j]? = some y) (hya : y ∈ va) (hp : v[p]? = some y)
    (huo : uoGet st.uo s (nbForest s P Q va) true = ⟨s, v.map (ctagO P.length va vb), p⟩) :
    ∃ st', phase2Step S true (nbForest s P Q va) (nbForest s P Q vb) st (llNode s y, P.length + j) = st' ∧
      st'.out = st.out ∧
      uoFind st'.uo s = some ⟨s, v.map (ctagO P.length va vb), p + 1⟩ ∧ st'.used = st.used ∧ st'.ptr = st.ptr := by
  have hat := attrs_keep C P Q va vb v p (va.idxOf y) j y hv (idxOf_getElem?_of_mem hya) hj hp
  refine ⟨_, rfl, ?_⟩
  have hu := uoFind_uoSet st.uo ⟨s, v.map (ctagO P.length va vb), p + 1⟩
  simp only [phase2Step, llNode_flags, findMatch_nb_some C N va y st.used hya, llNode_sid, C.uo, Option.isSome_some, huo, hat]
  simp [hu]

/-- a matched instance that is not at its place: move (`replace`) behind the instance placed before it -/
theorem phase2Step_move {S : Schema} {s : Nat} (C : LLCtx S s) {P Q : List DNode} (N : NBCtx S s P Q) (va vb v : List Bytes) (p j : Nat) (y : Bytes) (st : St)
    (hv : ∀ z ∈ v, z ∈ va ∨ z ∈ vb) (nda : va.Nodup) (hj : vb[j]? = some y) (hya : y ∈ va) (hp : v[p]? ≠ some y)
    (huo : uoGet st.uo s (nbForest s P Q va) true = ⟨s, v.map (ctagO P.length va vb), p⟩)
    (hout : ∀ n ∈ st.out, n.sid = s ∧ n.val ≠ y) :
    ∃ ov st', phase2Step S true (nbForest s P Q va) (nbForest s P Q vb) st (llNode s y, P.length + j) = st' ∧
      st'.out = st.out ++ [moveNode s ov ((anchorAt v p).getD []) y] ∧
      uoFind st'.uo s = some ⟨s, (UOG.insertAt (v.erase y) p y).map (ctagO P.length va vb), p + 1⟩ ∧
      st'.used = st.used ∧ st'.ptr = 0 := by
  obtain ⟨ov, hat⟩ := attrs_move C P Q va vb v p (va.idxOf y) j y hv nda (idxOf_getElem?_of_mem hya) hj hp
  refine ⟨ov, _, rfl, ?_⟩
  have hu := uoFind_uoSet st.uo ⟨s, (UOG.insertAt (v.erase y) p y).map (ctagO P.length va vb), p + 1⟩
  simp only [phase2Step, llNode_flags, findMatch_nb_some C N va y st.used hya, llNode_sid, C.uo, Option.isSome_some, huo, hat,
    St.add, addAt_ll C st.out y _ hout, newNode_move]
  simp [St.emit, hu]
  split <;> simp [hu]

end LyModel.Diff.UOB.NB

