import LyModel.Diff.K13Lit
import LyModel.Diff.K13CanonDefs
/-!
# C13 over keyed lists: `KeyOrderOn` holds for the instances that carry all their keys with canonical values

`keyedOK S x` — what libyang guarantees of every instance of a system-ordered list / leaf-list in a data tree: a list instance
has exactly its key leaves in front (`keySids`), and key / leaf-list values are canonical values of their type (`canonV`: the
decimal rendering of the number for the integer types, `true` / `false`, the name of an enum item; any byte string for
`string` / `empty`).  Leaves and containers satisfy it trivially.

`keyOrderOn_keyed`: for EVERY schema in which list keys are leaves and enum values are distinct (`schemaOK`, a decidable
check; both are demanded by YANG and hold for the generated schemas), `KeyOrderOn S (keyedOK S)` holds — `Tree.cmpInst`
(`rb_compare_lists` with the plugins' `sort` callbacks) is a strict total order on such instances, compatible with
`lyd_compare_single`.  Uses `OrderTheory.lean` (C06: `cmp_swap`, `cmp_lt_trans`, `cmpPairs_*`) and, for totality, the one
property of the seven type orders that finding F28 (date-and-time) violates: canonical values that the `sort` callback cannot
tell apart are equal (`canon_cmp_eq`).
-/
set_option linter.unusedSimpArgs false
namespace LyModel.Diff.K13
open LyModel LyModel.Tree LyModel.Diff

/-! ### canonical values -/

theorem canonIntB_inj {a b : Bytes} (ha : canonIntB a = true) (hb : canonIntB b = true)
    (h : parseIntB a = parseIntB b) : a = b := by
  simp only [canonIntB, beq_iff_eq] at ha hb
  rw [ha, hb, h]

theorem enumValue_cons (it : String × Int) (items : List (String × Int)) (v : Bytes) :
    enumValue (it :: items) v = if bytesOfString it.1 == v then it.2 else enumValue items v := by
  simp only [enumValue, List.find?_cons]
  cases bytesOfString it.1 == v <;> rfl

theorem enumValue_mem : ∀ (items : List (String × Int)) (v : Bytes),
    (items.any fun it => bytesOfString it.1 == v) = true → enumValue items v ∈ items.map (·.2)
  | [], _, h => by simp at h
  | it :: items, v, h => by
    rw [enumValue_cons]
    by_cases hm : (bytesOfString it.1 == v) = true
    · simp [hm]
    · simp only [List.any_cons, hm, Bool.false_or] at h
      simp only [hm, Bool.false_eq_true, ↓reduceIte, List.map_cons, List.mem_cons]
      exact Or.inr (enumValue_mem items v h)

theorem enumValue_inj : ∀ (items : List (String × Int)) (a b : Bytes), (items.map (·.2)).Nodup →
    (items.any fun it => bytesOfString it.1 == a) = true → (items.any fun it => bytesOfString it.1 == b) = true →
    enumValue items a = enumValue items b → a = b
  | [], _, _, _, h, _, _ => by simp at h
  | it :: items, a, b, hn, ha, hb, h => by
    simp only [List.map_cons, List.nodup_cons] at hn
    rw [enumValue_cons, enumValue_cons] at h
    by_cases hma : (bytesOfString it.1 == a) = true
    · by_cases hmb : (bytesOfString it.1 == b) = true
      · rw [← beq_iff_eq.mp hma, ← beq_iff_eq.mp hmb]
      · exfalso
        simp only [List.any_cons, hmb, Bool.false_or] at hb
        simp only [hma, hmb, ↓reduceIte, Bool.false_eq_true] at h
        exact hn.1 (h ▸ enumValue_mem items b hb)
    · simp only [List.any_cons, hma, Bool.false_or] at ha
      by_cases hmb : (bytesOfString it.1 == b) = true
      · exfalso
        simp only [hma, hmb, ↓reduceIte, Bool.false_eq_true] at h
        exact hn.1 (h ▸ enumValue_mem items a ha)
      · simp only [List.any_cons, hmb, Bool.false_or] at hb
        simp only [hma, hmb, ↓reduceIte, Bool.false_eq_true] at h
        exact enumValue_inj items a b hn.2 ha hb h

/-- **the property of the type orders that totality needs** (and that date-and-time, finding F28, does not have): canonical
values the `sort` callback cannot tell apart are the same value -/
theorem canon_cmp_eq (t : BaseTy) (ht : tyOK t = true) (a b : Bytes) (ha : canonV t a = true) (hb : canonV t b = true)
    (h : t.cmp a b = .eq) : a = b := by
  cases t with
  | string => exact cmpBytes_eq a b h
  | empty => exact cmpBytes_eq a b h
  | int8 => exact canonIntB_inj ha hb (Int.compare_eq_eq.mp h)
  | uint8 => exact canonIntB_inj ha hb (Int.compare_eq_eq.mp h)
  | int32 => exact canonIntB_inj ha hb (Int.compare_eq_eq.mp h)
  | boolean =>
    simp only [canonV, Bool.or_eq_true, beq_iff_eq] at ha hb
    simp only [BaseTy.cmp] at h
    rcases ha with rfl | rfl <;> rcases hb with rfl | rfl <;> first | rfl | (exfalso; revert h; decide)
  | enumeration items =>
    simp only [tyOK, decide_eq_true_eq] at ht
    simp only [BaseTy.cmp] at h
    exact enumValue_inj items a b ht ha hb (Int.compare_eq_eq.mp h).symm

/-! ### key lists -/

theorem schemaOK_spec {S : Schema} (h : schemaOK S = true) (sid : Nat) :
    (S.isKey sid = true → S.isTerm sid = true) ∧ tyOK (S.ty sid) = true := by
  by_cases hlt : sid < S.nodes.length
  · have := List.all_eq_true.mp h sid (List.mem_range.mpr hlt)
    simp only [Bool.and_eq_true, Bool.or_eq_true, Bool.not_eq_eq_eq_not, Bool.not_true] at this
    refine ⟨fun hk => ?_, this.2⟩
    rcases this.1 with h1 | h1
    · rw [hk] at h1; exact absurd h1 (by decide)
    · exact h1
  · have hn := get?_none_of_ge (S := S) (Nat.le_of_not_lt hlt)
    refine ⟨fun hk => ?_, ?_⟩
    · simp [Schema.isKey, hn] at hk
    · simp [Schema.ty, hn, tyOK]

/-- keys over the same key leaves, with canonical values, that `rb_compare_lists` cannot tell apart are equal -/
theorem cmpPairs_eq {S : Schema} (hS : schemaOK S = true) : ∀ (l1 l2 : List (Nat × Bytes)),
    l1.map Prod.fst = l2.map Prod.fst → canonPairs S l1 = true → canonPairs S l2 = true → cmpPairs S l1 l2 = .eq → l1 = l2
  | [], [], _, _, _, _ => rfl
  | [], _ :: _, h, _, _, _ => by simp at h
  | _ :: _, [], h, _, _, _ => by simp at h
  | a :: as, b :: bs, h, h1, h2, hc => by
    simp only [List.map_cons, List.cons.injEq] at h
    simp only [canonPairs, List.all_cons, Bool.and_eq_true] at h1 h2
    simp only [cmpPairs] at hc
    cases hab : (S.ty a.1).cmp a.2 b.2 with
    | lt => simp [hab] at hc
    | gt => simp [hab] at hc
    | eq =>
      simp only [hab] at hc
      have hv : a.2 = b.2 := canon_cmp_eq _ (schemaOK_spec hS a.1).2 _ _ h1.1 (by rw [h.1]; exact h2.1) hab
      have := cmpPairs_eq hS as bs h.2 h1.2 h2.2 hc
      rw [this, Prod.ext h.1 hv]

/-! ### the node predicate -/

theorem pinv_keyedOK (S : Schema) : PInv S (keyedOK S) where
  pcongr := by
    intro x y h1 h2 h3
    simp only [keyedOK, h1, h2, h3]
  punsorted := by
    intro x h
    simp [keyedOK, h]

theorem keyedOK_kkey {S : Schema} {x : DNode} (hs : S.isSorted x.sid = true) (h : keyedOK S x = true) :
    canonPairs S (kkey S x).2 = true ∧
      (kkey S x).2.map Prod.fst = (if S.isKind x.sid .leaflist then [x.sid] else keySids S x.sid) := by
  simp only [keyedOK, hs, Bool.not_true, Bool.false_or] at h
  unfold kkey
  rcases isSorted_cases S x.sid hs with ⟨hll, _⟩ | ⟨hl, hnll, _⟩
  · simp only [hll, ↓reduceIte] at h ⊢
    simp [canonPairs, h]
  · simp only [hnll, hl, Bool.false_eq_true, ↓reduceIte, Bool.and_eq_true, beq_iff_eq] at h ⊢
    exact ⟨h.2, h.1⟩

/-- **the order hypothesis of C13 holds** for the instances that carry all their keys with canonical values, for every schema
whose keys are leaves and whose enumerations have distinct values -/
theorem keyOrderOn_keyed {S : Schema} (hS : schemaOK S = true) : KeyOrderOn S (keyedOK S) := by
  -- the comparison of two such instances of one sorted schema node, in terms of their keys
  have key : ∀ {x y : DNode}, Dom S (keyedOK S) x → Dom S (keyedOK S) y → x.sid = y.sid → S.isSorted x.sid = true →
      cmpInst S x y = cmpPairs S (kkey S x).2 (kkey S y).2 ∧
      (kkey S x).2.map Prod.fst = (kkey S y).2.map Prod.fst ∧
      canonPairs S (kkey S x).2 = true ∧ canonPairs S (kkey S y).2 = true ∧
      (sameInst S x y = true ↔ (kkey S x).2 = (kkey S y).2) := by
    intro x y hx hy hs hso
    have hsx : shapeOk S x = true := by simp [shapeOk, hx.typed]
    have hkx := keyedOK_kkey hso hx.sat
    have hky := keyedOK_kkey (hs ▸ hso) hy.sat
    refine ⟨cmpInst_eq_cmpPairs S x y hsx hs hso, by rw [hkx.2, hky.2, hs], hkx.1, hky.1, ?_⟩
    have hm : matchP S y x = sameInst S x y := by
      have hll : isLL S y.sid = true := hs ▸ isLL_of_isSorted hso
      simp [matchP, hs, hll, instMatch_eq hy.ndi]
    rw [← hm, matchP_iff_kkey S y x hy.ndi]
    constructor
    · intro h; rw [h]
    · intro h
      exact Prod.ext hs h
  refine ⟨fun hk => (schemaOK_spec hS _).1 hk, pinv_keyedOK S, ?_, ?_, ?_, ?_, ?_⟩
  · intro x y hx hy hs hso hlt
    obtain ⟨h1, h2, _⟩ := key hx hy hs hso
    obtain ⟨h1', _⟩ := key hy hx hs.symm (hs ▸ hso)
    rw [h1', cmpPairs_swap S _ _ h2, ← h1, hlt]
    decide
  · intro x y z hx hy hz hxy hyz hso h1 h2
    obtain ⟨a1, a2, _⟩ := key hx hy hxy hso
    obtain ⟨b1, b2, _⟩ := key hy hz hyz (hxy ▸ hso)
    obtain ⟨c1, _⟩ := key hx hz (hxy.trans hyz) hso
    rw [c1]
    exact cmpPairs_lt_trans S _ _ _ a2 b2 (a1 ▸ h1) (b1 ▸ h2)
  · intro x y hx hy hs hso hne
    obtain ⟨h1, h2, h3, h4, h5⟩ := key hx hy hs hso
    obtain ⟨h1', _⟩ := key hy hx hs.symm (hs ▸ hso)
    rw [h1, h1', cmpPairs_swap S _ _ h2]
    cases hc : cmpPairs S (kkey S x).2 (kkey S y).2 with
    | lt => exact Or.inl rfl
    | gt => exact Or.inr rfl
    | eq =>
      exfalso
      have := h5.2 (cmpPairs_eq hS _ _ h2 h3 h4 hc)
      rw [this] at hne
      exact absurd hne (by decide)
  · intro x x' y hx hx' hy hs hso hsame
    have hs' : x.sid = x'.sid := sameInst_sid hsame
    obtain ⟨h1, _⟩ := key hx hy hs hso
    obtain ⟨h1', _⟩ := key hx' hy (hs'.symm.trans hs) (hs' ▸ hso)
    obtain ⟨_, _, _, _, h5⟩ := key hx hx' hs' hso
    rw [h1, h1', h5.1 hsame]
  · intro x y y' hx hy hy' hs hso hsame
    have hs' : y.sid = y'.sid := sameInst_sid hsame
    obtain ⟨h1, _⟩ := key hx hy hs hso
    obtain ⟨h1', _⟩ := key hx hy' (hs.trans hs') hso
    obtain ⟨_, _, _, _, h5⟩ := key hy hy' hs' (hs ▸ hso)
    rw [h1, h1', h5.1 hsame]

/-! ### well-formed trees: the keys are there, so only the values have to be canonical -/

mutual
theorem allPN_of_subnodes {P : DNode → Bool} : ∀ r, (∀ x ∈ subnodes r, P x = true) → allPN P r = true
  | .inner s f m ks, h => by
    simp only [allPN, Bool.and_eq_true]
    exact ⟨h _ (by simp [subnodes]), allPL_of_subnodes ks (fun x hx => h x (by simp [subnodes, hx]))⟩
  | .term s f m v, h => by
    simp only [allPN]
    exact h _ (by simp [subnodes])
theorem allPL_of_subnodes {P : DNode → Bool} : ∀ l, (∀ x ∈ subnodesL l, P x = true) → allPL P l = true
  | [], _ => rfl
  | r :: rs, h => by
    simp only [allPL, Bool.and_eq_true]
    exact ⟨allPN_of_subnodes r (fun x hx => h x (by simp [subnodesL, hx])),
      allPL_of_subnodes rs (fun x hx => h x (by simp [subnodesL, hx]))⟩
end

theorem keyedOK_of_wf {S : Schema} {x : DNode} (hw : wfNode S x = true) (hc : canonOK S x = true) : keyedOK S x = true := by
  unfold keyedOK
  unfold canonOK at hc
  cases hso : S.isSorted x.sid with
  | false => rfl
  | true =>
    simp only [hso, Bool.not_true, Bool.false_or] at hc ⊢
    rcases isSorted_cases S x.sid hso with ⟨hll, _⟩ | ⟨hl, hnll, _⟩
    · simpa only [hll, ↓reduceIte] using hc
    · simp only [hnll, Bool.false_eq_true, ↓reduceIte, Bool.and_eq_true, beq_iff_eq] at hc ⊢
      refine ⟨?_, hc⟩
      have hin : S.isInner x.sid = true := by simp [Schema.isInner, hl]
      obtain ⟨f, m, ks, hxe⟩ := inner_of_shape S x (wfNode_shape S x hw) hin
      rw [hxe] at hw
      have := (wfNode_inner S _ f m ks hw).keysSids hl
      rw [keyPairs_fst]
      rw [hxe]
      exact this

/-- in a well-formed tree (C06 `wfForest`: list instances carry their keys) with canonical values every node is `keyedOK` -/
theorem keyedT_of_wf {S : Schema} {A : List DNode} (hA : wfForest S A = true) (hc : canonT S A = true) :
    allPL (keyedOK S) A = true := by
  simp only [wfForest, Bool.and_eq_true] at hA
  exact allPL_of_subnodes A fun x hx => keyedOK_of_wf (mem_subnodesL_wf S A hA.1.1 x hx) (allPL_subnodes A hc x hx)

end LyModel.Diff.K13
