import LyModel.Diff.UOBridgeKLDec
/-!
# Bridge (C06) — towards multi-key user-ordered lists: the key-predicate round trip for ANY number of keys

`lyd_path_list_predicate` prints `[k1='v1'][k2="v2"]…` (`keyPredicate`); `lyd_create_list2` in `lyd_diff_insert` parses it back
(`parsePreds`) and the anchor instance is looked up by its key values (`findAnchor`).  For every number of keys: the round trip
gives the key values back when no key value contains both quote characters (`KL.QOk`) and no key name contains `=`; hence the
anchor lookup of apply finds the first sibling of that schema node with those key values.  Core Lean only.
-/
namespace LyModel.Diff.UOB.MK
open LyModel LyModel.Tree LyModel.Diff LyModel.Diff.UOB LyModel.Diff.UOB.KL
set_option linter.unusedSimpArgs false
set_option linter.unusedVariables false

/-- one predicate `[name='value']` -/
def pred1 (S : Schema) (k : DNode) : Bytes :=
  [91] ++ bs (S.name k.sid) ++ [61, quoteOf k.val] ++ k.val ++ [quoteOf k.val, 93]

/-- the predicates of a list of key leaves, concatenated -/
def predsOf (S : Schema) (ks : List DNode) : Bytes := ks.flatMap (pred1 S)

theorem keyPredicate_eq (S : Schema) (n : DNode) : keyPredicate S n = predsOf S (keysOf S n.kids) := rfl

/-- a key leaf whose predicate can be parsed back -/
def KeyOk (S : Schema) (k : DNode) : Prop := QOk k.val ∧ 61 ∉ bs (S.name k.sid)

theorem pred1_eq (S : Schema) (k : DNode) :
    pred1 S k = 91 :: (bs (S.name k.sid) ++ 61 :: quoteOf k.val :: (k.val ++ quoteOf k.val :: [93])) := by
  simp [pred1]

theorem predsOf_cons (S : Schema) (k : DNode) (ks : List DNode) :
    predsOf S (k :: ks) = 91 :: (bs (S.name k.sid) ++ 61 :: quoteOf k.val :: (k.val ++ quoteOf k.val :: 93 :: predsOf S ks)) := by
  simp [predsOf, pred1]

/-- `parsePreds` on the printed predicates, any sufficient fuel -/
theorem parsePreds_predsOf (S : Schema) : ∀ (ks : List DNode) (fuel : Nat), ks.length < fuel → (∀ k ∈ ks, KeyOk S k) →
    parsePreds fuel (predsOf S ks) = some (ks.map (·.val))
  | [], fuel + 1, _, _ => by simp [predsOf, parsePreds]
  | [], 0, h, _ => by simp at h
  | k :: ks, 0, h, _ => by simp at h
  | k :: ks, fuel + 1, h, hk => by
    have hk1 := hk k (by simp)
    have ih := parsePreds_predsOf S ks fuel (by simp at h; omega) (fun x hx => hk x (by simp [hx]))
    rw [predsOf_cons]
    generalize hq : quoteOf k.val = q
    have hqz : q ∉ k.val := hq ▸ quoteOf_not_mem hk1.1
    have hq2 : q = 39 ∨ q = 34 := hq ▸ quoteOf_cases k.val
    have h1 : (q != 39 && q != 34) = false := by rcases hq2 with h | h <;> simp [h]
    simp only [parsePreds, dropWhile_name _ _ hk1.2, h1, Bool.false_eq_true, if_false,
      takeWhile_val k.val (93 :: predsOf S ks) q hqz, List.drop_left', List.drop_append_length]
    simp [ih]

theorem predsOf_length (S : Schema) : ∀ (ks : List DNode), ks.length ≤ (predsOf S ks).length
  | [] => by simp [predsOf]
  | k :: ks => by
    have := predsOf_length S ks
    rw [predsOf_cons]
    simp only [List.length_cons, List.length_append]
    omega

/-- **Round trip, any number of keys.** -/
theorem parsePreds_keyPredicate (S : Schema) (n : DNode) (hk : ∀ k ∈ keysOf S n.kids, KeyOk S k) :
    parsePreds ((keyPredicate S n).length + 1) (keyPredicate S n) = some (keyVals S n) := by
  rw [keyPredicate_eq]
  exact parsePreds_predsOf S _ _ (Nat.lt_succ_of_le (predsOf_length S _)) hk

/-- **The anchor lookup of apply, any number of keys**: the predicate of a list instance `x` resolves to the first sibling of
its schema node that has `x`'s key values. -/
theorem findAnchor_keyPredicate (S : Schema) (sibs : List DNode) (x : DNode) (hl : S.isKind x.sid .leaflist = false)
    (hd : S.isDupInst x.sid = false) (hk : ∀ k ∈ keysOf S x.kids, KeyOk S k) :
    findAnchor S sibs x.sid (keyPredicate S x) =
      match sibs.findIdx? (fun y => y.sid == x.sid && keyVals S y == keyVals S x) with
      | some i => .ok i
      | none => .error .einval := by
  unfold findAnchor
  simp only [hd, hl, Bool.false_eq_true, if_false, parsePreds_keyPredicate S x hk, findIdxFrom_zero]
  cases List.findIdx? (fun y => y.sid == x.sid && keyVals S y == keyVals S x) sibs <;> rfl

end LyModel.Diff.UOB.MK
