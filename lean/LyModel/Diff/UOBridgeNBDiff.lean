import LyModel.Diff.UOBridgeLLDec
/-!
# Bridge (C06) — Stage 3a, part 1: a user-ordered leaf-list with inert NEIGHBOURS among the siblings

The sibling lists are `P ++ instances ++ Q`: the instances of one user-ordered configuration leaf-list `s`, preceded / followed
by the same siblings `P` / `Q` of other schema nodes in both trees — leaves and child-less inner nodes of plain schema nodes
(`inertB`; e.g. the implicit default container libyang puts next to top-level instances), pairwise different schema nodes, in
schema order around `s`.  `lyd_diff_userord_attrs` and `lyd_diff_find_match` then work with the indices shifted by `|P|`.
Core Lean only.
-/
namespace LyModel.Diff.UOB.NB
open LyModel LyModel.Tree LyModel.Diff LyModel.Diff.UOB
set_option linter.unusedSimpArgs false
set_option linter.unusedVariables false

/-- a sibling the diff leaves alone when it is the same in both trees: a leaf, or a container without children, of a schema
node that is neither user-ordered nor position-addressed -/
def inertB (S : Schema) (n : DNode) : Bool :=
  !S.isUserOrd n.sid && !S.isDupInst n.sid &&
    ((S.kind? n.sid == some .leaf && n.isTerm) || (S.kind? n.sid == some .container && !n.isTerm && n.kids.isEmpty))

/-- the neighbours: inert, pairwise different schema nodes, `P` before and `Q` behind `s` in schema order -/
structure NBCtx (S : Schema) (s : Nat) (P Q : List DNode) : Prop where
  inert : ∀ n ∈ P ++ Q, inertB S n = true
  sids : ((P ++ Q).map (·.sid)).Nodup
  ltP : ∀ n ∈ P, n.sid < s
  gtQ : ∀ n ∈ Q, s < n.sid

/-- the sibling list: the neighbours around the instances -/
def nbForest (s : Nat) (P Q : List DNode) (vs : List Bytes) : List DNode := P ++ llForest s vs ++ Q

theorem NBCtx.neP {S : Schema} {s : Nat} {P Q : List DNode} (N : NBCtx S s P Q) : ∀ n ∈ P, n.sid ≠ s :=
  fun n hn => Nat.ne_of_lt (N.ltP n hn)
theorem NBCtx.neQ {S : Schema} {s : Nat} {P Q : List DNode} (N : NBCtx S s P Q) : ∀ n ∈ Q, n.sid ≠ s :=
  fun n hn => Nat.ne_of_gt (N.gtQ n hn)

local instance (priority := high) bytesBEqN : BEq Bytes := instBEqOfDecidableEq

/-- the model's tag of an identity, with the index shifted by the neighbours in front -/
def ctagO (off : Nat) (va vb : List Bytes) (x : Bytes) : Bool × Nat := ((ctag va vb x).1, off + (ctag va vb x).2)

theorem ctagO_inj (off : Nat) (va vb : List Bytes) {x y : Bytes} (hx : x ∈ va ∨ x ∈ vb) (hy : y ∈ va ∨ y ∈ vb)
    (h : ctagO off va vb x = ctagO off va vb y) : x = y := by
  apply ctag_inj va vb hx hy
  unfold ctagO at h
  simp only [Prod.mk.injEq, Nat.add_left_cancel_iff] at h
  exact Prod.ext h.1 h.2

theorem nb_get (s : Nat) (P Q : List DNode) (vs : List Bytes) {i : Nat} {x : Bytes} (h : vs[i]? = some x) :
    (nbForest s P Q vs)[P.length + i]? = some (llNode s x) := by
  have hi : i < vs.length := by
    have := List.getElem?_eq_some_iff.mp h; exact this.1
  unfold nbForest
  rw [List.append_assoc, List.getElem?_append_right (by omega)]
  simp only [Nat.add_sub_cancel_left]
  rw [List.getElem?_append_left (by simpa [llForest] using hi)]
  simp [llForest, h]

theorem tagNode_ctagO (s : Nat) (P Q : List DNode) (va vb : List Bytes) (y : Bytes) (hy : y ∈ va ∨ y ∈ vb) :
    tagNode (nbForest s P Q va) (nbForest s P Q vb) (ctagO P.length va vb y) = some (llNode s y) := by
  unfold ctagO ctag tagNode
  by_cases h : y ∈ va
  · simp only [h, if_true, Bool.false_eq_true, if_false]
    exact nb_get s P Q va (idxOf_getElem?_of_mem h)
  · simp only [h, if_false, if_true]
    exact nb_get s P Q vb (idxOf_getElem?_of_mem (hy.resolve_left h))

theorem inst_get (s : Nat) (P Q : List DNode) (va vb v : List Bytes) (hv : ∀ y ∈ v, y ∈ va ∨ y ∈ vb) (q : Nat) :
    ((v.map (ctagO P.length va vb))[q]?).bind (tagNode (nbForest s P Q va) (nbForest s P Q vb)) = v[q]?.map (llNode s) := by
  rw [List.getElem?_map]
  cases h : v[q]? with
  | none => rfl
  | some y => simp [tagNode_ctagO s P Q va vb y (hv y (List.mem_of_getElem? h))]

theorem ctagO_first (off : Nat) (va vb : List Bytes) (nda : va.Nodup) {i : Nat} {x : Bytes} (hi : va[i]? = some x) :
    ctagO off va vb x = (false, off + i) := by
  simp [ctagO, ctag_first va vb nda hi]

theorem ctagO_second (off : Nat) (va vb : List Bytes) (ndb : vb.Nodup) {j : Nat} {y : Bytes} (hj : vb[j]? = some y) (hy : y ∉ va) :
    ctagO off va vb y = (true, off + j) := by
  simp [ctagO, ctag_second va vb ndb hj hy]

theorem idxOfTag_ctagO (off : Nat) (va vb v : List Bytes) (x : Bytes) (hv : ∀ y ∈ v, y ∈ va ∨ y ∈ vb) (hx : x ∈ va ∨ x ∈ vb) :
    idxOfTag (v.map (ctagO off va vb)) (ctagO off va vb x) = v.idxOf x :=
  idxOfTag_map _ v x (fun y hy h => ctagO_inj off va vb (hv y hy) hx h)

/-- first pass: an instance of the first tree without a match is deleted -/
theorem attrs_delete {S : Schema} {s : Nat} (C : LLCtx S s) (P Q : List DNode) (va vb v : List Bytes) (p i : Nat) (x : Bytes)
    (hv : ∀ y ∈ v, y ∈ va ∨ y ∈ vb) (nda : va.Nodup) (hi : va[i]? = some x) :
    ∃ ov, userordAttrs S true (nbForest s P Q va) (nbForest s P Q vb) ⟨s, v.map (ctagO P.length va vb), p⟩
        (some (P.length + i)) none =
      (some { op := .delete, origValue := some ov }, ⟨s, (v.erase x).map (ctagO P.length va vb), p + 1⟩) := by
  have hx : x ∈ va := List.mem_of_getElem? hi
  have ht := ctagO_first P.length va vb nda hi
  have hidx := idxOfTag_ctagO P.length va vb v x hv (Or.inl hx)
  rw [ht] at hidx
  simp only [userordAttrs, Option.bind_none, Option.bind_some, C.nd, C.ll, C.nl, hidx, map_eraseIdx, eraseIdx_idxOf]
  simp

/-- second pass: an instance of the second tree without a match is created behind the instance placed before it -/
theorem attrs_create {S : Schema} {s : Nat} (C : LLCtx S s) (P Q : List DNode) (va vb v : List Bytes) (p j : Nat) (y : Bytes)
    (hv : ∀ z ∈ v, z ∈ va ∨ z ∈ vb) (ndb : vb.Nodup) (hj : vb[j]? = some y) (hy : y ∉ va) :
    userordAttrs S true (nbForest s P Q va) (nbForest s P Q vb) ⟨s, v.map (ctagO P.length va vb), p⟩ none
        (some (P.length + j)) =
      (some { op := .create, value := some ((anchorAt v p).getD []) },
       ⟨s, (UOG.insertAt v p y).map (ctagO P.length va vb), p + 1⟩) := by
  have ht := ctagO_second P.length va vb ndb hj hy
  simp only [userordAttrs, Option.bind_none, Option.bind_some, C.nd, C.ll, C.nl, nb_get s P Q vb hj, Option.map_some,
    inst_get s P Q va vb v hv, Option.getD_some, ← ht, insertAt_map]
  unfold anchorAt
  by_cases hp : p = 0
  · simp [hp]
  · cases hq : v[p - 1]? <;> simp [hp, hq]

/-- second pass: a matched instance that already is at its place: no operation -/
theorem attrs_keep {S : Schema} {s : Nat} (C : LLCtx S s) (P Q : List DNode) (va vb v : List Bytes) (p i j : Nat) (y : Bytes)
    (hv : ∀ z ∈ v, z ∈ va ∨ z ∈ vb) (hi : va[i]? = some y) (hj : vb[j]? = some y) (hp : v[p]? = some y) :
    userordAttrs S true (nbForest s P Q va) (nbForest s P Q vb) ⟨s, v.map (ctagO P.length va vb), p⟩
        (some (P.length + i)) (some (P.length + j)) =
      (none, ⟨s, v.map (ctagO P.length va vb), p + 1⟩) := by
  simp only [userordAttrs, Option.bind_none, Option.bind_some, C.nd, C.ll, C.nl, nb_get s P Q va hi, nb_get s P Q vb hj,
    Option.map_some, inst_get s P Q va vb v hv, hp, sameInst_llNode C]
  simp

/-- second pass: a matched instance that is not at its place is moved behind the instance placed before it -/
theorem attrs_move {S : Schema} {s : Nat} (C : LLCtx S s) (P Q : List DNode) (va vb v : List Bytes) (p i j : Nat) (y : Bytes)
    (hv : ∀ z ∈ v, z ∈ va ∨ z ∈ vb) (nda : va.Nodup) (hi : va[i]? = some y) (hj : vb[j]? = some y)
    (hp : v[p]? ≠ some y) :
    ∃ ov, userordAttrs S true (nbForest s P Q va) (nbForest s P Q vb) ⟨s, v.map (ctagO P.length va vb), p⟩
        (some (P.length + i)) (some (P.length + j)) =
      (some { op := .replace, origDefault := some (boolBytes false), origValue := some ov,
              value := some ((anchorAt v p).getD []) },
       ⟨s, (UOG.insertAt (v.erase y) p y).map (ctagO P.length va vb), p + 1⟩) := by
  have hx : y ∈ va := List.mem_of_getElem? hi
  have ht := ctagO_first P.length va vb nda hi
  have hidx := idxOfTag_ctagO P.length va vb v y hv (Or.inl hx)
  rw [ht] at hidx
  refine ⟨if v.idxOf y = 0 then [] else ((v[v.idxOf y - 1]?).map (fun z => (llNode s z).val)).getD [], ?_⟩
  simp only [userordAttrs, Option.bind_none, Option.bind_some, C.nd, C.ll, C.nl, nb_get s P Q va hi, nb_get s P Q vb hj,
    Option.map_some, inst_get s P Q va vb v hv, hidx, map_eraseIdx, eraseIdx_idxOf, Option.getD_some]
  simp only [← ht, insertAt_map]
  have hne : ∀ z, v[p]? = some z → ¬ (y = z) := by
    intro z hq e; apply hp; rw [hq, e]
  have hanch : (if p = 0 then [] else ((v[p - 1]?).map (fun z => (llNode s z).val)).getD []) = (anchorAt v p).getD [] := by
    unfold anchorAt
    by_cases hp0 : p = 0
    · simp [hp0]
    · cases hq : v[p - 1]? <;> simp [hp0, hq]
  have hcomp : ((fun (x : DNode) => x.val) ∘ llNode s) = id := rfl
  cases hq0 : v[p]? with
  | none => simp [← hanch, hcomp]
  | some z => simp [sameInst_llNode C, hne z hq0, ← hanch, hcomp]

end LyModel.Diff.UOB.NB
