import LyModel.Diff.UOBridgeMKApply2
/-!
# Bridge (C06) — multi-key user-ordered lists, part 7: the decidable hypothesis `flatMK` gives the hypotheses of the theorem
-/
namespace LyModel.Diff.UOB.MK
open LyModel LyModel.Tree LyModel.Diff LyModel.Diff.UOB LyModel.Diff.UOB.KL
set_option linter.unusedSimpArgs false
set_option linter.unusedVariables false

theorem kidsOk_eq : ∀ (kids : List DNode) (j : Nat), kidsOk j kids = true → kids = keyLeavesF {} j (kids.map (·.val))
  | [], _, _ => rfl
  | .inner _ _ _ _ :: _, _, h => by simp [kidsOk] at h
  | .term sid kf km v :: rest, j, h => by
    obtain ⟨d, w, nw⟩ := kf
    simp only [kidsOk, Bool.and_eq_true, beq_iff_eq, Bool.not_eq_true', List.isEmpty_iff] at h
    obtain ⟨⟨⟨⟨⟨h1, h2⟩, h3⟩, h4⟩, h5⟩, h6⟩ := h
    subst h1 h2 h3 h4 h5
    have ih := kidsOk_eq rest (sid + 1) h6
    show DNode.term sid {} [] v :: rest = DNode.term sid {} [] v :: keyLeavesF {} (sid + 1) (rest.map (·.val))
    rw [← ih]

theorem isPlainMK_eq {s nk : Nat} {n : DNode} (h : isPlainMK s nk n = true) :
    (keyOf n).length = nk ∧ n = klNode s (keyN nk n) := by
  cases n with
  | term => simp [isPlainMK] at h
  | inner s' f m kids =>
    obtain ⟨d, w, nw⟩ := f
    simp only [isPlainMK, Bool.and_eq_true, beq_iff_eq, Bool.not_eq_true', List.isEmpty_iff] at h
    obtain ⟨⟨⟨⟨⟨⟨h1, h2⟩, h3⟩, h4⟩, h5⟩, h6⟩, h7⟩ := h
    subst h1 h2 h3 h4 h5
    have hk := kidsOk_eq kids (s' + 1) h7
    have hlen : (kids.map (·.val)).length = nk := by rw [List.length_map]; exact h6
    refine ⟨hlen, ?_⟩
    have e : DNode.inner s' { dflt := false, whenTrue := false, new := false } [] kids =
        klNode s' (⟨kids.map (·.val), hlen⟩ : KeyN nk) := by
      show _ = DNode.inner s' {} [] (keyLeavesF {} (s' + 1) (kids.map (·.val)))
      rw [← hk]
    rw [e, show keyN nk (klNode s' (⟨kids.map (·.val), hlen⟩ : KeyN nk)) = ⟨kids.map (·.val), hlen⟩ from keyN_shape _ _ _ _ _]

theorem all_plainMK_eq {s nk : Nat} : ∀ {A : List DNode}, A.all (isPlainMK s nk) = true →
    A = klForest s (A.map (keyN nk)) ∧ (A.map (keyN nk)).map (·.1) = A.map keysOfH
  | [], _ => ⟨rfl, rfl⟩
  | x :: xs, h => by
    simp only [List.all_cons, Bool.and_eq_true] at h
    have h1 := isPlainMK_eq h.1
    have h2 := all_plainMK_eq h.2
    refine ⟨?_, ?_⟩
    · simp only [klForest, List.map_cons, List.map_map] at h2 ⊢
      rw [← h2.1, ← h1.2]
    · simp only [List.map_cons, h2.2, List.cons.injEq, and_true]
      unfold keyN
      rw [dif_pos h1.1]
      rfl

theorem nodupLL_nodup : ∀ {l : List (List Bytes)}, nodupLL l = true → l.Nodup
  | [], _ => List.nodup_nil
  | x :: xs, h => by
    simp only [nodupLL, Bool.and_eq_true, Bool.not_eq_true', List.contains_eq_mem, decide_eq_false_iff_not] at h
    exact List.nodup_cons.mpr ⟨h.1, nodupLL_nodup h.2⟩

theorem nodup_of_map_val {nk : Nat} {l : List (KeyN nk)} (h : (l.map (·.1)).Nodup) : l.Nodup := by
  induction l with
  | nil => exact List.nodup_nil
  | cons a t ih =>
    simp only [List.map_cons, List.nodup_cons] at h ⊢
    exact ⟨fun hm => h.1 (List.mem_map.mpr ⟨a, hm, rfl⟩), ih h.2⟩

/-- what `flatMK` guarantees -/
theorem flatMK_spec {S : Schema} {A B : List DNode} {s nk : Nat} (h : flatMK S A B = some (s, nk)) :
    (S.kind? s = some .list ∧ S.isUserOrd s = true ∧ S.nkeys s = nk ∧ 0 < nk ∧
        ∀ i, i < nk → S.isKey (s + 1 + i) = true ∧ S.kind? (s + 1 + i) = some .leaf ∧ 61 ∉ bs (S.name (s + 1 + i))) ∧
      ∃ va vb : List (KeyN nk), A = klForest s va ∧ B = klForest s vb ∧ va.Nodup ∧ vb.Nodup ∧ ∀ z ∈ vb, QOkN z := by
  unfold flatMK at h
  split at h
  · simp at h
  · rename_i n _
    simp only at h
    split at h
    · rename_i hc
      simp only [Option.some.injEq, Prod.mk.injEq] at h
      obtain ⟨hs, hnk⟩ := h
      subst hs
      simp only [Bool.and_eq_true, beq_iff_eq, Bool.not_eq_true', List.contains_eq_mem, decide_eq_false_iff_not,
        List.all_eq_true, decide_eq_true_eq, List.mem_range] at hc
      obtain ⟨⟨⟨⟨⟨⟨⟨⟨h1, h2⟩, h3⟩, h4⟩, h5⟩, h6⟩, h7⟩, h8⟩, h9⟩ := hc
      rw [hnk] at h3 h4 h5 h6
      have eA := all_plainMK_eq (List.all_eq_true.mpr h5)
      have eB := all_plainMK_eq (List.all_eq_true.mpr h6)
      refine ⟨⟨h1, h2, hnk, h3, fun i hi => ⟨(h4 i hi).1.1, (h4 i hi).1.2, (h4 i hi).2⟩⟩, A.map (keyN nk), B.map (keyN nk),
        eA.1, eB.1, nodup_of_map_val (by rw [eA.2]; exact nodupLL_nodup h7), nodup_of_map_val (by rw [eB.2]; exact nodupLL_nodup h8), ?_⟩
      intro z hz c hc
      have hz' : z.1 ∈ (B.map (keyN nk)).map (·.1) := List.mem_map.mpr ⟨z, hz, rfl⟩
      rw [eB.2] at hz'
      exact qokB_spec (h9 z.1 hz' c hc)
    · simp at h

end LyModel.Diff.UOB.MK
