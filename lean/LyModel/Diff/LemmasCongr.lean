import LyModel.Diff.Lemmas13Norm
/-!
# `lyd_diff_apply_all` respects the observation in its data argument (C13: the reversed diff applied to the literal second tree)

`normR S` removes from a data tree what `lyd_diff_apply_all` does not reproduce bit for bit (metadata, `LYD_NEW`, `LYD_WHEN_TRUE`,
the default flag of non-presence containers).  Two data trees equal up to `normR` give, for EVERY diff (any operation,
user-ordered nodes included), either the same error or results equal up to `normR` (`apply_congr`).  No hypothesis on the trees.
Core Lean only.
-/
set_option linter.unusedSimpArgs false
namespace LyModel.Diff
open LyModel LyModel.Tree

mutual
def normR (S : Schema) : DNode → DNode
  | .inner s f _ ks => .inner s { dflt := !S.isNpCont s && f.dflt } [] (normRL S ks)
  | .term s f _ v => .term s { dflt := f.dflt } [] v
def normRL (S : Schema) : List DNode → List DNode
  | [] => []
  | x :: xs => normR S x :: normRL S xs
end

theorem normRL_eq_map (S : Schema) : ∀ l, normRL S l = l.map (normR S)
  | [] => rfl
  | x :: xs => by simp [normRL, normRL_eq_map S xs]

@[simp] theorem sid_normR (S : Schema) (x : DNode) : (normR S x).sid = x.sid := by cases x <;> rfl
@[simp] theorem val_normR (S : Schema) (x : DNode) : (normR S x).val = x.val := by cases x <;> rfl
@[simp] theorem isTerm_normR (S : Schema) (x : DNode) : (normR S x).isTerm = x.isTerm := by cases x <;> rfl
@[simp] theorem kids_normR (S : Schema) (x : DNode) : (normR S x).kids = normRL S x.kids := by cases x <;> rfl

mutual
theorem normN_normR (S : Schema) : ∀ x, normN (normR S x) = normN x
  | .inner s f m ks => by simp only [normR, normN, normL_normRL S ks]
  | .term s f m v => by simp only [normR, normN]
theorem normL_normRL (S : Schema) : ∀ l, normL13 (normRL S l) = normL13 l
  | [] => rfl
  | x :: xs => by simp only [normRL, normL13, normN_normR S x, normL_normRL S xs]
end

/-- equal up to `normR` implies equal up to `normN` (= `dataEqL true`) -/
theorem normL_of_normRL {S : Schema} {l l' : List DNode} (h : normRL S l = normRL S l') : normL13 l = normL13 l' := by
  rw [← normL_normRL S l, ← normL_normRL S l', h]

/-- whatever does not look at what `normN` removes does not look at what `normR` removes -/
theorem inv_normR {β : Type} (S : Schema) (f : DNode → β) (h : ∀ x, f (normN x) = f x) (x : DNode) : f (normR S x) = f x := by
  rw [← h (normR S x), normN_normR, h]

/-! ### list operations -/

theorem length_normRL (S : Schema) (l : List DNode) : (normRL S l).length = l.length := by simp [normRL_eq_map]

theorem getElem?_normRL (S : Schema) (l : List DNode) (i : Nat) : (normRL S l)[i]? = (l[i]?).map (normR S) := by
  simp [normRL_eq_map]

theorem normRL_append (S : Schema) (a b : List DNode) : normRL S (a ++ b) = normRL S a ++ normRL S b := by
  simp [normRL_eq_map]

theorem normRL_take (S : Schema) (l : List DNode) (i : Nat) : normRL S (l.take i) = (normRL S l).take i := by
  simp [normRL_eq_map, List.map_take]

theorem normRL_drop (S : Schema) (l : List DNode) (i : Nat) : normRL S (l.drop i) = (normRL S l).drop i := by
  simp [normRL_eq_map, List.map_drop]

theorem normRL_eraseIdx (S : Schema) : ∀ (l : List DNode) (i : Nat), normRL S (l.eraseIdx i) = (normRL S l).eraseIdx i
  | [], _ => rfl
  | _ :: _, 0 => rfl
  | x :: xs, i + 1 => by simp [normRL, normRL_eraseIdx S xs i]

theorem normRL_set (S : Schema) : ∀ (l : List DNode) (i : Nat) (y : DNode), normRL S (l.set i y) = (normRL S l).set i (normR S y)
  | [], _, _ => rfl
  | _ :: _, 0, _ => rfl
  | x :: xs, i + 1, y => by simp [normRL, normRL_set S xs i y]

theorem isEmpty_normRL (S : Schema) (l : List DNode) : (normRL S l).isEmpty = l.isEmpty := by cases l <;> rfl

theorem normRL_insBefore (S : Schema) (p q : DNode → Bool) (n : DNode) (h : ∀ x, q (normR S x) = p x) :
    ∀ l, normRL S (KL.insBefore p n l) = KL.insBefore q (normR S n) (normRL S l)
  | [] => rfl
  | x :: xs => by
    simp only [KL.insBefore, normRL, h x]
    split
    · rfl
    · simp only [normRL, normRL_insBefore S p q n h xs]

theorem nlt_normR (S : Schema) (x y : DNode) : nlt S (normR S x) (normR S y) = nlt S x y := by
  rw [← nlt_normN S (normR S x) (normR S y), normN_normR, normN_normR, nlt_normN]

theorem normRL_insertNode (S : Schema) (l : List DNode) (n : DNode) :
    normRL S (insertNode S l n) = insertNode S (normRL S l) (normR S n) := by
  rw [insertNode_eq, insertNode_eq]
  exact normRL_insBefore S _ _ n (fun x => nlt_normR S n x) l

end LyModel.Diff

namespace LyModel.Diff
open LyModel LyModel.Tree

/-! ### the searches -/

mutual
theorem fullEq_normN : ∀ x y, fullEq (normN x) (normN y) = fullEq x y
  | .inner s f m k, .inner s' f' m' k' => by simp only [normN, fullEq, fullEqL_normL k k']
  | .term s f m v, .term s' f' m' v' => by simp only [normN, fullEq]
  | .inner .., .term .. => by simp only [normN, fullEq]
  | .term .., .inner .. => by simp only [normN, fullEq]
theorem fullEqL_normL : ∀ l l', fullEqL (normL13 l) (normL13 l') = fullEqL l l'
  | [], [] => rfl
  | a :: as, b :: bs => by simp only [normL13, fullEqL, fullEq_normN a b, fullEqL_normL as bs]
  | [], _ :: _ => rfl
  | _ :: _, [] => rfl
end

theorem instMatch_normN (S : Schema) (d x : DNode) : instMatch S (normN d) (normN x) = instMatch S d x := by
  simp only [instMatch, sid_normN, fullEq_normN, sameInst_normN]

/-- the comparison of `lyd_find_sibling_first` does not look at what `normR` removes from the sibling -/
theorem instMatch_normR (S : Schema) (d x : DNode) : instMatch S d (normR S x) = instMatch S d x := by
  rw [← instMatch_normN S d (normR S x), normN_normR, instMatch_normN]

theorem findIdxFrom_normRL (S : Schema) (p : DNode → Nat → Bool) (hp : ∀ x i, p (normR S x) i = p x i) :
    ∀ (l : List DNode) (k : Nat), findIdxFrom p (normRL S l) k = findIdxFrom p l k
  | [], _ => rfl
  | x :: xs, k => by
    simp only [normRL, findIdxFrom, hp x k, findIdxFrom_normRL S p hp xs (k + 1)]

theorem findForApply_normRL (S : Schema) (l : List DNode) (d : DNode) :
    findForApply S (normRL S l) d = findForApply S l d := by
  unfold findForApply
  split
  · exact findIdxFrom_normRL S _ (fun x _ => by simp only [sid_normR, instMatch_normR]) l 0
  · exact findIdxFrom_normRL S _ (fun x _ => by simp only [sid_normR]) l 0

theorem findIdxFrom_some (p : DNode → Nat → Bool) : ∀ (l : List DNode) (k i : Nat), findIdxFrom p l k = some i →
    k ≤ i ∧ ∃ x, l[i - k]? = some x ∧ p x i = true
  | [], _, _, h => by simp [findIdxFrom] at h
  | x :: xs, k, i, h => by
    simp only [findIdxFrom] at h
    split at h
    · rename_i hpx
      simp only [Option.some.injEq] at h
      subst h
      exact ⟨Nat.le_refl _, x, by simp, hpx⟩
    · obtain ⟨hle, y, hy, hpy⟩ := findIdxFrom_some p xs (k + 1) i h
      refine ⟨by omega, y, ?_, hpy⟩
      have : i - k = (i - (k + 1)) + 1 := by omega
      rw [this, List.getElem?_cons_succ]
      exact hy

/-- what `lyd_diff_find_match` returns is an instance of the diff node's schema node -/
theorem findForApply_sid (S : Schema) (l : List DNode) (d : DNode) (i : Nat) (m : DNode)
    (h : findForApply S l d = some i) (hm : l[i]? = some m) : m.sid = d.sid := by
  unfold findForApply at h
  split at h
  · obtain ⟨_, x, hx, hp⟩ := findIdxFrom_some _ l 0 i h
    rw [Nat.sub_zero, hm] at hx
    simp only [Option.some.injEq] at hx
    subst hx
    simp only [Bool.and_eq_true, beq_iff_eq] at hp
    exact hp.1
  · obtain ⟨_, x, hx, hp⟩ := findIdxFrom_some _ l 0 i h
    rw [Nat.sub_zero, hm] at hx
    simp only [Option.some.injEq] at hx
    subst hx
    simpa using hp

end LyModel.Diff

namespace LyModel.Diff
open LyModel LyModel.Tree

/-! ### nodes equal up to `normR` -/

section nodes
variable {S : Schema} {m m' : DNode}

theorem sid_of_normR (h : normR S m = normR S m') : m.sid = m'.sid := by
  have := congrArg DNode.sid h; simpa using this
theorem val_of_normR (h : normR S m = normR S m') : m.val = m'.val := by
  have := congrArg DNode.val h; simpa using this
theorem isTerm_of_normR (h : normR S m = normR S m') : m.isTerm = m'.isTerm := by
  have := congrArg DNode.isTerm h; simpa using this
theorem kids_of_normR (h : normR S m = normR S m') : normRL S m.kids = normRL S m'.kids := by
  have := congrArg DNode.kids h; simpa using this

theorem setDflt_congr (h : normR S m = normR S m') (ht : m.isTerm = true) (b : Bool) :
    normR S (m.setDflt b) = normR S (m'.setDflt b) := by
  have ht' : m'.isTerm = true := by rw [← isTerm_of_normR h]; exact ht
  cases m with
  | inner => simp [DNode.isTerm] at ht
  | term s f mm v =>
    cases m' with
    | inner => simp [DNode.isTerm] at ht'
    | term s' f' mm' v' =>
      simp only [normR, DNode.term.injEq] at h
      simp only [DNode.setDflt, DNode.setFlags, DNode.flags, normR, h.1, h.2.2.2]

theorem setKids_congr (h : normR S m = normR S m') {ks ks' : List DNode} (hk : normRL S ks = normRL S ks') :
    normR S (m.setKids ks) = normR S (m'.setKids ks') := by
  cases m with
  | inner s f mm k =>
    cases m' with
    | term => simp [normR] at h
    | inner s' f' mm' k' =>
      simp only [normR, DNode.inner.injEq] at h
      obtain ⟨rfl, h2, -, -⟩ := h
      simp only [DNode.setKids, normR, hk, h2]
  | term s f mm v =>
    cases m' with
    | inner => simp [normR] at h
    | term s' f' mm' v' => simpa [DNode.setKids] using h

theorem setVal_setFlags_congr (h : normR S m = normR S m') (v : Bytes) (f : Flags) :
    normR S ((m.setVal v).setFlags f) = normR S ((m'.setVal v).setFlags f) := by
  cases m with
  | inner s f1 mm k =>
    cases m' with
    | term => simp [normR] at h
    | inner s' f' mm' k' =>
      simp only [normR, DNode.inner.injEq] at h
      simp only [DNode.setVal, DNode.setFlags, normR, h.1, h.2.2.2]
  | term s f1 mm v1 =>
    cases m' with
    | inner => simp [normR] at h
    | term s' f' mm' v' =>
      simp only [normR, DNode.term.injEq] at h
      simp only [DNode.setVal, DNode.setFlags, normR, h.1]

theorem isNpCont_of_leaf {s : Nat} (h : S.isKind s .leaf = true) : S.isNpCont s = false := by
  unfold Schema.isKind Schema.kind? at h
  unfold Schema.isNpCont
  cases hg : S.get? s with
  | none => rfl
  | some n =>
    simp only [hg, Option.map_some, beq_iff_eq, Option.some.injEq] at h
    simp [h]

/-- the default flag of an instance of a leaf's schema node survives `normR`, whatever shape the instance has -/
theorem dflt_of_normR (h : normR S m = normR S m') (hl : S.isKind m.sid .leaf = true) : m.flags.dflt = m'.flags.dflt := by
  have hnp := isNpCont_of_leaf hl
  cases m with
  | inner s f1 mm k =>
    cases m' with
    | term => simp [normR] at h
    | inner s' f' mm' k' =>
      simp only [DNode.sid] at hnp
      simp only [normR, DNode.inner.injEq] at h
      have h2 := h.2.1
      rw [← h.1, hnp] at h2
      simpa [DNode.flags] using h2
  | term s f1 mm v1 =>
    cases m' with
    | inner => simp [normR] at h
    | term s' f' mm' v' =>
      simp only [normR, DNode.term.injEq] at h
      simpa [DNode.flags] using h.2.1

end nodes

theorem pair_get {S : Schema} {L L' : List DNode} (h : normRL S L = normRL S L') (i : Nat) :
    (L[i]? = none ∧ L'[i]? = none) ∨ ∃ m m', L[i]? = some m ∧ L'[i]? = some m' ∧ normR S m = normR S m' := by
  have h1 := getElem?_normRL S L i
  have h2 := getElem?_normRL S L' i
  rw [h] at h1
  rw [h1] at h2
  cases hm : L[i]? with
  | none =>
    cases hm' : L'[i]? with
    | none => exact Or.inl ⟨rfl, rfl⟩
    | some m' => simp [hm, hm'] at h2
  | some m =>
    cases hm' : L'[i]? with
    | none => simp [hm, hm'] at h2
    | some m' =>
      simp only [hm, hm', Option.map_some, Option.some.injEq] at h2
      exact Or.inr ⟨m, m', rfl, rfl, h2⟩

theorem find_pair {S : Schema} {L L' : List DNode} (h : normRL S L = normRL S L') (d : DNode) :
    findForApply S L' d = findForApply S L d := by
  rw [← findForApply_normRL S L' d, ← h, findForApply_normRL]

/-! ### results equal up to `normR` -/

def RelR (S : Schema) (r r' : Except AErr (List DNode)) : Prop :=
  match r, r' with
  | .ok a, .ok b => normRL S a = normRL S b
  | .error e, .error e' => e = e'
  | _, _ => False

theorem RelR_bind {S : Schema} {r r' : Except AErr (List DNode)} {f g : List DNode → Except AErr (List DNode)}
    (h : RelR S r r') (hf : ∀ a b, normRL S a = normRL S b → RelR S (f a) (g b)) : RelR S (r >>= f) (r' >>= g) := by
  cases r with
  | error e =>
    cases r' with
    | error e' => simpa [RelR, bind, Except.bind] using h
    | ok b => exact absurd h (by simp [RelR])
  | ok a =>
    cases r' with
    | error e' => exact absurd h (by simp [RelR])
    | ok b => exact hf a b h

theorem foldlM_congr {S : Schema} (f : List DNode → DNode → Except AErr (List DNode)) :
    ∀ (ds : List DNode) (L L' : List DNode),
      (∀ c ∈ ds, ∀ X X', normRL S X = normRL S X' → RelR S (f X c) (f X' c)) → normRL S L = normRL S L' →
      RelR S (ds.foldlM f L) (ds.foldlM f L')
  | [], L, L', _, h => h
  | c :: cs, L, L', hf, h => by
    simp only [List.foldlM_cons]
    apply RelR_bind (hf c (by simp) L L' h)
    intro a b hab
    exact foldlM_congr f cs a b (fun c' hc' => hf c' (by simp [hc'])) hab

end LyModel.Diff

namespace LyModel.Diff
open LyModel LyModel.Tree

/-! ### the operations of `lyd_diff_apply_r` -/

theorem RelR_err {S : Schema} (e : AErr) : RelR S (.error e) (.error e) := rfl

section ops
variable {S : Schema} {fx : Fixes} {recur : Recur} {L L' : List DNode}

theorem applyDelete_congr (d : DNode) (h : normRL S L = normRL S L') :
    RelR S (applyDelete S L d) (applyDelete S L' d) := by
  unfold applyDelete
  rw [find_pair h d]
  cases findForApply S L d with
  | none => exact RelR_err _
  | some i =>
    show normRL S _ = normRL S _
    rw [normRL_eraseIdx, normRL_eraseIdx, h]

theorem applyReplace_congr (d : DNode) (h : normRL S L = normRL S L') :
    RelR S (applyReplace S L d) (applyReplace S L' d) := by
  unfold applyReplace
  by_cases hl : S.isKind d.sid .leaf = true
  · simp only [hl, Bool.not_true, Bool.false_eq_true, if_false]
    rw [find_pair h d]
    cases hf : findForApply S L d with
    | none => exact RelR_err _
    | some i =>
      rcases pair_get h i with ⟨h1, h2⟩ | ⟨m, m', h1, h2, hm⟩
      · simp only [h1, h2]; exact RelR_err _
      · simp only [h1, h2]
        have hs : m.sid = d.sid := findForApply_sid S L d i m hf h1
        have hd := dflt_of_normR hm (by rw [hs]; exact hl)
        rw [← val_of_normR hm, ← hd]
        split
        · exact RelR_err _
        · show normRL S _ = normRL S _
          rw [normRL_set, normRL_set, h, setVal_setFlags_congr hm]
  · have : S.isKind d.sid .leaf = false := by simpa using hl
    simp only [this, Bool.not_false, if_true]
    exact RelR_err _

variable (IH : ∀ (X X' : List DNode) (hp : Bool) (inh : Option Op) (c : DNode), normRL S X = normRL S X' →
  RelR S (recur X hp inh c) (recur X' hp inh c))
include IH

theorem applyKids_congr (d : DNode) (inh : Option Op) {ks ks' : List DNode} (h : normRL S ks = normRL S ks') :
    RelR S (applyKids S fx recur d inh ks) (applyKids S fx recur d inh ks') := by
  unfold applyKids
  exact foldlM_congr _ _ ks ks' (fun c _ X X' hX => IH X X' true _ c hX) h

theorem applyNone_congr (d : DNode) (inh : Option Op) (h : normRL S L = normRL S L') :
    RelR S (applyNone S fx recur L inh d) (applyNone S fx recur L' inh d) := by
  unfold applyNone
  rw [find_pair h d]
  cases hf : findForApply S L d with
  | none => exact RelR_err _
  | some i =>
    rcases pair_get h i with ⟨h1, h2⟩ | ⟨m, m', h1, h2, hm⟩
    · simp only [h1, h2]; exact RelR_err _
    · simp only [h1, h2, ← isTerm_of_normR hm]
      by_cases ht : m.isTerm = true
      · simp only [ht, if_true]
        show normRL S _ = normRL S _
        rw [normRL_set, normRL_set, h, setDflt_congr hm ht]
      · simp only [ht, Bool.false_eq_true, if_false]
        split
        · exact RelR_err _
        · apply RelR_bind (applyKids_congr IH d inh (kids_of_normR hm))
          intro a b hab
          show normRL S _ = normRL S _
          rw [normRL_set, normRL_set, h, setKids_congr hm hab]

omit IH in
theorem applyCreate_congr (d : DNode) (inh : Option Op) (h : normRL S L = normRL S L') :
    RelR S (applyCreate S fx recur L inh d) (applyCreate S fx recur L' inh d) := by
  unfold applyCreate
  simp only [bind, Except.bind]
  cases applyKids S fx recur d inh (dupSingle S d).kids with
  | error e => exact RelR_err _
  | ok ks =>
    show normRL S _ = normRL S _
    rw [normRL_insertNode, normRL_insertNode, h]

end ops

end LyModel.Diff

namespace LyModel.Diff
open LyModel LyModel.Tree

/-! ### user-ordered create / move (`lyd_diff_insert`) -/

theorem keysOf_normRL (S : Schema) : ∀ l : List DNode, keysOf S (normRL S l) = normRL S (keysOf S l)
  | [] => rfl
  | x :: xs => by
    simp only [keysOf, normRL, List.takeWhile_cons, sid_normR]
    split
    · have := keysOf_normRL S xs
      simp only [keysOf] at this
      simp only [normRL, this]
    · rfl

theorem keyVals_normR (S : Schema) (x : DNode) : keyVals S (normR S x) = keyVals S x := by
  unfold keyVals
  rw [kids_normR, keysOf_normRL, normRL_eq_map, List.map_map]
  apply List.map_congr_left
  intro y _
  simp

theorem instIdxs_aux (S : Schema) (sid : Nat) : ∀ (l : List DNode) (k : Nat),
    (((normRL S l).zipIdx k).filter fun p => p.1.sid == sid).map (·.2) = ((l.zipIdx k).filter fun p => p.1.sid == sid).map (·.2)
  | [], _ => rfl
  | x :: xs, k => by
    simp only [normRL, List.zipIdx_cons, List.filter_cons, sid_normR]
    split
    · simp only [List.map_cons, instIdxs_aux S sid xs (k + 1)]
    · exact instIdxs_aux S sid xs (k + 1)

theorem instIdxs_normRL (S : Schema) (l : List DNode) (sid : Nat) : instIdxs (normRL S l) sid = instIdxs l sid :=
  instIdxs_aux S sid l 0

theorem findAnchor_normRL (S : Schema) (l : List DNode) (sid : Nat) (a : Bytes) :
    findAnchor S (normRL S l) sid a = findAnchor S l sid a := by
  unfold findAnchor
  simp only [instIdxs_normRL]
  rw [findIdxFrom_normRL S _ (fun x _ => by simp only [sid_normR, val_normR]) l 0]
  split
  · rfl
  · split
    · rfl
    · cases parsePreds (a.length + 1) a with
      | none => rfl
      | some vals =>
        simp only
        rw [findIdxFrom_normRL S _ (fun x _ => by simp only [sid_normR, keyVals_normR]) l 0]

theorem findAnchor_pair {S : Schema} {L L' : List DNode} (h : normRL S L = normRL S L') (sid : Nat) (a : Bytes) :
    findAnchor S L' sid a = findAnchor S L sid a := by
  rw [← findAnchor_normRL S L' sid a, ← h, findAnchor_normRL]

theorem place_congr {S : Schema} {l l' : List DNode} {n n' : DNode} (hl : normRL S l = normRL S l')
    (hn : normR S n = normR S n') (i : Nat) :
    normRL S (l.take i ++ [n] ++ l.drop i) = normRL S (l'.take i ++ [n'] ++ l'.drop i) := by
  simp only [normRL_append, normRL_take, normRL_drop, normRL, hl, hn]

theorem insertUO_congr {S : Schema} {L L' : List DNode} {n n' : DNode} (h : normRL S L = normRL S L')
    (hn : normR S n = normR S n') (hp : Bool) (mv : Option Nat) (anc : Option Bytes) :
    RelR S (insertUO S L hp n mv anc) (insertUO S L' hp n' mv anc) := by
  have hem : L'.isEmpty = L.isEmpty := by rw [← isEmpty_normRL S L', ← h, isEmpty_normRL]
  have hsid : n'.sid = n.sid := (sid_of_normR hn).symm
  have her : ∀ i, normRL S (L.eraseIdx i) = normRL S (L'.eraseIdx i) := by
    intro i; rw [normRL_eraseIdx, normRL_eraseIdx, h]
  unfold insertUO
  rw [hem, hsid]
  by_cases he : L.isEmpty = true
  · simp only [he, if_true]
    split
    · exact RelR_err _
    · show normRL S [n] = normRL S [n']
      simp only [normRL, hn]
  · simp only [he, Bool.false_eq_true, if_false]
    cases anc with
    | some a =>
      simp only [findAnchor_pair h n.sid a, bind, Except.bind]
      cases findAnchor S L n.sid a with
      | error e => exact RelR_err _
      | ok ai =>
        simp only
        split
        · exact RelR_err _
        · cases mv with
          | some i => exact place_congr (her i) hn _
          | none => exact place_congr h hn _
    | none =>
      simp only
      have hfi : findIdxFrom (fun x _ => x.sid == n.sid) L' 0 = findIdxFrom (fun x _ => x.sid == n.sid) L 0 := by
        rw [← findIdxFrom_normRL S _ (fun x _ => by simp only [sid_normR]) L' 0, ← h,
          findIdxFrom_normRL S _ (fun x _ => by simp only [sid_normR]) L 0]
      rw [hfi]
      cases findIdxFrom (fun x _ => x.sid == n.sid) L 0 with
      | some fi =>
        simp only
        split
        · exact RelR_err _
        · cases mv with
          | some i => exact place_congr (her i) hn _
          | none => exact place_congr h hn _
      | none =>
        show normRL S _ = normRL S _
        rw [normRL_insertNode, normRL_insertNode, h, hn]

end LyModel.Diff

namespace LyModel.Diff
open LyModel LyModel.Tree

/-- the instance `lyd_diff_apply_r` places for a user-ordered create / move -/
def uoInst (S : Schema) (fx : Fixes) (d : DNode) : Option DNode → DNode
  | some m => if fx.f120 && m.isTerm then m.setDflt d.flags.dflt else m
  | none => dupSingle S d

/-- … and what it does with it -/
def uoTail (S : Schema) (fx : Fixes) (recur : Recur) (L : List DNode) (hp : Bool) (inh : Option Op) (d : DNode)
    (found : Option Nat) (m0 : DNode) : Except AErr (List DNode) :=
  match getMeta d (anchorMetaName S d.sid) with
  | none => .error .einval
  | some str => do
    let anchor := if str.isEmpty then none else some str
    let _ ← insertUO S L hp m0 found anchor
    let ks ← applyKids S fx recur d inh m0.kids
    insertUO S L hp (m0.setKids ks) found anchor

theorem applyUO_eq (S : Schema) (fx : Fixes) (recur : Recur) (op : Op) (L : List DNode) (hp : Bool) (inh : Option Op)
    (d : DNode) :
    applyUO S fx recur op L hp inh d =
      if op == .replace && (if op == .replace then findForApply S L d else none).isNone then .error .einval
      else uoTail S fx recur L hp inh d (if op == .replace then findForApply S L d else none)
        (uoInst S fx d ((if op == .replace then findForApply S L d else none).bind (L[·]?))) := by
  unfold applyUO uoTail uoInst
  rfl

section uo
variable {S : Schema} {fx : Fixes} {recur : Recur} {L L' : List DNode}
variable (IH : ∀ (X X' : List DNode) (hp : Bool) (inh : Option Op) (c : DNode), normRL S X = normRL S X' →
  RelR S (recur X hp inh c) (recur X' hp inh c))
include IH

theorem uoTail_congr (hp : Bool) (inh : Option Op) (d : DNode) (found : Option Nat) {m0 m0' : DNode}
    (h : normRL S L = normRL S L') (hm0 : normR S m0 = normR S m0') :
    RelR S (uoTail S fx recur L hp inh d found m0) (uoTail S fx recur L' hp inh d found m0') := by
  unfold uoTail
  cases getMeta d (anchorMetaName S d.sid) with
  | none => exact RelR_err _
  | some str =>
    simp only
    apply RelR_bind (insertUO_congr h hm0 hp found _)
    intro _ _ _
    apply RelR_bind (applyKids_congr IH d inh (kids_of_normR hm0))
    intro a b hab
    exact insertUO_congr h (setKids_congr hm0 hab) hp found _

omit IH in
theorem uoInst_congr (d : DNode) (found : Option Nat) (h : normRL S L = normRL S L') :
    normR S (uoInst S fx d (found.bind (L[·]?))) = normR S (uoInst S fx d (found.bind (L'[·]?))) := by
  cases found with
  | none => rfl
  | some i =>
    simp only [Option.bind_some]
    rcases pair_get h i with ⟨h1, h2⟩ | ⟨m, m', h1, h2, hm⟩
    · simp only [h1, h2]
    · simp only [h1, h2, uoInst, ← isTerm_of_normR hm]
      by_cases hc : (fx.f120 && m.isTerm) = true
      · simp only [hc, if_true]
        simp only [Bool.and_eq_true] at hc
        exact setDflt_congr hm hc.2 _
      · simp only [hc, if_false]
        exact hm

theorem applyUO_congr (op : Op) (hp : Bool) (inh : Option Op) (d : DNode) (h : normRL S L = normRL S L') :
    RelR S (applyUO S fx recur op L hp inh d) (applyUO S fx recur op L' hp inh d) := by
  rw [applyUO_eq, applyUO_eq, find_pair h d]
  generalize (if (op == Op.replace) = true then findForApply S L d else none) = found
  by_cases hc : (op == Op.replace && found.isNone) = true
  · simp only [hc, if_true]
    exact RelR_err _
  · simp only [hc, if_false]
    exact uoTail_congr IH hp inh d found h (uoInst_congr d found h)

theorem applyStep_congr (hp : Bool) (inh : Option Op) (d : DNode) (h : normRL S L = normRL S L') :
    RelR S (applyStep S fx recur L hp inh d) (applyStep S fx recur L' hp inh d) := by
  unfold applyStep
  cases effOp d inh with
  | none => exact RelR_err _
  | some op =>
    simp only
    split
    · exact applyUO_congr IH op hp inh d h
    · cases op with
      | none => exact applyNone_congr IH d inh h
      | create => exact applyCreate_congr d inh h
      | delete => exact applyDelete_congr d h
      | replace => exact applyReplace_congr d h

end uo

theorem applyNode_congr (S : Schema) (fx : Fixes) : ∀ (n : Nat) (L L' : List DNode) (hp : Bool) (inh : Option Op) (d : DNode),
    normRL S L = normRL S L' → RelR S (applyNode S fx n L hp inh d) (applyNode S fx n L' hp inh d)
  | 0, _, _, _, _, _, _ => RelR_err _
  | n + 1, L, L', hp, inh, d, h => by
    show RelR S (applyStep S fx (applyNode S fx n) L hp inh d) (applyStep S fx (applyNode S fx n) L' hp inh d)
    exact applyStep_congr (fun X X' hp inh c hX => applyNode_congr S fx n X X' hp inh c hX) hp inh d h

/-- **`lyd_diff_apply_all` respects the observation in its data argument**: for data trees equal up to `normR` (metadata,
`LYD_NEW`, `LYD_WHEN_TRUE`, default flag of non-presence containers) the same diff gives the same error or results equal up
to `normR` — for every diff and every schema (user-ordered and duplicate-instance nodes included). -/
theorem apply_congr (S : Schema) (fx : Fixes) (L L' D : List DNode) (h : normRL S L = normRL S L') :
    RelR S (apply S L D fx) (apply S L' D fx) := by
  unfold apply
  exact foldlM_congr _ D L L' (fun c _ X X' hX => applyNode_congr S fx _ X X' false none c hX) h

end LyModel.Diff
