import LyModel.Diff.UOBridgeMKFold
/-!
# Bridge (C06) — multi-key user-ordered lists, part 4: `lyd_diff_siblings` = image of the core's `UOG.diffU` (as `UOBridgeKLThm.lean`)
-/
namespace LyModel.Diff.UOB.MK
open LyModel LyModel.Tree LyModel.Diff LyModel.Diff.UOB LyModel.Diff.UOB.KL
set_option linter.unusedSimpArgs false
set_option linter.unusedVariables false
local instance (priority := high) keyBEq4 {nk : Nat} : BEq (KeyN nk) := instBEqOfDecidableEq

theorem instIdxs_kl_aux {nk : Nat} (s : Nat) : ∀ (vs : List (KeyN nk)) (k : Nat),
    (((klForest s vs).zipIdx k).filter fun p => p.1.sid == s).map (·.2) = List.range' k vs.length
  | [], k => by simp [klForest]
  | x :: xs, k => by
    have ih := instIdxs_kl_aux s xs (k + 1)
    unfold klForest at ih ⊢
    simp only [List.map_cons, List.zipIdx_cons, klNode_sid, beq_self_eq_true, List.filter_cons_of_pos, List.length_cons,
      List.range'_succ, ih]

theorem initInst {nk : Nat} (s : Nat) (va vb : List (KeyN nk)) (nda : va.Nodup) :
    (instIdxs (klForest s va) s).map (fun i => (false, i)) = va.map (ctag va vb) := by
  unfold instIdxs
  rw [instIdxs_kl_aux s va 0]
  apply List.ext_getElem?
  intro i
  simp only [List.getElem?_map]
  by_cases hi : i < va.length
  · have h1 : va[i]? = some va[i] := List.getElem?_eq_getElem hi
    rw [h1]
    simp [List.getElem?_range', hi, ctag_first va vb nda h1]
  · have h1 : va[i]? = none := List.getElem?_eq_none (by omega)
    simp [h1, List.getElem?_range', hi]

/-- **Simulation of `lyd_diff_siblings` by the core.**  The diff of two sibling lists made of the instances of one
user-ordered configuration list with one key (duplicate-free key values, quotable in the second) consists, node for node, of the
encodings of the operations `UOG.diffU` generates for the lists of key values; `*diff` is the first of them. -/
theorem diffFull_kl {S : Schema} {s nk : Nat} (C : MKCtx S s nk) (fx : Fixes) (va vb : List (KeyN nk)) (nda : va.Nodup)
    (ndb : vb.Nodup) (hq : ∀ z ∈ vb, QOkN z) :
    ∃ nodes, diffFull S true (klForest s va) (klForest s vb) fx = (nodes, 0) ∧ OpNodes S s nodes (UOG.diffU va vb) := by
  unfold diffFull
  generalize Nat.max (heightL (klForest s va)) (heightL (klForest s vb)) = fuel
  simp only [diffSiblings]
  -- first pass
  obtain ⟨st1, p1, e1, u1, u1', m1, o1, out1, us1, pt1⟩ :=
    phase1_fold C va vb nda true (diffSiblings S true fuel false) (diffSiblings_nil_out S fuel) va [] {} va 0 []
      (by simp) (fun y hy => Or.inl hy)
      (by simp [uoGet, uoFind, initInst s va vb nda]) .nil (by intro n hn; simp at hn) rfl
  simp only [List.length_nil] at e1
  rw [e1]
  have hspec := UOG.phase1_spec vb va [] [] (by simpa using nda)
  simp only [List.nil_append] at hspec
  have hv1 : ∀ z ∈ (UOG.phase1 vb va ([], va)).2, z ∈ vb := by
    rw [hspec]; intro z hz; simpa using (List.mem_filter.mp hz).2
  -- between the passes
  have huo : ∀ hf, uoGet (resetPhase st1).uo s (klForest s va) hf =
      ⟨s, (UOG.phase1 vb va ([], va)).2.map (ctag va vb), 0⟩ := by
    intro hf
    cases va with
    | nil =>
      simp only [klForest, List.map_nil, List.zipIdx_nil, List.foldl_nil] at e1
      subst e1
      cases hf <;> simp [resetPhase, uoGet, uoFind, UOG.phase1, instIdxs, klForest]
    | cons a t =>
      have := uoFind_map_pos st1.uo s _ (u1' (by simp))
      exact uoGet_of_find this _ _
  -- second pass
  obtain ⟨st2, e2, o2, pt2⟩ := phase2_fold C va vb nda ndb hq vb [] (resetPhase st1) (UOG.phase1 vb va ([], va)).2 0
    (UOG.phase1 vb va ([], va)).1 (by simp) hv1 huo o1
    (by intro n hn; exact ⟨(out1 n hn).1, Or.inl (out1 n hn).2⟩) pt1
  simp only [List.length_nil] at e2
  rw [e2]
  refine ⟨st2.out, by simp [pt2], ?_⟩
  exact o2

end LyModel.Diff.UOB.MK
