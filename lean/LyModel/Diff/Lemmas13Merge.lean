import LyModel.Diff.Lemmas13Top
/-!
# C13 helper lemmas: the cells of the merge table for leaves and leaf-list instances

`termEff S inh d e` — what `lyd_diff_apply_r` makes of the instance `e` at the place of the term diff node `d`
(`apply_term_eff` ties it to `applyNode` on a good sibling list).  `merge_cell_term` compares, cell by cell, the node
`mergeCell` produces (dropped when `isRedundant`) with the composition of the two applications.
-/
set_option linter.unusedSimpArgs false
namespace LyModel.Diff
open LyModel LyModel.Tree

/-- the effect of a leaf / leaf-list diff node on the instance at its place; outer `none`: apply fails -/
def termEff (S : Schema) (inh : Option Op) (d : DNode) (e : Option DNode) : Option (Option DNode) :=
  match effOp d inh, e with
  | some .create, none => some (some (mkCreated d))
  | some .delete, some _ => some none
  | some .replace, some x =>
    if !S.isKind d.sid .leaf || (x.val == d.val && !x.flags.dflt) then none
    else some (some ((x.setVal d.val).setFlags d.flags))
  | some .none, some x => some (some (x.setDflt d.flags.dflt))
  | _, _ => none

/-- `termEff` is what `applyNode` does, and nothing else changes -/
theorem apply_term_eff {S : Schema} {fx : Fixes} (K : KeyOrder S) {L : List DNode} {d : DNode} {n : Nat} {hp : Bool} {inh : Option Op}
    {e' : Option DNode} (hgL : goodT S L = true) (hd : Dom S d) (hdt : d.isTerm = true) (hdk : S.isKey d.sid = false)
    (hkb : KeysBelow S d L) (hn : 0 < n) (h : termEff S inh d (look S L d) = some e') :
    ∃ L', applyNode S fx n L hp inh d = .ok L' ∧ goodT S L' = true ∧ keysOf S L' = keysOf S L ∧ Local S d L L' ∧
      look S L' d = e' := by
  obtain ⟨k, rfl⟩ : ∃ k, n = k + 1 := ⟨n - 1, by omega⟩
  unfold termEff at h
  have hSt : S.isTerm d.sid = true := by rw [← hd.typed]; exact hdt
  have hgd : goodN S d = true := goodN_iff.mpr ⟨hd, by rw [kids_term hdt]; exact goodT_nil S⟩
  cases hop : effOp d inh with
  | none => simp [hop] at h
  | some op =>
    cases hl : look S L d with
    | none =>
      cases op with
      | delete => simp [hop, hl] at h
      | replace => simp [hop, hl] at h
      | none => simp [hop, hl] at h
      | create =>
        simp only [hop, hl, Option.some.injEq] at h
        subst h
        have hmk : ∀ x, matchP S (mkCreated d) x = matchP S d x := fun x =>
          matchP_congr_norm (by simpa using hd.ndi) (normN_mkCreated d) rfl
        have hmk' : matchP S d (mkCreated d) = true := by
          rw [matchP_congr_norm hd.ndi rfl (normN_mkCreated d)]
          exact matchP_refl K hd
        obtain ⟨h1, hkk, h2, h3⟩ := fwd_insert K hgL hd hdk hkb hl (by rw [goodN_mkCreated]; exact hgd) (by simp) hmk hmk'
        exact ⟨_, apply_create_node K (by rw [height_term hdt]; omega) hop (by rw [kids_term hdt]; rfl) hgd, h1, hkk, h2, h3⟩
    | some x =>
      have hxm := look_mem hl
      have hxd : Dom S x := goodL_allDom K (goodT_goodL hgL) x hxm.1
      have hxt : x.isTerm = true := by rw [hxd.typed, matchP_sid hxm.2]; exact hSt
      cases op with
      | create => simp [hop, hl] at h
      | delete =>
        simp only [hop, hl, Option.some.injEq] at h
        subst h
        obtain ⟨i, hi, _, hg', hkL, hloc, hnone⟩ := fwd_erase K hgL hd hdk hl
        refine ⟨L.eraseIdx i, ?_, hg', hkL, hloc, hnone⟩
        rw [applyNode_succ_nuo hd.nuo, hop]
        simp only [hi]
      | replace =>
        simp only [hop, hl] at h
        split at h
        · exact absurd h (by simp)
        · rename_i hc
          simp only [Bool.or_eq_true, Bool.not_eq_eq_eq_not, Bool.not_true, Bool.and_eq_true, not_or] at hc
          simp only [Option.some.injEq] at h
          subst h
          have hleaf : S.isKind d.sid .leaf = true := by
            cases hk : S.isKind d.sid .leaf
            · exact absurd hk hc.1
            · rfl
          -- the check of lyd_change_term
          have hchk : (x.val == d.val && !x.flags.dflt) = false := by
            cases hh : (x.val == d.val && !x.flags.dflt)
            · rfl
            · simp only [Bool.and_eq_true, Bool.not_eq_eq_eq_not, Bool.not_true] at hh
              exact absurd hh hc.2
          have hgy : goodN S x = true := ((goodL_iff K).mp (goodT_goodL hgL)).2 x hxm.1
          have hg1 : goodN S ((x.setVal d.val).setFlags d.flags) = true := by
            rw [goodN_iff]
            refine ⟨⟨by simpa using hxd.nuo, by simpa using hxd.ndi, by simpa using hxd.typed⟩, ?_⟩
            simpa using goodN_kidsT hgy
          have hsame : matchP S x ((x.setVal d.val).setFlags d.flags) = true :=
            matchP_leaf (by rw [matchP_sid hxm.2]; exact hleaf) (by simp)
          obtain ⟨i, hi, hix, hg', hkk, hloc, hl'⟩ := fwd_set K hgL hd hdk hl hg1 hsame
          refine ⟨_, ?_, hg', hkk, hloc, hl'⟩
          rw [applyNode_succ_nuo hd.nuo, hop]
          simp only [hleaf, Bool.not_true, Bool.false_eq_true, ↓reduceIte, hi, hix, hchk]
      | none =>
        simp only [hop, hl, Option.some.injEq] at h
        subst h
        exact apply_none_term (k := k) (hp := hp) (inh := inh) K hgL hd hdk hl (fun _ => rfl) rfl hop hxt

end LyModel.Diff

namespace LyModel.Diff
open LyModel LyModel.Tree

/-! ## the cells, for a leaf, on the diff nodes as `lyd_diff_add` writes them -/

/-- position in `enum lyd_diff_op` -/
def opCode : Op → Nat
  | .create => 0 | .delete => 1 | .replace => 2 | .none => 3

theorem op_beq (a b : Op) : (a == b) = decide (a = b) := by cases a <;> cases b <;> rfl
theorem ofBytes_create : Op.ofBytes (bs "create") = some .create := by decide +kernel
theorem ofBytes_delete : Op.ofBytes (bs "delete") = some .delete := by decide +kernel
theorem ofBytes_replace : Op.ofBytes (bs "replace") = some .replace := by decide +kernel
theorem ofBytes_none : Op.ofBytes (bs "none") = some .none := by decide +kernel

/-- the diff nodes of a leaf: metadata in the order `lyd_diff_add` creates it -/
def nCreate (s : Nat) (f : Flags) (v : Bytes) : DNode := .term s f [("operation", bs "create")] v
def nDelete (s : Nat) (f : Flags) (v : Bytes) : DNode := .term s f [("operation", bs "delete")] v
def nReplace (s : Nat) (f : Flags) (v : Bytes) (od : Bool) (ov : Bytes) : DNode :=
  .term s f [("operation", bs "replace"), ("orig-default", boolBytes od), ("orig-value", ov)] v
def nNone (s : Nat) (f : Flags) (v : Bytes) (od : Bool) : DNode :=
  .term s f [("operation", bs "none"), ("orig-default", boolBytes od)] v

theorem isUserOrd_of_leaf {S : Schema} {s : Nat} (h : S.isKind s .leaf = true) : S.isUserOrd s = false := by
  have := isKind_iff.mp h
  unfold Schema.kind? at this
  unfold Schema.isUserOrd
  cases hg : S.get? s with
  | none => rfl
  | some n =>
    simp only [hg, Option.map_some, Option.some.injEq] at this
    simp [this, skind_beq]

theorem isDupInst_of_leaf {S : Schema} {s : Nat} (h : S.isKind s .leaf = true) : S.isDupInst s = false := by
  have := isKind_iff.mp h
  unfold Schema.kind? at this
  unfold Schema.isDupInst
  cases hg : S.get? s with
  | none => rfl
  | some n =>
    simp only [hg, Option.map_some, Option.some.injEq] at this
    simp [this, skind_beq]

/-- the result of a cell — dropped when `lyd_diff_is_redundant` — as an effect on the instance `e` (up to `normN`) -/
def cellEff (S : Schema) (o : MergeOpts) (sop : Op) (t : DNode) (cop : Op) (src : DNode) (e : Option DNode) :
    Option (Option DNode) :=
  match mergeCell S o sop t cop src with
  | .error _ => none
  | .ok (m, _) =>
    let r := isRedundant S none m
    if r.2 then some (e.map normN) else (termEff S none r.1 e).map (·.map normN)

/-- the two applications one after the other (up to `normN`) -/
def seqEff (S : Schema) (t src : DNode) (e : Option DNode) : Option (Option DNode) :=
  ((termEff S none t e).bind (termEff S none src)).map (·.map normN)

macro "cell_simp" h1:ident h2:ident h3:ident h4:ident "[" extra:Lean.Parser.Tactic.simpLemma,* "]" : tactic =>
  `(tactic| simp [$extra,*, cellEff, seqEff, mergeCell, mergeDelete, mergeCreate, mergeReplace, mergeNone, sameInst, nCreate, nDelete,
    nReplace, nNone, $h1:ident, $h2:ident, $h3:ident, $h4:ident, Except.map, changeOp, changeTerm, eraseMeta, addMeta,
    DNode.setMetas, DNode.setKids, DNode.setVal, DNode.setFlags, DNode.setDflt, DNode.kids, keysOf, noKeys, isRedundant, effOp,
    ownOp, getMeta, DNode.metas, ofBytes_create, ofBytes_delete, ofBytes_none, ofBytes_replace, Op.str, termEff, DNode.sid,
    DNode.val, DNode.flags, DNode.isTerm, boolBytes_eq_true, boolBytes_eq_false, mkCreated, op_beq, normN, metaEq])


end LyModel.Diff

namespace LyModel.Diff
open LyModel LyModel.Tree

/-- the node a cell leaves in the merged diff is dropped -/
def cellDropped (S : Schema) (o : MergeOpts) (sop : Op) (t : DNode) (cop : Op) (src : DNode) : Bool :=
  match mergeCell S o sop t cop src with
  | .error _ => false
  | .ok (m, _) => (isRedundant S none m).2


end LyModel.Diff
