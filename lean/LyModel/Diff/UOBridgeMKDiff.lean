import LyModel.Diff.UOBridgeMK
/-!
# Bridge (C06) — multi-key user-ordered lists, part 1: instances, comparison, `lyd_diff_userord_attrs`

Stage 2a (`UOBridgeKL*.lean`) for a list with ANY number `nk ≥ 1` of keys (schema nodes `s+1 … s+nk`), key-only instances.
The identity of an instance is the list of its key values, of length `nk` (`KeyN nk`).  Same structure as the single-key part.
Core Lean only.
-/
namespace LyModel.Diff.UOB.MK
open LyModel LyModel.Tree LyModel.Diff LyModel.Diff.UOB LyModel.Diff.UOB.KL
set_option linter.unusedSimpArgs false
set_option linter.unusedVariables false

/-- the identity of an instance: its `nk` key values -/
abbrev KeyN (nk : Nat) := { kv : List Bytes // kv.length = nk }

/-- schema facts: `s` is a user-ordered list whose keys are the leaves `s+1 … s+nk` -/
structure MKCtx (S : Schema) (s nk : Nat) : Prop where
  kind : S.kind? s = some .list
  uo : S.isUserOrd s = true
  nkeys_eq : S.nkeys s = nk
  pos : 0 < nk
  key : ∀ i, i < nk → S.isKey (s + 1 + i) = true
  keyNoUO : ∀ i, i < nk → S.isUserOrd (s + 1 + i) = false
  nd : S.isDupInst s = false
  nameOk : ∀ i, i < nk → 61 ∉ bs (S.name (s + 1 + i))

theorem MKCtx.l {S : Schema} {s nk : Nat} (C : MKCtx S s nk) : S.isKind s .list = true := by
  simp [Schema.isKind, C.kind]
theorem MKCtx.nll {S : Schema} {s nk : Nat} (C : MKCtx S s nk) : S.isKind s .leaflist = false := by
  simp [Schema.isKind, C.kind]

/-- key leaves with flags `kf`, schema nodes `j, j+1, …` -/
def keyLeavesF (kf : Flags) : Nat → List Bytes → List DNode
  | _, [] => []
  | j, v :: vs => .term j kf [] v :: keyLeavesF kf (j + 1) vs

/-- an instance as `lyd_new_list` builds it: the key leaves only, no flags, no metadata -/
def klNode {nk : Nat} (s : Nat) (k : KeyN nk) : DNode := .inner s {} [] (keyLeavesF {} (s + 1) k.1)
def klForest {nk : Nat} (s : Nat) (ks : List (KeyN nk)) : List DNode := ks.map (klNode s)

/-- the key values of an instance -/
def keyOf (n : DNode) : List Bytes := n.kids.map (·.val)

/-- the shape of every instance that occurs (data tree or diff) -/
def IsKL (s nk : Nat) (n : DNode) : Prop := ∃ f m kf, ∃ k : KeyN nk, n = .inner s f m (keyLeavesF kf (s + 1) k.1)

theorem keyLeaves_val (kf : Flags) : ∀ (j : Nat) (kv : List Bytes), (keyLeavesF kf j kv).map (·.val) = kv
  | _, [] => rfl
  | j, v :: vs => by
    show v :: (keyLeavesF kf (j + 1) vs).map (·.val) = v :: vs
    rw [keyLeaves_val kf (j + 1) vs]

@[simp] theorem klNode_sid {nk : Nat} (s : Nat) (v : KeyN nk) : (klNode s v).sid = s := rfl
@[simp] theorem klNode_key {nk : Nat} (s : Nat) (v : KeyN nk) : keyOf (klNode s v) = v.1 := keyLeaves_val _ _ _
@[simp] theorem klNode_flags {nk : Nat} (s : Nat) (v : KeyN nk) : (klNode s v).flags = {} := rfl
@[simp] theorem klNode_kids {nk : Nat} (s : Nat) (v : KeyN nk) : (klNode s v).kids = keyLeavesF {} (s + 1) v.1 := rfl
@[simp] theorem klNode_metas {nk : Nat} (s : Nat) (v : KeyN nk) : (klNode s v).metas = [] := rfl
theorem isKL_klNode {nk : Nat} (s : Nat) (v : KeyN nk) : IsKL s nk (klNode s v) := ⟨{}, [], {}, v, rfl⟩
theorem IsKL.sid {s nk : Nat} {n : DNode} (h : IsKL s nk n) : n.sid = s := by
  obtain ⟨f, m, kf, k, e⟩ := h; rw [e]; rfl

/-- the key leaves of schema nodes inside the key range are all keys, none is user-ordered -/
theorem keyLeaves_all {S : Schema} {s nk : Nat} (C : MKCtx S s nk) (kf : Flags) : ∀ (kv : List Bytes) (i : Nat),
    i + kv.length ≤ nk → ∀ c ∈ keyLeavesF kf (s + 1 + i) kv, S.isKey c.sid = true ∧ S.isUserOrd c.sid = false ∧
      61 ∉ bs (S.name c.sid)
  | [], _, _ => by intro c hc; simp [keyLeavesF] at hc
  | v :: vs, i, h => by
    intro c hc
    simp only [keyLeavesF, List.mem_cons] at hc
    simp only [List.length_cons] at h
    rcases hc with rfl | hc
    · exact ⟨C.key i (by omega), C.keyNoUO i (by omega), C.nameOk i (by omega)⟩
    · exact keyLeaves_all C kf vs (i + 1) (by omega) c (by simpa [Nat.add_assoc] using hc)

theorem keyLeaves_all0 {S : Schema} {s nk : Nat} (C : MKCtx S s nk) (kf : Flags) (k : KeyN nk) :
    ∀ c ∈ keyLeavesF kf (s + 1) k.1, S.isKey c.sid = true ∧ S.isUserOrd c.sid = false ∧ 61 ∉ bs (S.name c.sid) :=
  keyLeaves_all C kf k.1 0 (by simp [k.2])

theorem takeWhile_all {α : Type} (p : α → Bool) : ∀ (l : List α), (∀ x ∈ l, p x = true) → l.takeWhile p = l ∧ l.dropWhile p = []
  | [], _ => ⟨rfl, rfl⟩
  | x :: xs, h => by
    have := takeWhile_all p xs (fun y hy => h y (by simp [hy]))
    simp [List.takeWhile, List.dropWhile, h x (by simp), this.1, this.2]

theorem keysOf_all {S : Schema} {s nk : Nat} (C : MKCtx S s nk) (kf : Flags) (k : KeyN nk) :
    keysOf S (keyLeavesF kf (s + 1) k.1) = keyLeavesF kf (s + 1) k.1 :=
  (takeWhile_all _ _ (fun c hc => (keyLeaves_all0 C kf k c hc).1)).1

theorem noKeys_all {S : Schema} {s nk : Nat} (C : MKCtx S s nk) (kf : Flags) (k : KeyN nk) :
    noKeys S (keyLeavesF kf (s + 1) k.1) = [] :=
  (takeWhile_all _ _ (fun c hc => (keyLeaves_all0 C kf k c hc).1)).2

theorem keysEq_leaves (kf kf' : Flags) : ∀ (j : Nat) (a b : List Bytes),
    keysEq (keyLeavesF kf j a) (keyLeavesF kf' j b) = decide (a = b)
  | _, [], [] => by simp [keyLeavesF, keysEq]
  | _, [], _ :: _ => by simp [keyLeavesF, keysEq]
  | _, _ :: _, [] => by simp [keyLeavesF, keysEq]
  | j, x :: xs, y :: ys => by
    simp only [keyLeavesF, keysEq, DNode.sid, DNode.val, beq_self_eq_true, Bool.true_and, keysEq_leaves kf kf' (j + 1) xs ys,
      List.cons.injEq, Bool.beq_eq_decide_eq]
    by_cases h1 : x = y <;> by_cases h2 : xs = ys <;> simp [h1, h2]

theorem sameInst_kl {S : Schema} {s nk : Nat} (C : MKCtx S s nk) (x y : DNode) (hx : IsKL s nk x) (hy : IsKL s nk y) :
    sameInst S x y = decide (keyOf x = keyOf y) := by
  obtain ⟨f, m, kf, k, rfl⟩ := hx
  obtain ⟨f', m', kf', k', rfl⟩ := hy
  have hnk : (S.nkeys s == 0) = false := by rw [C.nkeys_eq]; have := C.pos; simp; omega
  simp only [sameInst, DNode.sid, beq_self_eq_true, Bool.true_and, C.kind, hnk, Bool.false_eq_true, if_false, DNode.kids,
    keysOf_all C, keysEq_leaves, keyOf, keyLeaves_val]

theorem keyN_ext {nk : Nat} {a b : KeyN nk} : a.1 = b.1 ↔ a = b := ⟨Subtype.ext, fun h => h ▸ rfl⟩

/-- inside the bridge `==` on identities is the one derived from decidable equality -/
local instance (priority := high) keyBEq {nk : Nat} : BEq (KeyN nk) := instBEqOfDecidableEq

theorem sameInst_klNode {S : Schema} {s nk : Nat} (C : MKCtx S s nk) (x y : KeyN nk) :
    sameInst S (klNode s x) (klNode s y) = decide (x = y) := by
  rw [sameInst_kl C _ _ (isKL_klNode s x) (isKL_klNode s y), klNode_key, klNode_key]
  exact decide_eq_decide.mpr keyN_ext


/-! ### tags (as in `UOBridgeLLDiff.lean`, for identities of type `KeyN nk`) -/

theorem ctag_first {nk : Nat} (va vb : List (KeyN nk)) (nda : va.Nodup) {i : Nat} {x : KeyN nk} (hi : va[i]? = some x) :
    ctag va vb x = (false, i) := by
  have hx : x ∈ va := List.mem_of_getElem? hi
  simp [ctag, hx, idxOf_of_getElem? nda hi]

theorem ctag_second {nk : Nat} (va vb : List (KeyN nk)) (ndb : vb.Nodup) {j : Nat} {y : KeyN nk} (hj : vb[j]? = some y)
    (hy : y ∉ va) : ctag va vb y = (true, j) := by
  simp [ctag, hy, idxOf_of_getElem? ndb hj]

theorem idxOfTag_ctag {nk : Nat} (va vb v : List (KeyN nk)) (x : KeyN nk) (hv : ∀ y ∈ v, y ∈ va ∨ y ∈ vb) (hx : x ∈ va ∨ x ∈ vb) :
    idxOfTag (v.map (ctag va vb)) (ctag va vb x) = v.idxOf x :=
  idxOfTag_map _ v x (fun y hy h => ctag_inj va vb (hv y hy) hx h)

/-- the anchor of the core: the instance placed just before position `p` of the virtual list -/
def anchorAt {nk : Nat} (v : List (KeyN nk)) (p : Nat) : Option (KeyN nk) := if p = 0 then none else v[p - 1]?

theorem tagNode_ctag {nk : Nat} (s : Nat) (va vb : List (KeyN nk)) (y : KeyN nk) (hy : y ∈ va ∨ y ∈ vb) :
    tagNode (klForest s va) (klForest s vb) (ctag va vb y) = some (klNode s y) := by
  unfold ctag tagNode klForest
  by_cases h : y ∈ va
  · simp [h, List.getElem?_map, idxOf_getElem?_of_mem h]
  · simp [h, List.getElem?_map, idxOf_getElem?_of_mem (hy.resolve_left h)]

theorem inst_get {nk : Nat} (s : Nat) (va vb v : List (KeyN nk)) (hv : ∀ y ∈ v, y ∈ va ∨ y ∈ vb) (q : Nat) :
    ((v.map (ctag va vb))[q]?).bind (tagNode (klForest s va) (klForest s vb)) = v[q]?.map (klNode s) := by
  rw [List.getElem?_map]
  cases h : v[q]? with
  | none => rfl
  | some y => simp [tagNode_ctag s va vb y (hv y (List.mem_of_getElem? h))]

/-- `lyd_path_list_predicate` of the instance with key `k`: `[name='k']` -/
def pred {nk : Nat} (S : Schema) (s : Nat) (k : KeyN nk) : Bytes := keyPredicate S (klNode s k)

/-- the anchor string: the predicate of the instance placed just before position `p` (empty = first) -/
def anchorStr {nk : Nat} (S : Schema) (s : Nat) (a : Option (KeyN nk)) : Bytes := (a.map (pred S s)).getD []

theorem klForest_get {nk : Nat} (s : Nat) (vs : List (KeyN nk)) (i : Nat) : (klForest s vs)[i]? = vs[i]?.map (klNode s) := by
  simp [klForest]

/-- first pass: an instance of the first tree without a match is deleted -/
theorem attrs_delete {S : Schema} {s nk : Nat} (C : MKCtx S s nk) (va vb v : List (KeyN nk)) (p i : Nat) (x : KeyN nk)
    (hv : ∀ y ∈ v, y ∈ va ∨ y ∈ vb) (nda : va.Nodup) (hi : va[i]? = some x) :
    ∃ ov, userordAttrs S true (klForest s va) (klForest s vb) ⟨s, v.map (ctag va vb), p⟩ (some i) none =
      (some { op := .delete, origKey := some ov }, ⟨s, (v.erase x).map (ctag va vb), p + 1⟩) := by
  have hx : x ∈ va := List.mem_of_getElem? hi
  have ht := ctag_first va vb nda hi
  have hidx := idxOfTag_ctag va vb v x hv (Or.inl hx)
  rw [ht] at hidx
  simp only [userordAttrs, Option.bind_none, Option.bind_some, C.nd, C.l, C.nll, hidx, map_eraseIdx, eraseIdx_idxOf]
  simp

/-- second pass: an instance of the second tree without a match is created behind the instance placed before it -/
theorem attrs_create {S : Schema} {s nk : Nat} (C : MKCtx S s nk) (va vb v : List (KeyN nk)) (p j : Nat) (y : KeyN nk)
    (hv : ∀ z ∈ v, z ∈ va ∨ z ∈ vb) (ndb : vb.Nodup) (hj : vb[j]? = some y) (hy : y ∉ va) :
    userordAttrs S true (klForest s va) (klForest s vb) ⟨s, v.map (ctag va vb), p⟩ none (some j) =
      (some { op := .create, key := some (anchorStr S s (anchorAt v p)) },
       ⟨s, (UOG.insertAt v p y).map (ctag va vb), p + 1⟩) := by
  have ht := ctag_second va vb ndb hj hy
  simp only [userordAttrs, Option.bind_none, Option.bind_some, C.nd, C.l, C.nll, klForest_get, hj, Option.map_some,
    inst_get s va vb v hv, Option.getD_some, ← ht, insertAt_map]
  unfold anchorAt anchorStr
  by_cases hp : p = 0
  · simp [hp]
  · cases hq : v[p - 1]? <;> simp [hp, hq, pred]

/-- second pass: a matched instance that already is at its place: no operation -/
theorem attrs_keep {S : Schema} {s nk : Nat} (C : MKCtx S s nk) (va vb v : List (KeyN nk)) (p i j : Nat) (y : KeyN nk)
    (hv : ∀ z ∈ v, z ∈ va ∨ z ∈ vb) (hi : va[i]? = some y) (hj : vb[j]? = some y) (hp : v[p]? = some y) :
    userordAttrs S true (klForest s va) (klForest s vb) ⟨s, v.map (ctag va vb), p⟩ (some i) (some j) =
      (none, ⟨s, v.map (ctag va vb), p + 1⟩) := by
  simp only [userordAttrs, Option.bind_none, Option.bind_some, C.nd, C.l, C.nll, klForest_get, hi, hj, Option.map_some,
    inst_get s va vb v hv, hp, sameInst_klNode C]
  simp

/-- second pass: a matched instance that is not at its place is moved behind the instance placed before it -/
theorem attrs_move {S : Schema} {s nk : Nat} (C : MKCtx S s nk) (va vb v : List (KeyN nk)) (p i j : Nat) (y : KeyN nk)
    (hv : ∀ z ∈ v, z ∈ va ∨ z ∈ vb) (nda : va.Nodup) (hi : va[i]? = some y) (hj : vb[j]? = some y)
    (hp : v[p]? ≠ some y) :
    ∃ ov, userordAttrs S true (klForest s va) (klForest s vb) ⟨s, v.map (ctag va vb), p⟩ (some i) (some j) =
      (some { op := .replace, origKey := some ov, key := some (anchorStr S s (anchorAt v p)) },
       ⟨s, (UOG.insertAt (v.erase y) p y).map (ctag va vb), p + 1⟩) := by
  have hx : y ∈ va := List.mem_of_getElem? hi
  have ht := ctag_first va vb nda hi
  have hidx := idxOfTag_ctag va vb v y hv (Or.inl hx)
  rw [ht] at hidx
  refine ⟨if v.idxOf y = 0 then [] else ((v[v.idxOf y - 1]?).map (fun z => keyPredicate S (klNode s z))).getD [], ?_⟩
  simp only [userordAttrs, Option.bind_none, Option.bind_some, C.nd, C.l, C.nll, klForest_get, hi, hj, Option.map_some,
    inst_get s va vb v hv, hidx, map_eraseIdx, eraseIdx_idxOf, Option.getD_some]
  simp only [← ht, insertAt_map]
  have hne : ∀ z, v[p]? = some z → ¬ (y = z) := by
    intro z hq e; apply hp; rw [hq, e]
  have hanch : (if p = 0 then [] else ((v[p - 1]?).map (fun z => keyPredicate S (klNode s z))).getD []) =
      anchorStr S s (anchorAt v p) := by
    unfold anchorAt anchorStr
    by_cases hp0 : p = 0
    · simp [hp0]
    · cases hq : v[p - 1]? <;> simp [hp0, hq, pred]
  have hcomp : (keyPredicate S ∘ klNode (nk := nk) s) = (fun z => keyPredicate S (klNode s z)) := rfl
  cases hq0 : v[p]? with
  | none => simp [← hanch, hcomp]
  | some z => simp [sameInst_klNode C, hne z hq0, ← hanch, hcomp]

/-! ## `lyd_diff_find_match` among the instances -/

theorem matchPred_kl {S : Schema} {s nk : Nat} (C : MKCtx S s nk) (x z : KeyN nk) (used : List Nat) (i : Nat) :
    matchPred S (klNode s x) used (klNode s z) i = decide (z = x) := by
  simp [matchPred, C.l, C.nd, instMatch, sameInst_klNode C]

theorem findIdxFrom_kl {S : Schema} {s nk : Nat} (C : MKCtx S s nk) (x : KeyN nk) (used : List Nat) :
    ∀ (vs : List (KeyN nk)) (k : Nat), findIdxFrom (matchPred S (klNode s x) used) (klForest s vs) k =
      if x ∈ vs then some (vs.idxOf x + k) else none
  | [], k => by simp [klForest, findIdxFrom]
  | z :: zs, k => by
    have ih := findIdxFrom_kl C x used zs (k + 1)
    unfold klForest at ih ⊢
    by_cases e : z = x
    · subst e; simp [findIdxFrom, matchPred_kl C, List.idxOf_cons]
    · have e' : (z == x) = false := by simpa using e
      have e2 : ¬ x = z := fun h => e h.symm
      simp only [List.map_cons, findIdxFrom, matchPred_kl C, e, decide_false, Bool.false_eq_true, if_false, ih,
        List.mem_cons, e2, false_or, List.idxOf_cons, e', cond_false]
      split <;> simp <;> omega

theorem findMatch_kl_some {S : Schema} {s nk : Nat} (C : MKCtx S s nk) (vs : List (KeyN nk)) (x : KeyN nk) (used : List Nat)
    (hx : x ∈ vs) : findMatch S (klForest s vs) (klNode s x) true used = (some (vs.idxOf x), used) := by
  simp [findMatch, findIdxFrom_kl C, hx, C.nd, klForest_get, idxOf_getElem?_of_mem hx]

theorem findMatch_kl_none {S : Schema} {s nk : Nat} (C : MKCtx S s nk) (vs : List (KeyN nk)) (x : KeyN nk) (used : List Nat)
    (hx : x ∉ vs) : findMatch S (klForest s vs) (klNode s x) true used = (none, used) := by
  simp [findMatch, findIdxFrom_kl C, hx]

end LyModel.Diff.UOB.MK
