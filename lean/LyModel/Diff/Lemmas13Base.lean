import LyModel.Diff.Obs13
import LyModel.Diff.Lemmas13List
/-!
# C13 helper lemmas: metadata, operations, and the sibling order as a keyed sorted list

* metadata bookkeeping (`getMeta`, `eraseMeta`, `changeOp`, `setMetaVal`) under `MetaOK` (annotation names are distinct);
* `nlt S` — the order `lyd_insert_node` maintains among siblings that are not user-ordered — and `sameId S` — the instance a
  diff node addresses (`lyd_diff_find_match`); `insertNode = KL.insBefore`, `findForApply = List.findIdx?`;
* `KeyOrder S`: the hypothesis that the type plugins' `sort` callbacks (`Tree.cmpInst`) order the instances of a
  system-ordered list / leaf-list strictly and totally, consistently with instance equality (the subject of the sibling-order
  property, not of C13); with it `nlt`/`sameId` form a `KL.Ord` on the carrier `Dom S`.
-/
set_option linter.unusedSimpArgs false
namespace LyModel.Diff
open LyModel LyModel.Tree

/-! ## operations as byte strings -/

theorem ofBytes_str (op : Op) : Op.ofBytes (bs op.str) = some op := by
  cases op <;> decide +kernel

theorem boolBytes_eq_true (b : Bool) : (boolBytes b == bs "true") = b := by
  cases b <;> decide +kernel

theorem boolBytes_eq_false (b : Bool) : (boolBytes b == bs "false") = !b := by
  cases b <;> decide +kernel

/-! ## metadata -/

/-- the names of the metadata instances of a node are distinct -/
def MetaOK (n : DNode) : Prop := (n.metas.map (·.1)).Nodup

@[simp] theorem metas_setMetas (n : DNode) (m : List Meta) : (n.setMetas m).metas = m := by cases n <;> rfl
@[simp] theorem sid_setMetas (n : DNode) (m : List Meta) : (n.setMetas m).sid = n.sid := by cases n <;> rfl
@[simp] theorem val_setMetas (n : DNode) (m : List Meta) : (n.setMetas m).val = n.val := by cases n <;> rfl
@[simp] theorem flags_setMetas (n : DNode) (m : List Meta) : (n.setMetas m).flags = n.flags := by cases n <;> rfl
@[simp] theorem kids_setMetas (n : DNode) (m : List Meta) : (n.setMetas m).kids = n.kids := by cases n <;> rfl
@[simp] theorem isTerm_setMetas (n : DNode) (m : List Meta) : (n.setMetas m).isTerm = n.isTerm := by cases n <;> rfl
@[simp] theorem metas_setFlags (n : DNode) (f : Flags) : (n.setFlags f).metas = n.metas := by cases n <;> rfl
@[simp] theorem sid_setFlags (n : DNode) (f : Flags) : (n.setFlags f).sid = n.sid := by cases n <;> rfl
@[simp] theorem val_setFlags (n : DNode) (f : Flags) : (n.setFlags f).val = n.val := by cases n <;> rfl
@[simp] theorem flags_setFlags (n : DNode) (f : Flags) : (n.setFlags f).flags = f := by cases n <;> rfl
@[simp] theorem kids_setFlags (n : DNode) (f : Flags) : (n.setFlags f).kids = n.kids := by cases n <;> rfl
@[simp] theorem isTerm_setFlags (n : DNode) (f : Flags) : (n.setFlags f).isTerm = n.isTerm := by cases n <;> rfl
@[simp] theorem metas_setKids (n : DNode) (k : List DNode) : (n.setKids k).metas = n.metas := by cases n <;> rfl
@[simp] theorem sid_setKids (n : DNode) (k : List DNode) : (n.setKids k).sid = n.sid := by cases n <;> rfl
@[simp] theorem flags_setKids (n : DNode) (k : List DNode) : (n.setKids k).flags = n.flags := by cases n <;> rfl
@[simp] theorem isTerm_setKids (n : DNode) (k : List DNode) : (n.setKids k).isTerm = n.isTerm := by cases n <;> rfl
@[simp] theorem metas_setVal (n : DNode) (v : Bytes) : (n.setVal v).metas = n.metas := by cases n <;> rfl
@[simp] theorem sid_setVal (n : DNode) (v : Bytes) : (n.setVal v).sid = n.sid := by cases n <;> rfl
@[simp] theorem flags_setVal (n : DNode) (v : Bytes) : (n.setVal v).flags = n.flags := by cases n <;> rfl
@[simp] theorem kids_setVal (n : DNode) (v : Bytes) : (n.setVal v).kids = n.kids := by cases n <;> rfl
@[simp] theorem isTerm_setVal (n : DNode) (v : Bytes) : (n.setVal v).isTerm = n.isTerm := by cases n <;> rfl
@[simp] theorem sid_setDflt (n : DNode) (b : Bool) : (n.setDflt b).sid = n.sid := by simp [DNode.setDflt]
@[simp] theorem val_setDflt (n : DNode) (b : Bool) : (n.setDflt b).val = n.val := by simp [DNode.setDflt]
@[simp] theorem kids_setDflt (n : DNode) (b : Bool) : (n.setDflt b).kids = n.kids := by simp [DNode.setDflt]
@[simp] theorem metas_setDflt (n : DNode) (b : Bool) : (n.setDflt b).metas = n.metas := by simp [DNode.setDflt]
@[simp] theorem isTerm_setDflt (n : DNode) (b : Bool) : (n.setDflt b).isTerm = n.isTerm := by simp [DNode.setDflt]
@[simp] theorem dflt_setDflt (n : DNode) (b : Bool) : (n.setDflt b).flags.dflt = b := by simp [DNode.setDflt]

theorem val_setVal_term {n : DNode} (h : n.isTerm = true) (v : Bytes) : (n.setVal v).val = v := by
  cases n <;> simp_all [DNode.isTerm, DNode.setVal, DNode.val]

theorem kids_setKids_inner {n : DNode} (h : n.isTerm = false) (k : List DNode) : (n.setKids k).kids = k := by
  cases n <;> simp_all [DNode.isTerm, DNode.setKids, DNode.kids]

theorem getMeta_def (n : DNode) (name : String) : getMeta n name = (n.metas.find? (·.1 == name)).map (·.2) := rfl

theorem find?_eraseMeta_ne {name name' : String} (h : name ≠ name') (ms : List Meta) :
    (eraseMeta name ms).find? (·.1 == name') = ms.find? (·.1 == name') := by
  induction ms with
  | nil => rfl
  | cons m ms ih =>
    simp only [eraseMeta]
    split
    · rename_i hm
      have : (m.1 == name') = false := by
        have : m.1 = name := by simpa using hm
        simp [this, h]
      simp [List.find?_cons, this]
    · simp [List.find?_cons, ih]

theorem find?_eraseMeta_self {name : String} {ms : List Meta} (h : (ms.map (·.1)).Nodup) :
    (eraseMeta name ms).find? (·.1 == name) = none := by
  induction ms with
  | nil => rfl
  | cons m ms ih =>
    simp only [List.map_cons, List.nodup_cons] at h
    simp only [eraseMeta]
    split
    · rename_i hm
      have hm' : m.1 = name := by simpa using hm
      apply List.find?_eq_none.mpr
      intro x hx
      have : x.1 ∈ ms.map (·.1) := List.mem_map_of_mem hx
      intro hxn
      have : x.1 = name := by simpa using hxn
      rw [← hm'] at this
      exact h.1 (this ▸ ‹x.1 ∈ _›)
    · rename_i hm
      simp [List.find?_cons, hm, ih h.2]

theorem eraseMeta_names_sub {name : String} {ms : List Meta} {x : String} (hx : x ∈ (eraseMeta name ms).map (·.1)) :
    x ∈ ms.map (·.1) := by
  induction ms with
  | nil => simp [eraseMeta] at hx
  | cons m ms ih =>
    simp only [eraseMeta] at hx
    split at hx
    · exact List.mem_cons_of_mem _ hx
    · simp only [List.map_cons, List.mem_cons] at hx ⊢
      rcases hx with h | h
      · exact Or.inl h
      · exact Or.inr (ih h)

theorem nodup_eraseMeta {name : String} {ms : List Meta} (h : (ms.map (·.1)).Nodup) :
    ((eraseMeta name ms).map (·.1)).Nodup := by
  induction ms with
  | nil => simp [eraseMeta]
  | cons m ms ih =>
    simp only [List.map_cons, List.nodup_cons] at h
    simp only [eraseMeta]
    split
    · exact h.2
    · simp only [List.map_cons, List.nodup_cons]
      exact ⟨fun hx => h.1 (eraseMeta_names_sub hx), ih h.2⟩

theorem not_mem_eraseMeta_self {name : String} {ms : List Meta} (h : (ms.map (·.1)).Nodup) :
    name ∉ (eraseMeta name ms).map (·.1) := by
  intro hx
  obtain ⟨m, hm, hmn⟩ := List.mem_map.mp hx
  have := find?_eraseMeta_self (name := name) h
  rw [List.find?_eq_none] at this
  exact this m hm (by simp [hmn])

theorem names_setMetaVal (name : String) (v : Bytes) (ms : List Meta) :
    (setMetaVal name v ms).map (·.1) = ms.map (·.1) := by
  induction ms with
  | nil => rfl
  | cons m ms ih =>
    simp only [setMetaVal]
    split
    · rename_i hm
      have : m.1 = name := by simpa using hm
      simp [this]
    · simp [ih]

theorem find?_setMetaVal_ne {name name' : String} (h : name ≠ name') (v : Bytes) (ms : List Meta) :
    ((setMetaVal name v ms).find? (·.1 == name')).map (·.2) = (ms.find? (·.1 == name')).map (·.2) := by
  induction ms with
  | nil => rfl
  | cons m ms ih =>
    simp only [setMetaVal]
    split
    · rename_i hm
      have hm' : m.1 = name := by simpa using hm
      have h1 : (name == name') = false := by simp [h]
      have h2 : (m.1 == name') = false := by simp [hm', h]
      simp [List.find?_cons, h1, h2]
    · by_cases hm2 : (m.1 == name') = true
      · simp [List.find?_cons, hm2]
      · simp [List.find?_cons, hm2, ih]

theorem find?_setMetaVal_self {name : String} (v : Bytes) {ms : List Meta} (h : (ms.find? (·.1 == name)).isSome) :
    ((setMetaVal name v ms).find? (·.1 == name)).map (·.2) = some v := by
  induction ms with
  | nil => simp at h
  | cons m ms ih =>
    simp only [setMetaVal]
    split
    · simp [List.find?_cons]
    · rename_i hm
      have hm' : (m.1 == name) = false := by simpa using hm
      simp only [List.find?_cons, hm'] at h ⊢
      exact ih h

/-- `ownOp` after `lyd_diff_change_op` -/
theorem ownOp_changeOp {n : DNode} (h : MetaOK n) (op : Op) : ownOp (changeOp n op) = some op := by
  simp only [ownOp, changeOp, getMeta_def, metas_setMetas, List.find?_append, find?_eraseMeta_self h]
  simp [ofBytes_str]

theorem getMeta_changeOp_ne {n : DNode} {name : String} (hne : name ≠ "operation") (op : Op) :
    getMeta (changeOp n op) name = getMeta n name := by
  simp only [changeOp, getMeta_def, metas_setMetas, List.find?_append, find?_eraseMeta_ne (Ne.symm hne)]
  have : (("operation" : String) == name) = false := by simp [Ne.symm hne]
  cases hf : List.find? (fun x => x.fst == name) n.metas <;> simp [List.find?_cons, this]

theorem metaOK_changeOp {n : DNode} (h : MetaOK n) (op : Op) : MetaOK (changeOp n op) := by
  simp only [MetaOK, changeOp, metas_setMetas, List.map_append, List.map_cons, List.map_nil]
  refine List.nodup_append.mpr ⟨nodup_eraseMeta h, by simp, ?_⟩
  intro a ha b hb
  simp only [List.mem_singleton] at hb
  subst hb
  intro hab
  subst hab
  exact not_mem_eraseMeta_self h ha

@[simp] theorem sid_changeOp (n : DNode) (op : Op) : (changeOp n op).sid = n.sid := by simp [changeOp]
@[simp] theorem val_changeOp (n : DNode) (op : Op) : (changeOp n op).val = n.val := by simp [changeOp]
@[simp] theorem flags_changeOp (n : DNode) (op : Op) : (changeOp n op).flags = n.flags := by simp [changeOp]
@[simp] theorem kids_changeOp (n : DNode) (op : Op) : (changeOp n op).kids = n.kids := by simp [changeOp]
@[simp] theorem isTerm_changeOp (n : DNode) (op : Op) : (changeOp n op).isTerm = n.isTerm := by simp [changeOp]

end LyModel.Diff
