import LyModel.Diff.Lemmas13Base
import LyModel.Diff.Exact13
/-!
# C13 helper lemmas: the sibling order of the model as a `KL.Ord`

`nlt S x y` — `x` must precede `y` among siblings (schema order, then the `sort` callback for system-ordered
lists / leaf-lists); `matchP S d` — the sibling `lyd_diff_find_match` returns for the diff node `d`.
-/
set_option linter.unusedSimpArgs false
namespace LyModel.Diff
open LyModel LyModel.Tree

/-! ### `findIdxFrom`, `findForApply` -/

theorem findIdxFrom_eq13 (p : DNode → Bool) (l : List DNode) (k : Nat) :
    findIdxFrom (fun x _ => p x) l k = (l.findIdx? p).map (· + k) := by
  induction l generalizing k with
  | nil => rfl
  | cons x xs ih =>
    simp only [findIdxFrom, List.findIdx?_cons]
    split
    · simp
    · rw [ih]
      cases List.findIdx? p xs <;> simp [Nat.add_assoc, Nat.add_comm 1 k]

theorem findForApply_eq13 (S : Schema) (l : List DNode) (d : DNode) :
    findForApply S l d = l.findIdx? (matchP S d) := by
  unfold findForApply matchP isLL
  split
  · rename_i h
    rw [findIdxFrom_eq13]
    simp [h]
  · rename_i h
    rw [findIdxFrom_eq13]
    have : (S.isKind d.sid SKind.list || S.isKind d.sid SKind.leaflist) = false := by simpa using h
    simp [this]

/-! ### `insertNode` is `insBefore` -/

theorem insBefore_congr {p q : DNode → Bool} {n : DNode} {l : List DNode} (h : ∀ x ∈ l, p x = q x) :
    KL.insBefore p n l = KL.insBefore q n l := by
  induction l with
  | nil => rfl
  | cons y ys ih =>
    simp only [KL.insBefore, h y (List.mem_cons_self ..)]
    rw [ih (fun x hx => h x (List.mem_cons_of_mem _ hx))]

theorem insertBySchema_eq (n : DNode) (l : List DNode) :
    insertBySchema n l = KL.insBefore (fun x => decide (n.sid < x.sid)) n l := by
  induction l with
  | nil => rfl
  | cons y ys ih => simp only [insertBySchema, KL.insBefore, ih, decide_eq_true_eq]

theorem insertSorted_eq (S : Schema) (n : DNode) (l : List DNode) :
    insertSorted S n l =
      KL.insBefore (fun x => (x.sid == n.sid && cmpInst S n x == .lt) || decide (n.sid < x.sid)) n l := by
  induction l with
  | nil => rfl
  | cons y ys ih =>
    simp only [insertSorted, KL.insBefore, ih]
    by_cases h1 : (y.sid == n.sid && cmpInst S n y == .lt) = true
    · simp [h1]
    · by_cases h2 : n.sid < y.sid
      · simp [h1, h2]
      · simp [h1, h2]

theorem insertNode_eq (S : Schema) (l : List DNode) (n : DNode) :
    insertNode S l n = KL.insBefore (nlt S n) n l := by
  unfold insertNode
  split
  · rename_i h
    have hs : S.isSorted n.sid = true := by
      simp only [Bool.and_eq_true] at h
      exact h.1
    rw [insertSorted_eq]
    apply insBefore_congr
    intro x _
    simp only [nlt, hs, Bool.and_true]
    by_cases h2 : n.sid < x.sid
    · simp [h2]
    · have : (x.sid == n.sid) = (n.sid == x.sid) := Bool.beq_comm
      simp [h2, this]
  · rename_i h
    rw [insertBySchema_eq]
    apply insBefore_congr
    intro x hx
    simp only [nlt]
    have : (n.sid == x.sid && S.isSorted n.sid && cmpInst S n x == .lt) = false := by
      by_cases hs : S.isSorted n.sid = true
      · have hany : (l.any fun y => y.sid == n.sid) = false := by
          simpa [hs] using h
        have hx' := List.any_eq_false.mp hany x hx
        have : ¬ x.sid = n.sid := by simpa using hx'
        have : (n.sid == x.sid) = false := beq_eq_false_iff_ne.mpr (fun h => this h.symm)
        simp [this]
      · have : S.isSorted n.sid = false := by simpa using hs
        simp [this]
    simp [this]

/-! ### instance equality -/

theorem keysEq_refl13 (l : List DNode) : keysEq l l = true := by
  induction l with
  | nil => rfl
  | cons x xs ih => simp [keysEq, ih]

theorem keysEq_symm {a b : List DNode} (h : keysEq a b = true) : keysEq b a = true := by
  induction a generalizing b with
  | nil => cases b <;> simp_all [keysEq]
  | cons x xs ih =>
    cases b with
    | nil => simp [keysEq] at h
    | cons y ys =>
      simp only [keysEq, Bool.and_eq_true, beq_iff_eq] at h ⊢
      exact ⟨⟨h.1.1.symm, h.1.2.symm⟩, ih h.2⟩

theorem keysEq_trans {a b c : List DNode} (h1 : keysEq a b = true) (h2 : keysEq b c = true) : keysEq a c = true := by
  induction a generalizing b c with
  | nil => cases b <;> cases c <;> simp_all [keysEq]
  | cons x xs ih =>
    cases b with
    | nil => simp [keysEq] at h1
    | cons y ys =>
      cases c with
      | nil => simp [keysEq] at h2
      | cons z zs =>
        simp only [keysEq, Bool.and_eq_true, beq_iff_eq] at h1 h2 ⊢
        exact ⟨⟨h1.1.1.trans h2.1.1, h1.1.2.trans h2.1.2⟩, ih h1.2 h2.2⟩

theorem sameInst_refl13 (S : Schema) (a : DNode) : sameInst S a a = true := by
  unfold sameInst
  simp only [beq_self_eq_true, Bool.true_and]
  split <;> simp [keysEq_refl13]

theorem sameInst_sid {S : Schema} {a b : DNode} (h : sameInst S a b = true) : a.sid = b.sid := by
  unfold sameInst at h
  simp only [Bool.and_eq_true, beq_iff_eq] at h
  exact h.1

theorem sameInst_symm {S : Schema} {a b : DNode} (h : sameInst S a b = true) : sameInst S b a = true := by
  have hs := sameInst_sid h
  unfold sameInst at h ⊢
  rw [← hs]
  simp only [beq_self_eq_true, Bool.true_and] at h ⊢
  cases hk : S.kind? a.sid with
  | none => simp
  | some k =>
    rw [hk] at h
    cases k <;> simp_all
    · rcases h with h | h
      · exact Or.inl h
      · exact Or.inr (keysEq_symm h)

theorem sameInst_trans {S : Schema} {a b c : DNode} (h1 : sameInst S a b = true) (h2 : sameInst S b c = true) :
    sameInst S a c = true := by
  have hs1 := sameInst_sid h1
  have hs2 := sameInst_sid h2
  unfold sameInst at h1 h2 ⊢
  rw [← hs1] at h2
  rw [← hs2, ← hs1]
  simp only [beq_self_eq_true, Bool.true_and] at h1 h2 ⊢
  cases hk : S.kind? a.sid with
  | none => simp
  | some k =>
    rw [hk] at h1 h2
    cases k <;> simp_all
    · rcases h1 with h1 | h1
      · exact Or.inl h1
      · rcases h2 with h2 | h2
        · exact Or.inl h2
        · exact Or.inr (keysEq_trans h1 h2)

/-! ### the carrier and the order -/

/-- nodes the theory speaks about: instances of data nodes that are not user-ordered, of the right shape -/
structure Dom (S : Schema) (x : DNode) : Prop where
  nuo : S.isUserOrd x.sid = false
  ndi : S.isDupInst x.sid = false
  typed : x.isTerm = S.isTerm x.sid

/-- HYPOTHESIS of the C13 theorems about system-ordered lists and leaf-lists: `Tree.cmpInst` (the `sort` callbacks of the type
plugins, key by key) is a strict total order on the instances of one such schema node, and instances with equal keys / values
(`sameInst`) are indistinguishable for it.
SUPERSEDED by `K13.KeyOrderOn S P` (K13Ord.lean): quantifying over ALL nodes of the right shape (`Dom`) — list instances without
their key children included — makes this hypothesis unsatisfiable for every schema with a keyed list (Props/C13
`keyOrder_no_keyed_list`); `KeyOrderOn` asks the same axioms of the nodes satisfying `P` only, `KeyOrder S` implies
`KeyOrderOn S (fun _ => true)` (`K13.keyOrderOn_of_keyOrder`), and `KeyOrderOn S (K13.keyedOK S)` is proved (K13Canon.lean).  The
`K13*.lean` files carry the lemmas of the `Lemmas13*.lean` files over to `KeyOrderOn`. -/
structure KeyOrder (S : Schema) : Prop where
  /-- list keys are leaves (schema well-formedness) -/
  keyTerm : ∀ {sid}, S.isKey sid = true → S.isTerm sid = true
  asymm : ∀ {x y}, Dom S x → Dom S y → x.sid = y.sid → S.isSorted x.sid = true → cmpInst S x y = .lt → cmpInst S y x ≠ .lt
  trans : ∀ {x y z}, Dom S x → Dom S y → Dom S z → x.sid = y.sid → y.sid = z.sid → S.isSorted x.sid = true →
    cmpInst S x y = .lt → cmpInst S y z = .lt → cmpInst S x z = .lt
  total : ∀ {x y}, Dom S x → Dom S y → x.sid = y.sid → S.isSorted x.sid = true → sameInst S x y = false →
    cmpInst S x y = .lt ∨ cmpInst S y x = .lt
  congr_l : ∀ {x x' y}, Dom S x → Dom S x' → Dom S y → x.sid = y.sid → S.isSorted x.sid = true → sameInst S x x' = true →
    cmpInst S x y = cmpInst S x' y
  congr_r : ∀ {x y y'}, Dom S x → Dom S y → Dom S y' → x.sid = y.sid → S.isSorted x.sid = true → sameInst S y y' = true →
    cmpInst S x y = cmpInst S x y'

theorem skind_beq (a b : SKind) : (a == b) = decide (a = b) := by cases a <;> cases b <;> rfl

theorem isSorted_of_isLL {S : Schema} {sid : Nat} (hl : isLL S sid = true) (hu : S.isUserOrd sid = false)
    (hd : S.isDupInst sid = false) : S.isSorted sid = true := by
  unfold isLL Schema.isKind Schema.kind? at hl
  unfold Schema.isUserOrd at hu
  unfold Schema.isDupInst at hd
  unfold Schema.isSorted
  cases hg : S.get? sid with
  | none => simp [hg] at hl
  | some n =>
    simp only [hg, Option.map_some] at hl hu hd ⊢
    cases hk : n.kind <;> simp_all [skind_beq]

theorem isLL_of_isSorted {S : Schema} {sid : Nat} (hs : S.isSorted sid = true) : isLL S sid = true := by
  unfold isLL Schema.isKind Schema.kind?
  unfold Schema.isSorted at hs
  cases hg : S.get? sid with
  | none => simp [hg] at hs
  | some n =>
    simp only [hg, Option.map_some] at hs ⊢
    cases hk : n.kind <;> simp_all [skind_beq]

theorem instMatch_eq {S : Schema} {d x : DNode} (hd : S.isDupInst d.sid = false) : instMatch S d x = sameInst S x d := by
  simp [instMatch, hd]

theorem matchP_sid {S : Schema} {d x : DNode} (h : matchP S d x = true) : x.sid = d.sid := by
  simp only [matchP, Bool.and_eq_true, beq_iff_eq] at h
  exact h.1

/-- the order of the model on the carrier `Dom S` -/
def ordOf (S : Schema) (K : KeyOrder S) : KL.Ord DNode where
  lt := nlt S
  same := matchP S
  dom := Dom S
  asymm := by
    intro x y hx hy h
    simp only [nlt, Bool.or_eq_true, decide_eq_true_eq, Bool.and_eq_true, beq_iff_eq] at h
    simp only [nlt, Bool.or_eq_false_iff, decide_eq_false_iff_not, Bool.and_eq_false_iff]
    rcases h with h | ⟨⟨h1, h2⟩, h3⟩
    · refine ⟨by omega, Or.inl (Or.inl ?_)⟩
      exact beq_eq_false_iff_ne.mpr (by omega)
    · refine ⟨by omega, Or.inr ?_⟩
      have := K.asymm hx hy h1 h2 h3
      cases hc : cmpInst S y x <;> simp_all
  trans := by
    intro x y z hx hy hz h1 h2
    simp only [nlt, Bool.or_eq_true, decide_eq_true_eq, Bool.and_eq_true, beq_iff_eq] at h1 h2 ⊢
    rcases h1 with h1 | ⟨⟨a1, a2⟩, a3⟩
    · rcases h2 with h2 | ⟨⟨b1, _⟩, _⟩
      · exact Or.inl (by omega)
      · exact Or.inl (by omega)
    · rcases h2 with h2 | ⟨⟨b1, b2⟩, b3⟩
      · exact Or.inl (by omega)
      · exact Or.inr ⟨⟨a1.trans b1, a2⟩, K.trans hx hy hz a1 b1 a2 a3 b3⟩
  total := by
    intro x y hx hy h
    simp only [matchP, Bool.and_eq_false_iff, Bool.or_eq_false_iff, Bool.not_eq_false'] at h
    simp only [nlt, Bool.or_eq_true, decide_eq_true_eq, Bool.and_eq_true, beq_iff_eq]
    by_cases hs : x.sid = y.sid
    · rcases h with h | ⟨hl, hm⟩
      · exact absurd hs.symm (by simpa using h)
      · have hsrt := isSorted_of_isLL hl hx.nuo hx.ndi
        rw [instMatch_eq hx.ndi] at hm
        have hm' : sameInst S x y = false := by
          cases hc : sameInst S x y
          · rfl
          · rw [sameInst_symm hc] at hm
            exact absurd hm (by decide)
        rcases K.total hx hy hs hsrt hm' with h | h
        · exact Or.inl (Or.inr ⟨⟨hs, hsrt⟩, h⟩)
        · exact Or.inr (Or.inr ⟨⟨hs.symm, hs ▸ hsrt⟩, h⟩)
    · rcases Nat.lt_or_gt_of_ne hs with h | h
      · exact Or.inl (Or.inl h)
      · exact Or.inr (Or.inl h)
  same_refl := by
    intro x hx
    simp [matchP, instMatch_eq hx.ndi, sameInst_refl13]
  same_symm := by
    intro x y hx hy h
    have hs := matchP_sid h
    simp only [matchP, Bool.and_eq_true, beq_iff_eq, Bool.or_eq_true, Bool.not_eq_eq_eq_not, Bool.not_true] at h ⊢
    refine ⟨hs.symm, ?_⟩
    rcases h.2 with h2 | h2
    · exact Or.inl (hs ▸ h2)
    · rw [instMatch_eq hx.ndi] at h2
      rw [instMatch_eq hy.ndi]
      exact Or.inr (sameInst_symm h2)
  same_trans := by
    intro x y z hx hy hz h1 h2
    have hs1 := matchP_sid h1
    have hs2 := matchP_sid h2
    simp only [matchP, Bool.and_eq_true, beq_iff_eq, Bool.or_eq_true, Bool.not_eq_eq_eq_not, Bool.not_true] at h1 h2 ⊢
    refine ⟨hs2.trans hs1, ?_⟩
    rcases h1.2 with a | a
    · exact Or.inl a
    · rcases h2.2 with b | b
      · rw [hs1] at b
        exact Or.inl b
      · rw [instMatch_eq hx.ndi] at a
        rw [instMatch_eq hy.ndi] at b
        rw [instMatch_eq hx.ndi]
        exact Or.inr (sameInst_trans b a)
  lt_congr_l := by
    intro x x' y hx hx' hy h
    have hs := matchP_sid h
    simp only [matchP, Bool.and_eq_true, beq_iff_eq, Bool.or_eq_true, Bool.not_eq_eq_eq_not, Bool.not_true] at h
    simp only [nlt, hs]
    by_cases hsy : x.sid = y.sid
    · by_cases hsrt : S.isSorted x.sid = true
      · have hl := isLL_of_isSorted hsrt
        have hm : sameInst S x x' = true := by
          rcases h.2 with a | a
          · rw [hl] at a
            exact absurd a (by decide)
          · rw [instMatch_eq hx.ndi] at a
            exact sameInst_symm a
        rw [K.congr_l hx hx' hy hsy hsrt hm]
      · have : S.isSorted x.sid = false := by simpa using hsrt
        simp [this]
    · have : (x.sid == y.sid) = false := beq_eq_false_iff_ne.mpr hsy
      simp [this]
  lt_congr_r := by
    intro x y y' hx hy hy' h
    have hs := matchP_sid h
    simp only [matchP, Bool.and_eq_true, beq_iff_eq, Bool.or_eq_true, Bool.not_eq_eq_eq_not, Bool.not_true] at h
    simp only [nlt, hs]
    by_cases hsy : x.sid = y.sid
    · by_cases hsrt : S.isSorted x.sid = true
      · have hl : isLL S y.sid = true := hsy ▸ isLL_of_isSorted hsrt
        have hm : sameInst S y y' = true := by
          rcases h.2 with a | a
          · rw [hl] at a
            exact absurd a (by decide)
          · rw [instMatch_eq hy.ndi] at a
            exact sameInst_symm a
        rw [K.congr_r hx hy hy' hsy hsrt hm]
      · have : S.isSorted x.sid = false := by simpa using hsrt
        simp [this]
    · have : (x.sid == y.sid) = false := beq_eq_false_iff_ne.mpr hsy
      simp [this]

end LyModel.Diff
