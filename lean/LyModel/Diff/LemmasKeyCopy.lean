import LyModel.Diff.LemmasLit
import LyModel.Diff.MergeSafe
/-!
# The key copies of a COMPUTED diff (C13: the key conditions of `mergeSafe` hold for diffs of well-formed trees)

`keyCopyN S d`: every container / list-instance node of the diff carries in front exactly the key leaves of its schema node
(`keySids`; none for a container), they are leaves without the default flag, and every other child belongs to a later schema
node.  True of every node of `lyd_diff_siblings(A, B, LYD_DIFF_DEFAULTS)` for well-formed `A`, `B` (`keyCopyL_diff`): the copies
are made by `lyd_dup_single` / `lyd_dup_siblings` of instances that have these properties (`wfNode`).
-/
set_option linter.unusedSimpArgs false
namespace LyModel.Diff
open LyModel LyModel.Tree

/-- the schema ids of the key leaves of instances of `s` (none unless `s` is a list) -/
def kkOf (S : Schema) (s : Nat) : List Nat := if S.isKind s .list then keySids S s else []

mutual
def keyCopyN (S : Schema) : DNode → Prop
  | .inner s _ _ ks =>
    (keysOf S ks).map (·.sid) = kkOf S s ∧ (∀ k ∈ keysOf S ks, k.isTerm = true ∧ k.flags.dflt = false) ∧
      (∀ c ∈ noKeys S ks, ∀ i ∈ kkOf S s, i < c.sid) ∧ keyCopyL S ks
  | .term _ _ _ _ => True
def keyCopyL (S : Schema) : List DNode → Prop
  | [] => True
  | x :: xs => keyCopyN S x ∧ keyCopyL S xs
end

theorem keyCopyL_iff (S : Schema) : ∀ l : List DNode, keyCopyL S l ↔ ∀ x ∈ l, keyCopyN S x
  | [] => by simp [keyCopyL]
  | x :: xs => by simp [keyCopyL, keyCopyL_iff S xs]

theorem keyCopyN_setMetas (S : Schema) (x : DNode) (m : List Meta) : keyCopyN S (x.setMetas m) ↔ keyCopyN S x := by
  cases x <;> simp [DNode.setMetas, keyCopyN]

theorem keyCopyN_of_term (S : Schema) {x : DNode} (h : x.isTerm = true) : keyCopyN S x := by
  cases x with
  | inner => simp [DNode.isTerm] at h
  | term => trivial

theorem noKeys_map_sid (S : Schema) (g : DNode → DNode) (hg : ∀ x, (g x).sid = x.sid) :
    ∀ (l : List DNode), noKeys S (l.map g) = (noKeys S l).map g
  | [] => rfl
  | x :: xs => by
    simp only [noKeys, List.map_cons, List.dropWhile_cons, hg]
    split
    · exact noKeys_map_sid S g hg xs
    · rfl

mutual
theorem keyCopyN_dupRec (S : Schema) : ∀ x, keyCopyN S x → keyCopyN S (dupRec x)
  | .term s f m v, _ => trivial
  | .inner s f m ks, h => by
    simp only [keyCopyN] at h
    obtain ⟨h1, h2, h3, h4⟩ := h
    simp only [dupRec, keyCopyN]
    rw [dupRecL_eq_map, takeWhile_map_sid S dupRec dupRec_sid, noKeys_map_sid S dupRec dupRec_sid]
    refine ⟨?_, ?_, ?_, ?_⟩
    · rw [List.map_map]
      have : ((fun x : DNode => x.sid) ∘ dupRec) = fun x => x.sid := funext fun x => dupRec_sid x
      rw [this]; exact h1
    · intro k hk
      obtain ⟨k0, hk0, rfl⟩ := List.mem_map.mp hk
      obtain ⟨ht, hd⟩ := h2 k0 hk0
      cases k0 with
      | inner => simp [DNode.isTerm] at ht
      | term => exact ⟨rfl, hd⟩
    · intro c hc i hi
      obtain ⟨c0, hc0, rfl⟩ := List.mem_map.mp hc
      rw [dupRec_sid]; exact h3 c0 hc0 i hi
    · rw [← dupRecL_eq_map]; exact keyCopyL_dupRecL S ks h4
theorem keyCopyL_dupRecL (S : Schema) : ∀ l, keyCopyL S l → keyCopyL S (dupRecL l)
  | [], _ => trivial
  | x :: xs, h => by
    simp only [keyCopyL] at h
    simp only [dupRecL, keyCopyL]
    exact ⟨keyCopyN_dupRec S x h.1, keyCopyL_dupRecL S xs h.2⟩
end

/-- what `wfNode` says about the keys of an instance, in terms of `kkOf` -/
theorem wf_keyCopy_facts (S : Schema) (s : Nat) (f : Flags) (m : List Meta) (ks : List DNode) (hw : wfNode S (.inner s f m ks) = true) :
    (keysOf S ks).map (·.sid) = kkOf S s ∧ (∀ k ∈ keysOf S ks, k.isTerm = true ∧ k.flags.dflt = false) ∧
      (∀ c ∈ noKeys S ks, ∀ i ∈ kkOf S s, i < c.sid) := by
  have hi := wfNode_inner S s f m ks hw
  have h1 : (keysOf S ks).map (·.sid) = kkOf S s := by
    unfold kkOf
    split
    · rename_i hl; exact hi.keysSids hl
    · rename_i hl
      rcases hi.keysList with h | h
      · exact absurd h hl
      · rw [h]; rfl
  refine ⟨h1, fun k hk => ⟨hi.keysTerm k hk, hi.keysNoDflt k hk⟩, ?_⟩
  intro c hc i hin
  rw [← h1] at hin
  obtain ⟨k, hk, rfl⟩ := List.mem_map.mp hin
  have hcan : canonB S (keysOf S ks ++ noKeys S ks) = true := by rw [keysOf_append_noKeys]; exact hi.canon
  have hlt := canonB_append_klt S _ _ hcan k hk c hc
  have hkk : S.isKey k.sid = true := mem_keysOf_isKey hk
  have hck : S.isKey c.sid = false := hi.restNoKey c hc
  simp only [klt, Bool.or_eq_true, decide_eq_true_eq, Bool.and_eq_true, beq_iff_eq] at hlt
  rcases hlt with h | ⟨⟨h, _⟩, _⟩
  · exact h
  · rw [h, hck] at hkk; cases hkk

mutual
theorem keyCopyN_of_wf (S : Schema) : ∀ x, wfNode S x = true → keyCopyN S x
  | .term s f m v, _ => trivial
  | .inner s f m ks, hw => by
    obtain ⟨h1, h2, h3⟩ := wf_keyCopy_facts S s f m ks hw
    simp only [keyCopyN]
    exact ⟨h1, h2, h3, keyCopyL_of_wf S ks (wfNode_inner S s f m ks hw).kids⟩
theorem keyCopyL_of_wf (S : Schema) : ∀ l, wfL S l = true → keyCopyL S l
  | [], _ => trivial
  | x :: xs, hw => by
    simp only [wfL, Bool.and_eq_true] at hw
    exact ⟨keyCopyN_of_wf S x hw.1, keyCopyL_of_wf S xs hw.2⟩
end


/-! ### the computed diff -/

def KeyCopyGoal (S : Schema) (fuelD : Nat) : Prop :=
  ∀ (top : Bool) (as bs : List DNode), wfL S as = true → wfL S bs = true → canonB S as = true → canonB S bs = true →
    keyCopyL S (diffSiblings S true fuelD top as bs).out

theorem keyCopyGoal_all (S : Schema) : ∀ (fuelD : Nat), KeyCopyGoal S fuelD
  | 0 => by intro top as bs _ _ _ _; simp [diffSiblings, keyCopyL]
  | fuelD + 1 => by
    intro top as bs hwa hwb hca hcb
    have IH := keyCopyGoal_all S fuelD
    obtain ⟨_, L⟩ := levelD S fuelD top as bs hwa hwb hca hcb
    generalize (diffSiblings S true (fuelD + 1) top as bs).out = out at L
    have hrec0 := diffSiblings_nil S true fuelD false
    rw [keyCopyL_iff]
    intro d hd
    rcases L.sound d hd with ⟨a, ha, hn⟩ | ⟨b, hb, hp, rfl⟩
    · have hwa1 := wfL_mem S as a hwa ha
      have hnd := plainSid_not_dupInst S a.sid (wfNode_plain S a hwa1)
      cases hn with
      | del hp => exact (keyCopyN_setMetas S _ _).mpr (keyCopyN_dupRec S a (keyCopyN_of_wf S a hwa1))
      | term b atr hp hat =>
        have hbm := partner_mem S bs a b hp
        have hwb1 := wfL_mem S bs b hwb hbm
        have hsb : b.sid = a.sid := kkey_sid S b a (partner_kkey S bs a b hnd hp)
        have hterm : S.isTerm a.sid = true := by
          rcases plainAttrs_cases S a b atr hat with ⟨h, _, _⟩ | ⟨h | h, _, _⟩
          · exact isTerm_of_kind S _ (Or.inl h)
          · exact isTerm_of_kind S _ (Or.inl h.1)
          · exact isTerm_of_kind S _ (Or.inr h)
        obtain ⟨fa, ma, va, hae⟩ := term_of_shape S a (wfNode_shape S a hwa1) hterm
        obtain ⟨fb, mb, vb, hbe⟩ := term_of_shape S b (wfNode_shape S b hwb1) (by rw [hsb]; exact hterm)
        rw [hsb] at hbe
        generalize a.sid = s at hae hbe
        subst hae hbe
        have hdr : dupRec (.term s fb mb vb) = .term s fb [] vb := rfl
        rw [hdr]
        rcases plainAttrs_term_cases S s fa fb ma mb va vb atr hat with ⟨_, _, rfl⟩ | ⟨_, rfl⟩
        · rw [withAttrs_replace]; trivial
        · rw [withAttrs_none]; trivial
      | parent b src f m hp hat hne hsrc htop hm =>
        have hbm := partner_mem S bs a b hp
        have hwb1 := wfL_mem S bs b hwb hbm
        have hsb : b.sid = a.sid := kkey_sid S b a (partner_kkey S bs a b hnd hp)
        have hin := inner_of_sub S _ a b hwa1 hwb1 hsb hrec0 hne
        obtain ⟨fa, ma, ka, hae⟩ := inner_of_shape S a (wfNode_shape S a hwa1) hin
        obtain ⟨fb, mb, kb, hbe⟩ := inner_of_shape S b (wfNode_shape S b hwb1) (by rw [hsb]; exact hin)
        rw [hsb] at hbe
        generalize a.sid = s at hae hbe hin
        subst hae hbe
        have hia := wfNode_inner S _ fa ma ka hwa1
        have hib := wfNode_inner S _ fb mb kb hwb1
        obtain ⟨a1, a2, a3⟩ := wf_keyCopy_facts S s fa ma ka hwa1
        obtain ⟨b1, b2, b3⟩ := wf_keyCopy_facts S s fb mb kb hwb1
        have hsubdef : subOf S (diffSiblings S true fuelD false) (.inner s fa ma ka) (.inner s fb mb kb)
            = diffSiblings S true fuelD false (noKeys S ka) (noKeys S kb) := rfl
        rw [hsubdef]
        have hsubsid : ∀ x ∈ (diffSiblings S true fuelD false (noKeys S ka) (noKeys S kb)).out,
            ∃ y ∈ noKeys S ka ++ noKeys S kb, x.sid = y.sid := diffSiblings_sids S true fuelD false _ _
        have hsubkey : ∀ x ∈ (diffSiblings S true fuelD false (noKeys S ka) (noKeys S kb)).out, S.isKey x.sid = false := by
          intro x hx
          obtain ⟨y, hy, he⟩ := hsubsid x hx
          rw [he]
          rcases List.mem_append.1 hy with hy | hy
          · exact hia.restNoKey y hy
          · exact hib.restNoKey y hy
        have hsrcin : S.isInner src.sid = true := by rcases hsrc with h | h <;> subst h <;> exact hin
        have hsrcsid : src.sid = s := by rcases hsrc with h | h <;> subst h <;> rfl
        have hsrck : (keysOf S src.kids).map (·.sid) = kkOf S s ∧
            ∀ k ∈ keysOf S src.kids, k.isTerm = true ∧ k.flags.dflt = false := by
          rcases hsrc with h | h <;> subst h
          · exact ⟨a1, a2⟩
          · exact ⟨b1, b2⟩
        obtain ⟨_, hnk0⟩ := parentNode_facts S src f m _ hsrcin hsubkey
        have hnk : noKeys S ((dupShallow S src).kids ++ (diffSiblings S true fuelD false (noKeys S ka) (noKeys S kb)).out) =
            (diffSiblings S true fuelD false (noKeys S ka) (noKeys S kb)).out := hnk0
        have hkk : keysOf S ((dupShallow S src).kids ++ (diffSiblings S true fuelD false (noKeys S ka) (noKeys S kb)).out)
            = (dupShallow S src).kids := by
          have h1 := keysOf_append_noKeys S ((dupShallow S src).kids ++ (diffSiblings S true fuelD false (noKeys S ka) (noKeys S kb)).out)
          rw [hnk] at h1
          exact List.append_cancel_right h1
        have hsubIH : keyCopyL S (diffSiblings S true fuelD false (noKeys S ka) (noKeys S kb)).out :=
          IH false (noKeys S ka) (noKeys S kb)
            (wfL_of_forall S _ (fun x hx => wfL_mem S ka x hia.kids ((noKeys_sublist S ka).subset hx)))
            (wfL_of_forall S _ (fun x hx => wfL_mem S kb x hib.kids ((noKeys_sublist S kb).subset hx)))
            (canonB_sublist S (noKeys_sublist S ka) hia.canon) (canonB_sublist S (noKeys_sublist S kb) hib.canon)
        simp only [keyCopyN]
        rw [dupShallow_sid, hsrcsid]
        rw [hkk, hnk, dupShallow_kids]
        refine ⟨?_, ?_, ?_, ?_⟩
        · rw [List.map_map]
          have : ((fun x : DNode => x.sid) ∘ fun k : DNode => k.setMetas []) = fun x : DNode => x.sid :=
            funext fun x => setMetas_sid _ x
          rw [this]; exact hsrck.1
        · intro k hk
          obtain ⟨k0, hk0, rfl⟩ := List.mem_map.mp hk
          obtain ⟨ht, hd'⟩ := hsrck.2 k0 hk0
          cases k0 with
          | inner => simp [DNode.isTerm] at ht
          | term => exact ⟨rfl, hd'⟩
        · intro c hc i hi
          obtain ⟨y, hy, he⟩ := hsubsid c hc
          rw [he]
          rcases List.mem_append.1 hy with hy | hy
          · exact a3 y hy i hi
          · exact b3 y hy i hi
        · rw [keyCopyL_iff]
          intro x hx
          rcases List.mem_append.1 hx with hx | hx
          · obtain ⟨y, hy, rfl⟩ := List.mem_map.1 hx
            exact (keyCopyN_setMetas S _ _).mpr (keyCopyN_of_term S (hsrck.2 y hy).1)
          · exact (keyCopyL_iff S _).mp hsubIH x hx
    · have hwb1 := wfL_mem S bs b hwb hb
      exact (keyCopyN_setMetas S _ _).mpr (keyCopyN_dupRec S b (keyCopyN_of_wf S b hwb1))

/-- every container / list-instance node of the diff of two well-formed trees carries exactly the key leaves of its schema node in
front (no default flag), before children of later schema nodes -/
theorem keyCopyL_diff (S : Schema) (A B : List DNode) (hA : wfForest S A = true) (hB : wfForest S B = true) :
    keyCopyL S (diff S true A B) := by
  simp only [wfForest, Bool.and_eq_true] at hA hB
  have := keyCopyGoal_all S (Nat.max (heightL A) (heightL B) + 1) true A B hA.1.1 hB.1.1 hA.1.2 hB.1.2
  simpa [diff, diffFull] using this


/-! ### the key conditions of `mergeSafe` follow -/

theorem dupInst_list_nkeys {S : Schema} {s : Nat} (hl : S.isKind s .list = true) (hd : S.isDupInst s = true) : S.nkeys s = 0 := by
  unfold Schema.isDupInst at hd
  unfold Schema.isKind Schema.kind? at hl
  unfold Schema.nkeys
  cases hg : S.get? s with
  | none => simp [hg] at hl
  | some n =>
    simp only [hg, Option.map_some, beq_iff_eq, Option.some.injEq] at hl
    simp only [hg, hl, Bool.or_eq_true, Bool.and_eq_true, beq_iff_eq] at hd ⊢
    rcases hd with h | h
    · exact h.2
    · exact absurd h.1 (by decide)

theorem dataEqL_keys : ∀ (l1 l2 : List DNode), (∀ k ∈ l1, k.isTerm = true ∧ k.flags.dflt = false) →
    (∀ k ∈ l2, k.isTerm = true ∧ k.flags.dflt = false) → keyPairs l1 = keyPairs l2 → dataEqL true l1 l2 = true
  | [], [], _, _, _ => rfl
  | [], _ :: _, _, _, h => by simp [keyPairs] at h
  | _ :: _, [], _, _, h => by simp [keyPairs] at h
  | a :: as, b :: bs, h1, h2, h => by
    simp only [keyPairs, List.map_cons, List.cons.injEq, Prod.mk.injEq] at h
    obtain ⟨⟨hs, hv⟩, hr⟩ := h
    obtain ⟨hat, had⟩ := h1 a (List.mem_cons_self ..)
    obtain ⟨hbt, hbd⟩ := h2 b (List.mem_cons_self ..)
    simp only [dataEqL, Bool.and_eq_true]
    refine ⟨?_, dataEqL_keys as bs (fun k hk => h1 k (List.mem_cons_of_mem _ hk)) (fun k hk => h2 k (List.mem_cons_of_mem _ hk)) hr⟩
    cases a with
    | inner => simp [DNode.isTerm] at hat
    | term sa fa ma va =>
      cases b with
      | inner => simp [DNode.isTerm] at hbt
      | term sb fb mb vb =>
        simp only [DNode.sid, DNode.val, DNode.flags] at hs hv had hbd
        simp [dataEq, hs, hv, had, hbd]

mutual
theorem safeP_of_keyCopy (S : Schema) (cur sin : Option Op) (t : DNode) : ∀ (src : DNode), keyCopyN S t → keyCopyN S src →
    matchP S src t = true → safeP0 S cur sin t src = true → safeP S cur sin t src = true
  | .term s f m v, _, _, _, h => by simpa [safeP, safeP0] using h
  | .inner s f m ks, ht, hs, hm, h => by
    simp only [safeP0, Bool.and_eq_true, Bool.not_eq_eq_eq_not, Bool.not_true] at h
    obtain ⟨⟨htnt, hmo⟩, hk0⟩ := h
    cases t with
    | term => simp [DNode.isTerm] at htnt
    | inner st ft mt kt =>
      have hss : st = s := matchP_sid hm
      subst hss
      simp only [keyCopyN] at ht hs
      obtain ⟨t1, t2, _, t4⟩ := ht
      obtain ⟨s1, s2, s3, s4⟩ := hs
      have hkp : keyPairs (keysOf S kt) = keyPairs (keysOf S ks) := by
        by_cases hl : S.isKind st .list = true
        · by_cases hn : S.nkeys st = 0
          · have hk : kkOf S st = [] := by simp [kkOf, hl, keySids, hn]
            rw [hk] at t1 s1
            rw [List.map_eq_nil_iff.mp t1, List.map_eq_nil_iff.mp s1]
          · have hd : S.isDupInst st = false := by
              cases hd : S.isDupInst st
              · rfl
              · exact absurd (dupInst_list_nkeys hl hd) hn
            have hkind : S.kind? st = some .list := by simpa [Schema.isKind] using hl
            simp only [matchP, DNode.sid, beq_self_eq_true, Bool.true_and, isLL, hl, Bool.true_or, Bool.not_true, Bool.false_or,
              instMatch, hd, Bool.false_eq_true, ↓reduceIte, sameInst, hkind, DNode.kids] at hm
            have hn' : (S.nkeys st == 0) = false := by simpa using hn
            simp only [hn', Bool.false_eq_true, ↓reduceIte] at hm
            exact (keysEq_iff _ _).mp hm
        · have hk : kkOf S st = [] := by simp [kkOf, hl]
          rw [hk] at t1 s1
          rw [List.map_eq_nil_iff.mp t1, List.map_eq_nil_iff.mp s1]
      simp only [safeP, Bool.and_eq_true, Bool.not_eq_eq_eq_not, Bool.not_true, DNode.kids]
      refine ⟨⟨⟨⟨htnt, hmo⟩, ?_⟩, ?_⟩, ?_⟩
      · rw [Bool.or_eq_true]
        exact Or.inr (dataEqL_keys _ _ t2 s2 hkp)
      · rw [List.all_eq_true]
        intro k hk
        rw [List.all_eq_true]
        intro c hc
        have hki : k.sid ∈ kkOf S st := by rw [← t1]; exact List.mem_map_of_mem hk
        simpa using s3 c hc k.sid hki
      · apply safeK_of_keyCopy S _ _ (noKeys S kt) ks ?_ s4 hk0
        intro x hx
        exact (keyCopyL_iff S kt).mp t4 x ((noKeys_sublist S kt).subset hx)
theorem safeK_of_keyCopy (S : Schema) (cur sin : Option Op) (T : List DNode) : ∀ (cs : List DNode), (∀ t ∈ T, keyCopyN S t) →
    keyCopyL S cs → safeK0 S cur sin T cs = true → safeK S cur sin T cs = true
  | [], _, _, _ => rfl
  | c :: cs, hT, hcs, h => by
    simp only [safeK0, Bool.and_eq_true, List.all_eq_true, Bool.or_eq_true, Bool.not_eq_eq_eq_not, Bool.not_true] at h
    simp only [keyCopyL] at hcs
    simp only [safeK, Bool.and_eq_true, List.all_eq_true, Bool.or_eq_true, Bool.not_eq_eq_eq_not, Bool.not_true]
    refine ⟨?_, safeK_of_keyCopy S cur sin T cs hT hcs.2 h.2⟩
    intro t ht
    cases hm : matchP S c t
    · exact Or.inl rfl
    · right
      rcases h.1 t ht with h1 | h1
      · rw [hm] at h1; cases h1
      · exact safeP_of_keyCopy S cur sin t c (hT t ht) hcs.1 hm h1
end

/-- for COMPUTED diffs of well-formed trees `mergeSafe` is `mergeSafe0`: the conditions on the key copies hold by themselves -/
theorem mergeSafe_of_computed (S : Schema) (A B C : List DNode) (hA : wfForest S A = true) (hB : wfForest S B = true)
    (hC : wfForest S C = true) (h : mergeSafe0 S (diff S true A B) (diff S true B C) = true) :
    mergeSafe S (diff S true A B) (diff S true B C) = true :=
  safeK_of_keyCopy S none none _ _ ((keyCopyL_iff S _).mp (keyCopyL_diff S A B hA hB)) (keyCopyL_diff S B C hB hC) h

end LyModel.Diff
