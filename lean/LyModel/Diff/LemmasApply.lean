import LyModel.Diff.LemmasCanon
/-!
# What `lyd_diff_apply_r` does with each kind of diff node (C06 proofs) — created subtrees
Core Lean only.
-/
namespace LyModel.Diff
open LyModel LyModel.Tree

/-! ### copies -/

theorem dupRecL_eq_map : ∀ (l : List DNode), dupRecL l = l.map dupRec
  | [] => rfl
  | x :: xs => by simp [dupRecL, dupRecL_eq_map xs]

theorem dupRec_sid (n : DNode) : (dupRec n).sid = n.sid := by
  cases n <;> simp [dupRec, DNode.sid]

theorem dupRec_val (n : DNode) : (dupRec n).val = n.val := by
  cases n <;> simp [dupRec, DNode.val]

theorem dupRec_isTerm (n : DNode) : (dupRec n).isTerm = n.isTerm := by
  cases n <;> simp [dupRec, DNode.isTerm]

theorem dupRec_kids (n : DNode) : (dupRec n).kids = dupRecL n.kids := by
  cases n <;> simp [dupRec, DNode.kids, dupRecL]

theorem dupRec_metas (n : DNode) : (dupRec n).metas = [] := by
  cases n <;> simp [dupRec, DNode.metas]

theorem dupRec_term (s : Nat) (f : Flags) (v : Bytes) : dupRec (.term s f [] v) = .term s f [] v := rfl

theorem takeWhile_map_sid (S : Schema) (g : DNode → DNode) (hg : ∀ x, (g x).sid = x.sid) :
    ∀ (l : List DNode), keysOf S (l.map g) = (keysOf S l).map g
  | [] => rfl
  | x :: xs => by
    simp only [keysOf, List.map_cons, List.takeWhile_cons, hg]
    split
    · simp only [List.map_cons, List.cons.injEq, true_and]
      exact takeWhile_map_sid S g hg xs
    · rfl

theorem dropWhile_map_sid (S : Schema) (g : DNode → DNode) (hg : ∀ x, (g x).sid = x.sid) :
    ∀ (l : List DNode), noKeys S (l.map g) = (noKeys S l).map g
  | [] => rfl
  | x :: xs => by
    simp only [noKeys, List.map_cons, List.dropWhile_cons, hg]
    split
    · exact dropWhile_map_sid S g hg xs
    · rfl

theorem keys_append_noKeys (S : Schema) (l : List DNode) : keysOf S l ++ noKeys S l = l :=
  List.takeWhile_append_dropWhile

/-! ### what apply builds from a created subtree -/

mutual
/-- the node `lyd_diff_apply_r` builds for a diff (sub)tree with the effective operation create: `lyd_dup_single` without
flags (`LYD_NEW` set, default flag kept), children re-created one by one -/
def createdNode : DNode → DNode
  | .inner s f _ ks =>
    let ks' := createdL ks
    .inner s { dflt := f.dflt && (dupRecL ks).all (·.flags.dflt), new := true } [] ks'
  | .term s f _ v => .term s { dflt := f.dflt, new := true } [] v
def createdL : List DNode → List DNode
  | [] => []
  | n :: ns => createdNode n :: createdL ns
end

theorem createdL_eq_map : ∀ (l : List DNode), createdL l = l.map createdNode
  | [] => rfl
  | x :: xs => by simp [createdL, createdL_eq_map xs]

theorem createdNode_sid (n : DNode) : (createdNode n).sid = n.sid := by
  cases n <;> simp [createdNode, DNode.sid]

theorem createdNode_val (n : DNode) : (createdNode n).val = n.val := by
  cases n <;> simp [createdNode, DNode.val]

theorem createdNode_isTerm (n : DNode) : (createdNode n).isTerm = n.isTerm := by
  cases n <;> simp [createdNode, DNode.isTerm]

theorem createdNode_kids (n : DNode) : (createdNode n).kids = createdL n.kids := by
  cases n <;> simp [createdNode, DNode.kids, createdL]

theorem createdNode_shape (S : Schema) (n : DNode) (h : shapeOk S n = true) : shapeOk S (createdNode n) = true := by
  simpa [shapeOk, createdNode_isTerm, createdNode_sid] using h

theorem keyPairs_map (g : DNode → DNode) (hs : ∀ x, (g x).sid = x.sid) (hv : ∀ x, (g x).val = x.val) (l : List DNode) :
    keyPairs (l.map g) = keyPairs l := by
  simp [keyPairs, List.map_map, Function.comp_def, hs, hv]

theorem createdNode_kkey (S : Schema) (n : DNode) : kkey S (createdNode n) = kkey S n := by
  unfold kkey
  simp only [createdNode_sid, createdNode_val, createdNode_kids, createdL_eq_map,
    takeWhile_map_sid S createdNode createdNode_sid, keyPairs_map createdNode createdNode_sid createdNode_val]

theorem dupRec_kkey (S : Schema) (n : DNode) : kkey S (dupRec n) = kkey S n := by
  unfold kkey
  simp only [dupRec_sid, dupRec_val, dupRec_kids, dupRecL_eq_map,
    takeWhile_map_sid S dupRec dupRec_sid, keyPairs_map dupRec dupRec_sid dupRec_val]

/-! ### the order is a function of the keys -/

/-- asymmetry of the key order on the keys `P` (proved for the keys of well-formed trees in `OrderTheory.lean`; it
does not hold for arbitrary pairs of keys: `rb_compare_lists` takes the type of each key from the first instance) -/
def KAsymOn (S : Schema) (P : Key → Prop) : Prop :=
  ∀ k1 k2, P k1 → P k2 → kltK S k1 k2 = true → kltK S k2 k1 = false

theorem klt_asymm (S : Schema) (P : Key → Prop) (h : KAsymOn S P) (x y : DNode) (hx : shapeOk S x = true)
    (hy : shapeOk S y = true) (hpx : P (kkey S x)) (hpy : P (kkey S y))
    (hk : klt S x y = true) : klt S y x = false := by
  rw [klt_eq_kltK S x y hx hy] at hk
  rw [klt_eq_kltK S y x hy hx]
  exact h _ _ hpx hpy hk

theorem klt_congr (S : Schema) (x x' y y' : DNode) (hx : shapeOk S x = true) (hx' : shapeOk S x' = true)
    (hy : shapeOk S y = true) (hy' : shapeOk S y' = true) (h1 : kkey S x' = kkey S x) (h2 : kkey S y' = kkey S y) :
    klt S x' y' = klt S x y := by
  rw [klt_eq_kltK S x' y' hx' hy', klt_eq_kltK S x y hx hy, h1, h2]

theorem canonB_map (S : Schema) (g : DNode → DNode) (hk : ∀ x, kkey S (g x) = kkey S x)
    (hg : ∀ x, shapeOk S x = true → shapeOk S (g x) = true) :
    ∀ (l : List DNode), (∀ x ∈ l, shapeOk S x = true) → canonB S l = true → canonB S (l.map g) = true
  | [], _, _ => rfl
  | x :: xs, hs, hc => by
    have hc' := (canonB_cons S x xs).1 hc
    simp only [List.map_cons]
    refine (canonB_cons S (g x) _).2 ⟨?_, canonB_map S g hk hg xs (fun y hy => hs y (by simp [hy])) hc'.2⟩
    intro z hz
    obtain ⟨y, hy, rfl⟩ := List.mem_map.1 hz
    have hsx := hs x (by simp)
    have hsy := hs y (by simp [hy])
    rw [klt_congr S x (g x) y (g y) hsx (hg x hsx) hsy (hg y hsy) (hk x) (hk y)]
    exact hc'.1 y hy

theorem height_pos (n : DNode) : 0 < n.height := by
  cases n <;> simp [DNode.height]

theorem height_kids (n : DNode) : heightL n.kids < n.height := by
  cases n <;> simp [DNode.height, DNode.kids, heightL]

/-! ### diff nodes: a copy with other metadata -/

theorem setMetas_sid (m : List Meta) (n : DNode) : (n.setMetas m).sid = n.sid := by cases n <;> rfl
theorem setMetas_kids (m : List Meta) (n : DNode) : (n.setMetas m).kids = n.kids := by cases n <;> rfl
theorem setMetas_val (m : List Meta) (n : DNode) : (n.setMetas m).val = n.val := by cases n <;> rfl
theorem setMetas_flags (m : List Meta) (n : DNode) : (n.setMetas m).flags = n.flags := by cases n <;> rfl
theorem setMetas_metas (m : List Meta) (n : DNode) : (n.setMetas m).metas = m := by cases n <;> rfl
theorem setMetas_isTerm (m : List Meta) (n : DNode) : (n.setMetas m).isTerm = n.isTerm := by cases n <;> rfl

theorem setMetas_self (n : DNode) (h : n.metas = []) : n.setMetas [] = n := by
  cases n <;> simp_all [DNode.setMetas, DNode.metas]

theorem childInh_of_create (d : DNode) (inh : Option Op) (h : effOp d inh = some .create) :
    childInhOf d inh = some .create := by
  unfold effOp at h
  unfold childInhOf
  cases ho : ownOp d with
  | none => simpa [ho] using h
  | some o =>
    simp only [ho, Option.some.injEq] at h
    subst h
    rfl

end LyModel.Diff
