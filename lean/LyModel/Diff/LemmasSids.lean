import LyModel.Diff.LemmasLevelD
/-!
# The nodes of a diff level carry schema ids of the compared siblings (all of `lyd_diff_siblings_r`, no fragment)
Core Lean only.
-/
namespace LyModel.Diff
open LyModel LyModel.Tree

theorem withAttrs_sid (S : Schema) (n : DNode) (a : Attrs) : (withAttrs S n a).sid = n.sid := by
  have hA : ∀ (x : DNode) (nm : String) (v : Bytes), (addMeta x nm v).sid = x.sid := fun x nm v => setMetas_sid _ _
  have hO : ∀ (x : DNode) (nm : String) (o : Option Bytes), (addMetaOpt x nm o).sid = x.sid := by
    intro x nm o; cases o <;> simp [addMetaOpt, hA]
  have hK : ∀ (x : DNode) (k : List DNode), (x.setKids k).sid = x.sid := by intro x k; cases x <;> rfl
  unfold withAttrs
  simp only [hO]
  split <;> simp [hK, hA]

theorem dupShallow_sid (S : Schema) (n : DNode) : (dupShallow S n).sid = n.sid := by cases n <;> rfl

theorem mem_moveToGroupEnd (l : List DNode) (i : Nat) (x : DNode) (h : x ∈ moveToGroupEnd l i) : x ∈ l := by
  unfold moveToGroupEnd at h
  cases hg : l[i]? with
  | none => simpa [hg] using h
  | some e =>
    simp only [hg, List.mem_append, List.mem_singleton] at h
    rcases h with ((h | h) | h) | h
    · exact (List.take_sublist _ _).subset h
    · exact (List.drop_sublist _ _).subset ((List.takeWhile_sublist _).subset h)
    · subst h; exact List.mem_of_getElem? hg
    · exact (List.drop_sublist _ _).subset ((List.drop_sublist _ _).subset h)

theorem reuseNode_sid (S : Schema) (e : DNode) (a : Attrs) : (reuseNode S e a).sid = e.sid := by
  unfold reuseNode
  rw [withAttrs_sid]
  cases e <;> rfl

theorem newNode_sid (S : Schema) (node : DNode) (a : Attrs) : (newNode S node a).sid = node.sid := by
  unfold newNode
  rw [withAttrs_sid]
  split
  · exact dupRec_sid node
  · exact dupShallow_sid S node

theorem addExisting_sids (S : Schema) (out : List DNode) (node : DNode) (a : Attrs) (i : Nat) :
    ∀ x ∈ (addExisting S out node a i).1, ∃ y ∈ out, x.sid = y.sid := by
  intro x hx
  unfold addExisting at hx
  cases hg : out[i]? with
  | none => simp only [hg] at hx; exact ⟨x, hx, rfl⟩
  | some e =>
    simp only [hg] at hx
    have hset : ∀ z ∈ out.set i (reuseNode S e a), ∃ y ∈ out, z.sid = y.sid := by
      intro z hz
      rcases List.mem_or_eq_of_mem_set hz with hz | hz
      · exact ⟨z, hz, rfl⟩
      · exact ⟨e, List.mem_of_getElem? hg, by rw [hz, reuseNode_sid]⟩
    split at hx
    · exact hset x (mem_moveToGroupEnd _ _ x hx)
    · exact hset x hx

/-- `lyd_diff_add` at one level: every node of the new level has the schema id of an old one or of the added node -/
theorem addAt_sids (S : Schema) (out : List DNode) (node : DNode) (a : Attrs) :
    ∀ x ∈ (addAt S out node a).1, (∃ y ∈ out, x.sid = y.sid) ∨ x.sid = node.sid := by
  intro x hx
  unfold addAt at hx
  generalize (if S.isDupInst node.sid = true then Option.none else findIdxFrom (fun x _ => sameInst S x node) out 0) = ex at hx
  cases ex with
  | some i => exact Or.inl (addExisting_sids S out node a i x hx)
  | none =>
    rcases (mem_insertBySchema _ out x).1 hx with h | h
    · exact Or.inr (by rw [h, newNode_sid])
    · exact Or.inl ⟨x, h, rfl⟩

/-- every node of `out` has the schema id of a node of `U` -/
def SidsIn (U out : List DNode) : Prop := ∀ x ∈ out, ∃ y ∈ U, x.sid = y.sid

theorem emit_out (st : St) (out' : List DNode) (side : Bool) (fd : Nat) : (st.emit out' side fd).out = out' := by
  unfold St.emit; split <;> rfl

theorem add_sids (S : Schema) (U : List DNode) (st : St) (node : DNode) (a : Attrs) (side : Bool)
    (hn : node ∈ U) (h : SidsIn U st.out) : SidsIn U (st.add S node a side).out := by
  intro x hx
  unfold St.add at hx
  simp only [emit_out] at hx
  rcases addAt_sids S st.out node a x hx with ⟨y, hy, he⟩ | he
  · obtain ⟨z, hz, hz'⟩ := h y hy
    exact ⟨z, hz, by rw [he, hz']⟩
  · exact ⟨node, hn, he⟩

theorem wrap_sids (S : Schema) (U : List DNode) (top : Bool) (st : St) (a b : DNode) (sub : St)
    (ha : a ∈ U) (hb : b ∈ U) (h : SidsIn U st.out) : SidsIn U (wrapParent S top st a b sub).out := by
  unfold wrapParent
  split
  · exact h
  · intro x hx
    simp only [emit_out] at hx
    rcases (mem_insertBySchema _ _ x).1 hx with hx | hx
    · subst hx
      split
      · exact ⟨b, hb, dupShallow_sid S b⟩
      · exact ⟨a, ha, dupShallow_sid S a⟩
    · exact h x hx

theorem get_mem_of_bind {α : Type} (l : List α) (m : Option Nat) (b : α) (h : m.bind (l[·]?) = some b) : b ∈ l := by
  cases m with
  | none => simp at h
  | some i => exact List.mem_of_getElem? h

theorem phase1UO_sids (S : Schema) (U : List DNode) (d : Bool) (first second : List DNode) (st : St) (a : DNode)
    (i : Nat) (m : Option Nat) (ha : a ∈ U) (h : SidsIn U st.out) :
    SidsIn U (phase1UO S d first second st a i m).out := by
  unfold phase1UO
  cases m with
  | some _ => exact h
  | none =>
    simp only
    split
    · exact add_sids S U _ a _ false ha h
    · exact h

theorem phase1Plain_sids (S : Schema) (U : List DNode) (d : Bool) (second : List DNode) (st : St) (a : DNode)
    (m : Option Nat) (ha : a ∈ U) (hs : ∀ b ∈ second, b ∈ U) (h : SidsIn U st.out) :
    SidsIn U (phase1Plain S d second st a m).out := by
  unfold phase1Plain
  split
  · split
    · exact add_sids S U _ a _ false ha h
    · split
      · rename_i b hb
        exact add_sids S U _ b _ true (hs b (get_mem_of_bind second m b hb)) h
      · exact h
  · exact h

theorem phase1Step_sids (S : Schema) (d top : Bool) (recur : List DNode → List DNode → St) (first second : List DNode)
    (st : St) (a : DNode) (i : Nat) (ha : a ∈ first) (h : SidsIn (first ++ second) st.out) :
    SidsIn (first ++ second) (phase1Step S d top recur first second st (a, i)).out := by
  have haU : a ∈ first ++ second := by simp [ha]
  have hsU : ∀ b ∈ second, b ∈ first ++ second := fun b hb => by simp [hb]
  unfold phase1Step
  simp only
  split
  · exact h
  · have h1 : SidsIn (first ++ second)
        (if S.isUserOrd a.sid = true then
            phase1UO S d first second { st with used := (findMatch S second a d st.used).2 } a i
              (findMatch S second a d st.used).1
          else phase1Plain S d second { st with used := (findMatch S second a d st.used).2 } a
            (findMatch S second a d st.used).1).out := by
      split
      · exact phase1UO_sids S _ d first second _ a i _ haU h
      · exact phase1Plain_sids S _ d second _ a _ haU hsU h
    split
    · rename_i b hb
      exact wrap_sids S _ top _ a b _ haU (hsU b (get_mem_of_bind second _ b hb)) h1
    · exact h1

theorem phase2Step_sids (S : Schema) (d : Bool) (first second : List DNode) (st : St) (b : DNode) (j : Nat)
    (hb : b ∈ second) (h : SidsIn (first ++ second) st.out) :
    SidsIn (first ++ second) (phase2Step S d first second st (b, j)).out := by
  have hbU : b ∈ first ++ second := by simp [hb]
  unfold phase2Step
  simp only
  split
  · exact h
  · generalize findMatch S first b d st.used = fm
    obtain ⟨m, used'⟩ := fm
    simp only
    split
    · split
      · exact add_sids S _ _ b _ true hbU h
      · exact h
    · split
      · exact add_sids S _ _ b _ true hbU h
      · exact h

theorem foldl_zipIdx_inv {α β : Type} (f : β → α × Nat → β) (I : β → Prop) :
    ∀ (l : List α) (k : Nat) (init : β), I init → (∀ st a i, a ∈ l → I st → I (f st (a, i))) →
      I ((l.zipIdx k).foldl f init)
  | [], _, init, h0, _ => by simpa using h0
  | x :: xs, k, init, h0, hstep => by
    simp only [List.zipIdx_cons, List.foldl_cons]
    exact foldl_zipIdx_inv f I xs (k + 1) _ (hstep init x k (by simp) h0)
      (fun st a i ha hI => hstep st a i (by simp [ha]) hI)

/-- the schema ids of a diff level are schema ids of the compared siblings -/
theorem diffSiblings_sids (S : Schema) (d : Bool) (fuel : Nat) (top : Bool) (first second : List DNode) :
    SidsIn (first ++ second) (diffSiblings S d fuel top first second).out := by
  cases fuel with
  | zero => intro x hx; simp [diffSiblings] at hx
  | succ fuel =>
    simp only [diffSiblings]
    apply foldl_zipIdx_inv (phase2Step S d first second) (fun st => SidsIn (first ++ second) st.out)
    · show SidsIn (first ++ second) (resetPhase _).out
      simp only [resetPhase]
      apply foldl_zipIdx_inv (phase1Step S d top (diffSiblings S d fuel false) first second)
        (fun st => SidsIn (first ++ second) st.out)
      · intro x hx; simp at hx
      · intro st a i ha hI; exact phase1Step_sids S d top _ first second st a i ha hI
    · intro st b j hb hI; exact phase2Step_sids S d first second st b j hb hI

end LyModel.Diff
