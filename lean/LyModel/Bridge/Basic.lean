import LyModel.C.Sem
/-! Shared facts for the bridging theorems (generated definition = hand model). -/
namespace LyModel.Bridge

theorem forall_uint8 (P : UInt8 → Prop) (h : ∀ n : Fin 256, P (UInt8.ofNat n.val)) : ∀ b, P b := by
  intro b
  have := h ⟨b.toNat, b.toNat_lt⟩
  simpa using this

end LyModel.Bridge
