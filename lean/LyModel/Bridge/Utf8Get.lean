import LyModel.Bridge.Basic
import LyModel.Generated.FnUtf8
import LyModel.Text.Utf8
/-!
# `ly_getutf8` as translated from ly_common.c = the hand model `Utf8.getUtf8`

The generated definition (rewritten from the C source on every run) reads `(*input)[i]` as a *signed* `char` converted
to `uint32_t` (`sx`), masks, shifts and compares in `uint32_t`; the hand model works on bytes and `Nat`.  Method:
locality (only `input[0..3]` matter), per-byte facts about `sx` proved by evaluating all 256 bytes, a composition lemma
for `c = (c << 6) | (aux & 0x3f)` (no wrap-around below 2^26), then the hand model's case analysis.  A changed mask,
shift, lead-byte test, continuation test or range bound (`0x80`, `0x800`, `0xd7ff`, `0xe000`, `0xfffd`, `0x10000`,
`0x10ffff`) in the C source breaks `get4` / `getutf8_eq` (or one of the `sx_*` lemmas) by name.
-/
namespace LyModel.Bridge.Utf8
open LyModel LyModel.Generated

/-- `(uint32_t)(char)b` -/
abbrev sx (b : UInt8) : UInt32 := b.toInt8.toInt32.toUInt32

set_option maxRecDepth 100000 in
theorem sx_ascii : ∀ b : UInt8, (!(sx b &&& 0x80 != 0)) = (b &&& 0x80 == 0) := by apply forall_uint8; decide
set_option maxRecDepth 100000 in
theorem sx_l2 : ∀ b : UInt8, ((sx b &&& 0xe0) == 0xc0) = (b &&& 0xE0 == 0xC0) := by apply forall_uint8; decide
set_option maxRecDepth 100000 in
theorem sx_l3 : ∀ b : UInt8, ((sx b &&& 0xf0) == 0xe0) = (b &&& 0xF0 == 0xE0) := by apply forall_uint8; decide
set_option maxRecDepth 100000 in
theorem sx_l4 : ∀ b : UInt8, ((sx b &&& 0xf8) == 0xf0) = (b &&& 0xF8 == 0xF0) := by apply forall_uint8; decide
set_option maxRecDepth 100000 in
theorem sx_cont : ∀ b : UInt8, ((sx b &&& 0xc0) != 0x80) = !Utf8.isCont b := by apply forall_uint8; decide
set_option maxRecDepth 100000 in
theorem sx_3f : ∀ b : UInt8, sx b &&& 0x3f = (b &&& 0x3F).toUInt32 := by apply forall_uint8; decide
set_option maxRecDepth 100000 in
theorem sx_1f : ∀ b : UInt8, sx b &&& 0x1f = (b &&& 0x1F).toUInt32 := by apply forall_uint8; decide
set_option maxRecDepth 100000 in
theorem sx_0f : ∀ b : UInt8, sx b &&& 0xf = (b &&& 0x0F).toUInt32 := by apply forall_uint8; decide
set_option maxRecDepth 100000 in
theorem sx_07 : ∀ b : UInt8, sx b &&& 7 = (b &&& 0x07).toUInt32 := by apply forall_uint8; decide
set_option maxRecDepth 100000 in
theorem sx_one : ∀ b : UInt8, (b &&& 0x80 == 0) = true →
    (decide (sx b < 0x20) && (sx b != 9) && (sx b != 0xa) && (sx b != 0xd)) = (decide (b < 0x20) && b != 0x9 && b != 0xa && b != 0xd)
    ∧ sx b = UInt32.ofNat b.toNat := by apply forall_uint8; decide
set_option maxRecDepth 100000 in
theorem and_lt : ∀ b : UInt8, (b &&& 0x3F).toNat < 64 ∧ (b &&& 0x1F).toNat < 32 ∧ (b &&& 0x0F).toNat < 16 ∧ (b &&& 0x07).toNat < 8 := by
  apply forall_uint8; decide

/-- one round `c = (c << 6) | (aux & 0x3f)` -/
theorem step6 (x : UInt32) (b : UInt8) (hx : x.toNat < 2 ^ 20) :
    ((x <<< 6) ||| (b &&& 0x3F).toUInt32).toNat = (x.toNat <<< 6) ||| (b &&& 0x3F).toNat ∧
    ((x <<< 6) ||| (b &&& 0x3F).toUInt32).toNat < 2 ^ 26 := by
  have h1 : (x <<< 6).toNat = x.toNat <<< 6 := by
    rw [UInt32.toNat_shiftLeft]
    simp [Nat.shiftLeft_eq]
    omega
  have h2 := (and_lt b).1
  constructor
  · rw [UInt32.toNat_or, h1, UInt8.toNat_toUInt32]
  · rw [UInt32.toNat_or, h1]
    apply Nat.or_lt_two_pow
    · simp [Nat.shiftLeft_eq]; omega
    · rw [UInt8.toNat_toUInt32]; omega


theorem shl6_lt (a n : Nat) (h : a < n) : a <<< 6 < n * 64 := by rw [Nat.shiftLeft_eq]; omega

theorem of_step (X : UInt32) (N : Nat) (h : X.toNat = N) (hN : N < 2 ^ 26) : X = UInt32.ofNat N := by
  apply UInt32.toNat_inj.mp
  rw [h]
  have : N < 4294967296 := by omega
  simp [Nat.mod_eq_of_lt this]

theorem v2 (b0 b1 : UInt8) :
    ((b0 &&& 0x1F).toUInt32 <<< 6) ||| (b1 &&& 0x3F).toUInt32 = UInt32.ofNat (((b0 &&& 0x1F).toNat <<< 6) ||| (b1 &&& 0x3F).toNat)
    ∧ (((b0 &&& 0x1F).toNat <<< 6) ||| (b1 &&& 0x3F).toNat) < 2 ^ 26 := by
  have h0 : ((b0 &&& 0x1F).toUInt32).toNat < 2 ^ 20 := by rw [UInt8.toNat_toUInt32]; have := (and_lt b0).2.1; omega
  obtain ⟨e, l⟩ := step6 _ b1 h0
  rw [UInt8.toNat_toUInt32] at e
  exact ⟨of_step _ _ e (e ▸ l), e ▸ l⟩

theorem v3 (b0 b1 b2 : UInt8) :
    ((((b0 &&& 0x0F).toUInt32 <<< 6) ||| (b1 &&& 0x3F).toUInt32) <<< 6) ||| (b2 &&& 0x3F).toUInt32
      = UInt32.ofNat (((((b0 &&& 0x0F).toNat <<< 6) ||| (b1 &&& 0x3F).toNat) <<< 6) ||| (b2 &&& 0x3F).toNat)
    ∧ (((((b0 &&& 0x0F).toNat <<< 6) ||| (b1 &&& 0x3F).toNat) <<< 6) ||| (b2 &&& 0x3F).toNat) < 2 ^ 26 := by
  have h0 : ((b0 &&& 0x0F).toUInt32).toNat < 2 ^ 4 := by rw [UInt8.toNat_toUInt32]; have := (and_lt b0).2.2.1; omega
  obtain ⟨e1, _⟩ := step6 _ b1 (Nat.lt_trans h0 (by decide))
  rw [UInt8.toNat_toUInt32] at e1
  have l1 : ((((b0 &&& 0x0F).toUInt32 <<< 6) ||| (b1 &&& 0x3F).toUInt32)).toNat < 2 ^ 20 := by
    rw [e1]; apply Nat.lt_of_lt_of_le (Nat.or_lt_two_pow (n := 10) _ _) (by decide)
    · rw [UInt8.toNat_toUInt32] at h0; exact Nat.lt_of_lt_of_le (shl6_lt _ _ h0) (by decide)
    · have := (and_lt b1).1; omega
  obtain ⟨e2, l2⟩ := step6 _ b2 l1
  rw [e1] at e2
  exact ⟨of_step _ _ e2 (e2 ▸ l2), e2 ▸ l2⟩

theorem v4 (b0 b1 b2 b3 : UInt8) :
    ((((((b0 &&& 0x07).toUInt32 <<< 6) ||| (b1 &&& 0x3F).toUInt32) <<< 6) ||| (b2 &&& 0x3F).toUInt32) <<< 6) ||| (b3 &&& 0x3F).toUInt32
      = UInt32.ofNat (((((((b0 &&& 0x07).toNat <<< 6) ||| (b1 &&& 0x3F).toNat) <<< 6) ||| (b2 &&& 0x3F).toNat) <<< 6) ||| (b3 &&& 0x3F).toNat)
    ∧ (((((((b0 &&& 0x07).toNat <<< 6) ||| (b1 &&& 0x3F).toNat) <<< 6) ||| (b2 &&& 0x3F).toNat) <<< 6) ||| (b3 &&& 0x3F).toNat) < 2 ^ 26 := by
  have h0 : ((b0 &&& 0x07).toUInt32).toNat < 2 ^ 3 := by rw [UInt8.toNat_toUInt32]; have := (and_lt b0).2.2.2; omega
  obtain ⟨e1, _⟩ := step6 _ b1 (Nat.lt_trans h0 (by decide))
  rw [UInt8.toNat_toUInt32] at e1
  have l1 : ((((b0 &&& 0x07).toUInt32 <<< 6) ||| (b1 &&& 0x3F).toUInt32)).toNat < 2 ^ 9 := by
    rw [e1]; apply Nat.or_lt_two_pow
    · rw [UInt8.toNat_toUInt32] at h0; exact Nat.lt_of_lt_of_le (shl6_lt _ _ h0) (by decide)
    · have := (and_lt b1).1; omega
  obtain ⟨e2, _⟩ := step6 _ b2 (Nat.lt_trans l1 (by decide))
  have l2 : (((((b0 &&& 0x07).toUInt32 <<< 6) ||| (b1 &&& 0x3F).toUInt32) <<< 6) ||| (b2 &&& 0x3F).toUInt32).toNat < 2 ^ 15 := by
    rw [e2]; apply Nat.or_lt_two_pow
    · exact Nat.lt_of_lt_of_le (shl6_lt _ _ l1) (by decide)
    · have := (and_lt b2).1; omega
  rw [e1] at e2
  obtain ⟨e3, l3⟩ := step6 _ b3 (Nat.lt_trans l2 (by decide))
  rw [e2] at e3
  exact ⟨of_step _ _ e3 (e3 ▸ l3), e3 ▸ l3⟩


def getOut (c0 : UInt32) (br : Option UInt64) : Option (Nat × Nat) → Fn.ly_getutf8.R
  | none => ⟨3, 0, c0, br.map (fun _ => 0)⟩
  | some (c, n) => ⟨0, n, UInt32.ofNat c, br.map (fun _ => UInt64.ofNat n)⟩

theorem lt32 (N : Nat) (y : UInt32) (hN : N < 2 ^ 26) : (UInt32.ofNat N < y) = (N < y.toNat) := by
  rw [UInt32.lt_iff_toNat_lt]
  have : N < 4294967296 := by omega
  simp [Nat.mod_eq_of_lt this]

theorem gt32 (N : Nat) (y : UInt32) (hN : N < 2 ^ 26) : (y < UInt32.ofNat N) = (y.toNat < N) := by
  rw [UInt32.lt_iff_toNat_lt]
  have : N < 4294967296 := by omega
  simp [Nat.mod_eq_of_lt this]

theorem get4 (b0 b1 b2 b3 : UInt8) (c0 : UInt32) (br : Option UInt64) :
    Fn.ly_getutf8 [b0, b1, b2, b3] c0 br = getOut c0 br (Utf8.getUtf8 [b0, b1, b2, b3]) := by
  unfold Fn.ly_getutf8 Utf8.getUtf8
  have e1 : (1 : UInt64).toNat = 1 := rfl
  have e2 : ((1 : UInt64) + 1).toNat = 2 := rfl
  have e3 : ((1 : UInt64) + 1 + 1).toNat = 3 := rfl
  simp only [Nat.zero_add, e1, e2, e3, C.rd, Utf8.rd, List.getD_cons_zero, List.getD_cons_succ, sx_ascii, sx_l2, sx_l3, sx_l4, sx_cont,
    sx_3f, sx_1f, sx_0f, sx_07]
  by_cases h0 : (b0 &&& 0x80 == 0) = true
  · obtain ⟨hc, hv⟩ := sx_one b0 h0
    simp only [h0, if_true]
    simp only [sx] at hc hv
    simp only [hc]
    simp only [hv]
    cases br <;> by_cases hq : (decide (b0 < 0x20) && b0 != 0x9 && b0 != 0xa && b0 != 0xd) = true <;> simp [hq, getOut]
  · simp only [h0]
    by_cases h2 : (b0 &&& 0xE0 == 0xC0) = true
    · obtain ⟨hX, hN⟩ := v2 b0 b1
      simp only [h2, if_true, hX]
      generalize ((b0 &&& 0x1F).toNat <<< 6) ||| (b1 &&& 0x3F).toNat = N at *
      cases br <;> by_cases hc1 : Utf8.isCont b1 = true <;> by_cases hq : N < 0x80 <;>
        simp [hc1, hq, getOut, lt32 N _ hN]
    · simp only [h2]
      by_cases h3 : (b0 &&& 0xF0 == 0xE0) = true
      · obtain ⟨hX, hN⟩ := v3 b0 b1 b2
        simp only [h3, if_true, hX]
        generalize ((((b0 &&& 0x0F).toNat <<< 6) ||| (b1 &&& 0x3F).toNat) <<< 6) ||| (b2 &&& 0x3F).toNat = N at *
        cases br <;> by_cases hc1 : Utf8.isCont b1 = true <;> by_cases hc2 : Utf8.isCont b2 = true <;>
          by_cases hq : (decide (N < 0x800) || (decide (N > 0xD7FF) && decide (N < 0xE000)) || decide (N > 0xFFFD)) = true <;>
          simp [hc1, hc2, hq, getOut, lt32 N _ hN, gt32 N _ hN] <;> simp_all
      · simp only [h3]
        by_cases h4 : (b0 &&& 0xF8 == 0xF0) = true
        · obtain ⟨hX, hN⟩ := v4 b0 b1 b2 b3
          simp only [h4, if_true, hX]
          generalize ((((((b0 &&& 0x07).toNat <<< 6) ||| (b1 &&& 0x3F).toNat) <<< 6) ||| (b2 &&& 0x3F).toNat) <<< 6) ||| (b3 &&& 0x3F).toNat = N at *
          cases br <;> by_cases hc1 : Utf8.isCont b1 = true <;> by_cases hc2 : Utf8.isCont b2 = true <;> by_cases hc3 : Utf8.isCont b3 = true <;>
            by_cases hq : (decide (N < 0x10000) || decide (N > 0x10FFFF)) = true <;>
            simp [hc1, hc2, hc3, hq, getOut, lt32 N _ hN, gt32 N _ hN] <;> simp_all
        · cases br <;> simp [h4, getOut]

/-- locality: only the first four bytes of the buffer (NUL beyond its end) are looked at -/
theorem gen_local (inp : Bytes) (c0 : UInt32) (br : Option UInt64) :
    Fn.ly_getutf8 inp c0 br = Fn.ly_getutf8 [C.rd inp 0, C.rd inp 1, C.rd inp 2, C.rd inp 3] c0 br := by
  have e1 : (1 : UInt64).toNat = 1 := rfl
  have e2 : ((1 : UInt64) + 1).toNat = 2 := rfl
  have e3 : ((1 : UInt64) + 1 + 1).toNat = 3 := rfl
  unfold Fn.ly_getutf8
  simp only [Nat.zero_add, e1, e2, e3]
  simp [C.rd]

theorem hand_local (inp : Bytes) :
    Utf8.getUtf8 inp = Utf8.getUtf8 [C.rd inp 0, C.rd inp 1, C.rd inp 2, C.rd inp 3] := by
  unfold Utf8.getUtf8
  simp [C.rd, Utf8.rd]

/-- **Bridge.**  The translated `ly_getutf8` is the hand model `Utf8.getUtf8`, on every buffer. -/
theorem getutf8_eq (inp : Bytes) (c0 : UInt32) (br : Option UInt64) :
    Fn.ly_getutf8 inp c0 br = getOut c0 br (Utf8.getUtf8 inp) := by
  rw [gen_local, hand_local, get4]

end LyModel.Bridge.Utf8
