import LyModel.Bridge.Basic
import LyModel.Generated.FnLyb
import LyModel.Lyb.Hash
/-!
# the hash shortening of `lyb_generate_hash` (lyb.c) as translated = the arithmetic of the hand model `Lyb.generateHash`

Slices of `lyb_generate_hash`: (1) `hash = full_hash & (LYB_HASH_MASK >> collision_id); hash |= LYB_HASH_COLLISION_ID >>
collision_id;` and (2) the choice of `ext_len`.  Method for (1): only the low byte of `full_hash` matters (locality), then the
GENERATED code is evaluated on all 256 low bytes × the 8 collision ids.
-/
namespace LyModel.Bridge.Lyb
open LyModel LyModel.Generated

/-- locality: only the low byte of the full hash matters -/
theorem mask_local (h : UInt32) (c : UInt8) :
    Fn.lyb_generate_hash__mask h c = Fn.lyb_generate_hash__mask h.toUInt8.toUInt32 c := by
  unfold Fn.lyb_generate_hash__mask
  simp [UInt32.toUInt8_and]
  have : h % 256 % 256 = h % 256 := by
    apply UInt32.toNat_inj.mp; simp
  rw [this]

set_option maxRecDepth 1000000 in
/-- the translated code on every low byte and collision id `< 8` (= `LYB_HASH_BITS`) -/
theorem mask_bytes : ∀ (c : Fin 8) (x : Fin 256),
    (Fn.lyb_generate_hash__mask (UInt8.ofNat x.val).toUInt32 (UInt8.ofNat c.val)).toNat
      = ((x.val &&& (LYB_HASH_MASK >>> c.val)) % 256 ||| (LYB_HASH_COLLISION_ID >>> c.val)) % 256 := by
  decide +kernel

/-- **Bridge.**  For every 32-bit hash and collision id `< 8` the translated statements compute the hand model's formula
    (the last line of `Lyb.generateHash`). -/
theorem mask_eq (h : UInt32) (c : UInt8) (hc : c.toNat < 8) :
    (Fn.lyb_generate_hash__mask h c).toNat
      = ((h.toNat &&& (LYB_HASH_MASK >>> c.toNat)) % 256 ||| (LYB_HASH_COLLISION_ID >>> c.toNat)) % 256 := by
  rw [mask_local]
  have := mask_bytes ⟨c.toNat, hc⟩ ⟨h.toUInt8.toNat, UInt8.toNat_lt _⟩
  simp only [UInt8.ofNat_toNat] at this
  rw [this]
  have e : h.toUInt8.toNat = h.toNat % 2 ^ 8 := by simp
  have m : (LYB_HASH_MASK >>> c.toNat) % 2 ^ 8 = LYB_HASH_MASK >>> c.toNat := by
    apply Nat.mod_eq_of_lt
    exact Nat.lt_of_le_of_lt (Nat.shiftRight_le _ _) (by decide)
  have : (h.toNat &&& (LYB_HASH_MASK >>> c.toNat)) % 2 ^ 8 = (h.toNat % 2 ^ 8 &&& (LYB_HASH_MASK >>> c.toNat)) % 2 ^ 8 := by
    rw [Nat.and_mod_two_pow, Nat.and_mod_two_pow, m, Nat.mod_mod]
  rw [e]
  simpa using congrArg (fun t => (t ||| (LYB_HASH_COLLISION_ID >>> c.toNat)) % 256) this.symm

/-- **Bridge.**  The number of module-name bytes hashed again: `min(collision_id, strlen(mod->name))` as in the hand model. -/
theorem extlen_eq (c : UInt8) (len : UInt64) :
    (Fn.lyb_generate_hash__extlen c len).toNat = (if c.toNat > len.toNat then len.toNat else c.toNat) := by
  unfold Fn.lyb_generate_hash__extlen
  simp only [gt_iff_lt, UInt64.lt_iff_toNat_lt, UInt8.toNat_toUInt64]
  by_cases h : len.toNat < c.toNat <;> simp [h]

end LyModel.Bridge.Lyb
