import LyModel.Bridge.Basic
import LyModel.Generated.FnUtf8
import LyModel.Text.Utf8
/-!
# `ly_pututf8` as translated from ly_common.c = the hand model `Utf8.putUtf8`

The generated definition (rewritten from the C source on every run) is unfolded and its `uint32_t` comparisons, shifts
and masks are pushed to `Nat` (`UInt32.toNat_*`); what remains is the hand model's case analysis.  A changed range
bound (`0x80`, `0x800`, `0xfffe`, `0x10fffe`), exclusion test, shift or mask in the C source breaks `pututf8_eq`.
-/
namespace LyModel.Bridge.Utf8
open LyModel LyModel.Generated

theorem toUInt8_eq (x : UInt32) : x.toUInt8 = UInt8.ofNat x.toNat := by
  apply UInt8.toNat_inj.mp; simp

theorem beq32 (a b : UInt32) : (a == b) = (a.toNat == b.toNat) := by
  rw [Bool.eq_iff_iff]; simp [← UInt32.toNat_inj]

/-- what `ly_pututf8(dst, v, &bw)` leaves behind, given the hand model's verdict: `LY_EINVAL` and nothing stored, or
    `LY_SUCCESS`, the encoding at the start of `dst` and its length in `*bytes_written` -/
def putOut (dst : Bytes) (bw : UInt64) : Option Bytes → Fn.ly_pututf8.R
  | none => ⟨3, dst, bw⟩
  | some bs => ⟨0, bs ++ dst.drop bs.length, UInt64.ofNat bs.length⟩

theorem pututf8_eq4 (a b c d : UInt8) (rest : List UInt8) (v : UInt32) (bw : UInt64) :
    Fn.ly_pututf8 (a :: b :: c :: d :: rest) v bw = putOut (a :: b :: c :: d :: rest) bw (Utf8.putUtf8 v.toNat) := by
  unfold Fn.ly_pututf8 Utf8.putUtf8
  simp only [C.wr_cons_zero, C.wr_cons_one, C.wr_cons_two, C.wr_cons_three, toUInt8_eq, UInt32.lt_iff_toNat_lt,
    UInt32.le_iff_toNat_le, bne, beq32, UInt32.toNat_and, UInt32.toNat_or, UInt32.toNat_shiftRight, UInt32.toNat_ofNat,
    ge_iff_le, Nat.reducePow, Nat.reduceMod]
  generalize v.toNat = n
  by_cases h1 : n < 128
  · by_cases h2 : (decide (n < 32) && !n == 9 && !n == 10 && !n == 13) = true <;> simp [h1, h2, putOut] <;> simp_all
  · by_cases h2 : n < 2048
    · simp [h1, h2, putOut]
    · by_cases h3 : n < 65534
      · by_cases h4 : (n &&& 63488 == 55296 || decide (64976 ≤ n) && decide (n ≤ 65007)) = true <;>
          simp [h1, h2, h3, h4, putOut] <;> simp_all
      · by_cases h4 : n < 1114110
        · by_cases h5 : (n &&& 65534 == 65534) = true <;> simp [h1, h2, h3, h4, h5, putOut] <;> simp_all
        · simp [h1, h2, h3, h4, putOut]

/-- **Bridge.**  On a destination buffer of at least 4 bytes (what every caller provides), the translated `ly_pututf8`
    returns `LY_EINVAL` (3) and stores nothing exactly when `Utf8.putUtf8` rejects the value, and otherwise returns
    `LY_SUCCESS`, stores exactly the hand model's bytes at the start of `dst` and reports their count. -/
theorem pututf8_eq (dst : Bytes) (v : UInt32) (bw : UInt64) (h : 4 ≤ dst.length) :
    Fn.ly_pututf8 dst v bw = putOut dst bw (Utf8.putUtf8 v.toNat) := by
  match dst, h with
  | a :: b :: c :: d :: rest, _ => exact pututf8_eq4 a b c d rest v bw

end LyModel.Bridge.Utf8
