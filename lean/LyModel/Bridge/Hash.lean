import LyModel.Bridge.Basic
import LyModel.Generated.FnHash
import LyModel.LyHt.Jenkins
/-!
# `lyht_hash_multi` / `lyht_hash` as translated from hash_table.c = the hand model `LyHt.Jenkins`

The generated definitions are rewritten by `tools/c2lean.py` from the C source on every run; these theorems are
re-checked against them.  A change of a shift, of the order of the mixing steps, of the `char` signedness handling or
of the NULL / `len == 0` branch structure breaks a theorem of this file by name.
-/
namespace LyModel.Bridge.Hash
open LyModel LyModel.Generated LyModel.LyHt

set_option maxRecDepth 100000 in
/-- `(uint32_t)(int)(char)b` as the translator spells it = the hand model's sign extension -/
theorem sext_eq : ∀ b : UInt8, b.toInt8.toInt32.toUInt32 = Jenkins.sext b := by
  apply forall_uint8; decide

/-- one round of the generated loop body is `Jenkins.step` -/
theorem body_eq (h : UInt32) (b : UInt8) :
    (let h1 := h + b.toInt8.toInt32.toUInt32
     let h2 := h1 + (h1 <<< (0xa : UInt32))
     h2 ^^^ (h2 >>> (6 : UInt32))) = Jenkins.step h b := by
  simp only [sext_eq, Jenkins.step]

theorem loop_eq (k : Bytes) (len : UInt64) (hl : len.toNat = k.length) (hk : k.length < 2 ^ 32) :
    ∀ (fuel : Nat) (h i : UInt32), i.toNat + fuel = k.length →
      Fn.lyht_hash_multi.loop1 (some k) len fuel h i = .next ((k.drop i.toNat).foldl Jenkins.step h, UInt32.ofNat k.length) := by
  intro fuel
  induction fuel with
  | zero =>
    intro h i hi
    have : i = UInt32.ofNat k.length := by
      apply UInt32.toNat_inj.mp
      simp [Nat.mod_eq_of_lt hk]; omega
    have hd : k.drop i.toNat = [] := by apply List.drop_eq_nil_of_le; omega
    simp only [Fn.lyht_hash_multi.loop1, hd, List.foldl_nil]
    rw [this]
  | succ n ih =>
    intro h i hi
    have hlt : i.toNat < k.length := by omega
    have hc : i.toUInt64 < len := by
      rw [UInt64.lt_iff_toNat_lt]; simp [hl]; exact hlt
    have hi1 : (i + 1).toNat = i.toNat + 1 := by
      rw [UInt32.toNat_add]; simp; omega
    have hd : k.drop i.toNat = k[i.toNat] :: k.drop (i.toNat + 1) := (List.drop_eq_getElem_cons hlt)
    have hrd : C.rd ((some k).getD []) i.toNat = k[i.toNat] := by
      simp [C.rd, List.getD_eq_getElem?_getD, hlt]
    unfold Fn.lyht_hash_multi.loop1
    simp only [hc, decide_true, if_true, hrd]
    rw [ih _ _ (by omega), hi1, hd, List.foldl_cons]
    have := body_eq h k[i.toNat]
    simp only at this
    rw [this]

/-- **Bridge.**  The translated `lyht_hash_multi` on a key of `len = k.length < 2^32` bytes, on the NULL key and on
    `len = 0` is the hand model `Jenkins.hashMulti`. -/
theorem hash_multi_eq (h : UInt32) (k : Bytes) (hk : k.length < 2 ^ 32) :
    Fn.lyht_hash_multi h (some k) (UInt64.ofNat k.length) = Jenkins.hashMulti h (some k) := by
  have hl : (UInt64.ofNat k.length).toNat = k.length := by
    simp; omega
  unfold Fn.lyht_hash_multi Jenkins.hashMulti
  by_cases h0 : k.length = 0
  · simp [h0, Jenkins.fin]
  · have hne : (UInt64.ofNat k.length != 0) = true := by
      simp; intro hz; apply h0; rw [← hl, hz]; rfl
    simp only [Option.isSome_some, hne, Bool.and_self, if_true]
    rw [loop_eq k _ hl hk _ _ _ (by simp [hl])]
    simp [h0]

theorem hash_multi_null (h : UInt32) (len : UInt64) :
    Fn.lyht_hash_multi h none len = Jenkins.hashMulti h none := by
  simp [Fn.lyht_hash_multi, Jenkins.hashMulti, Jenkins.fin]

/-- **Bridge.**  The translated `lyht_hash(key, len)` with `len = key.length` is `Jenkins.hash key`. -/
theorem hash_eq (k : Bytes) (hk : k.length < 2 ^ 32) :
    Fn.lyht_hash k (UInt64.ofNat k.length) = Jenkins.hash k := by
  simp only [Fn.lyht_hash, Jenkins.hash, hash_multi_eq _ k hk, hash_multi_null]

end LyModel.Bridge.Hash
