import LyModel.Bridge.Basic
import LyModel.Generated.FnPrint
import LyModel.Text.XmlText
import LyModel.Text.JsonText
/-!
# `lyxml_dump_text` (xml.c) and `json_print_string` (printer_json.c) as translated WHOLE — loop, switch, stream output — =
# the hand models `XmlText.dumpText` / `JsonText.printString`

The hand models map the per-byte table (`Generated/XmlEsc`, `JsonEsc`: the switch body as read by the first-stage translator)
over the string; here the functions themselves are translated (`out` = the bytes written so far; `ly_print_` / `ly_write_`
append).  `xml_step` / `json_step`: one iteration of the generated loop appends `esc b` (case analysis over the switch labels,
per-byte facts by evaluating all 256 bytes); `xml_loop` / `json_loop`: induction over the rest of the buffer.
-/
namespace LyModel.Bridge.Print
open LyModel LyModel.Generated

theorem rdn_one (b : List UInt8) (i : Nat) : C.rdn b i 1 = [C.rd b i] := by
  simp [C.rdn, List.range_succ]

set_option maxRecDepth 100000 in
theorem sc_lits : ∀ b : UInt8,
    (b.toInt8.toInt32 == (0x26 : Int32)) = (b == 0x26) ∧ (b.toInt8.toInt32 == (0x3c : Int32)) = (b == 0x3c) ∧
    (b.toInt8.toInt32 == (0x3e : Int32)) = (b == 0x3e) ∧ (b.toInt8.toInt32 == (0xd : Int32)) = (b == 0xd) ∧
    (b.toInt8.toInt32 == (9 : Int32)) = (b == 9) ∧ (b.toInt8.toInt32 == (0xa : Int32)) = (b == 0xa) ∧
    (b.toInt8.toInt32 == (0x22 : Int32)) = (b == 0x22) ∧ (b.toInt8 != 0) = (b != 0) := by
  apply forall_uint8; decide

set_option maxRecDepth 100000 in
theorem xml_esc_default : ∀ b : UInt8, ∀ a : Bool, b ≠ 0x26 → b ≠ 0x3c → b ≠ 0x3e → b ≠ 0xd → b ≠ 9 → b ≠ 0xa → (b ≠ 0x22 ∨ a = false) →
    XmlText.esc a b = [b] := by
  apply forall_uint8; decide

theorem xml_esc_special (a : Bool) :
    XmlText.esc a 0x26 = [38, 97, 109, 112, 59] ∧ XmlText.esc a 0x3c = [38, 108, 116, 59] ∧ XmlText.esc a 0x3e = [38, 103, 116, 59] ∧
    XmlText.esc a 0xd = [38, 35, 120, 68, 59] ∧ XmlText.esc true 9 = [38, 35, 120, 57, 59] ∧ XmlText.esc true 0xa = [38, 35, 120, 65, 59] ∧
    XmlText.esc false 9 = [9] ∧ XmlText.esc false 0xa = [0xa] ∧ XmlText.esc true 0x22 = [38, 113, 117, 111, 116, 59] := by
  cases a <;> decide

/-- one iteration of the translated loop of `lyxml_dump_text` appends the table entry of the byte under the cursor -/
theorem xml_step (text : Bytes) (attr : UInt8) (fuel : Nat) (out : Bytes) (ret : UInt32) (u : UInt64)
    (hb : C.rd text u.toNat ≠ 0) :
    Fn.lyxml_dump_text.loop1 attr (some text) (fuel + 1) out ret u
      = Fn.lyxml_dump_text.loop1 attr (some text) fuel (out ++ XmlText.esc (attr != 0) (C.rd text u.toNat)) 0 (u + 1) := by
  rw [Fn.lyxml_dump_text.loop1]
  simp only [Option.getD_some, rdn_one]
  obtain ⟨b, hbe⟩ : ∃ b, C.rd text u.toNat = b := ⟨_, rfl⟩
  simp only [hbe] at hb ⊢
  obtain ⟨l1, l2, l3, l4, l5, l6, l7, l0⟩ := sc_lits b
  simp only [l1, l2, l3, l4, l5, l6, l7, l0]
  have hb' : (b != 0) = true := by simpa using hb
  obtain ⟨s1, s2, s3, s4, s5, s6, s7, s8, s9⟩ := xml_esc_special (attr != 0)
  by_cases c1 : b = 0x26
  · subst c1; simp [s1]
  by_cases c2 : b = 0x3c
  · subst c2; simp [s2]
  by_cases c3 : b = 0x3e
  · subst c3; simp [s3]
  by_cases c4 : b = 0xd
  · subst c4; simp [s4]
  by_cases c5 : b = 9
  · subst c5; cases ha : (attr != 0) <;> simp_all
  by_cases c6 : b = 0xa
  · subst c6; cases ha : (attr != 0) <;> simp_all
  by_cases c7 : b = 0x22
  · subst c7
    cases ha : (attr != 0)
    · have := xml_esc_default 0x22 false (by decide) (by decide) (by decide) (by decide) (by decide) (by decide) (Or.inr rfl)
      simp_all
    · simp_all
  · have := xml_esc_default b (attr != 0) c1 c2 c3 c4 c5 c6 (Or.inl c7)
    simp [hb', c1, c2, c3, c4, c5, c6, c7, this]

/-- the translated loop on a NUL-free rest of the buffer -/
theorem xml_loop (text : Bytes) (attr : UInt8) (h0 : ∀ b ∈ text, b ≠ 0) (hl : text.length < 2 ^ 64) :
    ∀ (n : Nat) (out : Bytes) (ret : UInt32) (u : UInt64), u.toNat + n = text.length →
      ∃ r u', Fn.lyxml_dump_text.loop1 attr (some text) n out ret u
        = .next (out ++ (text.drop u.toNat).flatMap (XmlText.esc (attr != 0)), r, u') := by
  intro n
  induction n with
  | zero =>
    intro out ret u hu
    have : text.drop u.toNat = [] := List.drop_eq_nil_of_le (by omega)
    exact ⟨ret, u, by simp [Fn.lyxml_dump_text.loop1, this]⟩
  | succ n ih =>
    intro out ret u hu
    have hlt : u.toNat < text.length := by omega
    have hrd : C.rd text u.toNat = text[u.toNat] := by simp [C.rd, List.getD_eq_getElem?_getD, hlt]
    have hb : C.rd text u.toNat ≠ 0 := by rw [hrd]; exact h0 _ (List.getElem_mem hlt)
    have hu1 : (u + 1).toNat = u.toNat + 1 := by rw [UInt64.toNat_add]; simp; omega
    obtain ⟨r, u', e⟩ := ih (out ++ XmlText.esc (attr != 0) (C.rd text u.toNat)) 0 (u + 1) (by omega)
    refine ⟨r, u', ?_⟩
    rw [xml_step text attr n out ret u hb, e, hu1, hrd]
    have hd : text.drop u.toNat = text[u.toNat] :: text.drop (u.toNat + 1) := List.drop_eq_getElem_cons hlt
    rw [hd]
    simp only [List.flatMap_cons, List.append_assoc]

/-- **Bridge.**  The translated `lyxml_dump_text` on a NUL-free C string appends exactly `XmlText.dumpText` to the stream and
    returns `LY_SUCCESS`; on NULL it writes nothing. -/
theorem xml_dump_text_eq (out text : Bytes) (attr : UInt8) (h0 : ∀ b ∈ text, b ≠ 0) (hl : text.length < 2 ^ 64) :
    Fn.lyxml_dump_text out (some text) attr = ⟨0, out ++ XmlText.dumpText (attr != 0) text⟩ ∧
    Fn.lyxml_dump_text out none attr = ⟨0, out⟩ := by
  constructor
  · obtain ⟨r, u', e⟩ := xml_loop text attr h0 hl text.length out 0 0 (by simp)
    unfold Fn.lyxml_dump_text
    simp only [Option.isSome_some, Bool.not_true, Bool.false_eq_true, if_false, Option.getD_some]
    have : text.length - (0 : UInt64).toNat = text.length := by simp
    rw [this, e]
    simp [XmlText.dumpText]
  · simp [Fn.lyxml_dump_text]

/-! ## `json_print_string` -/

set_option maxRecDepth 100000 in
theorem uc_lits : ∀ b : UInt8,
    (b.toUInt32.toInt32 == (0x22 : Int32)) = (b == 0x22) ∧ (b.toUInt32.toInt32 == (0x5c : Int32)) = (b == 0x5c) ∧
    (b.toUInt32.toInt32 == (0xd : Int32)) = (b == 0xd) ∧ (b.toUInt32.toInt32 == (9 : Int32)) = (b == 9) ∧
    (b.toInt8 != 0) = (b != 0) := by
  apply forall_uint8; decide

set_option maxRecDepth 100000 in
/-- the `default:` branch of the translated switch (`iscntrl` → `\u%.4X`, else the byte) is the table entry -/
theorem json_esc_default : ∀ b : UInt8, b ≠ 0 → b ≠ 0x22 → b ≠ 0x5c → b ≠ 0xd → b ≠ 9 →
    (if (C.iscntrl b.toUInt32.toInt32 != 0) = true then [92, 117] ++ C.fmtX 4 b.toUInt32 else [b]) = JsonText.esc b := by
  apply forall_uint8; decide +kernel

theorem json_esc_special : JsonText.esc 0x22 = [92, 34] ∧ JsonText.esc 0x5c = [92, 92] ∧ JsonText.esc 0xd = [92, 114] ∧
    JsonText.esc 9 = [92, 116] := by decide

/-- one iteration of the translated loop of `json_print_string` appends the table entry of the byte under the cursor -/
theorem json_step (text : Bytes) (fuel : Nat) (out : Bytes) (i : UInt64) (hb : C.rd text i.toNat ≠ 0) :
    Fn.json_print_string.loop1 (some text) (fuel + 1) i out
      = Fn.json_print_string.loop1 (some text) fuel (i + 1) (out ++ JsonText.esc (C.rd text i.toNat)) := by
  rw [Fn.json_print_string.loop1]
  simp only [Option.getD_some, rdn_one]
  obtain ⟨b, hbe⟩ : ∃ b, C.rd text i.toNat = b := ⟨_, rfl⟩
  simp only [hbe] at hb ⊢
  obtain ⟨l1, l2, l3, l4, l0⟩ := uc_lits b
  simp only [l1, l2, l3, l4, l0]
  have hb' : (b != 0) = true := by simpa using hb
  obtain ⟨s1, s2, s3, s4⟩ := json_esc_special
  by_cases c1 : b = 0x22
  · subst c1; simp [s1]
  by_cases c2 : b = 0x5c
  · subst c2; simp [s2]
  by_cases c3 : b = 0xd
  · subst c3; simp [s3]
  by_cases c4 : b = 9
  · subst c4; simp [s4]
  · have := json_esc_default b hb c1 c2 c3 c4
    by_cases hc : (C.iscntrl b.toUInt32.toInt32 != 0) = true
    · rw [if_pos hc] at this
      simp [hb', c1, c2, c3, c4, hc, ← this, List.append_assoc]
    · rw [if_neg hc] at this
      simp [hb', c1, c2, c3, c4, hc, ← this]

theorem json_loop (text : Bytes) (h0 : ∀ b ∈ text, b ≠ 0) (hl : text.length < 2 ^ 64) :
    ∀ (n : Nat) (out : Bytes) (i : UInt64), i.toNat + n = text.length →
      ∃ i', Fn.json_print_string.loop1 (some text) n i out = .next (i', out ++ (text.drop i.toNat).flatMap JsonText.esc) := by
  intro n
  induction n with
  | zero =>
    intro out i hi
    have : text.drop i.toNat = [] := List.drop_eq_nil_of_le (by omega)
    exact ⟨i, by simp [Fn.json_print_string.loop1, this]⟩
  | succ n ih =>
    intro out i hi
    have hlt : i.toNat < text.length := by omega
    have hrd : C.rd text i.toNat = text[i.toNat] := by simp [C.rd, List.getD_eq_getElem?_getD, hlt]
    have hb : C.rd text i.toNat ≠ 0 := by rw [hrd]; exact h0 _ (List.getElem_mem hlt)
    have hi1 : (i + 1).toNat = i.toNat + 1 := by rw [UInt64.toNat_add]; simp; omega
    obtain ⟨i', e⟩ := ih (out ++ JsonText.esc (C.rd text i.toNat)) (i + 1) (by omega)
    refine ⟨i', ?_⟩
    rw [json_step text n out i hb, e, hi1, hrd]
    have hd : text.drop i.toNat = text[i.toNat] :: text.drop (i.toNat + 1) := List.drop_eq_getElem_cons hlt
    rw [hd]
    simp only [List.flatMap_cons, List.append_assoc]

/-- **Bridge.**  The translated `json_print_string` on a NUL-free C string appends exactly `JsonText.printString` (quotes
    included) to the stream and returns `LY_SUCCESS`; on NULL it writes nothing. -/
theorem json_print_string_eq (out text : Bytes) (h0 : ∀ b ∈ text, b ≠ 0) (hl : text.length < 2 ^ 64) :
    Fn.json_print_string out (some text) = ⟨0, out ++ JsonText.printString text⟩ ∧
    Fn.json_print_string out none = ⟨0, out⟩ := by
  constructor
  · obtain ⟨i', e⟩ := json_loop text h0 hl text.length (out ++ [34]) 0 (by simp)
    unfold Fn.json_print_string
    simp only [Option.isSome_some, Bool.not_true, Bool.false_eq_true, if_false, Option.getD_some]
    have : text.length - (0 : UInt64).toNat = text.length := by simp
    rw [this, e]
    simp [JsonText.printString]
  · simp [Fn.json_print_string]

end LyModel.Bridge.Print
