import LyModel.Bridge.Basic
import LyModel.Generated.FnHt
import LyModel.Generated.Consts
import LyModel.LyHt.Model
/-!
# hash_table.c size arithmetic as translated = the hand model `LyHt`

`lyht_get_fixed_size` whole; the load-factor tests of `_lyht_insert_with_resize_cb` / `lyht_remove_with_resize_cb` as
slices (the statements from `r = (ht->used * LYHT_HUNDRED_PERCENTAGE) / ht->size` to the `if` deciding to resize, with
`ht->used`, `ht->size`, `ht->resize` as parameters).  The hand model computes the load factor in `Nat`; the C computes
`used * 100` in `uint32_t`, so the bridge needs `used * 100 < 2^32` (about 42.9 million records).
-/
namespace LyModel.Bridge.Ht
open LyModel LyModel.Generated LyModel.LyHt

/-- **Bridge.** the translated `lyht_get_fixed_size` is the hand model, for every `uint32_t` -/
theorem fixed_size_eq (n : UInt32) : Fn.lyht_get_fixed_size n = getFixedSize n := by
  unfold Fn.lyht_get_fixed_size getFixedSize
  by_cases h : n = 0 <;> simp [h]

theorem u16_eq (r k : UInt16) : (r.toUInt32.toInt32 == k.toUInt32.toInt32) = (r == k) := by
  rw [Bool.eq_iff_iff]; simp only [beq_iff_eq]; constructor
  · intro h; have := congrArg Int32.toUInt32 h; simp at this; exact UInt16.toUInt32_inj.mp this
  · intro h; rw [h]
theorem u16_1 (r : UInt16) : (r.toUInt32.toInt32 == (1 : Int32)) = (r == 1) := u16_eq r 1
theorem u16_2 (r : UInt16) : (r.toUInt32.toInt32 == (2 : Int32)) = (r == 2) := u16_eq r 2

/-- the load factor as the C computes it, when `used * 100` does not wrap -/
theorem load_eq (used size : UInt32) (h : used.toNat * 100 < 2 ^ 32) :
    ((used * 100) / size).toNat = used.toNat * 100 / size.toNat := by
  rw [UInt32.toNat_div, UInt32.toNat_mul]
  have : (100 : UInt32).toNat = 100 := rfl
  rw [this, Nat.mod_eq_of_lt h]

/-- **Bridge (insert).**  For a table `h` with the given `used`, `size`, `resize`: the translated statements leave
    `h.armed.resize` in `ht->resize` and decide to enlarge exactly when the hand model `Ht.insert` does. -/
theorem grow_eq {α : Type} (h : Ht α) (used size : UInt32) (rs : UInt16) (hu : h.used = used.toNat) (hs : h.size = size.toNat)
    (hr : h.resize = rs.toNat) (hov : used.toNat * 100 < 2 ^ 32) :
    (Fn.lyht_insert__grow used size rs).resize.toNat = h.armed.resize ∧
    ((Fn.lyht_insert__grow used size rs).ret = 1 ↔
      (h.armed.resize = 2 ∧ (h.used * 100) / h.size ≥ LYHT_ENLARGE_PERCENTAGE)) := by
  have hl := load_eq used size hov
  unfold Fn.lyht_insert__grow Ht.armed
  simp only [u16_1, u16_2, UInt32.le_iff_toNat_le, ge_iff_le, hl, hu, hs, hr, LYHT_FIRST_SHRINK_PERCENTAGE, LYHT_ENLARGE_PERCENTAGE]
  have e1 : (rs == 1) = decide (rs.toNat = 1) := by
    rw [Bool.eq_iff_iff]; simp [← UInt16.toNat_inj]
  have e2 : (rs == 2) = decide (rs.toNat = 2) := by
    rw [Bool.eq_iff_iff]; simp [← UInt16.toNat_inj]
  have c50 : (0x32 : UInt32).toNat = 50 := rfl
  have c75 : (0x4b : UInt32).toNat = 75 := rfl
  simp only [e1, e2, c50, c75]
  generalize used.toNat * 100 / size.toNat = r
  generalize hrs : rs.toNat = k
  by_cases h1 : k = 1 <;> by_cases h2 : k = 2 <;> by_cases h3 : 50 ≤ r <;> by_cases h4 : 75 ≤ r <;> simp [h1, h2, h3, h4] <;> omega

/-- **Bridge (remove).**  The translated statements decide to shrink exactly when the hand model `Ht.remove` does. -/
theorem shrink_eq (used size : UInt32) (hov : used.toNat * 100 < 2 ^ 32) :
    (Fn.lyht_remove__shrink used size = 1) ↔
      ((used.toNat * 100) / size.toNat < LYHT_SHRINK_PERCENTAGE ∧ size.toNat > LYHT_MIN_SIZE) := by
  have hl := load_eq used size hov
  unfold Fn.lyht_remove__shrink
  simp only [UInt32.lt_iff_toNat_lt, gt_iff_lt, hl, LYHT_SHRINK_PERCENTAGE, LYHT_MIN_SIZE]
  have c25 : (0x19 : UInt32).toNat = 25 := rfl
  have c8 : (8 : UInt32).toNat = 8 := rfl
  simp only [c25, c8]
  generalize used.toNat * 100 / size.toNat = r
  by_cases h1 : r < 25 <;> by_cases h2 : 8 < size.toNat <;> simp [h1, h2]

end LyModel.Bridge.Ht
